#!/bin/sh
# sweep.sh <tier> <seed>... : every claimed check for each seed (6 at a time); prints only what is not exit 0
cd "$(dirname "$0")"
TIER=$1; shift
for S in "$@"; do
  VERIF_SEED=$S ./run_all.sh $TIER 2>&1 | grep -v "conda\|KNOWN-FINDING" | grep -v "exit 0" | sed "s/^/seed $S: /"
  echo "seed $S done"
done
