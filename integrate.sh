#!/bin/sh
# integrate.sh <builder> <Cxx> [Cyy…]: merge build-<builder> into /verif main, cherry-pick
# fix-<builder> onto /repo main, remap `fixed:` ids, claim the properties, rebuild.
set -e
N=$1; shift
cd /verif
git merge --no-edit -q build${R:-}-$N || { echo "VERIF MERGE CONFLICT"; exit 1; }
cd /repo
for c in $(git log --format=%h --reverse main..fix${R:-}-$N); do
  subj=$(git log -1 --format=%s $c)
  if git log --format=%s 76596b2..main | grep -qxF "$subj"; then echo "skip (already on main): $subj"; continue; fi
  git cherry-pick $c >/dev/null 2>&1 || { echo "REPO CHERRY-PICK CONFLICT at $c: $subj"; git status --short | head; exit 1; }
  echo "picked: $subj"
done
cd /verif
./remap_fixed.py fix${R:-}-$N | grep -v "^remapped" || true
python3 - "$@" <<'PY'
import json,sys
p='/verif/meta/_unclaimed.json'; d=json.load(open(p))
for k in sys.argv[1:]: d.pop(k,None)
json.dump(d,open(p,'w'),indent=1)
PY
./mkmanifest.py
git add -A && git commit -q -m "integrate builder '$N': claim $*; fixed ids remapped"
