#!/usr/bin/env python3
"""Writes MANIFEST.json from meta/*.json (claimed properties) — everything else is listed
under not_applicable with the reason recorded in meta/_unclaimed.json."""
import json, os, subprocess
V = os.path.dirname(os.path.abspath(__file__))
ids = ["C%02d" % i for i in range(1, 21)]
unclaimed = json.load(open(os.path.join(V, "meta", "_unclaimed.json")))
checks, na = [], []
for p in ids:
    mp = os.path.join(V, "meta", p + ".json")
    if os.path.exists(mp) and p not in unclaimed:
        m = json.load(open(mp))
        checks.append({
            "property_id": p,
            "quick_cmd": "./check %s --tier quick" % p,
            "thorough_cmd": "./check %s --tier thorough" % p,
            "evidence_file": "/verif/evidence/%s.json" % p,
            "replay_cmd_template": "./check %s --replay {path}" % p,
            "engine": "lean-proof+correspondence",
            "level_claimed": {"category": "proof", "text": m["level_text"], "design_ref": m.get("design_ref", "DESIGN.md §3 " + p)},
            "level_note": m["level_note"],
            "technique": m["technique"],
        })
    else:
        na.append({"property_id": p, "reason": unclaimed.get(p, "not built yet")})
hooks_commits = [l.strip() for l in open(os.path.join(V, "meta", "_hook_commits.txt")) if l.strip()] if os.path.exists(os.path.join(V, "meta", "_hook_commits.txt")) else []
man = {
    "version": 1,
    "setup_cmd": "./setup.sh",
    "hooks": {"guard": "verif", "enable": "go build -tags verif (the harness is built with this tag by ./check)",
              "baseline_off_cmd": "cd /repo && go test -mod=mod -json -vet=off -count=1 -timeout 25m ./...",
              "source_commits": hooks_commits, "add_only": True},
    "engines": [{"name": "lean-proof+correspondence", "path": "/verif/check",
                 "serves_properties": [c["property_id"] for c in checks],
                 "kind_free_text": "Lean 4 theorems about a hand-written executable model (lean/XmppModel), re-checked on every run together with facts regenerated from the source (harness facts -> lean/XmppModel/Generated), plus a differential correspondence check: the Go harness runs the real code, the compiled Lean driver runs the model on the same lines, outputs are diffed; a property oracle on the real outputs yields concrete failing inputs"}],
    "checks": checks,
    "notes": "See DESIGN.md. KNOWN_FINDINGS.txt lists recorded findings and repaired defects. Registered commands always run against /repo.",
    "not_applicable": na,
}
json.dump(man, open(os.path.join(V, "MANIFEST.json"), "w"), indent=1)
print("claimed:", [c["property_id"] for c in checks])
