# M5 (breaking): starttls.go — cache the default config in the closure again ("avoid re-allocating")
p='starttls.go'; s=open(p).read()
old='''			tlsCfg := cfg
			if tlsCfg == nil {
				tlsCfg = &tls.Config{
					ServerName: session.LocalAddr().Domain().String(),
					MinVersion: tls.VersionTLS12,
				}
			}
'''
new='''			if cfg == nil {
				cfg = &tls.Config{
					ServerName: session.LocalAddr().Domain().String(),
					MinVersion: tls.VersionTLS12,
				}
			}
			tlsCfg := cfg
'''
assert old in s; open(p,'w').write(s.replace(old,new))
