# M7 (breaking): features.go — the forced attempt is skipped when the list is not empty (only an empty list triggers it)
p='features.go'; s=open(p).read()
old='''		doStartTLS = first && !advertisedStartTLS && s.State()&Secure != Secure && doStartTLS
'''
new='''		doStartTLS = first && !advertisedStartTLS && s.State()&Secure != Secure && doStartTLS && list.total == 0
'''
assert old in s; open(p,'w').write(s.replace(old,new))
