# breaking: the 'to' of the peer's header is compared by domainpart only (another localpart / a resourcepart is taken over)
import sys
p=sys.argv[1]+'/negotiator.go'
s=open(p).read()
s=s.replace("case !newIn.To.Equal(jid.JID{}) && !origin.Equal(newIn.To):","case !newIn.To.Equal(jid.JID{}) && !origin.Domain().Equal(newIn.To.Domain()):")
open(p,'w').write(s)
