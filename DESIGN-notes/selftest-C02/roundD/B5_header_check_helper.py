# behaviour-preserving: the initiator's header address checks extracted into a helper, switch -> if chain, renamed locals
import sys
p=sys.argv[1]+'/negotiator.go'
s=open(p).read()
old=s[s.index("\t\t\t\tswitch {\n\t\t\t\tcase !location.Equal(newIn.From):"):s.index("\t\t\t\t*in = newIn\n\t\t\t}\n\t\t}\n\n\t\tcfg = f(s, &cfg)")]
new='''\t\t\t\tif addrErr := checkPeerHeader(location, origin, &newIn); addrErr != nil {
\t\t\t\t\treturn mask, nil, nState, addrErr
\t\t\t\t}
'''
s=s.replace(old,new)
s+='''
// checkPeerHeader compares the addresses of a stream header received by the
// initiating entity with the ones the session was created with.
func checkPeerHeader(remote, own jid.JID, hdr *stream.Info) error {
	if !remote.Equal(hdr.From) {
		return fmt.Errorf("xmpp: stream location %s does not match previously set location %s", hdr.From, remote)
	}
	if hdr.To.Equal(jid.JID{}) {
		return nil
	}
	if own.Equal(hdr.To) {
		return nil
	}
	return fmt.Errorf("xmpp: stream origin %s does not match previously set origin %s", hdr.To, own)
}
'''
open(p,'w').write(s)
