# M7b (round 2, features.go as of main): the forced attempt only when the list is empty
p='features.go'; s=open(p).read()
old="			startTLS.Negotiate != nil && startTLS.allowed(s.state)\n"
new="			startTLS.Negotiate != nil && startTLS.allowed(s.state) && list.total == 0\n"
assert old in s; open(p,'w').write(s.replace(old,new,1))
