# M4 (breaking): negotiator.go — the tee step also marks the features list as read (off-by-one call in the new flag)
p='negotiator.go'; s=open(p).read()
old='''			nState.cancelTee = cancel
			return mask, c, nState, err
'''
new='''			nState.cancelTee = cancel
			nState.featuresRead = true
			return mask, c, nState, err
'''
assert old in s; open(p,'w').write(s.replace(old,new))
