# H1b (round 2, harmless): drop `first &&` from the forced-attempt condition
p='features.go'; s=open(p).read()
old="		doStartTLS = first && !advertisedStartTLS"
new="		doStartTLS = (first || !first) && !advertisedStartTLS"
assert old in s; open(p,'w').write(s.replace(old,new,1))
