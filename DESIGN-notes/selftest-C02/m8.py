# M8 (breaking): starttls.go — <failure/> no longer returns an error (falls through to the Secure return without a new layer)
p='starttls.go'; s=open(p).read()
old='''						return 0, nil, fmt.Errorf("xmpp: receiver indicated that TLS negotiation failed")
'''
new='''						_ = fmt.Errorf("xmpp: receiver indicated that TLS negotiation failed")
'''
assert old in s; open(p,'w').write(s.replace(old,new))
