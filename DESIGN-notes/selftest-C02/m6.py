# M6 (breaking): sasl.go — authentication no longer requires the Secure bit
p='sasl.go'; s=open(p).read()
old='''		Necessary:  Secure,
		Prohibited: Authn,
'''
new='''		Prohibited: Authn,
'''
assert old in s; open(p,'w').write(s.replace(old,new))
