# H2 (harmless): session.go — OR the mask into the state before swapping the connection; negotiator.go — rename the new field
import re
p='session.go'; s=open(p).read()
old='''		if rw != nil {
			for k := range s.features {
				delete(s.features, k)
			}
'''
new='''		s.state |= mask
		if rw != nil {
			for k := range s.features {
				delete(s.features, k)
			}
'''
assert old in s; s=s.replace(old,new)
open(p,'w').write(s)
p='negotiator.go'; s=open(p).read()
s=s.replace('featuresRead','sawFeatures'); open(p,'w').write(s)
p='starttls.go'; s=open(p).read()
s=s.replace('tlsCfg','config'); open(p,'w').write(s)
