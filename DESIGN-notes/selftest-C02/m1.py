# M1 (breaking): features.go — swap two cascade steps: the empty-list test before the forced-STARTTLS test
p='features.go'; s=open(p).read()
old='''		switch {
		case doStartTLS:
			// Skip length checks if we need to negotiate StartTLS for downgrade
			// attack prevention.
		case list.total == 0:
			// If we received an empty list (or one with no supported features), we're
			// done.
			return Ready, nil, nil
'''
new='''		switch {
		case list.total == 0:
			// If we received an empty list (or one with no supported features), we're
			// done.
			return Ready, nil, nil
		case doStartTLS:
			// Skip length checks if we need to negotiate StartTLS for downgrade
			// attack prevention.
'''
assert old in s; open(p,'w').write(s.replace(old,new))
