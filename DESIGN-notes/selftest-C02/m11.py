# M11 (breaking): session.go — the XML encoder is not recreated on the new ReadWriter (keeps writing to the old, clear-text connection)
p='session.go'; s=open(p).read()
old='''			s.in.d = xml.NewDecoder(s.conn)
			s.out.e = xml.NewEncoder(s.conn)
		}
		s.state |= mask
'''
new='''			s.in.d = xml.NewDecoder(s.conn)
			if _, isTLS := s.conn.(*tls.Conn); !isTLS {
				s.out.e = xml.NewEncoder(s.conn)
			}
		}
		s.state |= mask
'''
assert old in s; open(p,'w').write(s.replace(old,new))
