# starttls.go: the default TLS configuration names the right server but verifies nothing
import sys
p=sys.argv[1]+'/starttls.go'
s=open(p).read()
a='''					MinVersion: tls.VersionTLS12,
				}
			}
'''
assert s.count(a)==1
s=s.replace(a,'''					MinVersion: tls.VersionTLS12,
					/* #nosec */
					InsecureSkipVerify: true,
				}
			}
''')
open(p,'w').write(s)
