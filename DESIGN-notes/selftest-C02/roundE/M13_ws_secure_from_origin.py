# websocket/ws.go: isSecure also accepts an https: / wss: ORIGIN (the seeded C02-19 on top of the fix)
import sys
p=sys.argv[1]+'/websocket/ws.go'
s=open(p).read()
a='''	return cfg != nil && cfg.Location != nil && cfg.Location.Scheme == "wss"'''
assert s.count(a)==1
s=s.replace(a,'''	if cfg == nil || cfg.Location == nil {
		return false
	}
	if cfg.Origin != nil && cfg.Origin.Scheme == "https" {
		return true
	}
	return cfg.Location.Scheme == "wss"''')
open(p,'w').write(s)
