# features.go: readStreamFeatures (three calls below NewNegotiator) remembers in a package-level
# variable that a features list has been read; negotiateFeatures uses it instead of `first`
import sys,re
p=sys.argv[1]+'/features.go'
s=open(p).read()
a='func readStreamFeatures('
assert s.count(a)==1
s=s.replace(a,'var listSeen bool\n\n'+a)
i=s.index(a)
j=s.index('{\n', i)+2
s=s[:j]+'\tdefer func() { listSeen = true }()\n'+s[j:]
open(p,'w').write(s)
