# behaviour preserving: websocket/ws.go isSecure as a type switch + url compare through a helper, renamed
import sys
p=sys.argv[1]+'/websocket/ws.go'
s=open(p).read()
i=s.index('func isSecure(rw io.ReadWriter) bool {')
j=s.index('\n}\n', i)+3
s=s[:i]+'''func isSecure(carrier io.ReadWriter) bool {
	switch c := carrier.(type) {
	case *websocket.Conn:
		return overTLS(c.Config())
	default:
		return false
	}
}

func overTLS(cfg *websocket.Config) bool {
	if cfg == nil || cfg.Location == nil {
		return false
	}
	if cfg.Location.Scheme != "wss" {
		return false
	}
	return true
}
'''+s[j:]
open(p,'w').write(s)
