# negotiator.go: with the WebSocket framing the RFC 7590 attempt is not made ("no in-band TLS over WebSocket")
import sys
p=sys.argv[1]+'/negotiator.go'
s=open(p).read()
a='''		first := !nState.featuresRead
'''
assert s.count(a)==1
s=s.replace(a,'''		first := !nState.featuresRead && !websocket
''')
open(p,'w').write(s)
