#!/bin/bash
# usage: try.sh <name> <script.py>   (scratch worktree of the repo branch, removed afterwards)
export GOFLAGS=-mod=mod GOPROXY=off GOSUMDB=off GOTOOLCHAIN=local
R=${REPO_WT:-/var/tmp/br-tls}; V=${VERIF_WT:-/var/tmp/bw-tls}
W=/var/tmp/bs-tls-$1
git -C $R worktree remove --force $W 2>/dev/null
git -C $R worktree add -q --detach $W HEAD && python3 $2 $W && (cd $W && go build ./... ) && (cd $V && VERIF_REPO=$W ./check C02; echo exit $?)
git -C $R worktree remove --force $W
