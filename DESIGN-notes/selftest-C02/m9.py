# M9 (breaking): conn.go — newTeeConn forgets to remember the *tls.Conn it wraps (ConnectionState of a teed session is empty)
p='conn.go'; s=open(p).read()
old='''	tc.tlsConn, _ = c.(*tls.Conn)
'''
new='''	_, _ = c.(*tls.Conn)
'''
assert old in s; open(p,'w').write(s.replace(old,new))
