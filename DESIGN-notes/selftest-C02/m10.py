# M10 (breaking): negotiator.go — a stale tee is not cancelled before re-wrapping and the wrap is skipped once a tee exists anywhere (tee only wrapped once: after TLS the connection is no longer teed, so no second wrap and the decoder restart differs)
p='negotiator.go'; s=open(p).read()
old='''		if _, ok := c.(teeConn); !ok && (cfg.TeeIn != nil || cfg.TeeOut != nil) {'''
new='''		if _, ok := c.(teeConn); !ok && nState.cancelTee == nil && (cfg.TeeIn != nil || cfg.TeeOut != nil) {'''
assert old in s; open(p,'w').write(s.replace(old,new))
