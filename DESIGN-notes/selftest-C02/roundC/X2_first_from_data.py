import sys; sys.path.insert(0,'/tmp/tlsw'); from edit import sub
sub('negotiator.go','first := !nState.featuresRead','first := data == nil')
