import sys; sys.path.insert(0,'/tmp/tlsw'); from edit import sub
# the closure becomes an object; the first-list flag is a field of the (shared) object
sub('negotiator.go','''func negotiator(f func(*Session, *StreamConfig) StreamConfig) Negotiator {
	initialCfg := f(nil, nil)
	return func(ctx context.Context,''','''type negotiatorObj struct {
	f          func(*Session, *StreamConfig) StreamConfig
	initialCfg StreamConfig
	seen       bool
}

func negotiator(f func(*Session, *StreamConfig) StreamConfig) Negotiator {
	n := &negotiatorObj{f: f, initialCfg: f(nil, nil)}
	return n.negotiate
}

func (n *negotiatorObj) negotiate(ctx context.Context,''')
sub('negotiator.go','''		cfg = f(s, &cfg)
		nState.cfg = cfg
		first := !nState.featuresRead
		nState.featuresRead = true
		mask, rw, err = negotiateFeatures(ctx, s, first, websocket, cfg.Features)
		nState.doRestart = rw != nil
		return mask, rw, nState, err
	}
}''','''		cfg = n.f(s, &cfg)
		nState.cfg = cfg
		first := !n.seen
		n.seen = true
		mask, rw, err = negotiateFeatures(ctx, s, first, websocket, cfg.Features)
		nState.doRestart = rw != nil
		return mask, rw, nState, err
}''')
sub('negotiator.go','cfg:       initialCfg,','cfg:       n.initialCfg,')
