import sys; sys.path.insert(0,'/tmp/tlsw'); from edit import sub
sub('session.go','if _, ok := s.conn.(*tls.Conn); ok {\n\t\ts.state |= Secure','if _, ok := rw.(interface{ ConnectionState() tls.ConnectionState }); ok {\n\t\ts.state |= Secure')
