import sys; sys.path.insert(0,'/tmp/tlsw'); from edit import sub
sub('negotiator.go','''func negotiator(f func(*Session, *StreamConfig) StreamConfig) Negotiator {
	initialCfg := f(nil, nil)
	return func(ctx context.Context,''','''type negotiatorObj struct {
	f          func(*Session, *StreamConfig) StreamConfig
	initialCfg StreamConfig
}

func negotiator(f func(*Session, *StreamConfig) StreamConfig) Negotiator {
	n := &negotiatorObj{f: f, initialCfg: f(nil, nil)}
	return n.negotiate
}

func (n *negotiatorObj) negotiate(ctx context.Context,''')
sub('negotiator.go','''		cfg = f(s, &cfg)''','''		cfg = n.f(s, &cfg)''')
sub('negotiator.go','''		return mask, rw, nState, err
	}
}''','''		return mask, rw, nState, err
}''')
sub('negotiator.go','cfg:       initialCfg,','cfg:       n.initialCfg,')
