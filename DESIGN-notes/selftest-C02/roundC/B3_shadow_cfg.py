import sys; sys.path.insert(0,'/tmp/tlsw'); from edit import sub
sub('starttls.go','''			tlsCfg := cfg
			if tlsCfg == nil {
				tlsCfg = &tls.Config{''','''			cfg := cfg // per call copy of the pointer; the captured variable is not touched
			if cfg == nil {
				cfg = &tls.Config{''')
sub('starttls.go','rw = tls.Server(conn, tlsCfg)','rw = tls.Server(conn, cfg)')
sub('starttls.go','rw = tls.Client(conn, tlsCfg)','rw = tls.Client(conn, cfg)')
