import sys; sys.path.insert(0,'/tmp/tlsw'); from edit import sub
sub('starttls.go','''						return 0, nil, fmt.Errorf("xmpp: receiver indicated that TLS negotiation failed")''','''						return 0, nil, nil''')
