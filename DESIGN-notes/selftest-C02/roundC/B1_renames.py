import sys; sys.path.insert(0,'/tmp/tlsw'); from edit import sub
s=open('negotiator.go').read()
s=s.replace('return negotiator(cfg)','return buildNegotiator(cfg)').replace('func negotiator(f func','func buildNegotiator(lookup func')
s=s.replace('initialCfg := f(nil, nil)','startCfg := lookup(nil, nil)').replace('cfg:       initialCfg,','cfg:       startCfg,').replace('cfg = f(s, &cfg)','cfg = lookup(s, &cfg)')
s=s.replace('s *Session, data interface{}) (mask SessionState, rw io.ReadWriter, restartNext interface{}, err error) {\n\t\tnState, ok := data.(negotiatorState)','s *Session, cache interface{}) (mask SessionState, rw io.ReadWriter, restartNext interface{}, err error) {\n\t\tnState, ok := cache.(negotiatorState)')
s=s.replace('featuresRead','sawList')
s=s.replace('''		first := !nState.sawList
		nState.sawList = true
		mask, rw, err = negotiateFeatures(ctx, s, first, websocket, cfg.Features)''','''		mask, rw, err = negotiateFeatures(ctx, s, nState.firstList(), websocket, cfg.Features)''')
s=s.replace('func buildNegotiator(','''// firstList reports whether no features list has been handled yet and records
// that one is being handled now.
func (n *negotiatorState) firstList() bool {
	first := !n.sawList
	n.sawList = true
	return first
}

func buildNegotiator(''')
open('negotiator.go','w').write(s)
assert 'firstList()' in s and 'buildNegotiator(lookup' in s and 'cache.(negotiatorState)' in s
