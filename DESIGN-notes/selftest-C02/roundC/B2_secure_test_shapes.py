import sys; sys.path.insert(0,'/tmp/tlsw'); from edit import sub
sub('session.go','if _, ok := s.conn.(*tls.Conn); ok {\n\t\ts.state |= Secure','switch s.conn.(type) {\n\tcase *tls.Conn:\n\t\ts.state = s.state | Secure')
