import sys; sys.path.insert(0,'/tmp/tlsw'); from edit import sub
# the first-list flag moved to a package-level variable (shared by every session of the process)
sub('negotiator.go','type negotiatorState struct {','var featuresSeen bool\n\ntype negotiatorState struct {')
sub('negotiator.go','first := !nState.featuresRead\n\t\tnState.featuresRead = true','first := !featuresSeen\n\t\tfeaturesSeen = true')
