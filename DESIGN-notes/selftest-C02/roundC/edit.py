import sys
def sub(path, old, new, count=1):
    s=open(path).read()
    if old not in s:
        print("PATTERN NOT FOUND in", path, ":", old[:60]); sys.exit(1)
    s=s.replace(old,new,count)
    open(path,'w').write(s)
