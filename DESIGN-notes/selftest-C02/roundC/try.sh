#!/bin/bash
# usage: try.sh <name> <patchfile | pyfile.py>
export GOFLAGS=-mod=mod GOPROXY=off GOSUMDB=off GOTOOLCHAIN=local
W=/var/tmp/bs-tls
git -C /var/tmp/br-tls worktree remove --force $W 2>/dev/null
git -C /var/tmp/br-tls worktree add -q --detach $W HEAD || exit 2
cd $W
case "$2" in
 *.py) python3 "$2" || { echo "EDIT FAILED"; exit 2; } ;;
 *) git apply "$2" || { echo "APPLY FAILED"; exit 2; } ;;
esac
gofmt -l . | head -3
go build ./... 2>&1 | head -5
git diff > /tmp/tlsw/mut/$1.diff
cd /var/tmp/bw-tls && VERIF_REPO=$W ./check C02 > /tmp/tlsw/mut/$1.out 2>&1; rc=$?
echo "== $1 exit $rc"
grep -E "VIOLATION|BROKEN|broken|obligation" /tmp/tlsw/mut/$1.out | cut -c1-260 | sort | uniq -c | sort -rn | head -12
tail -1 /tmp/tlsw/mut/$1.out | cut -c1-250
git -C /var/tmp/br-tls worktree remove --force $W
