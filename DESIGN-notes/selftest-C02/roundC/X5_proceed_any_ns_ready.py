import sys; sys.path.insert(0,'/tmp/tlsw'); from edit import sub
# Negotiate returns Secure|Ready: the session is done as soon as the layer is installed
sub('starttls.go','			return Secure, rw, nil\n','			return Secure | Ready, rw, nil\n')
