# H1 (harmless): features.go — drop the `first &&` from the forced-attempt condition (in clear text every list is the first one; after TLS the Secure test decides)
p='features.go'; s=open(p).read()
old='''		doStartTLS = first && !advertisedStartTLS && s.State()&Secure != Secure && doStartTLS
'''
new='''		doStartTLS = !advertisedStartTLS && s.State()&Secure != Secure && doStartTLS
		_ = first
'''
assert old in s; open(p,'w').write(s.replace(old,new))
