# H3 (harmless): conn.go — teeConn.Write checks the cancelled context first and the nil writer second
p='conn.go'; s=open(p).read()
old='''func (tc teeConn) Write(p []byte) (int, error) {
	if tc.multiWriter == nil {
		return tc.Conn.Write(p)
	}
	select {
	case <-tc.ctx.Done():
		return tc.Conn.Write(p)
	default:
	}
	return tc.multiWriter.Write(p)
}
'''
new='''func (tc teeConn) Write(p []byte) (int, error) {
	select {
	case <-tc.ctx.Done():
		return tc.Conn.Write(p)
	default:
	}
	if tc.multiWriter == nil {
		return tc.Conn.Write(p)
	}
	return tc.multiWriter.Write(p)
}
'''
assert old in s; open(p,'w').write(s.replace(old,new))
