# M2 (breaking): session.go — keep the old XML decoder when the negotiator returns a new ReadWriter (forget to drop read-ahead)
p='session.go'; s=open(p).read()
old='''			s.in.d = xml.NewDecoder(s.conn)
			s.out.e = xml.NewEncoder(s.conn)
		}
		s.state |= mask
'''
new='''			if _, isTLS := s.conn.(*tls.Conn); !isTLS {
				s.in.d = xml.NewDecoder(s.conn)
			}
			s.out.e = xml.NewEncoder(s.conn)
		}
		s.state |= mask
'''
assert old in s; open(p,'w').write(s.replace(old,new))
