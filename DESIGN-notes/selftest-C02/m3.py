# M3 (breaking): features.go readStreamFeatures — drop the mask test when caching parsed features
p='features.go'; s=open(p).read()
old='''				if s.state&feature.Necessary == feature.Necessary &&
					s.state&feature.Prohibited == 0 {
'''
new='''				if s.state&feature.Prohibited == 0 {
'''
assert old in s; open(p,'w').write(s.replace(old,new))
