#!/usr/bin/env python3
"""mkbuilder.py <round> <name> <Cxx> [Cyy…] [-- extra task text file]: create the worktrees of a builder sub-agent
(/var/tmp/bw-<name>: /verif on branch build<round>-<name>; /var/tmp/br-<name>: /repo on branch fix<round>-<name>),
copy the Lean build output so that it does not rebuild from scratch, and print the builder's prompt.
Integration afterwards: R=<round> ./integrate.sh <name> <Cxx>…
Re-runs of stored changes: seeded/stream.sh Cxx "seeded/<id> benign/<id> …" (one sequential stream per property; never two
checks of the same property at once in one tree); re-basing stored patches: give a sub-agent seeded/rebase-prompt.txt + a list."""
import json, os, subprocess, sys, glob, shutil

rnd, name = sys.argv[1], sys.argv[2]
rest = sys.argv[3:]
extra = ''
if '--' in rest:
    i = rest.index('--'); extra = open(rest[i + 1]).read(); rest = rest[:i]
props = rest
BW, BR = '/var/tmp/bw-' + name, '/var/tmp/br-' + name
def sh(*a, **k): return subprocess.run(a, capture_output=True, text=True, **k)
sh('git', '-C', '/verif', 'worktree', 'remove', '--force', BW); sh('git', '-C', '/verif', 'branch', '-D', 'build%s-%s' % (rnd, name))
sh('git', '-C', '/repo', 'worktree', 'remove', '--force', BR); sh('git', '-C', '/repo', 'branch', '-D', 'fix%s-%s' % (rnd, name))
r = sh('git', '-C', '/verif', 'worktree', 'add', '-q', '-b', 'build%s-%s' % (rnd, name), BW, 'HEAD'); assert r.returncode == 0, r.stderr
r = sh('git', '-C', '/repo', 'worktree', 'add', '-q', '-b', 'fix%s-%s' % (rnd, name), BR, 'HEAD'); assert r.returncode == 0, r.stderr
if os.path.isdir('/verif/lean/.lake'):
    sh('cp', '-a', '/verif/lean/.lake', BW + '/lean/.lake')
    os.makedirs(BW + '/lean/XmppModel/Generated', exist_ok=True)
    for f in glob.glob('/verif/lean/XmppModel/Generated/*.lean'): shutil.copy2(f, BW + '/lean/XmppModel/Generated/')
os.makedirs(BW + '/harness/bin', exist_ok=True)
plist = ', '.join(props)
missed = []
for p in props:
    for d in sorted(glob.glob('/verif/seeded/%s-*/' % p)):
        lv = os.path.join(d, 'last_run.log')
        if os.path.exists(lv) and '[check]' in open(lv).read() and 'VIOLATION' not in open(lv).read():
            missed.append(os.path.basename(d.rstrip('/')))
vt = '/verif/seeded/VERDICTS.tsv'
if os.path.exists(vt):
    for l in open(vt):
        f = l.rstrip('\n').split('\t')
        if len(f) >= 2 and f[0][:3] in props and f[1] in ('MISSED', 'not run yet') and f[0] not in missed: missed.append(f[0])
falsealarms = []
for p in props:
    for d in sorted(glob.glob('/verif/benign/%s-*/' % p)):
        lv = os.path.join(d, 'last_run.log')
        if os.path.exists(lv) and 'VIOLATION' in open(lv).read():
            falsealarms.append(os.path.basename(d.rstrip('/')))
print(f"""You are a *builder* on an existing, mature verification framework: machine-checked Lean 4 proofs about executable models of the Go
XMPP library mellium.im/xmpp, tied to the Go source on every run by regenerated facts (go/ast) and differential execution.
You own the properties {plist} in this round ("round {rnd}", builder name "{name}").

Your worktrees (work ONLY there; never edit /verif or /repo directly, never run anything that writes there):
  {BW}   the framework (git worktree of /verif, branch build{rnd}-{name}) - commit here, small commits
  {BR}   the library   (git worktree of /repo,  branch fix{rnd}-{name})  - only `fix:` / `verif:` commits as described in BUILDING.md §5
In every shell call:  export GOFLAGS=-mod=mod GOPROXY=off GOSUMDB=off GOTOOLCHAIN=local VERIF_REPO={BR}
Run checks as:        cd {BW} && ./check Cxx            (and --tier thorough)    -> must exit 0 on your repo worktree
The Lean build output was copied in; `(cd {BW}/lean && lake build xdriver XmppModel.Props.Cxx)` is incremental.
There is no network.  16 cores are shared with about ten other builders: do not start more than 3 heavy processes at a time.

Read first (in {BW}): BUILDING.md (conventions - binding), DESIGN.md §0 and §2.3-§2.5, §7a, the property texts in properties.jsonl
(never edit that file), DESIGN-notes/Cxx.md of your properties (what was built in earlier rounds, the mutation tables), meta/Cxx.json,
and then the code: lean/XmppModel/{{Model,Lemmas,Props,Driver}}, harness/cxx/.

GOALS OF THIS ROUND, in this order of priority:

1. Independently written breaking changes that your property's check MISSED (each is a directory under {BW}/seeded/ with patch.diff,
   demo_test.go, meta.json): {', '.join(missed) if missed else '(none currently)'}
   For each: understand which clause of the property it breaks and why generators / oracle / model / facts did not see it; then widen the
   machinery in a GENERAL way (a new dimension of the generators, a clause of the oracle that was not checked, a new piece of the model with
   theorems about it, a new regenerated fact consumed by a theorem) - never a special case for that one patch.  Verify with
   `seeded/run.sh <dir>` ... note: that script uses /repo's HEAD and /verif's scripts; use instead:
       W=/var/tmp/bs-{name}; git -C {BR} worktree add -q --detach $W HEAD && (cd $W && git apply {BW}/seeded/<dir>/patch.diff) && (cd {BW} && VERIF_REPO=$W ./check Cxx; echo exit $?); git -C {BR} worktree remove --force $W
   Expected: exit 1 and a VIOLATION line with a replay that holds a concrete failing input where one exists.
2. False alarms: behaviour-preserving rewrites under {BW}/benign/ on which the check raised a VIOLATION: {', '.join(falsealarms) if falsealarms else '(none currently)'}.
   A check must stay silent on code for which the property holds.  Fix the machinery (model as a relation where the implementation is free,
   make AST facts robust to renames/extracted helpers/switch-vs-if), never by loosening what the property demands.
   Most false alarms come from *syntactic* facts (go/ast pattern matches) that break when a maintainer extracts a helper, turns a switch into
   an if chain, renames a field or replaces a loop by a library call.  Where the fact is about BEHAVIOUR of a function over a finite domain,
   replace it by a *probe fact*: `harness facts` runs the real function on the complete finite domain (all mask triples, all pairs of a small
   universe of identities, every byte value, every token kind x depth, a recording connection that logs which deadline setter is called ...)
   and emits the resulting table as a Lean `def`; the theorem proves the model agrees with the whole table (`decide`).  That survives every
   refactoring and still breaks when behaviour changes.  Keep syntactic facts only for what cannot be probed (lock discipline, closure capture,
   goroutine starts, package-level state) and make those tolerant: follow calls into unexported helpers of the same package (one or two
   levels), treat closures/method values passed as arguments as calls, accept if-chains and switches alike, never depend on names of locals,
   unexported fields or helper functions.  Test with your own behaviour-preserving rewrites (at least: extract helper, switch<->if, rename).
3. EXTEND what the framework covers for your properties: more of the anchored code inside the Lean model, more theorems (stated at full
   strength, with non-vacuity examples), a tighter tie between model and code (more regenerated facts consumed by theorems, differential
   runs over more dimensions: sizes, boundaries, fault points, interleavings, configurations, roles, framings).  Re-read the property text
   clause by clause and the anchored source files function by function; list (in DESIGN-notes/Cxx.md) which clauses / functions have no
   theorem or no generator dimension yet and close the most important gaps.  Think about what a plausible regression in each anchored
   function would look like (lost error check, wrong key, off-by-one, boundary, stale cache, missing reset, narrowed lock, reordered writes,
   shared mutable state, unflushed buffer) and make sure some theorem+tie would break.  Write your own breaking mutations (and a few
   behaviour-preserving rewrites) in a scratch worktree to test it, and record the table in the notes.
4. Keep the check sound and quiet: exit 0 on the unchanged tree for seeds 1-5 (`VERIF_SEED=n ./check Cxx`), quick tier < 2 min wall, thorough < 15 min;
   no `sorry`/`admit`/`native_decide`/`bv_decide`/own axioms; every theorem in Props/Cxx.lean is audited with #print axioms by `check`.
   If you find a genuine defect of the library on the unchanged tree, follow BUILDING.md §5 (one small `fix:` commit in {BR}, the repo's suite
   must still pass: `{BW}/baseline.sh {BR}`; `fixed:` line in KNOWN_FINDINGS.txt) or record a `known:` line.

Rules: touch only the files of your properties (BUILDING.md §1) plus new Prelude/Model/Lemmas modules you add; do not edit `check`, `MANIFEST.json`,
`properties.jsonl`, other properties' files; if you need a change in shared code say so in your report.  Commit early and often in both worktrees
(`git add -A && git commit -m ...`).  Update DESIGN-notes/Cxx.md (section "Round {rnd}") and meta/Cxx.json (level_text/technique must stay truthful).
Time budget: about 100 minutes of wall clock; stop then with everything committed and ./check green on your repo worktree.
{extra}
Final report (plain text, <= 40 lines): per property what you added (model parts, theorem names, facts, generator dimensions), which missed seeded changes
are now caught (with the clause reported), false alarms fixed, defects found/fixed in the library (commit subjects), quick/thorough wall times, anything
needing a change outside your files.""")
