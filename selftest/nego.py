#!/usr/bin/env python3
"""Self-test of the C01 / C04 checks: apply one mutation to the repo worktree, build, run
the tests of the touched packages, run ./check C01 and ./check C04, print the outcome,
revert.  Usage: selftest/nego.py [REPO] [name ...]   (REPO defaults to /var/tmp/xv-r-nego)"""
import json, os, re, subprocess, sys

VERIF = os.path.dirname(os.path.dirname(os.path.abspath(__file__)))
args = sys.argv[1:]
REPO = args.pop(0) if args and args[0].startswith('/') else '/var/tmp/xv-r-nego'
ENV = dict(os.environ, GOFLAGS='-mod=mod', GOPROXY='off', GOSUMDB='off', GOTOOLCHAIN='local', VERIF_REPO=REPO)

MUTS = {
 # ---- breaking, C01
 'M1-client-no-mask-retest': ('features.go', '''					if !v.feature.allowed(s.state) {''', '''					if false {'''),
 'M2-server-no-mask-retest': ('features.go', ' || !data.feature.allowed(s.state) {', ' {'),
 'M3-ready-with-restart': ('features.go', 'if !list.req && rw == nil {', 'if !list.req {'),
 'M4-server-no-negotiated-check': ('features.go', 'if !sent || negotiated || data.feature.Negotiate == nil', 'if _ = negotiated; !sent || data.feature.Negotiate == nil'),
 'M5-mandatory-first': ('features.go', '''					if !v.req {
						data = v
						break
					}''', '''					if v.req {
						data = v
						break
					}'''),
 'M6-allowed-ignores-prohibited': ('features.go', 'return state&f.Necessary == f.Necessary && state&f.Prohibited == 0', 'return state&f.Necessary == f.Necessary'),
 'M7-forced-starttls-on-later-lists': ('features.go', 'doStartTLS = first && !advertisedStartTLS', 'doStartTLS = !advertisedStartTLS'),
 'M8-short-list-is-ready': ('features.go', 'case list.total == 0:', 'case list.total <= 1:'),
 'M9-forced-starttls-ignores-negotiable': ('features.go', 'startTLS.Negotiate != nil && startTLS.allowed(s.state)', 'startTLS.allowed(s.state)'),
 'M10-informational-selectable': ('features.go', 'if _, ok := s.negotiated[v.feature.Name.Space]; ok || v.feature.Negotiate == nil {', 'if _, ok := s.negotiated[v.feature.Name.Space]; ok {'),
 'M11-skipped-required-ignored': ('features.go', 'if v.req && !ok && v.feature.Negotiate != nil && v.feature.allowed(s.state) {', 'if false && v.req && !ok {'),
 'M12-skipped-not-recorded': ('features.go', """				sf.skipped = append(sf.skipped, sfData{
					req:     req,
					feature: feature,
				})
""", ''),
 # ---- breaking, C04
 'N1-swallow-feature-error': ('features.go', '''		if err != nil {
			// Negotiation ends with the first feature that fails, even if it was
			// optional and more features remain.
			return mask, nil, err
		}
		s.state |= mask''', '''		if err == nil {
			s.state |= mask
		}'''),
 'N2-mask-before-error-check': ('session.go', '''		mask, rw, data, err = negotiate(ctx, &s.in.Info, &s.out.Info, s, data)
		if err != nil {
			return s, err
		}''', '''		mask, rw, data, err = negotiate(ctx, &s.in.Info, &s.out.Info, s, data)
		s.state |= mask
		if err != nil {
			return s, err
		}'''),
 'N3-no-ctx-check': ('session.go', '''		if err = ctx.Err(); err != nil {
			return s, err
		}''', ''),
 'N4-deadline-reset-at-once': ('session.go', '''			conn.SetDeadline(aLongTimeAgo)
			<-cancelCtx.Done()''', '''			conn.SetDeadline(aLongTimeAgo)'''),
 'N5-parse-error-ignored': ('features.go', '''				req, data, err := feature.Parse(ctx, limitDecoder, &tok)
				if err != nil {
					return nil, err
				}''', '''				req, data, _ := feature.Parse(ctx, limitDecoder, &tok)'''),
 'N6-list-error-ignored': ('features.go', '''			if err != nil {
				return list, err
			}
			list.cache[feature.Name.Space]''', '''			err = nil
			list.cache[feature.Name.Space]'''),
 'N7-header-write-error-ignored': ('negotiator.go', '''				err = intstream.Send(s.Conn(), out, websocket, stream.DefaultVersion, cfg.Lang, location.String(), origin.String(), "")
				if err != nil {
					nState.doRestart = false
					return mask, nil, nState, err
				}''', '''				_ = intstream.Send(s.Conn(), out, websocket, stream.DefaultVersion, cfg.Lang, location.String(), origin.String(), "")'''),
 'N8-read-deadline-only': ('session.go', """			conn.SetDeadline(aLongTimeAgo)
			<-cancelCtx.Done()
			/* #nosec */
			conn.SetDeadline(time.Time{})""", """			conn.SetReadDeadline(aLongTimeAgo)
			<-cancelCtx.Done()
			/* #nosec */
			conn.SetReadDeadline(time.Time{})"""),
 'N9-write-deadline-only': ('session.go', """			conn.SetDeadline(aLongTimeAgo)
			<-cancelCtx.Done()
			/* #nosec */
			conn.SetDeadline(time.Time{})""", """			conn.SetWriteDeadline(aLongTimeAgo)
			<-cancelCtx.Done()
			/* #nosec */
			conn.SetWriteDeadline(time.Time{})"""),
 'N10-component-ack-without-id': ('component/component.go', """			if id == "" {
				return mask, nil, nil, errors.New("component: expected server stream to contain stream ID")
			}""", ""),
 'N11-component-second-procinst': ('component/component.go', "				if !foundProc {", "				if !foundProc || true {"),
 'M13-tee-skips-first-list-flag': ('negotiator.go', """		first := !nState.featuresRead""", """		first := data == nil"""),
 'N12-component-skip-error-ignored': ('component/component.go', """			err = d.Skip()
			return xmpp.Ready | xmpp.Authn, nil, nil, err""", """			_ = d.Skip()
			return xmpp.Ready | xmpp.Authn, nil, nil, nil"""),
 'M14-cache-records-list-level-req': ('features.go', """					sf.cache[tok.Name.Space] = sfData{
						req:     req,
						feature: feature,
					}""", """					sf.cache[tok.Name.Space] = sfData{
						req:     sf.req,
						feature: feature,
					}"""),
 'N13-deadline-copied-instead-of-watcher': ('session.go', """		defer setDeadline(ctx, conn)()""", """		if deadline, hasDeadline := ctx.Deadline(); hasDeadline {
			conn.SetDeadline(deadline)
			defer conn.SetDeadline(time.Time{})
		} else {
			defer setDeadline(ctx, conn)()
		}"""),
 'N14-watcher-only-with-deadline': ('session.go', """		defer setDeadline(ctx, conn)()""", """		if _, hasDeadline := ctx.Deadline(); hasDeadline {
			defer setDeadline(ctx, conn)()
		}"""),
 # ---- harmless rewrites
 'H5-watcher-stop-in-variable': ('session.go', """		defer setDeadline(ctx, conn)()""", """		stop := setDeadline(ctx, conn)
		defer stop()"""),
 'H1-sorted-map-iteration': ('features.go', '''				for _, v := range list.cache {''', '''				keys := make([]string, 0, len(list.cache))
				for k := range list.cache {
					keys = append(keys, k)
				}
				sort.Strings(keys)
				for _, k := range keys {
					v := list.cache[k]'''),
 'H2-swap-independent-statements': ('features.go', '''		s.state |= mask
		s.negotiated[data.feature.Name.Space] = struct{}{}''', '''		s.negotiated[data.feature.Name.Space] = struct{}{}
		s.state |= mask'''),
 'H3-allowed-de-morgan': ('features.go', 'return state&f.Necessary == f.Necessary && state&f.Prohibited == 0', 'return !(state&f.Necessary != f.Necessary || state&f.Prohibited != 0)'),
 'H4-ready-guard-reordered': ('features.go', 'if !list.req && rw == nil {', 'if rw == nil && !list.req {'),
 # ---- round C (error-value kinds, probe facts); H8 = benign/C04-1 (helper extraction) is a patch file, see DESIGN-notes/C04.md
 'N15-timeout-replaced-by-ctx-err': ('session.go', '\t\tif err != nil {\n\t\t\treturn s, err\n\t\t}\n\t\t// A step that does not touch', '\t\tif err != nil {\n\t\t\tvar netErr net.Error\n\t\t\tif errors.As(err, &netErr) && netErr.Timeout() {\n\t\t\t\terr = ctx.Err()\n\t\t\t}\n\t\t\treturn s, err\n\t\t}\n\t\t// A step that does not touch'),
 'N16-canceled-left-to-ctx-check': ('session.go', '\t\tif err != nil {\n\t\t\treturn s, err\n\t\t}\n\t\t// A step that does not touch', '\t\tif err != nil && !errors.Is(err, context.Canceled) {\n\t\t\treturn s, err\n\t\t}\n\t\t// A step that does not touch'),
 'N17-temporary-error-retried': ('session.go', '\t\tif err != nil {\n\t\t\treturn s, err\n\t\t}\n\t\t// A step that does not touch', '\t\tif ne, ok := err.(net.Error); ok && ne.Temporary() && !ne.Timeout() {\n\t\t\tcontinue\n\t\t}\n\t\tif err != nil {\n\t\t\treturn s, err\n\t\t}\n\t\t// A step that does not touch'),
 'N18-eof-of-a-step-is-clean': ('session.go', '\t\tif err != nil {\n\t\t\treturn s, err\n\t\t}\n\t\t// A step that does not touch', '\t\tif err == io.EOF {\n\t\t\terr = nil\n\t\t}\n\t\tif err != nil {\n\t\t\treturn s, err\n\t\t}\n\t\t// A step that does not touch'),
 'N19-watcher-write-deadline-only': ('session.go', 'conn.SetDeadline(aLongTimeAgo)', 'conn.SetWriteDeadline(aLongTimeAgo)'),
 'N20-past-deadline-an-instant-for-deadline-contexts': ('session.go', '\t\t\tconn.SetDeadline(aLongTimeAgo)\n\t\t\t<-cancelCtx.Done()', '\t\t\tconn.SetDeadline(aLongTimeAgo)\n\t\t\tif _, has := ctx.Deadline(); !has {\n\t\t\t\t<-cancelCtx.Done()\n\t\t\t}'),
 'H6-two-setters-instead-of-one': ('session.go', '\t\t\tconn.SetDeadline(aLongTimeAgo)\n\t\t\t<-cancelCtx.Done()\n\t\t\t/* #nosec */\n\t\t\tconn.SetDeadline(time.Time{})', '\t\t\tconn.SetWriteDeadline(aLongTimeAgo)\n\t\t\tconn.SetReadDeadline(aLongTimeAgo)\n\t\t\t<-cancelCtx.Done()\n\t\t\t/* #nosec */\n\t\t\tconn.SetReadDeadline(time.Time{})\n\t\t\tconn.SetWriteDeadline(time.Time{})'),
 'H7-switch-after-negotiator-call': ('session.go', '\t\tif err != nil {\n\t\t\treturn s, err\n\t\t}\n\t\t// A step that does not touch the connection does not notice that the context\n\t\t// is done: never report a session as established after that.\n\t\tif err = ctx.Err(); err != nil {\n\t\t\treturn s, err\n\t\t}', '\t\tswitch {\n\t\tcase err != nil:\n\t\t\treturn s, err\n\t\tcase ctx.Err() != nil:\n\t\t\treturn s, ctx.Err()\n\t\t}'),
}

def sh(cmd, cwd, timeout=1800):
    p = subprocess.run(cmd, cwd=cwd, env=ENV, shell=True, stdout=subprocess.PIPE, stderr=subprocess.STDOUT, text=True, timeout=timeout)
    return p.returncode, p.stdout

names = args or list(MUTS)
for name in names:
    path, old, new = MUTS[name]
    full = os.path.join(REPO, path)
    src = open(full).read()
    if src.count(old) != 1:
        print(name, 'PATTERN-NOT-FOUND', src.count(old)); continue
    out = src.replace(old, new)
    if name.startswith('H1'):
        out = out.replace('import (\n', 'import (\n\t"sort"\n', 1)
    open(full, 'w').write(out)
    try:
        rc, o = sh('gofmt -l . >/dev/null; go build ./... 2>&1 | tail -5', REPO)
        if 'error' in o or rc != 0 or o.strip():
            print(name, 'DOES-NOT-COMPILE', o[-300:]); continue
        rct, ot = sh('go test -vet=off -count=1 -timeout 300s . ./websocket/... ./s2s/... ./component/... 2>&1 | grep -v "^WARNING" | tail -6', REPO)
        tests = 'pkg-tests-pass' if 'FAIL' not in ot else 'PKG-TESTS-FAIL'
        line = '%s: %s' % (name, tests)
        for prop in ('C01', 'C04'):
            rc, o = sh('./check %s' % prop, VERIF)
            viol = [l for l in o.split('\n') if l.startswith('VIOLATION')]
            keys = []
            for v in viol[:6]:
                m = re.search(r'replay=(\S+)', v)
                try:
                    j = json.load(open(m.group(1)))
                    keys.append('%s|%s' % (j.get('clause', j.get('kind')), j.get('key', '')))
                except Exception as e:
                    keys.append(str(e))
            broken = [l.split(':')[0].replace('[check] BROKEN ', '') for l in o.split('\n') if l.startswith('[check] BROKEN')]
            line += '\n    %s exit=%d violations=%d %s %s' % (prop, rc, len(viol), keys, broken[:4])
        print(line, flush=True)
    finally:
        open(full, 'w').write(src)
rc, o = sh('git status --short', REPO)
print('repo status after self-test:', o.strip() or 'clean')
