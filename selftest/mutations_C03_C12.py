#!/usr/bin/env python3
"""Self-test of the C03/C12 checks (DESIGN §2.8): apply one named mutation to a scratch
worktree of the library (MUT_REPO, never /repo), run the repo tests of the touched packages
and ./check, print the outcome, revert (git checkout).  m* must give VIOLATION, h* exit 0."""
import subprocess, sys, os, re
R=os.environ.get('MUT_REPO','/var/tmp/xv-r-auth'); V=os.path.dirname(os.path.dirname(os.path.abspath(__file__)))
ENV=dict(os.environ, GOFLAGS='-mod=mod', GOPROXY='off', GOSUMDB='off', GOTOOLCHAIN='local', VERIF_REPO=R)
def sub(path, old, new, count=1):
    p=os.path.join(R,path); s=open(p).read()
    assert old in s, (path, old[:60])
    s=s.replace(old,new,count); open(p,'w').write(s)
MUT={
 # ---- C03 ----
 'c03-m1-premature-success-accepted': ('C03', lambda: sub('sasl.go','''			if more {
				// The server claims that authentication is complete, but the
				// mechanism still expects a challenge: do not trust it.
				return mask, nil, errUnexpectedPayload
			}
''','')),
 'c03-m2-no-final-success-required': ('C03', lambda: sub('sasl.go','	if !success {\n		tok, err := d.Token()','	if false {\n		tok, err := d.Token()')),
 'c03-m3-response-before-auth-unchecked': ('C03', lambda: sub('sasl.go','if server == nil || selected.Name == "" {','if false {')),
 'c03-m4-errauthn-is-success': ('C03', lambda: sub('sasl.go','''		case sasl.ErrAuthn:
			e := sendSASLError(w, saslerr.Error{''','''		case sasl.ErrAuthn:
			err = nil
		case errTerminated:
			e := sendSASLError(w, saslerr.Error{''')),
 'c03-m5-server-order-preference': ('C03', lambda: sub('sasl.go','''	for _, m := range mechanisms {
		for _, name := range data.([]string) {
			if name == m.Name {
				selected = m
				break selectmechanism
			}
		}
	}''','''	for _, name := range data.([]string) {
		for _, m := range mechanisms {
			if name == m.Name {
				selected = m
				break selectmechanism
			}
		}
	}''')),
 'c03-m6-success-not-flushed': ('C03', lambda: sub('sasl.go','''		err = w.Flush()
		if err != nil {
			return 0, nil, err
		}
		return Authn, session.Conn(), nil
	}
''','''		return Authn, session.Conn(), nil
	}
''')),
 'c03-m7-unknown-mechanism-falls-back': ('C03', lambda: sub('sasl.go','''			// No matching mechanism found…
			if selected.Name == "" {
				err = sendSASLError(w, saslerr.Error{''','''			// No matching mechanism found…
			if selected.Name == "" {
				selected = mechanisms[0]
			}
			if selected.Name == "" {
				err = sendSASLError(w, saslerr.Error{''')),
 'c03-m8-failure-element-ignored-by-client': ('C03', lambda: sub('sasl.go','''		return nil, false, fail
	default:''','''		return nil, true, nil
	default:''')),
 'c03-m9-plus-offer-counts-as-bare': ('C03', lambda: sub('sasl.go','''			if name == m.Name {
				selected = m
				break selectmechanism''','''			if name == m.Name || strings.TrimSuffix(name, "-PLUS") == m.Name {
				selected = m
				break selectmechanism''')),
 'c03-m10-case-insensitive-mechanism-names': ('C03', lambda: sub('sasl.go','''				if selection.Name == m.Name && serverSupported(m) {''','''				if strings.EqualFold(selection.Name, m.Name) && serverSupported(m) {''')),
 'c03-m14-plus-mechanisms-advertised': ('C03', lambda: sub('sasl.go','''				if !serverSupported(m) {
					continue
				}''','''				if !serverSupported(m) && len(mechanisms) > 1 {
					continue
				}''')),
 'c03-m15-plus-mechanisms-accepted': ('C03', lambda: sub('sasl.go','''				if selection.Name == m.Name && serverSupported(m) {''','''				if selection.Name == m.Name {''')),
 'c03-m11-auth-flush-error-dropped': ('C03', lambda: sub('sasl.go','''	err = w.Flush()
	if err != nil {
		return mask, nil, err
	}

	r := session.TokenReader()''','''	_ = w.Flush()

	r := session.TokenReader()''')),
 'c03-m12-shared-scratch-buffer': ('C03', lambda: subprocess.run(['git','apply','/verif/seeded/C03-5/patch.diff'],cwd=R,check=True)),
 'c03-m13-selected-mechanism-kept-in-closure': ('C03', lambda: (sub('sasl.go','''	return StreamFeature{
		Name:       xml.Name{Space: ns.SASL, Local: "mechanisms"},''','''	var lastData interface{}
	return StreamFeature{
		Name:       xml.Name{Space: ns.SASL, Local: "mechanisms"},'''), sub('sasl.go','''			return negotiateClient(ctx, identity, password, session, data, mechanisms...)''','''			if data != nil {
				lastData = data
			}
			return negotiateClient(ctx, identity, password, session, lastData, mechanisms...)'''))),
 'c03-m16-failure-without-condition-is-not-a-failure': ('C03', lambda: subprocess.run(['git','apply','/verif/seeded/C03-7/patch.diff'],cwd=R,check=True)),
 'c03-h1-harmless-encode-to-string': ('C03', lambda: sub('sasl.go','''		var encodedResp []byte
		if len(resp) == 0 {
			encodedResp = []byte{'='}
		} else {
			encodedResp = make([]byte, base64.StdEncoding.EncodedLen(len(resp)))
			base64.StdEncoding.Encode(encodedResp, resp)
		}

		_, err = xmlstream.Copy(w, xmlstream.Wrap(
			xmlstream.Token(xml.CharData(encodedResp)),
			xml.StartElement{
				Name: xml.Name{Space: ns.SASL, Local: "response"},''','''		encodedResp := []byte("=")
		if len(resp) > 0 {
			encodedResp = []byte(base64.StdEncoding.EncodeToString(resp))
		}

		_, err = xmlstream.Copy(w, xmlstream.Wrap(
			xmlstream.Token(xml.CharData(encodedResp)),
			xml.StartElement{
				Name: xml.Name{Space: ns.SASL, Local: "response"},''')),
 'c03-h2-harmless-abort-before-auth-case': ('C03', lambda: sub('sasl.go','''		switch selection.XMLName {
		case xml.Name{Space: ns.SASL, Local: "auth"}:''','''		if selection.XMLName == (xml.Name{Space: ns.SASL, Local: "abort"}) {
			err = sendSASLError(w, saslerr.Error{
				Condition: saslerr.ConditionAborted,
			})
			if err != nil {
				return 0, nil, err
			}
			return 0, nil, errTerminated
		}
		switch selection.XMLName {
		case xml.Name{Space: ns.SASL, Local: "auth"}:''')),
 # ---- C12 ----
 'c12-m1-from-not-escaped': ('C12', lambda: sub('internal/stream/stream.go','''		err = xml.EscapeText(b, []byte(attr.value))
		if err != nil {
			return err
		}''','''		if attr.name == "from" {
			_, err = b.WriteString(attr.value)
		} else {
			err = xml.EscapeText(b, []byte(attr.value))
		}
		if err != nil {
			return err
		}''')),
 'c12-m2-version-unchecked': ('C12', lambda: sub('internal/stream/stream.go','''			case in.Version != stream.DefaultVersion:
				return stream.UnsupportedVersion''','''			case in.Version.Major != stream.DefaultVersion.Major:
				return stream.UnsupportedVersion''')),
 'c12-m3-id-required-of-wrong-role': ('C12', lambda: sub('internal/stream/stream.go','if !recv && in.ID == "" {','if recv && in.ID == "" {')),
 'c12-m4-origin-change-accepted': ('C12', lambda: sub('negotiator.go','''				case !origin.Equal(newIn.From):''','''				case !origin.Domain().Equal(newIn.From.Domain()):''')),
 'c12-m5-bind-wrong-id-accepted': ('C12', lambda: sub('bind.go','''			case resp.ID != reqID:
				return mask, nil, stream.UndefinedCondition
''','''			case resp.ID != reqID && resp.ID != "":
				return mask, nil, stream.UndefinedCondition
''')),
 'c12-m6-bind-reply-drops-id': ('C12', lambda: sub('bind.go','''						ID:      iqid,
						From:    resReq.IQ.To,''','''						ID:      iqid[:0],
						From:    resReq.IQ.To,''')),
 'c12-m7-to-from-swapped-on-parse': ('C12', lambda: (sub('stream/stream.go','''		case xml.Name{Space: "", Local: "to"}:
			if err := (&i.To).UnmarshalXMLAttr(attr); err != nil {''','''		case xml.Name{Space: "", Local: "to"}:
			if err := (&i.From).UnmarshalXMLAttr(attr); err != nil {'''), sub('stream/stream.go','''		case xml.Name{Space: "", Local: "from"}:
			if err := (&i.From).UnmarshalXMLAttr(attr); err != nil {''','''		case xml.Name{Space: "", Local: "from"}:
			if err := (&i.To).UnmarshalXMLAttr(attr); err != nil {'''))),
 'c12-m8-bind-always-sends-resource': ('C12', lambda: sub('bind.go','	if bp.Resource != "" {\n		return xmlstream.Wrap(','	if bp.Resource != "" || bp.JID.String() == "" {\n		return xmlstream.Wrap(')),
 'c12-m9-stream-error-not-decoded': ('C12', lambda: sub('internal/stream/reader.go','''			d := xml.NewTokenDecoder(xmlstream.MultiReader(
				xmlstream.Token(t),
				xmlstream.InnerElement(r.r),
			))
			err = d.Decode(&e)''','''			_ = xmlstream.Token
			err = xml.NewTokenDecoder(r.r).DecodeElement(&e, &t)''')),
 'c12-m10-location-learned-after-known': ('C12', lambda: sub('negotiator.go','''				case !location.Equal(newIn.To):''','''				case !location.Equal(newIn.To) && s.state&S2S == S2S:''')),
 'c12-m11-refused-header-committed': ('C12', lambda: (sub('negotiator.go','''				newIn := *in
				err = intstream.Expect(ctx, &newIn, s.in.d, s.State()&Received == Received, websocket)
				if err != nil {
					nState.doRestart = false
					return mask, nil, nState, err
				}

				switch {
				case !location.Equal(newIn.From):''','''				newIn := *in
				err = intstream.Expect(ctx, &newIn, s.in.d, s.State()&Received == Received, websocket)
				*in = newIn
				if err != nil {
					nState.doRestart = false
					return mask, nil, nState, err
				}

				switch {
				case !location.Equal(newIn.From):'''))),
 'c12-m12-bind-reply-not-addressed-back': ('C12', lambda: sub('bind.go','''						From:    resReq.IQ.To,
						To:      resReq.IQ.From,''','''						From:    resReq.IQ.From,
						To:      resReq.IQ.To,''')),
 'c12-m13-tee-out-misses-header': ('C12', lambda: sub('negotiator.go','''				err = intstream.Send(s.Conn(), out, websocket, stream.DefaultVersion, cfg.Lang, location.String(), origin.String(), "")''','''				var hdrConn io.ReadWriter = s.Conn()
				if tc, ok := hdrConn.(teeConn); ok {
					hdrConn = tc.Conn
				}
				err = intstream.Send(hdrConn, out, websocket, stream.DefaultVersion, cfg.Lang, location.String(), origin.String(), "")''')),
 'c12-m14-bind-request-hoisted-into-closure': ('C12', lambda: (sub('bind.go','''	return StreamFeature{
		Name:       xml.Name{Space: ns.Bind, Local: "bind"},''','''	var resReq bindIQ
	return StreamFeature{
		Name:       xml.Name{Space: ns.Bind, Local: "bind"},'''), sub('bind.go','''				resReq := bindIQ{}
''','''				resReq = bindIQ{}
'''))),
 'c12-m15-attributes-matched-by-local-name': ('C12', lambda: subprocess.run(['git','apply','/verif/seeded/C12-5/patch.diff'],cwd=R,check=True)),
 'c12-m16-random-resource-drawn-per-feature': ('C12', lambda: subprocess.run(['git','apply','/verif/seeded/C12-6/patch.diff'],cwd=R,check=True)),
 'c12-m17-xml-prefixed-id-accepted': ('C12', lambda: sub('stream/stream.go','''		case xml.Name{Space: "", Local: "id"}:''','''		case xml.Name{Space: "", Local: "id"}, xml.Name{Space: ns.XML, Local: "id"}:''')),
 'c12-m18-either-framing-open-accepted': ('C12', lambda: subprocess.run(['git','apply','/verif/seeded/C12-8/patch.diff'],cwd=R,check=True)),
 'c12-h1-harmless-double-quotes': ('C12', lambda: (sub('internal/stream/stream.go','''b.WriteString(" " + attr.name + "='")''','''b.WriteString(" " + attr.name + "=\\"")'''), sub('internal/stream/stream.go','''		_, err = b.WriteString("'")
		if err != nil {
			return err
		}
	}
''','''		_, err = b.WriteString("\\"")
		if err != nil {
			return err
		}
	}
'''))),
 'c12-h2-harmless-attribute-order': ('C12', lambda: sub('internal/stream/stream.go','''		{"id", id},
		{"to", to},
		{"from", from},
		{"xml:lang", lang},''','''		{"xml:lang", lang},
		{"from", from},
		{"to", to},
		{"id", id},''')),
 'c12-h3-harmless-check-order': ('C12', lambda: sub('internal/stream/stream.go','''			if !recv && in.ID == "" {
				// if we are the initiating entity and there is no stream ID…
				return fmt.Errorf("initiating entity must set stream ID: %w", stream.BadFormat)
			}
			return nil''','''			if in.ID == "" && !recv {
				return fmt.Errorf("initiating entity must set stream ID: %w", stream.BadFormat)
			}
			return nil''')),
}
def run(name):
    prop, f = MUT[name]
    subprocess.run(['git','checkout','-q','.'],cwd=R)
    try:
        f()
        b=subprocess.run(['go','build','./...'],cwd=R,env=ENV,capture_output=True,text=True)
        if b.returncode!=0:
            return name, 'DOES-NOT-COMPILE', b.stderr[-300:]
        t=subprocess.run(['go','test','-count=1','-timeout','120s','.','./internal/stream','./stream','./websocket','./internal/saslerr'],cwd=R,env=ENV,capture_output=True,text=True)
        tests='tests-pass' if t.returncode==0 else 'TESTS-FAIL'
        c=subprocess.run(['./check',prop],cwd=V,env=ENV,capture_output=True,text=True)
        viol=[l for l in c.stdout.split('\n') if l.startswith('VIOLATION')]
        summ=[l for l in c.stdout.split('\n') if l.startswith('[check] '+prop)]
        return name, tests, 'exit=%d %s | %s'%(c.returncode, '; '.join(v.split('replay=')[1].split('/')[-1] for v in viol[:4]), (summ[-1][8:] if summ else c.stdout[-300:]))
    finally:
        subprocess.run(['git','checkout','-q','.'],cwd=R)
if __name__=='__main__':
    names=sys.argv[1:] or list(MUT)
    for n in names:
        if n.endswith('*'): 
            for m in MUT:
                if m.startswith(n[:-1]): print(*run(m),flush=True)
        else:
            print(*run(n),flush=True)
