#!/usr/bin/env python3
"""Mutation self-test for C05 / C10 / C13 (builder wire).

    wire_mutate.py quick|full|thorough [NAME…]

Applies one mutation at a time to the repository worktree, runs the package tests (quick)
or ./baseline.sh (full), then `./check Cxx` (quick tier; `thorough` runs --tier thorough, which
includes the race-detector run), and reverts with `git checkout`.
REPO / VERIF come from the environment (defaults: the wire worktrees).
"""
import os, subprocess, sys
REPO = os.environ.get('REPO', '/var/tmp/xv-r-wire')
VERIF = os.environ.get('VERIF', '/var/tmp/xv-v-wire')
M = {}


def m(name, prop, file, old, new, kind='break'):
    M[name] = (prop, file, old, new, kind)


def seeded(name, prop, sid):
    M[name] = (prop, None, sid, None, 'break')


# ---- C05 --------------------------------------------------------------------------------
m('c05-drop-lock-encode', 'C05', 'session.go', '''func (s *Session) Encode(ctx context.Context, v interface{}) error {
	s.out.Lock()
	defer s.out.Unlock()
''', '''func (s *Session) Encode(ctx context.Context, v interface{}) error {
''')
m('c05-keep-empty-from', 'C05', 'session.go', '''					if attr.Value == "" {
						continue
					}
					foundFrom = true''', '''					foundFrom = attr.Value != ""''')
m('c05-xmlns-cond-swapped', 'C05', 'session.go', '''			if attr.Name.Local == "xmlns" && tok.Name.Space != "" {''', '''			if attr.Name.Local == "xmlns" && tok.Name.Space == "" {''')
m('c05-elementwriter-offbyone', 'C05', 'internal/marshal/encode.go', '''		ew.depth--
		if ew.depth == 0 {
			t = ew.start.End()
		}''', '''		if ew.depth == 0 {
			t = ew.start.End()
		}
		ew.depth--''')
m('c05-empty-id-counts', 'C05', 'session.go', '''					if attr.Value == "" {
						continue
					}
					foundID = true''', '''					foundID = true
					if attr.Value == "" {
						continue
					}''')
m('c05-guard-dropped-send', 'C05', 'session.go', '''	verifhook.Yield("xmpp.send.locked")
	if s.outputClosed() {
		return ErrOutputStreamClosed
	}
	if s.outputBroken() {
		return errOutputBroken
	}
''', '''	verifhook.Yield("xmpp.send.locked")
	if s.outputClosed() {
		return ErrOutputStreamClosed
	}
''')
m('c05-guard-ignores-refused-token', 'C05', 'session.go', '''	return ok && (se.depth != 0 || se.failed)''', '''	return ok && se.depth != 0''')
m('c05-tokenwriter-lock-leak', 'C05', 'session.go', '''	if lwc.broken {
		return errOutputBroken
	}''', '''	if lwc.broken {
		lwc.err = errOutputBroken
		return lwc.err
	}''')
seeded('c05-seeded-1-pooled-buffer', 'C05', 'C05-1')
seeded('c05-seeded-2-flush-outside-lock', 'C05', 'C05-2')
seeded('c05-seeded-3-flush-resets-depth', 'C05', 'C05-3')
for _i in range(4, 13):
    seeded('c05-seeded-%d' % _i, 'C05', 'C05-%d' % _i)
m('c05-harmless-attr-order', 'C05', 'session.go', '''			if f := se.from.String(); f != "" && !foundFrom {
				tok.Attr = append(tok.Attr, xml.Attr{
					Name:  xml.Name{Local: "from"},
					Value: se.from.String(),
				})
			}
			if !foundID {
				tok.Attr = append(tok.Attr, xml.Attr{
					Name:  xml.Name{Local: "id"},
					Value: attr.RandomID(),
				})
			}''', '''			if !foundID {
				tok.Attr = append(tok.Attr, xml.Attr{
					Name:  xml.Name{Local: "id"},
					Value: attr.RandomID(),
				})
			}
			if f := se.from.String(); f != "" && !foundFrom {
				tok.Attr = append(tok.Attr, xml.Attr{
					Name:  xml.Name{Local: "from"},
					Value: f,
				})
			}''', 'harmless')
m('c05-harmless-send-loop', 'C05', 'session.go', '''	_, err = xmlstream.Copy(s.out.e, r)
	if err != nil {
		return err
	}
	err = s.out.e.EncodeToken(start.End())''', '''	for {
		tok, rerr := r.Token()
		if tok != nil {
			if err = s.out.e.EncodeToken(tok); err != nil {
				return err
			}
		}
		if rerr == io.EOF || (tok == nil && rerr == nil) {
			break
		}
		if rerr != nil {
			return rerr
		}
	}
	err = s.out.e.EncodeToken(start.End())''', 'harmless')
# ---- C10 --------------------------------------------------------------------------------
m('c10-encode-no-check', 'C10', 'session.go', '''	verifhook.Yield("xmpp.Encode.locked")
	if s.outputClosed() {
		return ErrOutputStreamClosed
	}
''', '''	verifhook.Yield("xmpp.Encode.locked")
''')
m('c10-send-check-before-lock', 'C10', 'session.go', '''	s.out.Lock()
	defer s.out.Unlock()
	verifhook.Yield("xmpp.send.locked")
	if s.outputClosed() {
		return ErrOutputStreamClosed
	}
''', '''	if s.outputClosed() {
		return ErrOutputStreamClosed
	}
	s.out.Lock()
	defer s.out.Unlock()
	verifhook.Yield("xmpp.send.locked")
''')
m('c10-serve-no-closeinput', 'C10', 'session.go', '''	defer func() {
		s.closeInputStream()
		e := s.Close()''', '''	defer func() {
		e := s.Close()''')
m('c10-senderror-drops-err', 'C10', 'session.go', '''	if s.outputClosed() {
		return err
	}

	se := stream.Error{}''', '''	if s.outputClosed() {
		return nil
	}

	se := stream.Error{}''')
m('c10-close-holds-state-lock', 'C10', 'session.go', '''	s.state |= OutputStreamClosed
	s.stateMutex.Unlock()

''', '''	s.state |= OutputStreamClosed
	defer s.stateMutex.Unlock()

''')
m('c10-closesession-bit-after-unlock', 'C10', 'session.go', '''	s.state |= OutputStreamClosed
	s.stateMutex.Unlock()

''', '''	s.stateMutex.Unlock()
	s.state |= OutputStreamClosed

''')
m('c10-senderror-no-closed-check', 'C10', 'session.go', '''	if s.outputClosed() {
		return err
	}

	se := stream.Error{}''', '''	se := stream.Error{}''')
m('c10-deadline-unsynchronised', 'C10', 'session.go', '''	s.stateMutex.Lock()
	oldCancel := s.in.cancel
	s.in.ctx, s.in.cancel = context.WithDeadline(context.Background(), t)
	s.stateMutex.Unlock()''', '''	oldCancel := s.in.cancel
	s.in.ctx, s.in.cancel = context.WithDeadline(context.Background(), t)''')
m('c10-new-unchecked-entry-point', 'C10', 'session.go', '''// Close ends the output stream (by sending a closing </stream:stream> token).''', '''// SendRaw writes b to the connection.
func (s *Session) SendRaw(b []byte) error {
	s.out.Lock()
	defer s.out.Unlock()
	_, err := s.conn.Write(b)
	return err
}

// Close ends the output stream (by sending a closing </stream:stream> token).''')
# seeded C10-1 ported to the repaired closeSession: the bit is set only after a successful write
m('c10-seeded-1-bit-after-write', 'C10', 'session.go', '''	s.state |= OutputStreamClosed
	s.stateMutex.Unlock()

	// We wrote the opening stream instead of encoding it, so do the same with the
	// closing to ensure that the encoder doesn't think the tokens are mismatched.
	return intstream.Close(s.Conn(), &s.out.Info)''', '''	s.stateMutex.Unlock()

	// We wrote the opening stream instead of encoding it, so do the same with the
	// closing to ensure that the encoder doesn't think the tokens are mismatched.
	err := intstream.Close(s.Conn(), &s.out.Info)
	if err == nil {
		s.stateMutex.Lock()
		s.state |= OutputStreamClosed
		s.stateMutex.Unlock()
	}
	return err''')
seeded('c10-seeded-2-deadline-derived', 'C10', 'C10-2')
seeded('c10-seeded-3-close-without-lock', 'C10', 'C10-3')
for _i in range(4, 13):
    seeded('c10-seeded-%d' % _i, 'C10', 'C10-%d' % _i)
m('c10-harmless-helper', 'C10', 'session.go', '''func (s *Session) outputClosed() bool {
	s.stateMutex.RLock()
	defer s.stateMutex.RUnlock()
	return s.state&OutputStreamClosed == OutputStreamClosed
}''', '''func (s *Session) outputClosed() bool {
	return s.State()&OutputStreamClosed != 0
}''', 'harmless')
# ---- C13 --------------------------------------------------------------------------------
m('c13-iq-lang-needs-id', 'C13', 'stanza/iq.go', '''	if iq.Lang != "" {
		attr = append(attr, xml.Attr{Name: xml.Name{Space: ns.XML, Local: "lang"}, Value: iq.Lang})
	}''', '''	if iq.Lang != "" && iq.ID != "" {
		attr = append(attr, xml.Attr{Name: xml.Name{Space: ns.XML, Local: "lang"}, Value: iq.Lang})
	}''')
m('c13-unmarshal-last-cond', 'C13', 'stanza/error.go', '''			se.Condition = Condition(cond.XMLName.Local)
			break''', '''			se.Condition = Condition(cond.XMLName.Local)''')
m('c13-error-empty-text-kept', 'C13', 'stanza/error.go', '''		data := se.Text[lang]
		if data == "" {
			continue
		}''', '''		data := se.Text[lang]''')
m('c13-new-foreign-attrs', 'C13', 'stanza/presence.go', '''		if attr.Name.Space != "" {
			continue
		}
''', '''''')
m('c13-message-id-not-omitted', 'C13', 'stanza/message.go', '''	ID      string      `xml:"id,attr,omitempty"`''', '''	ID      string      `xml:"id,attr"`''')
m('c13-result-no-swap', 'C13', 'stanza/iq.go', '''	iq.Type = ResultIQ
	iq.From, iq.To = iq.To, iq.From
	return iq.Wrap(payload)''', '''	iq.Type = ResultIQ
	return iq.Wrap(payload)''')
m('c13-stream-text-lang-lost', 'C13', 'stream/error.go', '''		if txt.Lang != "" {
			start.Attr = append(start.Attr, xml.Attr{''', '''		if txt.Lang == "never" {
			start.Attr = append(start.Attr, xml.Attr{''')
seeded('c13-seeded-1', 'C13', 'C13-1')
seeded('c13-seeded-2-whitespace-texts-dropped', 'C13', 'C13-2')
seeded('c13-seeded-3', 'C13', 'C13-3')
for _i in range(4, 10):
    seeded('c13-seeded-%d' % _i, 'C13', 'C13-%d' % _i)
m('c13-harmless-attr-order', 'C13', 'stanza/iq.go', '''	if !iq.To.Equal(jid.JID{}) {
		attr = append(attr, xml.Attr{Name: xml.Name{Local: "to"}, Value: iq.To.String()})
	}
	if !iq.From.Equal(jid.JID{}) {
		attr = append(attr, xml.Attr{Name: xml.Name{Local: "from"}, Value: iq.From.String()})
	}''', '''	if !iq.From.Equal(jid.JID{}) {
		attr = append(attr, xml.Attr{Name: xml.Name{Local: "from"}, Value: iq.From.String()})
	}
	if !iq.To.Equal(jid.JID{}) {
		attr = append(attr, xml.Attr{Name: xml.Name{Local: "to"}, Value: iq.To.String()})
	}''', 'harmless')
m('c13-harmless-newiq-switch', 'C13', 'stanza/iq.go', '''		case "type":
			v.Type = IQType(attr.Value)
		}''', '''		case "type":
			t := attr.Value
			v.Type = IQType(t)
		default:
		}''', 'harmless')

# round 5: the two deadline watchers share one helper, each with its own setter (harmless)
m('c10-harmless-watch-helper', 'C10', 'session.go', '''func setWriteDeadline(ctx context.Context, conn net.Conn) context.CancelFunc {
	cancelCtx, cancel := context.WithCancel(context.Background())
	done := make(chan struct{})
	go func() {
		defer close(done)
		select {
		case <-ctx.Done():
			/* #nosec */
			conn.SetWriteDeadline(aLongTimeAgo)
			<-cancelCtx.Done()
			/* #nosec */
			conn.SetWriteDeadline(time.Time{})
		case <-cancelCtx.Done():
		}
	}()
	return func() {
		cancel()
		<-done
	}
}
''', '''func setWriteDeadline(ctx context.Context, conn net.Conn) context.CancelFunc {
	return watchCtx(ctx, conn.SetWriteDeadline)
}

func watchCtx(ctx context.Context, set func(time.Time) error) context.CancelFunc {
	cancelCtx, cancel := context.WithCancel(context.Background())
	done := make(chan struct{})
	go func() {
		defer close(done)
		select {
		case <-ctx.Done():
			/* #nosec */
			set(aLongTimeAgo)
			<-cancelCtx.Done()
			/* #nosec */
			set(time.Time{})
		case <-cancelCtx.Done():
		}
	}()
	return func() {
		cancel()
		<-done
	}
}
''', 'harmless')
# round 5: the encoder's address read from the field LocalAddr returns (harmless)
m('c05-harmless-from-field', 'C05', 'session.go', '''		se.from = s.LocalAddr()''', '''		se.from = s.in.Info.To''', 'harmless')

# round 6 (harmless): Close of a token writer handle spelled differently; Serve's test for the peer's close as an if
m('c05-harmless-close-spelling', 'C05', 'session.go', '''	if err := lwc.Flush(); err != nil {
		lwc.err = err
		return err
	}
	lwc.err = io.EOF
	return nil
}''', '''	err := lwc.Flush()
	lwc.err = err
	if err == nil {
		lwc.err = io.EOF
	}
	return err
}''', 'harmless')
m('c10-harmless-serve-if', 'C10', 'session.go', '''		switch err {
		case nil:
			// No error and no sentinal error telling us to shut down; try again!
		case io.EOF:
			return nil
		default:
			return s.sendError(err)
		}''', '''		if err == io.EOF {
			return nil
		}
		if err != nil {
			return s.sendError(err)
		}''', 'harmless')

env = dict(os.environ, GOFLAGS='-mod=mod', GOPROXY='off', GOSUMDB='off', GOTOOLCHAIN='local')


def sh(cmd, cwd=None, timeout=3600):
    p = subprocess.run(cmd, shell=True, cwd=cwd, env=env, stdin=subprocess.DEVNULL, stdout=subprocess.PIPE,
                       stderr=subprocess.STDOUT, text=True, timeout=timeout)
    return p.returncode, p.stdout


def run(name, mode):
    prop, file, old, new, kind = M[name]
    try:
        if file is None:
            rc, out = sh('patch -p1 -F5 -s -f --no-backup-if-mismatch -i /verif/seeded/%s/patch.diff; rm -f *.orig *.rej; git diff --stat | tail -1' % old, cwd=REPO)
            if 'changed' not in out:
                return '%s: seeded patch did not apply' % name
        else:
            path = os.path.join(REPO, file)
            src = open(path).read()
            if old not in src:
                return '%s: PATTERN NOT FOUND' % name
            open(path, 'w').write(src.replace(old, new, 1))
        rc, out = sh('go build ./...', cwd=REPO)
        if rc != 0:
            return '%s: does not compile: %s' % (name, out[-300:].replace('\n', ' '))
        if mode == 'full':
            rc, out = sh('timeout 600 ./baseline.sh ' + REPO, cwd=VERIF)
            base = [l for l in out.split('\n') if l.startswith('baseline:')]
            bl = (base[0] if base else 'baseline did not finish (hang)')
        else:
            rc, out = sh('timeout 300 go test -count=1 -timeout 250s . ./internal/marshal ./stanza ./stream ./mux 2>&1 | tail -6', cwd=REPO)
            bl = 'pkg tests: ' + ('ok' if 'FAIL' not in out and 'panic' not in out else 'FAIL')
        tier = ' --tier thorough' if mode == 'thorough' else ''
        rc, out = sh('timeout 2400 env VERIF_REPO=%s ./check %s%s' % (REPO, prop, tier), cwd=VERIF)
        lines = out.split('\n')
        v = [l for l in lines if l.startswith('VIOLATION')]
        summ = [l for l in lines if l.startswith('[check] ' + prop)]
        br = [l for l in lines if 'BROKEN' in l]
        clauses = sorted({l.split('-seed')[1].split('-', 1)[1].rsplit('-', 1)[0] for l in v if '-seed' in l and 'obligation' not in l and 'correspondence' not in l})
        kinds = ('concrete:' + ','.join(clauses)) if clauses else ('obligation/correspondence only' if v else 'none')
        return '%s [%s] | %s | exit=%d | %s | broken-facts=%d | %s' % (name, kind, bl, rc, kinds, len(br), (summ[0][20:150] if summ else ''))
    finally:
        sh('git checkout -- . ; rm -f *.orig *.rej', cwd=REPO)


if __name__ == '__main__':
    mode = sys.argv[1]
    for n in (sys.argv[2:] or list(M)):
        print(run(n, mode), flush=True)
