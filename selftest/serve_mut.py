#!/usr/bin/env python3
"""Self-test of the C07 / C08 / C14 checks (DESIGN §2.8): applies each mutation of the table
below to a repo worktree, runs the affected packages' tests and ./check for the listed
properties, reverts.   usage: selftest/serve_mut.py REPO [name-prefix ...]
Expected: breaking mutations -> VIOLATION; harmless rewrites (H) -> silent."""
import sys, subprocess, os, json, re
V = os.path.dirname(os.path.dirname(os.path.abspath(__file__)))
repo = sys.argv[1]
sel = sys.argv[2:]
M = [
 ("C07-M1-detector-without-level","session.go","C07","		if rw.level < 1 && isIQEmptySpace(tok.Name) && id == rw.id &&","		if isIQEmptySpace(tok.Name) && id == rw.id &&"),
 ("C07-M2-reply-to-bare","session.go","C07","			To:   to,\n","			To:   to.Bare(),\n"),
 ("C07-M3-only-get-needs-reply","session.go","C07","	iqNeedsResp := typ == string(stanza.GetIQ) || typ == string(stanza.SetIQ)","	iqNeedsResp := typ == string(stanza.GetIQ)"),
 ("C07-M4-detector-accepts-any-ns","session.go","C07","	return name.Local == \"iq\" && (name.Space == \"\" || name.Space == stanza.NSClient || name.Space == stanza.NSServer)","	return name.Local == \"iq\""),
 ("C07-M5-mux-fallback-for-results","mux/mux.go","C07,C14","	if iq.Type == stanza.ErrorIQ || iq.Type == stanza.ResultIQ {\n		return nil\n	}\n","	if iq.Type == stanza.ErrorIQ {\n		return nil\n	}\n"),
 ("C07-H1-harmless-reorder","session.go","C07,C08","	iqOk := isIQ(start.Name)\n	_, _, id, typ := getIDTyp(start.Attr)\n","	_, _, id, typ := getIDTyp(start.Attr)\n	iqOk := isIQ(start.Name)\n"),
 ("C07-H2-harmless-detector-rewrite","session.go","C07","(typ == string(stanza.ResultIQ) || typ == string(stanza.ErrorIQ)) {","(typ == string(stanza.ErrorIQ) || typ == string(stanza.ResultIQ)) {"),
 ("C08-M1-no-discard","session.go","C08","	_, err = xmlstream.Copy(discard, rw)\n	return err\n}","	_ = discard\n	return nil\n}"),
 ("C08-M2-from-compare-full","session.go","C08","				local := s.LocalAddr().Bare().String()","				local := s.LocalAddr().String()"),
 ("C08-M3-chardata-depth","internal/stream/reader.go","C08","		if r.depth == 0 {\n			if !isWhitespace(t) {","		if r.depth <= 1 {\n			if !isWhitespace(t) {"),
 ("C08-M4-restart-as-unknown","internal/stream/reader.go","C08","			return nil, ErrUnexpectedRestart\n		default:","			return nil, ErrUnknownStreamElement\n		default:"),
 ("C08-M5-directive-passes","internal/stream/reader.go","C08","	case xml.Directive:\n		return nil, errors.New(\"disallowed XML directive encountered\")\n","	case xml.Directive:\n		return tok, nil\n"),
 ("C08-M6-sticky-forgets","session.go","C08","	if err != nil {\n		sr.err = err\n	}\n	return tok, err","	if err == io.EOF {\n		sr.err = err\n	}\n	return tok, err"),
 ("C08-M7-blank-from-on-any-element","session.go","C08","	if stanza.Is(start.Name, s.in.XMLNS) {\n		for i, attr := range start.Attr {","	if start.Name.Local != \"\" {\n		for i, attr := range start.Attr {"),
 ("C08-H1-harmless-discard-position","session.go","C08","	discard := xmlstream.Discard()\n	rc := s.TokenReader()","	rc := s.TokenReader()\n	discard := xmlstream.Discard()"),
 # ---- round C
 ("C07-M6-flush-error-dropped","session.go","C07","	if err := w.Flush(); err != nil {\n		return err\n	}\n\n	// Advance","	_ = w.Flush()\n\n	// Advance"),
 ("C07-M7-reply-owed-decided-after-handler","session.go","C07","	iqNeedsResp := typ == string(stanza.GetIQ) || typ == string(stanza.SetIQ)\n","	_, _, _, typ = getIDTyp(start.Attr)\n	iqNeedsResp := typ == string(stanza.GetIQ) || typ == string(stanza.SetIQ)\n"),
 ("C07-M8-reply-id-read-after-handler","session.go","C07","		_, err := xmlstream.Copy(w, stanza.IQ{\n			ID:   id,","		_, _, id, _ = getIDTyp(start.Attr)\n		_, err := xmlstream.Copy(w, stanza.IQ{\n			ID:   id,"),
 ("C07-M9-encode-around-detector","session.go","C07","	return marshal.EncodeXML(rw, v)","	return marshal.EncodeXML(rw.TokenWriter, v)"),
 ("C07-M10-detector-level-le-1","session.go","C07","		if rw.level < 1 && isIQEmptySpace(tok.Name)","		if rw.level <= 1 && isIQEmptySpace(tok.Name)"),
 ("C07-H3-harmless-detector-if-chain","session.go","C07","	switch tok := t.(type) {\n	case xml.StartElement:\n		_, _, id, typ := getIDTyp(tok.Attr)\n","	switch tok := t.(type) {\n	case xml.StartElement:\n		_, _, id, typ := getIDTyp(tok.Attr)\n		_ = id\n"),
 ("C07-H4-harmless-encode-helper","session.go","C07","	return marshal.EncodeXML(rw, v)","	var enc xmlstream.TokenWriter = rw\n	return marshal.EncodeXML(enc, v)"),
 ("C08-M8-serve-errors-is-eof","session.go","C08","		switch err {\n		case nil:\n			// No error and no sentinal error telling us to shut down; try again!\n		case io.EOF:","		switch {\n		case err == nil:\n			// No error and no sentinal error telling us to shut down; try again!\n		case errors.Is(err, io.EOF):"),
 ("C08-M9-framing-ns-is-restart-on-tcp","internal/stream/reader.go","C08","		if r.ws && t.Name.Space == wsNamespace && !r.negotiating {","		if t.Name.Space == wsNamespace && !r.negotiating {"),
 ("C08-M10-response-rest-skipped-one-level","session.go","C08","			_, err = xmlstream.Copy(discard, inner)\n			if err != nil {\n				return err\n			}\n			return nil","			err = xmlstream.Skip(inner)\n			if err != nil && err != io.EOF {\n				return err\n			}\n			return nil"),
 ("C08-M11-response-rest-not-discarded","session.go","C08","			_, err = xmlstream.Copy(discard, inner)\n			if err != nil {\n				return err\n			}\n			return nil","			return nil"),
 ("C08-M12-from-compared-with-remote","session.go","C08","				local := s.LocalAddr().Bare().String()","				local := s.RemoteAddr().Bare().String()"),
 ("C08-M13-updateaddr-keeps-in-to","session.go","C08","	s.in.Info.To = j\n	s.out.Info.From = j\n	return true","	s.out.Info.From = j\n	return true"),
 ("C08-H2-harmless-serve-if-chain","session.go","C08","		switch err {\n		case nil:\n			// No error and no sentinal error telling us to shut down; try again!\n		case io.EOF:\n			return nil\n		default:\n			return s.sendError(err)\n		}","		if err == io.EOF {\n			return nil\n		}\n		if err != nil {\n			return s.sendError(err)\n		}"),
 ("C08-H3-harmless-local-bare-helper","session.go","C08","				local := s.LocalAddr().Bare().String()","				own := s.in.Info.To.Bare()\n				local := own.String()"),
 ("C14-M1-msg-ns-before-local","mux/mux.go","C14","	pattern.Payload.Space = \"\"\n	pattern.Payload.Local = payload.Local\n	h = m.msgPatterns[pattern]\n	if h != nil {\n		return h, true\n	}\n\n	pattern.Payload.Space = payload.Space\n	pattern.Payload.Local = \"\"\n	h = m.msgPatterns[pattern]","	pattern.Payload.Space = payload.Space\n	pattern.Payload.Local = \"\"\n	h = m.msgPatterns[pattern]\n	if h != nil {\n		return h, true\n	}\n\n	pattern.Payload.Space = \"\"\n	pattern.Payload.Local = payload.Local\n	h = m.msgPatterns[pattern]"),
 ("C14-M2-handler-reader-not-rewound","mux/mux.go","C14","			br := &bufReader{r: t, buf: r.buf}\n			h, _ := m.MessageHandler(s.Type, start.Name)","			br := &bufReader{r: t, buf: r.buf, offset: r.offset}\n			h, _ := m.MessageHandler(s.Type, start.Name)"),
 ("C14-M3-empty-stanza-offset","mux/mux.go","C14","	if len(r.buf) == 2 {\n		r.offset = 0\n","	if len(r.buf) == 2 {\n		r.offset = 1\n"),
 ("C14-M4-presence-dup-allowed","mux/option.go","C14","		if _, ok := m.presencePatterns[pat]; ok {\n			panic(\"mux: multiple registrations for \" + pat.String())\n		}\n","		_ = pat.String()\n"),
 ("C14-M5-presence-wildcard-typeless","mux/mux.go","C14","	pattern.Payload.Space = \"\"\n	pattern.Payload.Local = \"\"\n	h = m.presencePatterns[pattern]","	pattern.Payload.Space = \"\"\n	pattern.Payload.Local = \"\"\n	pattern.Type = \"\"\n	h = m.presencePatterns[pattern]"),
 ("C14-M6-buf-not-shared-back","mux/mux.go","C14","			})\n			r.buf = br.buf\n		case stanza.Message:","			})\n		case stanza.Message:"),
 ("C14-M7-presence-ns-before-local","mux/mux.go","C14","	pattern.Payload.Space = \"\"\n	pattern.Payload.Local = payload.Local\n	h = m.presencePatterns[pattern]\n	if h != nil {\n		return h, true\n	}\n\n	pattern.Payload.Space = payload.Space\n	pattern.Payload.Local = \"\"\n	h = m.presencePatterns[pattern]","	pattern.Payload.Space = payload.Space\n	pattern.Payload.Local = \"\"\n	h = m.presencePatterns[pattern]\n	if h != nil {\n		return h, true\n	}\n\n	pattern.Payload.Space = \"\"\n	pattern.Payload.Local = payload.Local\n	h = m.presencePatterns[pattern]"),
 ("C14-M8-top-ns-before-local","mux/mux.go","C14","	n := name\n	n.Space = \"\"\n	h = m.patterns[n]\n	if h != nil {\n		return h, true\n	}\n\n	n = name\n	n.Local = \"\"\n	h = m.patterns[n]","	n := name\n	n.Local = \"\"\n	h = m.patterns[n]\n	if h != nil {\n		return h, true\n	}\n\n	n = name\n	n.Space = \"\"\n	h = m.patterns[n]"),
 ("C14-M9-message-dup-allowed","mux/option.go","C14","		if _, ok := m.msgPatterns[pat]; ok {\n			panic(\"mux: multiple registrations for \" + pat.String())\n		}\n","		_ = pat.String()\n"),
 ("C14-M10-presence-reader-not-rewound","mux/mux.go","C14","			br := &bufReader{r: t, buf: r.buf}\n			h, _ := m.PresenceHandler(s.Type, start.Name)","			br := &bufReader{r: t, buf: r.buf, offset: 1}\n			h, _ := m.PresenceHandler(s.Type, start.Name)"),
 ("C14-H1-harmless-iq-lookup-rewrite","mux/mux.go","C14,C07","	pattern.Payload.Space = \"\"\n	pattern.Payload.Local = payload.Local\n	h = m.iqPatterns[pattern]\n	if h != nil {\n		return h, true\n	}\n","	pattern.Payload = xml.Name{Local: payload.Local}\n	if h = m.iqPatterns[pattern]; h != nil {\n		return h, true\n	}\n"),
 ("C14-H2-harmless-bufreader-prealloc","mux/mux.go","C14","		buf:    make([]xml.Token, 0, 10),","		buf:    make([]xml.Token, 0, 64),"),
]
env = dict(os.environ, GOFLAGS='-mod=mod', GOPROXY='off', GOSUMDB='off', GOTOOLCHAIN='local', VERIF_REPO=repo)
def run_one(name, f, props, apply, revert):
    try:
        apply()
        b = subprocess.run(['go','build','./...'], cwd=repo, env=env, capture_output=True, text=True)
        if b.returncode != 0:
            print(name, 'DOES NOT COMPILE', b.stderr[-300:]); return
        t = subprocess.run(['go','test','-count=1','-timeout','300s','.','./mux','./internal/stream','./stanza','./websocket','./ibb','./receipts','./muc','./ping','./roster','./disco'], cwd=repo, env=env, capture_output=True, text=True)
        suite = 'suite-green' if t.returncode == 0 else 'SUITE-FAILS(' + ' '.join(l.split()[1].replace('mellium.im/xmpp','.') for l in t.stdout.split('\n') if l.startswith('FAIL\t')) + ')'
        for pr in props.split(','):
            c = subprocess.run(['./check', pr], cwd=V, env=env, capture_output=True, text=True)
            viol = [l for l in c.stdout.split('\n') if l.startswith('VIOLATION')]
            msg = 'no violation'
            if viol:
                msg = 'VIOLATION'
                if 'no-failing-input' not in viol[0]:
                    d = json.load(open(viol[0].split('replay=')[1].split()[0]))
                    msg += ' %s/%s' % (d.get('clause'), d.get('key'))
            print('%-38s %-34s %s exit=%d %s' % (name, suite, pr, c.returncode, msg), flush=True)
    finally:
        revert()
for name, f, props, old, new in M:
    if sel and not any(name.startswith(x) for x in sel): continue
    p = os.path.join(repo, f); s = open(p).read()
    if s.count(old) != 1:
        print(name, 'ANCHOR NOT FOUND (%d)' % s.count(old)); continue
    run_one(name, f, props, lambda: open(p,'w').write(s.replace(old, new)), lambda: subprocess.run(['git','checkout','--',f], cwd=repo))
# independently written breaking changes (patch files)
seeded = sorted(d for d in os.listdir(V + '/seeded') if re.match(r'C(07|08|14)-\d+$', d))
for d, pr in [(d, d.split('-')[0]) for d in seeded]:
    name = 'seeded-' + d
    if sel and not any(name.startswith(x) for x in sel): continue
    patch = V + '/seeded/%s/patch.diff' % d
    if not os.path.exists(patch): continue
    run_one(name, '.', pr, lambda: subprocess.run(['git','apply',patch], cwd=repo, check=True), lambda: subprocess.run(['git','checkout','--','.'], cwd=repo))
