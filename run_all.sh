#!/bin/sh
# Convenience: run every claimed check of MANIFEST.json (tier $1, default quick), 6 at a time.
cd "$(dirname "$0")"
TIER=${1:-quick}
python3 -c "import json;print(' '.join(c['property_id'] for c in json.load(open('MANIFEST.json'))['checks']))" | tr ' ' '\n' | \
  xargs -P ${RUN_PAR:-6} -I{} sh -c './check {} --tier '"$TIER"' > work/all-{}.log 2>&1; echo "{} exit $?"; grep -E "VIOLATION|KNOWN-FINDING" work/all-{}.log | head -5'
