#!/usr/bin/env python3
"""Rewrites the commit ids of the `fixed:` lines of KNOWN_FINDINGS.txt to the ids the commits have
on /repo main now (matched by subject; the old objects are still in the object store after a
cherry-pick or rebase)."""
import subprocess, re
def git(*a):
    return subprocess.run(["git", "-C", "/repo"] + list(a), capture_output=True, text=True).stdout
cur = {}
for l in git("log", "--format=%h\t%s", "76596b2..main").strip().split("\n"):
    h, s = l.split("\t", 1); cur.setdefault(s, h)
p = "/verif/KNOWN_FINDINGS.txt"
out = []
for line in open(p):
    m = re.match(r"(fixed:\s+property=\S+\s+)([0-9a-f]{7,40})(\b.*)", line, re.S)
    if m:
        subj = git("log", "-1", "--format=%s", m.group(2)).strip()
        if subj in cur:
            if cur[subj] != m.group(2)[:len(cur[subj])]:
                print("remapped", m.group(2), "->", cur[subj], subj[:60])
            line = m.group(1) + cur[subj] + m.group(3)
        else:
            print("NOT ON MAIN:", m.group(2), subj[:80] or "(unknown object)")
    elif line.startswith("fixed:"):
        print("NO COMMIT ID:", line[:100].strip())
    out.append(line)
open(p, "w").writelines(out)
