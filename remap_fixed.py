#!/usr/bin/env python3
"""After cherry-picking a builder's fix commits into /repo main, rewrite the commit ids of the
`fixed:` lines in KNOWN_FINDINGS.txt (old worktree-branch ids -> ids on /repo main, matched by subject)."""
import subprocess, sys, re
branch = sys.argv[1]
def log(rng):
    out = subprocess.run(["git", "-C", "/repo", "log", "--format=%h\t%s", rng], capture_output=True, text=True).stdout
    return [l.split("\t", 1) for l in out.strip().split("\n") if l]
old = log("main.." + branch)
new = {s: h for h, s in log("76596b2..main")}
p = "/verif/KNOWN_FINDINGS.txt"
s = open(p).read()
for h, subj in old:
    if subj in new:
        s2 = re.sub(r"\b%s[0-9a-f]*\b" % h[:7], new[subj], s)
        if s2 != s:
            print("remapped", h, "->", new[subj], subj[:70])
        s = s2
    else:
        print("NOT ON MAIN:", h, subj)
open(p, "w").write(s)
