import XmppModel.Driver.C01
import XmppModel.Driver.C02
import XmppModel.Driver.C03
import XmppModel.Driver.C04
import XmppModel.Driver.C05
import XmppModel.Driver.C06
import XmppModel.Driver.C07
import XmppModel.Driver.C08
import XmppModel.Driver.C09
import XmppModel.Driver.C10
import XmppModel.Driver.C11
import XmppModel.Driver.C12
import XmppModel.Driver.C13
import XmppModel.Driver.C14
import XmppModel.Driver.C15
import XmppModel.Driver.C16
import XmppModel.Driver.C17
import XmppModel.Driver.C18
import XmppModel.Driver.C19
import XmppModel.Driver.C20
/-!
Model driver: one protocol line in, one answer line out.

* a line starting with `#` is echoed (case markers);
* `Cxx <fields…>` is answered by `XmppModel.Driver.Cxx.handle`, the answer is
  prefixed with `=`;
* anything a handler does not understand is answered `!bad-op` — never a default.
-/
open XmppModel.Driver

def dispatch (id : String) (args : List String) : Option String :=
  match id with
  | "C01" => C01.handle args | "C02" => C02.handle args | "C03" => C03.handle args
  | "C04" => C04.handle args | "C05" => C05.handle args | "C06" => C06.handle args
  | "C07" => C07.handle args | "C08" => C08.handle args | "C09" => C09.handle args
  | "C10" => C10.handle args | "C11" => C11.handle args | "C12" => C12.handle args
  | "C13" => C13.handle args | "C14" => C14.handle args | "C15" => C15.handle args
  | "C16" => C16.handle args | "C17" => C17.handle args | "C18" => C18.handle args
  | "C19" => C19.handle args | "C20" => C20.handle args
  | _ => none

def answer (line : String) : String :=
  if line.startsWith "#" then line else
  match (line.splitOn " ").filter (· ≠ "") with
  | id :: args =>
    match dispatch id args with
    | some r => "=" ++ r
    | none => "!bad-op"
  | [] => "!bad-op"

partial def loop (hin hout : IO.FS.Stream) : IO Unit := do
  let line ← hin.getLine
  if line.isEmpty then return ()
  let l := if line.endsWith "\n" then (line.dropEnd 1).toString else line
  hout.putStrLn (answer l)
  loop hin hout

def main : IO Unit := do
  let hin ← IO.getStdin
  let hout ← IO.getStdout
  loop hin hout
  hout.flush
