import XmppModel.Prelude.Hex
open XmppModel
def encChar (n : Nat) : UInt8 :=
  if n < 26 then (65 + n).toUInt8 else if n < 52 then (71 + n).toUInt8
  else if n < 62 then (n - 4).toUInt8 else if n = 62 then 43 else 47

def decChar (c : UInt8) : Option Nat :=
  let n := c.toNat
  if 65 ≤ n ∧ n ≤ 90 then some (n - 65)
  else if 97 ≤ n ∧ n ≤ 122 then some (n - 71)
  else if 48 ≤ n ∧ n ≤ 57 then some (n + 4)
  else if n = 43 then some 62
  else if n = 47 then some 63
  else none

theorem dec_enc : ∀ n, n < 64 → decChar (encChar n) = some n := by decide
theorem enc_ne : ∀ n, n < 64 → encChar n ≠ 61 ∧ encChar n ≠ 10 ∧ encChar n ≠ 13 := by decide
example (a : UInt8) : a.toNat.toUInt8 = a := by simp
#check @UInt8.toNat_lt
