import XmppModel.Model.Correlate
open XmppModel.Correlate

def InvA (cfg : Cfg) (s : St) : Prop :=
  ∀ x j, s.table x = some j → cfg.ids j = x ∧ s.rpc j ≠ .fresh

structure InvB (cfg : Cfg) (s : St) : Prop where
  offer : ∀ j k, s.spc = .offering j k →
    k + 1 = s.hist.length ∧ (∃ st, s.hist[k]? = some st ∧ matchesReq cfg j st) ∧ s.rpc j ≠ .fresh
      ∧ k ∉ s.hlog ∧ k ∉ s.dropped ∧ ∀ i, ¬ holds s i k
  waitHold : ∀ j k, s.spc = .waitClose j k → holdsOpen s j k
  holdWait : ∀ i k, holdsOpen s i k → s.spc = .waitClose i k
  holdMatch : ∀ i k, holds s i k → (∃ st, s.hist[k]? = some st ∧ matchesReq cfg i st) ∧ k ∉ s.hlog ∧ k ∉ s.dropped ∧ k < s.hist.length
  hlogOld : ∀ k ∈ s.hlog, k < s.hist.length
  dropOld : ∀ k ∈ s.dropped, k < s.hist.length
  uniq : ∀ i i' k, holds s i k → holds s i' k → i = i'

theorem lookup_some {cfg : Cfg} {s : St} {st : Stanza} {j : Nat} (h : lookup cfg s st = some j) :
    st.resp = true ∧ s.table st.id = some j ∧ cfg.kinds j = st.kind := by
  unfold lookup at h
  split at h
  · split at h
    · split at h <;> simp_all
    · simp at h
  · simp at h

theorem invB_step {cfg s a s'} (hA : InvA cfg s) (h : InvB cfg s) (hs : step cfg s a = some s') : InvB cfg s' := by
  obtain ⟨h1, h2, h3, h4, h5, h6, h7⟩ := h
  cases a <;> simp only [step] at hs
  case read st =>
    split at hs
    · split at hs
      · rename_i j hl
        have := lookup_some hl
        simp at hs; subst hs
        constructor <;> simp only [holds, holdsOpen, matchesReq] at * <;> grind [InvA]
      · simp at hs; subst hs
        constructor <;> simp only [holds, holdsOpen, matchesReq] at * <;> grind
    · simp at hs
  all_goals
    (repeat' split at hs) <;> (try simp at hs) <;> (try subst hs) <;>
    (constructor <;> simp only [holds, holdsOpen, matchesReq, upd, ctxDone] at * <;> grind [InvA])
