import XmppModel.Props.C06
#print axioms XmppModel.Props.C06.C06_progress_serve
#print axioms XmppModel.Props.C06.C06_progress_serve_fails_without_fix
#print axioms XmppModel.Props.C06.C06_single_delivery
#print axioms XmppModel.Props.C06.C06_receipts_signal_never_blocks
