import XmppModel.Model.Correlate
open XmppModel.Correlate

def InvA (cfg : Cfg) (s : St) : Prop :=
  ∀ x j, s.table x = some j → cfg.ids j = x ∧ s.rpc j ≠ .fresh

theorem invA_step {cfg s a s'} (h : InvA cfg s) (hs : step cfg s a = some s') : InvA cfg s' := by
  intro x j hx
  cases a <;> simp only [step] at hs <;> (try split at hs) <;> (try split at hs) <;> (try simp at hs) <;> (try subst hs) <;>
    simp only [upd] at hx ⊢ <;> grind [InvA]
