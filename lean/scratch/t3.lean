import XmppModel.Model.Correlate
namespace XmppModel.Correlate

def InvA (cfg : Cfg) (s : St) : Prop :=
  ∀ x j, s.table x = some j → cfg.ids j = x ∧ s.rpc j ≠ .fresh

def matchesAt (cfg : Cfg) (s : St) (i k : Nat) : Prop :=
  k < s.hist.length ∧ ∀ st, s.hist[k]? = some st → matchesReq cfg i st

structure InvB (cfg : Cfg) (s : St) : Prop where
  offer : ∀ j k, s.spc = .offering j k →
    k + 1 = s.hist.length ∧ matchesAt cfg s j k ∧ s.rpc j ≠ .fresh
      ∧ k ∉ s.hlog ∧ k ∉ s.dropped ∧ ∀ i, (s.rpc i).held ≠ some k
  waitHold : ∀ j k, s.spc = .waitClose j k → (s.rpc j).heldOpen = some k
  holdWait : ∀ i k, (s.rpc i).heldOpen = some k → s.spc = .waitClose i k
  holdMatch : ∀ i k, (s.rpc i).held = some k → matchesAt cfg s i k ∧ k ∉ s.hlog ∧ k ∉ s.dropped
  hlogOld : ∀ k ∈ s.hlog, k < s.hist.length
  dropOld : ∀ k ∈ s.dropped, k < s.hist.length
  uniq : ∀ i i' k, (s.rpc i).held = some k → (s.rpc i').held = some k → i = i'

theorem lookup_some {cfg : Cfg} {s : St} {st : Stanza} {j : Nat} (h : lookup cfg s st = some j) :
    st.resp = true ∧ s.table st.id = some j ∧ cfg.kinds j = st.kind := by
  unfold lookup at h
  split at h
  · split at h
    · split at h <;> simp_all
    · simp at h
  · simp at h

attribute [local grind] RPc.held RPc.heldOpen


set_option hygiene false in
macro "inv_case" : tactic => `(tactic|
  (split at hs <;> (try split at hs) <;> (try split at hs) <;> (try simp at hs) <;> (try subst hs) <;>
    (try (constructor <;> simp only [matchesAt, matchesReq, upd] at * <;> grind))))

theorem invB_call {cfg s s'} {i : Nat} (h : InvB cfg s) (hs : step cfg s (.call i) = some s') : InvB cfg s' := by
  obtain ⟨h1, h2, h3, h4, h5, h6, h7⟩ := h
  simp only [step] at hs
  inv_case

theorem invB_sendOk {cfg s s'} {i : Nat} (h : InvB cfg s) (hs : step cfg s (.sendOk i) = some s') : InvB cfg s' := by
  obtain ⟨h1, h2, h3, h4, h5, h6, h7⟩ := h
  simp only [step] at hs
  inv_case

theorem invB_sendFail {cfg s s'} {i : Nat} (h : InvB cfg s) (hs : step cfg s (.sendFail i) = some s') : InvB cfg s' := by
  obtain ⟨h1, h2, h3, h4, h5, h6, h7⟩ := h
  simp only [step] at hs
  inv_case

theorem invB_cancel {cfg s s'} {i : Nat} (h : InvB cfg s) (hs : step cfg s (.cancel i) = some s') : InvB cfg s' := by
  obtain ⟨h1, h2, h3, h4, h5, h6, h7⟩ := h
  simp only [step] at hs
  simp at hs; subst hs
  constructor <;> simp only [matchesAt, matchesReq, upd] at * <;> grind

theorem invB_recv {cfg s s'} {i : Nat} (h : InvB cfg s) (hs : step cfg s (.recv i) = some s') : InvB cfg s' := by
  obtain ⟨h1, h2, h3, h4, h5, h6, h7⟩ := h
  simp only [step] at hs
  inv_case

theorem invB_timeout {cfg s s'} {i : Nat} (h : InvB cfg s) (hs : step cfg s (.timeout i) = some s') : InvB cfg s' := by
  obtain ⟨h1, h2, h3, h4, h5, h6, h7⟩ := h
  simp only [step] at hs
  inv_case

theorem invB_dereg {cfg s s'} {i : Nat} (h : InvB cfg s) (hs : step cfg s (.dereg i) = some s') : InvB cfg s' := by
  obtain ⟨h1, h2, h3, h4, h5, h6, h7⟩ := h
  simp only [step] at hs
  split at hs
  · rename_i o ho
    simp at hs; subst hs
    cases o <;> (constructor <;> simp only [matchesAt, matchesReq, upd] at * <;> grind)
  · simp at hs

theorem invB_close {cfg s s'} {i : Nat} (h : InvB cfg s) (hs : step cfg s (.close i) = some s') : InvB cfg s' := by
  obtain ⟨h1, h2, h3, h4, h5, h6, h7⟩ := h
  simp only [step] at hs
  inv_case

theorem invB_abandon {cfg s s'} (h : InvB cfg s) (hs : step cfg s .abandon = some s') : InvB cfg s' := by
  obtain ⟨h1, h2, h3, h4, h5, h6, h7⟩ := h
  simp only [step] at hs
  inv_case

theorem invB_read {cfg s s'} {st : Stanza} (hA : InvA cfg s) (h : InvB cfg s) (hs : step cfg s (.read st) = some s') : InvB cfg s' := by
  obtain ⟨h1, h2, h3, h4, h5, h6, h7⟩ := h
  simp only [step] at hs
  split at hs
  · split at hs
    · rename_i j hl
      have := lookup_some hl
      simp at hs; subst hs
      constructor <;> simp only [matchesAt, matchesReq] at * <;> grind [InvA]
    · simp at hs; subst hs
      constructor <;> simp only [matchesAt, matchesReq] at * <;> grind
  · simp at hs
