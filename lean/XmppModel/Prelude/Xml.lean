import XmppModel.Prelude.Hex
/-!
XML token lists as the models see them.  `encoding/xml` itself (tokeniser, printer,
reflection) is not modelled: the harness tokenises with the real decoder and hands token
lists to the models.

Protocol encoding of a token list (one field, no spaces): tokens joined by `;`, each token
`K:field:field…` with every field hex-encoded (empty string = empty field):

    S:<space>:<local>[:<aspace>=<alocal>=<value>]*     start element
    E:<space>:<local>                                   end element
    C:<text>   M:<comment>   P:<target>:<inst>   D:<directive>

The empty list is `-`.
-/
namespace XmppModel.Xml

structure Name where
  space : String
  loc : String
  deriving DecidableEq, Repr, Inhabited, BEq

structure Attr where
  name : Name
  value : String
  deriving DecidableEq, Repr, Inhabited, BEq

inductive Tok
  | start (name : Name) (attrs : List Attr)
  | stop (name : Name)
  | chars (text : String)
  | comment (text : String)
  | procInst (target : String) (inst : String)
  | directive (text : String)
  deriving DecidableEq, Repr, Inhabited, BEq

def Tok.isStart : Tok → Bool | .start .. => true | _ => false
def Tok.isStop : Tok → Bool | .stop .. => true | _ => false

/-- nesting depth after reading the tokens, starting from `d`; `none` if an end tag
appears at depth 0 -/
def depthAfter : Nat → List Tok → Option Nat
  | d, [] => some d
  | d, .start .. :: ts => depthAfter (d + 1) ts
  | 0, .stop _ :: _ => none
  | d + 1, .stop _ :: ts => depthAfter d ts
  | d, _ :: ts => depthAfter d ts

/-- every end tag closes an open start tag and nothing stays open (names are not compared:
`encoding/xml`'s encoder checks them, the models only need nesting) -/
def balanced (ts : List Tok) : Bool := depthAfter 0 ts == some 0

/-- attribute lookup as `for _, a := range start.Attr { if a.Name.Local == … }` (first match,
any namespace) -/
def attrLocal (attrs : List Attr) (loc : String) : Option String :=
  (attrs.find? (·.name.loc == loc)).map (·.value)

/-- attribute lookup on full name -/
def attrFull (attrs : List Attr) (n : Name) : Option String :=
  (attrs.find? (·.name == n)).map (·.value)

/-! ### protocol encoding -/

def hexF (s : String) : String :=
  String.ofList (s.toUTF8.toList.flatMap fun x => [hexDigit (x.toNat / 16), hexDigit (x.toNat % 16)])

def unhexF (s : String) : Option String :=
  if s.isEmpty then some "" else hexDecodeStr s

def encAttr (a : Attr) : String := s!"{hexF a.name.space}={hexF a.name.loc}={hexF a.value}"

def encTok : Tok → String
  | .start n as => ":".intercalate (["S", hexF n.space, hexF n.loc] ++ as.map encAttr)
  | .stop n => s!"E:{hexF n.space}:{hexF n.loc}"
  | .chars t => s!"C:{hexF t}"
  | .comment t => s!"M:{hexF t}"
  | .procInst t i => s!"P:{hexF t}:{hexF i}"
  | .directive t => s!"D:{hexF t}"

def encToks (ts : List Tok) : String :=
  if ts.isEmpty then "-" else ";".intercalate (ts.map encTok)

def decAttr (s : String) : Option Attr :=
  match s.splitOn "=" with
  | [a, b, c] => do
    let sp ← unhexF a; let lo ← unhexF b; let v ← unhexF c
    pure ⟨⟨sp, lo⟩, v⟩
  | _ => none

def decTok (s : String) : Option Tok :=
  match s.splitOn ":" with
  | "S" :: sp :: lo :: attrs => do
    let sp ← unhexF sp; let lo ← unhexF lo
    let as ← mapM? decAttr attrs
    pure (.start ⟨sp, lo⟩ as)
  | ["E", sp, lo] => do
    let sp ← unhexF sp; let lo ← unhexF lo
    pure (.stop ⟨sp, lo⟩)
  | ["C", t] => (unhexF t).map .chars
  | ["M", t] => (unhexF t).map .comment
  | ["P", t, i] => do
    let t ← unhexF t; let i ← unhexF i
    pure (.procInst t i)
  | ["D", t] => (unhexF t).map .directive
  | _ => none

def decToks (s : String) : Option (List Tok) :=
  if s == "-" then some [] else mapM? decTok (s.splitOn ";")

end XmppModel.Xml
