/-
Line-protocol helpers shared by every driver module (core Lean only).

Byte strings travel hex-encoded (lower case, two digits per byte, the empty
string is written `-`).  Nothing here defaults: a malformed field makes the
parser return `none`, and the driver answers `!bad-op`.
-/
namespace XmppModel

abbrev Bytes := List UInt8

def hexDigit (n : Nat) : Char :=
  if n < 10 then Char.ofNat (48 + n) else Char.ofNat (87 + n)

def hexVal (c : Char) : Option Nat :=
  if '0' ≤ c ∧ c ≤ '9' then some (c.toNat - 48)
  else if 'a' ≤ c ∧ c ≤ 'f' then some (c.toNat - 87)
  else if 'A' ≤ c ∧ c ≤ 'F' then some (c.toNat - 55)
  else none

def hexEncode (b : Bytes) : String :=
  if b.isEmpty then "-" else
  String.ofList (b.flatMap fun x => [hexDigit (x.toNat / 16), hexDigit (x.toNat % 16)])

def hexDecodeChars : List Char → Option Bytes
  | [] => some []
  | [_] => none
  | a :: b :: rest => do
    let x ← hexVal a
    let y ← hexVal b
    let r ← hexDecodeChars rest
    pure (UInt8.ofNat (x * 16 + y) :: r)

def hexDecode (s : String) : Option Bytes :=
  if s == "-" then some [] else hexDecodeChars s.toList

/-- Hex-encoded UTF-8 text field. -/
def hexDecodeStr (s : String) : Option String := do
  let b ← hexDecode s
  let ba := ByteArray.mk b.toArray
  String.fromUTF8? ba

def hexEncodeStr (s : String) : String := hexEncode s.toUTF8.toList

def parseBool (s : String) : Option Bool :=
  if s == "1" then some true else if s == "0" then some false else none

def showBool (b : Bool) : String := if b then "1" else "0"

/-- Split a `,`-joined list field; `-` is the empty list. -/
def splitList (s : String) (sep : Char := ',') : List String :=
  if s == "-" then [] else s.split (· == sep) |>.toList |>.map (·.toString)

def joinList (l : List String) (sep : String := ",") : String :=
  if l.isEmpty then "-" else sep.intercalate l

def mapM? {α β} (f : α → Option β) : List α → Option (List β)
  | [] => some []
  | a :: as => do
    let b ← f a
    let bs ← mapM? f as
    pure (b :: bs)

end XmppModel
