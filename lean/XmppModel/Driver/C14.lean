import XmppModel.Prelude.Hex
import XmppModel.Model.Mux
import XmppModel.Model.MuxElem
/-!
Driver for C14 (see harness/c14).  Patterns are written `k:typ:space:loc` (k ∈ t|i|m|p, the
other fields hex), pattern lists `,`-joined (`-` empty), names `space:loc` (hex).

    lookup <k> <typ> <name> <patterns>            -> <pattern> | none
    route <stanzaNS> <name> <patterns>            -> h=<pattern> | router | nop
    children <k> <typ> <patterns> <toks> <cons>   -> `/`-joined <pattern>=<toks read> of the registered handlers that ran
    direct <sep|eof> <k> <typ> <patterns> <toks> <cons> <errs>
                                                  -> the same `|err=`<ordinals of the failed calls>`|w=`<ordinals of the
                                                     handlers whose write reached the encoder>; HandleXMPP called on a
                                                     reader of that end-of-input framing, handlers in <errs> return an error
    iqdirect <sep|eof> <typ> <patterns> <toks> <c> -> h=<pattern>@<payload name>=<toks read> | fallback@<to>/<from>/<id> of
                                                     the reply | nothing | err
    (<typ> of children / direct / iqdirect is the type the harness' specification reads from the start element's own
     attributes; the model reads it from <toks> itself and answers MODEL-TYPE=… when the two differ)
    iqdefault <typ> <name> <patterns>             -> h=<pattern> | fallback | nothing
    hist <stanzaNS> <op,op,…>                     -> `;`-joined results; op = R<pattern> | R!<pattern> (nil handler) |
                                                     L<pattern as query> | D<name>
    register <patterns> <pattern> <nil>           -> ok | panic
    elem <ctor> <stanzaNS> <patterns> <toks> <cons> -> HandleXMPP on a complete top-level element, the multiplexer built by
                                                     <ctor> = new | late | zero | value: `/`-joined patterns of the handlers
                                                     that ran | - | fallback@<to>/<from>/<id> | err
    overlap <mode> <warm> <patterns> <toksA> <consA> <at> <pre> <toksB> <consB>
                                                  -> <calls of A>&<calls of B>: stanza B is dispatched through the same
                                                     multiplexer while the handler with ordinal <at> of stanza A has read
                                                     <pre> tokens (mode nest: from inside that handler; conc / conc2: on
                                                     another goroutine), after <warm> earlier dispatches
    cut <k> <typ> <patterns> <toks> <cons> <cut>  -> <calls>|fail: the reader hands out the first <cut> tokens of the stanza and
                                                     then fails; HandleXMPP must return that error
    direct … <errs> <parsemap>, iqdirect … <c> <parsemap>
                                                  -> as above with the verdicts of jid.Parse on the addresses that occur
                                                     (`,`-joined <raw>=<canonical> | <raw>=!): `addrerr` / `err` when an own
                                                     address is rejected; direct appends |a=<to>/<from> of the stanza value
-/
namespace XmppModel.Driver.C14
open XmppModel XmppModel.Xml XmppModel.Mux

def decKind (s : String) : Option Kind :=
  if s == "t" then some .top else if s == "i" then some .iq else if s == "m" then some .msg
  else if s == "p" then some .pres else none

def encKind : Kind → String | .top => "t" | .iq => "i" | .msg => "m" | .pres => "p"

def decPattern (s : String) : Option Pattern :=
  match s.splitOn ":" with
  | [k, t, sp, lo] => do
    let k ← decKind k; let t ← unhexF t; let sp ← unhexF sp; let lo ← unhexF lo
    pure ⟨k, t, ⟨sp, lo⟩⟩
  | _ => none

def encPattern (p : Pattern) : String :=
  s!"{encKind p.kind}:{hexF p.typ}:{hexF p.name.space}:{hexF p.name.loc}"

def decPatterns (s : String) : Option (List Pattern) :=
  if s == "-" then some [] else mapM? decPattern (s.splitOn ",")

def decName (s : String) : Option Name :=
  match s.splitOn ":" with
  | [sp, lo] => do
    let sp ← unhexF sp; let lo ← unhexF lo
    pure ⟨sp, lo⟩
  | _ => none

def decNats (s : String) : Option (List Nat) :=
  if s == "-" then some [] else mapM? String.toNat? (s.splitOn ",")

def field (s : String) : Option String := unhexF (if s == "-" then "" else s)

def decHOp (s : String) : Option HOp :=
  if s.startsWith "Rf!" then (decPattern (s.drop 3).toString).map fun p => .reg p true
  else if s.startsWith "Rf" then (decPattern (s.drop 2).toString).map fun p => .reg p false
  else if s.startsWith "R!" then (decPattern (s.drop 2).toString).map fun p => .reg p true
  else if s.startsWith "R" then (decPattern (s.drop 1).toString).map fun p => .reg p false
  else if s.startsWith "L" then (decPattern (s.drop 1).toString).map fun p => .look p.kind p.typ p.name
  else if s.startsWith "D" then (decName (s.drop 1).toString).map .disp
  else none

def encHRes : HRes → String
  | .regOk => "ok" | .regPanic => "panic"
  | .found p => "h=" ++ encPattern p | .notFound => "none"
  | .router => "router" | .nop => "nop"

def decParse (s : String) : Option (List (String × Option String)) :=
  if s == "-" then some [] else mapM? (fun e =>
    match e.splitOn "=" with
    | [r, c] => do
      let r ← unhexF r
      if c == "!" then pure (r, none) else do let c ← unhexF c; pure (r, some c)
    | _ => none) (s.splitOn ",")

def parseOf (m : List (String × Option String)) : ParseFn := parseOfList m

def decCtor (s : String) : Option Ctor :=
  if s == "new" then some .new else if s == "late" then some .late else if s == "zero" then some .zero
  else if s == "value" then some .value else if s == "redis" then some .redis else none

def encCalls (all : List Call) : String :=
  let calls := all.filterMap fun c => c.pat.map fun p => encPattern p ++ "=" ++ encToks c.view
  if calls.isEmpty then "-" else "/".intercalate calls

def kindOfToks (toks : List Tok) : Kind :=
  match toks with
  | .start n _ :: _ => if n.loc == "presence" then .pres else .msg
  | _ => .msg

/-- one dispatch of an overlap line, on its own: a message / presence through `stanzaRoute`, an
IQ through `iqRouteA` -/
def encDispatch (pats : Table) (toks : List Tok) (cons : List Nat) : String :=
  match toks with
  | .start n _ :: _ =>
    if n.loc == "iq" then
      (match iqRouteA pats toks (cons.headD 0) with
       | .handler p pn view => "h=" ++ encPattern p ++ "@" ++ hexF pn.space ++ ":" ++ hexF pn.loc ++ "=" ++ encToks view
       | .reply h => "fallback@" ++ hexF h.to ++ "/" ++ hexF h.frm ++ "/" ++ hexF h.id
       | .nothing => "nothing"
       | .err => "err")
    else encCalls (stanzaRoute .sep pats (kindOfToks toks) toks cons)
  | _ => "-"

def handle (args : List String) : Option String :=
  match args with
  | ["elem", ctor, ns, pats, toks, cons] => do
    let ctor ← decCtor ctor; let ns ← field ns; let pats ← decPatterns pats
    let toks ← decToks toks; let cons ← decNats cons
    pure (match handleElem pats (muxNS ctor ns) toks cons with
      | .ran ps => if ps.isEmpty then "-" else "/".intercalate (ps.map encPattern)
      | .reply h => "fallback@" ++ hexF h.to ++ "/" ++ hexF h.frm ++ "/" ++ hexF h.id
      | .err => "err")
  | ["cut", k, typ, pats, toks, cons, cut] => do
    let k ← decKind k; let typ ← field typ; let pats ← decPatterns pats
    let toks ← decToks toks; let cons ← decNats cons; let cut ← cut.toNat?
    let mtyp := (stanzaHdr k (startAttrs toks)).typ
    if mtyp != typ then pure s!"MODEL-TYPE={hexF mtyp}" else
    pure (encCalls (stanzaRouteCut pats k toks cons cut) ++ "|fail")
  | ["overlap", _mode, _warm, pats, toksA, consA, _at, _pre, toksB, consB] => do
    let pats ← decPatterns pats
    let toksA ← decToks toksA; let consA ← decNats consA
    let toksB ← decToks toksB; let consB ← decNats consB
    -- the multiplexer keeps nothing between or during dispatches: each is its own router run
    pure (encDispatch pats toksA consA ++ "&" ++ encDispatch pats toksB consB)
  | ["direct", fr, k, typ, pats, toks, cons, errs, pm] => do
    let fr ← (if fr == "sep" then some Framing.sep else if fr == "eof" then some Framing.eof else none)
    let k ← decKind k; let typ ← field typ; let pats ← decPatterns pats
    let toks ← decToks toks; let cons ← decNats cons; let errs ← decNats errs
    let pm ← decParse pm
    match stanzaRouteP (parseOf pm) fr pats k toks cons with
    | none => pure "addrerr"
    | some (all, h) =>
      if h.typ != typ then pure s!"MODEL-TYPE={hexF h.typ}" else
      let failed := failedCalls all errs
      let e := if failed.isEmpty then "-" else ",".intercalate (failed.map toString)
      let w := writesOf all
      let ws := if w.isEmpty then "-" else ",".intercalate (w.map toString)
      let a := if (ranOf all).isEmpty then "-" else hexF h.to ++ "/" ++ hexF h.frm
      pure (encCalls all ++ "|err=" ++ e ++ "|w=" ++ ws ++ "|a=" ++ a)
  | ["iqdirect", _fr, typ, pats, toks, c, pm] => do
    let typ ← field typ; let pats ← decPatterns pats; let toks ← decToks toks; let c ← c.toNat?
    let pm ← decParse pm
    let mtyp := (stanzaHdr .iq (startAttrs toks)).typ
    if mtyp != typ then pure s!"MODEL-TYPE={hexF mtyp}" else
    pure (match iqRouteP (parseOf pm) pats toks c with
      | .handler p n view => "h=" ++ encPattern p ++ "@" ++ hexF n.space ++ ":" ++ hexF n.loc ++ "=" ++ encToks view
      | .reply h => "fallback@" ++ hexF h.to ++ "/" ++ hexF h.frm ++ "/" ++ hexF h.id
      | .nothing => "nothing"
      | .err => "err")
  | ["lookup", k, typ, n, pats] => do
    let k ← decKind k; let typ ← field typ; let n ← decName n; let pats ← decPatterns pats
    pure (match lookup pats k typ n with | some p => encPattern p | none => "none")
  | ["route", ns, n, pats] => do
    let ns ← field ns; let n ← decName n; let pats ← decPatterns pats
    pure (match route pats ns n with
      | .handler p => "h=" ++ encPattern p
      | .nop => "nop"
      | _ => "router")
  | ["children", k, typ, pats, toks, cons] => do
    let k ← decKind k; let typ ← field typ; let pats ← decPatterns pats
    let toks ← decToks toks; let cons ← decNats cons
    -- the type is the model's reading of the stanza's own attributes (`msgRouter` /
    -- `presenceRouter`); the harness states the type its specification derives
    let mtyp := (stanzaHdr k (startAttrs toks)).typ
    if mtyp != typ then pure s!"MODEL-TYPE={hexF mtyp}" else
    let calls := (forChildren pats k mtyp toks cons).filterMap fun c =>
      c.pat.map fun p => encPattern p ++ "=" ++ encToks c.view
    pure (if calls.isEmpty then "-" else "/".intercalate calls)
  | ["direct", fr, k, typ, pats, toks, cons, errs] => do
    let fr ← (if fr == "sep" then some Framing.sep else if fr == "eof" then some Framing.eof else none)
    let k ← decKind k; let typ ← field typ; let pats ← decPatterns pats
    let toks ← decToks toks; let cons ← decNats cons; let errs ← decNats errs
    let mtyp := (stanzaHdr k (startAttrs toks)).typ
    if mtyp != typ then pure s!"MODEL-TYPE={hexF mtyp}" else
    let all := stanzaRoute fr pats k toks cons
    let calls := all.filterMap fun c =>
      c.pat.map fun p => encPattern p ++ "=" ++ encToks c.view
    let failed := failedCalls all errs
    let e := if failed.isEmpty then "-" else ",".intercalate (failed.map toString)
    let w := writesOf all
    let ws := if w.isEmpty then "-" else ",".intercalate (w.map toString)
    pure ((if calls.isEmpty then "-" else "/".intercalate calls) ++ "|err=" ++ e ++ "|w=" ++ ws)
  | ["iqdirect", _fr, typ, pats, toks, c] => do
    let typ ← field typ; let pats ← decPatterns pats; let toks ← decToks toks; let c ← c.toNat?
    let mtyp := (stanzaHdr .iq (startAttrs toks)).typ
    if mtyp != typ then pure s!"MODEL-TYPE={hexF mtyp}" else
    pure (match iqRouteA pats toks c with
      | .handler p n view => "h=" ++ encPattern p ++ "@" ++ hexF n.space ++ ":" ++ hexF n.loc ++ "=" ++ encToks view
      | .reply h => "fallback@" ++ hexF h.to ++ "/" ++ hexF h.frm ++ "/" ++ hexF h.id
      | .nothing => "nothing"
      | .err => "err")
  | ["iqdefault", typ, n, pats] => do
    let typ ← field typ; let n ← decName n; let pats ← decPatterns pats
    pure (match iqDispatch pats typ n with
      | .handler p => "h=" ++ encPattern p
      | .fallback => "fallback"
      | .nothing => "nothing")
  | ["hist", ns, ops] => do
    let ns ← field ns
    let ops ← if ops == "-" then some [] else mapM? decHOp (ops.splitOn ",")
    pure (joinList ((runHist ns [] ops).map encHRes) ";")
  | ["register", pats, p, nl] => do
    let pats ← decPatterns pats; let p ← decPattern p; let nl ← parseBool nl
    pure (match register pats p nl with | some _ => "ok" | none => "panic")
  | _ => none

end XmppModel.Driver.C14
