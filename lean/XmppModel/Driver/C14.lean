import XmppModel.Prelude.Hex
import XmppModel.Model.Mux
/-!
Driver for C14 (see harness/c14).  Patterns are written `k:typ:space:loc` (k ∈ t|i|m|p, the
other fields hex), pattern lists `,`-joined (`-` empty), names `space:loc` (hex).

    lookup <k> <typ> <name> <patterns>            -> <pattern> | none
    route <stanzaNS> <name> <patterns>            -> h=<pattern> | router | nop
    children <k> <typ> <patterns> <toks> <cons>   -> `/`-joined <pattern>=<toks read> of the registered handlers that ran
    direct <sep|eof> <k> <typ> <patterns> <toks> <cons> <errs>
                                                  -> the same `|err=`<ordinals of the failed calls>`|w=`<ordinals of the
                                                     handlers whose write reached the encoder>; HandleXMPP called on a
                                                     reader of that end-of-input framing, handlers in <errs> return an error
    iqdirect <sep|eof> <typ> <patterns> <toks> <c> -> h=<pattern>@<payload name>=<toks read> | fallback@<to>/<from>/<id> of
                                                     the reply | nothing | err
    (<typ> of children / direct / iqdirect is the type the harness' specification reads from the start element's own
     attributes; the model reads it from <toks> itself and answers MODEL-TYPE=… when the two differ)
    iqdefault <typ> <name> <patterns>             -> h=<pattern> | fallback | nothing
    hist <stanzaNS> <op,op,…>                     -> `;`-joined results; op = R<pattern> | R!<pattern> (nil handler) |
                                                     L<pattern as query> | D<name>
    register <patterns> <pattern> <nil>           -> ok | panic
-/
namespace XmppModel.Driver.C14
open XmppModel XmppModel.Xml XmppModel.Mux

def decKind (s : String) : Option Kind :=
  if s == "t" then some .top else if s == "i" then some .iq else if s == "m" then some .msg
  else if s == "p" then some .pres else none

def encKind : Kind → String | .top => "t" | .iq => "i" | .msg => "m" | .pres => "p"

def decPattern (s : String) : Option Pattern :=
  match s.splitOn ":" with
  | [k, t, sp, lo] => do
    let k ← decKind k; let t ← unhexF t; let sp ← unhexF sp; let lo ← unhexF lo
    pure ⟨k, t, ⟨sp, lo⟩⟩
  | _ => none

def encPattern (p : Pattern) : String :=
  s!"{encKind p.kind}:{hexF p.typ}:{hexF p.name.space}:{hexF p.name.loc}"

def decPatterns (s : String) : Option (List Pattern) :=
  if s == "-" then some [] else mapM? decPattern (s.splitOn ",")

def decName (s : String) : Option Name :=
  match s.splitOn ":" with
  | [sp, lo] => do
    let sp ← unhexF sp; let lo ← unhexF lo
    pure ⟨sp, lo⟩
  | _ => none

def decNats (s : String) : Option (List Nat) :=
  if s == "-" then some [] else mapM? String.toNat? (s.splitOn ",")

def field (s : String) : Option String := unhexF (if s == "-" then "" else s)

def decHOp (s : String) : Option HOp :=
  if s.startsWith "Rf!" then (decPattern (s.drop 3).toString).map fun p => .reg p true
  else if s.startsWith "Rf" then (decPattern (s.drop 2).toString).map fun p => .reg p false
  else if s.startsWith "R!" then (decPattern (s.drop 2).toString).map fun p => .reg p true
  else if s.startsWith "R" then (decPattern (s.drop 1).toString).map fun p => .reg p false
  else if s.startsWith "L" then (decPattern (s.drop 1).toString).map fun p => .look p.kind p.typ p.name
  else if s.startsWith "D" then (decName (s.drop 1).toString).map .disp
  else none

def encHRes : HRes → String
  | .regOk => "ok" | .regPanic => "panic"
  | .found p => "h=" ++ encPattern p | .notFound => "none"
  | .router => "router" | .nop => "nop"

def handle (args : List String) : Option String :=
  match args with
  | ["lookup", k, typ, n, pats] => do
    let k ← decKind k; let typ ← field typ; let n ← decName n; let pats ← decPatterns pats
    pure (match lookup pats k typ n with | some p => encPattern p | none => "none")
  | ["route", ns, n, pats] => do
    let ns ← field ns; let n ← decName n; let pats ← decPatterns pats
    pure (match route pats ns n with
      | .handler p => "h=" ++ encPattern p
      | .nop => "nop"
      | _ => "router")
  | ["children", k, typ, pats, toks, cons] => do
    let k ← decKind k; let typ ← field typ; let pats ← decPatterns pats
    let toks ← decToks toks; let cons ← decNats cons
    -- the type is the model's reading of the stanza's own attributes (`msgRouter` /
    -- `presenceRouter`); the harness states the type its specification derives
    let mtyp := (stanzaHdr k (startAttrs toks)).typ
    if mtyp != typ then pure s!"MODEL-TYPE={hexF mtyp}" else
    let calls := (forChildren pats k mtyp toks cons).filterMap fun c =>
      c.pat.map fun p => encPattern p ++ "=" ++ encToks c.view
    pure (if calls.isEmpty then "-" else "/".intercalate calls)
  | ["direct", fr, k, typ, pats, toks, cons, errs] => do
    let fr ← (if fr == "sep" then some Framing.sep else if fr == "eof" then some Framing.eof else none)
    let k ← decKind k; let typ ← field typ; let pats ← decPatterns pats
    let toks ← decToks toks; let cons ← decNats cons; let errs ← decNats errs
    let mtyp := (stanzaHdr k (startAttrs toks)).typ
    if mtyp != typ then pure s!"MODEL-TYPE={hexF mtyp}" else
    let all := stanzaRoute fr pats k toks cons
    let calls := all.filterMap fun c =>
      c.pat.map fun p => encPattern p ++ "=" ++ encToks c.view
    let failed := failedCalls all errs
    let e := if failed.isEmpty then "-" else ",".intercalate (failed.map toString)
    let w := writesOf all
    let ws := if w.isEmpty then "-" else ",".intercalate (w.map toString)
    pure ((if calls.isEmpty then "-" else "/".intercalate calls) ++ "|err=" ++ e ++ "|w=" ++ ws)
  | ["iqdirect", _fr, typ, pats, toks, c] => do
    let typ ← field typ; let pats ← decPatterns pats; let toks ← decToks toks; let c ← c.toNat?
    let mtyp := (stanzaHdr .iq (startAttrs toks)).typ
    if mtyp != typ then pure s!"MODEL-TYPE={hexF mtyp}" else
    pure (match iqRouteA pats toks c with
      | .handler p n view => "h=" ++ encPattern p ++ "@" ++ hexF n.space ++ ":" ++ hexF n.loc ++ "=" ++ encToks view
      | .reply h => "fallback@" ++ hexF h.to ++ "/" ++ hexF h.frm ++ "/" ++ hexF h.id
      | .nothing => "nothing"
      | .err => "err")
  | ["iqdefault", typ, n, pats] => do
    let typ ← field typ; let n ← decName n; let pats ← decPatterns pats
    pure (match iqDispatch pats typ n with
      | .handler p => "h=" ++ encPattern p
      | .fallback => "fallback"
      | .nothing => "nothing")
  | ["hist", ns, ops] => do
    let ns ← field ns
    let ops ← if ops == "-" then some [] else mapM? decHOp (ops.splitOn ",")
    pure (joinList ((runHist ns [] ops).map encHRes) ";")
  | ["register", pats, p, nl] => do
    let pats ← decPatterns pats; let p ← decPattern p; let nl ← parseBool nl
    pure (match register pats p nl with | some _ => "ok" | none => "panic")
  | _ => none

end XmppModel.Driver.C14
