import XmppModel.Driver.C01
/-! Driver for C04: the negotiation model of C01 with faults (same line syntax, see
`Driver/C01.lean`). -/
namespace XmppModel.Driver.C04

/-- `hs <name> <kind> <n>`: a handshake with the library's own features under one fault
(`cut` of the peer's stream after `n` bytes, failing `rd`/`wr` number `n`, `cancel` before the
peer's step `n`; over a real net.Pipe: `pwr` cancellation while blocked in write `n`, `prd` while
blocked in the read before the peer's step `n`); the prediction is `C04_fail_closed`: any fault ends in failure, the
fault-free run (`clean`) completes -/
def handle (args : List String) : Option String :=
  match args with
  | ["hs", _name, kind, _n] =>
    if kind == "clean" || kind == "pclean" then some "done"
    else if kind == "cut" || kind == "rd" || kind == "wr" || kind == "cancel" || kind == "pwr" || kind == "prd"
      then some "fail"
    else none
  | _ => XmppModel.Driver.C01.handle args

end XmppModel.Driver.C04
