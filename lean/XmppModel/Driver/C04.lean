import XmppModel.Driver.C01
import XmppModel.Model.Component
/-! Driver for C04: the negotiation model of C01 with faults (same line syntax, see
`Driver/C01.lean`), the predictions for the handshakes with the library's own features, and
the component handshake model. -/
namespace XmppModel.Driver.C04
open XmppModel

namespace Comp
open XmppModel.Component

def parseItem (s : String) : Option Item :=
  if s == "P" then some .pi else if s == "S1" then some (.hdr true) else if s == "S0" then some (.hdr false)
  else if s == "Sx" then some .hdrBad else if s == "K" || s == "K2" then some .ack else if s == "Ko" then some .ackOpen
  else if s == "Kc" then some .ackClose else if s == "X" then some .serr
  else if s == "O" then some .other else if s == "T" then some .text else none

def showEv : Ev → String
  | .wr true => "W" | .wr false => "W!"
  | .rd .got => "R" | .rd .eof => "Re" | .rd .fault => "R!"
  | .blocked true => "Wb" | .blocked false => "Rb"

def isBlocked : Ev → Bool
  | .blocked _ => true
  | _ => false

/-- the `fault` field, as in `Driver/C01.lean` (`k`, `k+`, `Cn`, `CB`, `Hk`, `Bk`, joined by `/`) -/
def parsePart (O : Oracle) (s : String) : Option Oracle :=
  if s == "-" then some O
  else if s == "CB" then some { O with cancel := fun tr => tr.any isBlocked }
  else if s.startsWith "C" then do
    let k ← ((s.drop 1).toString).toNat?
    pure { O with cancel := fun tr => decide (k ≤ tr.length) }
  else if s.startsWith "H" then do
    let k ← ((s.drop 1).toString).toNat?
    pure { O with block := fun i => i == k }
  else if s.startsWith "B" then do
    let k ← ((s.drop 1).toString).toNat?
    pure { O with block := fun i => i == k, cancel := fun tr => tr.any isBlocked }
  else if s.endsWith "+" then do
    let k ← ((s.dropEnd 1).toString).toNat?
    pure { O with fault := fun i => decide (k ≤ i) }
  else do
    let k ← s.toNat?
    pure { O with fault := fun i => i == k }

def quiet : Oracle :=
  { fault := fun _ => false, cancel := fun _ => false, block := fun _ => false, dlRd := true, dlWr := true }

def showOutcome : Pc → String
  | .done => "done"
  | .fail .io => "fail:io" | .fail .proto => "fail:proto" | .fail .streamErr => "fail:streamerr"
  | .hung _ => "STALL"
  | _ => "fuel"

/-- `comp <st0> <script> <fault>` -/
def handle (st0 script fault : String) : Option String := do
  let st0 ← st0.toNat?
  let sc ← mapM? parseItem (splitList script ',')
  -- `<fault>.<kind>`: the kind of context that is done; the model only knows "the context is done"
  let fault := (fault.splitOn ".").headD fault
  let O ← (fault.splitOn "/").foldlM parsePart quiet
  -- state bit 8 (`Received`): the receiving side, `component.ReceiveSession`
  let c := run O (2 * sc.length + 8) (if st0 &&& 8 != 0 then initRecv sc else init sc)
  let evs := c.tr.reverse.map showEv
  pure s!"{joinList evs} {showOutcome c.pc} {st0 ||| resultMask c}"

end Comp

/-- `hs <name> <kind> <n>`: a handshake with the library's own features under one fault
(`cut` of the peer's stream after `n` bytes, failing `rd`/`wr` number `n`, `cancel` before the
peer's step `n`; over a real net.Pipe: `pwr` cancellation while blocked in write `n`, `prd` while
blocked in the read before the peer's step `n`; `rdb`: the peer's bytes arrive one per read and read
`n` fails; names ending in `+l`: the peer spells its empty elements `<x></x>`); the prediction is `C04_fail_closed`: any fault
ends in failure, the fault-free run (`clean`, `pclean`) completes.
`comp <st0> <script> <fault>`: the component handshake model (`Model/Component.lean`). -/
def handle (args : List String) : Option String :=
  match args with
  | ["hs", _name, kind0, _n] =>
    -- a suffix `.d` / `.p` / `.n` names the kind of context that is done; the model only knows
    -- "the context is done"
    let kind := (kind0.splitOn ".").headD kind0
    if kind == "clean" || kind == "pclean" || kind == "cleanb" then some "done"
    else if kind == "cut" || kind == "rd" || kind == "wr" || kind == "cancel" || kind == "pwr" || kind == "prd"
        || kind == "rdb" || kind == "crd" || kind == "cwr"
      then some "fail"
    else none
  | ["comp", st0, script, fault] => Comp.handle st0 script fault
  | _ => XmppModel.Driver.C01.handle args

end XmppModel.Driver.C04
