import XmppModel.Driver.C01
/-! Driver for C04: the negotiation model of C01 with faults (same line syntax, see
`Driver/C01.lean`). -/
namespace XmppModel.Driver.C04

def handle (args : List String) : Option String := XmppModel.Driver.C01.handle args

end XmppModel.Driver.C04
