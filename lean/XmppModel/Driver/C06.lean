import XmppModel.Prelude.Hex
import XmppModel.Model.Correlate
import XmppModel.Driver.C15
import XmppModel.Driver.C18
/-! Driver module for C06: replays an observed trace of a forced schedule on the LTS of
`Model/Correlate.lean`.  The answer is the model's final summary if every trace event is
enabled in the model (trace inclusion), `bad@n:tok` otherwise.

    C06 sess <reqs> <trace>     reqs: `kind:id,…` (kind i|m|p), trace tokens `,`-joined:
      c<i> call   o<i> transmit ok   f<i> transmit failed (call returned)   x<i> cancel
      s<i> requester enters its select    R<i>r<k> returned the response made from stanza k
      R<i>c returned the context error    k<i> caller closes the response
      p<kind><id><r|e|n|g|t>[S] peer stanza (r result, e error; n normal, g get, t set are never
        looked up; S: explicit other stanza namespace)   H<k> handler got stanza k
      g serve loop enters the hand-off select   h serve loop starts waiting for the close
    C06 rcpt <ids> <trace>      ids `,`-joined, tokens: c o f x s as above, T<i> returned nil,
      R<i>c returned the context error, q<id> receipt for id looked up (and deleted),
      d the handler's channel send, U<id> Unhandled(id) called
-/
namespace XmppModel.Driver.C06
open XmppModel XmppModel.Correlate

def parseKind (c : Char) : Option Kind :=
  if c = 'i' then some .iq else if c = 'm' then some .message else if c = 'p' then some .presence else none

def nthD {α} (l : List α) (d : α) (i : Nat) : α := match l[i]? with | some x => x | none => d

def parseNs (s : String) : Option Ns :=
  if s = "e" then some .empty else if s = "c" then some .stream else if s = "s" then some .other else none

/-- `kind:id[:ns[:api]]` — ns e (none) | c (the stream's) | s (the other stanza namespace);
the api field (how the harness issued the call) is ignored by the model -/
def parseReqs (s : String) : Option (List (Kind × Nat × Ns)) :=
  mapM? (fun (f : String) => match f.splitOn ":" with
    | k :: id :: rest => do
      let kc ← k.toList.head?
      let kk ← parseKind kc
      let n ← id.toNat?
      let ns ← match rest with
        | [] => some Ns.empty
        | x :: _ => parseNs x
      pure (kk, n, ns)
    | _ => none) (splitList s)

def mkCfg (reqs : List (Kind × Nat × Ns)) : Cfg :=
  { ids := fun i => (nthD reqs (.iq, 1000 + i, .empty) i).2.1,
    kinds := fun i => (nthD reqs (.iq, 1000 + i, .empty) i).1,
    spaces := fun i => (nthD reqs (.iq, 1000 + i, .empty) i).2.2,
    derived := true }

def steps (cfg : Cfg) (s : St) (as : List Act) : Option St := run cfg s as

def settle (cfg : Cfg) (s : St) : St :=
  match step cfg s .abandon with
  | some s' => s'
  | none => s

def numOf (cs : List Char) : Option Nat := (String.ofList cs).toNat?

def applyTok (cfg : Cfg) (s : St) (tok : String) : Option St :=
  match tok.toList with
  | 'c' :: r => do let i ← numOf r; step cfg s (.call i)
  | 'o' :: r => do let i ← numOf r; step cfg s (.sendOk i)
  | 'f' :: r => do let i ← numOf r; steps cfg s [.sendFail i, .dereg i]
  | 'x' :: r => do let i ← numOf r; step cfg s (.cancel i)
  | 's' :: r => do
    let i ← numOf r
    if s.rpc i = .waiting then some s else none
  | 'k' :: r => do let i ← numOf r; step cfg s (.close i)
  | 'R' :: r =>
    match (String.ofList r).splitOn "r" with
    | [a, b] => do
      let i ← a.toNat?; let k ← b.toNat?
      match s.spc with
      | .offering _ k' => if k = k' then steps cfg s [.recv i, .dereg i] else none
      | _ => none
    | [a] =>
      if a.endsWith "c" then do
        let i ← (a.dropEnd 1).toString.toNat?
        steps cfg s [.timeout i, .dereg i]
      else none
    | _ => none
  | 'p' :: kc :: r0 => do
    let kind ← parseKind kc
    -- optional trailing S: the stanza carries the other stanza namespace explicitly
    let (r, ns) := if r0.getLast? = some 'S' then (r0.dropLast, Ns.other) else (r0, Ns.stream)
    let t ← r.getLast?
    let id ← numOf r.dropLast
    -- r result, e error: looked up;  n normal / g get / t set: never looked up
    let resp ← if t = 'r' ∨ t = 'e' then some true else if t = 'n' ∨ t = 'g' ∨ t = 't' then some false else none
    step cfg (settle cfg s) (.read ⟨kind, id, resp, ns⟩)
  | 'H' :: r => do
    let k ← numOf r
    if s.hlog.head? = some k then some s else none
  | ['g'] => match s.spc with
    | .offering .. => some s
    | _ => none
  | ['h'] => match s.spc with
    | .offering .. => none
    | _ => some s
  | _ => none

def showOutcome : RPc → String
  | .fresh => "-"
  | .done (.reply k) _ => s!"r{k}"
  | .done .ctxErr _ => "c"
  | .done .sendErr _ => "f"
  | _ => "b"

def summary (cfg : Cfg) (n : Nat) (s0 : St) : String :=
  let s := settle cfg s0
  let outs := (List.range n).map fun i => showOutcome (s.rpc i)
  let hl := s.hlog.reverse.map toString
  let probe := if s.spc = .idle then "live" else "stall"
  s!"out={joinList outs "/"} hl={joinList hl} probe={probe}"

def replayAll (cfg : Cfg) : List String → Nat → St → Except String St
  | [], _, s => .ok s
  | t :: ts, n, s => match applyTok cfg s t with
    | some s' => replayAll cfg ts (n + 1) s'
    | none => .error s!"bad@{n}:{t}"

/-! receipts -/
open Receipts in
def applyR (ids : Nat → Nat) (s : RSt) (tok : String) : Option RSt :=
  match tok.toList with
  | 'c' :: r => do let i ← numOf r; rstep ids s (.call i)
  | 'o' :: r => do let i ← numOf r; rstep ids s (.sendOk i)
  | 'f' :: r => do let i ← numOf r; rstep ids s (.sendFail i)
  | 'x' :: r => do let i ← numOf r; rstep ids s (.cancel i)
  | 's' :: r => do
    let i ← numOf r
    if s.wpc i = .waiting then some s else none
  | 'T' :: r => do let i ← numOf r; rstep ids s (.take i)
  | 'R' :: r => do
    let a := String.ofList r
    if a.endsWith "c" then do
      let i ← (a.dropEnd 1).toString.toNat?
      rstep ids s (.timeout i)
    else none
  | 'q' :: r => do let id ← numOf r; rstep ids s (.receipt id)
  | ['d'] => rstep ids s .deliver
  | 'U' :: r => do
    let id ← numOf r
    if s.unhandled.head? = some id then some s else none
  | _ => none

open Receipts in
def replayR (ids : Nat → Nat) : List String → Nat → RSt → Except String RSt
  | [], _, s => .ok s
  | t :: ts, n, s => match applyR ids s t with
    | some s' => replayR ids ts (n + 1) s'
    | none => .error s!"bad@{n}:{t}"

open Receipts in
def showW : WPc → String
  | .fresh => "-" | .done true => "ok" | .done false => "err" | _ => "b"

open Receipts in
def summaryR (n : Nat) (s : RSt) : String :=
  let outs := (List.range n).map fun i => showW (s.wpc i)
  let probe := if s.hpc.isNone && !s.overflow then "live" else "stall"
  s!"out={joinList outs "/"} unh={joinList (s.unhandled.reverse.map toString)} probe={probe}"

def handle (args : List String) : Option String :=
  match args with
  | ["sess", reqs, trace] => do
    let rs ← parseReqs reqs
    let cfg := mkCfg rs
    match replayAll cfg (splitList trace) 0 init with
    | .ok s => pure (summary cfg rs.length s)
    | .error e => pure e
  | ["rcpt", ids, trace] => do
    let l ← mapM? String.toNat? (splitList ids)
    let idf := fun i => nthD l (1000 + i) i
    match replayR idf (splitList trace) 0 Receipts.rinit with
    | .ok s => pure (summaryR l.length s)
    | .error e => pure e
  -- the MUC and in-band bytestream instances reuse the models of C18 / C15
  | "muc" :: _ => C18.handle args
  | _ => C15.handle args

end XmppModel.Driver.C06
