import XmppModel.Prelude.Hex
import XmppModel.Model.Correlate
import XmppModel.Model.CorrAttrs
import XmppModel.Model.CorrWrap
import XmppModel.Model.CorrExpect
import XmppModel.Model.CorrIbb
import XmppModel.Model.CorrKey
import XmppModel.Driver.C15
import XmppModel.Driver.C18
/-! Driver module for C06: replays an observed trace of a forced schedule on the LTS of
`Model/Correlate.lean`.  The answer is the model's final summary if every trace event is
enabled in the model (trace inclusion), `bad@n:tok` otherwise.

    C06 sess <reqs> <trace>     reqs: `kind:id,…` (kind i|m|p), trace tokens `,`-joined:
      c<i> call   o<i> transmit ok   f<i> transmit failed (call returned)   x<i> cancel
      s<i> requester enters its select    R<i>r<k> returned the response made from stanza k
      R<i>c returned the context error    k<i> caller closes the response
      d<i> caller reads the response to its end (or into the error in its content: suffix X of p…)
      p<kind><id><r|e|n|g|t>[S] peer stanza (r result, e error; n normal, g get, t set are never
        looked up; S: explicit other stanza namespace)   H<k> handler got stanza k
        optional suffix +<items>: decoy attributes, 4 characters each: form q (x:NAME in a foreign
        namespace) | n (declaration xmlns:NAME), NAME i (id) | t (type), value (digit | r e g t),
        place b (in front of the stanza's own attributes) | a (behind them)
      g serve loop enters the hand-off select   h serve loop starts waiting for the close
      A<k> the serve loop gave up the hand-off of stanza k (waiter gone) and the handler got it
      C the application closes the output stream (later transmissions fail before they write)
      f<i> right after c<i> on a broken / closed output: the call failed at once
    C06 rcpt <ids> <trace>      ids `,`-joined, tokens: c o f x s as above, T<i> returned nil,
      R<i>c returned the context error, q<id> receipt for id looked up (and deleted),
      d the handler's channel send, U<id> Unhandled(id) called
-/
namespace XmppModel.Driver.C06
open XmppModel XmppModel.Correlate

def parseKind (c : Char) : Option Kind :=
  if c = 'i' then some .iq else if c = 'm' then some .message else if c = 'p' then some .presence else none

def nthD {α} (l : List α) (d : α) (i : Nat) : α := match l[i]? with | some x => x | none => d

def parseNs (s : String) : Option Ns :=
  if s = "e" then some .empty else if s = "c" then some .stream else if s = "s" then some .other else none

/-- `kind:id[:ns[:api]]` — ns e (none) | c (the stream's) | s (the other stanza namespace);
the api field (how the harness issued the call) is ignored by the model -/
def parseReqs (s : String) : Option (List (Kind × Nat × Ns)) :=
  mapM? (fun (f : String) => match f.splitOn ":" with
    | k :: id :: rest => do
      let kc ← k.toList.head?
      let kk ← parseKind kc
      let n ← id.toNat?
      let ns ← match rest with
        | [] => some Ns.empty
        | x :: _ => parseNs x
      pure (kk, n, ns)
    | _ => none) (splitList s)

def mkCfg (reqs : List (Kind × Nat × Ns)) : Cfg :=
  { ids := fun i => (nthD reqs (.iq, 1000 + i, .empty) i).2.1,
    kinds := fun i => (nthD reqs (.iq, 1000 + i, .empty) i).1,
    spaces := fun i => (nthD reqs (.iq, 1000 + i, .empty) i).2.2,
    derived := true }

def steps (cfg : Cfg) (s : St) (as : List Act) : Option St := run cfg s as

def settle (cfg : Cfg) (s : St) : St :=
  match step cfg s .abandon with
  | some s' => s'
  | none => s

def numOf (cs : List Char) : Option Nat := (String.ofList cs).toNat?

def typeVal (c : Char) : Nat :=
  if c = 'r' then 0 else if c = 'e' then 1 else if c = 'g' then 2 else if c = 't' then 3 else 4

/-- decoy attributes placed at `place` (`b` / `a`) -/
def parseDecoys (place : Char) : List Char → Option (List CorrAttrs.Attr)
  | [] => some []
  | f :: n :: v :: p :: rest => do
    let sp ← if f = 'q' then some CorrAttrs.Space.foreign else if f = 'n' then some CorrAttrs.Space.xmlns else none
    let (loc, val) ← if n = 'i' then (do let d ← (String.ofList [v]).toNat?; pure (CorrAttrs.Loc.id, d))
                     else if n = 't' then some (CorrAttrs.Loc.type, typeVal v) else none
    let more ← parseDecoys place rest
    if p = place then pure (⟨sp, loc, val⟩ :: more) else if p = 'a' ∨ p = 'b' then pure more else none
  | _ => none

/-- the part of a peer token in front of the decoy suffix -/
def baseTok (t : String) : String := match t.splitOn "+" with | a :: _ => a | [] => t

/-- a get / set IQ: the serve loop answers it itself if no handler does (it has to write) -/
def isRequestTok (t : String) : Bool :=
  let b := (baseTok t).toList
  let b := if b.getLast? = some 'S' then b.dropLast else b
  b.getLast? = some 'g' || b.getLast? = some 't'

def applyTok (cfg : Cfg) (s : St) (tok : String) : Option St :=
  match tok.toList with
  | 'c' :: r => do let i ← numOf r; step cfg s (.call i)
  | 'o' :: r => do let i ← numOf r; step cfg s (.sendOk i)
  | 'f' :: r => do let i ← numOf r; steps cfg s [.sendFail i, .dereg i]
  | 'x' :: r => do let i ← numOf r; step cfg s (.cancel i)
  | 's' :: r => do
    let i ← numOf r
    if s.rpc i = .waiting then some s else none
  | 'k' :: r => do
    let i ← numOf r
    -- the caller's Close; after a failed read the response has closed itself and this is a no-op
    match s.rpc i with
    | .done (.reply _) true => some s
    | _ => step cfg s (.close i)
  | 'd' :: r => do
    -- the caller reads the whole response: an error in its content closes it (errCloser)
    let i ← numOf r
    match s.rpc i with
    | .done (.reply k) false =>
      match s.hist[k]? with
      | some st => if st.bad then step cfg s (.readErr i) else some s
      | none => none
    | _ => none
  | 'R' :: r =>
    match (String.ofList r).splitOn "r" with
    | [a, b] => do
      let i ← a.toNat?; let k ← b.toNat?
      match s.spc with
      | .offering _ k' => if k = k' then steps cfg s [.recv i, .dereg i] else none
      | _ => none
    | [a] =>
      if a.endsWith "c" then do
        let i ← (a.dropEnd 1).toString.toNat?
        steps cfg s [.timeout i, .dereg i]
      else none
    | _ => none
  | 'p' :: kc :: rAll => do
    let kind ← parseKind kc
    let (r0, decoy) := match (String.ofList rAll).splitOn "+" with
      | [a, d] => (a.toList, d.toList)
      | _ => (rAll, [])
    -- optional trailing S: the stanza carries the other stanza namespace explicitly
    let (r1, ns) := if r0.getLast? = some 'S' then (r0.dropLast, Ns.other) else (r0, Ns.stream)
    -- optional X: the content of the stanza cannot be read to its end (malformed / truncated)
    let (r, bad) := if r1.getLast? = some 'X' ∨ r1.getLast? = some 'T' then (r1.dropLast, true) else (r1, false)
    let t ← r.getLast?
    let ownId ← numOf r.dropLast
    -- r result, e error: looked up;  n normal / g get / t set: never looked up
    let _ ← if t = 'r' ∨ t = 'e' ∨ t = 'n' ∨ t = 'g' ∨ t = 't' then some () else none
    -- the attribute list of the start element as the decoder reports it; id and type are what
    -- the model of `getIDTyp` finds in it (a plain presence has no type attribute)
    let own : List CorrAttrs.Attr := [⟨.none, .id, ownId⟩] ++
      (if t = 'n' ∧ kind = .presence then [] else [⟨.none, .type, typeVal t⟩])
    let before ← parseDecoys 'b' decoy
    let after ← parseDecoys 'a' decoy
    let (i?, t?) := CorrAttrs.getIDTyp (before ++ own ++ after)
    let id ← i?
    step cfg s (.read ⟨kind, id, CorrAttrs.isResponse t?, ns, bad⟩)
  | 'H' :: r => do
    let k ← numOf r
    if s.hlog.head? = some k then some s else none
  | 'A' :: r => do
    -- the serve loop gave up the hand-off of stanza k (the waiter's context is done) and the
    -- handler got the stanza
    let k ← numOf r
    match s.spc with
    | .offering _ k' => if k = k' then step cfg s .abandon else none
    | _ => none
  | ['C'] => step cfg s .closeOut
  | ['g'] => match s.spc with
    | .offering .. => some s
    | _ => none
  | ['h'] => match s.spc with
    | .offering .. => none
    | _ => some s
  | _ => none

def showOutcome : RPc → String
  | .fresh => "-"
  | .done (.reply k) _ => s!"r{k}"
  | .done .ctxErr _ => "c"
  | .done .sendErr _ => "f"
  | _ => "b"

def summary (cfg : Cfg) (n : Nat) (s0 : St) : String :=
  let s := settle cfg s0
  let outs := (List.range n).map fun i => showOutcome (s.rpc i)
  let hl := s.hlog.reverse.map toString
  let probe := if s.spc = .idle then "live" else if s.spc = .dead then "dead" else "stall"
  s!"out={joinList outs "/"} hl={joinList hl} probe={probe}"

def replayAll (cfg : Cfg) : List String → Nat → St → Except String St
  | [], _, s => .ok s
  | t :: ts, n, s => match applyTok cfg s t with
    | some s' => replayAll cfg ts (n + 1) s'
    | none => .error s!"bad@{n}:{t}"


/-! ### schedule generation from the LTS

`C06 gen <reqs> <seed> <count> <len>` answers `count` forced schedules (`;`-joined), each the
full trace the harness has to realise: harness actions (c o f x s p… g h k) interleaved with the
events the model says must follow (R…, H…).  A schedule is a path through `step`: the
generator keeps the model state plus the three facts the hooks add (which requesters have
entered their select, whether the serve loop has entered its hand-off select, whether it is
parked after a hand-off) and only offers actions that are enabled; events are appended as soon
as the model determines them; a state in which a select could go either way ends the schedule
(the harness' epilogue takes over).  `C06 genall <reqs> <depth> <max>` enumerates every such
path up to `depth` actions (at most `max`). -/

structure GState where
  st : St
  insel : List Nat := []      -- requesters released into their select
  entered : Bool := false     -- serve loop released into its hand-off select
  handed : Bool := false      -- serve loop parked after a hand-off (before it waits for the close)
  drained : List Nat := []    -- requesters whose explicit Close has been done (k is offered once)
  trace : List String := []   -- reversed
  stop : Bool := false

def showKind : Kind → Char | .iq => 'i' | .message => 'm' | .presence => 'p'

/-- events the model forces in the current state (requester returns) -/
def autoEvents (cfg : Cfg) (n : Nat) (g : GState) : Nat → GState
  | 0 => g
  | fuel + 1 =>
    let s := g.st
    let cand := (List.range n).filter fun i => g.insel.contains i && s.rpc i == .waiting
    let pick := cand.find? fun i =>
      (match s.spc with | .offering j _ => j == i && g.entered | _ => false) || s.cancelled i
    match pick with
    | none =>
      -- nobody can take the response, the waiter's context is done, the serve loop is in its
      -- select: it gives up and the handler gets the stanza
      match s.spc with
      | .offering j k =>
        if g.entered && ctxDone cfg s j && !(g.insel.contains j && s.rpc j == .waiting) then
          match step cfg s .abandon with
          | some s' => autoEvents cfg n { g with st := s', entered := false, trace := s!"A{k}" :: g.trace } fuel
          | none => g
        else g
      | _ => g
    | some i =>
      let canRecv := match s.spc with | .offering j _ => j == i && g.entered | _ => false
      let canTime := s.cancelled i
      if canRecv && canTime then { g with stop := true }
      else if canRecv then
        match s.spc with
        | .offering _ k =>
          match steps cfg s [.recv i, .dereg i] with
          | some s' => autoEvents cfg n { g with st := s', insel := g.insel.erase i, entered := false, handed := true,
                                                 trace := s!"R{i}r{k}" :: g.trace } fuel
          | none => g
        | _ => g
      else
        match steps cfg s [.timeout i, .dereg i] with
        | some s' => autoEvents cfg n { g with st := s', insel := g.insel.erase i, trace := s!"R{i}c" :: g.trace } fuel
        | none => g

/-- the element the serve loop is working on cannot be read to its end: `Serve` will end with a
stream error, for which it needs the output lock -/
def pendingBad (s : St) : Bool :=
  match s.spc with
  | .offering _ k | .waitClose _ k => (match s.hist[k]? with | some st => st.bad | none => false)
  | _ => false

def busySending (n : Nat) (s : St) : Bool := (List.range n).any fun i => s.rpc i == .sending

/-- peer stanzas worth sending for these requesters -/
def peerAlphabet (reqs : List (Kind × Nat × Ns)) : List String :=
  let per := reqs.flatMap fun (k, id, ns) =>
    let kc := showKind k
    let sfx := if ns == .other then "S" else ""
    let other := if k == .iq then 'm' else 'i'
    [s!"p{kc}{id}r{sfx}", s!"p{kc}{id}e{sfx}", s!"p{kc}{id}rX{sfx}", s!"p{other}{id}e{sfx}", s!"p{kc}{id}{if k == .iq then "g" else "n"}",
     s!"p{kc}{id}r{if ns == .other then "" else "S"}",
     -- decoys: somebody else's response / a non-response dressed up with a qualified id / type
     s!"p{kc}9r{sfx}+qi{id % 10}b", s!"p{kc}9e{sfx}+ni{id % 10}a", s!"p{kc}{id}{if k == .iq then "t" else "n"}{sfx}+qtrb",
     s!"p{kc}{id}e{sfx}+qi9bqtgb"]
  (per ++ ["pi9r", "pm9e"]).eraseDups

/-- enabled harness actions -/
def enabled (cfg : Cfg) (reqs : List (Kind × Nat × Ns)) (g : GState) : List String :=
  let n := reqs.length
  let s := g.st
  let perReq := (List.range n).flatMap fun i =>
    (if s.rpc i == .fresh && !busySending n s && !pendingBad s then [s!"c{i}"] else []) ++
    (if s.rpc i == .sending && !(s.broken || s.outClosed) then [s!"o{i}", s!"f{i}"] else []) ++
    -- (round F) also after the call returned a response it has not closed yet: the context ends, the serve loop keeps waiting
    (if !s.cancelled i && (s.rpc i == .sending || s.rpc i == .waiting || (match s.rpc i with | .done (.reply _) false => true | _ => false)) then [s!"x{i}"] else []) ++
    (if s.rpc i == .waiting && !g.insel.contains i then [s!"s{i}"] else []) ++
    (match s.rpc i with | .done (.reply _) false => [s!"k{i}", s!"d{i}"] | .done (.reply _) true => (if g.drained.contains i then [] else [s!"k{i}"]) | _ => [])
  let serveFree := match s.spc with
    | .idle => !g.handed
    | _ => false
  let peers := if serveFree then
      (peerAlphabet reqs).filter fun t =>
        -- an unhandled get is answered by the serve loop itself: it needs the output lock
        !((isRequestTok t || t.contains 'X') && busySending n s)
    else []
  let serve := (match s.spc with | .offering .. => if g.entered then [] else ["g"] | _ => []) ++
    (if g.handed then ["h"] else [])
  let closeOut := if !s.outClosed && !busySending n s && s.hist.length ≥ 2 && s.hist.length % 5 == 0 then ["C"] else []
  perReq ++ peers ++ serve ++ closeOut

def applyAction (cfg : Cfg) (n : Nat) (g : GState) (tok : String) : Option GState := do
  let s' ← applyTok cfg g.st tok
  let g1 : GState := { g with st := s', trace := tok :: g.trace }
  let g2 : GState := match tok.toList with
    | 's' :: r => match numOf r with | some i => { g1 with insel := i :: g1.insel } | none => g1
    | ['g'] => { g1 with entered := true }
    | ['h'] => { g1 with handed := false }
    | 'k' :: r => match numOf r with | some i => { g1 with drained := i :: g1.drained } | none => g1
    | 'p' :: _ =>
      -- a miss is handled at once; a hit parks the serve loop after the lookup
      let g' := { g1 with entered := false }
      if s'.hlog.length > g.st.hlog.length then
        match s'.hlog.head? with | some k => { g' with trace := s!"H{k}" :: g'.trace } | none => g'
      else g'
    | 'f' :: r => match numOf r with | some i => { g1 with insel := g1.insel.erase i } | none => g1
    | 'c' :: r =>
      -- on a broken or closed output the transmission fails at once: the call returns
      match numOf r with
      | some i =>
        if s'.broken || s'.outClosed then
          match steps cfg s' [.sendFail i, .dereg i] with
          | some s'' => { g1 with st := s'', trace := s!"f{i}" :: g1.trace }
          | none => g1
        else g1
      | none => g1
    | _ => g1
  pure (autoEvents cfg n g2 (2 * n + 3))

def lcg (x : Nat) : Nat := (x * 6364136223846793005 + 1442695040888963407) % 18446744073709551616

def randomWalk (cfg : Cfg) (reqs : List (Kind × Nat × Ns)) : Nat → Nat → GState → GState
  | 0, _, g => g
  | fuel + 1, seed, g =>
    if g.stop then g else
    let en := enabled cfg reqs g
    if en.isEmpty then g else
    let seed' := lcg seed
    match en[(seed' / 65536) % en.length]? with
    | some tok => match applyAction cfg reqs.length g tok with
      | some g' => randomWalk cfg reqs fuel seed' g'
      | none => g
    | none => g

def genRandom (cfg : Cfg) (reqs : List (Kind × Nat × Ns)) (seed count len : Nat) : List String :=
  (List.range count).map fun k =>
    let g := randomWalk cfg reqs len (lcg (seed * 1000003 + k)) { st := init }
    joinList g.trace.reverse

/-- all paths of at most `depth` actions (depth-first, at most `max`) -/
def genAll (cfg : Cfg) (reqs : List (Kind × Nat × Ns)) : Nat → GState → List String → Nat → List String
  | 0, g, acc, _ => joinList g.trace.reverse :: acc
  | d + 1, g, acc, max =>
    if acc.length ≥ max then acc else
    let en := if g.stop then [] else enabled cfg reqs g
    if en.isEmpty then joinList g.trace.reverse :: acc
    else en.foldl (fun a tok => match applyAction cfg reqs.length g tok with
      | some g' => genAll cfg reqs d g' a max
      | none => a) acc

/-! receipts -/
open Receipts in
def applyR (ids : Nat → Nat) (s : RSt) (tok : String) : Option RSt :=
  match tok.toList with
  | 'c' :: r => do let i ← numOf r; rstep ids s (.call i)
  | 'o' :: r => do let i ← numOf r; rstep ids s (.sendOk i)
  | 'f' :: r => do let i ← numOf r; rstep ids s (.sendFail i)
  | 'x' :: r => do let i ← numOf r; rstep ids s (.cancel i)
  | 's' :: r => do
    let i ← numOf r
    if s.wpc i = .waiting then some s else none
  | 'T' :: r => do let i ← numOf r; rstep ids s (.take i)
  | 'R' :: r => do
    let a := String.ofList r
    if a.endsWith "c" then do
      let i ← (a.dropEnd 1).toString.toNat?
      rstep ids s (.timeout i)
    else none
  | 'q' :: r => do let id ← numOf r; rstep ids s (.receipt id)
  | ['d'] => rstep ids s .deliver
  | 'U' :: r => do
    let id ← numOf r
    if s.unhandled.head? = some id then some s else none
  | _ => none

open Receipts in
def replayR (ids : Nat → Nat) : List String → Nat → RSt → Except String RSt
  | [], _, s => .ok s
  | t :: ts, n, s => match applyR ids s t with
    | some s' => replayR ids ts (n + 1) s'
    | none => .error s!"bad@{n}:{t}"

open Receipts in
def showW : WPc → String
  | .fresh => "-" | .done true => "ok" | .done false => "err" | _ => "b"

open Receipts in
def summaryR (n : Nat) (s : RSt) : String :=
  let outs := (List.range n).map fun i => showW (s.wpc i)
  let probe := if s.hpc.isNone && !s.overflow then "live" else "stall"
  s!"out={joinList outs "/"} unh={joinList (s.unhandled.reverse.map toString)} probe={probe}"

/-! `C06 wrap <api> <shape>`: the helpers that own their response (Model/CorrWrap.lean) -/
def parseWrap (api shape : String) : Option (CorrWrap.Api × CorrWrap.Shape) := do
  let a ← match api with
    | "U" => some CorrWrap.Api.unmarshal | "N" => some .unmarshalNil | "V" => some .unmarshalElement
    | "I" => some .iter | "J" => some .iterElement | "O" => some .ibbOpen | "P" => some .ibbOpenMsg | _ => none
  let addr (c : Char) : Option CorrWrap.Addr :=
    if c = '-' then some .absent else if c = 'v' then some .valid else if c = 'x' then some .invalid else none
  match shape.toList with
  | [t, f, o, p] => do
    let typ ← if t = 'r' then some CorrWrap.Typ.result else if t = 'e' then some .error else none
    let fr ← addr f
    let to ← addr o
    let pl ← if p = 'n' then some CorrWrap.Payload.none else if p = 'o' then some .one else if p = 'c' then some .nested
      else if p = 't' then some .text else if p = 'b' then some .bad else if p = 'w' then some .space else none
    pure (a, ⟨typ, fr, to, pl⟩)
  | _ => none

/-! `C06 exp <ops>`: the listener's table of expected streams (Model/CorrExpect.lean) -/
def keyNum (c : Char) : Option Nat := if c = 'a' then some 0 else if c = 'b' then some 1 else none
def keyChar (k : Nat) : String := if k = 0 then "a" else "b"

def parseExpOp (t : String) : Option CorrExpect.Op :=
  match t.toList with
  | ['A'] => some .accept
  | ['K'] => some .close
  | ['O', k] => do let kk ← keyNum k; pure (.openReq kk)
  | 'X' :: r => do let i ← numOf r; pure (.cancel i)
  | 'E' :: r => do
    let k ← r.getLast?
    let kk ← keyNum k
    let i ← numOf r.dropLast
    pure (.expect i kk)
  | _ => none

def showExpEv : CorrExpect.Ev → String
  | .conn i k => s!"{i}c{keyChar k}"
  | .err i => s!"{i}e"
  | .accConn k => s!"Ac{keyChar k}"
  | .accErr => "Ae"

def insertSorted (x : String) : List String → List String
  | [] => [x]
  | y :: ys => if x ≤ y then x :: y :: ys else y :: insertSorted x ys

def showExpEvs (l : List CorrExpect.Ev) : String :=
  if l.isEmpty then "-" else joinList ((l.map showExpEv).foldr insertSorted []) "+"

/-! `C06 ibbw <carrier><role> <ops>`: the waits of one in-band bytestream (Model/CorrIbb.lean) -/
def parseIbbOp (t : String) : Option CorrIbb.Op :=
  match t.toList with
  | ['R'] => some .read
  | ['C'] => some .peerClose
  | ['W'] => some .write
  | ['a'] => some (.ack true)
  | ['e'] => some (.ack false)
  | ['K'] => some .close
  | ['k'] => some (.closeReply true)
  | ['j'] => some (.closeReply false)
  | ['B', c] => if c = 'i' then some (.data true 1 false) else if c = 'm' then some (.data false 1 false) else none
  | 'D' :: c :: r => do
    let n ← numOf r
    if c = 'i' then some (.data true n true) else if c = 'm' then some (.data false n true) else none
  | _ => none

def showIbbOp : CorrIbb.Op → String
  | .read => "R" | .peerClose => "C" | .write => "W" | .ack true => "a" | .ack false => "e"
  | .close => "K" | .closeReply true => "k" | .closeReply false => "j"
  | .data v n true => (if v then "Di" else "Dm") ++ toString n
  | .data v _ false => if v then "Bi" else "Bm"

/-- `sent` is not reported for the peer's close request (what the close handler flushes is C15's business) -/
def showIbbEv : CorrIbb.Ev → String
  | .readRet n => s!"r{n}"
  | .writeRet ok => if ok then "w1" else "w0"
  | .closeRet ok => if ok then "k1" else "k0"
  | .ackData => "A"
  | .refuseData nf => if nf then "Ni" else "Nu"
  | .closeResult => "Z"
  | .closeNotFound => "Y"
  | .sentData => "s"
  | .sentClose => "c"

def showIbbEvs (l : List CorrIbb.Ev) : String :=
  if l.isEmpty then "-" else joinList ((l.map showIbbEv).foldr insertSorted []) "+"

def ibbInit (cfg : String) : Option CorrIbb.St :=
  match cfg.toList with
  | [c, r] =>
    if (c = 'i' ∨ c = 'm') ∧ (r = 'o' ∨ r = 'a') then some { acked := c = 'i' } else none
  | _ => none

def ibbAlphabet : List CorrIbb.Op :=
  [.read, .data true 2 true, .data false 3 true, .data false 1 false, .peerClose, .write, .ack true, .ack false,
   .close, .closeReply true, .closeReply false]

/-- every history of `depth` effective operations (the harness appends the wind-down) -/
def ibbGen (s : CorrIbb.St) : Nat → List String → List String → List String
  | 0, pre, acc => (joinList pre.reverse) :: acc
  | d + 1, pre, acc =>
    ibbAlphabet.foldl (fun acc o =>
      if CorrIbb.effective s o then ibbGen (CorrIbb.step {} s o).1 d (showIbbOp o :: pre) acc else acc) acc

/-! `C06 key <kind><api><role> <attrs> <to> <from> <typ>`: one round trip of a blocking request whose
start element enters SendIQ / SendMessage / SendPresence with the attribute list `attrs` (items
`<u|q|n><i|t|o><digit>`: unqualified / foreign namespace / xmlns declaration, local name id / type /
other, value 0 = empty); the peer answers with the id it read on the wire, `from` spelled as
given.  Answer: the id-named attributes on the wire (`R` = a generated id), the outcome, whether
the handler saw the reply. -/
def parseKeyAttr (t : String) : Option CorrAttrs.Attr :=
  match t.toList with
  | [sp, l, v] => do
    let sp ← if sp = 'u' then some CorrAttrs.Space.none else if sp = 'q' then some CorrAttrs.Space.foreign
             else if sp = 'n' then some CorrAttrs.Space.xmlns else none
    let l ← if l = 'i' then some CorrAttrs.Loc.id else if l = 't' then some CorrAttrs.Loc.type
            else if l = 'o' then some CorrAttrs.Loc.other else none
    let v ← (String.ofList [v]).toNat?
    pure ⟨sp, l, v⟩
  | _ => none

def parseKeyTo (t : String) : Option CorrKey.To :=
  if t = "-" then some .absent else if t = "d" then some .domain else if t = "f" then some .full
  else if t = "i" then some .idn else none

def parseKeyFrom (t : String) : Option CorrKey.From :=
  if t = "-" then some .absent else if t = "s" then some .same else if t = "u" then some .equiv
  else if t = "x" then some .ace else if t = "d" then some .other else if t = "b" then some .ownBare
  else if t = "g" then some .garbage else none

def showKeyAttr (a : CorrAttrs.Attr) : String :=
  let sp := match a.space with | .none => "u" | .foreign => "q" | .xmlns => "n"
  sp ++ (if a.val ≥ 7 then "R" else toString a.val)

def handle (args : List String) : Option String :=
  match args with
  | ["key", cfg, attrs, to, frm, _typ] => do
    let as ← mapM? parseKeyAttr (splitList attrs)
    let to ← parseKeyTo to
    let frm ← parseKeyFrom frm
    -- kind R: a message sent through the delivery-receipt helper
    let p := if cfg.startsWith "R" then CorrKey.rcptSend 7 8 as else CorrKey.send {} 7 8 as
    let ids := (p.2.filter (fun a => a.loc = .id)).map showKeyAttr
    let out : CorrKey.Outcome := match CorrKey.wireId p.2 with
      | some w => if CorrKey.matchEntry {} ⟨p.1, to⟩ ⟨w, true, true, frm⟩ then .reply else .lost
      | none => .lost
    -- after the call has returned (and deregistered) a duplicate of its reply is a response nobody
    -- waits for: the handler gets it (`step … (.read st)` with `lookup = none`)
    let (o, h) := match out with | .reply => ("reply", "0 dup=1") | .lost => ("lost", "1")
    pure s!"ids={joinList ids} out={o} h={h} probe=live"
  | ["ibbw", cfg, ops] => do
    let s0 ← ibbInit cfg
    let os ← mapM? parseIbbOp (splitList ops)
    let evs := CorrIbb.run {} s0 os
    let fin := CorrIbb.final {} s0 os
    let probe := if fin.quiet then "live" else "stall"
    pure s!"{joinList (evs.map showIbbEvs)} probe={probe}"
  | ["ibbgen", cfg, depth, max] => do
    let s0 ← ibbInit cfg
    let d ← depth.toNat?; let m ← max.toNat?
    pure (joinList ((ibbGen s0 d [] []).reverse.take m) ";")
  | ["exp", ops] => do
    let os ← mapM? parseExpOp (splitList ops)
    let evs := CorrExpect.run {} os
    let fin := CorrExpect.final {} os
    -- the harness closes the listener at the end: nothing may be left in the hand-off
    let probe := if fin.pending.isNone then "live" else "stall"
    pure s!"{joinList (evs.map showExpEvs)} probe={probe}"
  | ["wrap", api, shape] => do
    let (a, sh) ← parseWrap api shape
    let o := CorrWrap.call a sh
    let b (x : Bool) : String := if x then "1" else "0"
    -- a response nobody closed stalls the serve loop; one whose rest cannot be read ends Serve
    let probe := if o.helperCloses + (if o.handed then 1 else 0) = 0 then "stall"
      else if CorrWrap.serveSurvives sh then "live" else "dead"
    pure s!"err={b o.err} handed={b o.handed} probe={probe}"
  | ["sess", reqs, trace] => do
    let rs ← parseReqs reqs
    let cfg := mkCfg rs
    match replayAll cfg (splitList trace) 0 init with
    | .ok s => pure (summary cfg rs.length s)
    | .error e => pure e
  | ["gen", reqs, seed, count, len] => do
    let rs ← parseReqs reqs
    let sd ← seed.toNat?; let c ← count.toNat?; let l ← len.toNat?
    pure (joinList (genRandom (mkCfg rs) rs sd c l) ";")
  | ["genall", reqs, depth, max] => do
    let rs ← parseReqs reqs
    let d ← depth.toNat?; let m ← max.toNat?
    pure (joinList (genAll (mkCfg rs) rs d { st := init } [] m).reverse ";")
  | ["rcpt", ids, trace] => do
    let l ← mapM? String.toNat? (splitList ids)
    let idf := fun i => nthD l (1000 + i) i
    match replayR idf (splitList trace) 0 Receipts.rinit with
    | .ok s => pure (summaryR l.length s)
    | .error e => pure e
  -- the MUC and in-band bytestream instances reuse the models of C18 / C15
  | "muc" :: _ => C18.handle args
  | _ => C15.handle args

end XmppModel.Driver.C06
