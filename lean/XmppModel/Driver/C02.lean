import XmppModel.Prelude.Hex
import XmppModel.Model.StartTLS
import XmppModel.Model.StartTLSProbe
/-! Driver module for C02 (line protocol: see harness/c02/c02.go). -/
namespace XmppModel.Driver.C02
open XmppModel XmppModel.StartTLS

def parseMask (s : String) : Option Mask := do
  let n ← s.toNat?
  if n < 256 then some (BitVec.ofNat 8 n) else none

def parseItem (s : String) : Option Item :=
  match splitList s '.' with
  | [id, req, ok] => do pure ⟨← id.toNat?, ← parseBool req, ← parseBool ok⟩
  | _ => none

def parseFrom (s : String) : Option HFrom := do hfromOfCode (← s.toNat?)

/-- `A<from>` (no `to`) or `A<from>.<loc>.<dom>.<res>` -/
def parseHdrA (s : String) : Option StartTLS.Unit :=
  match splitList s '.' with
  | [f] => do pure (.hdrA (← parseFrom f) none)
  | [f, l, d, r] => do pure (.hdrA (← parseFrom f) (some ⟨← l.toNat?, ← d.toNat?, ← r.toNat?⟩))
  | _ => none

def parseUnit (s : String) : Option StartTLS.Unit :=
  if s == "H1" then some (.hdr true)
  else if s == "H0" then some (.hdr false)
  else if s == "P" then some .proceed
  else if s == "F" then some .failure
  else if s == "E" then some .streamErr
  else if s == "D" then some .streamErrD
  else if s == "G" then some .tlsOther
  else if s == "O" then some .foreign
  else if s == "W" then some .space
  else if s == "M" then some .malformed
  else if s.startsWith "A" then parseHdrA (s.drop 1).toString
  else if s == "L" then some (.list [])
  else if s.startsWith "L" then do
    let items ← mapM? parseItem (splitList (s.drop 1).toString '+')
    pure (.list items)
  else none

def parseOther (s : String) : Option Feature :=
  match splitList s '.' with
  | [id, nec, proh, neg] => do pure ⟨← id.toNat?, ← parseMask nec, ← parseMask proh, ← parseBool neg⟩
  | _ => none

def parseOracle (s : String) : Option (Nat × NegRes) :=
  match splitList s '.' with
  | [id, m, rs, er] => do pure (← id.toNat?, ⟨← parseMask m, ← parseBool rs, ← parseBool er⟩)
  | _ => none

def parsePItem (s : String) : Option PItem :=
  -- C1 / C2: the peer answers the ClientHello with a certificate the client must refuse (for
  -- another name / of an unknown CA): like junk, bytes that make no handshake the client accepts
  if s == "J" || s == "C1" || s == "C2" then some .junk else (parseUnit s).map .unit

def showEv : Ev → Option String
  | .wHdr t => some (if t then "H" else "h")
  | .wStartTLS t => some (if t then "S" else "s")
  | .wOther id t => some ((if t then "O" else "o") ++ toString id)
  | .hello (.dom i) => some s!"Nd{i}"
  | .hello .explicit => some "Nex"
  | _ => none

def showErr : ErrClass → String
  | .read => "read" | .tls => "tls" | .streamerr => "streamerr"
  | .refused => "refused" | .proto => "proto" | .feat => "feat"

def showOutcome : Outcome → String
  | .done st t h => s!"done.{st.toNat}.{showBool t}.{showBool h}"
  | .stop (.err e) => "err." ++ showErr e
  | .stop .fuel => "model:fuel"
  | .stop .oracle => "model:oracle-exhausted"
  | .stop .badPick => "model:pick-not-allowed"
  | .stop .unmodelled => "model:unmodelled-bits"

def unitCount (i : Input) : Nat :=
  (i.clear.map List.length).sum + i.prot.length

def showName : Option Name → String
  | none => "none"
  | some .explicit => "ex"
  | some (.dom i) => s!"d{i}"

def parseSess (s : String) : Option SniSess :=
  match splitList s '.' with
  | [d, r, s2s, k] => do
    let d ← d.toNat?
    let r ← r.toNat?
    let s2s ← parseBool s2s
    let k ← if k == "p" then some Kind.p else if k == "x" then some .x else if k == "f" then some .f
            else if k == "n" then some .n else none
    pure ⟨d, r, s2s, k⟩
  | _ => none

def handle (args : List String) : Option String :=
  match args with
  | ["run", tee, explicit, domain, remote, st0, rr, rt, others, clear, prot, oracle] => do
    -- the field carries the tee variant (0..3) and the connection kind: tee + 4 * kind
    let tk ← tee.toNat?
    let tee := tk % 4
    let kind := tk / 4
    let explicit ← parseBool explicit
    let domain ← domain.toNat?
    let remote ← remote.toNat?
    let st0 ← parseMask st0
    let rr ← parseBool rr
    -- the field carries two measured behaviours of features.go: bit 0 = rt, bit 1 = sk
    let fl ← rt.toNat?
    let rt := fl % 2 == 1
    let sk := fl / 2 % 2 == 1
    let others ← mapM? parseOther (splitList others)
    let clear ← mapM? (fun seg => mapM? parseUnit (splitList seg)) (splitList clear '/')
    let prot ← mapM? parsePItem (splitList prot)
    let oracle ← mapM? parseOracle (splitList oracle)
    let cfg : Cfg := { tee := tee != 0, rr := rr, rt := rt, sk := sk, others := others }
    let inp : Input := { clear := clear, prot := prot, oracle := oracle }
    let conn ← connKindOfCode domain kind
    let env : Env := { domain := domain, remote := remote, captured := if explicit then some .explicit else none,
                       conn := conn }
    let r := run cfg env st0 inp (4 * unitCount inp + 8)
    let adv := ((featuresAfter cfg env st0 inp (4 * unitCount inp + 8)).map (·.1)).eraseDups.mergeSort
    let advS := if adv.isEmpty then "A-" else "A" ++ "+".intercalate (adv.map toString)
    -- what `LocalAddr()` returns afterwards
    let la := localAfter cfg env st0 inp (4 * unitCount inp + 8)
    pure (joinList (r.1.filterMap showEv) ++ " " ++ showOutcome r.2 ++ " " ++ advS ++ s!" T{la.loc}.{la.dom}.{la.res}")
  | ["sni", explicit, ss] => do
    let e ← parseBool explicit
    let ss ← mapM? parseSess (splitList ss)
    pure (joinList ((sessions (if e then some .explicit else none) ss).map showName))
  | _ => none

end XmppModel.Driver.C02
