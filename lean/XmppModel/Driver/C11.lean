import XmppModel.Prelude.Hex
import XmppModel.Model.Jid
import XmppModel.Model.JidXml
/-! Driver for C11 (line protocol: see harness/c11/c11.go).  Byte strings are hex (`-`
empty); the results of the external normalisers on the inputs of the line are passed by the
harness as oracle fields (`!` = the library returned an error). -/
namespace XmppModel.Driver.C11
open XmppModel XmppModel.Jid

/-- an oracle value: `!` (error) or hex bytes -/
def pOracle (s : String) : Option (Option Bytes) :=
  if s == "!" then some none else (hexDecode s).map some

/-- the oracle value of the localpart: `!`, `<hex>` (the enforced form, a fixed point of the
profile) or `<hex>~<second>` (the enforced form and what a second pass makes of it) -/
def pOracleL (s : String) : Option (Option Bytes × Option Bytes) :=
  match s.splitOn "~" with
  | [a] => do let x ← pOracle a; pure (x, x)
  | [a, b] => do pure (← pOracle a, ← pOracle b)
  | _ => none

/-- the library `Norm` that answers exactly the queries the harness answered -/
def mkLib (l : Bytes) (nl : Option Bytes × Option Bytes) (r : Bytes) (nr : Option Bytes)
    (d : Bytes) (ip6 ip4 : Bool) (idna idna2 : Option Bytes) : Norm where
  nL := fun x => if x = l then nl.1 else if some x = nl.1 then nl.2 else none
  nR := fun x => if x = r then nr else none
  idna := fun x => if x = trimDot d then idna else if some x = idna then idna2 else none
  ip6 := fun x => x = d ∧ ip6
  ip4 := fun x => x = d ∧ ip4

/-- … as the code applies it (`Norm.code`: fixed-point test on the enforced localpart) -/
def mkNorm (l : Bytes) (nl : Option Bytes × Option Bytes) (r : Bytes) (nr : Option Bytes)
    (d : Bytes) (ip6 ip4 : Bool) (idna idna2 : Option Bytes) : Norm :=
  (mkLib l nl r nr d ip6 ip4 idna idna2).code

def showJid (j : Jid) : String := s!"{hexEncode j.data} {j.ll} {j.dl}"

def showRes : Except Err Jid → String
  | .ok j => "ok " ++ showJid j
  | .error _ => "err"

def pJid (data ll dl : String) : Option Jid := do
  let d ← hexDecode data; let a ← ll.toNat?; let b ← dl.toNat?
  if a + b ≤ d.length then pure ⟨d, a, b⟩ else none

/-! ### operation sequences (`seq`): the pure functions applied in order; a report per slot -/

def pOrc6 (f : List String) : Option ((Option Bytes × Option Bytes) × Option Bytes × Bool × Bool × Option Bytes × Option Bytes) :=
  match f with
  | [nl, nr, i6, i4, idna, idna2] => do
    pure (← pOracleL nl, ← pOracle nr, ← parseBool i6, ← parseBool i4, ← pOracle idna, ← pOracle idna2)
  | _ => none

def slot (vals : List (Option Jid)) (i : String) : Option Jid := do
  let n ← i.toNat?
  match vals[n]? with
  | some (some j) => some j
  | _ => none

def toSlot : Except Err Jid → Option Jid
  | .ok j => some j
  | .error _ => none

/-- one operation: the new slot (`none` = the operation failed), or `none` for a malformed /
dangling operation -/
def seqOp (vals : List (Option Jid)) (op : String) : Option (Option Jid) :=
  match splitList op ':' with
  | "P" :: s :: orc => do
    let s ← hexDecode s
    let (nl, nr, i6, i4, idna, idna2) ← pOrc6 orc
    match split true s with
    | .ok (l, d, r) => pure (toSlot (parse (mkNorm l nl r nr d i6 i4 idna idna2) s))
    | .error _ => pure none
  | "N" :: l :: d :: r :: orc => do
    let l ← hexDecode l; let d ← hexDecode d; let r ← hexDecode r
    let (nl, nr, i6, i4, idna, idna2) ← pOrc6 orc
    pure (toSlot (new (mkNorm l nl r nr d i6 i4 idna idna2) l d r))
  | ["B", i] => do let j ← slot vals i; pure (some j.bare)
  | ["D", i] => do let j ← slot vals i; pure (some j.domain)
  | ["C", i] => do let j ← slot vals i; pure (some j)
  | ["L", i, l, nl] => do
    let j ← slot vals i; let l ← hexDecode l
    pure (toSlot (withLocal (mkNorm l (← pOracleL nl) [] none [] false false none none) j l))
  | ["M", i, d, i6, i4, idna, idna2] => do
    let j ← slot vals i; let d ← hexDecode d
    pure (toSlot (withDomain (mkNorm [] (none, none) [] none d (← parseBool i6) (← parseBool i4) (← pOracle idna) (← pOracle idna2)) j d))
  | ["R", i, r, nr] => do
    let j ← slot vals i; let r ← hexDecode r
    pure (toSlot (withResource (mkNorm [] (none, none) r (← pOracle nr) [] false false none none) j r))
  | "A" :: i :: v :: orc => do
    let j ← slot vals i; let v ← hexDecode v
    let (nl, nr, i6, i4, idna, idna2) ← pOrc6 orc
    let N := match split true v with
      | .ok (l, d, r) => mkNorm l nl r nr d i6 i4 idna idna2
      | .error _ => mkNorm [] (none, none) [] none [] false false none none
    pure (some (unmarshalAttr N j v).1)
  | _ => none

def runSeq : List (Option Jid) → List String → Option (List (Option Jid))
  | vals, [] => some vals
  | vals, op :: rest => do
    let v ← seqOp vals op
    runSeq (vals ++ [v]) rest

def showSlot : Option Jid → String
  | some j => s!"{hexEncode j.data}/{j.ll}/{j.dl}"
  | none => "err"

def handle (args : List String) : Option String :=
  match args with
  | ["split", safe, s] => do
    let sf ← parseBool safe; let b ← hexDecode s
    match split sf b with
    | .ok (l, d, r) => pure s!"ok {hexEncode l} {hexEncode d} {hexEncode r}"
    | .error _ => pure "err"
  | ["new", l, d, r, nl, nr, ip6, ip4, idna, idna2] => do
    let l ← hexDecode l; let d ← hexDecode d; let r ← hexDecode r
    let N := mkNorm l (← pOracleL nl) r (← pOracle nr) d (← parseBool ip6) (← parseBool ip4) (← pOracle idna) (← pOracle idna2)
    pure (showRes (new N l d r))
  | ["parse", s, nl, nr, ip6, ip4, idna, idna2] => do
    let s ← hexDecode s
    let nl ← pOracleL nl; let nr ← pOracle nr; let i6 ← parseBool ip6; let i4 ← parseBool ip4
    let idna ← pOracle idna; let idna2 ← pOracle idna2
    match split true s with
    | .ok (l, d, r) => pure (showRes (parse (mkNorm l nl r nr d i6 i4 idna idna2) s))
    | .error _ => pure "err"
  | ["punsafe", s] => do
    let s ← hexDecode s
    let (j, ok) := parseUnsafe s
    pure s!"{showJid j} {showBool ok}"
  | ["str", data, ll, dl] => do
    let j ← pJid data ll dl
    pure (hexEncode j.toString)
  | ["parts", data, ll, dl] => do
    let j ← pJid data ll dl
    pure s!"{hexEncode j.localpart} {hexEncode j.domainpart} {hexEncode j.resourcepart} {showJid j.bare} {showJid j.domain}"
  | ["eq", d1, l1, m1, d2, l2, m2] => do
    let a ← pJid d1 l1 m1; let b ← pJid d2 l2 m2
    pure (showBool (a.equal b))
  | ["withl", data, ll, dl, l, nl] => do
    let j ← pJid data ll dl; let l ← hexDecode l
    pure (showRes (withLocal (mkNorm l (← pOracleL nl) [] none [] false false none none) j l))
  | ["withd", data, ll, dl, d, ip6, ip4, idna, idna2] => do
    let j ← pJid data ll dl; let d ← hexDecode d
    pure (showRes (withDomain (mkNorm [] (none, none) [] none d (← parseBool ip6) (← parseBool ip4) (← pOracle idna) (← pOracle idna2)) j d))
  | ["withr", data, ll, dl, r, nr] => do
    let j ← pJid data ll dl; let r ← hexDecode r
    pure (showRes (withResource (mkNorm [] (none, none) r (← pOracle nr) [] false false none none) j r))
  | ["seq", ops] => do
    let vals ← runSeq [] (splitList ops ';')
    pure (joinList (vals.map showSlot))
  | ["melem", data, ll, dl] => do
    let j ← pJid data ll dl
    match marshalElemToks ⟨"", "j"⟩ [] j with
    | some ts => pure (Xml.encToks ts)
    | none => pure "none"
  | ["mattr", data, ll, dl] => do
    let j ← pJid data ll dl
    match marshalAttrTok ⟨"", "j"⟩ j with
    | some a => pure (hexEncode (strBytes a.value))
    | none => pure "none"
  | ["unelemtoks", toks, nl, nr, ip6, ip4, idna, idna2] => do
    let inner ← Xml.decToks toks
    let v := charDataOf 0 inner
    let nl ← pOracleL nl; let nr ← pOracle nr; let i6 ← parseBool ip6; let i4 ← parseBool ip4
    let idna ← pOracle idna; let idna2 ← pOracle idna2
    let N := match split true v with
      | .ok (l, d, r) => mkNorm l nl r nr d i6 i4 idna idna2
      | .error _ => mkNorm [] (none, none) [] none [] false false none none
    let (j, ok) := unmarshalElemToks N ⟨[0x7a], 0, 1⟩ inner
    pure s!"{showJid j} {showBool ok}"
  | ["utf8", s] => do
    let s ← hexDecode s
    pure (showBool (validUtf8 s))
  | ["unattr", v, nl, nr, ip6, ip4, idna, idna2] => do
    let v ← hexDecode v
    let nl ← pOracleL nl; let nr ← pOracle nr; let i6 ← parseBool ip6; let i4 ← parseBool ip4
    let idna ← pOracle idna; let idna2 ← pOracle idna2
    let N := match split true v with
      | .ok (l, d, r) => mkNorm l nl r nr d i6 i4 idna idna2
      | .error _ => mkNorm [] (none, none) [] none [] false false none none
    let (j, ok) := unmarshalAttr N ⟨[0x7a], 0, 1⟩ v
    pure s!"{showJid j} {showBool ok}"
  | ["unelem", v, nl, nr, ip6, ip4, idna, idna2] => do
    let v ← hexDecode v
    let nl ← pOracleL nl; let nr ← pOracle nr; let i6 ← parseBool ip6; let i4 ← parseBool ip4
    let idna ← pOracle idna; let idna2 ← pOracle idna2
    let N := match split true v with
      | .ok (l, d, r) => mkNorm l nl r nr d i6 i4 idna idna2
      | .error _ => mkNorm [] (none, none) [] none [] false false none none
    let (j, ok) := unmarshalElem N ⟨[0x7a], 0, 1⟩ v
    pure s!"{showJid j} {showBool ok}"
  | _ => none

end XmppModel.Driver.C11
