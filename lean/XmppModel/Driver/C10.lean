import XmppModel.Prelude.Hex
import XmppModel.Model.Close
import XmppModel.Model.CloseEnv
import XmppModel.Model.CloseFraming
import XmppModel.Model.CloseServe
/-! Driver for C10 (see harness/c10 for the line protocol).

    hist <serve 0|1> <op,op,…>        -> <res,res,…> <wire items> <outClosed><inClosed> <serve result>
    closeblock                            -> reads=<ok|blocked> tags=<n>   (Close waiting in its write)
    abandon <op> <cancel|expire|done|alive> <short 0|1>
                                          -> tx=<ok|failed> setters=<calls> read=<kept|moved> inforce=<close|…> serve=<…>
    whist <failing write index|-> <op,…>  -> <res,…> <wire items> <outClosed> <closing-tag write attempts>
    sched <kind,kind,…> <i,i,…>       -> <wire events> <per goroutine outcome>
    tee <k|-> <op,…>                      -> <res,…> <connection writes> <outClosed> <closing-tag writes>   (TeeOut fails from op k on)
    wdl <op,…>                            -> <res,…> <wire items> <outClosed> wd=<z|p> setters=clean        (tNa/tNx/tNk: context fate)
    fr <tcp|ws> <init|recv> <op,…>        -> <res,…> <el|ctcp|cws,…> <outClosed><inClosed> <serve result>     (p/q: peer sends </stream:stream> / <close/>)
    srv <act,…>                           -> <ok|closedout|blocked,…> <wire> <outClosed><inClosed> <notstarted|running|nil|err|deadline>
                                          (Serve as a thread: v start; ai/ri, ao/aw/ro application holds a reader / writer;
                                           c Close; ds/dy/dc/db peer input; x deadline passes; Serve runs until it blocks after each)
    held <pre|handler> <dp|dz|d>          -> serve=deadline held=ok fresh=closedin bits=11                  (reader held across Serve's end)

ops: c close; t1…t6 the transmit entry points; r read; m/y peer stanza (handler silent /
handler replies); h/s handler returns a plain error / a stream error; e peer stream error;
p peer close; g garbage; d close deadline (15 ms, waited for); dp/df/dz SetCloseDeadline(far past /
far future / zero time); v start Serve.  kinds: c closer, s<n> sender of n items, e sendError.
-/
namespace XmppModel.Driver.C10
open XmppModel XmppModel.Close

def parseOp (s : String) : Option Hist.Op :=
  match s with
  | "c" => some .close
  | "t1" | "t2" | "t3" | "t4" | "t5" | "t6" => some .tx
  | "r" => some .read
  | "m" => some .peerStanza
  | "y" => some .peerStanzaReply
  | "h" => some .handlerErr
  | "s" => some .handlerStreamErr
  | "he" => some (.handlerFails .eof)
  | "hw" => some (.handlerFails .wrapEof)
  | "hu" => some (.handlerFails .wrapUnexpected)
  | "hj" => some (.handlerFails .joinEof)
  | "hs" => some (.handlerFails .wrapStream)
  | "hz" => some (.handlerFails .wrapStanza)
  | "hb" => some (.handlerFails .wrapStream)   -- a stream error too large for the encoder's buffer
  | "e" => some .peerStreamErr
  | "p" => some .peerClose
  | "g" => some .peerGarbage
  | "d" => some .deadline
  | "dp" => some (.setDeadline .past)
  | "df" => some (.setDeadline .future)
  | "dz" => some (.setDeadline .zero)
  | "v" => some .startServe
  | _ => none

def showRes : Hist.Res → String
  | .ok => "ok" | .closedOut => "closedout" | .closedIn => "closedin" | .na => "na"

def showRet : Hist.Ret → String
  | .running => "running" | .notStarted => "notstarted" | .nil_ => "nil" | .handlerErr => "handlererr"
  | .streamErr => "streamerr" | .peerStreamErr => "peerstreamerr" | .garbage => "garbage"
  | .deadline => "deadline" | .closedOut => "closedout" | .unexpectedEof => "unexpectedeof"

def showItem : Hist.Item → String
  | .el => "el" | .close => "close"

def parseWOp (s : String) : Option WHist.Op :=
  match s with
  | "c" => some .close
  | "t1" | "t2" | "t3" | "t4" | "t5" | "t6" => some .tx
  | _ => none

def showWRes : WHist.Res → String
  | .ok => "ok" | .closedOut => "closedout" | .ioErr => "ioerr"

def showWItem : WHist.Item → String
  | .el => "el" | .close => "close" | .cut => "cut" | .closeCut => "closecut"

def parseKind (s : String) : Option Lts.Kind :=
  if s == "c" then some .closer
  else if s == "e" then some .errSender
  else if s.startsWith "s" then (s.drop 1).toString.toNat?.map (fun n => .sender n true)
  else none

def showEv : Lts.Ev → String
  | .data i => s!"d{i}"
  | .close _ => "c"

def showPc : Lts.Pc → String
  | .done true => "ok" | .done false => "fail" | _ => "run"

def parseTeeOp (s : String) : Option Tee.Op :=
  match s with
  | "c" => some .close
  | "p" => some .peerClose
  | "t1" | "t2" | "t3" | "t4" | "t5" | "t6" => some .tx
  | _ => none

def showTeeRes : Tee.Res → String
  | .ok => "ok" | .closedOut => "closedout" | .ioErr => "ioerr" | .na => "na"

def showTeeItem : Tee.Item → String
  | .el => "el" | .close => "close"

def parseWdOp (s : String) : Option WdHist.Op :=
  match s with
  | "c" => some .close
  | "t1a" | "t2a" | "t3a" | "t4a" | "t6a" => some (.tx .alive)
  | "t1x" | "t2x" | "t3x" | "t4x" | "t6x" => some (.tx .over)
  | "t1k" | "t2k" | "t3k" | "t4k" | "t6k" => some (.tx .cancelled)
  | "dp" => some (.closeDeadline true)
  | "df" => some (.closeDeadline false)
  | _ => none

def showWdRes : WdHist.Res → String
  | .ok => "ok" | .closedOut => "closedout" | .failed => "failed"

def parseFrOp (s : String) : Option Framing.Op :=
  match s with
  | "p" => some (.peerEnds .tcp)
  | "q" => some (.peerEnds .ws)
  | "h" => some (.base .handlerErr)
  | o => (parseOp o).map .base

def showTag : Framing.Tag → String
  | .el => "el" | .close .tcp => "ctcp" | .close .ws => "cws"

/-- harness action -> model actions (`c` = `Close()` by an application goroutine) -/
def parseSrvAct (s : String) : Option (List SrvLts.Act) :=
  match s with
  | "v" => some [.start]
  | "ai" => some [.appAcquireIn]
  | "ri" => some [.appReleaseIn]
  | "ao" => some [.appAcquireOut]
  | "aw" => some [.appWrite]
  | "ro" => some [.appReleaseOut]
  | "c" => some [.appAcquireOut, .appCloseSession, .appReleaseOut]
  | "ds" => some [.deliver (.stanza false)]
  | "dy" => some [.deliver (.stanza true)]
  | "dc" => some [.deliver .close]
  | "db" => some [.deliver .bad]
  | "x" => some [.expire]
  | _ => none

def showSrvRet : SrvLts.Ret → String
  | .nil_ => "nil" | .err => "err" | .deadline => "deadline"

def showSrvItem : SrvLts.Item → String
  | .el => "el" | .close => "close"

/-- every action is followed by `Serve` running until it blocks; a disabled action is reported as
`blocked` and ends the scenario -/
def srvRun : SrvLts.St → List (List SrvLts.Act) → List String → SrvLts.St × List String
  | s, [], acc => (s, acc.reverse)
  | s, as :: rest, acc =>
    let r := as.foldl (fun (st : Option SrvLts.St) a => st.bind fun x => SrvLts.step false x a) (some s)
    match r with
    | none => (s, ("blocked" :: acc).reverse)
    | some s' =>
      let res := if as == [SrvLts.Act.appWrite] && s.outClosed then "closedout" else "ok"
      -- the harness feeds a keep-alive whenever Serve has settled inside its read
      let s2 := SrvLts.serveRun 16 s'
      let s3 := match SrvLts.step false s2 .keepalive with | some x => x | none => s2
      -- whether `closeInputStream` waits for a reader held by the application is the
      -- implementation's choice: the harness gives the reader back before it observes anything
      let waitsForReader : Bool := match s3.spc with | .shutIn _ => s3.inLock == .app | _ => false
      let s4 := if waitsForReader then
          (match SrvLts.step false s3 .appReleaseIn with | some x => SrvLts.serveRun 16 x | none => s3)
        else s3
      srvRun s4 rest (res :: acc)

def teeLine (k ops : String) : Option String := do
  let f ← if k == "-" then some none else k.toNat?.map some
  let l ← mapM? parseTeeOp (splitList ops)
  let fails : Nat → Bool := fun i => match f with | none => false | some n => decide (n ≤ i)
  let r := Tee.run false fails 0 Tee.init l
  pure s!"{joinList (r.2.map showTeeRes)} {joinList (r.1.wire.map showTeeItem)} {showBool r.1.outClosed} {r.1.attempts}"

def handle (args : List String) : Option String :=
  match args with
  | ["srv", acts] => do
    let l ← mapM? parseSrvAct (splitList acts)
    let r := srvRun SrvLts.init l []
    let s := r.1
    let serve := match s.spc with
      | .notStarted => "notstarted"
      | .returned x => showSrvRet x
      | _ => "running"
    pure s!"{joinList r.2} {joinList (s.wire.map showSrvItem)} {showBool s.outClosed}{showBool s.inClosed} {serve}"
  | ["fr", fr, _role, ops] => do
    let f ← match fr with | "tcp" => some Framing.Fr.tcp | "ws" => some Framing.Fr.ws | _ => none
    let l ← mapM? parseFrOp (splitList ops)
    let r := Framing.run true f (Hist.init true) l
    let s := r.1
    pure s!"{joinList (r.2.map showRes)} {joinList ((Framing.wire true f s).map showTag)} {showBool s.outClosed}{showBool s.inClosed} {showRet s.serve}"
  | ["tee", k, ops] => teeLine k ops
  | ["teer", k, ops] => teeLine k ops   -- the tee'd session in the receiving role: same model
  | ["wdl", ops] => do
    let l ← mapM? parseWdOp (splitList ops)
    let r := WdHist.run true WdHist.init l
    let wd := if r.1.wdPast then "p" else "z"
    pure s!"{joinList (r.2.map showWdRes)} {joinList (r.1.wire.map showItem)} {showBool r.1.outClosed} wd={wd} setters=clean"
  | ["held", _acq, _end] =>
    -- the reader is taken, Serve's shutdown is tried (and waits), the reader is given back, the
    -- shutdown completes, then a read through the old handle and through a new reader
    let s1 := RdLts.run true true RdLts.init [.hAcquire, .sStep, .hRelease, .sStep, .sStep, .sStep, .hRead]
    let s2 := RdLts.run true true s1 [.hAcquire, .hRead]
    let held := if s1.bad || s1.tokens != 0 then "token" else "ok"
    let fresh := if s2.tokens == s1.tokens then "closedin" else "token"
    let h := (Hist.run (Hist.init true) [.setDeadline .past]).1
    pure s!"serve={showRet h.serve} held={held} fresh={fresh} bits={showBool h.outClosed}{showBool (h.inClosed && s2.bit)}"
  | ["hist", serve, ops] => do
    let sv ← parseBool serve
    let l ← mapM? parseOp (splitList ops)
    let r := Hist.run (Hist.init sv) l
    let s := r.1
    pure s!"{joinList (r.2.map showRes)} {joinList (s.wire.map showItem)} {showBool s.outClosed}{showBool s.inClosed} {showRet s.serve}"
  | ["closeblock"] =>
    -- a closer driven into its (blocked) connection write, a reader next to it
    let kind : Nat → RwLts.Kind := fun i => if i = 0 then .closer else .reader
    let s := RwLts.run false kind RwLts.init [(0, false), (0, false), (0, false), (0, false)]
    let reads := if (RwLts.step false kind false s 1).isSome then "ok" else "blocked"
    let s' := RwLts.run false kind s [(1, false), (0, true)]
    pure s!"reads={reads} tags={s'.tags}"
  | ["whist", failAt, ops] => do
    let f ← if failAt == "-" then some none else failAt.toNat?.map some
    let l ← mapM? parseWOp (splitList ops)
    let r := WHist.run f WHist.init l
    pure s!"{joinList (r.2.map showWRes)} {joinList (r.1.wire.map showWItem)} {showBool r.1.outClosed} {r.1.closeAttempts}"
  | ["abandon", _op, kind, short] => do
    -- SetCloseDeadline(t), then a transmit call blocked in its write whose context ends (or not)
    let sh ← parseBool short
    let ends := kind != "alive"
    let s0 := ConnDl.run .write ConnDl.init [.closeDeadline 7]
    let s := ConnDl.run .write s0 [.transmit ends]
    let calls := (s.log.drop s0.log.length).map fun (c : ConnDl.Setter × ConnDl.Dl) =>
      (match c.1 with | .both => "D" | .read => "R" | .write => "W") ++
      (match c.2 with | .zero => "z" | .past => "p" | .at _ => "f")
    let read := if (s.log.drop s0.log.length).any (fun c => ConnDl.movesRead c.1) then "moved" else "kept"
    let inforce := match s.rd with | .at 7 => "close" | .zero => "zero" | _ => "other"
    let serve := match ConnDl.readEnds s with
      | some 7 => if sh then "deadline" else "blocked"
      | none => if sh then "never" else "blocked"
      | some _ => if sh then "early" else "returned"
    let tx := if ends then "failed" else "ok"
    pure s!"tx={tx} setters={joinList calls} read={read} inforce={inforce} serve={serve}"
  | ["sched", kinds, sched] => do
    let ks ← mapM? parseKind (splitList kinds)
    let sc ← mapM? (fun (x : String) => x.toNat?) (splitList sched)
    let kind : Nat → Lts.Kind := fun i => match ks[i]? with | some k => k | none => .sender 0 true
    let s := Lts.run kind Lts.init sc
    pure s!"{joinList (s.wire.map showEv)} {joinList ((List.range ks.length).map fun i => showPc (s.pc i))}"
  | _ => none

end XmppModel.Driver.C10
