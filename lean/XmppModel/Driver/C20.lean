import XmppModel.Prelude.Hex
import XmppModel.Model.Caps
/-! Driver for C20 (line protocol: see harness/c20/c20.go).

    ver <ids> <feats> <forms>            -> hex of the string written to the hash
    append <dst> <b64>                   -> hex of AppendHash's result, given the encoded sum
    again <ids> <feats> <forms>          -> the caller's value after one call `/` hex of what a second call hashes

Strings inside lists are `x<hex>` (so `x` is the empty string and `-` the empty list);
identity = `cat:typ:lang:name`; form = `F` followed by `|`-joined fields; field =
`var=` followed by `,`-joined values. -/
namespace XmppModel.Driver.C20
open XmppModel XmppModel.Caps

def pStr (s : String) : Option Bytes :=
  match s.toList with
  | 'x' :: r => hexDecodeChars r
  | _ => none

def pIdentity (s : String) : Option Identity :=
  match splitList s ':' with
  | [c, t, l, n] => do
    pure ⟨← pStr c, ← pStr t, ← pStr l, ← pStr n⟩
  | _ => none

def pField (s : String) : Option Field :=
  -- `~type` (the data-form field type the harness used) is not part of the model
  match splitList s '~' with
  | [body, _typ] =>
    match splitList body '=' with
    | [v, vals] => do
      let var ← pStr v
      let vs ← if vals == "" then some [] else mapM? pStr (splitList vals ',')
      pure ⟨var, vs⟩
    | _ => none
  | _ => none

def pForm (s : String) : Option Form :=
  match s.toList with
  | 'F' :: r =>
    if r.isEmpty then some ⟨[]⟩ else do
      let fs ← mapM? pField (splitList (String.ofList r) '|')
      pure ⟨fs⟩
  | _ => none

def pInfo (ids feats forms : String) : Option Info := do
  let i ← mapM? pIdentity (splitList ids ',')
  let f ← mapM? pStr (splitList feats ',')
  let g ← mapM? pForm (splitList forms ';')
  pure ⟨i, f, g⟩

def encStr (b : Bytes) : String := "x" ++ (if b.isEmpty then "" else hexEncode b)

def joinOr (l : List String) (sep : String) : String :=
  if l.isEmpty then "-" else sep.intercalate l

/-- the encoding of the line protocol without field types, the three lists separated by `/` -/
def encInfo (i : Info) : String :=
  joinOr (i.ids.map fun d => ":".intercalate [encStr d.cat, encStr d.typ, encStr d.lang, encStr d.name]) "," ++ "/" ++
  joinOr (i.feats.map encStr) "," ++ "/" ++
  joinOr (i.forms.map fun F => "F" ++ "|".intercalate
    (F.fields.map fun f => encStr f.var ++ "=" ++ ",".intercalate (f.values.map encStr))) ";"

def handle (args : List String) : Option String :=
  match args with
  | ["again", ids, feats, forms, _how] => do
    -- the caller's value after one call, and what a second call on it hashes
    let i ← pInfo ids feats forms
    let j := i.after implInPlace
    pure (encInfo j ++ "/" ++ hexEncode (verImpl j))
  | ["ver", ids, feats, forms, _how] => do
    let i ← pInfo ids feats forms
    pure (hexEncode (verImpl i))
  | ["append", dst, b64] => do
    let d ← hexDecode dst
    let b ← hexDecode b64
    -- `appendHash` with the hash and the encoding supplied by the harness as the constant `b`
    pure (hexEncode (appendHash (fun _ => b) id d ⟨[], [], []⟩))
  | _ => none

end XmppModel.Driver.C20
