import XmppModel.Prelude.Hex
import XmppModel.Prelude.Xml
import XmppModel.Model.Header
import XmppModel.Model.StreamNeg
import XmppModel.Model.Bind
/-! Driver module for C12 (line protocol: see harness/c12/c12.go). -/
namespace XmppModel.Driver.C12
open XmppModel

/-- hex text field, `-` = empty -/
def txt (s : String) : Option String := if s == "-" then some "" else hexDecodeStr s

def hx (s : String) : String := hexEncodeStr s

def hxl (s : List Char) : String := hx (String.ofList s)

/-! ### hdr -/

def showStart (s : Header.Start) : String :=
  let attrs := s.attrs.map fun a => s!"{hxl a.1.space}={hxl a.1.loc}={hxl a.2}"
  let sorted := attrs.mergeSort (fun a b => decide (a ≤ b))
  s!"{hxl s.name.space}|{hxl s.name.loc} {joinList sorted ";"}"

def handleHdr (ws xmlns to src id lang emitted : String) : Option String := do
  let ws ← parseBool ws
  let xmlns ← txt xmlns; let to ← txt to; let src ← txt src; let id ← txt id; let lang ← txt lang
  let em ← txt emitted
  let args : Header.HdrArgs := ⟨ws, xmlns == "jabber:server", id.toList, to.toList, src.toList, lang.toList⟩
  match Header.readHeader em.toList with
  | none => pure "MALFORMED"
  | some st =>
    let faithful := Header.sameStart st (Header.expected args)
    pure ((if faithful then "" else "UNFAITHFUL ") ++ showStart st)

def handleTag (bytes : String) : Option String := do
  let b ← txt bytes
  match Header.readHeader b.toList with
  | none => pure "MALFORMED"
  | some st => pure (showStart st)

/-! ### neg -/

def decHTok (s : String) : Option StreamNeg.HTok :=
  if s == "X" then some .syntaxErr else (Xml.decTok s).map .tok

def decHdr (field : String) : Option (List StreamNeg.HTok) :=
  match field.splitOn "|" with
  | [_, toks] => if toks == "-" then some [] else mapM? decHTok (toks.splitOn ";")
  | _ => none

def decJidTable (s : String) : Option (List (String × Option String)) :=
  mapM? (fun e => match e.splitOn "=" with
    | [raw, canon] => do
      let r ← txt raw
      if canon == "!" then pure (r, none) else do
        let c ← txt canon
        pure (r, some c)
    | _ => none) (splitList s)

def showInfo (i : StreamNeg.Info) : String :=
  s!"{hx i.to},{hx i.src},{hx i.id},{hx s!"{i.version.1}.{i.version.2}"},{hx i.lang},{hx i.xmlns}"

def showVerdict : Except StreamNeg.HErr (StreamNeg.Info × StreamNeg.OutHdr) → String
  | .error e => "err:" ++ e.toString
  | .ok (i, o) => s!"ok:{showInfo i}/{hx o.to},{hx o.src},{hx o.xmlns}"

def optNat (s : String) : Option (Option Nat) :=
  if s == "-" then some none else s.toNat?.map some

def handleNeg (role ws s2s loc orig jids : String) (env : Option (String × String × String))
    (hdrs : List String) : Option String := do
  let recv ← if role == "r" then some true else if role == "i" then some false else none
  let ws ← parseBool ws; let s2s ← parseBool s2s
  let loc ← txt loc; let orig ← txt orig
  let table ← decJidTable jids
  let hs ← mapM? decHdr hdrs
  -- `jid.Parse` restricted to the strings that occur; anything else is a protocol error
  let known := hs.all fun h => h.all fun
    | .tok (.start _ attrs) => attrs.all fun a =>
        !(a.name == ⟨"", "to"⟩ || a.name == ⟨"", "from"⟩) || a.value == "" || (table.any (·.1 == a.value))
    | _ => true
  if !known then none else
  let parseJid : String → Option String := fun raw =>
    match table.find? (·.1 == raw) with
    | some (_, c) => c
    | none => none
  let a0 : StreamNeg.Addrs := if recv then ⟨loc, orig⟩ else ⟨orig, loc⟩
  let (vs, fin) ← match env with
    | none => some (StreamNeg.negRun recv ws s2s parseJid a0 hs, StreamNeg.negEnd recv ws s2s parseJid a0 hs)
    | some (tee, budget, cancel) => do
      let t ← parseBool tee
      let b ← optNat budget
      let k ← optNat cancel
      pure (StreamNeg.negRunE recv ws s2s parseJid t k 0 b a0 hs)
  pure (" ".intercalate (vs.map showVerdict ++ [s!"final:{hx fin.to},{hx fin.src}"]))

/-! ### bind -/

def jidField (canon : String) : Option Bind.JidField :=
  if canon == "!" then some .invalid else (txt canon).map .valid

def handleBindC (locl reply a b ajid bjid : String) : Option String := do
  let locl ← txt locl; let a ← txt a
  let _ ← txt b
  let r : Bind.Reply ← match reply with
    | "res" => (jidField ajid).map fun j => Bind.Reply.iq true "result" j none
    | "resnojid" => some (.iq true "result" .absent none)
    | "resnobind" => some (.iq true "result" .absent none)
    | "wrongid" => (jidField ajid).map fun j => Bind.Reply.iq false "result" j none
    | "noid" => (jidField ajid).map fun j => Bind.Reply.iq false "result" j none
    | "err" => some (.iq true "error" .absent (some a))
    | "errempty" => some (.iq true "error" .absent none)
    | "type" => (jidField bjid).map fun j => Bind.Reply.iq true a j none
    | "noniq" => some .otherElement
    | "nsiq" => some .otherElement
    | "space" => some .nonElement
    | "eof" => some .eof
    | "trunc" => some .eof   -- the document ends inside the reply: the decoder's read error
    | _ => none
  let res := Bind.client locl r
  let req := match res.requested with
    | none => "NONE"
    | some s => if s.isEmpty then "EMPTY" else hx s
  pure s!"{req} {res.err.toString} {hx res.addr} {showBool res.ready}"

def reqAddr (f : String) : Option Bind.JidField :=
  if f == "-" then some .absent else if f == "!" then some .invalid else (txt f).map .valid

def handleBindS (s2s remote reqid reqres cb a cbjid rto rfrom : String) : Option String := do
  let _ ← parseBool s2s
  let remote ← txt remote; let reqid ← txt reqid; let a ← txt a
  let reqres ← if reqres == "NONE" then some none else (txt reqres).map some
  let rto ← reqAddr rto; let rfrom ← reqAddr rfrom
  let c : Bind.Callback ← match cb with
    | "nil" => some .default
    | "jid" => if cbjid == "!" then some .failure else (txt cbjid).map .address
    | "echo" => if cbjid == "!" then some .failure else (txt cbjid).map .address
    | "serr" => some (.stanzaError a)
    | "err" => some .failure
    | _ => none
  let r := Bind.server remote reqid reqres rto rfrom c
  let args := match r.cbArgs with
    | none => "-"
    | some (j, res) => s!"{hx j}/{hx res}"
  let head := match r.reply with
    | none => "NOREPLY - - -"
    | some q =>
      let j := match q.assigned with
        | none => "-"
        | some (.random _) => "RND"
        | some (.jid j) => hx j
      s!"{q.type} {hx q.id} {j} {q.cond.getD "-"}"
  let tail := match r.reply with
    | none => "- -"
    | some q => s!"{hx q.to} {hx q.src}"
  pure s!"{head} {r.err.getD "nil"} {showBool r.ready} {args} {tail}"

/-- `space=local=value;…` (hex fields) -/
def parseAttrs (s : String) : Option (List Bind.Attr) :=
  if s == "-" then some [] else
  mapM? (fun (x : String) => match x.splitOn "=" with
    | [sp, lo, v] => do
      let sp ← txt sp; let lo ← txt lo; let v ← txt v
      some (⟨sp, lo, v⟩ : Bind.Attr)
    | _ => none) (s.splitOn ";")

/-- `jid.Parse` on the addresses the decoy cases use: canonical ones and `a@@b` -/
def pjDecoy (v : String) : Option String := if v == "a@@b" then none else some v

def showSRes (r : Bind.SRes) : String :=
  let args := match r.cbArgs with
    | none => "-"
    | some (j, res) => s!"{hx j}/{hx res}"
  let head := match r.reply with
    | none => "NOREPLY - - -"
    | some q =>
      let j := match q.assigned with
        | none => "-"
        | some (.random _) => "RND"
        | some (.jid j) => hx j
      s!"{q.type} {hx q.id} {j} {q.cond.getD "-"}"
  let tail := match r.reply with
    | none => "- -"
    | some q => s!"{hx q.to} {hx q.src}"
  s!"{head} {r.err.getD "nil"} {showBool r.ready} {args} {tail}"

/-- the receiving side on the request's start element as it was sent (with decoy attributes) -/
def handleBindSA (s2s remote reqres cb a cbjid attrs : String) : Option String := do
  let _ ← parseBool s2s
  let remote ← txt remote; let a ← txt a
  let reqres ← if reqres == "NONE" then some none else (txt reqres).map some
  let attrs ← parseAttrs attrs
  let c : Bind.Callback ← match cb with
    | "nil" => some .default
    | "jid" => if cbjid == "!" then some .failure else (txt cbjid).map .address
    | "echo" => if cbjid == "!" then some .failure else (txt cbjid).map .address
    | "serr" => some (.stanzaError a)
    | "err" => some .failure
    | _ => none
  pure (showSRes (Bind.serverA pjDecoy remote attrs reqres c))

/-- the initiating side on the reply's start element as it was sent; the request's id is `ID` -/
def handleBindCA (locl reply a ajid bjid attrs : String) : Option String := do
  let locl ← txt locl; let a ← txt a
  let attrs ← parseAttrs attrs
  let (j, c) : Bind.JidField × Option String ← match reply with
    | "res" | "wrongid" | "noid" => (jidField ajid).map fun j => (j, none)
    | "err" => some (.absent, some a)
    | "errempty" => some (.absent, none)
    | "type" => (jidField bjid).map fun j => (j, none)
    | _ => none
  let res := Bind.client locl (Bind.replyA "ID" attrs j c)
  let req := match res.requested with
    | none => "NONE"
    | some s => if s.isEmpty then "EMPTY" else hx s
  pure s!"{req} {res.err.toString} {hx res.addr} {showBool res.ready}"

/-- several receiving sessions on one `BindCustom` value: each is the sequential model on
its own request (`id<i>`, its own remote address, its own requested resource) -/
def handleConcB (items : List String) : Option String := do
  let rs ← mapM? (fun (x : Nat × String) => match x.2.splitOn "/" with
    | [remote, res, j] => do
      let remote ← txt remote; let res ← txt res; let j ← txt j
      let r := Bind.server remote s!"id{x.1}" (some res) .absent (.valid remote) (.address j)
      match r.reply, r.cbArgs with
      | some q, some (a, b) =>
        let jj := match q.assigned with
          | some (.jid j) => hx j
          | some (.random _) => "RND"
          | none => "-"
        some s!"{q.type} {hx q.id} {jj} {r.err.getD "nil"} {showBool r.ready} {hx a}/{hx b} {hx q.to}"
      | _, _ => none
    | _ => none) ((List.range items.length).zip items)
  pure (" ; ".intercalate rs)

/-- `k` receiving sessions on one `BindResource()` value: the resources assigned, named by the
order in which the random source handed them out -/
def handleBindR (k remote : String) : Option String := do
  let n ← k.toNat?
  let remote ← txt remote
  let reqs := (List.range n).map fun i => (⟨remote, s!"id{i}", none, .absent, .absent, .default⟩ : Bind.Req)
  let rs := Bind.serveAll 0 reqs
  let names ← mapM? (fun (r : Bind.SRes) => match r.reply with
    | some q => match q.assigned with
      | some (.random j) => some s!"R{j}"
      | _ => none
    | none => none) rs
  pure (" ".intercalate names)

def handle (args : List String) : Option String :=
  match args with
  | ["hdr", ws, xmlns, to, src, id, lang, emitted] => handleHdr ws xmlns to src id lang emitted
  -- the same after a history of other sessions: `Send` keeps nothing between calls
  -- (`HeaderSend.run_perCall`), so the history field does not enter the answer
  | ["hdrp", _prior, ws, xmlns, to, src, id, lang, emitted] => handleHdr ws xmlns to src id lang emitted
  | "neg" :: role :: ws :: s2s :: loc :: orig :: jids :: hdrs => handleNeg role ws s2s loc orig jids none hdrs
  | "nege" :: role :: ws :: s2s :: loc :: orig :: jids :: tee :: budget :: cancel :: hdrs =>
    handleNeg role ws s2s loc orig jids (some (tee, budget, cancel)) hdrs
  | ["tag", bytes] => handleTag bytes
  | ["bindr", _mode, k, remote] => handleBindR k remote
  | "concb" :: _sched :: items => handleConcB items
  | ["bindc", locl, reply, a, b, ajid, bjid] => handleBindC locl reply a b ajid bjid
  | ["bindsa", s2s, remote, _reqid, reqres, cb, a, cbjid, _rto, _rfrom, _decoy, attrs] =>
    handleBindSA s2s remote reqres cb a cbjid attrs
  | ["bindca", locl, reply, a, _b, ajid, bjid, _decoy, attrs] => handleBindCA locl reply a ajid bjid attrs
  | ["binds", s2s, remote, reqid, reqres, cb, a, cbjid, rto, rfrom] =>
    handleBindS s2s remote reqid reqres cb a cbjid rto rfrom
  | _ => none

end XmppModel.Driver.C12
