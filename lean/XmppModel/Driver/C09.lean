import XmppModel.Prelude.Hex
import XmppModel.Model.Skeleton
import XmppModel.Model.ScramLoop
import XmppModel.Model.FormLines
import XmppModel.Model.MucHandover
/-! Driver for C09 (see harness/c09 for the line protocol).

    flagged <skeleton>                 -> ok | flagged:<site,…>      the checker's verdict
    exec <skeleton> <oracle> <fuel>    -> norm | brk | cont | ret | stuck | panic:<site>
    panicsite <skeleton> <site>        -> flagged | missed           is the site of an observed panic flagged?
    formsubmit <instructions> <values> -> i:<list>/v:<list> | STALL   what a submission of the peer's form
                                          carries (Model/FormLines.lean: the fuel-bounded loops of form.go)
    muchand none|same|other            -> handed | forward           the join hand-over of muc's presence handler
                                          (Model/MucHandover.lean) on its one-step domain
    serve <input> / helper <name> <type> <reply> -> ok                the model's prediction for every input: the
                                          theorems C09_library_never_panics and C09_serve_terminates (Props/C09.lean)
                                          say no execution panics and Serve returns; the harness observes ok|PANIC|STALL
-/
namespace XmppModel.Driver.C09
open XmppModel XmppModel.Skeleton

def showOut : Out → String
  | .norm _ => "norm" | .brk _ => "brk" | .cont _ => "cont" | .ret => "ret" | .stuck => "stuck"
  | .panic s => s!"panic:{s}"

/-- Run-length hex (harness/c09/hexz.go): segments joined by `.`, each plain hex or
`<hh>x<count>` (one byte repeated); well-formedness only - the prediction for a served input
does not depend on its bytes, and a 1 MiB run is not expanded. -/
def hexzValid (s : String) : Bool :=
  s == "-" || (s.splitOn ".").all fun seg =>
    match seg.splitOn "x" with
    | [h] => !h.isEmpty && (hexDecode h).isSome
    | [h, n] => h.length == 2 && (hexDecode h).isSome && n.toNat?.isSome
    | _ => false

/-- list fields of `formsubmit`: ','-joined, every element `s`+hex (`s` alone = empty string),
the empty list `-`. -/
def decList (s : String) : Option (List Bytes) :=
  if s == "-" then some [] else
  mapM? (fun e : String => match e.toList with
    | 's' :: rest => if rest.isEmpty then some [] else hexDecodeChars rest
    | _ => none) (s.splitOn ",")

def encList (l : List Bytes) : String :=
  if l.isEmpty then "-" else
  ",".intercalate (l.map fun b => if b.isEmpty then "s" else "s" ++ hexEncode b)

def handle (args : List String) : Option String :=
  match args with
  | ["muchand", q] => do
    -- what is in Channel.join when a self-presence of the nickname held arrives: nothing, a
    -- re-join under that nickname (the call listens), a join under another nickname
    let req : Option MucHandover.Req ← match q with
      | "none" => some none
      | "same" => some (some ⟨true, true⟩)
      | "other" => some (some ⟨false, true⟩)
      | _ => none
    match MucHandover.selectJoin 2 req [] with
    | none => pure "STALL"
    | some (.handed, _) => pure "handed"
    | some (.forward, _) => pure "forward"
  | ["formsubmit", ins, vals] => do
    let i ← decList ins
    let v ← decList vals
    match FormLines.submitted i v with
    | none => pure "STALL"
    | some (a, b) => pure s!"i:{encList a}/v:{encList b}"
  | ["flagged", sk] => do
    let s ← decode sk
    let fl := flagged s
    pure (if fl.isEmpty then "ok" else "flagged:" ++ joinList (fl.map toString))
  | ["exec", sk, orc, fuel] => do
    let s ← decode sk
    let o ← mapM? String.toNat? (splitList orc)
    let n ← fuel.toNat?
    pure (showOut (exec n s ⟨fun _ => .nil, o⟩))
  | ["panicsite", sk, site] => do
    let s ← decode sk
    let k ← site.toNat?
    pure (if (flagged s).contains k then "flagged" else "missed")
  | ["serve", inp] =>
    if hexzValid inp then some "ok" else none
  | ["nego", role, _mechs, chunks, sf] => do
    -- SASL negotiation against a scripted peer through NewSession / ReceiveSession.  `sf` is
    -- the server-first message the real SCRAM client is about to parse (hex, `-` if none): the
    -- only modelled reason for not returning is the dependency's field loop (known finding).
    if !((role == "c" || role == "s") && !chunks.isEmpty) then none
    if sf == "-" then pure "ok" else
    let m ← hexDecode sf
    pure (if role == "c" && ScramLoop.serverFirst m == .loops then "STALL" else "ok")
  | ["servex", mode, k, stanzas] => do
    -- a served session under a local fault (write failure from call k / Session.Close before
    -- stanza k): Serve still returns once the input has ended
    let _ ← k.toNat?
    if (mode == "w" || mode == "c") && !stanzas.isEmpty then pure "ok" else none
  | ["scen", _name, steps] =>
    -- a stateful scenario (local calls and peer stanzas interleaved): same prediction
    if steps.isEmpty then none else some "ok"
  | ["helperp", name, _typ, pages] => do
    -- a helper against a peer that answers successive requests with successive pages
    let _ ← hexDecode name
    if pages.isEmpty then none else pure "ok"
  | ["helper", name, _typ, reply] => do
    let _ ← hexDecode name
    if hexzValid reply then pure "ok" else none
  | _ => none

end XmppModel.Driver.C09
