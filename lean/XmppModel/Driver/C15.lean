import XmppModel.Prelude.Hex
import XmppModel.Model.Ibb
import XmppModel.Model.IbbReader
import XmppModel.Model.IbbReaders
import XmppModel.Model.IbbSend
import XmppModel.Model.IbbClose
import XmppModel.Model.IbbCloseProbe
import XmppModel.Model.IbbBody
import XmppModel.Model.IbbCarrier
import XmppModel.Model.IbbTable
/-! Driver module for C15.

    C15 recv <maxbuf> <ops>    ops `,`-joined:  d:<known>:<seq>:<payloadhex>[:M<before>.<after>]  data packet
                                                  (optional 5th field: the other children of its carrier <message/>)
                                                c   the stream is closed (by either side)
                                                x   a <close/> that names the sid but does not come from the stream's peer
                                                h   local Close has sent its <close/> and waits for the answer
                                                r:<n>   Read with a buffer of n bytes
       answer: one observation per op, `,`-joined: ack|inf|unx|bad|res  /  c  /  D<hex>|EOF|BLOCK
    C15 emit <closed> <writtenhex> <packets>    packets `,`-joined: <seq>:<known>:<payloadhex>
       answer: ok | bad      (the relation `emits` for the standard codec)
-/
namespace XmppModel.Driver.C15
open XmppModel XmppModel.Ibb

/-- one piece of a serialised body: `T<hex>` text, `C<hex>` CDATA section, `E<hex>` character
references -/
def parseSeg (t : String) : Option Seg :=
  match t.toList with
  | 'T' :: r => (hexDecode (String.ofList r)).map Seg.text
  | 'C' :: r => (hexDecode (String.ofList r)).map Seg.cdata
  | 'E' :: r => (hexDecode (String.ofList r)).map Seg.charRefs
  | _ => none

/-- the payload field of a `d:` token: plain hex (one piece of text), or pieces joined by `+` -/
def parseBody (f : String) : Option (List Seg) :=
  match f.toList with
  | c :: _ =>
    if c = 'T' ∨ c = 'C' ∨ c = 'E' then mapM? parseSeg (splitList f '+')
    else (hexDecode f).map fun b => [Seg.text b]
  | [] => none

def parseSeqField (seq : String) : Option Bytes :=
  if seq.startsWith "x" then hexDecode (seq.drop 1).toString else some seq.toUTF8.toList

/-- the shape of the carrier message, 5th field of a `d:` token: `M<before>.<after>`, one digit per
child that stands before / after the packet (codes: `Model/IbbCarrier.lean`) -/
def parseShape (f : String) : Option (List Nat × List Nat) :=
  match f.toList with
  | 'M' :: r =>
    match (String.ofList r).splitOn "." with
    | [b, a] => do
      let ds (t : String) : Option (List Nat) := mapM? (fun c => if c.isDigit then some (c.toNat - 48) else none) t.toList
      let b ← ds b; let a ← ds a
      pure (b, a)
    | _ => none
  | _ => none

def applyOp (s : RState) (op : String) : Option (RState × String) :=
  match op.splitOn ":" with
  | ["d", k, seq, pl, shape] => do
    -- message carrier: the packet is one child among others of its <message/>
    let k ← parseBool k; let b ← parseBody pl
    let a ← parseSeqField seq
    let (bf, af) ← parseShape shape
    match recvMessage std s (carrierChildren bf af ⟨k, a, b⟩) with
    | .handled s' r => pure (s', showReply r)
    | .notIbb => pure (s, "none")
    | .unmodelled => none
  | ["d", k, seq, pl] => do
    -- the seq field is the attribute text: plain when it is a canonical numeral, else x<hex>
    let k ← parseBool k; let b ← parseBody pl
    let a ← parseSeqField seq
    let r := recvBody std s ⟨k, a, b⟩
    pure (r.1, showReply r.2)
  | ["c"] => some (close s, "c")
  | ["x"] => some (s, showReply (closeRequest s false).2)  -- a <close/> from somebody who is not the stream's peer
  | ["h"] => some (closeBegin (IbbClose.receivesWhileWaiting IbbClose.closeProgram) s, "h")
  | ["b", n, bs] => do
    -- SetReadBuffer(n) on a connection with block size bs
    let n ← n.toNat?; let bs ← bs.toNat?
    pure (setMax s n bs, "b")
  | ["r", n] => do
    let n ← n.toNat?
    match readOut s n with
    | .data b => pure ((Ibb.read s n).1, "D" ++ hexEncode b)
    | .eof => pure (s, "EOF")
    | .blocks => pure (s, "BLOCK")
  | _ => none

def runOps : RState → List String → Option (List String)
  | _, [] => some []
  | s, o :: os => do
    let r ← applyOp s o
    let rest ← runOps r.1 os
    pure (r.2 :: rest)

def parsePacket (f : String) : Option Packet :=
  match f.splitOn ":" with
  | [seq, k, pl] => do
    let n ← seq.toNat?; let k ← parseBool k; let b ← hexDecode pl
    pure ⟨k, n, b⟩
  | _ => none

/-- `C15 reader <acts>`: replay of a forced reader schedule on the LTS of `Model/IbbReader.lean`
(repaired code).  acts `,`-joined: R Read called, W reader enters its wait, K the wait completes,
P<n> a packet of n bytes is handled, C close.  answer: `delivered=<n> eof=<0|1> reading=<0|1>` -/
def readerTok (s : IbbReader.St) (t : String) : Option IbbReader.St :=
  match t.toList with
  | ['R'] => IbbReader.step true s .readStart
  | ['W'] => IbbReader.step true s .enterWait
  | ['K'] => IbbReader.step true s .wake
  | ['C'] => IbbReader.step true s .close
  | 'P' :: r => do let n ← (String.ofList r).toNat?; IbbReader.step true s (.packet n)
  | _ => none

def readerRun : IbbReader.St → List String → Nat → Except String IbbReader.St
  | s, [], _ => .ok s
  | s, t :: ts, k => match readerTok s t with
    | some s' => readerRun s' ts (k + 1)
    | none => .error s!"bad@{k}:{t}"

/-- `C15 pack <bs> <ops>`: the executable packetiser.  ops `,`-joined: w:<hex> Write, f Flush,
C Close.  answer: the data stanzas `<seq>:1:<payloadhex>` `,`-joined (`-` if none) -/
def parseSOp (t : String) : Option SOp :=
  match t.splitOn ":" with
  | ["w", h] => (hexDecode h).map SOp.write
  | ["f"] => some .flush
  | ["C"] => some .close
  | _ => none

def showPacket (p : Packet) : String := s!"{p.seq}:{showBool p.known}:{hexEncode p.payload}"

/-- `C15 lsn <ops>`: listener life cycle.  ops `,`-joined: L Listen, K Listener.Close, A Accept
called, O<sid> incoming open request, E<sid> Expect called for that sid, X its context ends.  answer per op: `l` / `k` / `a` / `res` | `na` | `wait`
(the serve loop is still inside the previous hand-off), each followed by `+c` / `+e` for every
Accept call that returns a connection / an error at that point -/
def lsnRun : LState → List String → Option (List String)
  | _, [] => some []
  | s, t :: ts => do
    let (op, tag) ← match t.toList with
      | ['L'] => some (LOp.listen, "l")
      | ['K'] => some (LOp.closeL, "k")
      | ['A'] => some (LOp.accept, "a")
      | 'O' :: r => (String.ofList r).toNat?.map fun n => (LOp.open n, "o")
      | 'E' :: r => (String.ofList r).toNat?.map fun n => (LOp.expect n, "e")
      | ['X'] => some (LOp.cancelExpect, "x")
      | _ => none
    let o := lstep s op
    let base := match op, o.reply with
      | .open _, some true => "res"
      | .open _, some false => "na"
      | .open _, none => "wait"
      | _, _ => tag
    let suffix := String.join (List.replicate o.conns "+c") ++ String.join (List.replicate o.errs "+e") ++
      (if o.xconn then "+xc" else "") ++ (if o.xerr then "+xe" else "")
    let rest ← lsnRun o.st ts
    pure ((base ++ suffix) :: rest)

/-- `C15 readers <k> <events>`: k goroutines are parked in `Read` on an empty stream (each between
its empty check and its wait), then the events happen (`,`-joined: P<n> a packet of n bytes, C a
close by either side), then the readers run until none of them can move.
answer: `returned=<r> delivered=<bytes> eofs=<m>` -/
def readersExhaust (k : Nat) : Nat → IbbReaders.St → IbbReaders.St
  | 0, s => s
  | fuel + 1, s =>
    let acts := (List.range k).flatMap fun i => [IbbReaders.Act.enterWait i, .wake i, .recheck i]
    match acts.findSome? (fun a => IbbReaders.step true s a) with
    | some s' => readersExhaust k fuel s'
    | none => s

def readersEvent (s : IbbReaders.St) (t : String) : Option IbbReaders.St :=
  match t.toList with
  | ['C'] => IbbReaders.step true s .close
  | 'P' :: r => do let n ← (String.ofList r).toNat?; IbbReaders.step true s (.packet n)
  | _ => none

/-- `C15 multi <ops>`: several streams on one Handler.  ops `,`-joined: o<sid> / O<sid> a stream with that
sid is opened by the peer / by us and accepted (connections are numbered 0,1,… in this order), d<sid>:<seq>:<payload>
the peer's data packet, c<sid> the peer's close, C<h> local Close of connection h, r<h>:<n> Read on
connection h.  answer per op: o / reply / c|inf / c / D<hex>|EOF|BLOCK -/
def parseHOp (t : String) : Option HOp :=
  match t.splitOn ":" with
  | [hd] =>
    match hd.toList with
    | 'o' :: r => (String.ofList r).toNat?.map HOp.open
    | 'O' :: r => (String.ofList r).toNat?.map HOp.open
    | 'c' :: r => (String.ofList r).toNat?.map HOp.closeSid
    | 'C' :: r => (String.ofList r).toNat?.map HOp.closeLocal
    | _ => none
  | [hd, n] =>
    match hd.toList with
    | 'r' :: r => do let h ← (String.ofList r).toNat?; let n ← n.toNat?; pure (HOp.read h n)
    | _ => none
  | [hd, seq, pl] =>
    match hd.toList with
    | 'd' :: r => do
      let sid ← (String.ofList r).toNat?; let a ← parseSeqField seq; let b ← parseBody pl
      pure (HOp.data sid a (bodyText b))
    | _ => none
  | _ => none

def showHObs : HOp → HObs → String
  | _, .opened _ => "o"
  | _, .refused => "na"
  | .closeSid _, .reply .ack => "c"
  | _, .reply r => showReply r
  | _, .closed => "c"
  | .read _ n, .read (.data b) => "D" ++ hexEncode (b.take n)
  | _, .read (.data b) => "D" ++ hexEncode b
  | _, .read .eof => "EOF"
  | _, .read .blocks => "BLOCK"

def handle (args : List String) : Option String :=
  match args with
  | ["multi", ops] => do
    let os ← mapM? parseHOp (splitList ops)
    let r := hrun std {} os
    pure (joinList (List.zipWith showHObs os r.2))
  | ["recv", maxbuf, ops] => do
    let m ← maxbuf.toNat?
    let r ← runOps ⟨true, 0, [], m⟩ (splitList ops)
    pure (joinList r)
  | ["reader", acts] =>
    match readerRun IbbReader.init (splitList acts) 0 with
    | .ok s => some s!"delivered={s.delivered} eof={showBool s.eof} reading={showBool (s.rpc != .idle)}"
    | .error e => some e
  | ["pack", bs, ops] => do
    let b ← bs.toNat?
    let os ← mapM? parseSOp (splitList ops)
    pure (joinList ((mkPackets 0 (srun (sinit b) os).chunks).map showPacket))
  | ["readers", k, events] => do
    let k ← k.toNat?
    let s0 ← (List.range k).foldlM (fun s i => IbbReaders.step true s (.readStart i)) ({} : IbbReaders.St)
    let s1 ← (splitList events).foldlM readersEvent s0
    let s := readersExhaust k (8 * k + 8) s1
    let returned := ((List.range k).filter fun i => s.rpc i == .idle).length
    pure s!"returned={returned} delivered={s.delivered} eofs={s.eofs}"
  | ["lsn", ops] => (lsnRun {} (splitList ops)).map joinList
  | ["close", fault] =>
    -- C15 close <none|flush|send|reply|deadline>: Close with a fault at that step, then Read and a
    -- late data packet.  answer: ret=<ok|err> read=<EOF|BLOCK> data=<inf|ack>
    (IbbClose.closeOutcome fault).map fun (ret, rd, d) => s!"ret={ret} read={rd} data={d}"
  | ["open", acc] => do
    let a ← parseBool acc
    pure (if (openResult a).isSome then "conn" else "err")
  | ["recvfrom", start, maxbuf, ops] => do
    -- a receiver that has accepted `start` packets (C15_deliver: its counter is start mod 65536)
    let st ← start.toNat?; let m ← maxbuf.toNat?
    let r ← runOps ⟨true, st % 65536, [], m⟩ (splitList ops)
    pure (joinList r)
  | ["emit", closed, written, packets] => do
    let c ← parseBool closed; let w ← hexDecode written
    let ps ← mapM? parsePacket (splitList packets)
    pure (if emits std w c ps then "ok" else "bad")
  | _ => none

end XmppModel.Driver.C15
