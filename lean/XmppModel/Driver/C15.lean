import XmppModel.Prelude.Hex
import XmppModel.Model.Ibb
/-! Driver module for C15.

    C15 recv <maxbuf> <ops>    ops `,`-joined:  d:<known>:<seq>:<payloadhex>  data packet
                                                c   the stream is closed (by either side)
                                                r:<n>   Read with a buffer of n bytes
       answer: one observation per op, `,`-joined: ack|inf|unx|bad|res  /  c  /  D<hex>|EOF|BLOCK
    C15 emit <closed> <writtenhex> <packets>    packets `,`-joined: <seq>:<known>:<payloadhex>
       answer: ok | bad      (the relation `emits` for the standard codec)
-/
namespace XmppModel.Driver.C15
open XmppModel XmppModel.Ibb

def showReply : Reply → String
  | .ack => "ack" | .itemNotFound => "inf" | .unexpectedRequest => "unx"
  | .badRequest => "bad" | .resourceConstraint => "res"

def applyOp (s : RState) (op : String) : Option (RState × String) :=
  match op.splitOn ":" with
  | ["d", k, seq, pl] => do
    let k ← parseBool k; let n ← seq.toNat?; let b ← hexDecode pl
    let r := recv std s ⟨k, n, b⟩
    pure (r.1, showReply r.2)
  | ["c"] => some (close s, "c")
  | ["r", n] => do
    let n ← n.toNat?
    match readOut s n with
    | .data b => pure ((Ibb.read s n).1, "D" ++ hexEncode b)
    | .eof => pure (s, "EOF")
    | .blocks => pure (s, "BLOCK")
  | _ => none

def runOps : RState → List String → Option (List String)
  | _, [] => some []
  | s, o :: os => do
    let r ← applyOp s o
    let rest ← runOps r.1 os
    pure (r.2 :: rest)

def parsePacket (f : String) : Option Packet :=
  match f.splitOn ":" with
  | [seq, k, pl] => do
    let n ← seq.toNat?; let k ← parseBool k; let b ← hexDecode pl
    pure ⟨k, n, b⟩
  | _ => none

def handle (args : List String) : Option String :=
  match args with
  | ["recv", maxbuf, ops] => do
    let m ← maxbuf.toNat?
    let r ← runOps ⟨true, 0, [], m⟩ (splitList ops)
    pure (joinList r)
  | ["open", acc] => do
    let a ← parseBool acc
    pure (if (openResult a).isSome then "conn" else "err")
  | ["emit", closed, written, packets] => do
    let c ← parseBool closed; let w ← hexDecode written
    let ps ← mapM? parsePacket (splitList packets)
    pure (if emits std w c ps then "ok" else "bad")
  | _ => none

end XmppModel.Driver.C15
