import XmppModel.Prelude.Hex
import XmppModel.Prelude.Xml
import XmppModel.Model.Stanza
import XmppModel.Model.Encoder
import XmppModel.Model.Header
/-! Driver for C13 (see harness/c13 for the line protocol).  All text fields hex (`-` empty).

    start <kind> <space> <id> <to> <from> <lang> <typ>          -> start token
    mstart <kind> <space> <id> <to> <from> <lang> <typ>         -> start token printed by xml.Marshal
    rnew <kind> <tok> <v=j,…>                                   -> like new, for xml.Unmarshal (reflection)
    new <kind> <tok> <v=j,…>                                    -> ok <space> <loc> <id> <to> <from> <lang> <typ> | err
    wrap <kind> <6 fields> <payload>                            -> tokens
    result <6 fields> <payload>                                 -> tokens
    error <kind> <6 fields> <by> <typ> <cond> <texts>           -> tokens
    serr <by> <typ> <cond> <lang=text,…> <payload>              -> tokens
    sdec <toks> <v=j,…>                                         -> ok <by> <typ> <cond> <texts> | err
    sterr <err> <content> <texts> <payload>                     -> tokens
    stdec <toks>                                                -> ok <err> <content> <texts> | err
    wire <toks>                                                 -> tokens after printing and re-parsing | unbalanced
    uerr <toks after the stanza's start> <v=j,…>                -> ok <by> <typ> <cond> <texts> | bad | missing
-/
namespace XmppModel.Driver.C13
open XmppModel XmppModel.Xml XmppModel.Stanza

def parseKind : String → Option Kind
  | "iq" => some .iq | "message" => some .message | "presence" => some .presence | _ => none

def hx (s : String) : String := hexEncodeStr s

/-- tokens are printed with sorted attributes (order carries no meaning) -/
def showToks (ts : List Tok) : String := encToks (Encoder.normAttrs ts)

/-- `v=j` pairs (hex); `j` = `!` for a parse error -/
def parseTable (s : String) : Option (List (String × Option String)) :=
  mapM? (fun (p : String) =>
    match p.splitOn "=" with
    | [a, b] => do
      let v ← hexDecodeStr a
      if b == "!" then pure (v, none) else do
        let j ← hexDecodeStr b
        pure (v, some j)
    | _ => none) (splitList s)

def lookup (t : List (String × Option String)) (v : String) : Option String :=
  match t.find? (·.1 == v) with
  | some (_, r) => r
  | none => none

def parseTexts (s : String) : Option (List (String × String)) :=
  mapM? (fun (p : String) =>
    match p.splitOn "=" with
    | [a, b] => do
      let l ← hexDecodeStr a
      let t ← hexDecodeStr b
      pure (l, t)
    | _ => none) (splitList s)

def showTexts (l : List (String × String)) : String :=
  joinList (l.map fun p => s!"{hx p.1}={hx p.2}")

def mkStz (sp id to fr lang typ : String) : Option Stz := do
  let sp ← hexDecodeStr sp; let id ← hexDecodeStr id; let to ← hexDecodeStr to
  let fr ← hexDecodeStr fr; let lang ← hexDecodeStr lang; let typ ← hexDecodeStr typ
  pure ⟨⟨sp, ""⟩, id, to, fr, lang, typ⟩

def handle (args : List String) : Option String :=
  match args with
  -- a text field after a trip through the encoder and the decoder: code points XML cannot carry
  -- arrive as U+FFFD (`Header.fixChar`, the substitution of `xml.EscapeText`)
  | ["fix", t] => do
    let t ← hexDecodeStr t
    pure (let o := String.ofList (t.toList.map XmppModel.Header.fixChar); if o.isEmpty then "-" else hexEncodeStr o)
  | ["start", k, sp, id, to, fr, lang, typ] => do
    let k ← parseKind k; let x ← mkStz sp id to fr lang typ
    pure (showToks [startElement k x])
  | ["mstart", k, sp, id, to, fr, lang, typ] => do
    let k ← parseKind k; let x ← mkStz sp id to fr lang typ
    pure (showToks [.start (marshalName k) (marshalAttrs k x)])
  | ["rnew", k, tok, table] => do
    let k ← parseKind k; let t ← decTok tok; let tb ← parseTable table
    match t with
    | .start n as =>
      match reflectNew (lookup tb) k n as with
      | some v => pure s!"ok {hx v.name.space} {hx v.name.loc} {hx v.id} {hx v.to} {hx v.from_} {hx v.lang} {hx v.typ}"
      | none => pure "err"
    | _ => none
  | ["new", k, tok, table] => do
    let k ← parseKind k; let t ← decTok tok; let tb ← parseTable table
    match t with
    | .start n as =>
      match newStz (lookup tb) k n as with
      | some v => pure s!"ok {hx v.name.space} {hx v.name.loc} {hx v.id} {hx v.to} {hx v.from_} {hx v.lang} {hx v.typ}"
      | none => pure "err"
    | _ => none
  | ["wrap", k, sp, id, to, fr, lang, typ, payload] => do
    let k ← parseKind k; let x ← mkStz sp id to fr lang typ; let p ← decToks payload
    pure (showToks (wrap k x p))
  | ["result", sp, id, to, fr, lang, typ, payload] => do
    let x ← mkStz sp id to fr lang typ; let p ← decToks payload
    pure (showToks (result x p))
  | ["error", k, sp, id, to, fr, lang, typ, by_, etyp, cond, texts] => do
    let k ← parseKind k; let x ← mkStz sp id to fr lang typ
    let b ← hexDecodeStr by_; let et ← hexDecodeStr etyp; let c ← hexDecodeStr cond; let tx ← parseTexts texts
    pure (showToks (errorReply k x ⟨b, et, c, tx⟩))
  | ["serr", by_, etyp, cond, texts, payload] => do
    let b ← hexDecodeStr by_; let et ← hexDecodeStr etyp; let c ← hexDecodeStr cond; let tx ← parseTexts texts
    let p ← decToks payload
    pure (showToks (errTokens ⟨b, et, c, tx⟩ p))
  | ["sdec", toks, table] => do
    let ts ← decToks toks; let tb ← parseTable table
    match decodeErr (lookup tb) ts with
    | some e => pure s!"ok {hx e.by_} {hx e.typ} {hx e.cond} {showTexts e.texts}"
    | none => pure "err"
  | ["sterr", err, content, texts, payload] => do
    let e ← hexDecodeStr err; let c ← hexDecodeStr content; let tx ← parseTexts texts; let p ← decToks payload
    pure (showToks (streamErrTokens ⟨e, tx, c⟩ p))
  | ["multi", _fn, k, order, _seed] => do
    -- k readers made before any is read, drained in the given order: own tokens each
    let n ← k.toNat?
    let ord ← mapM? (fun (x : String) => x.toNat?) (splitList order)
    let vs : List (List Tok) := (List.range n).map fun i => [Tok.chars (toString i)]
    let got := Stanza.Readers.drainAll false (Stanza.Readers.makeAll false Stanza.Readers.init vs) ord
    let obs := (ord.zip got).map fun (p : Nat × List Tok) =>
      if p.2 == vs.getD p.1 [] then "own" else if p.2.isEmpty then "empty" else "foreign"
    pure (joinList obs)
  | ["wire", toks] => do
    let ts ← decToks toks
    match wire ts with
    | some w => pure (showToks w)
    | none => pure "unbalanced"
  | ["uerr", toks, table] => do
    let ts ← decToks toks; let tb ← parseTable table
    match unmarshalError (lookup tb) ts with
    | .ok e => pure s!"ok {hx e.by_} {hx e.typ} {hx e.cond} {showTexts e.texts}"
    | .bad => pure "bad"
    | .missing => pure "missing"
  | ["stdec", toks] => do
    let ts ← decToks toks
    match decodeStreamErr ts with
    | some e => pure s!"ok {hx e.err} {hx e.content} {showTexts e.texts}"
    | none => pure "err"
  | _ => none

end XmppModel.Driver.C13
