import XmppModel.Prelude.Hex
import XmppModel.Model.ServeProto
/-! Driver for C08 (see harness/c08 and Model/ServeProto.lean for the line protocol). -/
namespace XmppModel.Driver.C08
open XmppModel XmppModel.Serve

def handle (args : List String) : Option String :=
  match args with
  | "serve" :: rest => do
    let o ← handleServe rest
    pure s!"{encInvs o.invs} {encWritten o.written} {encStop o.result}"
  | "servex" :: rest => do
    let o ← handleServeX rest
    pure s!"{encInvs o.invs} {encWritten o.written} {encStop o.result}"
  -- `servepw <ns> <localBare> <jidmap> <pending> <waiter reads> <toks> <progs>`: local requests are
  -- pending; how much of a response its waiter reads before it closes it plays no role
  | "servepw" :: ns :: lb :: jm :: pd :: _ :: rest => do
    let o ← handleServeP (ns :: lb :: jm :: pd :: rest)
    let dl := if o.delivered.isEmpty then "-" else ",".intercalate (o.delivered.map XmppModel.Xml.hexF)
    pure s!"{encInvs o.out.invs} {encWritten o.out.written} {encStop o.out.result} {dl}"
  | ["header", toks] => do
    let toks ← XmppModel.Xml.decToks toks
    pure (expectHeader toks)
  | _ => none

end XmppModel.Driver.C08
