import XmppModel.Prelude.Hex
import XmppModel.Model.ServeProto
/-! Driver for C08 (see harness/c08 and Model/ServeProto.lean for the line protocol). -/
namespace XmppModel.Driver.C08
open XmppModel XmppModel.Serve

def handle (args : List String) : Option String :=
  match args with
  | "serve" :: rest => do
    let o ← handleServe rest
    pure s!"{encInvs o.invs} {encWritten o.written} {encStop o.result}"
  | "servex" :: rest => do
    let o ← handleServeX rest
    pure s!"{encInvs o.invs} {encWritten o.written} {encStop o.result}"
  | ["header", toks] => do
    let toks ← XmppModel.Xml.decToks toks
    pure (expectHeader toks)
  | _ => none

end XmppModel.Driver.C08
