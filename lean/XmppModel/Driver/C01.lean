import XmppModel.Prelude.Hex
import XmppModel.Model.Negotiate
/-!
Driver for C01 / C04 (one negotiation model).  Line (fields after the property id):

    run <st0> <ws> <cfg> <script> <picks> <fault>

* `st0`     initial `SessionState`, decimal
* `ws`      flags: `0`/`1` WebSocket framing (ignored by the model: only the syntax of headers
            differs), `b` a read at the end of the script blocks, `t` the StreamConfig carries
            TeeIn/TeeOut (the model runs `stepT true`)
* `cfg`     `;`-joined features `ns.loc:nec:proh:negotiable:listReq:listErr:parseErr:mask:restart:negErr`
            (the last six fields are the scripted behaviour of the callbacks; an optional eleventh
            field `layer`: a restarting Negotiate returns a new connection layer; optional fields
            twelve and thirteen `cnec:cproh`: the stream config function returns the feature only
            for a session state with every bit of `cnec` and no bit of `cproh` — the model then
            runs `stepD`), `-` = none
* `script`  `;`-joined peer items: `H1`/`H0` header good/bad, `Hx` a good header of the other
            framing (`<open/>` on TCP, `<stream:stream>` on WebSocket), `A<i,i,…>` features list with
            items `ns.loc.req` or `J` (character data), `Ens.loc.iq.payload` another element,
            `X` stream error, `T` a token that is not a start element; `-` = empty
* `picks`   `,`-joined names `ns.loc` of the `Negotiate` calls observed on the initiating side
* `fault`   `/`-separated parts: `-` none, `k` the k-th I/O operation fails, `k+` every operation from the k-th on,
            `Cn` the context is cancelled when `n` events have happened (counting the model's
            events that are printed), `CB` it is cancelled as soon as an operation blocks,
            `Hk` the k-th I/O operation blocks (returns only when its deadline passes), `Bk` = `CB/Hk`

Answer: `<events> <outcome> <state>`; events `,`-joined in order (`-` if none): `Wh` header
written, `R` a read that delivered an item, `Re` read at end of input, `R!`/`Wh!`/`Wl!` failed
operation, `Lns.loc@st` List, `Pns.loc@st` Parse, `Nns.loc@st` Negotiate, `Wl[a+b]` features
list written, `Wp` unfinished list flushed after a failed `List`; outcome `done`, `fail:<class>`, `stuck`, `fuel`.
-/
namespace XmppModel.Driver.C01
open XmppModel XmppModel.Negotiate

structure Beh where
  f : Feature
  listReq : Bool
  listErr : Bool
  parseErr : Bool
  mask : St
  restart : Bool
  negErr : Bool
  /-- a restarting `Negotiate` returns a new connection layer, not the session's connection -/
  layer : Bool := false
  /-- the stream config function returns the feature only for sessions whose state has every bit
  of `cnec` and no bit of `cproh` -/
  cnec : St := 0
  cproh : St := 0

def Beh.configured (b : Beh) (st : St) : Bool := (st &&& b.cnec == b.cnec) && (st &&& b.cproh == 0)

def parseName (s : String) : Option FName :=
  match s.splitOn "." with
  | [a, b] => do pure ⟨← a.toNat?, ← b.toNat?⟩
  | _ => none

def parseSt (s : String) : Option St := do
  let n ← s.toNat?
  if n < 256 then pure (BitVec.ofNat 8 n) else none

def parseBeh (idx : Nat) (s : String) : Option Beh :=
  match s.splitOn ":" with
  | [n, nec, proh, ng, lr, le, pe, m, rs, ne] => do
    let name ← parseName n
    pure { f := ⟨idx, name, ← parseSt nec, ← parseSt proh, ← parseBool ng⟩, listReq := ← parseBool lr,
           listErr := ← parseBool le, parseErr := ← parseBool pe, mask := ← parseSt m,
           restart := ← parseBool rs, negErr := ← parseBool ne }
  | [n, nec, proh, ng, lr, le, pe, m, rs, ne, ly] => do
    let name ← parseName n
    pure { f := ⟨idx, name, ← parseSt nec, ← parseSt proh, ← parseBool ng⟩, listReq := ← parseBool lr,
           listErr := ← parseBool le, parseErr := ← parseBool pe, mask := ← parseSt m,
           restart := ← parseBool rs, negErr := ← parseBool ne, layer := ← parseBool ly }
  | [n, nec, proh, ng, lr, le, pe, m, rs, ne, ly, cn, cp] => do
    let name ← parseName n
    pure { f := ⟨idx, name, ← parseSt nec, ← parseSt proh, ← parseBool ng⟩, listReq := ← parseBool lr,
           listErr := ← parseBool le, parseErr := ← parseBool pe, mask := ← parseSt m,
           restart := ← parseBool rs, negErr := ← parseBool ne, layer := ← parseBool ly,
           cnec := ← parseSt cn, cproh := ← parseSt cp }
  | _ => none

def parseAdvItem (s : String) : Option AdvItem :=
  if s == "J" then some .junk else
  match s.splitOn "." with
  | [a, b, r] => do pure (.feat ⟨← a.toNat?, ← b.toNat?⟩ (← parseBool r))
  | _ => none

def parsePeer (s : String) : Option Peer :=
  if s == "H1" then some (.hdr true)
  else if s == "H0" then some (.hdr false)
  else if s == "Hx" then some .hdrOther
  else if s == "X" then some .serr
  else if s == "T" then some .nonStart
  else if s.startsWith "A" then do
    let rest := (s.drop 1).toString
    let items ← if rest.isEmpty then some [] else mapM? parseAdvItem (rest.splitOn ",")
    pure (.adv items)
  else if s.startsWith "E" then
    match ((s.drop 1).toString).splitOn "." with
    | [a, b, iq, p] => do pure (.elem ⟨← a.toNat?, ← b.toNat?⟩ (← parseBool iq) (← parseBool p))
    | _ => none
  else none

/-- what the `fault` field of a line describes -/
structure FaultSpec where
  fault : Nat → Bool := fun _ => false
  cancel : List Ev → Bool := fun _ => false
  block : Nat → Bool := fun _ => false

def isBlockedEv : Ev → Bool
  | .blocked _ => true
  | _ => false

/-- the scripted callbacks: behaviour is looked up by feature name (first match, like the
configuration the harness builds); an unknown feature never reaches a callback -/
def mkOracle (bs : List Beh) (fs : FaultSpec) : Oracle :=
  let look (f : Feature) : Option Beh := bs.find? (fun b => b.f.id == f.id)
  { neg := fun _ f _ => match look f with
      | some b => ⟨b.mask, b.restart, b.negErr⟩
      | none => ⟨0, false, true⟩
    list := fun _ f _ => match look f with
      | some b => ⟨b.listReq, b.listErr⟩
      | none => ⟨false, true⟩
    parseErr := fun _ f _ => match look f with
      | some b => b.parseErr
      | none => true
    fault := fs.fault
    cancel := fs.cancel
    block := fs.block
    -- `setDeadline` moves both deadlines (fact `C04_gen_deadline`)
    dlRd := true
    dlWr := true
    layer := fun _ f => match look f with
      | some b => b.layer
      | none => false }

def showName (n : FName) : String := s!"{n.ns}.{n.loc}"

def showEv : Ev → Option String
  | .hdrOut true => some "Wh"
  | .hdrOut false => some "Wh!"
  | .rd _ .got => some "R"
  | .rd _ .eof => some "Re"
  | .rd _ .fault => some "R!"
  | .listCall f st _ => some s!"L{showName f.name}@{st.toNat}"
  | .listOut _ fs true => some ("Wl[" ++ "+".intercalate (fs.map fun f => showName f.name) ++ "]")
  | .listOut _ _ false => some "Wl!"
  | .listAbort true => some "Wp"
  | .listAbort false => some "Wp!"
  | .parse f st _ _ => some s!"P{showName f.name}@{st.toNat}"
  | .listIn _ _ _ _ => none
  | .neg f st _ _ _ _ => some s!"N{showName f.name}@{st.toNat}"
  | .refuse _ => none
  | .blocked op => some (if op.wr then "Wb" else "Rb")

/-- one `/`-separated part: `k` / `k+` failing operations, `Cn` cancel after `n` printed events,
`CB` cancel as soon as an operation is blocked, `Hk` operation `k` blocks, `Bk` = `CB/Hk` -/
def parsePart (fs : FaultSpec) (s : String) : Option FaultSpec :=
  if s == "-" then some fs
  else if s == "CB" then some { fs with cancel := fun tr => tr.any isBlockedEv }
  else if s.startsWith "C" then do
    let k ← ((s.drop 1).toString).toNat?
    pure { fs with cancel := fun tr => decide (k ≤ (tr.filterMap showEv).length) }
  else if s.startsWith "H" then do
    let k ← ((s.drop 1).toString).toNat?
    pure { fs with block := fun i => i == k }
  else if s.startsWith "B" then do
    let k ← ((s.drop 1).toString).toNat?
    pure { fs with block := fun i => i == k, cancel := fun tr => tr.any isBlockedEv }
  else if s.endsWith "+" then do
    let k ← ((s.dropEnd 1).toString).toNat?
    pure { fs with fault := fun i => decide (k ≤ i) }
  else do
    let k ← s.toNat?
    pure { fs with fault := fun i => i == k }

def parseFault (s : String) : Option FaultSpec :=
  (s.splitOn "/").foldlM parsePart {}

def showCls : ErrCls → String
  | .io => "io" | .cb => "cb" | .policy => "policy" | .streamErr => "streamerr" | .proto => "proto"

def showOutcome : Pc → String
  | .done => "done"
  | .fail c => "fail:" ++ showCls c
  | .stuck => "stuck"
  | .crash => "PANIC"
  | .hung _ => "STALL"
  | _ => "fuel"

/-- `run` that stops stepping once a final control point is reached (final points are
fixed points of `step`; `Lemmas/NegotiateDriver.lean: runFast_eq_run`, restated as
`C01_driver_runs_model`) -/
def runFast (C : List Feature) (O : Oracle) : Nat → Conf → Conf
  | 0, c => c
  | n + 1, c => if c.pc.final then c else runFast C O n (step C O c)

/-- the same loop for a session configured with a tee (`stepT`) -/
def runFastT (tee : Bool) (C : List Feature) (O : Oracle) : Nat → TConf → TConf
  | 0, t => t
  | n + 1, t => if t.c.pc.final && t.c.pc != .tee then t else runFastT tee C O n (stepT tee C O t)

/-- the loops for a stream config function that looks at the session (`stepD` / `stepDT`) -/
def runFastD (F : St → List Feature) (O : Oracle) : Nat → DConf → DConf
  | 0, d => d
  | n + 1, d => if d.c.pc.final then d else runFastD F O n (stepD F O d)

def runFastDT (tee : Bool) (F : St → List Feature) (O : Oracle) : Nat → DTConf → DTConf
  | 0, d => d
  | n + 1, d => if d.t.c.pc.final && d.t.c.pc != .tee then d else runFastDT tee F O n (stepDT tee F O d)

def advLen : Peer → Nat
  | .adv items => items.length + 1
  | _ => 1

/-- the bound of `C01_terminates` (Props/C01.lean): enough steps to reach a final point -/
def fuelFor (C : List Feature) (script : List Peer) (picks : List FName) : Nat :=
  (50 + C.length) * (script.map advLen).sum + picks.length + (28 + C.length)

def handle (args : List String) : Option String :=
  match args with
  | ["run", st0, flags, cfg, script, picks, fault] => do
    let st0 ← parseSt st0
    let bs ← mapM? (fun (p : String × Nat) => parseBeh p.2 p.1) (splitList cfg ';').zipIdx
    let sc ← mapM? parsePeer (splitList script ';')
    let pk ← mapM? parseName (splitList picks ',')
    let fl ← parseFault fault
    let C := bs.map (·.f)
    let tee := flags.contains 't'
    -- `r`: the transport is a plain io.ReadWriter without deadlines: the watcher moves nothing
    let raw := flags.contains 'r'
    let O := { mkOracle bs fl with dlRd := !raw, dlWr := !raw }
    -- features with a thirteenth field: the config function looks at the session
    let dyn := bs.any fun b => b.cnec != 0 || b.cproh != 0
    let F : St → List Feature := fun st => (bs.filter (·.configured st)).map (·.f)
    let c := if dyn then
               (if tee then (runFastDT true F O (fuelFor C sc pk + 4 * (sc.length + 2)) ⟨⟨init st0 sc pk, false⟩, F st0⟩).t.c
                else (runFastD F O (fuelFor C sc pk) (initD F st0 sc pk)).c)
             else if tee then (runFastT true C O (fuelFor C sc pk + 4 * (sc.length + 2)) ⟨init st0 sc pk, false⟩).c
             else runFast C O (fuelFor C sc pk) (init st0 sc pk)
    let evs := c.tr.reverse.filterMap showEv
    pure s!"{joinList evs} {showOutcome c.pc} {c.st.toNat}"
  | _ => none

end XmppModel.Driver.C01
