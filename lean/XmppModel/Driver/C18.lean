import XmppModel.Prelude.Hex
import XmppModel.Model.Muc
/-! Driver module for C18: replays an observed MUC history on the LTS of `Model/Muc.lean`.

    C18 muc <addrs> <trace>      addrs: occupant address id of channel 0,1,… (`,`-joined)
      J<c> Join starts (registered, request queued); J<c>@<a> the same with the Nick option (address a);
        a trailing `!` (J<c>!, J<c>@<a>!, L<c>!): through JoinPresence / LeavePresence with the caller's presence
      s<c> Join enters its select   R<c>re Join refused at once (address in use by another channel)
      A<a> / U<a> available / unavailable muc#user presence from address a processed; optional payload
        suffix `:<aff><role><codes><flags>` (harness/c18/payload.go), default member / participant / 110
      Ej<c> error reply to c's join presence taken   Xj<c> join context done and taken
      R<c>ok | R<c>se | R<c>ce   Join returned nil / the stanza error / the context error
      L<c> Leave starts   l<c> Leave enters its select   El<c> / Xl<c> error reply / cancel
      D<c>ok | D<c>se | D<c>ce   Leave returned
      I mediated invitation   N unrelated stanza   ?<bits> Joined() of every channel
      =<a0>.<a1>… Me() of every channel (emitted when it changed)
      %c | %s | %a  (first token, optional) stanza namespace of the session: jabber:client (default),
        jabber:server, jabber:component:accept; following flags: `n` (%cn …) a Client without callbacks,
        `l` callbacks assigned after registration with the multiplexer, `m` one Client serving two sessions
      Ej<c>:<shape> / El<c>:<shape>  the error reply with the given children (harness/c18/reply.go):
        x echoed muc x, w white space, p echoed <priority/>, s echoed <status/>, then the error element
        (e b n a m t g: forms of the error; its namespace is the session's)
      K<c> | K<c>@<a>  a (further) Join call of channel c whose context is already over: it gives up before
        its hand-off request is queued;  R<c>xc | R<c>xr  it returned the context's error / ErrOccupantInUse
      J<c>~ (J<c>@<a>~) / L<c>~  the call is made while the connection refuses every write: the request
        cannot be sent;  R<c>oe / D<c>oe  Join / Leave returned an error that is neither the room's nor the context's
      form `0` of an error reply (Ej<c>:x0, El<c>:0 …): a type='error' presence WITHOUT an error element
      I<children>: every m / M / P child is one mediated invitation payload (several per message allowed)
    answer: `joined=<bits> upres=<n> inv=<n>` or `bad@n:tok`
-/
namespace XmppModel.Driver.C18
open XmppModel XmppModel.Muc

def numOf (cs : List Char) : Option Nat := (String.ofList cs).toNat?

def bits (n : Nat) (s : St) : String := String.ofList ((List.range n).map fun c => if s.joined c then '1' else '0')

def chk (b : Bool) (s : St) : Option St := if b then some s else none

def parseChild (c : Char) : Option Child :=
  if c = 'b' then some .body else if c = 's' then some .subject else if c = 'l' then some .legacyX
  else if c = 'u' then some .unrelated else if c = 'm' ∨ c = 'M' ∨ c = 'P' then some .mucInvite
  else if c = 'd' then some .mucOther else none

def affOfLetter (c : Char) : Option (Option String) :=
  if c = '-' then some none else if c = 'n' then some (some "none") else if c = 'o' then some (some "owner")
  else if c = 'a' then some (some "admin") else if c = 'm' then some (some "member")
  else if c = 'c' then some (some "outcast") else none

def roleOfLetter (c : Char) : Option (Option String) :=
  if c = '-' then some none else if c = 'n' then some (some "none") else if c = 'm' then some (some "moderator")
  else if c = 'p' then some (some "participant") else if c = 'v' then some (some "visitor") else none

/-- the payload suffix of a presence token: `<aff><role><codes><flags>`; the presence is one the
model's `avail` / `unavail` stand for iff its item decodes (status codes, extra children and
sibling payloads do not matter) -/
def payloadOk (p : List Char) : Bool :=
  match p with
  | a :: r :: rest =>
    match affOfLetter a, roleOfLetter r with
    | some aff, some role =>
      let flags := rest.dropWhile fun c => c.isDigit || c = '+'
      flags.all (fun c => c = 'r' || c = 'x' || c = 'd' || c = 'e' || c = 's' || c = 't') &&
        (flags.contains 'x' || (decodeItem ⟨aff, role⟩).isSome)
    | _, _ => false
  | _ => false

/-- `<a>` or `<a>:<payload>`: the address, and how often the handler runs for the presence — the
multiplexer calls it once per muc#user child (flag `t`: the payload stands twice) -/
def presAddr (r : List Char) : Option (Nat × Nat) :=
  match (String.ofList r).splitOn ":" with
  | [as] => as.toNat?.map fun a => (a, 1)
  | [as, p] => if payloadOk p.toList then as.toNat?.map fun a => (a, if p.toList.contains 't' then 2 else 1) else none
  | _ => none

def stepN (s : St) (a : Act) : Nat → Option St
  | 0 => some s
  | n + 1 => (step s a).bind fun s' => stepN s' a n

/-- configuration token: stanza namespace of the session, and whether the application has set the
callbacks (`n`: it has not — the bookkeeping is the same, nothing is called) -/
def cfgNs (tok : String) : Option (String × Bool) :=
  -- %<ns><flags>: n no callbacks; l callbacks assigned after the Client was registered with the
  -- multiplexer; m the Client serves two live sessions (channel c on session c%2).  Neither l nor m
  -- changes anything of the bookkeeping or of the callbacks: the registration table is keyed by the
  -- occupant address alone and the callback fields are read when a stanza is handled
  match tok.toList with
  | '%' :: k :: flags =>
    let ns := if k = 'c' then some nsClient else if k = 's' then some nsServer else if k = 'a' then some nsAccept else none
    if flags.all (fun c => c = 'n' || c = 'l' || c = 'm') && flags.length ≤ 3 then
      ns.map fun n => (n, !flags.contains 'n')
    else none
  | _ => none

/-- children of an error reply of the given shape on a stream whose stanza namespace is `ns` -/
def shapeChild (ns : String) (c : Char) : Option RChild :=
  if c = 'x' then some (.elem nsMuc "x") else if c = 'w' then some .text
  else if c = 'p' then some (.elem ns "priority") else if c = 's' then some (.elem ns "status")
  else if c = 'e' ∨ c = 'b' ∨ c = 'n' ∨ c = 'a' ∨ c = 'm' ∨ c = 't' ∨ c = 'g' then some (.elem ns "error")
  else none

/-- what the scan makes of the reply: `some true` the error element is found (it is the last child of
the shape): the model's `joinError` / `leaveError`; `some false` (form `0`: no error element) nothing is
found: `joinFail` / `leaveFail`; `none`: not a shape -/
def replyKind (ns : String) (shape : List Char) : Option Bool :=
  match shape.reverse with
  | '0' :: pre =>
    match mapM? (shapeChild ns) pre.reverse with
    | some cs => if (replyAct false 0 cs).isNone then some false else none
    | none => none
  | _ =>
    match mapM? (shapeChild ns) shape with
    | some cs => if cs.length > 0 && findError cs == some (cs.length - 1) && (replyAct false 0 cs).isSome then some true else none
    | none => none

/-- `<c>` or `<c>:<shape>`: the channel and whether the reply is a refusal -/
def replyChan (ns : String) (r : List Char) : Option (List Char × Bool) :=
  match (String.ofList r).splitOn ":" with
  | [cs] => some (cs.toList, true)
  | [cs, sh] => (replyKind ns sh.toList).map fun k => (cs.toList, k)
  | _ => none

def applyTok (ns : String) (n : Nat) (s : St) (tok : String) : Option St :=
  let idx (r : List Char) : Option Nat := do let c ← numOf r; if c < n then some c else none
  -- a trailing `!` on J / L: the call went through JoinPresence / LeavePresence with a presence of
  -- the caller's; the bookkeeping is the same
  let bang (r : List Char) : List Char := if r.getLast? = some '!' ∨ r.getLast? = some '~' then r.dropLast else r
  let faulty (r : List Char) : Bool := r.getLast? = some '~'
  -- a call made while the connection refuses every write: its request is never sent (`joinFail`)
  let after (r : List Char) (c : Nat) (s' : St) : Option St :=
    if faulty r ∧ s'.jpc c = .pending then step s' (.joinFail c) else some s'
  match tok.toList with
  | 'J' :: r =>
    -- J<c>: Join asking for the address the channel holds;  J<c>@<a>: Nick option, address a
    match (String.ofList (bang r)).splitOn "@" with
    | [cs] => do let c ← idx cs.toList; (step s (.joinStart c (s.cur c))).bind (after r c)
    | [cs, as] => do let c ← idx cs.toList; let a ← as.toNat?; (step s (.joinStart c a)).bind (after r c)
    | _ => none
  | 'K' :: r =>
    match (String.ofList r).splitOn "@" with
    | [cs] => do let c ← idx cs.toList; step s (.joinAbort c (s.cur c))
    | [cs, as] => do let c ← idx cs.toList; let a ← as.toNat?; step s (.joinAbort c a)
    | _ => none
  | 's' :: r => do let _ ← idx r; some s   -- entering the select is not a model step
  | 'A' :: r => do let (a, k) ← presAddr r; stepN s (.avail a) k
  | 'U' :: r => do let (a, k) ← presAddr r; stepN s (.unavail a) k
  | 'E' :: 'j' :: r => do
    let (cs, k) ← replyChan ns r
    let c ← idx cs
    step s (if k then .joinError c else .joinFail c)
  | 'X' :: 'j' :: r => do let c ← idx r; step s (.joinCancel c)
  | 'E' :: 'l' :: r => do let c ← ((replyChan ns r).map (·.1)).bind idx; chk (s.lpc c == .waiting) s
  | 'X' :: 'l' :: r => do let c ← idx r; chk (s.lpc c == .waiting) s
  | 'R' :: r =>
    let str := String.ofList r
    if str.endsWith "ok" then do
      let c ← (str.dropEnd 2).toString.toNat?
      chk (s.lastJoin c == some .ok && s.jpc c == .idle) s
    else if str.endsWith "re" then do
      let c ← (str.dropEnd 2).toString.toNat?
      chk (s.lastJoin c == some (.err .refused) && s.jpc c == .idle) s
    else if str.endsWith "se" then do
      let c ← (str.dropEnd 2).toString.toNat?
      let s' ← step s (.joinCleanup c)
      chk (s'.lastJoin c == some (.err .stanzaErr)) s'
    else if str.endsWith "ce" then do
      let c ← (str.dropEnd 2).toString.toNat?
      let s' ← step s (.joinCleanup c)
      chk (s'.lastJoin c == some (.err .ctxErr)) s'
    else if str.endsWith "oe" then do
      let c ← (str.dropEnd 2).toString.toNat?
      let s' ← step s (.joinCleanup c)
      chk (s'.lastJoin c == some (.err .other)) s'
    else if str.endsWith "xc" then do
      let c ← (str.dropEnd 2).toString.toNat?
      chk (s.lastAbort c == some (.err .ctxErr)) s
    else if str.endsWith "xr" then do
      let c ← (str.dropEnd 2).toString.toNat?
      chk (s.lastAbort c == some (.err .refused)) s
    else none
  | 'L' :: r => do let c ← idx (bang r); step s (.leaveStart c)
  | 'l' :: r => do let _ ← idx r; some s
  | 'D' :: r =>
    let str := String.ofList r
    if str.endsWith "ok" then do
      let c ← (str.dropEnd 2).toString.toNat?
      step s (.leaveDepart c)
    else if str.endsWith "se" then do
      let c ← (str.dropEnd 2).toString.toNat?
      step s (.leaveError c)
    else if str.endsWith "ce" then do
      let c ← (str.dropEnd 2).toString.toNat?
      step s (.leaveCancel c)
    else if str.endsWith "oe" then do
      let c ← (str.dropEnd 2).toString.toNat?
      step s (.leaveFail c)
    else none
  | 'I' :: r =>
    -- I<children>: b body, s subject, l legacy x, u unrelated, m / M muc#user x with an invitation, d decline
    (mapM? parseChild r).bind fun cs => step s (.message cs)
  | ['N'] => step s .unrelated
  | 'Z' :: _ => step s .unrelated   -- a late error reply to a join / leave that has already returned
  | '?' :: r => chk (String.ofList r == bits n s) s
  | '=' :: r => do
    -- Me() of every channel: the occupant address it holds
    let l ← mapM? String.toNat? ((String.ofList r).splitOn ".")
    chk (l == (List.range n).map s.cur) s
  | _ => none

/-- driver state: the model's state and, per channel, what the reply / fault that ends the waiting
`Leave` is (`some true`: the room's error was found, `some false`: send failure or a reply without an
error element) — the model's `leaveError` / `leaveFail` are taken when `Leave` returns, and must be the
one the reply calls for -/
structure DS where
  s : St
  lrep : Nat → Option Bool

def applyTokD (ns : String) (n : Nat) (d : DS) (tok : String) : Option DS :=
  let num (r : List Char) : Option Nat := do let c ← numOf r; if c < n then some c else none
  match tok.toList with
  | 'L' :: r => do
    let s' ← applyTok ns n d.s tok
    let c ← num (if r.getLast? = some '!' ∨ r.getLast? = some '~' then r.dropLast else r)
    some { s := s', lrep := upd d.lrep c (if r.getLast? = some '~' then some false else none) }
  | 'E' :: 'l' :: r => do
    let s' ← applyTok ns n d.s tok
    let (cs, k) ← replyChan ns r
    let c ← num cs
    some { s := s', lrep := upd d.lrep c (some k) }
  | 'D' :: r => do
    let str := String.ofList r
    let c ← (str.dropEnd 2).toString.toNat?
    if str.endsWith "se" ∧ d.lrep c ≠ some true then none
    else if str.endsWith "oe" ∧ d.lrep c ≠ some false then none
    else do let s' ← applyTok ns n d.s tok; some { d with s := s' }
  | _ => do let s' ← applyTok ns n d.s tok; some { d with s := s' }

def replay (ns : String) (n : Nat) : List String → Nat → DS → Except String St
  | [], _, d => .ok d.s
  | t :: ts, k, d => match applyTokD ns n d t with
    | some d' => replay ns n ts (k + 1) d'
    | none => .error s!"bad@{k}:{t}"

def handle (args : List String) : Option String :=
  match args with
  | ["muc", addrs, trace] => do
    let l ← mapM? String.toNat? (splitList addrs)
    let addr := fun c => match l[c]? with | some a => a | none => 100000 + c
    let toks := splitList trace
    let ((ns, cb), toks) := match toks with
      | t :: ts => (match cfgNs t with | some c => (c, ts) | none => ((nsClient, true), toks))
      | [] => ((nsClient, true), toks)
    match replay ns l.length toks 0 ⟨init addr, fun _ => none⟩ with
    | .ok s => pure s!"joined={bits l.length s} upres={if cb then s.upres else 0} inv={if cb then s.invites else 0}"
    | .error e => pure e
  -- the forced hand-off schedule (harness/c18/handoff.go) is judged by the oracle alone: the model's
  -- presence step is atomic, which is what the scenario checks of the code
  | ["handoff", _] => some "ok"
  | _ => none

end XmppModel.Driver.C18
