import XmppModel.Prelude.Hex
/-! Driver module for C03: `handle args` answers one protocol line (fields after the
property id); `none` means the line is not understood (`!bad-op`). -/
namespace XmppModel.Driver.C03

def handle (_args : List String) : Option String := none

end XmppModel.Driver.C03
