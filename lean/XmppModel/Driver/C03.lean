import XmppModel.Prelude.Hex
import XmppModel.Model.Sasl
import XmppModel.Model.SaslGate
/-! Driver module for C03 (line protocol: see harness/c03/c03.go). -/
namespace XmppModel.Driver.C03
open XmppModel XmppModel.Sasl

/-- mechanism names travel as themselves when made of `[A-Za-z0-9_.+-]` (and not `-`),
otherwise as `%` followed by the hex of their UTF-8 bytes -/
def plainNameChar (c : Char) : Bool :=
  c.isAlphanum || c = '_' || c = '.' || c = '+' || c = '-'

def encName (n : String) : String :=
  if n != "-" && !n.isEmpty && n.toList.all plainNameChar then n
  else "%" ++ (if n.isEmpty then "" else hexEncodeStr n)

def decName (f : String) : Option String :=
  if f.startsWith "%" then
    let h := (f.drop 1).toString
    if h.isEmpty then some "" else hexDecodeStr h
  else some f

def decNames (f : String) : Option (List String) := mapM? decName (splitList f)

def parsePayload (s : String) : Option Payload :=
  if s == "-" then some .empty
  else if s == "eq" then some .eq
  else if s == "sh" || s == "sh1" || s == "sh3" then some .short
  else if s == "bad" || s == "bad5" || s == "badp" then some .bad
  else if s.startsWith "bv" || s.startsWith "bd" then
    -- undecodable with a decodable prefix: the prefix plays no role
    match hexDecode (s.drop 2).toString with
    | some [] => none
    | some _ => some .bad
    | none => none
  else if s.startsWith "v" then
    match hexDecode (s.drop 1).toString with
    | some [] => none
    | some b => some (.valid b)
    | none => none
  else none

/-- `-` or `v<hex>` -/
def parseBytes (s : String) : Option Bytes :=
  if s == "-" then some []
  else if s.startsWith "v" then
    match hexDecode (s.drop 1).toString with
    | some [] => none
    | r => r
  else none

def showBytes (b : Bytes) : String := if b.isEmpty then "-" else "v" ++ hexEncode b

/-- responses and challenges are written as `=` when empty -/
def showEq (b : Bytes) : String := if b.isEmpty then "eq" else "v" ++ hexEncode b

def parseStep (s : String) : Option StepRes :=
  if s == "a" then some { kind := .authnErr }
  else if s == "e" then some { kind := .otherErr }
  else if s == "pe" then some { kind := .otherErr, panic := some .errorVal }
  else if s == "ps" then some { kind := .otherErr, panic := some .stringVal }
  else if s == "pv" then some { kind := .otherErr, panic := some .otherVal }
  else if s.startsWith "m" then (parseBytes (s.drop 1).toString).map fun b => { kind := .more, resp := b }
  else if s.startsWith "d" then (parseBytes (s.drop 1).toString).map fun b => { kind := .done, resp := b }
  else none

/-- the scripted mechanism: the k-th `Step` of a negotiator returns the k-th entry; past the
end of the script it fails (documented in the harness) -/
def scriptMech (script : List StepRes) (offset : Nat) : Mech := fun hist =>
  match script[hist.length - offset]? with
  | some r => r
  | none => { kind := .otherErr }

def parseCEv (s : String) : Option CEv :=
  if s == "f" then some (.failure .defined)
  else if s == "f0" then some (.failure .empty)
  else if s == "fu" then some (.failure .unknown)
  else if s == "ft" then some (.failure .textOnly)
  else if s == "fm" then some (.failure .several)
  else if s == "fn" then some (.failure .foreign)
  else if s == "fx" then some (.failure .malformed)
  else if s == "o" then some .other
  else if s == "n" then some .otherNs
  else if s == "w" then some .space
  else if s.startsWith "c" then (parsePayload (s.drop 1).toString).map .challenge
  else if s.startsWith "s" then (parsePayload (s.drop 1).toString).map .success
  else none

def parseSEv (s : String) : Option SEv :=
  if s == "B" then some .abort
  else if s == "F" || s == "F0" || s == "Fu" || s == "Ft" then some .failure
  else if s == "O" then some .other
  else if s == "N" then some .otherNs
  else if s == "W" then some .space
  else if s.startsWith "A" then
    match ((s.drop 1).toString).splitOn "/" with
    | [m, p] => do
      let name ← decName m
      let pl ← parsePayload p
      pure (.auth name pl)
    | _ => none
  else if s.startsWith "R" then (parsePayload (s.drop 1).toString).map .response
  else none

def showCSent : CSent → String
  | .auth m r => s!"auth/{encName m}/{showEq r}"
  | .response r => s!"resp/{showEq r}"

def showSSent : SSent → String
  | .challenge r => s!"chal/{showEq r}"
  | .success r => s!"succ/{showBytes r}"
  | .failure c => s!"fail/{c}"

def showPerm (p : PermCall) : String :=
  s!"{hexEncode p.user}/{hexEncode p.pass}/{hexEncode p.ident}={showBool p.verdict}"

def parsePerm (s : String) : Option (Bytes → Bytes → Bytes → Bool) :=
  if s == "none" then some fun _ _ _ => false
  else if s == "any" then some fun _ _ _ => true
  else match s.splitOn "/" with
    | [u, p] => do
      let u ← hexDecode u; let p ← hexDecode p
      pure fun user pass _ => user == u && pass == p
    | _ => none

/-- the mechanism behind the name PLAIN on the receiving side: the real one with the
permission callback of the case, which may be one that panics -/
def parsePlain (s : String) : Option Mech :=
  if s == "panic-e" then some (plainServerPanics .errorVal)
  else if s == "panic-s" then some (plainServerPanics .stringVal)
  else if s == "panic-v" then some (plainServerPanics .otherVal)
  else (parsePerm s).map plainServer

/-- which panics the implementation was seen to recover: three characters `0`/`1` for a
panic value that is an error, a string, anything else -/
def parsePol (s : String) : Option (PanicVal → Bool) :=
  match s.toList with
  | [a, b, c] =>
    if [a, b, c].all (fun x => x == '0' || x == '1') then
      some fun v => match v with
        | .errorVal => a == '1'
        | .stringVal => b == '1'
        | .otherVal => c == '1'
    else none
  | _ => none

def optNat (s : String) : Option (Option Nat) :=
  if s == "-" then some none else s.toNat?.map some

/-- when the initiator's context becomes done: `-` never; `k`: when the `k`-th peer element has
been delivered; `w<n>`: while the `n`-th SASL element (from 0: `<auth/>`) is being written — the
loop test that follows that write is number `n` -/
def cliCancel (s : String) : Option (Option Nat) :=
  if s.startsWith "w" then (s.drop 1).toString.toNat?.map some else optNat s

/-- at which iterations the implementation was seen to test the context: `0`/`1` for iterations
0, 1, …; the last character stands for all later iterations -/
def parseMask (s : String) : Option (Nat → Bool) :=
  let cs := s.toList
  if cs.isEmpty || !cs.all (fun x => x == '0' || x == '1') then none
  else some fun i => (cs[i]?).getD (cs.getLastD '0') == '1'

/-- the moment the context becomes done, as the harness brings it about, on the model's clock:
`F<j>` while element `j` is in flight (the first one: before the loop's first test; a later one:
after the top test of its iteration), `S<k>` inside the `k`-th `Step` (`k ≥ 1`), `W<w>` while the
`w`-th SASL element (from 0) is being written, `-` never -/
def parseWhen (s : String) : Option (Option Nat) :=
  if s == "-" then some none
  else do
    let n ← (s.drop 1).toString.toNat?
    if s.startsWith "F" then some (some (if n == 0 then 0 else 2 * n + 1))
    else if s.startsWith "S" then (if n == 0 then none else some (some (2 * n - 1)))
    else if s.startsWith "W" then some (some (2 * n + 2))
    else none

def handleCli (budget cancel cm adv steps peer : String) (pols : String := "000") : Option String := do
  let pol ← parsePol pols
  let b ← optNat budget
  let k ← cliCancel cancel
  let script ← mapM? parseStep (splitList steps)
  let evs ← mapM? parseCEv (splitList peer)
  let names ← decNames cm
  let advs ← decNames adv
  let mechs := guardCfg pol (names.map fun n => (n, scriptMech script 0))
  let r := if b.isNone && k.isNone then clientNeg mechs advs evs else clientNegE ⟨b, k⟩ mechs advs evs
  pure s!"{showBool r.authn} {r.err.toString} {(r.used.map encName).getD "-"} {joinList (r.sent.map showCSent)} {joinList (r.hist.map showBytes)}"

def handleSrv (allScripted : Bool) (budget : Option Nat) (sm steps perm peer : String)
    (pols : String := "000") (ctx : Option SCtx := none) : Option String := do
  let pol ← parsePol pols
  let script ← mapM? parseStep (splitList steps)
  let evs ← mapM? parseSEv (splitList peer)
  let plain ← parsePlain perm
  let names ← decNames sm
  let mechs := guardCfg pol (names.map fun n =>
    if n == "PLAIN" && !allScripted then (n, plain) else (n, scriptMech script 1))
  let r := match budget, ctx with
    | some b, _ => serverSessionW mechs b evs
    | none, some c => serverSessionC mechs c evs
    | none, none => serverSession mechs evs
  pure s!"{showBool r.authn} {r.err.toString} {joinList (r.sent.map showSSent)} {joinList (r.perms.map showPerm)} adv:{joinList ((advertised mechs).map encName)}"

def parseCred (s : String) : Option (Bytes × Bytes) :=
  match s.splitOn "/" with
  | [u, p] => do
    let u ← hexDecode u; let p ← hexDecode p
    pure (u, p)
  | _ => none

def showSRes (r : SRes) : String :=
  s!"{showBool r.authn} {r.err.toString} {joinList (r.sent.map showSSent)} {joinList (r.perms.map showPerm)}"

/-- several receiving sessions on one feature value, moved by the given schedule (then run to
their end): each one's result -/
def handleConcS (sched accept : String) (creds : List String) : Option String := do
  let sch ← mapM? (fun x : String => x.toNat?) (splitList sched)
  let acc ← mapM? parseCred (splitList accept)
  let cs ← mapM? parseCred creds
  let perm : Bytes → Bytes → Bytes → Bool := fun u p _ => acc.any fun a => a.1 == u && a.2 == p
  let cfg := [("PLAIN", plainServer perm)]
  let scripts := cs.map fun c => [SEv.auth "PLAIN" (if c.1.isEmpty && c.2.isEmpty then .valid [0, 0] else .valid (0 :: c.1 ++ 0 :: c.2))]
  let n := scripts.length
  -- the harness's schedule, then every session to its end
  let fin := (List.range n).flatMap fun i => [i, i, i]
  let ss := runSched cfg (scripts.map SSess.start) (sch ++ fin)
  let rs ← mapM? (fun s => match s with | SSess.finished r => some (showSRes r) | _ => none) ss
  pure (" ; ".intercalate rs)

/-- the harness's `X-ECHO`: two messages, each answered with the reversed message -/
def echoMech : Mech := fun hist =>
  match hist with
  | [c] => { kind := .more, resp := c.reverse }
  | [_, c] => { kind := .done, resp := c.reverse }
  | _ => { kind := .otherErr }

/-- sessions with different mechanisms and exchanges on one feature value, interleaved element
by element -/
def handleConcM (sched : String) (scripts : List String) : Option String := do
  let sch ← mapM? (fun x : String => x.toNat?) (splitList sched)
  let scs ← mapM? (fun s => mapM? parseSEv (splitList s)) scripts
  let perm : Bytes → Bytes → Bytes → Bool := fun u p _ =>
    u == "user".toUTF8.toList && p == "secret".toUTF8.toList
  let cfg := [("PLAIN", plainServer perm), ("X-ECHO", echoMech)]
  let n := scs.length
  let fin := (List.range n).flatMap fun i => List.replicate 6 i
  let ss := runSched cfg (scs.map SSess.start) (sch ++ fin)
  let rs ← mapM? (fun s => match s with | SSess.finished r => some (showSRes r) | _ => none) ss
  pure (" ; ".intercalate rs)

/-- the harness's `X-ECHOC` (initiating side): starts with "hi", answers its two challenges with
the reversed challenge -/
def echoClientMech : Mech := fun hist =>
  match hist with
  | [] => { kind := .more, resp := [104, 105] }
  | [c] => { kind := .more, resp := c.reverse }
  | [_, c] => { kind := .done, resp := c.reverse }
  | _ => { kind := .otherErr }

/-- initiating sessions with different advertised lists and exchanges on one feature value -/
def handleConcX (sched : String) (sessions : List String) : Option String := do
  let sch ← mapM? (fun x : String => x.toNat?) (splitList sched)
  let scs ← mapM? (fun (s : String) =>
    match s.splitOn ":" with
    | [a, p] => do
      let adv ← decNames a
      let peer ← mapM? parseCEv (splitList p)
      pure (adv, peer)
    | _ => none) sessions
  let plain : Mech := fun _ => { kind := .done, resp := 0 :: "user".toUTF8.toList ++ 0 :: "secret".toUTF8.toList }
  let cm := [("X-ECHOC", echoClientMech), ("PLAIN", plain)]
  let n := scs.length
  let fin := (List.range n).flatMap fun i => List.replicate 6 i
  let ss := runSchedC cm (scs.map fun ap => CSess.init ap.1 ap.2) (sch ++ fin)
  let rs ← mapM? (fun s => match s with
    | CSess.finished r =>
      some s!"{showBool r.authn} {if r.used.isNone && r.err == .nomech then "nomech" else r.err.toString} {joinList (r.sent.map showCSent)}"
    | _ => none) ss
  pure (" ; ".intercalate rs)

def handleConcC (users : List String) : Option String := do
  let us ← mapM? (fun x => hexDecode x) users
  let rs := us.map fun u =>
    let mech : Mech := fun _ => { kind := .done, resp := 0 :: u ++ 0 :: "secret".toUTF8.toList }
    let r := clientNeg [("PLAIN", mech)] ["PLAIN"] [.success .empty]
    s!"{showBool r.authn} {r.err.toString} {joinList (r.sent.map showCSent)}"
  pure (" ; ".intercalate rs)

/-- rows of the probe tables as lines -/
def handleProbe : List String → Option String
  | ["gate", _, _] => some s!"{saslNecessary} {saslProhibited}"
  | ["gaterun", _, st, _] => do
    let s ← st.toNat?
    let a := allowed saslNecessary saslProhibited s
    pure s!"{showBool a} {showBool a}"
  | ["gs2", kind, cm, adv] => do
    let k ← kind.toNat?
    let c ← decNames cm
    let a ← decNames adv
    let r := gs2Row k c a
    pure s!"{if r.1 == "-" then "-" else encName r.1} {r.2}"
  | ["failc", _, c] =>
    let cond := if c == "-" then "" else c
    some s!"0 1 {hexEncodeStr (failureText cond)}"
  | ["optstls", _, ver, _] => do
    let v ← ver.toNat?
    let o := tlsOpt (some ⟨v, []⟩)
    pure s!"1 {showBool o.isSome} {match o with | some s => s.version | none => 0} 1"
  | ["opts", role, kind, adv] => do
    let k ← kind.toNat?
    let a ← decNames adv
    let ((tls, ver, uq), remote, (u, p, i)) ← optsRow role k a
    let hx (x : String) := if x.isEmpty then "-" else hexEncodeStr x
    let uqb : Bytes := uq.map fun n => UInt8.ofNat n
    pure s!"{showBool tls} {ver} {if uqb.isEmpty then "-" else hexEncode uqb} {joinList (remote.map encName)} {hx u}/{hx p}/{hx i}"
  | _ => none

def handle (args : List String) : Option String :=
  match args with
  | "gate" :: _ => handleProbe args
  | "gaterun" :: _ => handleProbe args
  | "gs2" :: _ => handleProbe args
  | "opts" :: _ => handleProbe args
  | "optstls" :: _ => handleProbe args
  | "failc" :: _ => handleProbe args
  | ["cli", cm, adv, steps, peer] => handleCli "-" "-" cm adv steps peer
  | ["clis", cm, adv, steps, peer] => handleCli "-" "-" cm adv steps peer
  | ["clie", budget, cancel, cm, adv, steps, peer] => handleCli budget cancel cm adv steps peer
  | ["srv", sm, steps, perm, peer] => handleSrv false none sm steps perm peer
  | ["srvs", sm, steps, perm, peer] => handleSrv true none sm steps perm peer
  | ["clip", pol, cm, adv, steps, peer] => handleCli "-" "-" cm adv steps peer pol
  | ["srvp", pol, sm, steps, perm, peer] => handleSrv false none sm steps perm peer pol
  | ["srvc", looks, k, sm, steps, perm, peer] => do
    -- (round C lines) looks at the top of every iteration or never; done in flight (0) / in Step k
    let c ← optNat k
    if looks != "0" && looks != "1" then none
    handleSrv false none sm steps perm peer "000"
      (some ⟨fun _ => looks == "1", fun _ => false, c.map fun k => if k == 0 then 0 else 2 * k - 1⟩)
  | ["srvg", top, mid, whn, sm, steps, perm, peer] => do
    let t ← parseMask top
    let m ← parseMask mid
    let w ← parseWhen whn
    handleSrv false none sm steps perm peer "000" (some ⟨t, m, w⟩)
  | "concs" :: sched :: accept :: creds => handleConcS sched accept creds
  | "concc" :: _sched :: users => handleConcC users
  | "concm" :: sched :: scripts => handleConcM sched scripts
  | "concx" :: sched :: sessions => handleConcX sched sessions
  | ["srvw", n, sm, steps, perm, peer] => do
    let budget ← n.toNat?
    handleSrv false (some budget) sm steps perm peer
  | _ => none

end XmppModel.Driver.C03
