import XmppModel.Prelude.Hex
import XmppModel.Prelude.Xml
import XmppModel.Model.Encoder
/-! Driver for C05 (see harness/c05 for the line protocol).

    tx <entry> <ns> <from|-> <startTok|-> <toks>   -> <status> <canonical wire tokens>
    flush <entry> <form>                           -> 1 | 0   (is the element on the connection
                                                       when the call returns)
    conc <n> <i0,i1,…>                             -> ok | bad   (is the observed order of
                                                       complete blocks a permutation of the calls)
-/
namespace XmppModel.Driver.C05
open XmppModel XmppModel.Xml XmppModel.Encoder

def fresh : String := "ID#"

def outLine (cfg : Cfg) (status : String) (ts : List Tok) : String :=
  s!"{status} {encToks (canon cfg.ns (wireToks cfg fresh ts))}"

def startOf (s : String) : Option (Name × List Attr) :=
  match decTok s with
  | some (.start n as) => some (n, as)
  | _ => none

def isPermOfRange (n : Nat) (l : List Nat) : Bool :=
  l.length == n && (List.range n).all (fun i => l.count i == 1)

def stanzaLine (cfg : Cfg) (k : Kind) (ts : List Tok) : String :=
  match stanzaSendToks k fresh ts with
  | .ok out => outLine cfg "ok" out
  | .error .notStart => "notstart -"
  | .error .eof => "eof -"
  | .error .wrongKind => "wrongkind -"

def handle (args : List String) : Option String :=
  match args with
  | ["tx", entry, ns, from_, start, toks, _form] => do
    let fr ← if from_ == "-" then some "" else hexDecodeStr from_
    let ts ← decToks toks
    let cfg : Cfg := ⟨ns, fr⟩
    match entry with
    | "send" =>
      match sendToks ts with
      | .ok out => pure (outLine cfg "ok" out)
      | .error .eof => pure "eof -"
      | .error _ => pure "notstart -"
    | "sendel" => do
      let (n, as) ← startOf start
      pure (outLine cfg "ok" (sendElementToks n as ts))
    | "enc" => pure (outLine cfg "ok" ts)
    | "tw" => pure (outLine cfg "ok" ts)
    | "reply" => pure (outLine cfg "ok" ts)
    | "encel" => do
      let (n, as) ← startOf start
      pure (outLine cfg "ok" (replaceOuter n as 0 ts))
    | "iq" => pure (stanzaLine cfg .iq ts)
    | "msg" => pure (stanzaLine cfg .message ts)
    | "pres" => pure (stanzaLine cfg .presence ts)
    | _ => none
  | ["flush", entry, form] => pure (showBool (flushesAtReturn entry form))
  | ["conc", n, order] => do
    let n ← n.toNat?
    let l ← mapM? (fun (s : String) => s.toNat?) (splitList order)
    pure (if isPermOfRange n l then "ok" else "bad")
  | _ => none

end XmppModel.Driver.C05
