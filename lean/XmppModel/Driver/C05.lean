import XmppModel.Prelude.Hex
import XmppModel.Prelude.Xml
import XmppModel.Model.Encoder
import XmppModel.Model.SendGuard
import XmppModel.Model.ValueForms
import XmppModel.Model.Transport
import XmppModel.Model.SendFlush
import XmppModel.Model.SendKinds
/-! Driver for C05 (see harness/c05 for the line protocol).

    tx <entry> <ns> <from|-> <startTok|-> <toks>   -> <status> <canonical wire tokens>
    fault <mode> <ns> <from|-> <k> <toks> <next>   -> <first ok|fail> <next ok|broken> <canonical wire>
                                                       (mode reader|tw|badtok|badend: the first call stops after
                                                       k tokens of its element; then Send(next))
    flush <entry> <form>                           -> 1 | 0   (is the element on the connection
                                                       when the call returns)
    behind <fail|finish|twfail|encfail> <park> <k> <holder toks> <entry> <ns> <from|-> <startTok|-> <toks>
                                                   -> <first ok|fail> <second ok|broken> <canonical wire>
                                                       (a Send parked after `park` tokens of its element, stopping after k; the second
                                                       call queued for the lock; statuses from the SendGuard LTS
                                                       with the guard under the lock, wire from the encoder model)
    queued <ns> <from|-> <entry> <startTok|-> <toks> <form> <wentry> <wmode> <wtoks> <hw|wh>
                                                   -> <status> <status of the queued call> <canonical wire when the call returned> <final wire>
                                                       (SendFlush LTS: a pre-holder, the call, a queued call that parks / gives
                                                       up before its first token; run on the observed lock order)
    pend <n> <same|diff> <entry> <ns> <from|-> <startTok|-> <toks> <form>
                                                   -> the answer of the `tx` line (n requests are pending when the call is made)
    serveiter <ns> <from|-> <typ> <reply toks>    -> alive <canonical wire> | ended -
                                                       (SendKinds.serveIter: handler tokens, automatic reply iff due, session ends
                                                       when the handler left an element open)
    conc <n> <i0,i1,…>                             -> ok | bad   (is the observed order of
                                                       complete blocks a permutation of the calls)
-/
namespace XmppModel.Driver.C05
open XmppModel XmppModel.Xml XmppModel.Encoder

def fresh : String := "ID#"

def outLine (cfg : Cfg) (status : String) (ts : List Tok) : String :=
  s!"{status} {encToks (canon cfg.ns (wireToks cfg fresh ts))}"

def startOf (s : String) : Option (Name × List Attr) :=
  match decTok s with
  | some (.start n as) => some (n, as)
  | _ => none

def isPermOfRange (n : Nat) (l : List Nat) : Bool :=
  l.length == n && (List.range n).all (fun i => l.count i == 1)

def stanzaLine (cfg : Cfg) (k : Kind) (ts : List Tok) : String :=
  match stanzaSendToks k fresh ts with
  | .ok out => outLine cfg "ok" out
  | .error .notStart => "notstart -"
  | .error .eof => "eof -"
  | .error .wrongKind => "wrongkind -"

/-- the tokens an entry point hands to the session's encoder -/
def handedToks (entry start : String) (ts : List Tok) : Option (List Tok) :=
  match entry with
  | "send" => match sendToks ts with | .ok o => some o | .error _ => none
  | "sendel" => do
    let (n, as) ← startOf start
    pure (sendElementToks n as ts)
  | "enc" | "tw" | "reply" => some ts
  | "encel" => do
    let (n, as) ← startOf start
    pure (replaceOuter n as 0 ts)
  | "msg" => match stanzaSendToks .message fresh ts with | .ok o => some o | .error _ => none
  | _ => none

/-- the tokens an entry point hands to the session's encoder, value forms included (the `tx`
line's model, as a function) -/
def handedForm (entry start form : String) (ts : List Tok) : Option (List Tok) :=
  match entry with
  | "send" => match sendToks ts with | .ok o => some o | .error _ => none
  | "sendel" => do
    let (n, as) ← startOf start
    pure (sendElementToks n as ts)
  | "enc" => some (ValueForms.handed (ValueForms.sourceOfForm form) ts)
  | "tw" => some ts
  | "encel" => do
    let (n, as) ← startOf start
    pure (replaceOuter n as 0 (ValueForms.handed (ValueForms.sourceOfForm form) ts))
  | "iq" => match stanzaSendToks .iq fresh ts with | .ok o => some o | .error _ => none
  | "msg" => match stanzaSendToks .message fresh ts with | .ok o => some o | .error _ => none
  | "pres" => match stanzaSendToks .presence fresh ts with | .ok o => some o | .error _ => none
  | _ => none

/-- the automatic reply of an unanswered get/set IQ `q1` from `peer@example.net/r` -/
def autoReplyToks : List Tok :=
  [.start ⟨"", "iq"⟩ [⟨⟨"", "id"⟩, "q1"⟩, ⟨⟨"", "to"⟩, "peer@example.net/r"⟩, ⟨⟨"", "type"⟩, "error"⟩],
   .start ⟨"", "error"⟩ [⟨⟨"", "type"⟩, "cancel"⟩],
   .start ⟨"urn:ietf:params:xml:ns:xmpp-stanzas", "service-unavailable"⟩ [],
   .stop ⟨"urn:ietf:params:xml:ns:xmpp-stanzas", "service-unavailable"⟩,
   .stop ⟨"", "error"⟩, .stop ⟨"", "iq"⟩]

def handle0 (args : List String) : Option String :=
  match args with
  | ["serveiter", ns, from_, typ, toks] => do
    let fr ← if from_ == "-" then some "" else hexDecodeStr from_
    let cfg : Cfg := ⟨ns, fr⟩
    let ts ← if toks == "-" then some [] else decToks toks
    let r := SendKinds.serveIter (typ == "get" || typ == "set") "q1" ts false autoReplyToks
    if r.2 then pure "ended -" else pure s!"alive {encToks (canon cfg.ns (wireToks cfg fresh r.1))}"
  | ["queued", ns, from_, entry, start, toks, form, _wentry, wmode, wtoks, order] => do
    let fr ← if from_ == "-" then some "" else hexDecodeStr from_
    let cfg : Cfg := ⟨ns, fr⟩
    let ts ← decToks toks
    let ws ← decToks wtoks
    let h ← handedForm entry start form ts
    -- one item per call: its whole block (the interleaving of items is C05_atomic's subject)
    let prog : SendFlush.Prog (List Tok) :=
      { job := fun i => if i = 0 then [wireToks cfg fresh h] else if i = 1 then [wireToks cfg fresh ws] else [],
        stopAt := fun i => if i = 1 && wmode != "park" then some 0 else none,
        lazy := false }
    let c (i : Nat) : SendFlush.Act := .call i
    -- call 2 is the handle that holds the lock while the two calls queue
    let pre := [c 2, c 2, c 0, c 1, c 2]
    let (s1, fin) :=
      if order == "hw" then
        let s1 := SendFlush.run prog (SendFlush.init _) (pre ++ [c 0, c 0, c 0])
        (s1, SendFlush.run prog s1 [c 1, c 1, c 1])
      else
        let s1 := SendFlush.run prog (SendFlush.init _) (pre ++ [c 1, c 1, c 1, c 0, c 0, c 0])
        (s1, s1)
    let st (p : SendFlush.Pc) : Option String :=
      match p with | .ok => some "ok" | .err => some "fail" | _ => none
    let sH ← st (s1.pc 0)
    let sW ← st (fin.pc 1)
    pure s!"{sH} {sW} {encToks (canon cfg.ns s1.wire.flatten)} {encToks (canon cfg.ns fin.wire.flatten)}"
  | ["behind", mode, park, k, htoks, entry, ns, from_, start, toks] => do
    let fr ← if from_ == "-" then some "" else hexDecodeStr from_
    let cfg : Cfg := ⟨ns, fr⟩
    let k ← k.toNat?
    let park ← park.toNat?
    let hs ← decToks htoks
    let ts ← decToks toks
    let us ← handedToks entry start ts
    let first ← match sendToks hs with | .ok o => some o | .error _ => none
    -- who is refused: the LTS with the guard under the lock, forced schedule
    -- (holder takes the lock and writes k items, the second call tries, the holder goes on)
    let prog : SendGuard.Prog Tok :=
      { job := fun i => if i = 0 then first else us,
        failAt := fun i => if i = 0 && mode != "finish" then some k else none,
        early := fun _ => false }
    let sched := [0] ++ List.replicate park 0 ++ [1] ++ List.replicate (first.length + 2) 0
      ++ List.replicate (us.length + 2) 1
    let fin := SendGuard.run prog (SendGuard.init Tok) sched
    -- an abandoned token writer (`twfail`) stops inside its element like a failed Send, but its
    -- Close reports success
    let s1 ← match fin.pc 0 with
      | .done => some "ok"
      | .failed => some (if mode == "twfail" then "ok" else "fail")
      | _ => none
    let s2 ← match fin.pc 1 with | .done => some "ok" | .refused => some "broken" | _ => none
    if !fin.nested.isEmpty then none
    -- what reaches the wire: the encoder model
    let handed := if mode != "finish" then first.take k else first
    let r := faultThenNext true cfg fresh handed handed.length us
    match r.2 with
    | .wrote out => if s2 == "ok" then pure s!"{s1} ok {encToks (canon cfg.ns (r.1 ++ out))}" else none
    | .refused => if s2 == "broken" then pure s!"{s1} broken {encToks (canon cfg.ns r.1)}" else none
  | ["reuse", _ns, _from, holder, ops] => do
    -- handle 0 writes <a/> and is closed; then operations on the closed handle
    let el (n : String) : Tok := .start ⟨"urn:reuse", n⟩ []
    let en (n : String) : Tok := .stop ⟨"urn:reuse", n⟩
    let s0 := (Handles.run true (Handles.acquire Handles.init 0) [(0, .enc (el "a")), (0, .enc (en "a")), (0, .close)]).1
    let s1 := if holder == "none" then s0
      else if holder == "idle" then Handles.acquire s0 1
      else (Handles.run true (Handles.acquire s0 1) [(1, .enc (el "b"))]).1
    let parse (o : String) : Option (List Handles.HOp) :=
      if o == "E" then some [.enc (el "x"), .enc (en "x")] else if o == "F" then some [.flush]
      else if o == "C" then some [.close] else none
    let progs ← mapM? parse (splitList ops)
    let (s2, res, locks) := progs.foldl (fun (acc : Handles.Sess × List String × List String) p =>
      let r := Handles.run true acc.1 (p.map fun o => (0, o))
      let cls := if r.2.contains .eof then "eof" else "nil"
      (r.1, acc.2.1 ++ [cls], acc.2.2 ++ [showBool r.1.holder.isSome])) (s1, [], [])
    let fin : Handles.Sess :=
      if holder == "none" then (Handles.run true (Handles.acquire s2 2) [(2, .enc (el "b")), (2, .enc (en "b")), (2, .close)]).1
      else if holder == "idle" then (Handles.run true s2 [(1, .enc (el "b")), (1, .enc (en "b")), (1, .close)]).1
      else (Handles.run true s2 [(1, .enc (en "b")), (1, .close)]).1
    let names := fin.wire.filterMap fun t => match t with
      | .start n _ => some ("+" ++ n.loc) | .stop n => some ("-" ++ n.loc) | _ => none
    pure s!"{joinList res} {joinList locks} {joinList names}"
  | ["tx", entry, ns, from_, start, toks, _form] => do
    let fr ← if from_ == "-" then some "" else hexDecodeStr from_
    let ts ← decToks toks
    let cfg : Cfg := ⟨ns, fr⟩
    match entry with
    | "send" =>
      match sendToks ts with
      | .ok out => pure (outLine cfg "ok" out)
      | .error .eof => pure "eof -"
      | .error _ => pure "notstart -"
    | "sendel" => do
      let (n, as) ← startOf start
      pure (outLine cfg "ok" (sendElementToks n as ts))
    | "enc" => pure (outLine cfg "ok" (ValueForms.handed (ValueForms.sourceOfForm _form) ts))
    | "tw" =>
      if _form.startsWith "f:" then do
        let pos ← mapM? (fun (x : String) => x.toNat?) (splitList (_form.drop 2).toString)
        let ops := (twRun cfg fresh 0 (withFlushes pos 0 ts)).2
        let o := exec ⟨[], []⟩ (ops ++ [.flush])
        pure s!"ok {encToks (canon cfg.ns o.wire)}"
      else pure (outLine cfg "ok" ts)
    | "reply" => pure (outLine cfg "ok" (ValueForms.handed (ValueForms.sourceOfForm _form) ts))
    | "encel" | "replyel" => do
      let (n, as) ← startOf start
      pure (outLine cfg "ok" (replaceOuter n as 0 (ValueForms.handed (ValueForms.sourceOfForm _form) ts)))
    | "iq" => pure (stanzaLine cfg .iq ts)
    | "msg" => pure (stanzaLine cfg .message ts)
    | "pres" => pure (stanzaLine cfg .presence ts)
    | _ => none
  | ["fault", mode, ns, from_, k, toks, next] => do
    let fr ← if from_ == "-" then some "" else hexDecodeStr from_
    let cfg : Cfg := ⟨ns, fr⟩
    let k ← k.toNat?
    let ts ← decToks toks
    let us ← decToks next
    let nextToks ← match sendToks us with | .ok o => some o | .error _ => none
    -- what the first call hands to the encoder and whether it reports success
    let (handed, ok1, refused) ←
      match mode with
      | "reader" =>
        if k ≥ ts.length then
          match sendToks ts with
          | .ok o => some (o, true, false)
          | .error _ => none
        else some (ts.take k, false, false)
      | "tw" => some (ts.take k, true, false)
      | "badtok" => some (ts.take k, false, true)
      | "badend" => some (ts.take k, false, true)
      | _ => none
    let r := faultThenNext true cfg fresh handed handed.length nextToks refused
    let s1 := if ok1 then "ok" else "fail"
    match r.2 with
    | .wrote out => pure s!"{s1} ok {encToks (canon cfg.ns (r.1 ++ out))}"
    | .refused => pure s!"{s1} broken {encToks (canon cfg.ns r.1)}"
  | ["wfault", _ns, _from, _entry, _start, _toks, _form, chunks, at_, n, kind, status, accepted, next] => do
    -- relation: is the observation one a transport layer that hands every byte on exactly once
    -- can show; the model of the code itself must be among those
    let cs ← if chunks == "-" then some [] else mapM? (fun (x : String) => x.toNat?) (splitList chunks)
    let at_ ← at_.toNat?
    let n ← n.toNat?
    let acc ← accepted.toNat?
    let m := Transport.modelObs cs at_ n kind
    if !Transport.admissibleObs cs at_ n kind m.1 m.2 (if m.1 == "ok" then "ok" else "err") then none
    pure (if Transport.admissibleObs cs at_ n kind (if status == "ok" then "ok" else "err") acc (if next == "ok" then "ok" else "err") then "ok" else "bad")
  | ["flush", entry, form] => pure (showBool (flushesAtReturn entry form))
  | ["conc", n, order] => do
    let n ← n.toNat?
    let l ← mapM? (fun (s : String) => s.toNat?) (splitList order)
    pure (if isPermOfRange n l then "ok" else "bad")
  | _ => none

/-- `pend <n> <same|diff> <rest of a tx line>`: requests that are still waiting for their response
(with the same id or not) are not an input of the transmit path: the answer is the `tx` line's -/
def handle (args : List String) : Option String :=
  match args with
  | "pend" :: _n :: _mode :: rest => handle0 ("tx" :: rest)
  | _ => handle0 args

end XmppModel.Driver.C05
