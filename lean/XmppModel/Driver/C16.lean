import XmppModel.Prelude.Hex
import XmppModel.Model.Escape
/-! Driver for C16 (see harness/c16 for the line protocol). -/
namespace XmppModel.Driver.C16
open XmppModel XmppModel.Escape

def showStep (r : StepOut) : String :=
  s!"{r.nSrc} {r.err.toString} {hexEncode r.out}"

def handle (args : List String) : Option String :=
  match args with
  | ["estep", cap, src, _eof] => do
    let c ← cap.toNat?; let s ← hexDecode src
    pure (showStep (escStep c s))
  | ["ustep", cap, src, eof] => do
    let c ← cap.toNat?; let s ← hexDecode src; let e ← parseBool eof
    pure (showStep (unescStep c e s))
  | ["espan", src, _eof] => do
    let s ← hexDecode src
    let r := escSpan s
    pure s!"{r.1} {r.2.toString}"
  | ["uspan", src, eof] => do
    let s ← hexDecode src; let e ← parseBool eof
    let r := unescSpan e s
    pure s!"{r.1} {r.2.toString}"
  -- round E: the observed call is judged against the contract (a relation), the model's own
  -- step is not demanded
  | ["estepok", cap, src, eof, nSrc, err, out] => do
    let c ← cap.toNat?; let s ← hexDecode src; let e ← parseBool eof
    let r : StepOut := ⟨← hexDecode out, ← nSrc.toNat?, ← Err.ofString err⟩
    pure ((stepJudge escape 3 false c e s r).elim "ok" ("bad:" ++ ·))
  | ["ustepok", cap, src, eof, nSrc, err, out] => do
    let c ← cap.toNat?; let s ← hexDecode src; let e ← parseBool eof
    let r : StepOut := ⟨← hexDecode out, ← nSrc.toNat?, ← Err.ofString err⟩
    pure ((stepJudge unescape 1 true c e s r).elim "ok" ("bad:" ++ ·))
  | ["espanok", src, eof, n, err] => do
    let s ← hexDecode src; let e ← parseBool eof
    pure ((spanJudge escape false e s (← n.toNat?) (← Err.ofString err)).elim "ok" ("bad:" ++ ·))
  | ["uspanok", src, eof, n, err] => do
    let s ← hexDecode src; let e ← parseBool eof
    pure ((spanJudge unescape true e s (← n.toNat?) (← Err.ofString err)).elim "ok" ("bad:" ++ ·))
  | ["estr", src] => do
    let s ← hexDecode src
    pure (hexEncode (escape s))
  | ["ustr", src] => do
    let s ← hexDecode src
    pure (hexEncode (unescape s))
  | ["chain", src] => do
    -- transform.Chain(jid.Escape, jid.Unescape) on the whole input
    let s ← hexDecode src
    pure (hexEncode (unescape (escape s)))
  | _ => none

end XmppModel.Driver.C16
