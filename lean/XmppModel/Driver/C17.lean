import XmppModel.Prelude.Hex
import XmppModel.Model.Styling
import XmppModel.Model.StylingSession
import XmppModel.Model.StylingNest
/-!
Driver for C17 (see harness/c17 for the line protocol).

    hist <doc> <len:eof,…>               replay a sequence of split-function calls; call k gets
                                         `doc[pos : pos+len]` where `pos` is the sum of the advances so far
                                         → `adv,…` (`m` = more, `P` = panic, `!` = call out of range)
    split <doc> <sizes> <dataEOF> <lim>  a `bufio.Scanner` with `styling.Scan()` under a chunk schedule
                                         → `len:eof:adv,…;<end>` (every split call up to the last token)
    dec <doc> <sizes> <dataEOF> <lim>    `NewDecoder` read to the end
                                         → `len:style:quote:info,…;<end>` (info hex, `~` = nil)
    longdec <pre> <n> <suf> <sizes> <dataEOF> <lim>   as `dec` for the document pre ++ n×"a" ++ suf
    sess <doc,…> <sizes/…> <dataEOF bits> <ops>       a session of decoders used alternately from one goroutine:
                                         ops `<k>c` NewDecoder for document k, `<k>n` Next(+Token), `<k>s` SkipSpan,
                                         `<k>b` SkipBlock → one observation per op: `c` | `len:style:quote:info` |
                                         `end:<err>:style:quote` | `s<ret>:<err>:style:quote` | `b<ret>:…` (err `nil` = no error yet)
-/
namespace XmppModel.Driver.C17
open XmppModel XmppModel.Styling

def parseNatList (s : String) : Option (List Nat) := mapM? String.toNat? (splitList s)

def parseLimit (s : String) : Option (Option Nat) :=
  if s == "-" then some none else s.toNat?.map some

def parseCall (s : String) : Option (Nat × Bool) :=
  match s.splitOn ":" with
  | [n, e] => do pure (← n.toNat?, ← parseBool e)
  | _ => none

def showOut : Out → String
  | .more => "m" | .panic => "P" | .tok a _ => toString a

def hist (doc : Bytes) : Dec → List (Nat × Bool) → List String
  | _, [] => []
  | d, (n, e) :: cs =>
    if n > doc.length then ["!"] else
    let r := d.scan (doc.take n) e
    match r.1 with
    | .tok a t =>
      (if t == (doc.take n).take a then toString a else "X" ++ toString a) :: hist (doc.drop a) r.2 cs
    | o => showOut o :: hist doc r.2 cs

def showEnd : End → String
  | .eof => "eof" | .tooLong => "toolong" | .badSplit => "badsplit" | .panic => "PANIC" | .fuel => "FUEL"

/-- split function with a call log (newest first) -/
def logSplit : Split (Dec × List String) := fun s buf eof =>
  let r := s.1.scan buf eof
  (r.1, r.2, s!"{buf.length}:{showBool eof}:{showOut r.1}" :: s.2)

def showEvent (e : Event) : String :=
  let info := match e.info with | none => "~" | some i => hexEncode i
  s!"{e.data.length}:{e.style.toNat}:{e.quote}:{info}"

def parseOp (s : String) : Option (Nat × Op) :=
  match s.toList.reverse with
  | c :: ds => do
    let i ← (String.ofList ds.reverse).toNat?
    let op ← match c with
      | 'c' => some Op.create | 'n' => some Op.next | 's' => some Op.skipSpan | 'b' => some Op.skipBlock
      | _ => none
    pure (i, op)
  | [] => none

def showErr : Option End → String
  | none => "nil" | some e => showEnd e

def showObs : Obs → String
  | .created => "c"
  | .tok e => showEvent e
  | .nextEnd err st q => s!"end:{showEnd err}:{st.toNat}:{q}"
  | .skip blk ret err st q => s!"{if blk then "b" else "s"}{showBool ret}:{showErr err}:{st.toNat}:{q}"
  | .invalid => "!"
  | .fuel => "FUEL"

def zip3? {α β γ} : List α → List β → List γ → Option (List (α × β × γ))
  | [], [], [] => some []
  | a :: as, b :: bs, c :: cs => (zip3? as bs cs).map ((a, b, c) :: ·)
  | _, _, _ => none

def handle (args : List String) : Option String :=
  match args with
  | ["sess", docs, sizes, deofs, ops] => do
    let ds ← mapM? hexDecode (docs.splitOn ",")
    let szs ← mapM? parseNatList (sizes.splitOn "/")
    let des ← mapM? (fun c => parseBool (String.singleton c)) deofs.toList
    let os ← mapM? parseOp (splitList ops)
    let decs ← zip3? ds szs des
    match mapM? (fun (d, sz, de) => Api.ofDecode (decode none ⟨sz, de⟩ d)) decs with
    | none => pure "PANIC"
    | some st => pure (joinList ((runOps st os).map (fun o => showObs o.2)))
  | ["hist", doc, calls] => do
    let d ← hexDecode doc
    let cs ← mapM? parseCall (splitList calls)
    pure (joinList (hist d {} cs))
  | ["split", doc, sizes, deof, lim] => do
    let d ← hexDecode doc; let sz ← parseNatList sizes; let de ← parseBool deof; let l ← parseLimit lim
    let r := scanner logSplit l (fuelFor d) sz de (({} : Dec), []) [] d false
    let log := match r.1.getLast? with | some (_, s) => s.2.reverse | none => []
    pure (joinList log ++ ";" ++ showEnd r.2)
  | ["dec", doc, sizes, deof, lim] => do
    let d ← hexDecode doc; let sz ← parseNatList sizes; let de ← parseBool deof; let l ← parseLimit lim
    let r := decode l ⟨sz, de⟩ d
    match r.1 with
    | none => pure "PANIC"
    | some evs => pure (joinList (evs.map showEvent) ++ ";" ++ showEnd r.2)
  | ["brk", doc] => do
    -- the caller's bracket automaton over the masks the model returns (round F)
    let d ← hexDecode doc
    pure (showBool (maskBracketed d))
  | ["longdec", pre, n, suf, sizes, deof, lim] => do
    let p ← hexDecode pre; let k ← n.toNat?; let s ← hexDecode suf
    let sz ← parseNatList sizes; let de ← parseBool deof; let l ← parseLimit lim
    let r := decode l ⟨sz, de⟩ (p ++ List.replicate k 0x61 ++ s)
    match r.1 with
    | none => pure "PANIC"
    | some evs => pure (joinList (evs.map showEvent) ++ ";" ++ showEnd r.2)
  | _ => none

end XmppModel.Driver.C17
