import XmppModel.Prelude.Hex
import XmppModel.Model.Styling
/-!
Driver for C17 (see harness/c17 for the line protocol).

    hist <doc> <len:eof,…>               replay a sequence of split-function calls; call k gets
                                         `doc[pos : pos+len]` where `pos` is the sum of the advances so far
                                         → `adv,…` (`m` = more, `P` = panic, `!` = call out of range)
    split <doc> <sizes> <dataEOF> <lim>  a `bufio.Scanner` with `styling.Scan()` under a chunk schedule
                                         → `len:eof:adv,…;<end>` (every split call up to the last token)
    dec <doc> <sizes> <dataEOF> <lim>    `NewDecoder` read to the end
                                         → `len:style:quote:info,…;<end>` (info hex, `~` = nil)
    longdec <pre> <n> <suf> <sizes> <dataEOF> <lim>   as `dec` for the document pre ++ n×"a" ++ suf
-/
namespace XmppModel.Driver.C17
open XmppModel XmppModel.Styling

def parseNatList (s : String) : Option (List Nat) := mapM? String.toNat? (splitList s)

def parseLimit (s : String) : Option (Option Nat) :=
  if s == "-" then some none else s.toNat?.map some

def parseCall (s : String) : Option (Nat × Bool) :=
  match s.splitOn ":" with
  | [n, e] => do pure (← n.toNat?, ← parseBool e)
  | _ => none

def showOut : Out → String
  | .more => "m" | .panic => "P" | .tok a _ => toString a

def hist (doc : Bytes) : Dec → List (Nat × Bool) → List String
  | _, [] => []
  | d, (n, e) :: cs =>
    if n > doc.length then ["!"] else
    let r := d.scan (doc.take n) e
    match r.1 with
    | .tok a t =>
      (if t == (doc.take n).take a then toString a else "X" ++ toString a) :: hist (doc.drop a) r.2 cs
    | o => showOut o :: hist doc r.2 cs

def showEnd : End → String
  | .eof => "eof" | .tooLong => "toolong" | .badSplit => "badsplit" | .panic => "PANIC" | .fuel => "FUEL"

/-- split function with a call log (newest first) -/
def logSplit : Split (Dec × List String) := fun s buf eof =>
  let r := s.1.scan buf eof
  (r.1, r.2, s!"{buf.length}:{showBool eof}:{showOut r.1}" :: s.2)

def showEvent (e : Event) : String :=
  let info := match e.info with | none => "~" | some i => hexEncode i
  s!"{e.data.length}:{e.style.toNat}:{e.quote}:{info}"

def handle (args : List String) : Option String :=
  match args with
  | ["hist", doc, calls] => do
    let d ← hexDecode doc
    let cs ← mapM? parseCall (splitList calls)
    pure (joinList (hist d {} cs))
  | ["split", doc, sizes, deof, lim] => do
    let d ← hexDecode doc; let sz ← parseNatList sizes; let de ← parseBool deof; let l ← parseLimit lim
    let r := scanner logSplit l (fuelFor d) sz de (({} : Dec), []) [] d false
    let log := match r.1.getLast? with | some (_, s) => s.2.reverse | none => []
    pure (joinList log ++ ";" ++ showEnd r.2)
  | ["dec", doc, sizes, deof, lim] => do
    let d ← hexDecode doc; let sz ← parseNatList sizes; let de ← parseBool deof; let l ← parseLimit lim
    let r := decode l ⟨sz, de⟩ d
    match r.1 with
    | none => pure "PANIC"
    | some evs => pure (joinList (evs.map showEvent) ++ ";" ++ showEnd r.2)
  | ["longdec", pre, n, suf, sizes, deof, lim] => do
    let p ← hexDecode pre; let k ← n.toNat?; let s ← hexDecode suf
    let sz ← parseNatList sizes; let de ← parseBool deof; let l ← parseLimit lim
    let r := decode l ⟨sz, de⟩ (p ++ List.replicate k 0x61 ++ s)
    match r.1 with
    | none => pure "PANIC"
    | some evs => pure (joinList (evs.map showEvent) ++ ";" ++ showEnd r.2)
  | _ => none

end XmppModel.Driver.C17
