import XmppModel.Prelude.Hex
/-! Driver module for C07: `handle args` answers one protocol line (fields after the
property id); `none` means the line is not understood (`!bad-op`). -/
namespace XmppModel.Driver.C07

def handle (_args : List String) : Option String := none

end XmppModel.Driver.C07
