import XmppModel.Prelude.Hex
import XmppModel.Model.ServeProto
/-! Driver for C07: the same serve model as C08; the observation is what was written to the
peer and how Serve ended (see harness/c07). -/
namespace XmppModel.Driver.C07
open XmppModel XmppModel.Serve

def handle (args : List String) : Option String :=
  match args with
  | "serve" :: rest => do
    let o ← handleServe rest
    pure s!"{encWritten o.written} {encStop o.result}"
  | _ => none

end XmppModel.Driver.C07
