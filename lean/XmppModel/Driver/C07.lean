import XmppModel.Prelude.Hex
import XmppModel.Model.ServeProto
/-! Driver for C07: the same serve model as C08; the observation is what was written to the
peer and how Serve ended (see harness/c07). -/
namespace XmppModel.Driver.C07
open XmppModel XmppModel.Serve

def handle (args : List String) : Option String :=
  match args with
  | "serve" :: rest => do
    let o ← handleServe rest
    pure s!"{encWritten o.written} {encStop o.result}"
  -- the output is closed / was left inside an element before Serve, or a handler closes it or
  -- writes half an element: `servex <state> <ns> <localBare> <jidmap> <toks> <progs>`
  | "servex" :: rest => do
    let o ← handleServeX rest
    pure s!"{o.invs.length} {encWritten o.written} {encStop o.result}"
  | "servewm" :: rest => do
    let o ← handleServeWM rest
    pure s!"{encWritten o.written} {encStop o.result}"
  | "servew" :: rest => do
    let o ← handleServeW rest
    pure s!"{o.invs.length} {encWritten o.written} {encStop o.result}"
  | "servep" :: rest => do
    let o ← handleServeP rest
    let dl := if o.delivered.isEmpty then "-" else ",".intercalate (o.delivered.map XmppModel.Xml.hexF)
    pure s!"{encWritten o.out.written} {encStop o.out.result} {dl}"
  | "elem" :: mode :: ns :: lb :: jm :: toks :: [prog] => do
    let ws := decWs ns
    let ns ← decNs ns
    let lb ← XmppModel.Xml.unhexF (if lb == "-" then "" else lb)
    let jm ← decJidMap jm
    let toks ← (XmppModel.Xml.decToks toks).map (wsInput ws)
    let p ← decProg prog
    let cfg : Cfg := { ns := ns, localBare := lb, jidCanon := jidOracle jm }
    let eff ←
      if mode == "d" then some p
      -- `Serve(nil)`: the session's own do-nothing handler, whatever the program says
      else if mode == "n" then some nilHandlerProg
      -- a multiplexer whose handler is registered for get and set with the payload {urn:q}q only
      -- (`p`), or for get only with the wildcard payload (`t`)
      else if mode == "p" || mode == "t" then
        (let reg : MuxReg := if mode == "p" then { types := ["get", "set"], payload := some ⟨"urn:q", "q"⟩ }
                             else { types := ["get"], payload := none }
         match firstElem cfg toks with
         | some (n, as, body) => some (muxEffectiveG reg cfg n as body p)
         | none => some p)
      -- `x`: a router of the application's own that calls `ServeMux.IQHandler` directly, nothing
      -- registered: the library's default handler, as behind the multiplexer's own router
      else if mode == "r" || mode == "u" || mode == "x" then
        (match firstElem cfg toks with
         | some (n, as, body) => some (muxEffective (mode == "r") cfg n as body p)
         | none => some p)
      else if mode == "q" then
        (match firstElem cfg toks with
         | some (n, as, body) => some (muxAnswering cfg n as body)
         | none => some p)
      else none
    let o := serve cfg toks [eff]
    pure s!"{encWritten o.written} {encStop o.result}"
  | _ => none

end XmppModel.Driver.C07
