import XmppModel.Model.PagingIter
namespace XmppModel.PagingIter
open XmppModel XmppModel.Xml XmppModel.Payload XmppModel.Payloads

theorem run_items (kids : List Node) (st st' : State) (h : run kids st = some st') :
    st'.items = st.items ++ kids.filter (fun k => !isSet k) := by
  induction kids generalizing st with
  | nil => simp [run] at h; simp [← h]
  | cons k ks ih =>
    unfold run at h
    by_cases hk : isSet k = true
    · simp only [hk, if_true] at h
      cases hd : decodeSet k with
      | none => simp [hd] at h
      | some s =>
        simp only [hd] at h
        have := ih _ h
        simp [this, pageOf, hk]
    · simp only [hk] at h
      have := ih _ h
      simp [this, hk]

theorem run_ok_iff (kids : List Node) (st : State) :
    (run kids st).isSome = (kids.filter isSet).all (fun k => (decodeSet k).isSome) := by
  induction kids generalizing st with
  | nil => simp [run]
  | cons k ks ih =>
    unfold run
    by_cases hk : isSet k = true
    · cases hd : decodeSet k with
      | none => simp [hk, hd]
      | some s => simp [hk, hd, ih]
    · simp [hk, ih]

theorem lastSet_cons_set (k : Node) (ks : List Node) (hk : isSet k = true) :
    lastSet (k :: ks) = match lastSet ks with | none => some k | some l => some l := by
  simp only [lastSet, List.filter_cons, hk, if_true]
  cases hl : (ks.filter isSet).getLast? with
  | none =>
    have : ks.filter isSet = [] := by simpa using hl
    simp [this]
  | some l =>
    have hne : ks.filter isSet ≠ [] := by intro e; simp [e] at hl
    rw [List.getLast?_cons_of_ne_nil hne]; exact hl

theorem lastSet_cons_other (k : Node) (ks : List Node) (hk : ¬ isSet k = true) :
    lastSet (k :: ks) = lastSet ks := by
  simp [lastSet, List.filter_cons, hk]

/-- without a `set` child the page state is untouched -/
theorem run_page_none (kids : List Node) (st st' : State) (h : run kids st = some st')
    (hn : lastSet kids = none) : (st'.cur, st'.next, st'.prev) = (st.cur, st.next, st.prev) := by
  induction kids generalizing st with
  | nil => simp [run] at h; simp [← h]
  | cons k ks ih =>
    unfold run at h
    by_cases hk : isSet k = true
    · rw [lastSet_cons_set k ks hk] at hn
      cases hl : lastSet ks <;> simp [hl] at hn
    · simp only [hk] at h
      rw [lastSet_cons_other k ks hk] at hn
      simpa using ih _ h hn

/-- the page state only depends on the last `set` child -/
theorem run_page_some (kids : List Node) (st st' : State) (k : Node) (h : run kids st = some st')
    (hl : lastSet kids = some k) :
    ∃ s, decodeSet k = some s ∧ st'.cur = some s ∧
      st'.next = (if s.last = "" then none else some s.last) ∧
      st'.prev = (if s.first = "" then none else some s.first) := by
  induction kids generalizing st with
  | nil => simp [lastSet] at hl
  | cons k' ks ih =>
    unfold run at h
    by_cases hk : isSet k' = true
    · simp only [hk, if_true] at h
      rw [lastSet_cons_set k' ks hk] at hl
      cases hd : decodeSet k' with
      | none => simp [hd] at h
      | some s =>
        simp only [hd] at h
        cases hls : lastSet ks with
        | none =>
          simp only [hls, Option.some.injEq] at hl
          subst hl
          have := run_page_none ks _ st' h hls
          simp only [pageOf, Prod.mk.injEq] at this
          exact ⟨s, hd, this.1, this.2.1, this.2.2⟩
        | some l =>
          simp only [hls, Option.some.injEq] at hl
          subst hl
          exact ih _ h hls
    · simp only [hk] at h
      rw [lastSet_cons_other k' ks hk] at hl
      exact ih _ h hl

end XmppModel.PagingIter
