import XmppModel.Lemmas.NegotiateDyn
/-!
`InvP` (what the initiator caches from a features list) for a stream configuration that depends on
the session: every cached / kept feature is one the config function returns **for the state in which
the list is read** (review A, C01-3).
-/
namespace XmppModel.Negotiate

variable {F : St → List Feature} {O : Oracle} {st0 : St} {script : List Peer} {picks : List FName}

/-- control points at which the initiator reads a features list -/
def inRead : Pc → Bool
  | .readList | .parsing _ | .blocked .listRd => true
  | _ => false

/-- while a list is read the state does not change, and reading starts at `feat` -/
theorem read_keeps (C : List Feature) (O : Oracle) (c : Conf) (h : inRead (step C O c).pc = true) :
    (step C O c).st = c.st ∧ (c.pc = .feat ∨ inRead c.pc = true) := by
  revert h
  step_all
  all_goals intro h
  all_goals first
    | (simp_all [inRead]; done)
    | (exact ⟨rfl, by simp_all [inRead]⟩)

/-- the configuration of the negotiator call is the one for the current state while a list is read -/
theorem cfgRead_reachD {d : DConf} (h : ReachD F O st0 script picks d) :
    inRead d.c.pc = true → d.cfg = F d.c.st := by
  refine reachD_ind (P := fun d => inRead d.c.pc = true → d.cfg = F d.c.st) ?_ ?_ d h
  · intro h; cases h
  · intro d _ hd hr
    show cfgAt F d.c d.cfg = F (step (cfgAt F d.c d.cfg) O d.c).st
    obtain ⟨hst, hp⟩ := read_keeps _ O d.c hr
    rw [hst]
    unfold cfgAt
    rcases hp with hp | hp
    · simp [hp]
    · have hne : d.c.pc ≠ .feat := by intro h'; rw [h'] at hp; cases hp
      simp [hne, hd hp]

structure InvPD (F : St → List Feature) (script0 : List Peer) (c : Conf) : Prop where
  pre : c.pc = .readList → c.cache = []
  rem : ∀ items, c.pc = .parsing items → ∀ i ∈ items, i ∈ c.curAdv
  advSrc : c.curAdv = [] ∨ Peer.adv c.curAdv ∈ script0
  parsing : inParsing c.pc = true → ∀ e ∈ c.cache,
    e.f ∈ F c.st ∧ eligible c.st e.f = true ∧ ∃ req, AdvItem.feat e.f.name req ∈ c.curAdv
  inOK : ∀ st fs adv es, Ev.listIn st fs adv es ∈ c.tr → (adv = [] ∨ Peer.adv adv ∈ script0) ∧
    ∀ f ∈ fs, f ∈ F st ∧ eligible st f = true ∧ ∃ req, AdvItem.feat f.name req ∈ adv

theorem invPD_step (F : St → List Feature) (C : List Feature) (O : Oracle) (script0 : List Peer)
    (c : Conf) (hsub : ∀ p ∈ c.script, p ∈ script0) (hC : inRead c.pc = true → C = F c.st)
    (h : InvPD F script0 c) : InvPD F script0 (step C O c) := by
  obtain ⟨h0, hr, ha, h7, h8⟩ := h
  step_all
  all_goals (constructor <;> (try dsimp only))
  all_goals first
    | exact h0
    | exact hr
    | exact ha
    | exact h7
    | exact h8
    | (intro h; cases h; done)
    | (intro _ h; cases h; done)
    | (intro _; rfl)
    | (intro items hi; cases hi; intro i hi; exact hi)
    | (intro items hi; cases hi; intro i hi
       exact hr _ ‹c.pc = _› i (List.mem_cons_of_mem _ hi))
    | (right; exact hsub _ (by simp_all))
    | (intro st fs adv es hm
       simp only [List.mem_cons] at hm
       rcases hm with hm | hm
       · first
         | (cases hm; done)
         | (cases hm
            refine ⟨ha, ?_⟩
            intro f hf
            obtain ⟨e, he, rfl⟩ := List.mem_map.mp hf
            exact h7 (by simp_all [inParsing]) e he)
       · exact h8 _ _ _ _ hm)
    | (intro _ e he
       have hh := put_mem he
       have hn := find_name ‹List.find? _ C = some _›
       have hmem := List.mem_of_find?_eq_some ‹List.find? _ C = some _›
       have hin := hr _ ‹c.pc = _› _ List.mem_cons_self
       have hC' : C = F c.st := hC (by rw [‹c.pc = _›]; rfl)
       rw [hC'] at hmem
       rcases hh with rfl | hh
       · dsimp only
         rw [hn]
         exact ⟨hmem, ‹eligible c.st _ = true›, _, hin⟩
       · exact h7 (by simp_all [inParsing]) e hh)
    | (simp_all [inParsing]; done)
    | skip

theorem invS_reachD {d : DConf} (h : ReachD F O st0 script picks d) : InvS script d.c :=
  reachD_lift (P := InvS script) (invS_reach (C := []) (O := O) (st0 := st0) (picks := picks) ⟨0, rfl⟩)
    (fun C c => invS_step C O script c) h

theorem invPD_reach {d : DConf} (h : ReachD F O st0 script picks d) : InvPD F script d.c := by
  refine reachD_ind (P := fun d => InvPD F script d.c) ?_ ?_ d h
  · refine ⟨?_, ?_, Or.inl rfl, ?_, ?_⟩
    · intro h; cases h
    · intro _ h; cases h
    · intro h; cases h
    · intro _ _ _ _ h; cases h
  · intro d hd hp
    apply invPD_step F _ O script d.c (invS_reachD hd).sub _ hp
    intro hr
    have hne : d.c.pc ≠ .feat := by intro h'; rw [h'] at hr; cases hr
    unfold cfgAt
    simp [hne, cfgRead_reachD hd hr]

end XmppModel.Negotiate
