import XmppModel.Model.Deadline
/-! Lemmas about the deadline state of a recorded call sequence. -/
namespace XmppModel.Deadline

theorem after_append (s : Dl) (l m : List Call) : after s (l ++ m) = after (after s l) m := by
  simp [after, List.foldl_append]

/-- `SetDeadline(t)` is `SetReadDeadline(t)` followed by `SetWriteDeadline(t)` (either order) -/
theorem apply_both (s : Dl) (t : Nat) :
    apply s (0, t) = apply (apply s (1, t)) (2, t) ∧ apply s (0, t) = apply (apply s (2, t)) (1, t) := by
  simp [apply]

/-- a sequence during which no deadline is ever in the past ends in a state without one -/
theorem after_of_not_everPast (s : Dl) (l : List Call) (h : everPast s l = false) :
    hasPast (after s l) = false := by
  induction l generalizing s with
  | nil => simpa [everPast, after] using h
  | cons c l ih =>
    simp only [everPast, Bool.or_eq_false_iff] at h
    simpa [after] using ih (apply s c) h.2

/-- … and so does every prefix of it -/
theorem prefix_of_not_everPast (s : Dl) (l m : List Call) (h : everPast s (l ++ m) = false) :
    everPast s l = false := by
  induction l generalizing s with
  | nil =>
    cases m with
    | nil => simpa using h
    | cons c m => simp only [List.nil_append, everPast, Bool.or_eq_false_iff] at h; simpa [everPast] using h.1
  | cons c l ih =>
    simp only [List.cons_append, everPast, Bool.or_eq_false_iff] at h ⊢
    exact ⟨h.1, ih _ h.2⟩

/-- clearing both deadlines leaves none in the past, whatever came before -/
theorem clear_clears (s : Dl) : hasPast (apply s (0, 0)) = false := by
  simp [apply, hasPast]

end XmppModel.Deadline
