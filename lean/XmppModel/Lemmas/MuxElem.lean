import XmppModel.Model.MuxElem
import XmppModel.Lemmas.Mux
/-!
Helper lemmas for the round-E theorems of C14: congruence of the dispatch in the lookups it
makes, the attribute loop with a rejecting address parser, dispatches in flight.
-/
namespace XmppModel.Mux
open XmppModel.Xml

/-! ### lookups -/

theorem firstHit_false (has : Name → Bool) (h : ∀ s, has s = false) : ∀ l, firstHit has l = none := by
  intro l
  induction l with
  | nil => rfl
  | cons a l ih => simp [firstHit, h a, ih]

/-- a table without patterns of kind `k` answers no lookup of kind `k` -/
theorem lookup_none_of_no_kind (t : Table) (k : Kind) (typ : String) (n : Name)
    (h : ∀ p ∈ t, p.kind ≠ k) : lookup t k typ n = none := by
  unfold lookup
  rw [firstHit_false]
  · rfl
  · intro s
    simp only [decide_eq_false_iff_not]
    intro hm
    exact h _ hm rfl

theorem lookup_filter (tbl : Table) (k : Kind) (typ : String) (n : Name) :
    lookup tbl k typ n = lookup (tbl.filter fun p => p.kind == k && p.typ == typ) k typ n := by
  unfold lookup
  congr 1
  congr 1
  funext s
  simp [List.mem_filter]

/-- without a matching top-level pattern `Handler` decides by `stanza.Is` alone -/
theorem route_no_top (tbl : Table) (ns : String) (n : Name) (h : lookup tbl .top "" n = none) :
    route tbl ns n =
      if isStanzaFor ns n then
        (if n.loc == "iq" then .iqRouter else if n.loc == "message" then .msgRouter else .presRouter)
      else .nop := by
  simp [route, h, isStanzaFor]

/-! ### the dispatch depends on the table through its lookups only -/

theorem dispatchChildren_congr (t1 t2 : Table) (k : Kind) (typ : String)
    (h : ∀ n, lookup t1 k typ n = lookup t2 k typ n) :
    ∀ (cs : List (Nat × Name)) (cons : List Nat) (b : BR),
      dispatchChildren t1 k typ cs cons b = dispatchChildren t2 k typ cs cons b := by
  intro cs
  induction cs with
  | nil => intro cons b; simp [dispatchChildren]
  | cons c cs ih =>
    intro cons b
    obtain ⟨pos, n⟩ := c
    unfold dispatchChildren
    rw [h n]
    cases lookup t2 k typ n with
    | none => simp only [ih]
    | some p => simp only [ih]

theorem forChildren_congr (t1 t2 : Table) (k : Kind) (typ : String)
    (h : ∀ n, lookup t1 k typ n = lookup t2 k typ n) (stanza : List Tok) (cons : List Nat) :
    forChildren t1 k typ stanza cons = forChildren t2 k typ stanza cons := by
  cases stanza with
  | nil => rfl
  | cons s body => simp only [forChildren, dispatchChildren_congr t1 t2 k typ h, h]

theorem iqRoute_congr (t1 t2 : Table) (typ : String)
    (h : ∀ n, lookup t1 .iq typ n = lookup t2 .iq typ n) (stanza : List Tok) (c : Nat) :
    iqRoute t1 typ stanza c = iqRoute t2 typ stanza c := by
  cases stanza with
  | nil => rfl
  | cons s body => simp only [iqRoute, iqDispatch, h]

/-! ### the attribute loop with a parser that may reject -/

theorem foldl_hdrStepP_none (parse : ParseFn) (k : Kind) (attrs : List Attr) :
    attrs.foldl (hdrStepP parse k) none = none := by
  induction attrs with
  | nil => rfl
  | cons a as ih => simpa [hdrStepP] using ih

/-- is `a` an own, non-empty address attribute -/
def ownAddr (a : Attr) : Bool :=
  a.name.space == "" && (a.name.loc == "to" || a.name.loc == "from") && a.value != ""

theorem hdrStepP_bad (parse : ParseFn) (k : Kind) (h : Option Hdr) (a : Attr)
    (ha : ownAddr a = true) (hp : parse a.value = none) : hdrStepP parse k h a = none := by
  cases h with
  | none => rfl
  | some h =>
    simp only [ownAddr, Bool.and_eq_true, Bool.or_eq_true, beq_iff_eq, bne_iff_ne, ne_eq] at ha
    obtain ⟨⟨hs, hl⟩, hv⟩ := ha
    rcases hl with hl | hl
    · simp [hdrStepP, hs, hl, hv, hp]
    · simp [hdrStepP, hs, hl, hv, hp]

theorem stanzaHdrP_bad (parse : ParseFn) (k : Kind) (pre post : List Attr) (a : Attr)
    (ha : ownAddr a = true) (hp : parse a.value = none) :
    stanzaHdrP parse k (pre ++ a :: post) = none := by
  simp only [stanzaHdrP, List.foldl_append, List.foldl_cons]
  rw [hdrStepP_bad parse k _ a ha hp, foldl_hdrStepP_none]

theorem hdrStepP_ok (parse : ParseFn) (k : Kind) (h : Hdr) (a : Attr)
    (hp : ownAddr a = true → parse a.value = some a.value) :
    hdrStepP parse k (some h) a = some (hdrStep k h a) := by
  by_cases hs : a.name.space = ""
  · by_cases hto : a.name.loc = "to"
    · by_cases hv : a.value = ""
      · simp [hdrStepP, hdrStep, hs, hto, hv]
      · have := hp (by simp [ownAddr, hs, hto, hv])
        simp [hdrStepP, hdrStep, hs, hto, hv, this]
    · by_cases hfr : a.name.loc = "from"
      · by_cases hv : a.value = ""
        · simp [hdrStepP, hdrStep, hs, hfr, hv]
        · have := hp (by simp [ownAddr, hs, hfr, hv])
          simp [hdrStepP, hdrStep, hs, hfr, hv, this]
      · simp [hdrStepP, hs, hto, hfr]
  · simp [hdrStepP, hdrStep, hs]

theorem foldl_hdrStepP_ok (parse : ParseFn) (k : Kind) (attrs : List Attr) :
    ∀ h : Hdr, (∀ a ∈ attrs, ownAddr a = true → parse a.value = some a.value) →
      attrs.foldl (hdrStepP parse k) (some h) = some (attrs.foldl (hdrStep k) h) := by
  induction attrs with
  | nil => intro h _; rfl
  | cons a as ih =>
    intro h hall
    simp only [List.foldl_cons]
    rw [hdrStepP_ok parse k h a (hall a (List.mem_cons_self ..))]
    exact ih _ (fun b hb => hall b (List.mem_cons_of_mem _ hb))

theorem stanzaHdrP_ok (parse : ParseFn) (k : Kind) (attrs : List Attr)
    (hall : ∀ a ∈ attrs, ownAddr a = true → parse a.value = some a.value) :
    stanzaHdrP parse k attrs = some (stanzaHdr k attrs) :=
  foldl_hdrStepP_ok parse k attrs _ hall

theorem hdrStepP_some (parse : ParseFn) (k : Kind) (h : Hdr) (a : Attr)
    (hp : ownAddr a = true → parse a.value ≠ none) :
    ∃ h', hdrStepP parse k (some h) a = some h' := by
  by_cases hs : a.name.space = ""
  · by_cases hto : a.name.loc = "to"
    · by_cases hv : a.value = ""
      · exact ⟨h, by simp [hdrStepP, hs, hto, hv]⟩
      · have := hp (by simp [ownAddr, hs, hto, hv])
        cases hq : parse a.value with
        | none => exact absurd hq this
        | some v => exact ⟨{ h with to := v }, by simp [hdrStepP, hs, hto, hv, hq]⟩
    · by_cases hfr : a.name.loc = "from"
      · by_cases hv : a.value = ""
        · exact ⟨h, by simp [hdrStepP, hs, hfr, hv]⟩
        · have := hp (by simp [ownAddr, hs, hfr, hv])
          cases hq : parse a.value with
          | none => exact absurd hq this
          | some v => exact ⟨{ h with frm := v }, by simp [hdrStepP, hs, hfr, hv, hq]⟩
      · exact ⟨hdrStep k h a, by simp [hdrStepP, hs, hto, hfr]⟩
  · exact ⟨h, by simp [hdrStepP, hs]⟩

theorem foldl_hdrStepP_none_iff (parse : ParseFn) (k : Kind) (attrs : List Attr) : ∀ h : Hdr,
    attrs.foldl (hdrStepP parse k) (some h) = none ↔
      ∃ a ∈ attrs, ownAddr a = true ∧ parse a.value = none := by
  induction attrs with
  | nil => intro h; simp
  | cons a as ih =>
    intro h
    simp only [List.foldl_cons]
    by_cases hb : ownAddr a = true ∧ parse a.value = none
    · rw [hdrStepP_bad parse k _ a hb.1 hb.2, foldl_hdrStepP_none]
      exact ⟨fun _ => ⟨a, List.mem_cons_self .., hb⟩, fun _ => rfl⟩
    · obtain ⟨h', hh⟩ := hdrStepP_some parse k h a (fun ho hn => hb ⟨ho, hn⟩)
      rw [hh, ih h']
      constructor
      · rintro ⟨b, hbm, hbb⟩; exact ⟨b, List.mem_cons_of_mem _ hbm, hbb⟩
      · rintro ⟨b, hbm, hbb⟩
        rcases List.mem_cons.mp hbm with rfl | hbm
        · exact absurd hbb hb
        · exact ⟨b, hbm, hbb⟩

/-! ### dispatches in flight -/

theorem Flight.own_token (f : Framing) (fl : Flight) (i : Nat) (h : fl.own) : (fl.token f i).2.own := by
  intro j
  simp only [Flight.token, upd]
  by_cases hj : j = i
  · subst hj; simp [h j]
  · simp [hj, h j]

theorem Flight.view_token_self (f : Framing) (fl : Flight) (i : Nat) (h : fl.own) :
    (fl.token f i).2.view i = (BufR.token f (fl.view i)).2.2 := by
  simp [Flight.token, Flight.view, upd, h i]

theorem Flight.view_token_other (f : Framing) (fl : Flight) (i j : Nat) (h : fl.own) (hij : j ≠ i) :
    (fl.token f j).2.view i = fl.view i := by
  have hij' : i ≠ j := fun e => hij e.symm
  simp [Flight.token, Flight.view, upd, h i, h j, hij']

theorem Flight.run_proj (f : Framing) (i : Nat) : ∀ (sched : List Nat) (fl : Flight), fl.own →
    ((Flight.run f sched fl).filter (·.1 == i)).map (·.2) = BufR.readSeq f (sched.count i) (fl.view i) := by
  intro sched
  induction sched with
  | nil => intro fl _; simp [Flight.run, BufR.readSeq]
  | cons j sched ih =>
    intro fl h
    by_cases hj : j = i
    · subst hj
      have := ih _ (Flight.own_token f fl j h)
      rw [Flight.view_token_self f fl j h] at this
      simp only [Flight.run, List.filter_cons, beq_self_eq_true, if_true, List.map_cons,
        List.count_cons_self, BufR.readSeq, this]
      rfl
    · have := ih _ (Flight.own_token f fl j h)
      rw [Flight.view_token_other f fl i j h hj] at this
      have hb : (j == i) = false := by simp [hj]
      simp only [Flight.run, List.filter_cons, hb, Bool.false_eq_true, if_false, this]
      rw [List.count_cons_of_ne hj]

/-! ### a failing reader -/

theorem childrenAux_take_prefix : ∀ (ts : List Tok) (m i d : Nat),
    childrenAux (ts.take m) i d <+: childrenAux ts i d := by
  intro ts
  induction ts with
  | nil => intro m i d; simp [childrenAux]
  | cons t ts ih =>
    intro m i d
    cases m with
    | zero => simp [childrenAux]
    | succ m =>
      simp only [List.take_succ_cons]
      cases t with
      | start n as =>
        simp only [childrenAux]
        split
        · exact List.cons_prefix_cons.mpr ⟨rfl, ih m _ _⟩
        · exact ih m _ _
      | stop n =>
        simp only [childrenAux]
        split
        · exact List.prefix_refl _
        · exact ih m _ _
      | chars x => simpa [childrenAux] using ih m (i + 1) d
      | comment x => simpa [childrenAux] using ih m (i + 1) d
      | procInst x y => simpa [childrenAux] using ih m (i + 1) d
      | directive x => simpa [childrenAux] using ih m (i + 1) d

theorem children_take_prefix (stanza : List Tok) (m : Nat) :
    children (stanza.take m) <+: children stanza := childrenAux_take_prefix stanza m 0 0

theorem specCalls_pats (tbl : Table) (k : Kind) (typ : String) (stanza : List Tok) :
    ∀ (cs : List (Nat × Name)) (cons : List Nat),
      (specCalls tbl k typ stanza cs cons).map (·.pat) = cs.map fun c => lookup tbl k typ c.2 := by
  intro cs
  induction cs with
  | nil => intro cons; simp [specCalls]
  | cons c cs ih =>
    intro cons
    obtain ⟨pos, n⟩ := c
    unfold specCalls
    cases hl : lookup tbl k typ n <;> simp [ih, hl]

theorem forChildrenCut_spec (tbl : Table) (k : Kind) (typ : String) (stanza : List Tok)
    (cons : List Nat) (cut : Nat) :
    forChildrenCut tbl k typ stanza cons cut
      = specCalls tbl k typ (stanza.take cut) (children (stanza.take cut)) cons := by
  unfold forChildrenCut
  cases h : stanza.take cut with
  | nil => simp [children, childrenAux, specCalls]
  | cons start body =>
    simp only [dispatchChildrenG_eq]
    exact (dispatchChildren_spec tbl k typ (start :: body) _ cons ⟨[start], body⟩ rfl).1

end XmppModel.Mux
