import XmppModel.Model.Form
import XmppModel.Lemmas.Payload
/-! Helper lemmas for the data form codec (C19). -/
namespace XmppModel.Form
open XmppModel XmppModel.Xml XmppModel.Payload

theorem kidsNamed_append (loc : String) (a b : List Node) :
    kidsNamed loc (a ++ b) = kidsNamed loc a ++ kidsNamed loc b := by
  induction a with
  | nil => simp [kidsNamed]
  | cons k ks ih =>
    cases k with
    | elem n as kk =>
      by_cases h : n.loc = loc <;> simp [kidsNamed, h, ih]
    | text s => simp [kidsNamed, ih]

theorem textOf_textKid (s : String) : textOf (textKid s) = s := by
  by_cases h : s = "" <;> simp [textKid, textOf, h]

/-- children built by `leaf sp loc` seen through `kidsNamed` -/
theorem kidsNamed_leaves (sp loc loc' : String) (l : List String) :
    kidsNamed loc' (l.map (leaf sp loc)) =
      if loc = loc' then l.map (fun s => (([] : List Attr), textKid s)) else [] := by
  induction l with
  | nil => simp [kidsNamed]
  | cons s ss ih =>
    by_cases h : loc = loc' <;> simp_all [kidsNamed, leaf]

theorem kidsNamed_opts (loc' : String) (l : List Opt) :
    kidsNamed loc' (l.map encodeOpt) =
      if "option" = loc' then l.map (fun o => ([at' "label" o.label], [leaf ns "value" o.value])) else [] := by
  induction l with
  | nil => simp [kidsNamed]
  | cons s ss ih =>
    by_cases h : "option" = loc' <;> simp_all [kidsNamed, encodeOpt]

theorem decodeOpt_encode (o : Opt) :
    decodeOpt [at' "label" o.label] [leaf ns "value" o.value] = o := by
  simp [decodeOpt, attrOrEmpty, attrLast, at', kidsNamed, leaf, lastText, textOf_textKid]

theorem decodeOpt_encode' (o : Opt) :
    decodeOpt [at' "label" o.label] [Node.elem ⟨ns, "value"⟩ [] (textKid o.value)] = o :=
  decodeOpt_encode o

/-! ### the attribute list of a field -/

theorem field_attr_type (f : Field) :
    attrOrEmpty (optAttr "label" f.label ++ [at' "type" f.typ] ++ optAttr "var" f.var) "type" = f.typ := by
  by_cases hl : f.label = "" <;> by_cases hv : f.var = "" <;>
    simp [attrOrEmpty, attrLast, optAttr, at', hl, hv]

theorem field_attr_var (f : Field) :
    attrOrEmpty (optAttr "label" f.label ++ [at' "type" f.typ] ++ optAttr "var" f.var) "var" = f.var := by
  by_cases hl : f.label = "" <;> by_cases hv : f.var = "" <;>
    simp [attrOrEmpty, attrLast, optAttr, at', hl, hv]

theorem field_attr_label (f : Field) :
    attrOrEmpty (optAttr "label" f.label ++ [at' "type" f.typ] ++ optAttr "var" f.var) "label" = f.label := by
  by_cases hl : f.label = "" <;> by_cases hv : f.var = "" <;>
    simp [attrOrEmpty, attrLast, optAttr, at', hl, hv]

/-- decoding the tree written for a field gives the field's normal form -/
theorem decodeField_encodeField (jn : JidNorm) (f : Field) :
    (match encodeField jn f with
     | .elem _ as ks => decodeField as ks
     | .text _ => f) = canonField jn f := by
  simp only [encodeField, decodeField, canonField]
  rw [field_attr_type, field_attr_var, field_attr_label]
  simp only [kidsNamed_append, kidsNamed_leaves]
  by_cases hd : f.desc = "" <;> by_cases hr : f.required = true <;> by_cases hl : isList f.typ = true <;>
    simp [hd, hr, hl, kidsNamed, kidsNamed_opts, leaf, lastText, textOf_textKid, decodeOpt_encode', Function.comp_def]

/-! ### the token loop -/

theorem decodeKids_append (acc : Form) (a b : List Node) :
    decodeKids acc (a ++ b) = (decodeKids acc a).bind (fun acc' => decodeKids acc' b) := by
  induction a generalizing acc with
  | nil => simp [decodeKids]
  | cons k ks ih =>
    cases k with
    | text s => simp [decodeKids, ih]
    | elem n as kk =>
      simp only [List.cons_append, decodeKids]
      split
      · exact ih _
      · split
        · exact ih _
        · split
          · exact ih _
          · simp

theorem accInstr_append (cur : String) (a b : List String) :
    accInstr cur (a ++ b) = accInstr (accInstr cur a) b := by
  induction a generalizing cur with
  | nil => simp [accInstr]
  | cons l ls ih => simp [accInstr, ih]

theorem decodeKids_instr (acc : Form) (ls : List String) :
    decodeKids acc (ls.map (leaf ns "instructions")) =
      some { acc with instructions := accInstr acc.instructions ls } := by
  induction ls generalizing acc with
  | nil => simp [decodeKids, accInstr]
  | cons l ls ih =>
    simp only [List.map_cons, leaf, decodeKids]
    simp only [show ("instructions" = "title") = False by decide, if_false, if_true]
    have := ih { acc with instructions := accInstr acc.instructions [textOf (textKid l)] }
    rw [this]
    simp [accInstr, textOf_textKid]

theorem decodeKids_fields (jn : JidNorm) (acc : Form) (fs : List Field) :
    decodeKids acc (fs.map (encodeField jn)) =
      some { acc with fields := acc.fields ++ fs.map (canonField jn) } := by
  induction fs generalizing acc with
  | nil => simp [decodeKids]
  | cons f fs ih =>
    have hf := decodeField_encodeField jn f
    simp only [List.map_cons]
    generalize he : encodeField jn f = node at hf
    cases node with
    | text s => simp [encodeField] at he
    | elem n as ks =>
      have hn : n = ⟨ns, "field"⟩ := by simp [encodeField] at he; exact he.1.symm
      subst hn
      simp only [decodeKids]
      simp only [show ("field" = "title") = False by decide, show ("field" = "instructions") = False by decide, if_false, if_true]
      simp only at hf
      rw [ih, hf]
      simp

/-! ### submission -/

theorem submitField_eq (jn : JidNorm) (frm : Form) (vals : Vals) (f : Field) :
    submitField jn frm vals f = (submittedField jn frm vals f).map (encodeField jn) := by
  unfold submitField submittedField
  by_cases h1 : f.typ = "fixed"
  · simp [h1]
  · by_cases h2 : (!f.required && !(Form.get jn frm vals f.var).2) = true
    · simp [h1, h2]
    · simp [h1, h2]

theorem decodeForm_submit (jn : JidNorm) (frm : Form) (vals : Vals) :
    decodeForm (submit jn frm vals).1 =
      some { title := "", instructions := "", typ := "submit",
             fields := (frm.fields.filterMap
               (submittedField jn ⟨"", "", "submit", frm.fields⟩ vals)).map (canonField jn) } := by
  have hne : nonEmptyLines "" = [] := by decide
  have hfm : frm.fields.filterMap (submitField jn ⟨"", "", "submit", frm.fields⟩ vals) =
      (frm.fields.filterMap (submittedField jn ⟨"", "", "submit", frm.fields⟩ vals)).map (encodeField jn) := by
    rw [List.map_filterMap]
    congr 1
    funext f
    rw [submitField_eq]
  simp only [submit, encodeForm, decodeForm, headKids, if_true, hne, List.map_nil, List.nil_append, hfm]
  have ht : attrLocal [at' "type" "submit"] "type" = some "submit" := by decide
  rw [ht, decodeKids_fields]
  simp

/-! ### line splitting -/

theorem splitNL_line (l : List Char) (h : ∀ c ∈ l, isNL c = false) : splitNL l = [l] := by
  induction l with
  | nil => simp [splitNL]
  | cons c cs ih =>
    have hc : isNL c = false := h c (by simp)
    have := ih (fun c hc => h c (by simp [hc]))
    simp [splitNL, hc, this]

theorem splitNL_line_nl (l r : List Char) (h : ∀ c ∈ l, isNL c = false) :
    splitNL (l ++ '\n' :: r) = l :: splitNL r := by
  induction l with
  | nil =>
    have : isNL '\n' = true := by decide
    simp [splitNL, this]
  | cons c cs ih =>
    have hc : isNL c = false := h c (by simp)
    have := ih (fun c hc => h c (by simp [hc]))
    simp [splitNL, hc, this]

end XmppModel.Form
