import XmppModel.Lemmas.NegotiateAdv
/-!
`Session.features` (review A, C01-2): the data handed to `Negotiate`.

`readStreamFeatures` stores what `Parse` returned under the namespace of the feature
(`s.features[ns] = data`, only for a feature whose masks hold), `negotiateFeatures` hands
`s.features[ns]` to `Negotiate`, `negotiateSession` empties the map when a step returned a new
connection (restart).  `featsOf` is that map as a function of the trace: namespace ↦ the `Parse`
call whose result is stored (the feature and the position of its `parse` event).  It is exact for
the namespaces of the current cache (for other namespaces the code may hold a nil entry where
`featsOf` still shows an older call of the same stream; `Negotiate` is never called for those).
-/
namespace XmppModel.Negotiate

def featsOf : List Ev → Nat → Option (Feature × Nat)
  | [], _ => none
  | e :: rest, ns =>
    match e with
    | .parse f st _ err =>
      if !err && eligible st f && f.name.ns == ns then some (f, rest.length) else featsOf rest ns
    | .neg _ _ _ _ _ r => if r.restart && !r.err then none else featsOf rest ns
    | _ => featsOf rest ns

/-- every `Negotiate` of the initiating side, except the forced STARTTLS attempt, is handed the
result of a `Parse` call of the **same feature** that is still stored, i.e. made since the last
restart and not overwritten by a later feature of that namespace -/
def DataOK : List Ev → Prop
  | [] => True
  | e :: rest =>
    (match e with
     | .neg f _ _ forced srv _ => forced = true ∨ srv = true ∨ ∃ k, featsOf rest f.name.ns = some (f, k)
     | _ => True) ∧ DataOK rest

theorem put_mem' {c : Cache} {e x : Entry} (h : x ∈ c.put e) :
    x = e ∨ (x ∈ c ∧ (x.f.name.ns == e.f.name.ns) = false) := by
  unfold Cache.put at h
  simp only [List.mem_cons] at h
  rcases h with h | h
  · exact Or.inl h
  · have := List.mem_filter.mp h
    exact Or.inr ⟨this.1, by simpa using this.2⟩

def inInit : Pc → Bool
  | .parsing _ | .decide | .cloop _ | .sloop | .selected _ => true
  | _ => false

/-- control points of the receiving side -/
def onRecv : Pc → Bool
  | .listing _ | .flush | .abort | .sloop | .selected _ | .blocked (.listOut _ _) | .blocked .selRd => true
  | _ => false

structure InvFt (c : Conf) : Prop where
  role : onRecv c.pc = true → c.srv = true
  ok : DataOK c.tr
  pre : c.pc = .readList → c.cache = []
  cache : c.srv = false → inInit c.pc = true →
    ∀ e ∈ c.cache, ∃ k, featsOf c.tr e.f.name.ns = some (e.f, k)

theorem invFt_step (C : List Feature) (O : Oracle) (c : Conf) (h : InvFt c) : InvFt (step C O c) := by
  obtain ⟨h4, h1, h2, h3⟩ := h
  step_all
  all_goals (constructor <;> (try dsimp only))
  all_goals first
    | exact h1
    | exact h2
    | exact h3
    | exact h4
    | (intro _; assumption)
    | (intro _; refine h4 ?_; rw [‹c.pc = _›]; rfl)
    | exact ⟨True.intro, h1⟩
    | (intro h; cases h; done)
    | (intro _; rfl)
    | (intro _ h; cases h; done)
    | (intro hs; refine absurd (h4 ?_) (by simp [hs]); rw [‹c.pc = _›]; rfl)
    | (intro _ _ e he; cases he; done)
    | (intro _ _ e he; rw [h2 ‹c.pc = _›] at he; cases he; done)
    | (simp_all [inInit]; done)
    | (intro hs _ e he
       have := h3 hs (by simp_all [inInit]) e he
       simpa [featsOf] using this)
    | (intro hs _ e he
       have := h3 hs (by simp_all [inInit]) e he
       simp_all [featsOf]; done)
    | (intro hs _ e he
       rcases put_mem' he with rfl | ⟨hm, hne⟩
       · exact ⟨c.tr.length, by simp_all [featsOf]⟩
       · obtain ⟨k, hk⟩ := h3 hs (by simp_all [inInit]) e hm
         refine ⟨k, ?_⟩
         simp only [featsOf]
         rw [if_neg]
         · exact hk
         · intro hh
           simp only [Bool.and_eq_true, beq_iff_eq] at hh
           simp only [beq_eq_false_iff_ne, ne_eq] at hne
           exact hne hh.2.symm)
    | (refine ⟨Or.inl rfl, h1⟩)
    | (refine ⟨?_, h1⟩
       have hm := candidates_spec c _ (allowed_sub _ _ (List.mem_of_find?_eq_some
         ‹List.find? _ (allowed (candidates c)) = some _›))
       cases hs : c.srv
       · exact Or.inr (Or.inr (h3 hs (by simp_all [inInit]) _ hm.1))
       · exact Or.inr (Or.inl rfl))
    | (refine ⟨?_, h1⟩
       cases hs : c.srv
       · exact Or.inr (Or.inr (h3 hs (by simp_all [inInit]) _ (cache_get_mem ‹c.cache.get _ = some _›)))
       · exact Or.inr (Or.inl rfl))
    | skip

end XmppModel.Negotiate
