import XmppModel.Model.CloseEnv
/-! Invariants of the round D models of `Model/CloseEnv.lean` (property C10). -/
namespace XmppModel.Close

namespace Tee

@[simp] theorem closeCount_nil : closeCount [] = 0 := rfl
@[simp] theorem closeCount_cons_el (w : List Item) : closeCount (.el :: w) = closeCount w := rfl
@[simp] theorem closeCount_cons_close (w : List Item) : closeCount (.close :: w) = closeCount w + 1 := rfl

theorem closeCount_append (a b : List Item) : closeCount (a ++ b) = closeCount a + closeCount b := by
  induction a with
  | nil => simp
  | cons x a ih => cases x <;> simp [ih] <;> omega

theorem final_append (w l : List Item) (h : closeCount w = 0) : final (w ++ l) = final l := by
  induction w with
  | nil => rfl
  | cons x w ih =>
    cases x with
    | el =>
      have h' : closeCount w = 0 := by simpa using h
      simpa [final] using ih h'
    | close => simp at h

theorem write_once (tf : Bool) : (write false tf).1 = 1 := by cases tf <;> rfl

/-- the closing invariant of the tee'd session (the code: no fallback write) -/
structure Inv (s : St) : Prop where
  count : closeCount s.wire = s.attempts
  opn : s.outClosed = false → s.attempts = 0
  cls : s.outClosed = true → s.attempts = 1 ∧ ∃ pre, s.wire = pre ++ [.close] ∧ closeCount pre = 0

theorem inv_init : Inv init := ⟨rfl, fun _ => rfl, fun h => by simp [init] at h⟩

theorem closeOut_inv (tf : Bool) (s : St) (h : Inv s) : Inv (closeOut false tf s).1 := by
  unfold closeOut
  by_cases hc : s.outClosed = true
  · simp [hc]; exact h
  · have hc' : s.outClosed = false := by simpa using hc
    have h0 := h.opn hc'
    have hw : closeCount s.wire = 0 := by rw [h.count, h0]
    simp only [hc', Bool.false_eq_true, if_false, write_once]
    refine ⟨?_, ?_, ?_⟩
    · simp [closeCount_append, List.replicate, hw, h0]
    · intro hx; simp at hx
    · intro _; exact ⟨by simp [h0], s.wire, by simp [List.replicate], hw⟩

theorem step_inv (tf : Bool) (s : St) (op : Op) (h : Inv s) : Inv (step false tf s op).1 := by
  cases op with
  | close => exact closeOut_inv tf s h
  | tx =>
    unfold step
    by_cases hc : s.outClosed = true
    · simp [hc]; exact h
    · have hc' : s.outClosed = false := by simpa using hc
      by_cases hd : s.encDead = true
      · simp [hc', hd]; exact h
      · have hd' : s.encDead = false := by simpa using hd
        simp only [hc', hd', Bool.false_eq_true, if_false, write_once]
        refine ⟨?_, ?_, ?_⟩
        · simp [closeCount_append, List.replicate, h.count]
        · intro _; exact h.opn hc'
        · intro hx; simp [hc'] at hx
  | peerClose =>
    unfold step
    by_cases hs : s.served = true
    · simp [hs]; exact h
    · have hs' : s.served = false := by simpa using hs
      simp only [hs', Bool.false_eq_true, if_false]
      exact closeOut_inv tf _ ⟨h.count, h.opn, h.cls⟩

theorem run_inv (fails : Nat → Bool) (ops : List Op) : ∀ (i : Nat) (s : St), Inv s → Inv (run false fails i s ops).1 := by
  induction ops with
  | nil => intro i s h; exact h
  | cons op ops ih => intro i s h; exact ih (i + 1) _ (step_inv (fails i) s op h)

theorem inv_final (s : St) (h : Inv s) : final s.wire = true := by
  by_cases hc : s.outClosed = true
  · obtain ⟨_, pre, hw, hp⟩ := h.cls hc
    rw [hw, final_append pre _ hp]; rfl
  · have hc' : s.outClosed = false := by simpa using hc
    have hw : closeCount s.wire = 0 := by rw [h.count, h.opn hc']
    have := final_append s.wire [] hw
    simpa [final] using this

end Tee

namespace WdHist

/-- the invariant of the joined watcher: the write deadline is never left in the past, so the
first `Close` always gets its tag through -/
structure Inv (s : St) : Prop where
  wd : s.wdPast = false
  count : Hist.closeCount s.wire = s.tags
  opn : s.outClosed = false → s.tags = 0
  cls : s.outClosed = true → s.tags = 1

theorem inv_init : Inv init := ⟨rfl, rfl, fun _ => rfl, fun h => by simp [init] at h⟩

theorem closeCount_snoc (w : List Hist.Item) (x : Hist.Item) :
    Hist.closeCount (w ++ [x]) = Hist.closeCount w + (if x = .close then 1 else 0) := by
  induction w with
  | nil => cases x <;> rfl
  | cons y w ih =>
    have hy : Hist.closeCount (y :: (w ++ [x])) = Hist.closeCount (w ++ [x]) + (if y = .close then 1 else 0) := by
      cases y <;> rfl
    have hy' : Hist.closeCount (y :: w) = Hist.closeCount w + (if y = .close then 1 else 0) := by
      cases y <;> rfl
    rw [List.cons_append, hy, hy', ih]; omega

theorem step_inv (s : St) (op : Op) (h : Inv s) : Inv (step true s op).1 := by
  cases op with
  | close =>
    unfold step
    by_cases hc : s.outClosed = true
    · simp [hc]; exact h
    · have hc' : s.outClosed = false := by simpa using hc
      simp only [hc', h.wd, Bool.false_eq_true, if_false]
      refine ⟨rfl, ?_, ?_, ?_⟩
      · simp [closeCount_snoc, h.count]
      · intro hx; simp at hx
      · intro _; simp [h.opn hc']
  | tx f =>
    unfold step
    by_cases hc : s.outClosed = true
    · simp [hc]; exact h
    · have hc' : s.outClosed = false := by simpa using hc
      by_cases hd : s.encDead = true
      · simp [hc', hd]; exact h
      · have hd' : s.encDead = false := by simpa using hd
        simp only [hc', hd', h.wd, Bool.false_eq_true, if_false]
        cases f with
        | alive => exact ⟨rfl, by simp [closeCount_snoc, h.count], fun _ => h.opn hc', fun hx => by simp at hx⟩
        | over => exact ⟨rfl, by simp [closeCount_snoc, h.count], fun _ => h.opn hc', fun hx => by simp at hx⟩
        | cancelled => exact ⟨rfl, h.count, fun _ => h.opn hc', fun hx => by simp at hx⟩
  | closeDeadline p => exact ⟨h.wd, h.count, h.opn, h.cls⟩

theorem run_inv (ops : List Op) : ∀ s : St, Inv s → Inv (run true s ops).1 := by
  induction ops with
  | nil => intro s h; exact h
  | cons op ops ih => intro s h; exact ih _ (step_inv s op h)

end WdHist

namespace RdLts

/-- the reader tests the bit per token -/
structure InvP (s : St) : Prop where
  bad : s.bad = false
  bit : (s.spc = .marked ∨ s.spc = .done) → s.bit = true

/-- the reader caches the bit, the shutdown takes the input lock -/
structure InvL (s : St) : Prop where
  bad : s.bad = false
  bit : (s.spc = .marked ∨ s.spc = .done) → s.bit = true
  hold : ∀ c, s.hpc = .holding c → s.inLock = some .h ∧ c = s.bit
  srv : (s.spc = .locked ∨ s.spc = .marked) → s.inLock = some .s

theorem invP_init : InvP init := ⟨rfl, fun h => by cases h <;> rename_i h <;> simp [init] at h⟩

theorem invL_init : InvL init :=
  ⟨rfl, fun h => by cases h <;> rename_i h <;> simp [init] at h, fun c h => by simp [init] at h,
   fun h => by cases h <;> rename_i h <;> simp [init] at h⟩

theorem step_invP (l : Bool) (s s' : St) (a : Act) (h : InvP s) (hs : step true l s a = some s') : InvP s' := by
  obtain ⟨bit, inLock, hpc, spc, tokens, bad⟩ := s
  obtain ⟨hb, hbit⟩ := h
  simp only at hb hbit
  subst hb
  cases a <;> cases hpc <;> cases spc <;> cases inLock <;> cases bit <;> cases l <;>
    simp [step] at hs <;> (try subst hs) <;> (try simp at hbit) <;> constructor <;> simp

theorem step_invL (s s' : St) (a : Act) (h : InvL s) (hs : step false true s a = some s') : InvL s' := by
  obtain ⟨bit, inLock, hpc, spc, tokens, bad⟩ := s
  obtain ⟨hb, hbit, hhold, hsrv⟩ := h
  simp only at hb hbit hhold hsrv
  subst hb
  cases a <;> rcases hpc with _ | (_ | _) | _ <;> cases spc <;> rcases inLock with _ | (_ | _) <;> cases bit <;>
    simp [step] at hs <;> (try subst hs) <;> (try simp at hbit) <;> (try simp at hsrv) <;> (try simp at hhold) <;>
    (try (constructor <;> simp_all))

theorem run_invP (l : Bool) (acts : List Act) : ∀ s, InvP s → InvP (run true l s acts) := by
  induction acts with
  | nil => intro s h; exact h
  | cons a acts ih =>
    intro s h
    simp only [run]
    cases hs : step true l s a with
    | none => exact ih s h
    | some s' => exact ih s' (step_invP l s s' a h hs)

theorem run_invL (acts : List Act) : ∀ s, InvL s → InvL (run false true s acts) := by
  induction acts with
  | nil => intro s h; exact h
  | cons a acts ih =>
    intro s h
    simp only [run]
    cases hs : step false true s a with
    | none => exact ih s h
    | some s' => exact ih s' (step_invL s s' a h hs)

end RdLts

end XmppModel.Close
