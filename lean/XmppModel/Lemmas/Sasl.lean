import XmppModel.Model.Sasl
/-! Helper definitions and lemmas for the C03 theorems. -/
namespace XmppModel.Sasl

/-- `RunsToDone mech hist ext`: the `Step` that received the last element of `hist` said
`more`, so did every later one while the challenges `ext` were handed over one by one,
except the last one, which said `done`.  No step is made after a `done` or an error. -/
def RunsToDone (mech : Mech) : List Bytes → List Bytes → Prop
  | hist, [] => (mech hist).kind = .done
  | hist, c :: cs => (mech hist).kind = .more ∧ RunsToDone mech (hist ++ [c]) cs

/-- the decoded payloads of the `<challenge/>` elements of a script, in order -/
def chalBytes : List CEv → List Bytes
  | [] => []
  | .challenge p :: r =>
    match p.decodeClient with
    | some c => c :: chalBytes r
    | none => chalBytes r
  | _ :: r => chalBytes r

/-- a consumed element that is a `<challenge/>` with decodable payload -/
def GoodChallenge (e : CEv) : Prop := ∃ q c, e = .challenge q ∧ q.decodeClient = some c

theorem CRes.after_authn (r : CRes) (s : List CSent) : (r.after s).authn = r.authn := rfl
theorem CRes.after_err (r : CRes) (s : List CSent) : (r.after s).err = r.err := rfl
theorem CRes.after_hist (r : CRes) (s : List CSent) : (r.after s).hist = r.hist := rfl
theorem CRes.after_consumed (r : CRes) (s : List CSent) : (r.after s).consumed = r.consumed + 1 := rfl
theorem CRes.after_sent (r : CRes) (s : List CSent) : (r.after s).sent = s ++ r.sent := rfl

theorem fail_authn (e : Err) (h : List Bytes) (n : Nat) : (fail e h n).authn = false := rfl

/-- what an authenticated `readFinal` has seen -/
theorem readFinal_sound (hist : List Bytes) (peer : List CEv)
    (h : (readFinal hist peer).authn = true) :
    (readFinal hist peer).err = .none ∧ (readFinal hist peer).hist = hist ∧
    (readFinal hist peer).sent = [] ∧
    ∃ p c rest, peer = .success p :: rest ∧ (readFinal hist peer).consumed = 1 ∧
      p.decodeClient = some c := by
  match peer with
  | [] => simp [readFinal, fail] at h
  | .success p :: rest =>
    cases hp : p.decodeClient with
    | none => simp [readFinal, hp, fail] at h
    | some c => simp [readFinal, hp]
  | .challenge _ :: _ => simp [readFinal, fail] at h
  | .failure _ :: _ => simp [readFinal, fail] at h
  | .other :: _ => simp [readFinal, fail] at h
  | .otherNs :: _ => simp [readFinal, fail] at h
  | .space :: _ => simp [readFinal, fail] at h

/-- the invariant of the client loop: if it ends authenticated, the challenges it handed
to the mechanism complete it, and the elements it read are decodable challenges followed by
one decodable `<success/>` -/
theorem clientLoop_sound (mech : Mech) (peer : List CEv) : ∀ (hist : List Bytes),
    (clientLoop mech hist peer).authn = true → (mech hist).kind = .more →
    (clientLoop mech hist peer).err = .none ∧
    ∃ ext pre p c rest, (clientLoop mech hist peer).hist = hist ++ ext ∧ RunsToDone mech hist ext ∧
      peer = pre ++ .success p :: rest ∧
      (clientLoop mech hist peer).consumed = pre.length + 1 ∧
      p.decodeClient = some c ∧ (∀ e ∈ pre, GoodChallenge e) ∧
      (ext = chalBytes pre ∨ ext = chalBytes pre ++ [c]) := by
  induction peer with
  | nil => intro hist h; simp [clientLoop, fail] at h
  | cons ev rest ih =>
    intro hist h hm
    cases ev with
    | challenge p =>
      cases hp : p.decodeClient with
      | none => simp [clientLoop, hp, fail] at h
      | some c =>
        cases hk : (mech (hist ++ [c])).kind with
        | more =>
          simp only [clientLoop, hp, hk, CRes.after_authn] at h
          obtain ⟨e1, ext, pre, q, d, rest', e2, e3, e4, e4', e5, e6, e7⟩ := ih (hist ++ [c]) h hk
          simp only [clientLoop, hp, hk, CRes.after_err, CRes.after_hist, CRes.after_consumed]
          refine ⟨e1, c :: ext, .challenge p :: pre, q, d, rest', by simp [e2], ⟨hm, e3⟩, ?_, ?_, e5, ?_, ?_⟩
          · simp [e4]
          · simp [e4']
          · intro e he
            rcases List.mem_cons.mp he with rfl | he
            · exact ⟨p, c, rfl, hp⟩
            · exact e6 e he
          · rcases e7 with e7 | e7 <;> simp [chalBytes, hp, e7]
        | done =>
          simp only [clientLoop, hp, hk, CRes.after_authn] at h
          obtain ⟨e1, e2, _, q, d, rest', e4, e4', e5⟩ := readFinal_sound (hist ++ [c]) rest h
          simp only [clientLoop, hp, hk, CRes.after_err, CRes.after_hist, CRes.after_consumed]
          refine ⟨e1, [c], [.challenge p], q, d, rest', e2, ⟨hm, hk⟩, ?_, ?_, e5, ?_, ?_⟩
          · simp [e4]
          · simp [e4']
          · intro e he
            simp only [List.mem_cons, List.not_mem_nil, or_false] at he
            exact ⟨p, c, he, hp⟩
          · left; simp [chalBytes, hp]
        | authnErr => simp [clientLoop, hp, hk, fail] at h
        | otherErr => simp [clientLoop, hp, hk, fail] at h
    | success p =>
      cases hp : p.decodeClient with
      | none => simp [clientLoop, hp, fail] at h
      | some c =>
        cases hk : (mech (hist ++ [c])).kind with
        | more => simp [clientLoop, hp, hk, fail] at h
        | done =>
          have e : clientLoop mech hist (.success p :: rest) =
              { authn := true, hist := hist ++ [c], consumed := 1 } := by simp [clientLoop, hp, hk]
          rw [e]
          exact ⟨rfl, [c], [], p, c, rest, rfl, ⟨hm, hk⟩, by simp, rfl, hp, by simp, Or.inr (by simp [chalBytes])⟩
        | authnErr => simp [clientLoop, hp, hk, fail] at h
        | otherErr => simp [clientLoop, hp, hk, fail] at h
    | failure _ => simp [clientLoop, fail] at h
    | other => simp [clientLoop, fail] at h
    | otherNs => simp [clientLoop, fail] at h
    | space => simp [clientLoop, fail] at h

/-- in a hostile environment, a loop that ends authenticated behaved exactly like the loop
on a healthy connection with a live context -/
theorem clientLoopE_eq (mech : Mech) (peer : List CEv) : ∀ (env : CEnv) (i : Nat) (hist : List Bytes),
    (clientLoopE mech env i hist peer).authn = true →
    clientLoopE mech env i hist peer = clientLoop mech hist peer := by
  induction peer with
  | nil =>
    intro env i hist h
    unfold clientLoopE at h
    split at h <;> simp [fail] at h
  | cons ev rest ih =>
    intro env i hist h
    unfold clientLoopE at h ⊢
    by_cases hc : env.cancelled i = true
    · simp [hc, fail] at h
    · simp only [hc, Bool.false_eq_true, if_false] at h ⊢
      cases ev with
      | challenge p =>
        cases hp : p.decodeClient with
        | none => simp [hp, fail] at h
        | some c =>
          simp only [hp] at h ⊢
          cases hk : (mech (hist ++ [c])).kind with
          | more =>
            simp only [hk] at h ⊢
            by_cases hw : env.canWrite = true
            · simp only [hw, if_true, CRes.after_authn] at h ⊢
              rw [ih env.wrote (i + 1) (hist ++ [c]) h]
              simp [clientLoop, hp, hk]
            · simp [hw, fail] at h
          | done =>
            simp only [hk] at h ⊢
            by_cases hw : env.canWrite = true
            · simp [hw, clientLoop, hp, hk]
            · simp [hw, fail] at h
          | authnErr => simp [hk, fail] at h
          | otherErr => simp [hk, fail] at h
      | success p =>
        cases hp : p.decodeClient with
        | none => simp [hp, fail] at h
        | some c =>
          cases hk : (mech (hist ++ [c])).kind <;> simp [clientLoop, hp, hk, fail] at h ⊢
      | failure _ => simp [fail] at h
      | other => simp [fail] at h
      | otherNs => simp [fail] at h
      | space => simp [fail] at h

/-! ### receiving side -/

theorem SRes.after_authn (r : SRes) (s : List SSent) (p : List PermCall) : (r.after s p).authn = r.authn := rfl
theorem SRes.after_err (r : SRes) (s : List SSent) (p : List PermCall) : (r.after s p).err = r.err := rfl
theorem SRes.after_hist (r : SRes) (s : List SSent) (p : List PermCall) : (r.after s p).hist = r.hist := rfl
theorem SRes.after_used (r : SRes) (s : List SSent) (p : List PermCall) : (r.after s p).used = r.used := rfl
theorem SRes.after_consumed (r : SRes) (s : List SSent) (p : List PermCall) :
    (r.after s p).consumed = r.consumed + 1 := rfl
theorem SRes.after_sent (r : SRes) (s : List SSent) (p : List PermCall) : (r.after s p).sent = s ++ r.sent := rfl
theorem SRes.after_perms (r : SRes) (s : List SSent) (p : List PermCall) : (r.after s p).perms = p ++ r.perms := rfl

/-- `rs` are `<response/>` elements whose payloads decode to `ds` -/
inductive Resps : List SEv → List Bytes → Prop
  | nil : Resps [] []
  | cons {p : Payload} {d : Bytes} {rs : List SEv} {ds : List Bytes} :
      p.decodeServer = some d → Resps rs ds → Resps (.response p :: rs) (d :: ds)

/-- how an authenticated receiving loop ended: the last step of mechanism `m` said `done`,
its response went out in a `<success/>` which is the last element written, and the
permission calls of that step are the last ones recorded -/
structure Final (m : Mech) (r : SRes) : Prop where
  done : (m r.hist).kind = .done
  sent : ∃ s0, r.sent = s0 ++ [.success (m r.hist).resp]
  perms : ∃ p0, r.perms = p0 ++ (m r.hist).perms
  err : r.err = .none

/-- where the negotiator that is stepped for element `ev` comes from: a fresh one for a
configured mechanism named by `<auth/>`, or the current one for `<response/>` -/
def StepSrc (cfg : List (String × Mech)) (cur : Option SCur) (ev : SEv)
    (name : String) (m : Mech) (hist : List Bytes) (p : Payload) : Prop :=
  (ev = .auth name p ∧ lookup cfg name = some (name, m) ∧ name ≠ "" ∧ hist = []) ∨
  (∃ c, cur = some c ∧ ev = .response p ∧ name = c.name ∧ m = c.mech ∧ hist = c.hist)

theorem lookup_name {cfg : List (String × Mech)} {name n : String} {m : Mech}
    (h : lookup cfg name = some (n, m)) : n = name := by
  unfold lookup at h
  have := List.find?_some h
  simp only [Bool.and_eq_true, beq_iff_eq] at this
  exact this.1.symm

/-- a mechanism the receiving side steps is one it can serve (its name does not end in "-PLUS") -/
theorem lookup_supported {cfg : List (String × Mech)} {name n : String} {m : Mech}
    (h : lookup cfg name = some (n, m)) : serverSupported n = true := by
  unfold lookup at h
  have := List.find?_some h
  simp only [Bool.and_eq_true, beq_iff_eq] at this
  exact this.2

theorem sstep_stop {name : String} {mech : Mech} {hist : List Bytes} {p : Payload} {r : SRes}
    (h : sstep name mech hist p = .stop r) (ha : r.authn = true) :
    ∃ d, p.decodeServer = some d ∧ (mech (hist ++ [d])).kind = .done ∧
      r = { authn := true, sent := [.success ((mech (hist ++ [d])).resp)],
            perms := (mech (hist ++ [d])).perms, consumed := 1, used := some name, hist := hist ++ [d] } := by
  unfold sstep at h
  cases hp : p.decodeServer with
  | none => simp only [hp, SOut.stop.injEq] at h; subst h; simp [sfail] at ha
  | some d =>
    simp only [hp] at h
    cases hk : (mech (hist ++ [d])).kind <;> simp only [hk] at h
    · cases h
    · simp only [SOut.stop.injEq] at h; exact ⟨d, rfl, hk, h.symm⟩
    · simp only [SOut.stop.injEq] at h; subst h; simp [sfail] at ha
    · simp only [SOut.stop.injEq] at h; subst h; simp [sfail] at ha

theorem sstep_cont {name : String} {mech : Mech} {hist : List Bytes} {p : Payload} {c : SCur}
    {resp : Bytes} {perms : List PermCall} (h : sstep name mech hist p = .cont c resp perms) :
    ∃ d, p.decodeServer = some d ∧ (mech (hist ++ [d])).kind = .more ∧
      c.name = name ∧ c.mech = mech ∧ c.hist = hist ++ [d] ∧
      resp = (mech (hist ++ [d])).resp ∧ perms = (mech (hist ++ [d])).perms := by
  unfold sstep at h
  cases hp : p.decodeServer with
  | none => simp [hp] at h
  | some d =>
    simp only [hp] at h
    cases hk : (mech (hist ++ [d])).kind <;> simp only [hk] at h
    · simp only [SOut.cont.injEq] at h
      obtain ⟨h1, h2, h3⟩ := h
      subst h1
      exact ⟨d, rfl, hk, rfl, rfl, rfl, h2.symm, h3.symm⟩
    · cases h
    · cases h
    · cases h

/-- the only ways an element leads to a `Step`: `<auth/>` for a configured mechanism or
`<response/>` with a negotiator in place -/
theorem sevent_src (cfg : List (String × Mech)) (cur : Option SCur) (ev : SEv) :
    (∀ r, sevent cfg cur ev = .stop r → r.authn = true →
      ∃ name m hist p, StepSrc cfg cur ev name m hist p ∧ sstep name m hist p = .stop r) ∧
    (∀ c resp perms, sevent cfg cur ev = .cont c resp perms →
      ∃ name m hist p, StepSrc cfg cur ev name m hist p ∧ sstep name m hist p = .cont c resp perms) := by
  cases ev with
  | failure =>
    constructor
    · intro r h ha; simp only [sevent, SOut.stop.injEq] at h; subst h; simp [sfail] at ha
    · intro c resp perms h; simp [sevent] at h
  | space =>
    constructor
    · intro r h ha; simp only [sevent, SOut.stop.injEq] at h; subst h; simp [sfail] at ha
    · intro c resp perms h; simp [sevent] at h
  | abort =>
    constructor
    · intro r h ha; simp only [sevent, SOut.stop.injEq] at h; subst h; simp [sfail] at ha
    · intro c resp perms h; simp [sevent] at h
  | other =>
    constructor
    · intro r h ha; simp only [sevent, SOut.stop.injEq] at h; subst h; simp [sfail] at ha
    · intro c resp perms h; simp [sevent] at h
  | otherNs =>
    constructor
    · intro r h ha; simp only [sevent, SOut.stop.injEq] at h; subst h; simp [sfail] at ha
    · intro c resp perms h; simp [sevent] at h
  | auth name p =>
    cases hl : lookup cfg name with
    | none =>
      constructor
      · intro r h ha; simp only [sevent, hl, SOut.stop.injEq] at h; subst h; simp [sfail] at ha
      · intro c resp perms h; simp [sevent, hl] at h
    | some nm =>
      obtain ⟨n, m⟩ := nm
      have hn := lookup_name hl
      subst hn
      by_cases he : n = ""
      · subst he
        constructor
        · intro r h ha; simp only [sevent, hl, if_true, SOut.stop.injEq] at h; subst h; simp [sfail] at ha
        · intro c resp perms h; simp [sevent, hl] at h
      · constructor
        · intro r h _
          simp only [sevent, hl, he, if_false] at h
          exact ⟨n, m, [], p, Or.inl ⟨rfl, hl, he, rfl⟩, h⟩
        · intro c resp perms h
          simp only [sevent, hl, he, if_false] at h
          exact ⟨n, m, [], p, Or.inl ⟨rfl, hl, he, rfl⟩, h⟩
  | response p =>
    cases cur with
    | none =>
      constructor
      · intro r h ha; simp only [sevent, SOut.stop.injEq] at h; subst h; simp [sfail] at ha
      · intro c resp perms h; simp [sevent] at h
    | some c =>
      constructor
      · intro r h _
        simp only [sevent] at h
        exact ⟨c.name, c.mech, c.hist, p, Or.inr ⟨c, rfl, rfl, rfl, rfl, rfl⟩, h⟩
      · intro c' resp perms h
        simp only [sevent] at h
        exact ⟨c.name, c.mech, c.hist, p, Or.inr ⟨c, rfl, rfl, rfl, rfl, rfl⟩, h⟩

/-- the shape of every authenticated run of the receiving loop -/
inductive SrvOK (cfg : List (String × Mech)) (cur : Option SCur) (peer : List SEv) (r : SRes) : Prop
  /-- the negotiator in place at the start was stepped to completion by `<response/>`s only -/
  | continued (c : SCur) (rs : List SEv) (ds : List Bytes) (rest : List SEv) :
      cur = some c → peer = rs ++ rest → r.consumed = rs.length → Resps rs ds →
      r.used = some c.name → r.hist = c.hist ++ ds → RunsToDone c.mech c.hist ds →
      Final c.mech r → SrvOK cfg cur peer r
  /-- an `<auth/>` naming a configured mechanism created a negotiator, which was stepped to
  completion by that `<auth/>`'s payload and `<response/>`s only -/
  | fresh (pre : List SEv) (name : String) (m : Mech) (p : Payload) (d : Bytes)
      (rs : List SEv) (ds : List Bytes) (rest : List SEv) :
      peer = pre ++ .auth name p :: (rs ++ rest) → r.consumed = pre.length + 1 + rs.length →
      lookup cfg name = some (name, m) → name ≠ "" → p.decodeServer = some d → Resps rs ds →
      r.used = some name → r.hist = d :: ds → RunsToDone m [d] ds →
      Final m r → SrvOK cfg cur peer r

theorem Final.after {m : Mech} {r : SRes} (f : Final m r) (s : List SSent) (p : List PermCall) :
    Final m (r.after s p) := by
  obtain ⟨f1, ⟨s0, f2⟩, ⟨p0, f3⟩, f4⟩ := f
  refine ⟨f1, ⟨s ++ s0, ?_⟩, ⟨p ++ p0, ?_⟩, f4⟩
  · simp [SRes.after_sent, SRes.after_hist, f2]
  · simp [SRes.after_perms, SRes.after_hist, f3]

theorem serverLoop_sound (cfg : List (String × Mech)) (peer : List SEv) : ∀ (cur : Option SCur),
    (serverLoop cfg cur peer).authn = true →
    (∀ c, cur = some c → (c.mech c.hist).kind = .more) →
    SrvOK cfg cur peer (serverLoop cfg cur peer) := by
  induction peer with
  | nil => intro cur h; simp [serverLoop] at h
  | cons ev rest ih =>
    intro cur h hcur
    obtain ⟨hstop, hcont⟩ := sevent_src cfg cur ev
    unfold serverLoop at h ⊢
    cases hev : sevent cfg cur ev with
    | stop r =>
      simp only [hev] at h ⊢
      obtain ⟨name, m, hist, p, src, hs⟩ := hstop r hev h
      obtain ⟨d, hd, hk, hr⟩ := sstep_stop hs h
      have hfin : ∀ m', m' = m → Final m' r := by
        intro m' hm'; subst hm'; subst hr
        exact ⟨hk, ⟨[], rfl⟩, ⟨[], rfl⟩, rfl⟩
      rcases src with ⟨rfl, hl, hne, rfl⟩ | ⟨c, rfl, rfl, rfl, rfl, rfl⟩
      · refine .fresh [] name m p d [] [] rest (by simp) (by subst hr; rfl) hl hne hd Resps.nil
          (by subst hr; rfl) (by subst hr; rfl) ?_ (hfin m rfl)
        simpa [RunsToDone] using hk
      · refine .continued c [.response p] [d] rest rfl (by simp) (by subst hr; rfl)
          (Resps.cons hd Resps.nil) (by subst hr; rfl) (by subst hr; rfl) ?_ (hfin _ rfl)
        exact ⟨hcur c rfl, hk⟩
    | cont c' resp perms =>
      simp only [hev, SRes.after_authn] at h ⊢
      obtain ⟨name, m, hist, p, src, hs⟩ := hcont c' resp perms hev
      obtain ⟨d, hd, hk, hn, hm, hh, _, _⟩ := sstep_cont hs
      have hc' : ∀ c, some c' = some c → (c.mech c.hist).kind = .more := by
        intro c hc; cases hc; rw [hm, hh]; exact hk
      have ihr := ih (some c') h hc'
      cases ihr with
      | continued c'' rs ds rest' e0 e1 e2 e3 e4 e5 e6 e7 =>
        cases e0
        rcases src with ⟨rfl, hl, hne, rfl⟩ | ⟨c, rfl, rfl, rfl, rfl, rfl⟩
        · refine .fresh [] name m p d rs ds rest' (by simp [e1])
            (by simp [SRes.after_consumed, e2]; omega) hl hne hd e3
            (by simp [SRes.after_used, e4, hn]) (by simp [SRes.after_hist, e5, hh]) ?_ ?_
          · rw [hm, hh] at e6; simpa using e6
          · rw [hm] at e7; exact e7.after _ _
        · refine .continued c (.response p :: rs) (d :: ds) rest' rfl (by simp [e1])
            (by simp [SRes.after_consumed, e2]) (Resps.cons hd e3)
            (by simp [SRes.after_used, e4, hn]) (by simp [SRes.after_hist, e5, hh]) ?_ ?_
          · rw [hm, hh] at e6; exact ⟨hcur c rfl, e6⟩
          · rw [hm] at e7; exact e7.after _ _
      | fresh pre name' m' p' d' rs ds rest' e1 e2 e3 e4 e5 e6 e7 e8 e9 e10 =>
        exact .fresh (ev :: pre) name' m' p' d' rs ds rest' (by simp [e1])
          (by simp [SRes.after_consumed, e2]; omega) e3 e4 e5 e6
          (by simp [SRes.after_used, e7]) (by simp [SRes.after_hist, e8]) e9 (e10.after _ _)

/-! ### sessions in small steps -/

theorem SSess.iter_finished (cfg : List (String × Mech)) (r : SRes) : ∀ k,
    SSess.iter cfg k (.finished r) = .finished r := by
  intro k; induction k with
  | zero => rfl
  | succ k ih => simpa [SSess.iter, SSess.step] using ih

theorem SSess.iter_add (cfg : List (String × Mech)) : ∀ (a b : Nat) (s : SSess),
    SSess.iter cfg (a + b) s = SSess.iter cfg b (SSess.iter cfg a s) := by
  intro a; induction a with
  | zero => intro b s; simp [SSess.iter]
  | succ a ih => intro b s; rw [Nat.add_right_comm]; simp only [SSess.iter]; exact ih b _

theorem SRes.after_prefixed (r : SRes) (resp : Bytes) (ps : List PermCall) (sent : List SSent)
    (perms : List PermCall) (n : Nat) :
    (r.after [.challenge resp] ps).prefixed sent perms n =
      r.prefixed (sent ++ [.challenge resp]) (perms ++ ps) (n + 1) := by
  simp only [SRes.after, SRes.prefixed, List.append_assoc]
  congr 1
  omega

/-- a session run alone for one quantum more than its script is long has finished, with the
result of the big-step loop -/
theorem SSess.iter_serverLoop (cfg : List (String × Mech)) (peer : List SEv) :
    ∀ (cur : Option SCur) (sent : List SSent) (perms : List PermCall) (n : Nat),
    SSess.iter cfg (peer.length + 1) (.running cur peer sent perms n) =
      .finished ((serverLoop cfg cur peer).prefixed sent perms n) := by
  induction peer with
  | nil => intro cur sent perms n; simp [SSess.iter, SSess.step, serverLoop]
  | cons ev rest ih =>
    intro cur sent perms n
    have e : SSess.iter cfg ((ev :: rest).length + 1) (.running cur (ev :: rest) sent perms n)
        = SSess.iter cfg (rest.length + 1) ((SSess.running cur (ev :: rest) sent perms n).step cfg) := rfl
    rw [e]
    cases hev : sevent cfg cur ev with
    | stop r =>
      simp only [SSess.step, hev, serverLoop]
      exact SSess.iter_finished cfg _ _
    | cont c resp ps =>
      simp only [SSess.step, hev, serverLoop]
      rw [ih (some c), SRes.after_prefixed]

/-- the three outcomes of PLAIN's only step on the receiving side -/
theorem plainServer_spec (perm : Bytes → Bytes → Bytes → Bool) (d : Bytes) :
    (∃ ident user pass, splitZero d = [ident, user, pass] ∧ perm user pass ident = true ∧
      plainServer perm [d] = { kind := .done, perms := [⟨user, pass, ident, true⟩] }) ∨
    (∃ ident user pass, splitZero d = [ident, user, pass] ∧ perm user pass ident = false ∧
      plainServer perm [d] = { kind := .authnErr, perms := [⟨user, pass, ident, false⟩] }) ∨
    plainServer perm [d] = { kind := .otherErr } := by
  simp only [plainServer]
  generalize splitZero d = l
  match l with
  | [] => simp
  | [_] => simp
  | [_, _] => simp
  | [i, u, p] =>
    cases hp : perm u p i
    · right; left; exact ⟨i, u, p, rfl, hp, by simp [hp]⟩
    · left; exact ⟨i, u, p, rfl, hp, by simp [hp]⟩
  | _ :: _ :: _ :: _ :: _ => simp

/-! ### panics below `Step` and what an implementation does with them -/

theorem guard_kind (pol : PanicVal → Bool) (m : Mech) (h : List Bytes) :
    (guard pol m h).kind = (m h).kind := by
  unfold guard
  split
  · split <;> rfl
  · rfl

theorem guard_resp (pol : PanicVal → Bool) (m : Mech) (h : List Bytes) :
    (guard pol m h).resp = (m h).resp := by
  unfold guard
  split
  · split <;> rfl
  · rfl

theorem guard_perms (pol : PanicVal → Bool) (m : Mech) (h : List Bytes) :
    (guard pol m h).perms = (m h).perms := by
  unfold guard
  split
  · split <;> rfl
  · rfl

/-- recovering panics (or not) changes nothing about which runs complete -/
theorem RunsToDone_guard (pol : PanicVal → Bool) (m : Mech) : ∀ (ext : List Bytes) (hist : List Bytes),
    RunsToDone (guard pol m) hist ext ↔ RunsToDone m hist ext := by
  intro ext
  induction ext with
  | nil => intro hist; simp [RunsToDone, guard_kind]
  | cons c cs ih => intro hist; simp [RunsToDone, guard_kind, ih]

theorem lookup_guardCfg (pol : PanicVal → Bool) (cfg : List (String × Mech)) (name : String) :
    lookup (guardCfg pol cfg) name = (lookup cfg name).map fun nm => (nm.1, guard pol nm.2) := by
  simp [lookup, guardCfg, List.find?_map, Function.comp_def]

theorem select_guardCfg (pol : PanicVal → Bool) (cm : List (String × Mech)) (adv : List String) :
    select (guardCfg pol cm) adv = (select cm adv).map fun nm => (nm.1, guard pol nm.2) := by
  simp [select, guardCfg, List.find?_map, Function.comp_def]

theorem plainServerPanics_kind (v : PanicVal) (h : List Bytes) :
    (plainServerPanics v h).kind = .otherErr := by
  unfold plainServerPanics
  split
  · split <;> rfl
  · rfl

end XmppModel.Sasl
