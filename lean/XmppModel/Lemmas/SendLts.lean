import XmppModel.Model.SendLts
/-! Inductiveness of the atomicity invariant (C05). -/
namespace XmppModel.SendLts

variable {α : Type}

@[simp] theorem setPc_same (pc : Nat → Pc) (i : Nat) (v : Pc) : setPc pc i v i = v := by simp [setPc]
theorem setPc_other (pc : Nat → Pc) {i j : Nat} (v : Pc) (h : j ≠ i) : setPc pc i v j = pc j := by
  simp [setPc, h]

theorem inv_init (job : Nat → List α) : Inv job (init α) where
  wire_eq := by simp [init, open_]
  holder := by intro i k h; simp [init] at h
  held := by intro i h; simp [init] at h
  fin_done := by intro i; simp [init]
  nodup := by simp [init]

/-- the invariant is preserved by every step of every call, provided every call locks -/
theorem inv_step (job : Nat → List α) (locks : Nat → Bool) (hl : ∀ i, locks i = true)
    (s s' : St α) (i : Nat) (inv : Inv job s) (h : step job locks s i = some s') : Inv job s' := by
  unfold step at h
  cases hpc : s.pc i with
  | idle =>
    rw [hpc] at h
    dsimp only at h
    simp only [hl i, if_true] at h
    cases hlk : s.lock with
    | some j => rw [hlk] at h; simp at h
    | none =>
      rw [hlk] at h
      simp only [Option.some.injEq] at h
      subst h
      have hnf : i ∉ s.finished := by
        intro hm; have := (inv.fin_done i).mp hm; rw [hpc] at this; cases this
      refine ⟨?_, ?_, ?_, ?_, inv.nodup⟩
      · have : open_ job s = [] := by simp [open_, hlk]
        simp [inv.wire_eq, this, open_, hlk]
      · intro j k hj
        dsimp only at hj ⊢
        by_cases hji : j = i
        · subst hji; rfl
        · rw [setPc_other _ _ hji] at hj
          have := inv.holder j k hj
          rw [hlk] at this; cases this
      · intro j hj
        simp only [Option.some.injEq] at hj
        subst hj
        exact ⟨0, by simp⟩
      · intro j
        dsimp only
        by_cases hji : j = i
        · subst hji; simp [hnf]
        · rw [setPc_other _ _ hji]; exact inv.fin_done j
  | holding k =>
    rw [hpc] at h
    dsimp only at h
    have hlock : s.lock = some i := inv.holder i k hpc
    have hnf : i ∉ s.finished := by
      intro hm; have := (inv.fin_done i).mp hm; rw [hpc] at this; cases this
    have hopen : open_ job s = (job i).take k := by simp [open_, hlock, hpc]
    cases hx : (job i)[k]? with
    | some x =>
      rw [hx] at h
      simp only [Option.some.injEq] at h
      subst h
      refine ⟨?_, ?_, ?_, ?_, inv.nodup⟩
      · have : open_ job { s with wire := s.wire ++ [x], pc := setPc s.pc i (.holding (k + 1)) }
            = (job i).take (k + 1) := by simp [open_, hlock]
        rw [this, List.take_add_one, hx]
        simp [inv.wire_eq, hopen]
      · intro j k' hj
        dsimp only at hj ⊢
        by_cases hji : j = i
        · subst hji; exact hlock
        · rw [setPc_other _ _ hji] at hj
          exact inv.holder j k' hj
      · intro j hj
        dsimp only at hj ⊢
        have : j = i := by rw [hlock] at hj; exact (Option.some.inj hj).symm
        subst this
        exact ⟨k + 1, by simp⟩
      · intro j
        dsimp only
        by_cases hji : j = i
        · subst hji; simp [hnf]
        · rw [setPc_other _ _ hji]; exact inv.fin_done j
    | none =>
      rw [hx] at h
      simp only [hl i, if_true, Option.some.injEq] at h
      subst h
      have hlen : (job i).length ≤ k := by
        rcases Nat.lt_or_ge k (job i).length with hlt | hge
        · rw [List.getElem?_eq_getElem hlt] at hx; cases hx
        · exact hge
      refine ⟨?_, ?_, ?_, ?_, ?_⟩
      · have e1 : s.wire = s.finished.flatMap job ++ job i := by
          rw [inv.wire_eq, hopen, List.take_of_length_le hlen]
        simp [open_, e1]
      · intro j k' hj
        dsimp only at hj ⊢
        by_cases hji : j = i
        · subst hji; simp at hj
        · rw [setPc_other _ _ hji] at hj
          have := inv.holder j k' hj
          rw [hlock] at this
          exact absurd (Option.some.inj this).symm hji
      · intro j hj; cases hj
      · intro j
        dsimp only
        by_cases hji : j = i
        · subst hji; simp
        · rw [setPc_other _ _ hji]
          simp only [List.mem_append, List.mem_singleton, hji, or_false]
          exact inv.fin_done j
      · exact List.nodup_append.mpr ⟨inv.nodup, by simp, by
          intro a ha b hb; simp at hb; subst hb; intro e; subst e; exact hnf ha⟩
  | done => rw [hpc] at h; cases h

theorem inv_run (job : Nat → List α) (locks : Nat → Bool) (hl : ∀ i, locks i = true)
    (sched : List Nat) : ∀ s, Inv job s → Inv job (run job locks s sched) := by
  induction sched with
  | nil => intro s h; exact h
  | cons i is ih =>
    intro s h
    simp only [run]
    cases hs : step job locks s i with
    | none => exact ih s h
    | some s' => exact ih s' (inv_step job locks hl s s' i h hs)

end XmppModel.SendLts
