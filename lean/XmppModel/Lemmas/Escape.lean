import XmppModel.Model.Escape
/-! Helper lemmas for C16 (kept apart from the property statements). -/
namespace XmppModel.Escape

theorem bslash_mem : bslash ∈ escSet := by decide

theorem escape_nil : escape [] = [] := rfl

theorem escape_cons (c : UInt8) (s : Bytes) : escape (c :: s) = escByte c ++ escape s := by
  simp [escape]

theorem escape_append (a b : Bytes) : escape (a ++ b) = escape a ++ escape b := by
  simp [escape]

/-- the escape of an escapable byte is a backslash followed by a defined code for that byte -/
theorem esc_code_ok : ∀ c ∈ escSet,
    shouldUnescape (hexdig (c >>> 4)) (hexdig (c &&& 15)) = true ∧
    unhex2 (hexdig (c >>> 4)) (hexdig (c &&& 15)) = c := by decide

theorem esc_code_clean : ∀ c ∈ escSet,
    hexdig (c >>> 4) ∉ escSet ∧ hexdig (c &&& 15) ∉ escSet := by decide

theorem unescape_cons_ne {c : UInt8} (h : c ≠ bslash) (l : Bytes) :
    unescape (c :: l) = c :: unescape l := by
  match l with
  | [] => simp [unescape]
  | [a] => simp [unescape]
  | a :: b :: r => simp [unescape, h]

theorem unescape_code {a b : UInt8} (h : shouldUnescape a b = true) (r : Bytes) :
    unescape (bslash :: a :: b :: r) = unhex2 a b :: unescape r := by
  simp [unescape, h]

theorem unescape_nocode {a b : UInt8} (h : shouldUnescape a b = false) (r : Bytes) :
    unescape (bslash :: a :: b :: r) = bslash :: unescape (a :: b :: r) := by
  simp [unescape, h]

theorem unescape_cons_nocode {c a b : UInt8} (h : ¬ (c = bslash ∧ shouldUnescape a b = true)) (r : Bytes) :
    unescape (c :: a :: b :: r) = c :: unescape (a :: b :: r) := by
  simp only [unescape, h, if_false]

theorem shouldUnescape_ishex {a b : UInt8} (h : shouldUnescape a b = true) : ishex a = true := by
  unfold shouldUnescape at h
  simp only [Bool.or_eq_true, Bool.and_eq_true, beq_iff_eq] at h
  rcases h with ((h | h) | h) | h <;> (rw [h.1]; decide)

@[simp] theorem push_out (p : Bytes) (k : Nat) (r : StepOut) : (r.push p k).out = p ++ r.out := rfl
@[simp] theorem push_nSrc (p : Bytes) (k : Nat) (r : StepOut) : (r.push p k).nSrc = k + r.nSrc := rfl
@[simp] theorem push_err (p : Bytes) (k : Nat) (r : StepOut) : (r.push p k).err = r.err := rfl

theorem escByte_length_le (c : UInt8) : (escByte c).length ≤ 3 := by
  unfold escByte; split <;> simp

theorem escByte_length_pos (c : UInt8) : 0 < (escByte c).length := by
  unfold escByte; split <;> simp

/-- one action on a shared value whose calls never change its state -/
theorem shared_act_frozen {σ : Type} (step : SStep σ) (hf : Frozen step) (w : Shared σ) (ia : Nat × Act) :
    Shared.act step w ia =
      ⟨w.st, setStream w.streams ia.1 (Drv.act (fun c e s => (step w.st c e s).1) (w.streams ia.1) ia.2)⟩ := by
  obtain ⟨i, a⟩ := ia
  cases a with
  | feed k => simp [Shared.act, Drv.act]
  | call cap => simp [Shared.act, Drv.act, hf w.st]


end XmppModel.Escape
