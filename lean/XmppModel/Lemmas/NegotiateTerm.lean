import XmppModel.Lemmas.Negotiate
/-!
Termination of the negotiation machine: every step from a non-final configuration decreases a
natural-number measure, so every run reaches a final control point, within a bound that is
linear in the size of the peer script and the pick script.
-/
namespace XmppModel.Negotiate

def extra : Peer → Nat
  | .adv items => items.length
  | _ => 0

def peerSize (p : Peer) : Nat := 1 + extra p

def scriptSize : List Peer → Nat
  | [] => 0
  | p :: ps => peerSize p + scriptSize ps

/-- items of the current features list still to be parsed -/
def pend : Pc → Nat
  | .parsing items => items.length
  | _ => 0

/-- position inside one round, counted down from the point where input is consumed -/
def localRank (n : Nat) : Pc → Nat
  | .selected _ => 41 + n
  | .parsing _ => 40 + n
  | .decide => 38 + n
  | .cloop true => 36 + n
  | .cloop false => 35 + n
  | .tail _ _ => 30 + n
  | .ret _ _ => 29 + n
  | .top => 28 + n
  | .hdr1 => 27 + n
  | .hdr2 => 26 + n
  | .feat => 14 + n
  | .listing todo => 13 + todo.length
  | .flush => 12
  | .abort => 11
  | .readList => 10
  | .sloop => 9
  | .blocked _ => 1
  | .done | .fail _ | .crash | .stuck | .hung _ | .tee => 0

def measure (C : List Feature) (c : Conf) : Nat :=
  (50 + C.length) * (scriptSize c.script + pend c.pc) + c.picks.length + localRank C.length c.pc

theorem measure_step (C : List Feature) (O : Oracle) (c : Conf)
    (hf : c.pc.final = false) : measure C (step C O c) < measure C c := by
  revert hf
  step_all
  all_goals intro hf
  all_goals first
    | (simp_all [Pc.final]; done)
    | (simp_all [measure, localRank, pend, scriptSize, peerSize, extra, Nat.mul_add, Nat.add_mul] <;> omega)

theorem step_final (C : List Feature) (O : Oracle) (c : Conf) (h : c.pc.final = true) :
    step C O c = c := by
  unfold step
  cases hp : c.pc <;> simp_all [Pc.final]

theorem run_of_final (C : List Feature) (O : Oracle) (n : Nat) (c : Conf) (h : c.pc.final = true) :
    run C O n c = c := by
  induction n with
  | zero => rfl
  | succ n ih => rw [run, step_final C O c h, ih]

/-- a run of at least `measure C c` steps ends in a final control point -/
theorem run_final (C : List Feature) (O : Oracle) : ∀ n c, measure C c ≤ n →
    (run C O n c).pc.final = true := by
  intro n
  induction n with
  | zero =>
    intro c h
    cases hf : c.pc.final
    · have := measure_step C O c hf
      omega
    · exact hf
  | succ n ih =>
    intro c h
    cases hf : c.pc.final
    · have := measure_step C O c hf
      rw [run]
      exact ih _ (by omega)
    · rw [run_of_final C O _ c hf]; exact hf

end XmppModel.Negotiate
