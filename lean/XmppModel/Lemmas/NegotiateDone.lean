import XmppModel.Lemmas.NegotiateAdv
/-!
Invariants behind "established only with no eligible mandatory feature of the last
advertisement left".
-/
namespace XmppModel.Negotiate

theorem or_absorb {a m b : St} (h : sub m a) : a ||| (m ||| b) = a ||| b := by
  rw [sub_iff] at h
  apply BitVec.eq_of_getLsbD_eq
  intro i _
  simp only [BitVec.getLsbD_or]
  cases ha : a.getLsbD i <;> cases hm : m.getLsbD i <;> simp
  have := h i hm
  simp [ha] at this

structure InvQ (c : Conf) : Prop where
  /-- a mandatory entry of the cache makes the list a list with required features -/
  cacheReq : ∀ e ∈ c.cache, e.req = true → c.lreq = true
  /-- … and so does a mandatory feature that was skipped -/
  skipReq : ∀ e ∈ c.skipped, e.req = true → c.lreq = true
  /-- nothing is cached or skipped from an empty list -/
  tot : (inParsing c.pc = true ∨ c.pc = .decide ∨ c.pc = .readList) → c.total = 0 →
    c.cache = [] ∧ c.skipped = []
  /-- the mask of the feature just negotiated is already part of the state -/
  tailSub : ∀ m r, c.pc = .tail m r → sub m c.st

theorem invQ_step (C : List Feature) (O : Oracle) (c : Conf) (h : InvQ c) : InvQ (step C O c) := by
  obtain ⟨h1, h1s, h2, h3⟩ := h
  step_all
  all_goals (constructor <;> (try dsimp only))
  all_goals first
    | exact h1
    | exact h1s
    | exact h2
    | exact h3
    | (intro _ _ h; cases h; done)
    | (intro m r hm; cases hm; exact sub_or_right _ _)
    | (intro e he hr
       simp only [List.mem_append, List.mem_singleton] at he
       rcases he with he | rfl
       · have := h1s e he hr
         simp_all
       · simp_all)
    | (intro e he hr; simp [h1s e he hr]; done)
    | (intro e he hr
       have hh := put_mem he
       rcases hh with rfl | hh
       · simp_all
       · have := h1 e hh hr
         simp_all)
    | (simp_all [inParsing]; done)
    | (intro e he hr; simp [h1 e he hr]; done)
    | skip

/-- no mandatory, negotiable feature of the current list — cached, or skipped because its masks
did not hold when the list was read — whose masks hold at `stb` is left un-negotiated -/
def NoMandLeft (c : Conf) (stb : St) : Prop :=
  ∀ e ∈ c.cache ++ c.skipped, e.req = true → e.f.negotiable = true → eligible stb e.f = true →
    c.negd.contains e.f.name.ns = true

theorem candidates_empty (c : Conf) (h : (candidates c).isEmpty = true)
    (hs : skippedOpen c = false) : NoMandLeft c c.st := by
  intro e he hreq h2 h3
  cases hc : c.negd.contains e.f.name.ns
  · exfalso
    rcases List.mem_append.mp he with he | he
    · have : e ∈ candidates c := by
        unfold candidates
        exact List.mem_filter.mpr ⟨he, by simp [h2, h3]; simpa using hc⟩
      simp only [List.isEmpty_iff] at h
      rw [h] at this
      cases this
    · unfold skippedOpen at hs
      have := List.any_eq_false.mp hs e he
      simp [hreq, h2, h3] at this
      have hc' : ¬ e.f.name.ns ∈ c.negd := by simpa using hc
      exact hc' this
  · rfl

structure InvR (st0 : St) (c : Conf) : Prop where
  ret : ∀ m r, c.pc = .ret m r → has m bReady = true →
    FeatReady c.tr ∨ (r = false ∧ c.st ||| m = c.st ||| bReady ∧ NoMandLeft c c.st)
  top : (c.pc = .top ∨ c.pc = .done) → has c.st bReady = true →
    has st0 bReady = true ∨ FeatReady c.tr ∨ ∃ stb, c.st = stb ||| bReady ∧ NoMandLeft c stb

theorem invR_step (C : List Feature) (O : Oracle) (st0 : St) (c : Conf) (hc : InvC st0 c)
    (hc2 : InvC2 st0 c) (hq : InvQ c) (h : InvR st0 c) : InvR st0 (step C O c) := by
  obtain ⟨h1, h2⟩ := h
  have hp := hc.prov
  have ht := hc2.tail
  obtain ⟨q1, q1s, q2, q3⟩ := hq
  step_all
  all_goals (constructor <;> (try dsimp only))
  all_goals first
    | exact h1
    | exact h2
    | (intro _ _ h; cases h; done)
    | (intro h; rcases h with h | h <;> cases h; done)
    | (intro m r hm hr; cases hm; right
       refine ⟨rfl, rfl, ?_⟩
       intro e he
       have := q2 (Or.inr (Or.inl ‹c.pc = _›)) (by simp_all)
       simp_all)
    | (intro m r hm hr; cases hm; right
       exact ⟨rfl, rfl, candidates_empty c ‹_› (by simp_all)⟩)
    | (intro m' r' hm hr; cases hm; right
       refine ⟨by simp_all, or_absorb (q3 _ _ ‹c.pc = _›), ?_⟩
       intro e he hreq
       rcases List.mem_append.mp he with he | he
       · have := q1 e he hreq
         simp_all
       · have := q1s e he hreq
         simp_all)
    | (intro m' r' hm hr; cases hm; left; exact ht _ _ ‹c.pc = _› hr)
    | (intro _ hr; exact h2 (Or.inl ‹c.pc = _›) hr)
    | (intro _ hr
       have hh := has_ready_or _ _ hr
       rcases hh with hh | hh
       · have h4 := hp hh
         rcases h4 with h4 | h4 | h4 | h4
         · exact Or.inl h4
         · exact Or.inr (Or.inl h4)
         · simp_all
         · simp_all
       · have h5 := h1 _ _ ‹c.pc = _› hh
         rcases h5 with h5 | ⟨h5, h6, h7⟩
         · exact Or.inr (Or.inl h5)
         · first
           | (exfalso; simp_all; done)
           | exact Or.inr (Or.inr ⟨c.st, h6, h7⟩))
    | skip

end XmppModel.Negotiate
