import XmppModel.Lemmas.NegotiateAdv
import XmppModel.Lemmas.NegotiateFault
import XmppModel.Lemmas.NegotiateDone
import XmppModel.Lemmas.NegotiateComplete
import XmppModel.Lemmas.NegotiateForced
import XmppModel.Lemmas.NegotiateVol
import XmppModel.Lemmas.NegotiateNs
/-!
The invariants of the negotiation machine hold in every reachable configuration (initial
configuration + preservation by `step`, lifted by induction on the number of steps).
-/
namespace XmppModel.Negotiate

variable {C : List Feature} {O : Oracle} {st0 : St} {script : List Peer} {picks : List FName}

theorem invA_reach {c : Conf} (h : Reach C O st0 script picks c) : InvA C c := by
  refine reach_ind (P := InvA C) ?_ (fun c _ hc => invA_step C O c hc) c h
  constructor
  · intro h; cases h
  · intro e he; cases he

theorem invB_reach {c : Conf} (h : Reach C O st0 script picks c) : InvB c := by
  refine reach_ind (P := InvB) ?_ (fun c _ hc => invB_step C O c hc) c h
  constructor
  · intro _ e he; cases he
  · intro h; cases h
  · left; intro e he; cases he

theorem invC_reach {c : Conf} (h : Reach C O st0 script picks c) : InvC st0 c := by
  refine reach_ind (P := InvC st0) ?_ (fun c _ hc => invC_step C O st0 c hc) c h
  constructor
  · intro _; right; right; left; rfl
  · intro h; cases h

theorem invC2_reach {c : Conf} (h : Reach C O st0 script picks c) : InvC2 st0 c := by
  have key : ∀ c, Reach C O st0 script picks c → InvC st0 c ∧ InvC2 st0 c := by
    intro c hc
    refine reach_ind (P := fun c => InvC st0 c ∧ InvC2 st0 c) ?_ ?_ c hc
    · refine ⟨invC_reach (C := C) (O := O) ⟨0, rfl⟩, ?_, ?_, ?_⟩
      · intro _ _ h; cases h
      · intro _ _ h; cases h
      · intro _ hr; exact Or.inl hr
    · intro c _ ⟨h1, h2⟩
      exact ⟨invC_step C O st0 c h1, invC2_step C O st0 c h1 h2⟩
  exact (key c h).2

theorem invD_reach {c : Conf} (h : Reach C O st0 script picks c) : InvD c := by
  refine reach_ind (P := InvD) ?_ (fun c _ hc => invD_step C O c hc) c h
  refine ⟨True.intro, ?_, fun _ _ => rfl⟩
  intro _ ns hns
  cases hns

theorem invE_reach {c : Conf} (h : Reach C O st0 script picks c) : InvE c := by
  refine reach_ind (P := InvE) ?_ (fun c _ hc => invE_step C O c hc) c h
  refine ⟨True.intro, ?_, ?_⟩
  · intro h; cases h
  · intro _ h; cases h

theorem invF_reach {c : Conf} (h : Reach C O st0 script picks c) : InvF c := by
  refine reach_ind (P := InvF) ?_ (fun c _ hc => invF_step C O c hc) c h
  refine ⟨True.intro, ?_, ?_⟩
  · intro h; cases h
  · intro h; cases h

theorem invG_reach {c : Conf} (h : Reach C O st0 script picks c) : InvG c := by
  refine reach_ind (P := InvG) ?_ (fun c _ hc => invG_step C O c hc) c h
  constructor
  intro _ h; cases h

theorem invH_reach {c : Conf} (h : Reach C O st0 script picks c) : InvH O st0 c := by
  refine reach_ind (P := InvH O st0) ?_ (fun c _ hc => invH_step C O st0 c hc) c h
  refine ⟨fun _ _ => rfl, ?_, ?_⟩
  · intro _ h; cases h
  · intro h; cases h

theorem invL_reach {c : Conf} (h : Reach C O st0 script picks c) : InvL C c := by
  refine reach_ind (P := InvL C) ?_ (fun c _ hc => invL_step C O c hc) c h
  refine ⟨?_, ?_, ?_, ?_⟩
  · intro _ h; cases h
  · intro h; cases h
  · intro _ _ h; cases h
  · intro _ _ _ h; cases h

theorem invS_reach {c : Conf} (h : Reach C O st0 script picks c) : InvS script c := by
  refine reach_ind (P := InvS script) ?_ (fun c _ hc => invS_step C O script c hc) c h
  refine ⟨fun p hp => hp, ?_, ?_⟩
  · intro h; cases h
  · intro h; cases h

theorem invP_reach {c : Conf} (h : Reach C O st0 script picks c) : InvP C script c := by
  refine reach_ind (P := InvP C script) ?_ ?_ c h
  · refine ⟨?_, ?_, Or.inl rfl, ?_, ?_⟩
    · intro h; cases h
    · intro _ h; cases h
    · intro h; cases h
    · intro _ _ _ _ h; cases h
  · intro c hc hp
    exact invP_step C O script c (invS_reach hc).sub hp

theorem invU_reach {c : Conf} (h : Reach C O st0 script picks c) : InvU O c := by
  refine reach_ind (P := InvU O) ?_ (fun c _ hc => invU_step C O c hc) c h
  refine ⟨?_, ?_⟩
  · intro _ h; cases h
  · intro _ h; cases h

theorem invQ_reach {c : Conf} (h : Reach C O st0 script picks c) : InvQ c := by
  refine reach_ind (P := InvQ) ?_ (fun c _ hc => invQ_step C O c hc) c h
  refine ⟨?_, ?_, fun _ _ => ⟨rfl, rfl⟩, ?_⟩
  · intro e he; cases he
  · intro e he; cases he
  · intro _ _ h; cases h

theorem invR_reach {c : Conf} (h : Reach C O st0 script picks c) : InvR st0 c := by
  refine reach_ind (P := InvR st0) ?_ ?_ c h
  · refine ⟨?_, ?_⟩
    · intro _ _ h; cases h
    · intro _ hr; exact Or.inl hr
  · intro c hc hr
    exact invR_step C O st0 c (invC_reach hc) (invC2_reach hc) (invQ_reach hc) hr

theorem invK_reach {c : Conf} (h : Reach C O st0 script picks c) : InvK C c := by
  refine reach_ind (P := InvK C) ?_ (fun c _ hc => invK_step C O c hc) c h
  refine ⟨?_, ?_, ?_⟩
  · intro _ h; cases h
  · intro _ _ name req f hm; cases hm
  · intro h; cases h

theorem invX_reach {c : Conf} (h : Reach C O st0 script picks c) : InvX C c := by
  refine reach_ind (P := InvX C) ?_ (fun c _ hc => invX_step C O c hc) c h
  refine ⟨True.intro, fun _ _ => rfl, ?_, ?_, ?_⟩
  · intro _ h; cases h
  · intro h; cases h
  · intro h; rcases h with h | h | h <;> cases h

theorem invV_reach {c : Conf} (h : Reach C O st0 script picks c) : InvV c := by
  refine reach_ind (P := InvV) ?_ (fun c _ hc => invV_step C O c hc) c h
  refine ⟨True.intro, ?_, ?_, fun _ _ => rfl, ?_, ?_, ?_⟩
  · intro h; cases h
  · intro _ ns hns; cases hns
  · intro h; rcases h with h | h <;> cases h
  · intro h; cases h
  · intro h; cases h

theorem invN_reach {c : Conf} (h : Reach C O st0 script picks c) : InvN C c := by
  refine reach_ind (P := InvN C) ?_ (fun c _ hc => invN_step C O c hc) c h
  refine ⟨List.nodup_nil, ?_, ?_, ?_⟩
  · intro e he; cases he
  · intro e he; cases he
  · intro _ h; cases h

theorem invY_reach {c : Conf} (h : Reach C O st0 script picks c) : InvY c := by
  refine reach_ind (P := InvY) ?_ ?_ c h
  · exact ⟨True.intro, fun h => by cases h⟩
  · intro c hc hy
    exact invY_step C O c (invV_reach hc) hy

theorem allowed_mandatory {cands : List Entry} {e : Entry} (he : e ∈ allowed cands)
    (hr : e.req = true) : ∀ e' ∈ cands, e'.req = true := by
  unfold allowed at he
  split at he
  · have := (List.mem_filter.mp he).2
    simp [hr] at this
  · rename_i hany
    intro e' he'
    cases hq : e'.req
    · exfalso; apply hany
      exact List.any_eq_true.mpr ⟨e', he', by simp [hq]⟩
    · rfl

end XmppModel.Negotiate
