import XmppModel.Lemmas.Styling
import XmppModel.Lemmas.StylingScanner
namespace XmppModel.Styling

/-! Style bookkeeping invariants of the decoder model (C17). -/

/-- `p` holds for every directive bit number (6 … 17) -/
def allDir (p : Nat → Prop) : Prop :=
  p 6 ∧ p 7 ∧ p 8 ∧ p 9 ∧ p 10 ∧ p 11 ∧ p 12 ∧ p 13 ∧ p 14 ∧ p 15 ∧ p 16 ∧ p 17

/-- start directive bits (and the block end bits) come with their style bit -/
def StartCons (m : Style) : Prop :=
  (m.getLsbD 6 = true → m.getLsbD 0 = true) ∧ (m.getLsbD 7 = true → m.getLsbD 0 = true) ∧
  (m.getLsbD 8 = true → m.getLsbD 1 = true) ∧ (m.getLsbD 9 = true → m.getLsbD 1 = true) ∧
  (m.getLsbD 10 = true → m.getLsbD 2 = true) ∧ (m.getLsbD 12 = true → m.getLsbD 3 = true) ∧
  (m.getLsbD 14 = true → m.getLsbD 4 = true) ∧ (m.getLsbD 16 = true → m.getLsbD 5 = true)

/-- span end directive bits come with their style bit -/
def EndCons (m : Style) : Prop :=
  (m.getLsbD 11 = true → m.getLsbD 2 = true) ∧ (m.getLsbD 13 = true → m.getLsbD 3 = true) ∧
  (m.getLsbD 15 = true → m.getLsbD 4 = true) ∧ (m.getLsbD 17 = true → m.getLsbD 5 = true)

/-- per-decoder invariant: every directive bit in `mask` is scheduled for clearing and the
start bits are consistent -/
def LvInv (lv : Level) : Prop :=
  allDir (fun i => lv.mask.getLsbD i = true → lv.clearMask.getLsbD i = true) ∧ StartCons lv.mask

/-- after the entry steps of `scan` no directive bit is left and nothing is scheduled -/
def Clean (lv : Level) : Prop :=
  allDir (fun i => lv.mask.getLsbD i = false) ∧ lv.clearMask = 0

theorem isDirective_cases {b : UInt8} (h : isDirective b = true) :
    b = star ∨ b = under ∨ b = tick ∨ b = tilde := by
  simpa [isDirective, or_assoc] using h

theorem normLevel_clean {lv : Level} (h : LvInv lv) : Clean (normLevel lv) := by
  obtain ⟨hA, hC⟩ := h
  unfold normLevel
  simp only [allDir, Clean] at hA ⊢
  by_cases hl : lv.lastNewline = true <;> simp [hl, andNot, BlockQuote] <;> simp_all
  
theorem clean_inv {lv : Level} (h : Clean lv) : LvInv lv := by
  simp_all [Clean, LvInv, allDir, StartCons]

theorem closeSpan_inv {lv : Level} {b : UInt8} (h : Clean lv) (hb : isDirective b = true) :
    LvInv (closeSpan lv b) := by
  obtain ⟨h1, h2⟩ := h
  rcases isDirective_cases hb with rfl | rfl | rfl | rfl <;>
    simp_all [closeSpan, bitsOf, star, under, tick, tilde, LvInv, allDir, StartCons,
      SpanStrong, SpanStrongEnd, SpanEmph, SpanEmphEnd, SpanStrike, SpanStrikeEnd, SpanPre, SpanPreEnd]

theorem openSpan_inv {lv : Level} {b : UInt8} (h : Clean lv) (hb : isDirective b = true) :
    LvInv (openSpan lv b) := by
  obtain ⟨h1, h2⟩ := h
  rcases isDirective_cases hb with rfl | rfl | rfl | rfl <;>
    simp_all [openSpan, bitsOf, star, under, tick, tilde, LvInv, allDir, StartCons,
      SpanStrong, SpanStrongStart, SpanEmph, SpanEmphStart, SpanStrike, SpanStrikeStart, SpanPre, SpanPreStart]

theorem mask_pre_bit {m : Style} (h : (m &&& BlockPre == BlockPre) = true) : m.getLsbD 0 = true := by
  have h' : m &&& BlockPre = BlockPre := by simpa using h
  have := congrArg (fun x => BitVec.getLsbD x 0) h'
  simpa [BlockPre] using this

theorem LvInv_of_fields {lv lv' : Level} (h : LvInv lv) (hm : lv'.mask = lv.mask)
    (hc : lv'.clearMask = lv.clearMask) : LvInv lv' := by
  unfold LvInv at *; rw [hm, hc]; exact h

theorem resetLevel_inv {lv : Level} (h : LvInv lv) : LvInv (resetLevel lv) :=
  LvInv_of_fields h rfl rfl

theorem entryLv_clean {reset : Bool} {lv : Level} (h : LvInv lv) : Clean (entryLv reset lv) := by
  unfold entryLv
  split
  · exact normLevel_clean (resetLevel_inv h)
  · exact normLevel_clean h

theorem spanEffect_inv {lv lv' : Level} (h : Clean lv) (he : SpanEffect lv lv') : LvInv lv' := by
  rcases he with rfl | ⟨b, _, hb, rfl⟩ | ⟨b, hb, _, rfl⟩
  · exact clean_inv h
  · exact closeSpan_inv h hb
  · exact openSpan_inv h hb

/-- the invariant for a decoder and its whole chain of inner decoders -/
def AllInv (lv : Level) (inner : List Level) : Prop := LvInv lv ∧ ∀ q ∈ inner, LvInv q

theorem entryInner_inv {reset : Bool} {lv : Level} {inner : List Level} (h : ∀ q ∈ inner, LvInv q) :
    ∀ q ∈ entryInner reset lv inner, LvInv q := by
  unfold entryInner
  split
  · intro q hq
    simp only [List.mem_map] at hq
    obtain ⟨q', hq', rfl⟩ := hq
    exact resetLevel_inv (h q' hq')
  · exact h

theorem finish_inv {r : Out × Level × List Level} (h : AllInv r.2.1 r.2.2) :
    AllInv (finish r).2.1 (finish r).2.2 := by
  rw [finish_inner]
  rcases finish_lv r with h' | h' <;> rw [h']
  · exact h
  · exact ⟨LvInv_of_fields h.1 rfl rfl, h.2⟩

theorem scanRel_inv {data : Bytes} {atEOF reset : Bool} {lv : Level} {inner : List Level}
    {r : Out × Level × List Level} (hr : ScanRel data atEOF reset lv inner r)
    (hi : AllInv lv inner) : AllInv r.2.1 r.2.2 := by
  induction hr with
  | early reset lv00 inner0 h =>
    refine ⟨?_, ?_⟩
    · show LvInv (if reset = true then _ else _)
      split
      · exact resetLevel_inv hi.1
      · exact hi.1
    · show ∀ q ∈ (if reset = true then _ else _), LvInv q
      split
      · intro q hq
        simp only [List.mem_map] at hq
        obtain ⟨q', hq', rfl⟩ := hq
        exact resetLevel_inv (hi.2 q' hq')
      · exact hi.2
  | span reset lv00 inner0 h hs =>
    exact finish_inv ⟨spanEffect_inv (entryLv_clean hi.1) (scanSpan_effect _ _ _), entryInner_inv hi.2⟩
  | pre reset lv00 inner0 h hs hp =>
    refine finish_inv ⟨?_, entryInner_inv hi.2⟩
    have hc := entryLv_clean (reset := reset) hi.1
    have hb := mask_pre_bit hp
    rcases scanPre_frame { entryLv reset lv00 with hasRun := true } data atEOF with h' | h' <;>
      simp only [h']
    · exact LvInv_of_fields (clean_inv hc) rfl rfl
    · obtain ⟨h1, h2⟩ := hc
      simp_all [LvInv, allDir, StartCons, BlockPre, BlockPreEnd]
  | needMore reset lv00 inner0 h hs hp hq =>
    exact ⟨clean_inv (entryLv_clean hi.1), entryInner_inv hi.2⟩
  | quoteStart reset lv00 inner0 l h hs hp hq hl hst =>
    refine finish_inv ⟨?_, ?_⟩
    · obtain ⟨h1, h2⟩ := entryLv_clean (reset := reset) hi.1
      simp_all [LvInv, allDir, StartCons, BlockQuote, BlockQuoteStart]
    · intro q hq
      simp only at hq
      split at hq
      · simp only [List.mem_singleton] at hq
        subst hq
        simp [LvInv, allDir, StartCons]
      · exact entryInner_inv hi.2 q hq
  | nilPanic reset lv00 l h hs hp hq hst hl =>
    exact ⟨clean_inv (entryLv_clean hi.1), by simp⟩
  | delegate reset lv00 q qs l r h hs hp hq hst hr ih =>
    have := ih ⟨hi.2 q (by simp), fun x hx => hi.2 x (by simp [hx])⟩
    refine finish_inv ⟨clean_inv (entryLv_clean hi.1), ?_⟩
    intro x hx
    simp only [List.mem_cons] at hx
    rcases hx with rfl | hx
    · exact this.1
    · exact this.2 x hx
  | block reset lv00 inner0 h hs hp hq hst =>
    refine finish_inv ⟨?_, by simp⟩
    have hc := entryLv_clean (reset := reset) hi.1
    rcases scanBlock_frame (entryLv reset lv00) data atEOF with h' | h' | h'
    · rw [h']; exact LvInv_of_fields (clean_inv hc) rfl rfl
    · rw [h']
      obtain ⟨h1, h2⟩ := hc
      simp_all [LvInv, allDir, StartCons, BlockPre, BlockPreStart]
    · exact spanEffect_inv (lv := { entryLv reset lv00 with hasRun := true }) hc h'

theorem StartCons_or {a b : Style} (ha : StartCons a) (hb : StartCons b) : StartCons (a ||| b) := by
  simp only [StartCons, BitVec.getLsbD_or, Bool.or_eq_true] at *
  obtain ⟨a1, a2, a3, a4, a5, a6, a7, a8⟩ := ha
  obtain ⟨b1, b2, b3, b4, b5, b6, b7, b8⟩ := hb
  refine ⟨?_, ?_, ?_, ?_, ?_, ?_, ?_, ?_⟩ <;> (intro h; rcases h with h | h) <;> simp_all

theorem styleLv_startCons {lv : Level} {inner : List Level} (h : AllInv lv inner) :
    StartCons (styleLv lv inner) := by
  induction inner generalizing lv with
  | nil =>
    unfold styleLv
    split
    · exact h.1.2
    · simp [StartCons]
  | cons q qs ih =>
    unfold styleLv
    split
    · exact StartCons_or h.1.2 (ih ⟨h.2 q (by simp), fun x hx => h.2 x (by simp [hx])⟩)
    · simp [StartCons]

theorem and_twoPow_ne_zero (m : Style) (i : Nat) (hi : i < 32) :
    (m &&& BitVec.twoPow 32 i ≠ 0) ↔ m.getLsbD i = true := by
  constructor
  · intro h
    cases hb : m.getLsbD i with
    | true => rfl
    | false =>
      exfalso; apply h
      apply BitVec.eq_of_getLsbD_eq
      intro j hj
      simp only [BitVec.getLsbD_and, BitVec.getLsbD_twoPow]
      by_cases hij : i = j
      · subst hij; simp [hb]
      · simp [hij]
  · intro hb h
    have := congrArg (fun x => BitVec.getLsbD x i) h
    simp [hi] at this
    rw [BitVec.getLsbD_eq_getElem hi, this] at hb
    cases hb


/-- the full invariant of a decoder: no nil dereference possible, style bookkeeping sound -/
def Dec.Inv (d : Dec) : Prop := d.OK ∧ AllInv d.lv d.inner

theorem Dec.inv_init : Dec.Inv {} := ⟨rfl, by simp [AllInv, LvInv, allDir, StartCons]⟩

theorem Dec.inv_scan (d : Dec) (data : Bytes) (atEOF : Bool) (h : d.Inv) : (d.scan data atEOF).2.Inv :=
  ⟨scanRel_chain (scanLv_rel data atEOF false d.lv d.inner) h.1,
   scanRel_inv (scanLv_rel data atEOF false d.lv d.inner) h.2⟩

theorem decScan_spec_inv : SplitSpec Dec.scan Dec.Inv where
  call_ok := fun s buf eof hI hne => ⟨(decScan_spec.call_ok s buf eof hI.1 hne).1, Dec.inv_scan s buf eof hI⟩
  nil_eof := fun s hI => ⟨(decScan_spec.nil_eof s hI.1).1, Dec.inv_scan s [] true hI⟩
  eof_tok := fun s buf hI hne => decScan_spec.eof_tok s buf hI.1 hne

theorem scanDoc_inv (limit : Option Nat) (sch : Schedule) (doc : Bytes) :
    ∀ x ∈ (scanDoc limit sch doc).1, x.2.Inv := by
  have := scanner_ok Dec.scan Dec.Inv decScan_spec_inv limit (fuelFor doc) sch.sizes sch.dataEOF {} [] doc false
    Dec.inv_init (by simp) (by simp [runMeasure, fuelFor])
  intro x hx
  exact (this.2.2 x (by simpa [scanDoc] using hx)).1

/-- bit number of the style of a directive byte -/
def styleIdx (b : UInt8) : Nat :=
  if b == star then 3 else if b == under then 2 else if b == tilde then 4 else 5

/-- every open span has its style bit set and not scheduled for clearing -/
def StackOK (lv : Level) : Prop :=
  ∀ b ∈ lv.spanStack, isDirective b = true ∧ lv.mask.getLsbD (styleIdx b) = true ∧
    lv.clearMask.getLsbD (styleIdx b) = false

theorem styleIdx_inj {a b : UInt8} (ha : isDirective a = true) (hb : isDirective b = true)
    (h : styleIdx a = styleIdx b) : a = b := by
  rcases isDirective_cases ha with rfl | rfl | rfl | rfl <;>
    rcases isDirective_cases hb with rfl | rfl | rfl | rfl <;>
    first | rfl | (revert h; decide)

/-- one `scanSpan` call on a decoder whose directive bits are clear (as `scan` leaves them at
entry), whose open spans have their style bits, and whose stack has no duplicate: afterwards
every span end bit comes with its style bit and the open spans still have theirs -/
theorem scanSpan_endCons {lv : Level} (data : Bytes) (atEOF : Bool) (hc : Clean lv) (hs : StackOK lv)
    (hn : lv.spanStack.Nodup) :
    EndCons (scanSpan lv data atEOF).2.mask ∧ StackOK (scanSpan lv data atEOF).2 := by
  obtain ⟨h1, h2⟩ := hc
  rcases scanSpan_effect lv data atEOF with h | ⟨b, hb, hd, h⟩ | ⟨b, hd, _, h⟩ <;> rw [h]
  · refine ⟨?_, hs⟩
    simp_all [EndCons, allDir]
  · -- close: `b` is the top of the stack
    cases hst : lv.spanStack with
    | nil => simp [hst] at hb
    | cons top rest =>
      simp only [hst, List.head?_cons, Option.some.injEq] at hb
      subst hb
      have htop := hs top (by simp [hst])
      rw [hst] at hn
      have hnotin : top ∉ rest := (List.nodup_cons.mp hn).1
      constructor
      · rcases isDirective_cases hd with rfl | rfl | rfl | rfl <;>
          simp_all [closeSpan, bitsOf, star, under, tick, tilde, EndCons, allDir, styleIdx,
            SpanStrong, SpanStrongEnd, SpanEmph, SpanEmphEnd, SpanStrike, SpanStrikeEnd, SpanPre, SpanPreEnd]
      · intro c hcm
        have hcm' : c ∈ rest := by simpa [closeSpan, hst] using hcm
        have hc' := hs c (by simp [hst, hcm'])
        have hne : styleIdx c ≠ styleIdx top := fun he =>
          hnotin (styleIdx_inj hc'.1 hd he ▸ hcm')
        refine ⟨hc'.1, ?_, ?_⟩
        · rcases isDirective_cases hd with rfl | rfl | rfl | rfl <;>
            simp_all [closeSpan, bitsOf, star, under, tick, tilde]
        · rcases isDirective_cases hd with rfl | rfl | rfl | rfl <;>
            rcases isDirective_cases hc'.1 with rfl | rfl | rfl | rfl <;>
            simp_all [closeSpan, bitsOf, star, under, tick, tilde, styleIdx,
              SpanStrong, SpanStrongEnd, SpanEmph, SpanEmphEnd, SpanStrike, SpanStrikeEnd, SpanPre, SpanPreEnd]
  · constructor
    · rcases isDirective_cases hd with rfl | rfl | rfl | rfl <;>
        simp_all [openSpan, bitsOf, star, under, tick, tilde, EndCons, allDir,
          SpanStrong, SpanStrongStart, SpanEmph, SpanEmphStart, SpanStrike, SpanStrikeStart, SpanPre, SpanPreStart]
    · intro c hcm
      simp only [openSpan, List.mem_cons] at hcm
      rcases hcm with rfl | hcm
      · refine ⟨hd, ?_, ?_⟩ <;>
          rcases isDirective_cases hd with rfl | rfl | rfl | rfl <;>
          simp_all [openSpan, bitsOf, star, under, tick, tilde, styleIdx,
            SpanStrong, SpanStrongStart, SpanEmph, SpanEmphStart, SpanStrike, SpanStrikeStart, SpanPre, SpanPreStart]
      · have hc' := hs c hcm
        refine ⟨hc'.1, ?_, ?_⟩ <;>
          rcases isDirective_cases hd with rfl | rfl | rfl | rfl <;>
          rcases isDirective_cases hc'.1 with rfl | rfl | rfl | rfl <;>
          simp_all [openSpan, bitsOf, star, under, tick, tilde, styleIdx,
            SpanStrong, SpanStrongStart, SpanEmph, SpanEmphStart, SpanStrike, SpanStrikeStart, SpanPre, SpanPreStart]
end XmppModel.Styling
