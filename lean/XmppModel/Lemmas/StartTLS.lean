import XmppModel.Model.StartTLS
set_option linter.unusedVariables false
/-!
Helper lemmas for `Props/C02.lean`.

* `Res.All P r` — the session a computation ends in (whether it succeeds or stops) satisfies
  `P`; predicates closed under the model's primitive updates (`ClosedIO`, `ClosedNeg`) are
  carried through every function of the model (`*_all`);
* the *secured phase* invariant `PA` and the *pre-buffer* invariant `PB` are instances;
* the *clear phase* analysis (`select_clear`, `step_clear`): from a state without `Secure`
  on the first features list, a negotiator call either stops or ends with a TLS layer to
  install and `Secure` set, having written nothing but the header and the STARTTLS request.
-/
namespace XmppModel.StartTLS

/-! ### `Res.All` and closure -/

def Res.All {α : Type} (P : Sess → Prop) : Res α → Prop
  | .ok _ s => P s
  | .stop _ s => P s

@[simp] theorem Res.all_ok {α} (P : Sess → Prop) (a : α) (s : Sess) : (Res.ok a s).All P = P s := rfl
@[simp] theorem Res.all_stop {α} (P : Sess → Prop) (w : Stop) (s : Sess) :
    (Res.stop (α := α) w s).All P = P s := rfl

theorem sendHello_ind {P : Sess → Prop} (s : Sess) (h0 : P s)
    (h1 : ∀ n, P { s with trace := .hello n :: s.trace }) : P (sendHello s) := by
  unfold sendHello
  split
  · exact h1 _
  · exact h0

theorem sendHello_fields (s : Sess) :
    (sendHello s).tls = s.tls ∧ (sendHello s).buf = s.buf ∧ (sendHello s).clear = s.clear ∧
    (sendHello s).prot = s.prot ∧ (sendHello s).state = s.state ∧ (sendHello s).hs = s.hs := by
  unfold sendHello
  split <;> exact ⟨rfl, rfl, rfl, rfl, rfl, rfl⟩

/-- closed under what the connection primitives do to a session -/
structure ClosedIO (P : Sess → Prop) : Prop where
  hello : ∀ s, P s → P (sendHello s)
  hs : ∀ s, P s → P { s with hs := true }
  fromBuf : ∀ s o u rest, P s → s.buf = (o, u) :: rest → P { s with buf := rest, trace := .deliver o s.tls :: s.trace }
  fromTls : ∀ s u rest, P s → s.tls = true → s.buf = [] → s.prot = .unit u :: rest →
    P { s with prot := rest, trace := .deliver false true :: s.trace }
  fromClear : ∀ s u us rest, P s → s.tls = false → s.buf = [] → pullClear s.clear = some (u, us, rest) →
    P { s with buf := us.map (fun x => (true, x)), clear := rest, trace := .deliver true false :: s.trace }

theorem handshake_all {P : Sess → Prop} (h : ClosedIO P) (s : Sess) (hp : P s) :
    (handshake s).All P := by
  unfold handshake
  split
  · split
    · exact h.hello s hp
    · split
      · exact h.hello s hp
      · exact h.hs _ (h.hello s hp)
  · exact hp

theorem handshake_tls (s : Sess) : ∀ a s', handshake s = .ok a s' → s'.tls = s.tls ∧ s'.buf = s.buf := by
  intro a s' he
  unfold handshake at he
  split at he
  · split at he
    · cases he
    · split at he
      · cases he
      · cases he; exact ⟨(sendHello_fields s).1, (sendHello_fields s).2.1⟩
  · cases he; exact ⟨rfl, rfl⟩

theorem write_all {P : Sess → Prop} (h : ClosedIO P) (e : Bool → Ev)
    (he : ∀ s, P s → P { s with trace := e s.tls :: s.trace }) (s : Sess) (hp : P s) :
    (write e s).All P := by
  unfold write
  have := handshake_all h s hp
  cases hh : handshake s with
  | stop w s' => rw [hh] at this; exact this
  | ok a s' => rw [hh] at this; exact he s' this

theorem pull_all {P : Sess → Prop} (h : ClosedIO P) (s : Sess) (hp : P s) :
    (pull s).All P := by
  unfold pull
  split
  · next o u rest hbuf =>
    exact h.fromBuf s o u rest hp hbuf
  · next hbuf =>
    have := handshake_all h s hp
    cases hh : handshake s with
    | stop w s' => rw [hh] at this; exact this
    | ok a s' =>
      rw [hh] at this
      have hb' : s'.buf = [] := by rw [(handshake_tls s a s' hh).2]; exact hbuf
      simp only
      split
      · next ht =>
        split
        · exact this
        · split
          · exact this
          · exact this
          · next u rest hprot => exact h.fromTls s' u rest this ht hb' hprot
      · next ht =>
        split
        · exact this
        · next u us rest hpc => exact h.fromClear s' u us rest this (by simpa using ht) hb' hpc

/-- the address checks leave the session as it is: a header is only accepted when its `to` is the
address the session already has, so the assignment `*in = newIn` changes nothing -/
theorem infoTo_accepted (f : HFrom) (t : Option Addr) (a : Addr) (h : hdrAccepted f t a = true) :
    infoTo t a = a := by
  cases t with
  | none => rfl
  | some b =>
    have : b = a := (by simpa [hdrAccepted] using h : _ ∧ b = a).2
    subst this; rfl

theorem acceptHdr_eq (f : HFrom) (t : Option Addr) (s : Sess) :
    acceptHdr f t s = if hdrAccepted f t s.laddr then .ok () s else .stop (.err .proto) s := by
  unfold acceptHdr
  split
  · next h => rw [infoTo_accepted f t s.laddr h]
  · rfl

theorem acceptHdr_id (f : HFrom) (t : Option Addr) (s : Sess) :
    acceptHdr f t s = .ok () s ∨ acceptHdr f t s = .stop (.err .proto) s := by
  rw [acceptHdr_eq]
  split
  · exact .inl rfl
  · exact .inr rfl

theorem acceptHdr_all {α : Type} {P : Sess → Prop} (f : HFrom) (t : Option Addr) (s : Sess) (hp : P s) :
    (acceptHdr f t s).All P := by
  rcases acceptHdr_id f t s with h | h <;> rw [h] <;> exact hp

theorem expectHdr_all {P : Sess → Prop} (h : ClosedIO P) : ∀ n s, P s → (expectHdr n s).All P := by
  intro n
  induction n with
  | zero => intro s hp; exact hp
  | succ n ih =>
    intro s hp
    unfold expectHdr
    have := pull_all h s hp
    cases hh : pull s with
    | stop w s' => rw [hh] at this; exact this
    | ok u s' =>
      rw [hh] at this
      cases u with
      | space => exact ih s' this
      | hdr ok => cases ok <;> exact this
      | hdrA f t => exact acceptHdr_all (α := PUnit) f t s' this
      | _ => exact this

/-- closed under what negotiator / features / session code does to a session -/
structure ClosedNeg (P : Sess → Prop) : Prop where
  wHdr : ∀ s, P s → P { s with trace := .wHdr s.tls :: s.trace }
  wStartTLS : ∀ s, P s → P { s with trace := .wStartTLS s.tls :: s.trace }
  wOther : ∀ s id, P s → P { s with trace := .wOther id s.tls :: s.trace }
  choose : ∀ s, P s → P (chooseConfig s)
  advert : ∀ s ids, P s → P (advert ids s.tls s)
  oracle : ∀ s o, P s → P { s with oracle := o }
  neg : ∀ s m id, P s → P { s with state := s.state ||| m, negotiated := id :: s.negotiated }
  first : ∀ s, P s → P { s with first := false }
  doRestart : ∀ s b, P s → P { s with doRestart := b }
  restart : ∀ s, P s → P (restartDec s)
  stateOr : ∀ s m, P s → P { s with state := s.state ||| m }

/-- closed under the installation of a TLS layer -/
structure ClosedInstall (P : Sess → Prop) : Prop where
  installTls : ∀ s, P s → P { restartDec s with tls := true, hs := false, trace := .switch :: s.trace }

theorem negotiateOne_all {P : Sess → Prop} (h : ClosedIO P) (hn : ClosedNeg P) (c : Cached) (res : NegRes)
    (s : Sess) (hp : P s) : (negotiateOne c res s).All P := by
  unfold negotiateOne
  split
  · have hw := write_all h .wStartTLS hn.wStartTLS (chooseConfig s) (hn.choose s hp)
    cases hh : write .wStartTLS (chooseConfig s) with
    | stop w s' => rw [hh] at hw; exact hw
    | ok a s1 =>
      rw [hh] at hw
      dsimp only
      have hpl := pull_all h s1 hw
      cases hh2 : pull s1 with
      | stop w s' => rw [hh2] at hpl; exact hpl
      | ok u s2 =>
        rw [hh2] at hpl
        cases u <;> exact hpl
  · have hw := write_all h (.wOther c.id) (fun s hp => hn.wOther s c.id hp) s hp
    cases hh : write (.wOther c.id) s with
    | stop w s' => rw [hh] at hw; exact hw
    | ok a s1 =>
      rw [hh] at hw
      simp only
      split
      · exact hw
      · split <;> exact hw

theorem finishList_all {P : Sess → Prop} (cfg : FCfg) (skipped : List Cached) (s : Sess) (hp : P s) :
    (finishList cfg skipped s).All P := by
  unfold finishList
  split <;> exact hp

theorem select_all {P : Sess → Prop} (h : ClosedIO P) (hn : ClosedNeg P) (cfg : FCfg) (doTLS listReq : Bool)
    (cache skipped : List Cached) : ∀ orc s, P s → (select cfg doTLS listReq cache skipped orc s).All P := by
  intro orc
  induction orc with
  | nil =>
    intro s hp
    unfold select
    generalize pickSet cfg doTLS cache s = al
    split
    · exact finishList_all cfg skipped s hp
    · exact hp
  | cons e orc' ih =>
    intro s hp
    obtain ⟨id, res⟩ := e
    unfold select
    generalize pickSet cfg doTLS cache s = al
    split
    · exact finishList_all cfg skipped s hp
    · dsimp only
      split
      · exact hp
      · next c hc =>
        have hno := negotiateOne_all h hn c res { s with oracle := orc' } (hn.oracle s orc' hp)
        cases hh : negotiateOne c res { s with oracle := orc' } with
        | stop w s' => rw [hh] at hno; exact hno
        | ok mr s1 =>
          rw [hh] at hno
          obtain ⟨mask, rw⟩ := mr
          dsimp only
          split
          · exact hn.neg s1 mask c.id hno
          · exact ih _ (hn.neg s1 mask c.id hno)

theorem negotiateFeatures_all {P : Sess → Prop} (h : ClosedIO P) (hn : ClosedNeg P) (cfg : FCfg) (first : Bool)
    (s : Sess) (hp : P s) : (negotiateFeatures cfg first s).All P := by
  unfold negotiateFeatures
  have hpl := pull_all h s hp
  cases hh : pull s with
  | stop w s' => rw [hh] at hpl; exact hpl
  | ok u s1 =>
    rw [hh] at hpl
    cases u <;> simp only <;> try exact hpl
    split
    · exact hpl
    · split
      · exact hpl
      · split
        · exact hpl
        · exact select_all h hn cfg _ _ _ _ _ s1 hpl

/-- none of the model's primitive updates removes or adds a TLS layer (only `install` does) -/
theorem ClosedIO.withTls {P : Sess → Prop} (h : ClosedIO P) (t : Bool) : ClosedIO (fun s => P s ∧ s.tls = t) where
  hello := fun s ⟨a, b⟩ => ⟨h.hello s a, (sendHello_fields s).1.trans b⟩
  hs := fun s ⟨a, b⟩ => ⟨h.hs s a, b⟩
  fromBuf := fun s o u rest ⟨a, b⟩ hb => ⟨h.fromBuf s o u rest a hb, b⟩
  fromTls := fun s u rest ⟨a, b⟩ ht hb hp => ⟨h.fromTls s u rest a ht hb hp, b⟩
  fromClear := fun s u us rest ⟨a, b⟩ ht hb hp => ⟨h.fromClear s u us rest a ht hb hp, b⟩

theorem ClosedNeg.withTls {P : Sess → Prop} (h : ClosedNeg P) (t : Bool) : ClosedNeg (fun s => P s ∧ s.tls = t) where
  wHdr := fun s ⟨a, b⟩ => ⟨h.wHdr s a, b⟩
  wStartTLS := fun s ⟨a, b⟩ => ⟨h.wStartTLS s a, b⟩
  wOther := fun s id ⟨a, b⟩ => ⟨h.wOther s id a, b⟩
  choose := fun s ⟨a, b⟩ => ⟨h.choose s a, b⟩
  advert := fun s ids ⟨a, b⟩ => ⟨h.advert s ids a, b⟩
  oracle := fun s o ⟨a, b⟩ => ⟨h.oracle s o a, b⟩
  neg := fun s m id ⟨a, b⟩ => ⟨h.neg s m id a, b⟩
  first := fun s ⟨a, b⟩ => ⟨h.first s a, b⟩
  doRestart := fun s x ⟨a, b⟩ => ⟨h.doRestart s x a, b⟩
  restart := fun s ⟨a, b⟩ => ⟨h.restart s a, b⟩
  stateOr := fun s m ⟨a, b⟩ => ⟨h.stateOr s m a, b⟩

theorem negotiateFeaturesAdv_all {P : Sess → Prop} (h : ClosedIO P) (hn : ClosedNeg P) (cfg : FCfg) (first : Bool)
    (s : Sess) (hp : P s) : (negotiateFeaturesAdv cfg first s).All P := by
  have h0 := negotiateFeatures_all (h.withTls s.tls) (hn.withTls s.tls) cfg first s ⟨hp, rfl⟩
  unfold negotiateFeaturesAdv
  cases hq : negotiateFeatures cfg first s with
  | ok a q =>
    rw [hq] at h0
    obtain ⟨hpq, ht⟩ := h0
    show P (advert _ s.tls q)
    rw [← ht]
    exact hn.advert q _ hpq
  | stop w q =>
    rw [hq] at h0
    obtain ⟨hpq, ht⟩ := h0
    show P (advert _ s.tls q)
    rw [← ht]
    exact hn.advert q _ hpq

theorem step_all {P : Sess → Prop} (h : ClosedIO P) (hn : ClosedNeg P) (cfg : FCfg) (fuel : Nat)
    (s : Sess) (hp : P s) : (step cfg fuel s).All P := by
  unfold step
  have hr : (if s.doRestart then
      match write .wHdr s with
      | .stop w s' => Res.stop w s'
      | .ok _ s1 => expectHdr fuel s1
    else Res.ok () s : Res PUnit).All P := by
    split
    · have hw := write_all h .wHdr hn.wHdr s hp
      cases hh : write .wHdr s with
      | stop w s' => rw [hh] at hw; exact hw
      | ok a s1 => rw [hh] at hw; exact expectHdr_all h fuel s1 hw
    · exact hp
  simp only
  generalize (if s.doRestart then
      match write .wHdr s with
      | .stop w s' => Res.stop w s'
      | .ok _ s1 => expectHdr fuel s1
    else Res.ok () s : Res PUnit) = r at hr
  cases r with
  | stop w s' => exact hr
  | ok a s2 =>
    simp only
    have hf := negotiateFeaturesAdv_all h hn cfg s2.first { s2 with first := false } (hn.first s2 hr)
    cases hh : negotiateFeaturesAdv cfg s2.first { s2 with first := false } with
    | stop w s' => rw [hh] at hf; exact hf
    | ok out s3 => rw [hh] at hf; exact hn.doRestart s3 _ hf

theorem install_all {P : Sess → Prop} (hn : ClosedNeg P) (hi : ClosedInstall P) (rw : Rw) (s : Sess) (hp : P s) :
    P (install rw s) := by
  cases rw
  · exact hp
  · exact hn.restart s hp
  · exact hi.installTls s hp

theorem loop_all {P : Sess → Prop} (h : ClosedIO P) (hn : ClosedNeg P) (hi : ClosedInstall P) (cfg : Cfg) :
    ∀ fuel teeOn s, P s → P (loop cfg fuel teeOn s).1 := by
  intro fuel
  induction fuel with
  | zero => intro teeOn s hp; exact hp
  | succ fuel ih =>
    intro teeOn s hp
    unfold loop
    split
    · exact hp
    · simp only
      have hp1 : P (if (cfg.tee && !teeOn) = true then restartDec s else s) := by
        split
        · exact hn.restart s hp
        · exact hp
      have hs := step_all h hn cfg.toFCfg (fuel + 1) _ hp1
      cases hh : step cfg.toFCfg (fuel + 1) (if (cfg.tee && !teeOn) = true then restartDec s else s) with
      | stop w s2 => rw [hh] at hs; exact hs
      | ok out s2 =>
        rw [hh] at hs
        exact ih _ _ (hn.stateOr _ _ (install_all hn hi out.rw s2 hs))

/-! ### bit facts -/

theorem has_or (s m x : Mask) (h : has s x = true) : has (s ||| m) x = true := by
  simp only [has, beq_iff_eq] at *
  ext i hi
  have := congrArg (fun v => v.getLsbD i) h
  simp only [BitVec.getLsbD_and, BitVec.getElem_and, BitVec.getElem_or] at this ⊢
  simp only [BitVec.getLsbD_eq_getElem hi] at this
  revert this
  cases s[i] <;> cases m[i] <;> cases x[i] <;> simp

theorem has_or_self (s x : Mask) : has (s ||| x) x = true := by
  simp only [has, beq_iff_eq]
  ext i hi
  simp only [BitVec.getElem_and, BitVec.getElem_or]
  cases s[i] <;> cases x[i] <;> simp

/-- a feature that needs `Secure` is not eligible while `Secure` is not set -/
theorem not_eligible_clear (st nec proh : Mask) (hs : has st Secure = false) (hn : has nec Secure = true) :
    eligible st nec proh = false := by
  cases he : eligible st nec proh with
  | false => rfl
  | true =>
    exfalso
    simp only [eligible, Bool.and_eq_true, beq_iff_eq] at he
    have h1 := he.1
    simp only [has, beq_iff_eq] at hn
    have : has st Secure = true := by
      simp only [has, beq_iff_eq]
      apply BitVec.eq_of_getLsbD_eq
      intro i hi
      have a := congrArg (fun v => v.getLsbD i) h1
      have b := congrArg (fun v => v.getLsbD i) hn
      simp only [BitVec.getLsbD_and] at a b ⊢
      revert a b
      generalize st.getLsbD i = x
      generalize nec.getLsbD i = y
      generalize Secure.getLsbD i = z
      cases x <;> cases y <;> cases z <;> simp
    rw [this] at hs
    cases hs

theorem secure_bit_zero : ∀ s : Mask, has s Secure = false → s &&& Secure = 0 := by decide

/-! ### the secured phase: `PA` -/

def okEv : Ev → Bool
  | .wOther _ false => false
  | _ => true

/-- no feature other than STARTTLS wrote anything in clear text -/
def NCO (tr : List Ev) : Prop := ∀ e ∈ tr, okEv e = true

theorem NCO_cons (e : Ev) (tr : List Ev) : NCO (e :: tr) ↔ okEv e = true ∧ NCO tr := by
  simp [NCO]

def Sec (s : Sess) : Prop := has s.state Secure = true

/-- a TLS layer is installed, `Secure` is set, nothing was written in clear but header and
STARTTLS request -/
def PA (s : Sess) : Prop := s.tls = true ∧ Sec s ∧ NCO s.trace

theorem PA_io : ClosedIO PA where
  hello := fun s ⟨a, b, c⟩ => sendHello_ind (P := PA) s ⟨a, b, c⟩ (fun n => ⟨a, b, (NCO_cons _ _).2 ⟨rfl, c⟩⟩)
  hs := fun s ⟨a, b, c⟩ => ⟨a, b, c⟩
  fromBuf := fun s o u rest ⟨a, b, c⟩ _ => ⟨a, b, (NCO_cons _ _).2 ⟨rfl, c⟩⟩
  fromTls := fun s u rest ⟨a, b, c⟩ _ _ _ => ⟨a, b, (NCO_cons _ _).2 ⟨rfl, c⟩⟩
  fromClear := fun s u us rest ⟨a, b', c⟩ _ _ _ => ⟨a, b', (NCO_cons _ _).2 ⟨rfl, c⟩⟩

theorem PA_neg : ClosedNeg PA where
  wHdr := fun s ⟨a, b, c⟩ => ⟨a, b, (NCO_cons _ _).2 ⟨rfl, c⟩⟩
  wStartTLS := fun s ⟨a, b, c⟩ => ⟨a, b, (NCO_cons _ _).2 ⟨rfl, c⟩⟩
  wOther := fun s id ⟨a, b, c⟩ => ⟨a, b, (NCO_cons _ _).2 ⟨by simp [a, okEv], c⟩⟩
  choose := fun s ⟨a, b, c⟩ => ⟨a, b, c⟩
  advert := fun s ids ⟨a, b, c⟩ => ⟨a, b, c⟩
  oracle := fun s o ⟨a, b, c⟩ => ⟨a, b, c⟩
  neg := fun s m id ⟨a, b, c⟩ => ⟨a, has_or _ _ _ b, c⟩
  first := fun s ⟨a, b, c⟩ => ⟨a, b, c⟩
  doRestart := fun s _ ⟨a, b, c⟩ => ⟨a, b, c⟩
  restart := fun s ⟨a, b, c⟩ => ⟨a, b, c⟩
  stateOr := fun s m ⟨a, b, c⟩ => ⟨a, has_or _ _ _ b, c⟩

theorem PA_install : ClosedInstall PA where
  installTls := fun s ⟨_, b, c⟩ => ⟨rfl, b, (NCO_cons _ _).2 ⟨rfl, c⟩⟩

/-! ### received in clear, never delivered inside the layer: `PB` -/

def okDeliver : Ev → Bool
  | .deliver true true => false
  | _ => true

def PB (s : Sess) : Prop := (s.tls = true → s.buf = []) ∧ ∀ e ∈ s.trace, okDeliver e = true

theorem PB_cons (s : Sess) (e : Ev) (h : okDeliver e = true) (hp : PB s) :
    PB { s with trace := e :: s.trace } := by
  refine ⟨hp.1, ?_⟩
  intro e' he
  simp only [List.mem_cons] at he
  rcases he with rfl | he
  · exact h
  · exact hp.2 e' he

theorem PB_io : ClosedIO PB where
  hello := fun s hp => sendHello_ind (P := PB) s hp (fun n => PB_cons s _ rfl hp)
  hs := fun s ⟨a, b⟩ => ⟨a, b⟩
  fromBuf := by
    intro s o u rest ⟨a, b⟩ hb
    have ht : s.tls = false := by
      cases h : s.tls with
      | false => rfl
      | true => rw [a h] at hb; cases hb
    refine ⟨fun h => by simp [ht] at h, ?_⟩
    intro e he
    simp only [List.mem_cons] at he
    rcases he with rfl | he
    · rw [ht]; cases o <;> rfl
    · exact b e he
  fromTls := by
    intro s u rest ⟨a, b⟩ _ _ _
    refine ⟨a, ?_⟩
    intro e he
    simp only [List.mem_cons] at he
    rcases he with rfl | he
    · rfl
    · exact b e he
  fromClear := by
    intro s u us rest ⟨a, b⟩ ht _ _
    refine ⟨fun h => by simp [ht] at h, ?_⟩
    intro e he
    simp only [List.mem_cons] at he
    rcases he with rfl | he
    · rfl
    · exact b e he

theorem PB_neg : ClosedNeg PB where
  wHdr := fun s hp => PB_cons s _ rfl hp
  wStartTLS := fun s hp => PB_cons s _ rfl hp
  wOther := fun s id hp => PB_cons s _ rfl hp
  choose := fun s ⟨a, b⟩ => ⟨a, b⟩
  advert := fun s ids ⟨a, b⟩ => ⟨a, b⟩
  oracle := fun s o ⟨a, b⟩ => ⟨a, b⟩
  neg := fun s m id ⟨a, b⟩ => ⟨a, b⟩
  first := fun s ⟨a, b⟩ => ⟨a, b⟩
  doRestart := fun s _ ⟨a, b⟩ => ⟨a, b⟩
  restart := fun s ⟨_, b⟩ => ⟨fun _ => rfl, b⟩
  stateOr := fun s m ⟨a, b⟩ => ⟨a, b⟩

theorem PB_install : ClosedInstall PB where
  installTls := by
    intro s ⟨_, b⟩
    refine ⟨fun _ => rfl, ?_⟩
    intro e he
    simp only [restartDec, List.mem_cons] at he
    rcases he with rfl | he
    · rfl
    · exact b e he

/-! ### the clear phase -/

/-- none of the configured features other than STARTTLS can be negotiated in the state the
session starts in (their `Necessary`/`Prohibited` masks do not hold there) -/
def Compliant (cfg : FCfg) (st0 : Mask) : Prop := ∀ f ∈ cfg.others, eligible st0 f.nec f.proh = false

/-- the special case of the property text: every other feature requires a secured stream -/
theorem compliant_of_secure (cfg : FCfg) (st0 : Mask) (hs : has st0 Secure = false)
    (h : ∀ f ∈ cfg.others, has f.nec Secure = true) : Compliant cfg st0 :=
  fun f hf => not_eligible_clear st0 f.nec f.proh hs (h f hf)

/-- clear phase, at a point where no feature has been negotiated on this connection: the state
is still the initial one -/
structure ClearPre (st0 : Mask) (s : Sess) : Prop where
  st : s.state = st0
  sec : has s.state Secure = false
  tls : s.tls = false
  neg : s.negotiated = []
  nco : NCO s.trace

/-- `ClearPre` and the first-features-list flag is still set -/
def ClearFirst (st0 : Mask) (s : Sess) : Prop := ClearPre st0 s ∧ s.first = true

theorem ClearPre_ev (st0 : Mask) (s : Sess) (e : Ev) (he : okEv e = true) (h : ClearPre st0 s) :
    ClearPre st0 { s with trace := e :: s.trace } :=
  ⟨h.st, h.sec, h.tls, h.neg, (NCO_cons _ _).2 ⟨he, h.nco⟩⟩

theorem ClearPre_io (st0 : Mask) : ClosedIO (ClearPre st0) where
  hello := fun s h => sendHello_ind (P := ClearPre st0) s h (fun n => ClearPre_ev st0 s _ rfl h)
  hs := fun s h => ⟨h.st, h.sec, h.tls, h.neg, h.nco⟩
  fromBuf := fun s o u rest h _ => ⟨h.st, h.sec, h.tls, h.neg, (NCO_cons _ _).2 ⟨rfl, h.nco⟩⟩
  fromTls := fun s u rest h _ _ _ => ⟨h.st, h.sec, h.tls, h.neg, (NCO_cons _ _).2 ⟨rfl, h.nco⟩⟩
  fromClear := fun s u us rest h _ _ _ => ⟨h.st, h.sec, h.tls, h.neg, (NCO_cons _ _).2 ⟨rfl, h.nco⟩⟩

theorem ClearFirst_io (st0 : Mask) : ClosedIO (ClearFirst st0) where
  hello := fun s ⟨h, f⟩ => sendHello_ind (P := ClearFirst st0) s ⟨h, f⟩ (fun n => ⟨ClearPre_ev st0 s _ rfl h, f⟩)
  hs := fun s ⟨h, f⟩ => ⟨(ClearPre_io st0).hs s h, f⟩
  fromBuf := fun s o u rest ⟨h, f⟩ hb => ⟨(ClearPre_io st0).fromBuf s o u rest h hb, f⟩
  fromTls := fun s u rest ⟨h, f⟩ ht hb hp => ⟨(ClearPre_io st0).fromTls s u rest h ht hb hp, f⟩
  fromClear := fun s u us rest ⟨h, f⟩ ht hb hp => ⟨(ClearPre_io st0).fromClear s u us rest h ht hb hp, f⟩

def Res.Both {α : Type} (Pok : α → Sess → Prop) (Pstop : Sess → Prop) : Res α → Prop
  | .ok a s => Pok a s
  | .stop _ s => Pstop s

/-- a postcondition that does not look at `Session.features` survives the bookkeeping -/
theorem addAdv_both {α : Type} {Pok : α → Sess → Prop} {Pstop : Sess → Prop} (ids : List Nat) (t : Bool)
    (r : Res α) (hok : ∀ a s, Pok a s → Pok a (advert ids t s)) (hstop : ∀ s, Pstop s → Pstop (advert ids t s))
    (h : r.Both Pok Pstop) : (addAdv ids t r).Both Pok Pstop := by
  cases r with
  | ok a s => exact hok a s h
  | stop w s => exact hstop s h

/-- the cache holds nothing but the real STARTTLS feature -/
def CacheTLS (cache : List Cached) : Prop := ∀ c ∈ cache, c.id = 0 ∧ c.f = startTLS

theorem lookup_cases (cfg : FCfg) (id : Nat) (f : Feature) (h : lookup cfg id = some f) :
    (id = 0 ∧ f = startTLS) ∨ f ∈ cfg.others := by
  unfold lookup at h
  rw [List.find?_cons] at h
  split at h
  · next hm =>
    left
    cases h
    simp only [startTLS, beq_iff_eq] at hm
    exact ⟨hm.symm, rfl⟩
  · right
    exact List.mem_of_find?_eq_some h

theorem cacheInsert_tls (cache : List Cached) (c : Cached) (hc : CacheTLS cache)
    (h : c.id = 0 ∧ c.f = startTLS) : CacheTLS (cacheInsert cache c) := by
  intro x hx
  simp only [cacheInsert, List.mem_append, List.mem_filter, List.mem_singleton] at hx
  rcases hx with ⟨hx, _⟩ | rfl
  · exact hc x hx
  · exact h

theorem parseItems_clear (cfg : FCfg) (st : Mask) (hc : Compliant cfg st) :
    ∀ items req cache r, CacheTLS cache → parseItems cfg st items req cache = .ok r → CacheTLS r.2 := by
  intro items
  induction items with
  | nil =>
    intro req cache r hct h
    simp only [parseItems] at h
    cases h
    exact hct
  | cons it rest ih =>
    intro req cache r hct h
    unfold parseItems at h
    cases hl : lookup cfg it.id with
    | none => rw [hl] at h; exact ih _ _ _ hct h
    | some f =>
      rw [hl] at h
      dsimp only at h
      split at h
      · cases h
      · split at h
        · next hel =>
          rcases lookup_cases cfg it.id f hl with hz | hmem
          · exact ih _ _ _ (cacheInsert_tls cache _ hct hz) h
          · rw [hc f hmem] at hel
            cases hel
        · exact ih _ _ _ hct h

theorem allowed_ne (l : List Cached) (h : l ≠ []) : allowed l ≠ [] := by
  unfold allowed
  split
  · exact h
  · next hne => intro he; rw [he] at hne; exact hne rfl

theorem allowed_sub (l : List Cached) (c : Cached) (h : c ∈ allowed l) : c ∈ l := by
  unfold allowed at h
  split at h
  · exact h
  · exact (List.mem_filter.1 h).1

theorem pickSet_clear (cfg : FCfg) (doTLS : Bool) (cache : List Cached) (st0 : Mask) (s : Sess) (hpre : ClearPre st0 s)
    (hct : CacheTLS cache) (hne : doTLS = true ∨ cache ≠ []) :
    pickSet cfg doTLS cache s ≠ [] ∧ ∀ c ∈ pickSet cfg doTLS cache s, c.id = 0 := by
  cases doTLS with
  | true => simp [pickSet]
  | false =>
    have hcne : cache ≠ [] := by rcases hne with h | h; cases h; exact h
    have hs := hpre.sec
    have hn := hpre.neg
    have hcand : candidates cfg cache s = cache := by
      unfold candidates
      rw [List.filter_eq_self]
      intro c hc
      obtain ⟨_, hf⟩ := hct c hc
      have hz := secure_bit_zero s.state hs
      simp [hn, hf, startTLS, eligible, hz]
    simp only [pickSet, Bool.false_eq_true, if_false, hcand]
    exact ⟨allowed_ne cache hcne, fun c hc => (hct c (allowed_sub cache c hc)).1⟩

theorem negotiateOne_clear (c : Cached) (res : NegRes) (st0 : Mask) (s : Sess) (hid : c.id = 0)
    (hpre : ClearPre st0 s) :
    (negotiateOne c res s).Both (fun mr s' => mr = (Secure, Rw.tls) ∧ ClearPre st0 s') (ClearPre st0) := by
  unfold negotiateOne
  rw [if_pos (by simp [hid])]
  have hw := write_all (ClearPre_io st0) .wStartTLS
    (fun s h => ClearPre_ev st0 s _ rfl h) (chooseConfig s) ⟨hpre.st, hpre.sec, hpre.tls, hpre.neg, hpre.nco⟩
  cases hh : write .wStartTLS (chooseConfig s) with
  | stop w s' => rw [hh] at hw; exact hw
  | ok a s1 =>
    rw [hh] at hw
    dsimp only
    have hpl := pull_all (ClearPre_io st0) s1 hw
    cases hh2 : pull s1 with
    | stop w s' => rw [hh2] at hpl; exact hpl
    | ok u s2 =>
      rw [hh2] at hpl
      cases u <;> first | exact ⟨rfl, hpl⟩ | exact hpl

theorem select_clear (cfg : FCfg) (doTLS listReq : Bool) (cache skipped : List Cached) (orc : List (Nat × NegRes))
    (st0 : Mask) (s : Sess) (hpre : ClearPre st0 s) (hct : CacheTLS cache) (hne : doTLS = true ∨ cache ≠ []) :
    (select cfg doTLS listReq cache skipped orc s).Both
      (fun out s' => out.rw = .tls ∧ Sec s' ∧ NCO s'.trace) (fun s' => NCO s'.trace) := by
  obtain ⟨hal, hids⟩ := pickSet_clear cfg doTLS cache st0 s hpre hct hne
  unfold select
  generalize pickSet cfg doTLS cache s = al at hal hids
  rw [if_neg (by simpa [List.isEmpty_iff] using hal)]
  cases orc with
  | nil => exact hpre.nco
  | cons e orc' =>
    obtain ⟨id, res⟩ := e
    dsimp only
    cases hf : al.find? (fun c => c.id == id) with
    | none => exact hpre.nco
    | some c =>
      dsimp only
      have hid := hids c (List.mem_of_find?_eq_some hf)
      have hno := negotiateOne_clear c res st0 { s with oracle := orc' } hid
        ⟨hpre.st, hpre.sec, hpre.tls, hpre.neg, hpre.nco⟩
      cases hh : negotiateOne c res { s with oracle := orc' } with
      | stop w s' => rw [hh] at hno; exact hno.nco
      | ok mr s1 =>
        rw [hh] at hno
        obtain ⟨hmr, hs1⟩ := hno
        subst hmr
        dsimp only
        rw [if_pos (by simp)]
        exact ⟨rfl, has_or_self _ _, hs1.nco⟩

theorem parseItems_nil (cfg : FCfg) (st : Mask) (req : Bool) (cache : List Cached) :
    parseItems cfg st [] req cache = .ok (req, cache) := by
  simp [parseItems]

theorem negotiateFeatures_clear (cfg : FCfg) (st0 : Mask) (hc : Compliant cfg st0) (s : Sess)
    (hpre : ClearPre st0 s) :
    (negotiateFeatures cfg true s).Both
      (fun out s' => out.rw = .tls ∧ Sec s' ∧ NCO s'.trace) (fun s' => NCO s'.trace) := by
  unfold negotiateFeatures
  have hpl := pull_all (ClearPre_io st0) s hpre
  cases hh : pull s with
  | stop w s' => rw [hh] at hpl; exact hpl.nco
  | ok u s1 =>
    rw [hh] at hpl
    cases u with
    | list items =>
      dsimp only
      cases hp : parseItems cfg s1.state items false [] with
      | error e => exact hpl.nco
      | ok r =>
        obtain ⟨req, cache⟩ := r
        dsimp only
        have hct : CacheTLS cache :=
          parseItems_clear cfg s1.state (hpl.st ▸ hc) items false [] (req, cache) (by intro c hc; cases hc) hp
        cases hadv : cache.any (fun c => c.id == 0) with
        | true =>
          have hcne : cache ≠ [] := by intro h; rw [h] at hadv; cases hadv
          have hine : items.isEmpty = false := by
            cases items with
            | nil => rw [parseItems_nil] at hp; cases hp; exact absurd rfl hcne
            | cons _ _ => rfl
          have hce : cache.isEmpty = false := by
            cases cache with
            | nil => exact absurd rfl hcne
            | cons _ _ => rfl
          simp only [Bool.not_true, Bool.and_false, Bool.false_and, Bool.not_false, Bool.true_and, hine, hce,
            Bool.false_eq_true, if_false]
          exact select_clear cfg false req cache _ s1.oracle st0 s1 hpl hct (Or.inr hcne)
        | false =>
          simp only [Bool.not_false, Bool.and_true, Bool.true_and, hpl.sec, Bool.not_true, Bool.false_and,
            Bool.false_eq_true, if_false]
          exact select_clear cfg true req cache _ s1.oracle st0 s1 hpl hct (Or.inl rfl)
    | _ => exact hpl.nco

theorem step_clear (cfg : FCfg) (st0 : Mask) (hc : Compliant cfg st0) (fuel : Nat) (s : Sess)
    (hpre : ClearFirst st0 s) :
    (step cfg fuel s).Both
      (fun out s' => out.rw = .tls ∧ Sec s' ∧ NCO s'.trace) (fun s' => NCO s'.trace) := by
  unfold step
  have hr : (if s.doRestart then
      match write .wHdr s with
      | .stop w s' => Res.stop w s'
      | .ok _ s1 => expectHdr fuel s1
    else Res.ok () s : Res PUnit).All (ClearFirst st0) := by
    split
    · have hw := write_all (ClearFirst_io st0) .wHdr
        (fun s ⟨h, f⟩ => ⟨ClearPre_ev st0 s _ rfl h, f⟩) s hpre
      cases hh : write .wHdr s with
      | stop w s' => rw [hh] at hw; exact hw
      | ok a s1 => rw [hh] at hw; exact expectHdr_all (ClearFirst_io st0) fuel s1 hw
    · exact hpre
  simp only
  generalize (if s.doRestart then
      match write .wHdr s with
      | .stop w s' => Res.stop w s'
      | .ok _ s1 => expectHdr fuel s1
    else Res.ok () s : Res PUnit) = r at hr
  cases r with
  | stop w s' => exact hr.1.nco
  | ok a s2 =>
    dsimp only
    obtain ⟨h, hf⟩ := hr
    rw [hf]
    have hnf := addAdv_both (Pok := fun (out : FOut) s' => out.rw = .tls ∧ Sec s' ∧ NCO s'.trace)
      (Pstop := fun s' => NCO s'.trace) (peekAdv cfg { s2 with first := false }) s2.tls _
      (fun a s h => h) (fun s h => h)
      (negotiateFeatures_clear cfg st0 hc { s2 with first := false } ⟨h.st, h.sec, h.tls, h.neg, h.nco⟩)
    change (negotiateFeaturesAdv cfg true { s2 with first := false }).Both _ _ at hnf
    cases hh : negotiateFeaturesAdv cfg true { s2 with first := false } with
    | stop w s' => rw [hh] at hnf; exact hnf
    | ok out s3 => rw [hh] at hnf; exact hnf

/-! ### the whole loop -/

/-- what C02 demands of an outcome: a session only with `Secure` set and a TLS layer installed -/
def GoodOutcome : Outcome → Prop
  | .done st t _ => has st Secure = true ∧ t = true
  | .stop _ => True

theorem loop_PA (cfg : Cfg) : ∀ fuel teeOn s, PA s →
    PA (loop cfg fuel teeOn s).1 ∧ GoodOutcome (loop cfg fuel teeOn s).2 := by
  intro fuel
  induction fuel with
  | zero => intro teeOn s hp; exact ⟨hp, trivial⟩
  | succ fuel ih =>
    intro teeOn s hp
    unfold loop
    split
    · exact ⟨hp, hp.2.1, hp.1⟩
    · simp only
      have hp1 : PA (if (cfg.tee && !teeOn) = true then restartDec s else s) := by
        split
        · exact PA_neg.restart s hp
        · exact hp
      have hs := step_all PA_io PA_neg cfg.toFCfg (fuel + 1) _ hp1
      cases hh : step cfg.toFCfg (fuel + 1) (if (cfg.tee && !teeOn) = true then restartDec s else s) with
      | stop w s2 => rw [hh] at hs; exact ⟨hs, trivial⟩
      | ok out s2 =>
        rw [hh] at hs
        exact ih _ _ (PA_neg.stateOr _ _ (install_all PA_neg PA_install out.rw s2 hs))

/-- loop-head invariant: secured, or still in clear text with no features list read yet -/
def Head (st0 : Mask) (s : Sess) : Prop := PA s ∨ (ClearFirst st0 s ∧ has s.state Ready = false)

theorem loop_safe (cfg : Cfg) (st0 : Mask) (hc : Compliant cfg.toFCfg st0) : ∀ fuel teeOn s, Head st0 s →
    NCO (loop cfg fuel teeOn s).1.trace ∧ GoodOutcome (loop cfg fuel teeOn s).2 := by
  intro fuel teeOn s hh
  rcases hh with hpa | ⟨hcl, hnr⟩
  · have := loop_PA cfg fuel teeOn s hpa
    exact ⟨this.1.2.2, this.2⟩
  · cases fuel with
    | zero => exact ⟨hcl.1.nco, trivial⟩
    | succ fuel =>
      unfold loop
      rw [if_neg (by simp [hnr])]
      simp only
      have hp1 : ClearFirst st0 (if (cfg.tee && !teeOn) = true then restartDec s else s) := by
        split
        · exact ⟨⟨hcl.1.st, hcl.1.sec, hcl.1.tls, rfl, hcl.1.nco⟩, hcl.2⟩
        · exact hcl
      have hs := step_clear cfg.toFCfg st0 hc (fuel + 1) _ hp1
      cases hst : step cfg.toFCfg (fuel + 1) (if (cfg.tee && !teeOn) = true then restartDec s else s) with
      | stop w s2 => rw [hst] at hs; exact ⟨hs, trivial⟩
      | ok out s2 =>
        rw [hst] at hs
        obtain ⟨hrw, hsec, hnco⟩ := hs
        have hpa : PA { install out.rw s2 with state := (install out.rw s2).state ||| out.mask } := by
          rw [hrw]
          exact ⟨rfl, has_or _ _ _ hsec, (NCO_cons _ _).2 ⟨rfl, hnco⟩⟩
        have := loop_PA cfg fuel (if out.rw == .tls then false else (teeOn || cfg.tee)) _ hpa
        exact ⟨this.1.2.2, this.2⟩

/-! ### the tee changes nothing -/

theorem restartDec_id (s : Sess) (hb : s.buf = []) (hn : s.negotiated = []) (hf : s.features = []) :
    restartDec s = s := by
  cases s
  simp only [restartDec] at *
  subst hb hn hf
  rfl

theorem loop_tee (cfg : Cfg) : ∀ fuel teeOn s,
    (teeOn = true ∨ (s.buf = [] ∧ s.negotiated = [] ∧ s.features = [])) →
    loop { cfg with tee := true } fuel teeOn s = loop { cfg with tee := false } fuel false s := by
  intro fuel
  induction fuel with
  | zero => intro teeOn s _; rfl
  | succ fuel ih =>
    intro teeOn s h
    unfold loop
    split
    · rfl
    · have hs1 : (if (true && !teeOn) = true then restartDec s else s) = s := by
        rcases h with h | ⟨hb, hn, hf⟩
        · simp [h]
        · split
          · exact restartDec_id s hb hn hf
          · rfl
      simp only [Bool.false_and, Bool.false_eq_true, if_false, hs1, Bool.or_true, Bool.or_false]
      cases hst : step cfg.toFCfg (fuel + 1) s with
      | stop w s2 => rfl
      | ok out s2 =>
        simp only
        cases hrw : out.rw with
        | tls =>
          simp only [beq_self_eq_true, if_true]
          exact ih false _ (Or.inr ⟨rfl, rfl, rfl⟩)
        | none =>
          have : (Rw.none == Rw.tls) = false := by decide
          simp only [this, Bool.false_eq_true, if_false]
          exact ih true _ (Or.inl rfl)
        | same =>
          have : (Rw.same == Rw.tls) = false := by decide
          simp only [this, Bool.false_eq_true, if_false]
          exact ih true _ (Or.inl rfl)

/-! ### whole runs -/

/-- the session a run starts from on a connection that is not a `*tls.Conn` -/
theorem init_clear (env : Env) (st0 : Mask) (i : Input) (h : env.conn.startsSecure = false) :
    init env st0 i =
      { state := st0, tls := false, hs := false, buf := [], clear := i.clear, prot := i.prot,
        oracle := i.oracle, negotiated := [], doRestart := true, first := true,
        laddr := ownAddr env st0, captured := env.captured, sni := env.conn.name, features := [], trace := [] } := by
  simp [init, h]

/-- … and on a `*tls.Conn`: `Secure` set, the layer in place from the start -/
theorem init_secure (env : Env) (st0 : Mask) (i : Input) (h : env.conn.startsSecure = true) :
    init env st0 i =
      { state := st0 ||| Secure, tls := true, hs := false, buf := [], clear := i.clear, prot := i.prot,
        oracle := i.oracle, negotiated := [], doRestart := true, first := true,
        laddr := ownAddr env st0, captured := env.captured, sni := env.conn.name, features := [], trace := [] } := by
  simp [init, h]

/-- whatever the kind of connection the session is created on -/
theorem run_safe (cfg : Cfg) (env : Env) (st0 : Mask) (hc : Compliant cfg.toFCfg st0)
    (hs : has st0 Secure = false) (hr : has st0 Ready = false) (i : Input) (fuel : Nat) :
    NCO (run cfg env st0 i fuel).1 ∧ GoodOutcome (run cfg env st0 i fuel).2 := by
  unfold run
  split
  · exact ⟨fun e he => (by cases he), trivial⟩
  · cases hk : env.conn.startsSecure with
    | false =>
      rw [init_clear env st0 i hk]
      have h := loop_safe cfg st0 hc fuel false
        { state := st0, tls := false, hs := false, buf := [], clear := i.clear, prot := i.prot,
          oracle := i.oracle, negotiated := [], doRestart := true, first := true,
          laddr := ownAddr env st0, captured := env.captured, sni := env.conn.name, features := [], trace := [] }
        (Or.inr ⟨⟨⟨rfl, hs, rfl, rfl, fun e he => (by cases he)⟩, rfl⟩, hr⟩)
      refine ⟨?_, h.2⟩
      intro e he
      exact h.1 e (List.mem_reverse.1 he)
    | true =>
      rw [init_secure env st0 i hk]
      have h := loop_PA cfg fuel false
        { state := st0 ||| Secure, tls := true, hs := false, buf := [], clear := i.clear, prot := i.prot,
          oracle := i.oracle, negotiated := [], doRestart := true, first := true,
          laddr := ownAddr env st0, captured := env.captured, sni := env.conn.name, features := [], trace := [] }
        ⟨rfl, has_or_self st0 Secure, fun e he => (by cases he)⟩
      refine ⟨?_, h.2⟩
      intro e he
      exact h.1.2.2 e (List.mem_reverse.1 he)

end XmppModel.StartTLS
