import XmppModel.Model.StartTLS
/-!
Helper lemmas for `Props/C02.lean`.

* `Res.All P r` — the session a computation ends in (whether it succeeds or stops) satisfies
  `P`; predicates closed under the model's primitive updates (`ClosedIO`, `ClosedNeg`) are
  carried through every function of the model (`*_all`);
* the *secured phase* invariant `PA` and the *pre-buffer* invariant `PB` are instances;
* the *clear phase* analysis (`select_clear`, `step_clear`): from a state without `Secure`
  on the first features list, a negotiator call either stops or ends with a TLS layer to
  install and `Secure` set, having written nothing but the header and the STARTTLS request.
-/
namespace XmppModel.StartTLS

/-! ### `Res.All` and closure -/

def Res.All {α : Type} (P : Sess → Prop) : Res α → Prop
  | .ok _ s => P s
  | .stop _ s => P s

@[simp] theorem Res.all_ok {α} (P : Sess → Prop) (a : α) (s : Sess) : (Res.ok a s).All P = P s := rfl
@[simp] theorem Res.all_stop {α} (P : Sess → Prop) (w : Stop) (s : Sess) :
    (Res.stop (α := α) w s).All P = P s := rfl

/-- closed under what the connection primitives do to a session -/
structure ClosedIO (P : Sess → Prop) : Prop where
  hs : ∀ s, P s → P { s with hs := true }
  fromBuf : ∀ s o u rest, P s → s.buf = (o, u) :: rest → P { s with buf := rest, trace := .deliver o s.tls :: s.trace }
  fromTls : ∀ s rest, P s → s.tls = true → P { s with prot := rest, trace := .deliver false true :: s.trace }
  fromClear : ∀ s b rest, P s → s.tls = false →
    P { s with buf := b, clear := rest, trace := .deliver true false :: s.trace }

theorem handshake_all {P : Sess → Prop} (h : ClosedIO P) (s : Sess) (hp : P s) :
    (handshake s).All P := by
  unfold handshake
  split
  · split
    · exact hp
    · split
      · exact hp
      · exact h.hs s hp
  · exact hp

theorem handshake_tls (s : Sess) : ∀ a s', handshake s = .ok a s' → s'.tls = s.tls ∧ s'.buf = s.buf := by
  intro a s' he
  unfold handshake at he
  split at he
  · split at he
    · cases he
    · split at he
      · cases he
      · cases he; exact ⟨rfl, rfl⟩
  · cases he; exact ⟨rfl, rfl⟩

theorem write_all {P : Sess → Prop} (h : ClosedIO P) (e : Bool → Ev)
    (he : ∀ s, P s → P { s with trace := e s.tls :: s.trace }) (s : Sess) (hp : P s) :
    (write e s).All P := by
  unfold write
  have := handshake_all h s hp
  cases hh : handshake s with
  | stop w s' => rw [hh] at this; exact this
  | ok a s' => rw [hh] at this; exact he s' this

theorem pull_all {P : Sess → Prop} (h : ClosedIO P) (s : Sess) (hp : P s) :
    (pull s).All P := by
  unfold pull
  split
  · next o u rest hbuf =>
    exact h.fromBuf s o u rest hp hbuf
  · have := handshake_all h s hp
    cases hh : handshake s with
    | stop w s' => rw [hh] at this; exact this
    | ok a s' =>
      rw [hh] at this
      simp only
      split
      · next ht =>
        split
        · exact this
        · split
          · exact this
          · exact this
          · exact h.fromTls s' _ this ht
      · next ht =>
        split
        · exact this
        · exact h.fromClear s' _ _ this (by simpa using ht)

theorem expectHdr_all {P : Sess → Prop} (h : ClosedIO P) : ∀ n s, P s → (expectHdr n s).All P := by
  intro n
  induction n with
  | zero => intro s hp; exact hp
  | succ n ih =>
    intro s hp
    unfold expectHdr
    have := pull_all h s hp
    cases hh : pull s with
    | stop w s' => rw [hh] at this; exact this
    | ok u s' =>
      rw [hh] at this
      cases u with
      | space => exact ih s' this
      | hdr ok => cases ok <;> exact this
      | _ => exact this

/-- closed under what negotiator / features / session code does to a session -/
structure ClosedNeg (P : Sess → Prop) : Prop where
  wHdr : ∀ s, P s → P { s with trace := .wHdr s.tls :: s.trace }
  wStartTLS : ∀ s, P s → P { s with trace := .wStartTLS s.tls :: s.trace }
  wOther : ∀ s id, P s → P { s with trace := .wOther id s.tls :: s.trace }
  oracle : ∀ s o, P s → P { s with oracle := o }
  neg : ∀ s m id, P s → P { s with state := s.state ||| m, negotiated := id :: s.negotiated }
  first : ∀ s, P s → P { s with first := false }
  doRestart : ∀ s b, P s → P { s with doRestart := b }
  restart : ∀ s, P s → P (restartDec s)
  installTls : ∀ s, P s → P { restartDec s with tls := true, hs := false, trace := .switch :: s.trace }
  stateOr : ∀ s m, P s → P { s with state := s.state ||| m }

theorem negotiateOne_all {P : Sess → Prop} (h : ClosedIO P) (hn : ClosedNeg P) (c : Cached) (res : NegRes)
    (s : Sess) (hp : P s) : (negotiateOne c res s).All P := by
  unfold negotiateOne
  split
  · have hw := write_all h .wStartTLS hn.wStartTLS s hp
    cases hh : write .wStartTLS s with
    | stop w s' => rw [hh] at hw; exact hw
    | ok a s1 =>
      rw [hh] at hw
      dsimp only
      have hpl := pull_all h s1 hw
      cases hh2 : pull s1 with
      | stop w s' => rw [hh2] at hpl; exact hpl
      | ok u s2 =>
        rw [hh2] at hpl
        cases u <;> exact hpl
  · have hw := write_all h (.wOther c.id) (fun s hp => hn.wOther s c.id hp) s hp
    cases hh : write (.wOther c.id) s with
    | stop w s' => rw [hh] at hw; exact hw
    | ok a s1 =>
      rw [hh] at hw
      simp only
      split
      · exact hw
      · split <;> exact hw

theorem select_all {P : Sess → Prop} (h : ClosedIO P) (hn : ClosedNeg P) (cfg : FCfg) (doTLS listReq : Bool)
    (cache : List Cached) : ∀ orc s, P s → (select cfg doTLS listReq cache orc s).All P := by
  intro orc
  induction orc with
  | nil =>
    intro s hp
    unfold select
    generalize pickSet cfg doTLS cache s = al
    split <;> exact hp
  | cons e orc' ih =>
    intro s hp
    obtain ⟨id, res⟩ := e
    unfold select
    generalize pickSet cfg doTLS cache s = al
    split
    · exact hp
    · dsimp only
      split
      · exact hp
      · next c hc =>
        have hno := negotiateOne_all h hn c res { s with oracle := orc' } (hn.oracle s orc' hp)
        cases hh : negotiateOne c res { s with oracle := orc' } with
        | stop w s' => rw [hh] at hno; exact hno
        | ok mr s1 =>
          rw [hh] at hno
          obtain ⟨mask, rw⟩ := mr
          dsimp only
          split
          · exact hn.neg s1 mask c.id hno
          · exact ih _ (hn.neg s1 mask c.id hno)

theorem negotiateFeatures_all {P : Sess → Prop} (h : ClosedIO P) (hn : ClosedNeg P) (cfg : FCfg) (first : Bool)
    (s : Sess) (hp : P s) : (negotiateFeatures cfg first s).All P := by
  unfold negotiateFeatures
  have hpl := pull_all h s hp
  cases hh : pull s with
  | stop w s' => rw [hh] at hpl; exact hpl
  | ok u s1 =>
    rw [hh] at hpl
    cases u <;> simp only <;> try exact hpl
    split
    · exact hpl
    · split
      · exact hpl
      · split
        · exact hpl
        · exact select_all h hn cfg _ _ _ _ s1 hpl

theorem step_all {P : Sess → Prop} (h : ClosedIO P) (hn : ClosedNeg P) (cfg : FCfg) (fuel : Nat)
    (s : Sess) (hp : P s) : (step cfg fuel s).All P := by
  unfold step
  have hr : (if s.doRestart then
      match write .wHdr s with
      | .stop w s' => Res.stop w s'
      | .ok _ s1 => expectHdr fuel s1
    else Res.ok () s : Res PUnit).All P := by
    split
    · have hw := write_all h .wHdr hn.wHdr s hp
      cases hh : write .wHdr s with
      | stop w s' => rw [hh] at hw; exact hw
      | ok a s1 => rw [hh] at hw; exact expectHdr_all h fuel s1 hw
    · exact hp
  simp only
  generalize (if s.doRestart then
      match write .wHdr s with
      | .stop w s' => Res.stop w s'
      | .ok _ s1 => expectHdr fuel s1
    else Res.ok () s : Res PUnit) = r at hr
  cases r with
  | stop w s' => exact hr
  | ok a s2 =>
    simp only
    have hf := negotiateFeatures_all h hn cfg s2.first { s2 with first := false } (hn.first s2 hr)
    cases hh : negotiateFeatures cfg s2.first { s2 with first := false } with
    | stop w s' => rw [hh] at hf; exact hf
    | ok out s3 => rw [hh] at hf; exact hn.doRestart s3 _ hf

theorem install_all {P : Sess → Prop} (hn : ClosedNeg P) (rw : Rw) (s : Sess) (hp : P s) : P (install rw s) := by
  cases rw
  · exact hp
  · exact hn.restart s hp
  · exact hn.installTls s hp

theorem loop_all {P : Sess → Prop} (h : ClosedIO P) (hn : ClosedNeg P) (cfg : Cfg) :
    ∀ fuel teeOn s, P s → P (loop cfg fuel teeOn s).1 := by
  intro fuel
  induction fuel with
  | zero => intro teeOn s hp; exact hp
  | succ fuel ih =>
    intro teeOn s hp
    unfold loop
    split
    · exact hp
    · simp only
      have hp1 : P (if (cfg.tee && !teeOn) = true then restartDec s else s) := by
        split
        · exact hn.restart s hp
        · exact hp
      have hs := step_all h hn cfg.toFCfg (fuel + 1) _ hp1
      cases hh : step cfg.toFCfg (fuel + 1) (if (cfg.tee && !teeOn) = true then restartDec s else s) with
      | stop w s2 => rw [hh] at hs; exact hs
      | ok out s2 =>
        rw [hh] at hs
        exact ih _ _ (hn.stateOr _ _ (install_all hn out.rw s2 hs))

end XmppModel.StartTLS
