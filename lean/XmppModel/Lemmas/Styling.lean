import XmppModel.Model.Styling
/-! Helper lemmas for C17 (`Props/C17.lean`). -/
namespace XmppModel.Styling

/-- a split result respects the `SplitFunc` contract on `data`: a token is a non-empty
prefix of the data and the advance is its length; no panic -/
def Out.Good (data : Bytes) : Out → Prop
  | .more => True
  | .panic => False
  | .tok a t => 0 < a ∧ a ≤ data.length ∧ t = data.take a

theorem indexNl_lt {d : Bytes} {k : Nat} (h : indexNl d = some k) : k < d.length := by
  induction d generalizing k with
  | nil => simp [indexNl] at h
  | cons b t ih =>
    simp only [indexNl] at h
    split at h
    · cases h; simp
    · simp only [Option.map_eq_some_iff] at h
      obtain ⟨j, hj, rfl⟩ := h
      have := ih hj
      simp; omega

theorem spanLoop_good (data : Bytes) (atEOF : Bool) (lv : Level) (i : Nat) (rpre : Bytes)
    (sidx : Option Nat) (sdir : UInt8) (rest : Bytes)
    (hlen : i + rest.length = data.length) (hne : 0 < data.length) :
    (spanLoop data atEOF lv i rpre sidx sdir rest).1.Good data := by
  fun_induction spanLoop data atEOF lv i rpre sidx sdir rest
  all_goals (try simp_all [Out.Good])
  all_goals (try omega)
  all_goals (apply_assumption; omega)

theorem scanSpan_good (lv : Level) (data : Bytes) (atEOF : Bool) (hne : 0 < data.length) :
    (scanSpan lv data atEOF).1.Good data :=
  spanLoop_good data atEOF lv 0 [] none 0 data (by simp) hne

/-- what `scanSpan` can do to the decoder -/
def SpanEffect (lv lv' : Level) : Prop :=
  lv' = lv ∨ (∃ b, lv.spanStack.head? = some b ∧ isDirective b = true ∧ lv' = closeSpan lv b) ∨
    (∃ b, isDirective b = true ∧ lv.mask &&& SpanPre = 0 ∧ lv' = openSpan lv b)

theorem spanLoop_effect (data : Bytes) (atEOF : Bool) (lv : Level) (i : Nat) (rpre : Bytes)
    (sidx : Option Nat) (sdir : UInt8) (rest : Bytes)
    (hs : sidx.isSome = true → lv.mask &&& SpanPre = 0)
    (hd : sidx = none → isDirective sdir = false) :
    SpanEffect lv (spanLoop data atEOF lv i rpre sidx sdir rest).2 := by
  fun_induction spanLoop data atEOF lv i rpre sidx sdir rest
  all_goals (try simp_all [SpanEffect])
  all_goals (
    refine Or.inr (Or.inr ⟨_, by assumption, hs ?_, rfl⟩)
    rw [Option.isSome_iff_ne_none]; assumption)

theorem scanSpan_effect (lv : Level) (data : Bytes) (atEOF : Bool) :
    SpanEffect lv (scanSpan lv data atEOF).2 :=
  spanLoop_effect data atEOF lv 0 [] none 0 data (by simp) (by simp [isDirective, star, under, tick, tilde])

theorem isPrefixOf_length {a b : Bytes} (h : a.isPrefixOf b = true) : a.length ≤ b.length := by
  rw [List.isPrefixOf_iff_prefix] at h
  exact h.length_le

@[simp] theorem fence_length : fence.length = 3 := rfl

theorem scanPre_good (lv : Level) (data : Bytes) (atEOF : Bool) (hne : 0 < data.length) :
    (scanPre lv data atEOF).1.Good data := by
  unfold scanPre
  simp only []
  split
  · simp [Out.Good]
  · split
    · rename_i h
      simp only [Bool.and_eq_true] at h
      have hl := isPrefixOf_length h.1
      simp only [fence_length] at hl ⊢
      by_cases h4 : indexNl data = some 3
      · have := indexNl_lt h4
        simp [Out.Good, h4]; omega
      · simp [Out.Good, h4]; omega
    · split
      · rename_i k hk
        have := indexNl_lt hk
        simp [Out.Good]; omega
      · split <;> simp [Out.Good]; omega

theorem sbqLoop_bound (atEOF : Bool) (skip l : Nat) (t : Bytes) {r : Nat}
    (h : sbqLoop atEOF skip l t = some r) : l ≤ r ∧ r ≤ l + t.length := by
  fun_induction sbqLoop atEOF skip l t
  all_goals (try simp_all)
  all_goals (try omega)

theorem startsBlockQuote_bound {data : Bytes} {atEOF : Bool} {l : Nat}
    (h : startsBlockQuote data atEOF = some l) : l ≤ data.length := by
  unfold startsBlockQuote at h
  split at h
  · simp_all
  · split at h
    · have := sbqLoop_bound _ _ _ _ h
      simp; omega
    · simp_all; omega

theorem scanBlock_good (lv : Level) (data : Bytes) (atEOF : Bool) (hne : 0 < data.length) :
    (scanBlock lv data atEOF).1.Good data := by
  unfold scanBlock
  simp only []
  split
  · split
    · rename_i k hk
      have := indexNl_lt hk
      simp [Out.Good]; omega
    · split <;> simp [Out.Good]; omega
  · exact scanSpan_good _ _ _ hne

/-- a started decoder has an inner decoder, along the whole chain (no nil dereference) -/
def ChainOK : Level → List Level → Prop
  | lv, [] => lv.quoteStarted = false
  | _, q :: qs => ChainOK q qs

theorem ChainOK_head {lv lv' : Level} {inner : List Level} (h : ChainOK lv inner)
    (hq : lv'.quoteStarted = true → lv.quoteStarted = true) : ChainOK lv' inner := by
  cases inner with
  | nil => simp only [ChainOK] at h ⊢; cases hb : lv'.quoteStarted <;> simp_all
  | cons q qs => exact h

theorem ChainOK_map {lv : Level} {inner : List Level} (h : ChainOK lv inner) :
    ChainOK lv (inner.map resetLevel) := by
  induction inner generalizing lv with
  | nil => exact h
  | cons q qs ih =>
    simp only [List.map_cons, ChainOK] at h ⊢
    exact ChainOK_head (ih h) (by simp [resetLevel])

theorem finish_fst (r : Out × Level × List Level) : (finish r).1 = r.1 := by
  unfold finish; split
  · split <;> rfl
  · rfl

theorem finish_inner (r : Out × Level × List Level) : (finish r).2.2 = r.2.2 := by
  unfold finish; split
  · split <;> rfl
  · rfl

theorem finish_lv (r : Out × Level × List Level) :
    (finish r).2.1 = r.2.1 ∨ (finish r).2.1 = { r.2.1 with lastNewline := true } := by
  unfold finish; split
  · split <;> simp
  · simp

theorem finish_chain {r : Out × Level × List Level} (h : ChainOK r.2.1 r.2.2) :
    ChainOK (finish r).2.1 (finish r).2.2 := by
  rw [finish_inner]
  rcases finish_lv r with h' | h' <;> rw [h']
  · exact h
  · exact ChainOK_head h (by simp)

theorem normLevel_qs {lv : Level} (h : (normLevel lv).quoteStarted = true) : lv.quoteStarted = true := by
  unfold normLevel at h
  split at h <;> simp_all

theorem ChainOK_entry {lv : Level} {inner : List Level} (reset : Bool) (b : Bool) (h : ChainOK lv inner) :
    ChainOK (normLevel (if reset = true then resetLevel lv else lv))
      (if b = true then inner.map resetLevel else inner) := by
  have h1 : ChainOK lv (if b = true then inner.map resetLevel else inner) := by
    split
    · exact ChainOK_map h
    · exact h
  refine ChainOK_head h1 (fun hq => ?_)
  have := normLevel_qs hq
  split at this
  · simp [resetLevel] at this
  · exact this

/-- the decoder's own fields after the entry steps of `scan` -/
def entryLv (reset : Bool) (lv00 : Level) : Level :=
  normLevel (if reset then resetLevel lv00 else lv00)
/-- whether the chain below is reset by this call -/
def entryRs (reset : Bool) (lv00 : Level) : Bool :=
  reset || (if reset then resetLevel lv00 else lv00).lastNewline
def entryInner (reset : Bool) (lv00 : Level) (inner0 : List Level) : List Level :=
  if entryRs reset lv00 then inner0.map resetLevel else inner0

/-- `scanLv` as a relation, one constructor per path through `scan` -/
inductive ScanRel (data : Bytes) (atEOF : Bool) :
    Bool → Level → List Level → Out × Level × List Level → Prop
  | early (reset lv00 inner0) (h : (atEOF && data.isEmpty) = true) :
      ScanRel data atEOF reset lv00 inner0
        (.more, if reset then resetLevel lv00 else lv00, if reset then inner0.map resetLevel else inner0)
  | span (reset lv00 inner0) (h : ¬(atEOF && data.isEmpty) = true)
      (hs : (entryLv reset lv00).spanStack.isEmpty = false) :
      ScanRel data atEOF reset lv00 inner0
        (finish ((scanSpan (entryLv reset lv00) data atEOF).1, (scanSpan (entryLv reset lv00) data atEOF).2,
          entryInner reset lv00 inner0))
  | pre (reset lv00 inner0) (h : ¬(atEOF && data.isEmpty) = true)
      (hs : (entryLv reset lv00).spanStack.isEmpty = true)
      (hp : ((entryLv reset lv00).mask &&& BlockPre == BlockPre) = true) :
      ScanRel data atEOF reset lv00 inner0
        (finish ((scanPre { entryLv reset lv00 with hasRun := true } data atEOF).1,
          (scanPre { entryLv reset lv00 with hasRun := true } data atEOF).2, entryInner reset lv00 inner0))
  | needMore (reset lv00 inner0) (h : ¬(atEOF && data.isEmpty) = true)
      (hs : (entryLv reset lv00).spanStack.isEmpty = true)
      (hp : ((entryLv reset lv00).mask &&& BlockPre == BlockPre) = false)
      (hq : startsBlockQuote data atEOF = none) :
      ScanRel data atEOF reset lv00 inner0 (.more, entryLv reset lv00, entryInner reset lv00 inner0)
  | quoteStart (reset lv00 inner0) (l : Nat) (h : ¬(atEOF && data.isEmpty) = true)
      (hs : (entryLv reset lv00).spanStack.isEmpty = true)
      (hp : ((entryLv reset lv00).mask &&& BlockPre == BlockPre) = false)
      (hq : startsBlockQuote data atEOF = some l) (hl : 0 < l)
      (hst : (entryLv reset lv00).quoteStarted = false) :
      ScanRel data atEOF reset lv00 inner0
        (finish (.tok l (data.take l),
          { entryLv reset lv00 with
              mask := (entryLv reset lv00).mask ||| BlockQuote ||| BlockQuoteStart,
              clearMask := (entryLv reset lv00).clearMask ||| BlockQuoteStart,
              quoteStarted := true, hasRun := true },
          if (entryInner reset lv00 inner0).isEmpty then [{}] else entryInner reset lv00 inner0))
  | nilPanic (reset lv00) (l : Nat) (h : ¬(atEOF && data.isEmpty) = true)
      (hs : (entryLv reset lv00).spanStack.isEmpty = true)
      (hp : ((entryLv reset lv00).mask &&& BlockPre == BlockPre) = false)
      (hq : startsBlockQuote data atEOF = some l)
      (hst : (entryLv reset lv00).quoteStarted = true) (hl : 0 < l) :
      ScanRel data atEOF reset lv00 [] (.panic, entryLv reset lv00, [])
  | delegate (reset lv00 q qs) (l : Nat) (r : Out × Level × List Level)
      (h : ¬(atEOF && data.isEmpty) = true)
      (hs : (entryLv reset lv00).spanStack.isEmpty = true)
      (hp : ((entryLv reset lv00).mask &&& BlockPre == BlockPre) = false)
      (hq : startsBlockQuote data atEOF = some l)
      (hst : (entryLv reset lv00).quoteStarted = true)
      (hr : ScanRel data atEOF (entryRs reset lv00) q qs r) :
      ScanRel data atEOF reset lv00 (q :: qs) (finish (r.1, entryLv reset lv00, r.2.1 :: r.2.2))
  | block (reset lv00 inner0) (h : ¬(atEOF && data.isEmpty) = true)
      (hs : (entryLv reset lv00).spanStack.isEmpty = true)
      (hp : ((entryLv reset lv00).mask &&& BlockPre == BlockPre) = false)
      (hq : startsBlockQuote data atEOF = some 0)
      (hst : (entryLv reset lv00).quoteStarted = true → inner0 = []) :
      ScanRel data atEOF reset lv00 inner0
        (finish ((scanBlock (entryLv reset lv00) data atEOF).1, (scanBlock (entryLv reset lv00) data atEOF).2, []))

set_option linter.unusedSimpArgs false in
theorem scanLv_rel (data : Bytes) (atEOF reset : Bool) (lv : Level) (inner : List Level) :
    ScanRel data atEOF reset lv inner (scanLv data atEOF reset lv inner) := by
  fun_induction scanLv data atEOF reset lv inner
  case case1 => apply ScanRel.early; assumption
  case case2 => apply ScanRel.span <;> simp_all +zetaDelta [entryLv, entryRs, entryInner]
  case case3 => apply ScanRel.pre <;> simp_all +zetaDelta [entryLv, entryRs, entryInner]
  case case4 => apply ScanRel.needMore <;> simp_all +zetaDelta [entryLv, entryRs, entryInner]
  case case5 => 
    apply ScanRel.quoteStart <;> simp_all +zetaDelta [entryLv, entryRs, entryInner]
  case case6 => 
    rename_i s _ _ _
    apply ScanRel.nilPanic _ _ s <;> simp_all +zetaDelta [entryLv, entryRs, entryInner]
  case case7 => 
    rename_i s _ _ _ _ _ _ _
    apply ScanRel.delegate _ _ _ _ s <;> simp_all +zetaDelta [entryLv, entryRs, entryInner]
    rename_i h1 h2 _; rcases h2 with h2 | h2
    · exact h1 h2
    · exact h2
  case case8 => 
    apply ScanRel.block <;> simp_all +zetaDelta [entryLv, entryRs, entryInner]

theorem ChainOK_entryLv {lv : Level} {inner : List Level} (reset : Bool) (h : ChainOK lv inner) :
    ChainOK (entryLv reset lv) (entryInner reset lv inner) :=
  ChainOK_entry reset _ h

theorem SpanEffect.qs {lv lv' : Level} (h : SpanEffect lv lv') :
    lv'.quoteStarted = lv.quoteStarted ∧ lv'.hasRun = lv.hasRun ∧ lv'.lastNewline = lv.lastNewline := by
  rcases h with rfl | ⟨b, _, _, rfl⟩ | ⟨b, _, _, rfl⟩ <;> simp [closeSpan, openSpan]

/-- what `scanPre` can do to the decoder -/
theorem scanPre_frame (lv : Level) (data : Bytes) (atEOF : Bool) :
    (scanPre lv data atEOF).2 = lv ∨
      (scanPre lv data atEOF).2 = { lv with mask := lv.mask ||| BlockPreEnd,
                                            clearMask := lv.clearMask ||| BlockPre ||| BlockPreEnd } := by
  unfold scanPre
  simp only []
  split
  · simp
  · split
    · simp
    · split
      · simp
      · split <;> simp

/-- what the block-start part of `scan` can do to the decoder -/
theorem scanBlock_frame (lv : Level) (data : Bytes) (atEOF : Bool) :
    (scanBlock lv data atEOF).2 = { lv with hasRun := true } ∨
      (scanBlock lv data atEOF).2 = { lv with hasRun := true, mask := lv.mask ||| BlockPre ||| BlockPreStart,
                                              clearMask := lv.clearMask ||| BlockPreStart } ∨
      SpanEffect { lv with hasRun := true } (scanBlock lv data atEOF).2 := by
  unfold scanBlock
  simp only []
  split
  · split
    · simp
    · split <;> simp
  · exact Or.inr (Or.inr (scanSpan_effect _ _ _))

theorem scanBlock_qs (lv : Level) (data : Bytes) (atEOF : Bool) :
    (scanBlock lv data atEOF).2.quoteStarted = lv.quoteStarted := by
  rcases scanBlock_frame lv data atEOF with h | h | h
  · rw [h]
  · rw [h]
  · exact h.qs.1

theorem entryLv_qs {reset : Bool} {lv : Level} (h : (entryLv reset lv).quoteStarted = true) :
    lv.quoteStarted = true := by
  have := normLevel_qs h
  split at this
  · simp [resetLevel] at this
  · exact this

theorem scanRel_good {data : Bytes} {atEOF reset : Bool} {lv : Level} {inner : List Level}
    {r : Out × Level × List Level} (hr : ScanRel data atEOF reset lv inner r)
    (hc : ChainOK lv inner) (hne : 0 < data.length) :
    r.1.Good data ∧ ChainOK r.2.1 r.2.2 := by
  induction hr with
  | early reset lv00 inner0 h => simp at h; simp [h.2] at hne
  | span reset lv00 inner0 h hs =>
    refine ⟨by rw [finish_fst]; exact scanSpan_good _ _ _ hne, finish_chain ?_⟩
    exact ChainOK_head (ChainOK_entryLv reset hc) (fun hq => by rw [← (scanSpan_effect _ _ _).qs.1]; exact hq)
  | pre reset lv00 inner0 h hs hp =>
    refine ⟨by rw [finish_fst]; exact scanPre_good _ _ _ hne, finish_chain ?_⟩
    refine ChainOK_head (ChainOK_entryLv reset hc) (fun hq => ?_)
    rcases scanPre_frame { entryLv reset lv00 with hasRun := true } data atEOF with h' | h' <;>
      (simp only [h'] at hq; exact hq)
  | needMore reset lv00 inner0 h hs hp hq => exact ⟨trivial, ChainOK_entryLv reset hc⟩
  | quoteStart reset lv00 inner0 l h hs hp hq hl hst =>
    refine ⟨by rw [finish_fst]; exact ⟨hl, startsBlockQuote_bound hq, rfl⟩, finish_chain ?_⟩
    have := ChainOK_entryLv reset hc
    cases hi : entryInner reset lv00 inner0 with
    | nil => simp [ChainOK]
    | cons q qs => rw [hi] at this; simpa [ChainOK] using this
  | nilPanic reset lv00 l h hs hp hq hst hl =>
    have := entryLv_qs hst
    simp [ChainOK] at hc
    simp [hc] at this
  | delegate reset lv00 q qs l r h hs hp hq hst hr ih =>
    have := ih hc
    exact ⟨by rw [finish_fst]; exact this.1, finish_chain this.2⟩
  | block reset lv00 inner0 h hs hp hq hst =>
    refine ⟨by rw [finish_fst]; exact scanBlock_good _ _ _ hne, finish_chain ?_⟩
    show (scanBlock _ _ _).2.quoteStarted = false
    rw [scanBlock_qs]
    cases hq' : (entryLv reset lv00).quoteStarted with
    | false => rfl
    | true =>
      have h1 := entryLv_qs hq'
      have h2 := hst hq'
      subst h2
      simp [ChainOK] at hc
      simp [hc] at h1

/-! ### at EOF every non-empty buffer yields a token -/

theorem spanLoop_eof (data : Bytes) (lv : Level) (i : Nat) (rpre : Bytes)
    (sidx : Option Nat) (sdir : UInt8) (rest : Bytes) :
    (spanLoop data true lv i rpre sidx sdir rest).1 ≠ .more := by
  fun_induction spanLoop data true lv i rpre sidx sdir rest
  all_goals simp_all

theorem scanPre_eof (lv : Level) (data : Bytes) : (scanPre lv data true).1 ≠ .more := by
  unfold scanPre
  simp only []
  split
  · simp_all
  · split
    · simp
    · split <;> simp

theorem sbqLoop_eof (skip l : Nat) (t : Bytes) : sbqLoop true skip l t ≠ none := by
  fun_induction sbqLoop true skip l t
  all_goals simp_all

theorem startsBlockQuote_eof (data : Bytes) : startsBlockQuote data true ≠ none := by
  unfold startsBlockQuote
  split
  · simp
  · split
    · exact sbqLoop_eof _ _ _
    · simp

theorem scanBlock_eof (lv : Level) (data : Bytes) : (scanBlock lv data true).1 ≠ .more := by
  unfold scanBlock
  simp only []
  split
  · split <;> simp
  · exact spanLoop_eof _ _ _ _ _ _ _

theorem scanRel_eof {data : Bytes} {atEOF reset : Bool} {lv : Level} {inner : List Level}
    {r : Out × Level × List Level} (hr : ScanRel data atEOF reset lv inner r)
    (he : atEOF = true) (hne : 0 < data.length) : r.1 ≠ .more := by
  subst he
  induction hr with
  | early reset lv00 inner0 h => simp at h; simp [h] at hne
  | span reset lv00 inner0 h hs => rw [finish_fst]; exact spanLoop_eof _ _ _ _ _ _ _
  | pre reset lv00 inner0 h hs hp => rw [finish_fst]; exact scanPre_eof _ _
  | needMore reset lv00 inner0 h hs hp hq => exact absurd hq (startsBlockQuote_eof _)
  | quoteStart reset lv00 inner0 l h hs hp hq hl hst => rw [finish_fst]; simp
  | nilPanic reset lv00 l h hs hp hq hst hl => simp
  | delegate reset lv00 q qs l r h hs hp hq hst hr ih => rw [finish_fst]; exact ih
  | block reset lv00 inner0 h hs hp hq hst => rw [finish_fst]; exact scanBlock_eof _ _

end XmppModel.Styling

namespace XmppModel.Styling
/-- `ChainOK` is preserved by every call, also on an empty window -/
theorem scanRel_chain {data : Bytes} {atEOF reset : Bool} {lv : Level} {inner : List Level}
    {r : Out × Level × List Level} (hr : ScanRel data atEOF reset lv inner r)
    (hc : ChainOK lv inner) : ChainOK r.2.1 r.2.2 := by
  induction hr with
  | early reset lv00 inner0 h =>
    show ChainOK (if reset = true then resetLevel lv00 else lv00) (if reset = true then _ else _)
    split
    · exact ChainOK_head (ChainOK_map hc) (by simp [resetLevel])
    · exact hc
  | span reset lv00 inner0 h hs =>
    refine finish_chain ?_
    exact ChainOK_head (ChainOK_entryLv reset hc) (fun hq => by rw [← (scanSpan_effect _ _ _).qs.1]; exact hq)
  | pre reset lv00 inner0 h hs hp =>
    refine finish_chain ?_
    refine ChainOK_head (ChainOK_entryLv reset hc) (fun hq => ?_)
    rcases scanPre_frame { entryLv reset lv00 with hasRun := true } data atEOF with h' | h' <;>
      (simp only [h'] at hq; exact hq)
  | needMore reset lv00 inner0 h hs hp hq => exact ChainOK_entryLv reset hc
  | quoteStart reset lv00 inner0 l h hs hp hq hl hst =>
    refine finish_chain ?_
    have := ChainOK_entryLv reset hc
    cases hi : entryInner reset lv00 inner0 with
    | nil => simp [ChainOK]
    | cons q qs => rw [hi] at this; simpa [ChainOK] using this
  | nilPanic reset lv00 l h hs hp hq hst hl =>
    have := entryLv_qs hst
    simp [ChainOK] at hc
    simp [hc] at this
  | delegate reset lv00 q qs l r h hs hp hq hst hr ih => exact finish_chain (ih hc)
  | block reset lv00 inner0 h hs hp hq hst =>
    refine finish_chain ?_
    show (scanBlock _ _ _).2.quoteStarted = false
    rw [scanBlock_qs]
    cases hq' : (entryLv reset lv00).quoteStarted with
    | false => rfl
    | true =>
      have h1 := entryLv_qs hq'
      have h2 := hst hq'
      subst h2
      simp [ChainOK] at hc
      simp [hc] at h1
end XmppModel.Styling

namespace XmppModel.Styling
set_option linter.unusedSimpArgs false in
/-- `ScanRel` determines the result of `scanLv` -/
theorem scanRel_eq {data : Bytes} {atEOF reset : Bool} {lv : Level} {inner : List Level}
    {r : Out × Level × List Level} (hr : ScanRel data atEOF reset lv inner r) :
    scanLv data atEOF reset lv inner = r := by
  induction hr with
  | early reset lv00 inner0 h => rw [scanLv]; simp only [h, if_true]
  | span reset lv00 inner0 h hs =>
    rw [scanLv]
    simp only [entryLv, entryInner, entryRs] at hs ⊢
    simp [h, hs]
  | pre reset lv00 inner0 h hs hp =>
    rw [scanLv]
    simp only [entryLv, entryInner, entryRs] at hs hp ⊢
    simp [h, hs, hp]
  | needMore reset lv00 inner0 h hs hp hq =>
    rw [scanLv]
    simp only [entryLv, entryInner, entryRs] at hs hp ⊢
    simp [h, hs, hp, hq]
  | quoteStart reset lv00 inner0 l h hs hp hq hl hst =>
    rw [scanLv]
    simp only [entryLv, entryInner, entryRs] at hs hp hst ⊢
    simp [h, hs, hp, hq, hst, hl]
  | nilPanic reset lv00 l h hs hp hq hst hl =>
    rw [scanLv]
    simp only [entryLv, entryInner, entryRs] at hs hp hst ⊢
    simp [h, hs, hp, hq, hst, hl]
  | delegate reset lv00 q qs l r h hs hp hq hst hr ih =>
    rw [scanLv]
    simp only [entryLv, entryInner, entryRs] at hs hp hst ih ⊢
    simp [h, hs, hp, hq, hst, ih]
  | block reset lv00 inner0 h hs hp hq hst =>
    rw [scanLv]
    simp only [entryLv, entryInner, entryRs] at hs hp hst ⊢
    simp [h, hs, hp, hq]
    intro h1 h2; exact absurd (hst h1) h2
end XmppModel.Styling
