import XmppModel.Model.IbbWriteSide
/-! the invariant of the guarded write side is inductive (C15) -/
namespace XmppModel.IbbWriteSide
open XmppModel

theorem inv_init : Inv {} := by
  refine ⟨rfl, ?_⟩
  intro t l h
  cases t <;> simp [St.snap] at h

theorem snap_none_of_unlocked {s : St} (h : Inv s) (hl : s.lock = none) (t : Tid) : s.snap t = none := by
  cases hs : s.snap t with
  | none => rfl
  | some l => have := (h.2 t l hs).1; rw [hl] at this; cases this

theorem inv_step {s s' : St} {a : Act} (h : Inv s) (hs : step true s a = some s') : Inv s' := by
  cases a with
  | write c =>
    simp only [step, Bool.true_and] at hs
    by_cases hl : s.lock.isSome
    · simp [hl] at hs
    · simp only [hl] at hs
      have hl' : s.lock = none := by cases h' : s.lock <;> simp_all
      injection hs with hs; subst hs
      refine ⟨by simp [← h.1, List.append_assoc], ?_⟩
      intro t l ht
      have hn := snap_none_of_unlocked h hl' t
      cases t <;> simp_all [St.snap]
  | flushBegin t =>
    simp only [step] at hs
    by_cases hsn : (s.snap t).isSome
    · simp [hsn] at hs
    · simp only [hsn] at hs
      by_cases hl : s.lock.isSome
      · simp [hl] at hs
      · have hl' : s.lock = none := by cases h' : s.lock <;> simp_all
        simp [hl] at hs; subst hs
        refine ⟨by cases t <;> simpa [St.setSnap] using h.1, ?_⟩
        intro t' l ht'
        have hA := snap_none_of_unlocked h hl' false
        have hS := snap_none_of_unlocked h hl' true
        cases t <;> cases t' <;> simp_all [St.snap, St.setSnap]
  | flushEnd t =>
    simp only [step] at hs
    cases hsn : s.snap t with
    | none => simp [hsn] at hs
    | some l =>
      simp only [hsn, Bool.true_and] at hs
      obtain ⟨hlock, hl⟩ := h.2 t l hsn
      simp [hlock] at hs; subst hs; subst hl
      refine ⟨?_, ?_⟩
      · cases t <;> simp [St.setSnap, ← h.1]
      · intro t' l' ht'
        -- no other thread can be inside Flush: it would hold the lock too
        cases t <;> cases t' <;> simp_all [St.snap, St.setSnap]
        · have := (h.2 true l' ht').1; simp_all
        · have := (h.2 false l' ht').1; simp_all
  | trySkip =>
    simp only [step] at hs
    by_cases hl : s.lock.isSome <;> simp [hl] at hs
    subst hs; exact h

theorem inv_run {acts : List Act} : ∀ {s s' : St}, Inv s → run true s acts = some s' → Inv s' := by
  induction acts with
  | nil => intro s s' h hr; simp [run] at hr; subst hr; exact h
  | cons a as ih =>
    intro s s' h hr
    simp only [run] at hr
    cases hs : step true s a with
    | none => simp [hs] at hr
    | some s1 => rw [hs] at hr; exact ih (inv_step h hs) hr

@[simp] theorem setSnap_written (s : St) (t : Tid) (v : Option Bytes) : (s.setSnap t v).written = s.written := by
  cases t <;> rfl

/-- whatever the interleaving, the bytes accepted are the chunks of the Write calls in lock order -/
theorem run_written (g : Bool) : ∀ (acts : List Act) (s s' : St), run g s acts = some s' →
    s'.written = s.written ++ (writesOf acts).flatten := by
  intro acts
  induction acts with
  | nil => intro s s' h; simp [run] at h; subst h; simp [writesOf]
  | cons a as ih =>
    intro s s' h
    simp only [run] at h
    cases hs : step g s a with
    | none => simp [hs] at h
    | some s1 =>
      rw [hs] at h
      have := ih s1 s' h
      rw [this]
      cases a with
      | write c =>
        simp only [step] at hs
        split at hs
        · cases hs
        · injection hs with hs; subst hs; simp [writesOf]
      | flushBegin t =>
        have : s1.written = s.written := by
          simp only [step] at hs
          repeat' split at hs
          all_goals first | (injection hs with hs; rw [← hs]; simp; done) | cases hs
        simp [writesOf, this]
      | flushEnd t =>
        have : s1.written = s.written := by
          simp only [step] at hs
          repeat' split at hs
          all_goals first | (injection hs with hs; rw [← hs]; simp; done) | cases hs
        simp [writesOf, this]
      | trySkip =>
        have : s1.written = s.written := by
          simp only [step] at hs
          split at hs
          · injection hs with hs; subst hs; rfl
          · cases hs
        simp [writesOf, this]

/-- with TryLock the serving goroutine is never parked and handles one stanza per step -/
theorem serveRun_tryLock : ∀ (inbox : List Stanza) (s : DS), s.serveParked = false → s.inbox = inbox →
    (serveRun true inbox.length s).inbox = [] ∧ (serveRun true inbox.length s).serveParked = false ∧
    ((Stanza.close ∈ inbox ∨ s.closeAnswered) → (serveRun true inbox.length s).closeAnswered = true) ∧
    ((Stanza.ack ∈ inbox ∨ s.appReturned) → (serveRun true inbox.length s).appReturned = true) := by
  intro inbox
  induction inbox with
  | nil => intro s hp hi; simp_all [serveRun]
  | cons x xs ih =>
    intro s hp hi
    cases x with
    | ack =>
      have hstep : serveStep true s = some { s with inbox := xs, appInFlush := false, appReturned := true } := by
        simp [serveStep, hp, hi]
      have := ih { s with inbox := xs, appInFlush := false, appReturned := true } hp rfl
      simp only [List.length_cons, serveRun, hstep]
      refine ⟨this.1, this.2.1, ?_, ?_⟩
      · intro h; apply this.2.2.1; rcases h with h | h
        · simp at h; exact Or.inl h
        · exact Or.inr h
      · intro _; exact this.2.2.2 (Or.inr rfl)
    | close =>
      have hstep : serveStep true s = some { s with inbox := xs, closeAnswered := true } := by
        simp [serveStep, hp, hi]
      have := ih { s with inbox := xs, closeAnswered := true } hp rfl
      simp only [List.length_cons, serveRun, hstep]
      refine ⟨this.1, this.2.1, ?_, ?_⟩
      · intro _; exact this.2.2.1 (Or.inr rfl)
      · intro h; apply this.2.2.2; rcases h with h | h
        · simp at h; exact Or.inl h
        · exact Or.inr h

end XmppModel.IbbWriteSide
