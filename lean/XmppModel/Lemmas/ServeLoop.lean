import XmppModel.Model.ServeLoop
namespace XmppModel.ServeLoop

theorem extent_le (d : Nat) (ts : List Tk) : extent d ts ≤ ts.length := by
  induction ts generalizing d with
  | nil => simp [extent]
  | cons t ts ih =>
    cases t with
    | start => have := ih (d + 1); simp [extent]; omega
    | stop =>
      cases d with
      | zero => simp [extent]
      | succ n => have := ih n; simp [extent]; omega
    | chars => have := ih d; simp [extent]; omega
    | bad => have := ih d; simp [extent]; omega

/-- one iteration removes at least one token from a non-empty input -/
theorem serveStep_progress (fails : List Tk → Bool) (t : Tk) (ts : List Tk) :
    (serveStep fails (t :: ts)).2.length < (t :: ts).length := by
  cases t <;> simp [serveStep] <;> omega

theorem serveAux_bound (fails : List Tk → Bool) :
    ∀ (f : Nat) (ts : List Tk) (it : Nat), ts.length < f →
      (serveAux fails f ts it).outcome ≠ .fuelOut ∧
      (serveAux fails f ts it).iterations ≤ it + ts.length + 1 := by
  intro f
  induction f with
  | zero => intro ts it h; omega
  | succ f ih =>
    intro ts it h
    cases ts with
    | nil => simp [serveAux, serveStep]
    | cons t ts =>
      have hp := serveStep_progress fails t ts
      simp only [serveAux]
      cases hs : serveStep fails (t :: ts) with
      | mk v rest =>
        rw [hs] at hp
        simp only at hp
        cases v with
        | eof => simp
        | stop => simp
        | next =>
          simp only
          have := ih rest (it + 1) (by simp at h hp ⊢; omega)
          refine ⟨this.1, ?_⟩
          have h2 := this.2
          simp at hp ⊢
          omega

/-- Serve never runs out of its budget of one iteration per token (+1): it returns, by EOF or
by an error, after at most `length + 1` calls of `handleInputStream`. -/
theorem serve_terminates (fails : List Tk → Bool) (input : List Tk) :
    (serve fails input).outcome ≠ .fuelOut ∧ (serve fails input).iterations ≤ input.length + 1 := by
  have := serveAux_bound fails (input.length + 1) input 0 (by omega)
  simpa [serve] using this

end XmppModel.ServeLoop
