import XmppModel.Model.Header
/-! Helper lemmas for the C12 header round trip. -/
namespace XmppModel.Header

end XmppModel.Header
