import XmppModel.Model.Header
/-! Helper lemmas for the C12 header round trip. -/
namespace XmppModel.Header

theorem fixChar_of_xmlChar {c : Char} (h : xmlChar c = true) : fixChar c = c := by simp [fixChar, h]

/-- one escaped code point is read back as that code point (U+FFFD for a non-XML one),
whatever the quote character -/
theorem readValue_escChar (q : Char) (hq : q = '\'' ∨ q = '"') (c : Char) (acc cs : Str) :
    readValue q (escChar c ++ cs) ⟨acc, none, false⟩ = readValue q cs ⟨acc ++ [fixChar c], none, false⟩ := by
  unfold escChar
  by_cases h1 : c = '"'
  · subst h1; rcases hq with rfl | rfl <;> simp [readValue, decodeEntity, numOf, decVal?, xmlChar, fixChar] <;> rfl
  by_cases h2 : c = '\''
  · subst h2; rcases hq with rfl | rfl <;> simp [readValue, decodeEntity, numOf, decVal?, xmlChar, fixChar] <;> rfl
  by_cases h3 : c = '&'
  · subst h3; rcases hq with rfl | rfl <;> simp [readValue, decodeEntity, xmlChar, fixChar]
  by_cases h4 : c = '<'
  · subst h4; rcases hq with rfl | rfl <;> simp [readValue, decodeEntity, xmlChar, fixChar]
  by_cases h5 : c = '>'
  · subst h5; rcases hq with rfl | rfl <;> simp [readValue, decodeEntity, xmlChar, fixChar]
  by_cases h6 : c = '\t'
  · subst h6; rcases hq with rfl | rfl <;> simp [readValue, decodeEntity, numOf, hexVal?, xmlChar, fixChar] <;> rfl
  by_cases h7 : c = '\n'
  · subst h7; rcases hq with rfl | rfl <;> simp [readValue, decodeEntity, numOf, hexVal?, xmlChar, fixChar] <;> rfl
  by_cases h8 : c = '\r'
  · subst h8; rcases hq with rfl | rfl <;> simp [readValue, decodeEntity, numOf, hexVal?, xmlChar, fixChar] <;> rfl
  simp only [h1, h2, h3, h4, h5, h6, h7, h8, if_false]
  by_cases hx : xmlChar c = true
  · have hcq : c ≠ q := by rcases hq with rfl | rfl <;> assumption
    simp [hx, readValue, hcq, h3, h4, h7, h8, fixChar]
  · have hx' : xmlChar c = false := by simpa using hx
    have hf : xmlChar '�' = true := by decide
    rcases hq with rfl | rfl <;> simp [hx', readValue, fixChar, hf]

/-- a whole escaped value, up to the closing quote -/
theorem readValue_escapeText (q : Char) (hq : q = '\'' ∨ q = '"') (v : Str) : ∀ (acc rest : Str),
    readValue q (escapeText v ++ q :: rest) ⟨acc, none, false⟩ = some (acc ++ v.map fixChar, rest) := by
  induction v with
  | nil => intro acc rest; simp [escapeText, readValue]
  | cons c v ih =>
    intro acc rest
    have : escapeText (c :: v) = escChar c ++ escapeText v := by simp [escapeText]
    rw [this, List.append_assoc, readValue_escChar q hq, ih]
    simp

/-- raw text inside an attribute value (no quote, `&` or `<`, XML characters only) is read
with its line ends normalised -/
theorem readValue_raw (q : Char) (v : Str)
    (hv : ∀ c ∈ v, c ≠ q ∧ c ≠ '&' ∧ c ≠ '<' ∧ xmlChar c = true) : ∀ (prev : Bool) (acc rest : Str),
    readValue q (v ++ q :: rest) ⟨acc, none, prev⟩ = some (acc ++ normCR prev v, rest) := by
  induction v with
  | nil => intro prev acc rest; simp [readValue, normCR]
  | cons c v ih =>
    intro prev acc rest
    obtain ⟨h1, h2, h3, h4⟩ := hv c (by simp)
    have ih' := ih (fun c' h' => hv c' (by simp [h']))
    by_cases hr : c = '\r'
    · subst hr
      simp [readValue, normCR, h1, ih']
    · by_cases hn : c = '\n' ∧ prev = true
      · obtain ⟨rfl, rfl⟩ := hn
        simp [readValue, normCR, h1, ih']
      · simp only [List.cons_append, readValue, h1, h2, h3, hr, hn, h4, if_false, if_true, ih', normCR]
        simp

theorem normCR_no_cr (v : Str) : ∀ prev, '\r' ∉ normCR prev v := by
  induction v with
  | nil => intro prev; simp [normCR]
  | cons c v ih =>
    intro prev
    unfold normCR
    split
    · simp [ih true]
    · split
      · exact ih false
      · rename_i hr _
        simp only [List.mem_cons, not_or]
        exact ⟨fun h => hr h.symm, ih false⟩

theorem normCR_id (v : Str) (h : '\r' ∉ v) : normCR false v = v := by
  induction v with
  | nil => rfl
  | cons c v ih =>
    have hc : c ≠ '\r' := fun e => h (by simp [e])
    have hv : '\r' ∉ v := fun e => h (by simp [e])
    simp [normCR, hc, ih hv]

/-- a non-empty string of name characters -/
def IsName (n : Str) : Prop := n ≠ [] ∧ ∀ c ∈ n, isNameChar c = true

instance (n : Str) : Decidable (IsName n) := by unfold IsName; exact inferInstance

theorem takeWhile_name (n : Str) (hn : ∀ c ∈ n, isNameChar c = true) (c : Char) (hc : isNameChar c = false)
    (r : Str) : (n ++ c :: r).takeWhile isNameChar = n ∧ (n ++ c :: r).dropWhile isNameChar = c :: r := by
  induction n with
  | nil => simp [List.takeWhile, List.dropWhile, hc]
  | cons a n ih =>
    have ha : isNameChar a = true := hn a (by simp)
    have := ih (fun c hc => hn c (by simp [hc]))
    simp [List.takeWhile, List.dropWhile, ha, this.1, this.2]

theorem nameChar_not_space {c : Char} (h : isNameChar c = true) : isSpace c = false := by
  unfold isNameChar at h
  cases hs : isSpace c <;> simp_all

theorem nameChar_ne {c : Char} (h : isNameChar c = true) : c ≠ '>' ∧ c ≠ '/' := by
  unfold isNameChar at h
  constructor <;> intro hc <;> subst hc <;> simp [isSpace] at h

/-- one printed attribute, followed by something an attribute may be followed by, is read
as that attribute with its value unescaped -/
theorem readAttrs_attr (n : Str) (hn : IsName n) (q : Char) (hq : q = '\'' ∨ q = '"') (v t : Str)
    (hf : followOK t = true) (fuel : Nat) :
    readAttrs (fuel + 1) (' ' :: (n ++ '=' :: q :: (escapeText v ++ q :: t)))
      = (readAttrs fuel t).map fun r => ((n, v.map fixChar) :: r.1, r.2) := by
  obtain ⟨hne, hall⟩ := hn
  match n, hne with
  | c0 :: n', _ =>
    have h0 : isNameChar c0 = true := hall c0 (by simp)
    have hsp : isSpace c0 = false := nameChar_not_space h0
    have hgt := nameChar_ne h0
    have hdrop : (' ' :: ((c0 :: n') ++ '=' :: q :: (escapeText v ++ q :: t))).dropWhile isSpace
        = (c0 :: n') ++ '=' :: (q :: (escapeText v ++ q :: t)) := by
      have hs0 : isSpace ' ' = true := by decide
      rw [List.dropWhile_cons_of_pos hs0, List.cons_append,
        List.dropWhile_cons_of_neg (by simp [hsp])]
    have heq : isNameChar '=' = false := by decide
    have htk := takeWhile_name (c0 :: n') hall '=' heq (q :: (escapeText v ++ q :: t))
    rw [readAttrs, hdrop, htk.1, htk.2]
    have hq' : (q = '\'' ∨ q = '"') := hq
    simp only [List.cons_append, List.head?_cons, Option.some.injEq, hgt.1, if_false, List.take,
      List.cons.injEq, hgt.2, false_and, reduceCtorEq, hq', if_true]
    have hrv := readValue_escapeText q hq v [] t
    simp only [List.nil_append] at hrv
    have hrv' : readValue q (escapeText v ++ q :: t) {} = some (v.map fixChar, t) := hrv
    simp [hrv', hf]

/-- more fuel never changes a successful read -/
theorem readAttrs_mono : ∀ (f : Nat) (s : Str) (r : List (Str × Str) × Bool),
    readAttrs f s = some r → readAttrs (f + 1) s = some r := by
  intro f
  induction f with
  | zero => intro s r h; simp [readAttrs] at h
  | succ f ih =>
    intro s r h
    rw [readAttrs] at h
    rw [readAttrs]
    split
    · rename_i c1; simp only [c1, if_true] at h; exact h
    · rename_i c1
      simp only [c1, if_false] at h
      split
      · rename_i c2; simp only [c2, if_true] at h; exact h
      · rename_i c2
        simp only [c2, if_false] at h
        split
        · rename_i c3; simp only [c3, if_true] at h; exact h
        · rename_i c3
          simp only [c3, if_false] at h
          split
          · rename_i q s2 heq
            simp only [heq] at h
            split
            · rename_i c4
              simp only [c4, if_true] at h
              split
              · rename_i v s3 hrv
                simp only [hrv] at h
                split
                · rename_i c5
                  simp only [c5, if_true] at h
                  cases hr : readAttrs f s3 with
                  | none => simp [hr] at h
                  | some r' => simp only [hr, Option.map_some] at h; simp [ih s3 r' hr, h]
                · rename_i c5; simp [c5] at h
              · rename_i hrv; simp [hrv] at h
            · rename_i c4; simp [c4] at h
          · rename_i hne
            split at h
            · rename_i q s2 heq; exact absurd heq (hne q s2)
            · exact h

theorem readAttrs_mono_le (f f' : Nat) (hle : f ≤ f') (s : Str) (r : List (Str × Str) × Bool)
    (h : readAttrs f s = some r) : readAttrs f' s = some r := by
  induction hle with
  | refl => exact h
  | step _ ih => exact readAttrs_mono _ s r ih

/-- the raw attributes the optional attribute contributes -/
def optRaw (n v : Str) : List (Str × Str) := if v = [] then [] else [(n, v.map fixChar)]

theorem followOK_space (t : Str) : followOK (' ' :: t) = true := by simp [followOK, isSpace]

theorem followOK_printOpt (n v t : Str) (hf : followOK t = true) : followOK (printOpt n v ++ t) = true := by
  unfold printOpt
  by_cases hv : v = []
  · simpa [hv] using hf
  · simp [hv, printRaw, followOK, isSpace]

theorem followOK_printRaw (n : Str) (q : Char) (v t : Str) : followOK (printRaw n q v ++ t) = true := by
  simp [printRaw, followOK, isSpace]

/-- a constant attribute (its value needs no escaping) -/
theorem readAttrs_raw (n : Str) (hn : IsName n) (q : Char) (hq : q = '\'' ∨ q = '"') (v t : Str)
    (hv : escapeText v = v) (hv' : v.map fixChar = v) (hf : followOK t = true) (f : Nat)
    (as : List (Str × Str)) (sc : Bool) (h : readAttrs f t = some (as, sc)) :
    readAttrs (f + 1) (printRaw n q v ++ t) = some ((n, v) :: as, sc) := by
  have e : printRaw n q v ++ t = ' ' :: (n ++ '=' :: q :: (escapeText v ++ q :: t)) := by
    simp [printRaw, hv, List.append_assoc]
  rw [e, readAttrs_attr n hn q hq v t hf f, h, hv']
  rfl

/-- an optional attribute -/
theorem readAttrs_opt (n : Str) (hn : IsName n) (v t : Str) (hf : followOK t = true) (f : Nat)
    (as : List (Str × Str)) (sc : Bool) (h : readAttrs f t = some (as, sc)) :
    readAttrs (f + 1) (printOpt n v ++ t) = some (optRaw n v ++ as, sc) := by
  unfold printOpt optRaw
  by_cases hv : v = []
  · simp only [hv, if_true, List.nil_append]
    exact readAttrs_mono f t _ h
  · simp only [hv, if_false]
    have e : printRaw n '\'' (escapeText v) ++ t = ' ' :: (n ++ '=' :: '\'' :: (escapeText v ++ '\'' :: t)) := by
      simp [printRaw, List.append_assoc]
    rw [e, readAttrs_attr n hn '\'' (Or.inl rfl) v t hf f, h]
    rfl

theorem isName_id : IsName kId := by decide
theorem isName_to : IsName kTo := by decide
theorem isName_from : IsName kFrom := by decide
theorem isName_lang : IsName kXmlLang := by decide
theorem isName_xmlns : IsName kXmlns := by decide
theorem isName_xmlnsStream : IsName kXmlnsStream := by decide
theorem isName_version : IsName kVersion := by decide

/-- the four optional attributes followed by the end of the tag -/
theorem readAttrs_opts (a : HdrArgs) (close : Str) (sc : Bool)
    (hclose : readAttrs 1 close = some ([], sc)) (hf : followOK close = true) :
    readAttrs 5 (printOpts a ++ close) =
      some (optRaw kId a.id ++ (optRaw kTo a.to ++ (optRaw kFrom a.src ++
        (optRaw kXmlLang a.lang ++ []))), sc) := by
  unfold printOpts
  have h4 := readAttrs_opt kXmlLang isName_lang a.lang close hf 1 [] sc hclose
  have f4 := followOK_printOpt kXmlLang a.lang close hf
  have h3 := readAttrs_opt kFrom isName_from a.src _ f4 2 _ sc h4
  have f3 := followOK_printOpt kFrom a.src _ f4
  have h2 := readAttrs_opt kTo isName_to a.to _ f3 3 _ sc h3
  have f2 := followOK_printOpt kTo a.to _ f3
  have h1 := readAttrs_opt kId isName_id a.id _ f2 4 _ sc h2
  simpa [List.append_assoc] using h1

theorem afterDeclEnd_body (body : Str) (hb : ∀ c ∈ body, c ≠ '?') (x : Str) :
    afterDeclEnd (body ++ '?' :: '>' :: x) = x := by
  induction body with
  | nil => simp [afterDeclEnd]
  | cons c body ih =>
    have hc : c ≠ '?' := hb c (by simp)
    simp only [List.cons_append, afterDeclEnd, hc, false_and, if_false]
    exact ih (fun c' h' => hb c' (by simp [h']))

def declBody : Str := " version=\"1.0\" encoding=\"UTF-8\"".toList

theorem xmlDecl_eq : xmlDecl = '<' :: '?' :: 'x' :: 'm' :: 'l' :: (declBody ++ ['?', '>']) := by decide

theorem skipDecl_xmlDecl (x : Str) : skipDecl (xmlDecl ++ '<' :: x) = '<' :: x := by
  rw [xmlDecl_eq]
  simp only [List.cons_append, skipDecl, List.append_assoc]
  exact afterDeclEnd_body declBody (by decide) ('<' :: x)

theorem skipDecl_open (x : Str) : skipDecl ('<' :: 'o' :: x) = '<' :: 'o' :: x := by
  simp [skipDecl]

/-- the raw attributes of the printed header -/
def rawAttrs (a : HdrArgs) : List (Str × Str) :=
  (if a.ws then [(kXmlns, nsFraming), (kVersion, kOneZero)]
   else [(kXmlns, contentNS a.s2s), (kXmlnsStream, nsStream), (kVersion, kOneZero)]) ++
  (optRaw kId a.id ++ (optRaw kTo a.to ++ (optRaw kFrom a.src ++
    (optRaw kXmlLang a.lang ++ []))))

theorem contentNS_const (s2s : Bool) :
    escapeText (contentNS s2s) = contentNS s2s ∧ (contentNS s2s).map fixChar = contentNS s2s := by
  cases s2s <;> decide

/-- reading the printed header gives its name and raw attributes -/
theorem readTag_printHeader (a : HdrArgs) :
    readTag (printHeader a) =
      some ⟨if a.ws then kOpen else kStreamStream, rawAttrs a, a.ws⟩ := by
  have hsp : isNameChar ' ' = false := by decide
  have hlt : isSpace '<' = false := by decide
  cases hws : a.ws
  · -- TCP framing
    have hclose : readAttrs 1 kGt = some ([], false) := by decide
    have hfc : followOK kGt = true := by decide
    have h5 := readAttrs_opts a kGt false hclose hfc
    have f5 : followOK (printOpts a ++ kGt) = true := by
      unfold printOpts
      simp only [List.append_assoc]
      exact followOK_printOpt _ _ _ (followOK_printOpt _ _ _ (followOK_printOpt _ _ _ (followOK_printOpt _ _ _ hfc)))
    have h6 := readAttrs_raw kVersion isName_version '\'' (Or.inl rfl) kOneZero _
      (by decide) (by decide) f5 5 _ false h5
    have f6 := followOK_printRaw kVersion '\'' kOneZero (printOpts a ++ kGt)
    have h7 := readAttrs_raw kXmlnsStream isName_xmlnsStream '\'' (Or.inl rfl) nsStream _
      (by decide) (by decide) f6 6 _ false h6
    have f7 := followOK_printRaw kXmlnsStream '\'' nsStream
      (printRaw kVersion '\'' kOneZero ++ (printOpts a ++ kGt))
    have h8 := readAttrs_raw kXmlns isName_xmlns '\'' (Or.inl rfl) (contentNS a.s2s) _
      (contentNS_const a.s2s).1 (contentNS_const a.s2s).2 f7 7 _ false h7
    unfold printHeader readTag
    simp only [hws, Bool.false_eq_true, if_false]
    rw [skipDecl_xmlDecl, List.dropWhile_cons_of_neg (by simp [hlt])]
    -- expose the space that ends the element name
    have e : (kStreamStream ++ (printRaw kXmlns '\'' (contentNS a.s2s) ++
        (printRaw kXmlnsStream '\'' nsStream ++
          (printRaw kVersion '\'' kOneZero ++ (printOpts a ++ kGt)))))
        = kStreamStream ++ ' ' :: ((kXmlns ++ '=' :: '\'' :: (contentNS a.s2s ++ ['\''])) ++
        (printRaw kXmlnsStream '\'' nsStream ++
          (printRaw kVersion '\'' kOneZero ++ (printOpts a ++ kGt)))) := by
      simp [printRaw]
    have hn := takeWhile_name kStreamStream (by decide) ' ' hsp
      ((kXmlns ++ '=' :: '\'' :: (contentNS a.s2s ++ ['\''])) ++
        (printRaw kXmlnsStream '\'' nsStream ++
          (printRaw kVersion '\'' kOneZero ++ (printOpts a ++ kGt))))
    have hne : (kStreamStream = []) = False := by decide
    simp only [e, hn.1, hn.2, hne, if_false]
    have e2 : (' ' :: ((kXmlns ++ '=' :: '\'' :: (contentNS a.s2s ++ ['\''])) ++
        (printRaw kXmlnsStream '\'' nsStream ++
          (printRaw kVersion '\'' kOneZero ++ (printOpts a ++ kGt)))))
        = printRaw kXmlns '\'' (contentNS a.s2s) ++
        (printRaw kXmlnsStream '\'' nsStream ++
          (printRaw kVersion '\'' kOneZero ++ (printOpts a ++ kGt))) := by
      simp [printRaw]
    rw [e2]
    have hfuel : 8 ≤ (printRaw kXmlns '\'' (contentNS a.s2s) ++
        (printRaw kXmlnsStream '\'' nsStream ++
          (printRaw kVersion '\'' kOneZero ++ (printOpts a ++ kGt)))).length + 1 := by
      simp [printRaw] <;> omega
    rw [readAttrs_mono_le 8 _ hfuel _ _ h8]
    first | done | simp [rawAttrs, hws]
  · -- WebSocket framing
    have hclose : readAttrs 1 kSlashGt = some ([], true) := by decide
    have hfc : followOK kSlashGt = true := by decide
    have h5 := readAttrs_opts a kSlashGt true hclose hfc
    have f5 : followOK (printOpts a ++ kSlashGt) = true := by
      unfold printOpts
      simp only [List.append_assoc]
      exact followOK_printOpt _ _ _ (followOK_printOpt _ _ _ (followOK_printOpt _ _ _ (followOK_printOpt _ _ _ hfc)))
    have h6 := readAttrs_raw kVersion isName_version '\'' (Or.inl rfl) kOneZero _
      (by decide) (by decide) f5 5 _ true h5
    have f6 := followOK_printRaw kVersion '\'' kOneZero (printOpts a ++ kSlashGt)
    have h7 := readAttrs_raw kXmlns isName_xmlns '"' (Or.inr rfl) nsFraming _
      (by decide) (by decide) f6 6 _ true h6
    unfold printHeader readTag
    simp only [hws, if_true]
    have eo : kOpen = ['o', 'p', 'e', 'n'] := by decide
    have hsk : skipDecl ('<' :: (kOpen ++ (printRaw kXmlns '"' nsFraming ++
        (printRaw kVersion '\'' kOneZero ++ (printOpts a ++ kSlashGt)))))
        = '<' :: (kOpen ++ (printRaw kXmlns '"' nsFraming ++
        (printRaw kVersion '\'' kOneZero ++ (printOpts a ++ kSlashGt)))) := by
      rw [eo]; simp [skipDecl]
    rw [hsk, List.dropWhile_cons_of_neg (by simp [hlt])]
    have e : (kOpen ++ (printRaw kXmlns '"' nsFraming ++
          (printRaw kVersion '\'' kOneZero ++ (printOpts a ++ kSlashGt))))
        = kOpen ++ ' ' :: ((kXmlns ++ '=' :: '"' :: (nsFraming ++ ['"'])) ++
          (printRaw kVersion '\'' kOneZero ++ (printOpts a ++ kSlashGt))) := by
      simp [printRaw]
    have hn := takeWhile_name kOpen (by decide) ' ' hsp
      ((kXmlns ++ '=' :: '"' :: (nsFraming ++ ['"'])) ++
          (printRaw kVersion '\'' kOneZero ++ (printOpts a ++ kSlashGt)))
    have hne : (kOpen = []) = False := by decide
    simp only [e, hn.1, hn.2, hne, if_false]
    have e2 : (' ' :: ((kXmlns ++ '=' :: '"' :: (nsFraming ++ ['"'])) ++
          (printRaw kVersion '\'' kOneZero ++ (printOpts a ++ kSlashGt))))
        = printRaw kXmlns '"' nsFraming ++
          (printRaw kVersion '\'' kOneZero ++ (printOpts a ++ kSlashGt)) := by
      simp [printRaw]
    rw [e2]
    have hfuel : 7 ≤ (printRaw kXmlns '"' nsFraming ++
          (printRaw kVersion '\'' kOneZero ++ (printOpts a ++ kSlashGt))).length + 1 := by
      simp [printRaw] <;> omega
    rw [readAttrs_mono_le 7 _ hfuel _ _ h7]
    first | done | simp [rawAttrs, hws]

theorem optRaw_map (f : Str × Str → QName × Str) (n v : Str) :
    (optRaw n v).map f = if v = [] then [] else [f (n, v.map fixChar)] := by
  unfold optRaw; split <;> simp

theorem splitName_stream : splitName kStreamStream = (kStream, kStream) := by decide
theorem splitName_open : splitName kOpen = ([], kOpen) := by decide
theorem splitName_xmlns : splitName kXmlns = ([], kXmlns) := by decide
theorem splitName_xmlnsStream : splitName kXmlnsStream = (kXmlns, kStream) := by decide
theorem splitName_version : splitName kVersion = ([], kVersion) := by decide
theorem splitName_id : splitName kId = ([], kId) := by decide
theorem splitName_to : splitName kTo = ([], kTo) := by decide
theorem splitName_from : splitName kFrom = ([], kFrom) := by decide
theorem splitName_lang : splitName kXmlLang = (kXml, kLang) := by decide

theorem resolveAttr_plain (attrs : List (Str × Str)) (n v : Str) (h : splitName n = ([], n)) :
    resolveAttr attrs (n, v) = (⟨[], n⟩, v) := by
  simp [resolveAttr, h]

theorem resolveAttr_xmlnsStream (attrs : List (Str × Str)) (v : Str) :
    resolveAttr attrs (kXmlnsStream, v) = (⟨kXmlns, kStream⟩, v) := by
  have d : (kXmlns = ([] : Str)) = False := by decide
  simp only [resolveAttr, splitName_xmlnsStream, d, if_false, if_true]

theorem resolveAttr_lang (attrs : List (Str × Str)) (v : Str) :
    resolveAttr attrs (kXmlLang, v) = (⟨nsXML, kLang⟩, v) := by
  have d1 : (kXml = ([] : Str)) = False := by decide
  have d2 : (kXml = kXmlns) = False := by decide
  simp only [resolveAttr, splitName_lang, d1, d2, if_false, if_true]

theorem resolveElem_stream (v1 v2 : Str) (rest : List (Str × Str)) :
    resolveElem ((kXmlns, v1) :: (kXmlnsStream, v2) :: rest) kStreamStream
      = ⟨v2, kStream⟩ := by
  have d1 : (kStream = ([] : Str)) = False := by decide
  have d2 : (kStream = kXml) = False := by decide
  have d6 : decide (kXmlns = kXmlnsColon ++ kStream) = false := by decide
  have d7 : decide (kXmlnsStream = kXmlnsColon ++ kStream) = true := by decide
  simp only [resolveElem, splitName_stream, d1, d2, if_false, lookupNS, List.find?_cons, d6, d7,
    Option.map_some]

theorem resolveElem_open (v1 : Str) (rest : List (Str × Str)) :
    resolveElem ((kXmlns, v1) :: rest) kOpen = ⟨v1, kOpen⟩ := by
  simp [resolveElem, splitName_open, defaultNS]

theorem optRaw_resolve_plain (attrs : List (Str × Str)) (n v : Str) (h : splitName n = ([], n)) :
    (optRaw n v).map (resolveAttr attrs) = optAttr [] n v := by
  unfold optRaw optAttr
  split <;> simp [resolveAttr_plain attrs n _ h]

theorem optRaw_resolve_lang (attrs : List (Str × Str)) (v : Str) :
    (optRaw kXmlLang v).map (resolveAttr attrs) = optAttr nsXML kLang v := by
  unfold optRaw optAttr
  split <;> simp [resolveAttr_lang]

/-- namespace resolution of the printed header's raw tag gives the expected start element -/
theorem resolve_rawAttrs (a : HdrArgs) :
    resolve ⟨if a.ws then kOpen else kStreamStream, rawAttrs a, a.ws⟩ = expected a := by
  cases hws : a.ws
  · simp only [resolve, rawAttrs, expected, hws, Bool.false_eq_true, if_false, List.cons_append,
      List.nil_append, resolveElem_stream, List.map_cons, List.map_append, List.map_nil,
      resolveAttr_plain _ _ _ splitName_xmlns, resolveAttr_xmlnsStream,
      resolveAttr_plain _ _ _ splitName_version, optRaw_resolve_plain _ _ _ splitName_id,
      optRaw_resolve_plain _ _ _ splitName_to, optRaw_resolve_plain _ _ _ splitName_from,
      optRaw_resolve_lang, List.append_nil, List.append_assoc]
  · simp only [resolve, rawAttrs, expected, hws, if_true, List.cons_append,
      List.nil_append, resolveElem_open, List.map_cons, List.map_append, List.map_nil,
      resolveAttr_plain _ _ _ splitName_xmlns,
      resolveAttr_plain _ _ _ splitName_version, optRaw_resolve_plain _ _ _ splitName_id,
      optRaw_resolve_plain _ _ _ splitName_to, optRaw_resolve_plain _ _ _ splitName_from,
      optRaw_resolve_lang, List.append_nil, List.append_assoc]

end XmppModel.Header
