import XmppModel.Lemmas.NegotiateReach
/-!
The negotiation machine with a stream configuration that depends on the session (`stepD`,
`Model/Negotiate.lean`): reachability, the static configuration as a special case, lifting of the
invariants that do not mention the configuration, and the configuration-dependent ones restated
for "the features the config function returns for the current state".
-/
namespace XmppModel.Negotiate

variable {F : St → List Feature} {O : Oracle} {st0 : St} {script : List Peer} {picks : List FName}

theorem runD_succ (F : St → List Feature) (O : Oracle) (n : Nat) (d : DConf) :
    runD F O (n + 1) d = stepD F O (runD F O n d) := by
  induction n generalizing d with
  | zero => rfl
  | succ n ih => rw [runD, ih]; rfl

/-- configurations reachable from the initial one under the config function `F` -/
def ReachD (F : St → List Feature) (O : Oracle) (st0 : St) (script : List Peer) (picks : List FName)
    (d : DConf) : Prop := ∃ n, d = runD F O n (initD F st0 script picks)

theorem reachD_ind (P : DConf → Prop) (h0 : P (initD F st0 script picks))
    (hs : ∀ d, ReachD F O st0 script picks d → P d → P (stepD F O d)) :
    ∀ d, ReachD F O st0 script picks d → P d := by
  intro d ⟨n, hn⟩
  subst hn
  induction n with
  | zero => exact h0
  | succ n ih => rw [runD_succ]; exact hs _ ⟨n, rfl⟩ ih

/-- an invariant of `step` that holds whatever configuration the step uses is an invariant of the
machine with a session-dependent configuration -/
theorem reachD_lift (P : Conf → Prop) (h0 : P (init st0 script picks))
    (hs : ∀ C c, P c → P (step C O c)) {d : DConf} (h : ReachD F O st0 script picks d) : P d.c :=
  reachD_ind (P := fun d => P d.c) h0 (fun d _ hd => hs _ d.c hd) d h

theorem cfgAt_const (C : List Feature) (c : Conf) : cfgAt (fun _ => C) c C = C := by
  unfold cfgAt; split <;> rfl

/-- a config function that ignores the session gives the machine with the fixed configuration -/
theorem runD_const (C : List Feature) (O : Oracle) (n : Nat) (c : Conf) :
    runD (fun _ => C) O n ⟨c, C⟩ = ⟨run C O n c, C⟩ := by
  induction n generalizing c with
  | zero => rfl
  | succ n ih =>
    rw [runD, run]
    have : stepD (fun _ => C) O ⟨c, C⟩ = ⟨step C O c, C⟩ := by
      unfold stepD; simp only [cfgAt_const]
    rw [this, ih]

/-- the configuration of the current negotiator call is what the config function returned for
the state in which the call's features list is handled: from the entry of `negotiateFeatures`
until the state next changes -/
structure InvLD (F : St → List Feature) (c : Conf) : Prop where
  listedTodo : ∀ todo, c.pc = .listing todo →
    c.listed ++ todo.filter (eligible c.st) = (F c.st).filter (eligible c.st)
  listedFlush : c.pc = .flush → c.listed = (F c.st).filter (eligible c.st)
  listedBlocked : ∀ st fs, c.pc = .blocked (.listOut st fs) → fs = (F st).filter (eligible st)
  outOK : ∀ st fs ok, Ev.listOut st fs ok ∈ c.tr → fs = (F st).filter (eligible st)

theorem invLD_step (F : St → List Feature) (C : List Feature) (O : Oracle) (c : Conf)
    (hC : c.pc = .feat → C = F c.st) (h : InvLD F c) : InvLD F (step C O c) := by
  obtain ⟨h4, h5, h5b, h6⟩ := h
  step_all
  all_goals (constructor <;> (try dsimp only))
  all_goals first
    | exact h4
    | exact h5
    | exact h5b
    | exact h6
    | (intro h; cases h; done)
    | (intro _ h; cases h; done)
    | (intro _ _ h; cases h; done)
    | (intro _ _ h; cases h; exact h5 ‹_›)
    | (intro st fs ok hm
       simp only [List.mem_cons] at hm
       rcases hm with hm | hm
       · cases hm; exact h5b _ _ ‹_›
       · exact h6 _ _ _ hm)
    | (intro st fs ok hm
       simp only [List.mem_cons] at hm
       rcases hm with hm | hm
       · first
         | (cases hm; done)
         | (cases hm; exact h5 ‹_›)
       · exact h6 _ _ _ hm)
    | (intro todo htodo; cases htodo; have := hC ‹c.pc = .feat›; subst this; simp; done)
    | (intro todo htodo; cases htodo; have := h4 _ ‹c.pc = _›; simp_all; done)
    | (intro _; have := h4 _ ‹c.pc = _›; simp_all; done)
    | (simp_all; done)
    | skip

theorem invLD_reach {d : DConf} (h : ReachD F O st0 script picks d) : InvLD F d.c := by
  refine reachD_ind (P := fun d => InvLD F d.c) ?_ ?_ d h
  · refine ⟨?_, ?_, ?_, ?_⟩
    · intro _ h; cases h
    · intro h; cases h
    · intro _ _ h; cases h
    · intro _ _ _ h; cases h
  · intro d _ hd
    apply invLD_step F _ O d.c _ hd
    intro hpc
    unfold cfgAt; simp [hpc]

/-- `InvA` for the configuration of the current negotiator call: when the configuration is
looked up afresh (`feat`) the configuration-dependent part of `InvA` is vacuous -/
theorem invA_reachD {d : DConf} (h : ReachD F O st0 script picks d) : InvA d.cfg d.c := by
  refine reachD_ind (P := fun d => InvA d.cfg d.c) ?_ ?_ d h
  · constructor
    · intro h; cases h
    · intro e he; cases he
  · intro d _ hd
    show InvA (cfgAt F d.c d.cfg) (step (cfgAt F d.c d.cfg) O d.c)
    apply invA_step
    unfold cfgAt
    split
    · rename_i hpc
      refine ⟨?_, hd.good⟩
      intro h'
      rw [hpc] at h'
      cases h'
    · exact hd

/-- the invariants of `NegotiateReach` that do not mention the configuration, for the machine with
a session-dependent configuration -/
theorem invB_reachD {d : DConf} (h : ReachD F O st0 script picks d) : InvB d.c :=
  reachD_lift (P := InvB) (invB_reach (C := []) (O := O) ⟨0, rfl⟩) (fun C c => invB_step C O c) h

theorem invC_reachD {d : DConf} (h : ReachD F O st0 script picks d) : InvC st0 d.c :=
  reachD_lift (P := InvC st0) (invC_reach (C := []) (O := O) ⟨0, rfl⟩) (fun C c => invC_step C O st0 c) h

theorem invD_reachD {d : DConf} (h : ReachD F O st0 script picks d) : InvD d.c :=
  reachD_lift (P := InvD) (invD_reach (C := []) (O := O) ⟨0, rfl⟩) (fun C c => invD_step C O c) h

theorem invE_reachD {d : DConf} (h : ReachD F O st0 script picks d) : InvE d.c :=
  reachD_lift (P := InvE) (invE_reach (C := []) (O := O) ⟨0, rfl⟩) (fun C c => invE_step C O c) h

theorem invF_reachD {d : DConf} (h : ReachD F O st0 script picks d) : InvF d.c :=
  reachD_lift (P := InvF) (invF_reach (C := []) (O := O) ⟨0, rfl⟩) (fun C c => invF_step C O c) h

theorem invG_reachD {d : DConf} (h : ReachD F O st0 script picks d) : InvG d.c :=
  reachD_lift (P := InvG) (invG_reach (C := []) (O := O) ⟨0, rfl⟩) (fun C c => invG_step C O c) h

theorem invV_reachD {d : DConf} (h : ReachD F O st0 script picks d) : InvV d.c :=
  reachD_lift (P := InvV) (invV_reach (C := []) (O := O) ⟨0, rfl⟩) (fun C c => invV_step C O c) h

theorem monoD {d : DConf} (h : ReachD F O st0 script picks d) : sub st0 d.c.st :=
  reachD_lift (P := fun c => sub st0 c.st) (sub_refl _) (fun C c hc => sub_trans hc (step_mono C O c)) h

end XmppModel.Negotiate
