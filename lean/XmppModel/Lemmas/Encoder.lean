import XmppModel.Model.Encoder
/-! Helper lemmas about the encoder model (C05). -/
namespace XmppModel.Encoder
open XmppModel.Xml

theorem encode_nil (cfg : Cfg) (f : String) (d : Int) : encode cfg f d [] = (d, []) := rfl

theorem encode_cons (cfg : Cfg) (f : String) (d : Int) (t : Tok) (ts : List Tok) :
    encode cfg f d (t :: ts) =
      ((encode cfg f (encTok cfg f d t).1 ts).1, (encTok cfg f d t).2 :: (encode cfg f (encTok cfg f d t).1 ts).2) := rfl

theorem encode_append (cfg : Cfg) (f : String) (a b : List Tok) (d : Int) :
    encode cfg f d (a ++ b) =
      ((encode cfg f (encode cfg f d a).1 b).1, (encode cfg f d a).2 ++ (encode cfg f (encode cfg f d a).1 b).2) := by
  induction a generalizing d with
  | nil => simp [encode_nil]
  | cons t ts ih => simp [encode_cons, ih]

/-- strictly inside a top-level element (absolute depth ≥ 2 for every start, ≥ 2 before every
end) the encoder only strips `xmlns` attributes -/
theorem encode_inside (cfg : Cfg) (f : String) (d : Int) (hd : 1 ≤ d) (body : List Tok) :
    ∀ (r r' : Nat), depthAfter r body = some r' →
      encode cfg f (d + r) body = (d + r', body.map stripTok) := by
  induction body with
  | nil =>
    intro r r' h
    simp [depthAfter] at h
    simp [encode_nil, h]
  | cons t ts ih =>
    intro r r' h
    cases t with
    | start n as =>
      simp only [depthAfter] at h
      have := ih (r + 1) r' h
      have e : d + ((r + 1 : Nat) : Int) = d + r + 1 := by omega
      rw [e] at this
      have hne : ¬ (d + (r : Int) + 1 = 1) := by omega
      simp [encode_cons, encTok, encStart, hne, this, stripTok]
    | stop n =>
      cases r with
      | zero => simp [depthAfter] at h
      | succ k =>
        simp only [depthAfter] at h
        have := ih k r' h
        have e : d + ((k : Int) + 1) - 1 = d + k := by omega
        have hne : ¬ (d + ((k : Int) + 1) = 1) := by omega
        simp [encode_cons, encTok, encStop, hne, e, this, stripTok]
    | chars s => simp only [depthAfter] at h; simp [encode_cons, encTok, ih r r' h, stripTok]
    | comment s => simp only [depthAfter] at h; simp [encode_cons, encTok, ih r r' h, stripTok]
    | procInst a b => simp only [depthAfter] at h; simp [encode_cons, encTok, ih r r' h, stripTok]
    | directive s => simp only [depthAfter] at h; simp [encode_cons, encTok, ih r r' h, stripTok]

/-- the encoder never changes the kind of a token, so nesting is preserved -/
theorem depthAfter_encode (cfg : Cfg) (f : String) (ts : List Tok) :
    ∀ (d : Int) (k : Nat), depthAfter k (encode cfg f d ts).2 = depthAfter k ts := by
  induction ts with
  | nil => intro d k; rfl
  | cons t ts ih =>
    intro d k
    cases t with
    | start n as =>
      simp only [encode_cons, encTok, encStart]
      split <;> simp [depthAfter, ih]
    | stop n =>
      simp only [encode_cons, encTok, encStop]
      cases k with
      | zero => split <;> simp [depthAfter]
      | succ k => split <;> simp [depthAfter, ih]
    | chars s => simp [encode_cons, encTok, depthAfter, ih]
    | comment s => simp [encode_cons, encTok, depthAfter, ih]
    | procInst a b => simp [encode_cons, encTok, depthAfter, ih]
    | directive s => simp [encode_cons, encTok, depthAfter, ih]

theorem inner_balanced (body rest : List Tok) :
    ∀ (r r' : Nat), depthAfter r body = some r' → inner r (body ++ rest) = body ++ inner r' rest := by
  induction body with
  | nil => intro r r' h; simp [depthAfter] at h; simp [h]
  | cons t ts ih =>
    intro r r' h
    cases t with
    | start n as => simp only [depthAfter] at h; simp [inner, ih _ _ h]
    | stop n =>
      cases r with
      | zero => simp [depthAfter] at h
      | succ k => simp only [depthAfter] at h; simp [inner, ih _ _ h]
    | chars s => simp only [depthAfter] at h; simp [inner, ih _ _ h]
    | comment s => simp only [depthAfter] at h; simp [inner, ih _ _ h]
    | procInst a b => simp only [depthAfter] at h; simp [inner, ih _ _ h]
    | directive s => simp only [depthAfter] at h; simp [inner, ih _ _ h]

theorem replaceOuter_balanced (n : Name) (as : List Attr) (body rest : List Tok) :
    ∀ (r r' : Nat), depthAfter r body = some r' →
      replaceOuter n as (r + 1) (body ++ rest) = body ++ replaceOuter n as (r' + 1) rest := by
  induction body with
  | nil => intro r r' h; simp [depthAfter] at h; simp [h]
  | cons t ts ih =>
    intro r r' h
    cases t with
    | start m own => simp only [depthAfter] at h; simp [replaceOuter, ih _ _ h]
    | stop m =>
      cases r with
      | zero => simp [depthAfter] at h
      | succ k => simp only [depthAfter] at h; simp [replaceOuter, ih _ _ h]
    | chars s => simp only [depthAfter] at h; simp [replaceOuter, ih _ _ h]
    | comment s => simp only [depthAfter] at h; simp [replaceOuter, ih _ _ h]
    | procInst a b => simp only [depthAfter] at h; simp [replaceOuter, ih _ _ h]
    | directive s => simp only [depthAfter] at h; simp [replaceOuter, ih _ _ h]

end XmppModel.Encoder

namespace XmppModel.Encoder
open XmppModel.Xml

/-- nesting is translation invariant: a list that takes depth `r` to `r'` takes `r + k` to `r' + k` -/
theorem depthAfter_shift (p : List Tok) : ∀ (r r' k : Nat), depthAfter r p = some r' →
    depthAfter (r + k) p = some (r' + k) := by
  induction p with
  | nil => intro r r' k h; simp [depthAfter] at h; simp [depthAfter, h]
  | cons t ts ih =>
    intro r r' k h
    cases t with
    | start n as =>
      simp only [depthAfter] at h ⊢
      have := ih (r + 1) r' k h
      have e : r + 1 + k = r + k + 1 := by omega
      rw [e] at this; exact this
    | stop n =>
      cases r with
      | zero => simp [depthAfter] at h
      | succ j =>
        simp only [depthAfter] at h
        have := ih j r' k h
        have e : j + 1 + k = (j + k) + 1 := by omega
        rw [e]; simp only [depthAfter]; exact this
    | chars s => simp only [depthAfter] at h ⊢; exact ih r r' k h
    | comment s => simp only [depthAfter] at h ⊢; exact ih r r' k h
    | procInst a b => simp only [depthAfter] at h ⊢; exact ih r r' k h
    | directive s => simp only [depthAfter] at h ⊢; exact ih r r' k h

end XmppModel.Encoder

namespace XmppModel.Encoder
open XmppModel.Xml

theorem depthAfter_append (a b : List Tok) :
    ∀ d, depthAfter d (a ++ b) = (depthAfter d a).bind fun d' => depthAfter d' b := by
  induction a with
  | nil => intro d; simp [depthAfter]
  | cons t ts ih =>
    intro d
    cases t with
    | start n as => simp [depthAfter, ih]
    | stop n => cases d <;> simp [depthAfter, ih]
    | chars s => simp [depthAfter, ih]
    | comment s => simp [depthAfter, ih]
    | procInst x y => simp [depthAfter, ih]
    | directive s => simp [depthAfter, ih]

/-- the encoder's depth counter follows the nesting of what it is given -/
theorem encode_fst (cfg : Cfg) (f : String) (ts : List Tok) :
    ∀ (d : Int) (r r' : Nat), depthAfter r ts = some r' → (encode cfg f d ts).1 = d + r' - r := by
  induction ts with
  | nil => intro d r r' h; simp [depthAfter] at h; simp [encode_nil, h]
  | cons t ts ih =>
    intro d r r' h
    cases t with
    | start n as =>
      simp only [depthAfter] at h
      have := ih (d + 1) (r + 1) r' h
      simp only [encode_cons, encTok]; rw [this]; omega
    | stop n =>
      cases r with
      | zero => simp [depthAfter] at h
      | succ k =>
        simp only [depthAfter] at h
        have := ih (d - 1) k r' h
        simp only [encode_cons, encTok]; rw [this]; omega
    | chars s => simp only [depthAfter] at h; simp only [encode_cons, encTok]; exact ih d r r' h
    | comment s => simp only [depthAfter] at h; simp only [encode_cons, encTok]; exact ih d r r' h
    | procInst a b => simp only [depthAfter] at h; simp only [encode_cons, encTok]; exact ih d r r' h
    | directive s => simp only [depthAfter] at h; simp only [encode_cons, encTok]; exact ih d r r' h

/-- a complete element is balanced as a token list -/
theorem element_balanced (n m : Name) (as : List Attr) (body : List Tok) (hb : depthAfter 0 body = some 0) :
    depthAfter 0 (.start n as :: body ++ [.stop m]) = some 0 := by
  have h1 := depthAfter_shift body 0 0 1 hb
  simp only [List.cons_append, depthAfter]
  rw [depthAfter_append]
  simp at h1
  simp [h1, depthAfter]

/-- a proper, non-empty prefix of a complete element leaves at least one element open -/
theorem prefix_open (n m : Name) (as : List Attr) (body : List Tok) (hb : depthAfter 0 body = some 0)
    (k : Nat) (hk : 0 < k) (hk2 : k < (Tok.start n as :: body ++ [Tok.stop m]).length) :
    ∃ r, depthAfter 0 ((Tok.start n as :: body ++ [Tok.stop m]).take k) = some (r + 1) := by
  obtain ⟨j, rfl⟩ : ∃ j, k = j + 1 := ⟨k - 1, by omega⟩
  have hj : j ≤ body.length := by simp at hk2; omega
  simp only [List.cons_append, List.take_succ_cons, depthAfter]
  rw [List.take_append_of_le_length hj]
  have hsplit : body = body.take j ++ body.drop j := (List.take_append_drop j body).symm
  have h2 := hb
  rw [hsplit, depthAfter_append] at h2
  cases hp : depthAfter 0 (body.take j) with
  | none => rw [hp] at h2; simp at h2
  | some r =>
    refine ⟨r, ?_⟩
    have := depthAfter_shift (body.take j) 0 r 1 hp
    simpa using this

end XmppModel.Encoder
