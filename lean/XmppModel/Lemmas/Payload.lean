import XmppModel.Model.Payload
/-! Helper lemmas for C19: nesting depth over concatenation, trees flatten to balanced
streams, the parser inverts `flatten`, skeleton soundness. -/
namespace XmppModel.Payload
open XmppModel XmppModel.Xml

theorem depthAfter_append (d : Nat) (a b : List Tok) :
    depthAfter d (a ++ b) = (depthAfter d a).bind (fun e => depthAfter e b) := by
  induction a generalizing d with
  | nil => simp [depthAfter]
  | cons t ts ih =>
    cases t with
    | start n as => simp [depthAfter, ih]
    | stop n =>
      cases d with
      | zero => simp [depthAfter]
      | succ d => simp [depthAfter, ih]
    | chars s => simp [depthAfter, ih]
    | comment s => simp [depthAfter, ih]
    | procInst t i => simp [depthAfter, ih]
    | directive s => simp [depthAfter, ih]

/-- a stream that keeps depth `d` keeps every larger depth -/
theorem depthAfter_shift (k : Nat) : ∀ (d e : Nat) (ts : List Tok),
    depthAfter d ts = some e → depthAfter (d + k) ts = some (e + k) := by
  intro d e ts
  induction ts generalizing d with
  | nil => intro h; simp [depthAfter] at h ⊢; omega
  | cons t ts ih =>
    cases t with
    | start n as =>
      intro h; simp only [depthAfter] at h ⊢
      have := ih (d + 1) h
      rw [show d + k + 1 = d + 1 + k by omega]; exact this
    | stop n =>
      cases d with
      | zero => intro h; simp [depthAfter] at h
      | succ d =>
        intro h; simp only [depthAfter] at h
        have := ih d h
        rw [show d + 1 + k = (d + k) + 1 by omega]; simp only [depthAfter]; exact this
    | chars s => intro h; simp only [depthAfter] at h ⊢; exact ih d h
    | comment s => intro h; simp only [depthAfter] at h ⊢; exact ih d h
    | procInst t i => intro h; simp only [depthAfter] at h ⊢; exact ih d h
    | directive s => intro h; simp only [depthAfter] at h ⊢; exact ih d h

theorem depthAfter_of_balanced {ts : List Tok} (h : balanced ts = true) (d : Nat) :
    depthAfter d ts = some d := by
  have h0 : depthAfter 0 ts = some 0 := by
    simpa [balanced] using h
  simpa using depthAfter_shift d 0 0 ts h0

theorem balanced_of_depth {ts : List Tok} (h : depthAfter 0 ts = some 0) : balanced ts = true := by
  simp [balanced, h]

/-- wrapping a depth-preserving stream in a start/end pair preserves depth -/
theorem depthAfter_wrap (n : Name) (as : List Attr) (ts : List Tok)
    (h : ∀ d, depthAfter d ts = some d) (d : Nat) :
    depthAfter d (Tok.start n as :: ts ++ [Tok.stop n]) = some d := by
  simp only [List.cons_append, depthAfter]
  rw [depthAfter_append, h (d + 1)]
  simp [depthAfter]

mutual
theorem depthAfter_flatten (n : Node) (d : Nat) : depthAfter d (flatten n) = some d := by
  cases n with
  | elem name as ks =>
    simp only [flatten]
    exact depthAfter_wrap name as (flattenL ks) (depthAfter_flattenL ks) d
  | text s => simp [flatten, depthAfter]
theorem depthAfter_flattenL (ns : List Node) (d : Nat) : depthAfter d (flattenL ns) = some d := by
  cases ns with
  | nil => simp [flattenL, depthAfter]
  | cons k ks =>
    simp only [flattenL]
    rw [depthAfter_append, depthAfter_flatten k d]
    simpa using depthAfter_flattenL ks d
end

mutual
theorem parseAux_flatten (n : Node) (stk : List Frame) (acc : List Node) (rest : List Tok) :
    parseAux stk acc (flatten n ++ rest) = parseAux stk (n :: acc) rest := by
  cases n with
  | elem name as ks =>
    simp only [flatten, List.cons_append, List.append_assoc, List.nil_append]
    rw [parseAux]
    rw [parseAux_flattenL ks (⟨name, as, acc⟩ :: stk) [] (Tok.stop name :: rest)]
    simp [parseAux]
  | text s =>
    simp only [flatten, List.cons_append, List.nil_append]
    rw [parseAux]
theorem parseAux_flattenL (ns : List Node) (stk : List Frame) (acc : List Node) (rest : List Tok) :
    parseAux stk acc (flattenL ns ++ rest) = parseAux stk (ns.reverse ++ acc) rest := by
  cases ns with
  | nil => simp [flattenL]
  | cons k ks =>
    simp only [flattenL, List.append_assoc]
    rw [parseAux_flatten k stk acc (flattenL ks ++ rest), parseAux_flattenL ks stk (k :: acc) rest]
    simp
end

theorem parse_flattenL (ns : List Node) : parse (flattenL ns) = some ns := by
  have := parseAux_flattenL ns [] [] []
  simp only [List.append_nil] at this
  simp [parse, this, parseAux]

/-- skeleton soundness, in the depth-preserving form used for induction -/
theorem gen_depth {s : Skel} {ts : List Tok} (hg : Gen s ts) :
    balancedSkel s = true → ∀ d, depthAfter d ts = some d := by
  induction hg with
  | empty => intro _ d; simp [depthAfter]
  | chars s => intro _ d; simp [depthAfter]
  | wrap n as _ ih =>
    intro hb d
    exact depthAfter_wrap n as _ (ih (by simpa [balancedSkel] using hb)) d
  | seq _ _ iha ihb =>
    intro hb d
    simp only [balancedSkel, Bool.and_eq_true] at hb
    rw [depthAfter_append, iha hb.1 d]
    simpa using ihb hb.2 d
  | manyNil => intro _ d; simp [depthAfter]
  | manyCons _ _ iha ihb =>
    intro hb d
    rw [depthAfter_append, iha (by simpa [balancedSkel] using hb) d]
    simpa using ihb hb d
  | altL _ ih =>
    intro hb d
    simp only [balancedSkel, Bool.and_eq_true] at hb
    exact ih hb.1 d
  | altR _ ih =>
    intro hb d
    simp only [balancedSkel, Bool.and_eq_true] at hb
    exact ih hb.2 d
  | ext h => intro _ d; exact depthAfter_of_balanced h d
  | startTok n as => intro hb; simp [balancedSkel] at hb
  | stopTok n => intro hb; simp [balancedSkel] at hb
  | unknown ts => intro hb; simp [balancedSkel] at hb

end XmppModel.Payload
