import XmppModel.Model.Payload
/-! Helper lemmas for C19: nesting depth over concatenation, trees flatten to balanced
streams, the parser inverts `flatten`, skeleton soundness. -/
namespace XmppModel.Payload
open XmppModel XmppModel.Xml

theorem depthAfter_append (d : Nat) (a b : List Tok) :
    depthAfter d (a ++ b) = (depthAfter d a).bind (fun e => depthAfter e b) := by
  induction a generalizing d with
  | nil => simp [depthAfter]
  | cons t ts ih =>
    cases t with
    | start n as => simp [depthAfter, ih]
    | stop n =>
      cases d with
      | zero => simp [depthAfter]
      | succ d => simp [depthAfter, ih]
    | chars s => simp [depthAfter, ih]
    | comment s => simp [depthAfter, ih]
    | procInst t i => simp [depthAfter, ih]
    | directive s => simp [depthAfter, ih]

/-- a stream that keeps depth `d` keeps every larger depth -/
theorem depthAfter_shift (k : Nat) : ∀ (d e : Nat) (ts : List Tok),
    depthAfter d ts = some e → depthAfter (d + k) ts = some (e + k) := by
  intro d e ts
  induction ts generalizing d with
  | nil => intro h; simp [depthAfter] at h ⊢; omega
  | cons t ts ih =>
    cases t with
    | start n as =>
      intro h; simp only [depthAfter] at h ⊢
      have := ih (d + 1) h
      rw [show d + k + 1 = d + 1 + k by omega]; exact this
    | stop n =>
      cases d with
      | zero => intro h; simp [depthAfter] at h
      | succ d =>
        intro h; simp only [depthAfter] at h
        have := ih d h
        rw [show d + 1 + k = (d + k) + 1 by omega]; simp only [depthAfter]; exact this
    | chars s => intro h; simp only [depthAfter] at h ⊢; exact ih d h
    | comment s => intro h; simp only [depthAfter] at h ⊢; exact ih d h
    | procInst t i => intro h; simp only [depthAfter] at h ⊢; exact ih d h
    | directive s => intro h; simp only [depthAfter] at h ⊢; exact ih d h

theorem depthAfter_of_balanced {ts : List Tok} (h : balanced ts = true) (d : Nat) :
    depthAfter d ts = some d := by
  have h0 : depthAfter 0 ts = some 0 := by
    simpa [balanced] using h
  simpa using depthAfter_shift d 0 0 ts h0

theorem balanced_of_depth {ts : List Tok} (h : depthAfter 0 ts = some 0) : balanced ts = true := by
  simp [balanced, h]

/-- wrapping a depth-preserving stream in a start/end pair preserves depth -/
theorem depthAfter_wrap (n : Name) (as : List Attr) (ts : List Tok)
    (h : ∀ d, depthAfter d ts = some d) (d : Nat) :
    depthAfter d (Tok.start n as :: ts ++ [Tok.stop n]) = some d := by
  simp only [List.cons_append, depthAfter]
  rw [depthAfter_append, h (d + 1)]
  simp [depthAfter]

mutual
theorem depthAfter_flatten (n : Node) (d : Nat) : depthAfter d (flatten n) = some d := by
  cases n with
  | elem name as ks =>
    simp only [flatten]
    exact depthAfter_wrap name as (flattenL ks) (depthAfter_flattenL ks) d
  | text s => simp [flatten, depthAfter]
theorem depthAfter_flattenL (ns : List Node) (d : Nat) : depthAfter d (flattenL ns) = some d := by
  cases ns with
  | nil => simp [flattenL, depthAfter]
  | cons k ks =>
    simp only [flattenL]
    rw [depthAfter_append, depthAfter_flatten k d]
    simpa using depthAfter_flattenL ks d
end

mutual
theorem parseAux_flatten (n : Node) (stk : List Frame) (acc : List Node) (rest : List Tok) :
    parseAux stk acc (flatten n ++ rest) = parseAux stk (n :: acc) rest := by
  cases n with
  | elem name as ks =>
    simp only [flatten, List.cons_append, List.append_assoc, List.nil_append]
    rw [parseAux]
    rw [parseAux_flattenL ks (⟨name, as, acc⟩ :: stk) [] (Tok.stop name :: rest)]
    simp [parseAux]
  | text s =>
    simp only [flatten, List.cons_append, List.nil_append]
    rw [parseAux]
theorem parseAux_flattenL (ns : List Node) (stk : List Frame) (acc : List Node) (rest : List Tok) :
    parseAux stk acc (flattenL ns ++ rest) = parseAux stk (ns.reverse ++ acc) rest := by
  cases ns with
  | nil => simp [flattenL]
  | cons k ks =>
    simp only [flattenL, List.append_assoc]
    rw [parseAux_flatten k stk acc (flattenL ks ++ rest), parseAux_flattenL ks stk (k :: acc) rest]
    simp
end

theorem parse_flattenL (ns : List Node) : parse (flattenL ns) = some ns := by
  have := parseAux_flattenL ns [] [] []
  simp only [List.append_nil] at this
  simp [parse, this, parseAux]

/-- skeleton soundness, in the depth-preserving form used for induction -/
theorem gen_depth {s : Skel} {ts : List Tok} (hg : Gen s ts) :
    balancedSkel s = true → ∀ d, depthAfter d ts = some d := by
  induction hg with
  | empty => intro _ d; simp [depthAfter]
  | chars s => intro _ d; simp [depthAfter]
  | wrap n as _ ih =>
    intro hb d
    exact depthAfter_wrap n as _ (ih (by simpa [balancedSkel] using hb)) d
  | seq _ _ iha ihb =>
    intro hb d
    simp only [balancedSkel, Bool.and_eq_true] at hb
    rw [depthAfter_append, iha hb.1 d]
    simpa using ihb hb.2 d
  | manyNil => intro _ d; simp [depthAfter]
  | manyCons _ _ iha ihb =>
    intro hb d
    rw [depthAfter_append, iha (by simpa [balancedSkel] using hb) d]
    simpa using ihb hb d
  | altL _ ih =>
    intro hb d
    simp only [balancedSkel, Bool.and_eq_true] at hb
    exact ih hb.1 d
  | altR _ ih =>
    intro hb d
    simp only [balancedSkel, Bool.and_eq_true] at hb
    exact ih hb.2 d
  | ext h => intro _ d; exact depthAfter_of_balanced h d
  | startTok n as => intro hb; simp [balancedSkel] at hb
  | stopTok n => intro hb; simp [balancedSkel] at hb
  | unknown ts => intro hb; simp [balancedSkel] at hb

/-! ### soundness of the skeleton matcher -/

/-- `r` is what is left of `ts` after a prefix the skeleton can produce -/
def Pre (s : Skel) (ts r : List Tok) : Prop := ∃ pre, ts = pre ++ r ∧ Gen s pre

theorem mem_dedupLen {x : List Tok} {l : List (List Tok)} (h : x ∈ dedupLen l) : x ∈ l := by
  induction l with
  | nil => simp [dedupLen] at h
  | cons y ys ih =>
    simp only [dedupLen, List.foldr_cons] at h
    split at h
    · exact List.mem_cons_of_mem _ (ih h)
    · rcases List.mem_cons.mp h with rfl | h'
      · simp
      · exact List.mem_cons_of_mem _ (ih h')

theorem gen_many_snoc {s : Skel} {p : List Tok} (hp : Gen (.many s) p) :
    ∀ q, Gen s q → Gen (.many s) (p ++ q) := by
  generalize hm : Skel.many s = m at hp
  induction hp with
  | manyNil =>
    intro q hq
    cases hm
    have := Gen.manyCons hq (Gen.manyNil (s := s))
    simpa using this
  | manyCons h1 _ _ ih2 =>
    intro q hq
    cases hm
    have := Gen.manyCons h1 (ih2 rfl q hq)
    simpa [List.append_assoc] using this
  | empty => cases hm
  | chars _ => cases hm
  | wrap _ _ _ => cases hm
  | seq _ _ => cases hm
  | altL _ => cases hm
  | altR _ => cases hm
  | ext _ => cases hm
  | startTok _ _ => cases hm
  | stopTok _ => cases hm
  | unknown _ => cases hm

theorem balRests_sound : ∀ (ts : List Tok) (d : Nat) (r : List Tok), r ∈ balRests d ts →
    ∃ pre, ts = pre ++ r ∧ depthAfter d pre = some 0 := by
  intro ts
  induction ts with
  | nil =>
    intro d r h
    simp only [balRests] at h
    split at h
    · simp only [List.mem_singleton] at h; subst h; subst_vars; exact ⟨[], rfl, by simp [depthAfter]⟩
    · simp at h
  | cons t rest ih =>
    intro d r h
    simp only [balRests, List.mem_append] at h
    rcases h with h | h
    · split at h
      · simp only [List.mem_singleton] at h; subst h; subst_vars; exact ⟨[], rfl, by simp [depthAfter]⟩
      · simp at h
    · cases t with
      | start n as =>
        obtain ⟨pre, h1, h2⟩ := ih (d + 1) r h
        exact ⟨Tok.start n as :: pre, by simp [h1], by simpa [depthAfter] using h2⟩
      | stop n =>
        simp only at h
        split at h
        · simp at h
        · rename_i hd
          obtain ⟨pre, h1, h2⟩ := ih (d - 1) r h
          refine ⟨Tok.stop n :: pre, by simp [h1], ?_⟩
          cases d with
          | zero => exact absurd rfl hd
          | succ d => simpa [depthAfter] using h2
      | chars c =>
        obtain ⟨pre, h1, h2⟩ := ih d r h
        exact ⟨Tok.chars c :: pre, by simp [h1], by simpa [depthAfter] using h2⟩
      | comment c =>
        obtain ⟨pre, h1, h2⟩ := ih d r h
        exact ⟨Tok.comment c :: pre, by simp [h1], by simpa [depthAfter] using h2⟩
      | procInst a b =>
        obtain ⟨pre, h1, h2⟩ := ih d r h
        exact ⟨Tok.procInst a b :: pre, by simp [h1], by simpa [depthAfter] using h2⟩
      | directive c =>
        obtain ⟨pre, h1, h2⟩ := ih d r h
        exact ⟨Tok.directive c :: pre, by simp [h1], by simpa [depthAfter] using h2⟩

theorem suffixes_sound : ∀ (ts r : List Tok), r ∈ suffixes ts → ∃ pre, ts = pre ++ r := by
  intro ts
  induction ts with
  | nil => intro r h; simp [suffixes] at h; exact ⟨[], by simp [h]⟩
  | cons t rest ih =>
    intro r h
    simp only [suffixes, List.mem_cons] at h
    rcases h with rfl | h
    · exact ⟨[], rfl⟩
    · obtain ⟨pre, hp⟩ := ih r h
      exact ⟨t :: pre, by simp [hp]⟩

theorem manyLoop_inv (P : List Tok → Prop) (step : List Tok → List (List Tok))
    (hstep : ∀ x y, P x → y ∈ step x → P y) :
    ∀ (k : Nat) (frontier seen : List (List Tok)), (∀ x ∈ frontier, P x) → (∀ x ∈ seen, P x) →
      ∀ r ∈ manyLoop step k frontier seen, P r := by
  intro k
  induction k with
  | zero => intro frontier seen _ hs r hr; simp only [manyLoop] at hr; exact hs r hr
  | succ k ih =>
    intro frontier seen hf hs r hr
    simp only [manyLoop] at hr
    split at hr
    · exact hs r hr
    · have hnext : ∀ x ∈ (dedupLen (frontier.flatMap step)).filter
          (fun r => !seen.any (·.length == r.length)), P x := by
        intro x hx
        have hx' := mem_dedupLen (List.mem_filter.mp hx).1
        obtain ⟨y, hy, hxy⟩ := List.mem_flatMap.mp hx'
        exact hstep y x (hf y hy) hxy
      apply ih _ _ hnext _ r hr
      intro x hx
      rcases List.mem_append.mp hx with h | h
      · exact hs x h
      · exact hnext x h

theorem matchS_sound : ∀ (f : Nat) (s : Skel) (ts r : List Tok), r ∈ matchS f s ts → Pre s ts r := by
  intro f
  induction f with
  | zero => intro s ts r h; simp [matchS] at h
  | succ f ih =>
    intro s ts r h
    cases s with
    | empty =>
      simp only [matchS, List.mem_singleton] at h; subst h
      exact ⟨[], rfl, Gen.empty⟩
    | chars =>
      simp only [matchS] at h
      split at h
      · simp only [List.mem_singleton] at h; subst h
        exact ⟨[Tok.chars _], rfl, Gen.chars _⟩
      · simp at h
    | wrap i =>
      simp only [matchS] at h
      split at h
      · rename_i n as r0
        have h' := mem_dedupLen h
        obtain ⟨r', hr', hsome⟩ := List.mem_filterMap.mp h'
        split at hsome
        · rename_i m r''
          split at hsome
          · rename_i hmn
            simp only [Option.some.injEq] at hsome; subst hsome; subst hmn
            obtain ⟨pre, h1, h2⟩ := ih i r0 _ hr'
            exact ⟨Tok.start m as :: pre ++ [Tok.stop m], by simp [h1], Gen.wrap m as h2⟩
          · simp at hsome
        · simp at hsome
      · simp at h
    | seq a b =>
      simp only [matchS] at h
      obtain ⟨r1, hr1, hr⟩ := List.mem_flatMap.mp (mem_dedupLen h)
      obtain ⟨p1, e1, g1⟩ := ih a ts r1 hr1
      obtain ⟨p2, e2, g2⟩ := ih b r1 r hr
      exact ⟨p1 ++ p2, by simp [e1, e2], Gen.seq g1 g2⟩
    | many s =>
      simp only [matchS] at h
      refine manyLoop_inv (Pre (.many s) ts) (matchS f s) ?_ (ts.length + 1) [ts] [ts] ?_ ?_ r h
      · intro x y hx hy
        obtain ⟨p, e1, g1⟩ := hx
        obtain ⟨q, e2, g2⟩ := ih s x y hy
        exact ⟨p ++ q, by simp [e1, e2], gen_many_snoc g1 q g2⟩
      · intro x hx; simp only [List.mem_singleton] at hx; subst hx; exact ⟨[], rfl, Gen.manyNil⟩
      · intro x hx; simp only [List.mem_singleton] at hx; subst hx; exact ⟨[], rfl, Gen.manyNil⟩
    | alt a b =>
      simp only [matchS] at h
      rcases List.mem_append.mp (mem_dedupLen h) with h1 | h1
      · obtain ⟨p, e, g⟩ := ih a ts r h1; exact ⟨p, e, Gen.altL g⟩
      · obtain ⟨p, e, g⟩ := ih b ts r h1; exact ⟨p, e, Gen.altR g⟩
    | ext =>
      simp only [matchS] at h
      obtain ⟨pre, e, hd⟩ := balRests_sound ts 0 r h
      exact ⟨pre, e, Gen.ext (balanced_of_depth hd)⟩
    | startTok =>
      simp only [matchS] at h
      split at h
      · simp only [List.mem_singleton] at h; subst h
        exact ⟨[Tok.start _ _], rfl, Gen.startTok _ _⟩
      · simp at h
    | stopTok =>
      simp only [matchS] at h
      split at h
      · simp only [List.mem_singleton] at h; subst h
        exact ⟨[Tok.stop _], rfl, Gen.stopTok _⟩
      · simp at h
    | unknown =>
      simp only [matchS] at h
      obtain ⟨pre, e⟩ := suffixes_sound ts r h
      exact ⟨pre, e, Gen.unknown pre⟩

theorem accepts_sound (s : Skel) (ts : List Tok) (h : accepts s ts = true) : Gen s ts := by
  simp only [accepts, List.any_eq_true] at h
  obtain ⟨r, hr, he⟩ := h
  obtain ⟨pre, e, g⟩ := matchS_sound _ s ts r hr
  have : r = [] := by simpa using he
  subst this
  simpa [e] using g

end XmppModel.Payload
