import XmppModel.Lemmas.StylingStable
import XmppModel.Lemmas.StylingStyle
/-! The unread-input invariant of the span stack (C17, whole-run bracket discipline). -/
namespace XmppModel.Styling

/-- the spans on the stack (innermost first) can all be closed in the unread input `R` before
its first newline: the closer of the innermost span comes first, before any newline, any
earlier occurrence of itself, and any byte equal to a span below it; after it the same
holds for the rest of the stack -/
def Closable : List UInt8 → Bytes → Prop
  | [], _ => True
  | top :: below, R => ∃ p post, R = p ++ top :: post ∧ nl ∉ p ∧ top ∉ p ∧ (∀ z ∈ below, z ∉ p) ∧
      Closable below post

theorem closable_drop_prefix {S : List UInt8} {x y : Bytes} (h : Closable S (x ++ y))
    (hx : ∀ top, S.head? = some top → top ∉ x) : Closable S y := by
  cases S with
  | nil => trivial
  | cons top below =>
    obtain ⟨p, post, hR, h1, h2, h3, h4⟩ := h
    have hx' := hx top rfl
    rcases List.append_eq_append_iff.mp hR with ⟨a', hp, hy⟩ | ⟨c', hxp, hpost⟩
    · refine ⟨a', post, hy, ?_, ?_, ?_, h4⟩
      · intro hm; exact h1 (by rw [hp]; simp [hm])
      · intro hm; exact h2 (by rw [hp]; simp [hm])
      · intro z hz hm; exact h3 z hz (by rw [hp]; simp [hm])
    · cases c' with
      | nil =>
        simp only [List.nil_append] at hpost
        exact ⟨[], post, hpost.symm, by simp, by simp, by simp, h4⟩
      | cons c c'' =>
        simp only [List.cons_append, List.cons.injEq] at hpost
        exfalso; apply hx'
        rw [hxp, ← hpost.1]; simp

/-- a prefix of the unread input without the innermost closer contains no newline and no
byte of the spans below -/
theorem closable_prefix_clean {top : UInt8} {below : List UInt8} {x y : Bytes}
    (h : Closable (top :: below) (x ++ y)) (hx : top ∉ x) : nl ∉ x ∧ ∀ z ∈ below, z ∉ x := by
  obtain ⟨p, post, hR, h1, h2, h3, _⟩ := h
  have hpre : ∃ a', p = x ++ a' := by
    rcases List.append_eq_append_iff.mp hR with ⟨a', hp, _⟩ | ⟨c', hxp, hpost⟩
    · exact ⟨a', hp⟩
    · cases c' with
      | nil => exact ⟨[], by simpa using hxp.symm⟩
      | cons c c'' =>
        simp only [List.cons_append, List.cons.injEq] at hpost
        exfalso; apply hx; rw [hxp, ← hpost.1]; simp
  obtain ⟨a', hp⟩ := hpre
  refine ⟨fun hm => h1 (by rw [hp]; simp [hm]), fun z hz hm => h3 z hz (by rw [hp]; simp [hm])⟩

theorem closable_mem {top : UInt8} {below : List UInt8} {R : Bytes} (h : Closable (top :: below) R) :
    top ∈ R := by
  obtain ⟨p, post, hR, _⟩ := h
  rw [hR]; simp

theorem closable_pop {b : UInt8} {below : List UInt8} {rest : Bytes} (h : Closable (b :: below) (b :: rest)) :
    Closable below rest := by
  obtain ⟨p, post, hR, _, h2, _, h4⟩ := h
  cases p with
  | nil => simp only [List.nil_append, List.cons.injEq, true_and] at hR; rw [hR]; exact h4
  | cons c p' =>
    simp only [List.cons_append, List.cons.injEq] at hR
    exfalso; apply h2; rw [← hR.1]; simp

theorem exists_first_occ {b : UInt8} {l : Bytes} (h : b ∈ l) : ∃ p q, l = p ++ b :: q ∧ b ∉ p := by
  induction l with
  | nil => simp at h
  | cons c l ih =>
    by_cases hc : c = b
    · exact ⟨[], l, by simp [hc], by simp⟩
    · have : b ∈ l := by
        simp only [List.mem_cons] at h
        rcases h with h | h
        · exact absurd h.symm hc
        · exact h
      obtain ⟨p, q, hl, hp⟩ := ih this
      refine ⟨c :: p, q, by simp [hl], ?_⟩
      simp only [List.mem_cons, not_or]
      exact ⟨fun hb => hc hb.symm, hp⟩

/-- opening a span whose closer was found at the end of `mid`: the enlarged stack is closable
in what follows the opening directive -/
theorem closable_push {S : List UInt8} {b : UInt8} {mid rest : Bytes}
    (h : Closable S (b :: mid ++ b :: rest)) (hnl : nl ∉ mid) (hS : ∀ z ∈ S, z ∉ b :: mid)
    (hb : ∀ top, S.head? = some top → top ≠ b) :
    Closable (b :: S) (mid ++ b :: rest) := by
  obtain ⟨p1, q1, hsplit, hp1⟩ := exists_first_occ (b := b) (l := mid ++ b :: rest) (by simp)
  have hpre : ∃ a', mid = p1 ++ a' := by
    rcases List.append_eq_append_iff.mp hsplit with ⟨a', hp, _⟩ | ⟨c', hxp, hpost⟩
    · cases a' with
      | nil => exact ⟨[], by simpa using hp.symm⟩
      | cons c a'' =>
        rename_i hq
        simp only [List.cons_append, List.cons.injEq] at hq
        exfalso; apply hp1; rw [hp, hq.1]; simp
    · exact ⟨c', hxp⟩
  obtain ⟨a', hmid⟩ := hpre
  have hsub : ∀ z, z ∈ p1 → z ∈ mid := fun z hz => by rw [hmid]; simp [hz]
  refine ⟨p1, q1, hsplit, fun hm => hnl (hsub _ hm), hp1, ?_, ?_⟩
  · intro z hz hm
    exact hS z hz (by simp [hsub z hm])
  · -- what follows the closer is the old input minus a prefix without the old innermost closer
    have hR : b :: mid ++ b :: rest = (b :: p1 ++ [b]) ++ q1 := by
      simp only [List.cons_append, List.append_assoc, List.cons.injEq, true_and]
      exact hsplit
    rw [hR] at h
    apply closable_drop_prefix h
    intro top htop hm
    have hz := hS top (by cases S with | nil => simp at htop | cons t _ => simp at htop; simp [htop])
    simp only [List.cons_append, List.mem_cons, List.mem_append, List.not_mem_nil, or_false] at hm
    rcases hm with hm | hm | hm
    · exact hb top htop hm
    · exact hz (by simp [hsub top hm])
    · exact hb top htop hm

/-! ### the span loop keeps the stack closable -/

section
variable (lv : Level) (i : Nat) (rpre : Bytes) (sidx : Option Nat) (sdir b : UInt8) (n m : Bool)

theorem step_line (h : spanStep lv i rpre sidx sdir b n m = .line) : b = nl := by
  unfold spanStep at h
  repeat' (split at h)
  all_goals simp_all

theorem step_close (h : spanStep lv i rpre sidx sdir b n m = .closeTok) :
    b ≠ nl ∧ lv.spanStack.head? = some b ∧ i = 0 := by
  unfold spanStep at h
  repeat' (split at h)
  all_goals simp_all

theorem step_inner (h : spanStep lv i rpre sidx sdir b n m = .innerTok) :
    b ≠ nl ∧ lv.spanStack.head? = some b ∧ i ≠ 0 := by
  unfold spanStep at h
  repeat' (split at h)
  all_goals simp_all

theorem step_plain {s : Nat} (h : spanStep lv i rpre sidx sdir b n m = .plainTok s) :
    b ≠ nl ∧ sidx = some (s + 1) := by
  unfold spanStep at h
  repeat' (split at h)
  all_goals simp_all

theorem step_open (h : spanStep lv i rpre sidx sdir b n m = .openTok) :
    b ≠ nl ∧ isDirective b = true ∧ lv.spanStack.head? ≠ some b ∧ b = sdir ∧
      (sidx = none ∨ sidx = some 0) ∧ (sidx = some 0 → 1 < i) := by
  unfold spanStep at h
  repeat' (split at h)
  all_goals simp_all
  rename_i s _ _ _ _ hlt hs
  cases s with
  | zero => exact ⟨rfl, fun _ => by omega⟩
  | succ k => exact absurd rfl (hs k)

theorem step_cont {s' : Option Nat} {d' : UInt8} (h : spanStep lv i rpre sidx sdir b n m = .cont s' d') :
    b ≠ nl ∧ (isDirective b = true → lv.spanStack.head? ≠ some b) ∧
      ((s' = sidx ∧ d' = sdir) ∨ (s' = some i ∧ d' = b ∧ sidx = none ∧ isDirective b = true)) := by
  unfold spanStep at h
  repeat' (split at h)
  all_goals simp_all
end

/-- what holds after a span-scanner call on the whole unread input `R` (at EOF) -/
structure BracketPost (S : List UInt8) (lv' : Level) (R : Bytes) (o : Out) : Prop where
  tok : ∃ a t, o = .tok a t ∧ t = R.take a ∧ Closable lv'.spanStack (R.drop a) ∧
    ((S ≠ [] ∨ lv'.spanStack ≠ []) → nl ∉ t)
  nodup : lv'.spanStack.Nodup
  dir : ∀ z ∈ lv'.spanStack, isDirective z = true

theorem nl_not_directive : isDirective nl = false := by decide

theorem take_of_prefix {pre rest : Bytes} {k : Nat} (hk : k ≤ pre.length) :
    (pre ++ rest).take k = pre.take k := List.take_append_of_le_length hk

theorem spanLoop_bracket (R : Bytes) (lv : Level) (hdir : ∀ z ∈ lv.spanStack, isDirective z = true)
    (hnd : lv.spanStack.Nodup) (hcl : Closable lv.spanStack R) :
    ∀ (rest : Bytes) (i : Nat) (rpre : Bytes) (sidx : Option Nat) (sdir : UInt8),
      R = rpre.reverse ++ rest → i = rpre.length → nl ∉ rpre →
      (∀ top, lv.spanStack.head? = some top → top ∉ rpre) →
      (sidx = none → isDirective sdir = false) →
      (∀ s, sidx = some s → s < i ∧ (s = 0 → rpre.getLast? = some sdir)) →
      BracketPost lv.spanStack (spanLoop R true lv i rpre sidx sdir rest).2 R
        (spanLoop R true lv i rpre sidx sdir rest).1 := by
  intro rest
  induction rest with
  | nil =>
    intro i rpre sidx sdir hR hi hnl htop _ _
    simp only [List.append_nil] at hR
    simp only [spanLoop, if_true]
    cases hS : lv.spanStack with
    | nil =>
      refine ⟨⟨R.length, R, rfl, by simp, by simp [hS, Closable], by simp [hS]⟩, by simp [hS], by simp [hS]⟩
    | cons top below =>
      exfalso
      rw [hS] at hcl
      have := closable_mem hcl
      rw [hR] at this
      exact htop top (by simp [hS]) (by simpa using this)
  | cons b rest ih =>
    intro i rpre sidx sdir hR hi hnl htop hsd hsi
    have hpre_len : rpre.reverse.length = i := by simp [hi]
    have htake : ∀ k, k ≤ i → R.take k = rpre.reverse.take k := fun k hk => by
      rw [hR]; exact take_of_prefix (by omega)
    have hmem_take : ∀ k, k ≤ i → ∀ z, z ∈ R.take k → z ∈ rpre := fun k hk z hz => by
      rw [htake k hk] at hz
      simpa using List.mem_of_mem_take hz
    rw [spanLoop_cons]
    cases hst : spanStep lv i rpre sidx sdir b (nextSpace rest) (rest.head? == some b) with
    | line =>
      have hb := step_line _ _ _ _ _ _ _ _ hst
      subst hb
      simp only [renderStep]
      cases hS : lv.spanStack with
      | nil =>
        exact ⟨⟨i + 1, _, rfl, rfl, by simp [hS, Closable], by simp [hS]⟩, by simp [hS], by simp [hS]⟩
      | cons top below =>
        exfalso
        rw [hS, hR] at hcl
        have htop' := htop top (by simp [hS])
        have hclean := closable_prefix_clean (x := rpre.reverse ++ [nl]) (y := rest)
          (by simpa [List.append_assoc] using hcl)
          (by
            simp only [List.mem_append, List.mem_reverse, List.mem_singleton, not_or]
            refine ⟨htop', fun h => ?_⟩
            have := hdir top (by simp [hS])
            rw [h, nl_not_directive] at this
            cases this)
        exact hclean.1 (by simp)
    | closeTok =>
      obtain ⟨hbnl, hhead, hi0⟩ := step_close _ _ _ _ _ _ _ _ hst
      simp only [renderStep]
      have hr : rpre = [] := by
        apply List.eq_nil_of_length_eq_zero; omega
      subst hr
      simp only [List.reverse_nil, List.nil_append] at hR
      cases hS : lv.spanStack with
      | nil => simp [hS] at hhead
      | cons top below =>
        simp only [hS, List.head?_cons, Option.some.injEq] at hhead
        subst hhead
        rw [hS, hR] at hcl
        have hpop := closable_pop hcl
        rw [hS] at hnd hdir
        refine ⟨⟨1, _, rfl, rfl, ?_, ?_⟩, ?_, ?_⟩
        · simp only [closeSpan, hS, List.tail_cons, hR, List.drop_succ_cons, List.drop_zero]
          exact hpop
        · intro _
          rw [hR]
          simp only [List.take_succ_cons, List.take_zero, List.mem_singleton]
          exact fun h => hbnl h.symm
        · simp only [closeSpan, hS, List.tail_cons]
          exact (List.nodup_cons.mp hnd).2
        · intro z hz
          simp only [closeSpan, hS, List.tail_cons] at hz
          exact hdir z (by simp [hz])
    | innerTok =>
      obtain ⟨hbnl, hhead, hi0⟩ := step_inner _ _ _ _ _ _ _ _ hst
      simp only [renderStep]
      refine ⟨⟨i, _, rfl, rfl, ?_, ?_⟩, hnd, hdir⟩
      · have : R.drop i = b :: rest := by
          rw [hR]; exact List.drop_left' hpre_len
        rw [this]
        rw [hR] at hcl
        exact closable_drop_prefix hcl (fun top ht hm => htop top ht (by simpa using hm))
      · intro _ hm
        exact hnl (hmem_take i (Nat.le_refl _) _ hm)
    | plainTok s =>
      obtain ⟨hbnl, hs⟩ := step_plain _ _ _ _ _ _ _ _ hst
      have hlt := (hsi _ hs).1
      simp only [renderStep]
      refine ⟨⟨s + 1, _, rfl, rfl, ?_, ?_⟩, hnd, hdir⟩
      · have hsplit : R = R.take (s + 1) ++ R.drop (s + 1) := (List.take_append_drop _ _).symm
        rw [hsplit] at hcl
        exact closable_drop_prefix hcl (fun top ht hm => htop top ht (hmem_take (s + 1) (by omega) _ hm))
      · intro _ hm
        exact hnl (hmem_take (s + 1) (by omega) _ hm)
    | openTok =>
      obtain ⟨hbnl, hbd, hhead, hbs, hsx, h1i⟩ := step_open _ _ _ _ _ _ _ _ hst
      simp only [renderStep]
      have hs0 : sidx = some 0 := by
        rcases hsx with h | h
        · have := hsd h; rw [← hbs, hbd] at this; cases this
        · exact h
      have hi1 := h1i hs0
      have hlast := (hsi 0 hs0).2 rfl
      -- the data read so far is `b :: mid`
      obtain ⟨mid, hmid⟩ : ∃ mid, rpre.reverse = b :: mid := by
        cases hrr : rpre.reverse with
        | nil => simp [← hpre_len, hrr] at hi1
        | cons c mid =>
          refine ⟨mid, ?_⟩
          have : rpre.getLast? = some c := by
            have := congrArg List.head? hrr
            simpa [List.head?_reverse] using this
          rw [this, ← hbs] at hlast
          simp only [Option.some.injEq] at hlast
          rw [hlast]
      have hmid_sub : ∀ z, z ∈ mid → z ∈ rpre := fun z hz => by
        have : z ∈ rpre.reverse := by rw [hmid]; simp [hz]
        simpa using this
      have hb_pre : b ∈ rpre := by
        have : b ∈ rpre.reverse := by rw [hmid]; simp
        simpa using this
      have hR' : R = b :: mid ++ b :: rest := by rw [hR, hmid]
      have hSclean : ∀ z ∈ lv.spanStack, z ∉ rpre := by
        cases hS : lv.spanStack with
        | nil => simp
        | cons top below =>
          have htop' := htop top (by simp [hS])
          rw [hS, hR] at hcl
          have := closable_prefix_clean hcl (by simpa using htop')
          intro z hz
          simp only [List.mem_cons] at hz
          rcases hz with rfl | hz
          · exact htop'
          · exact fun hm => this.2 z hz (by simpa using hm)
      refine ⟨⟨1, _, rfl, rfl, ?_, ?_⟩, ?_, ?_⟩
      · have hdrop : R.drop 1 = mid ++ b :: rest := by rw [hR']; rfl
        rw [hdrop]
        show Closable (b :: lv.spanStack) _
        rw [hR'] at hcl
        apply closable_push hcl (fun hm => hnl (hmid_sub _ hm))
        · intro z hz hm
          simp only [List.mem_cons] at hm
          rcases hm with rfl | hm
          · exact hSclean z hz hb_pre
          · exact hSclean z hz (hmid_sub _ hm)
        · intro top ht hbt
          exact hhead (by rw [ht, hbt])
      · intro _
        rw [hR']
        simp only [List.cons_append, List.take_succ_cons, List.take_zero, List.mem_singleton]
        exact fun h => hbnl h.symm
      · show (b :: lv.spanStack).Nodup
        exact List.nodup_cons.mpr ⟨fun hm => hSclean b hm hb_pre, hnd⟩
      · intro z hz
        change z ∈ b :: lv.spanStack at hz
        simp only [List.mem_cons] at hz
        rcases hz with rfl | hz
        · exact hbd
        · exact hdir z hz
    | cont s' d' =>
      obtain ⟨hbnl, hbh, hsd'⟩ := step_cont _ _ _ _ _ _ _ _ hst
      simp only [renderStep]
      apply ih (i + 1) (b :: rpre) s' d'
      · rw [hR]; simp
      · simp [hi]
      · simp only [List.mem_cons, not_or]; exact ⟨fun h => hbnl h.symm, hnl⟩
      · intro top ht
        simp only [List.mem_cons, not_or]
        refine ⟨fun h => ?_, htop top ht⟩
        have hd := hdir top (by cases hS : lv.spanStack with
          | nil => simp [hS] at ht
          | cons t _ => simp [hS] at ht; simp [ht])
        rw [h] at hd
        exact hbh hd (by rw [ht, h])
      · rcases hsd' with ⟨h1, h2⟩ | ⟨h1, h2, _, h4⟩
        · rw [h1, h2]; exact hsd
        · intro h; rw [h1] at h; cases h
      · intro s hs
        rcases hsd' with ⟨h1, h2⟩ | ⟨h1, h2, _, _⟩
        · rw [h1] at hs
          obtain ⟨ha, hb'⟩ := hsi s hs
          refine ⟨by omega, fun h0 => ?_⟩
          have hne : rpre ≠ [] := by
            intro hnil; rw [hnil] at hi; simp at hi; omega
          rw [List.getLast?_cons_of_ne_nil hne, h2]  
          exact hb' h0
        · rw [h1] at hs
          simp only [Option.some.injEq] at hs
          refine ⟨by omega, fun h0 => ?_⟩
          have hnil : rpre = [] := by
            apply List.eq_nil_of_length_eq_zero; omega
          rw [hnil, h2]; rfl

/-! ### per-decoder facts -/

/-- the effective "inside a preformatted block" test of `scan` (after the entry steps) -/
def EffPre (L : Level) : Prop := L.mask.getLsbD 0 = true ∧ L.clearMask.getLsbD 0 = false

/-- everything that holds of one decoder's masks and span stack between calls -/
structure LvGood (L : Level) : Prop where
  inv : LvInv L
  endc : EndCons L.mask
  stack : StackOK L
  nodup : L.spanStack.Nodup
  /-- inside a preformatted block no span is open -/
  preEmpty : EffPre L → L.spanStack = []

theorem LvGood_init : LvGood {} :=
  ⟨by simp [LvInv, allDir, StartCons], by simp [EndCons], by intro b hb; simp at hb, by simp, fun _ => rfl⟩

theorem LvGood_of_fields {L L' : Level} (h : LvGood L) (hm : L'.mask = L.mask) (hc : L'.clearMask = L.clearMask)
    (hs : L'.spanStack = L.spanStack) : LvGood L' := by
  obtain ⟨h1, h2, h3, h4, h5⟩ := h
  refine ⟨LvInv_of_fields h1 hm hc, by rw [hm]; exact h2, ?_, by rw [hs]; exact h4,
    fun he => by rw [hs]; exact h5 (by unfold EffPre at he ⊢; rw [← hm, ← hc]; exact he)⟩
  intro b hb
  rw [hs] at hb
  rw [hm, hc]
  exact h3 b hb

/-- a decoder without open spans whose mask has no span end bit -/
theorem LvGood_of_empty {L : Level} (hi : LvInv L) (hs : L.spanStack = [])
    (he : L.mask.getLsbD 11 = false ∧ L.mask.getLsbD 13 = false ∧ L.mask.getLsbD 15 = false ∧
      L.mask.getLsbD 17 = false) : LvGood L :=
  ⟨hi, by obtain ⟨a, b, c, d⟩ := he; unfold EndCons; rw [a, b, c, d]; simp,
    by intro b hb; simp [hs] at hb, by simp [hs], fun _ => hs⟩

/-- the state after the entry steps: no directive bit, nothing scheduled, stack facts kept -/
structure EntryGood (L : Level) : Prop where
  clean : Clean L
  stack : StackOK L
  nodup : L.spanStack.Nodup
  preEmpty : EffPre L → L.spanStack = []

theorem normLevel_effPre {L : Level} (h : EffPre (normLevel L)) : EffPre L := by
  obtain ⟨h1, _⟩ := h
  unfold normLevel at h1
  unfold EffPre
  by_cases hl : L.lastNewline = true <;> simp [hl, andNot, BlockQuote] at h1 <;> simp [h1]

theorem styleIdx_range (b : UInt8) : styleIdx b = 2 ∨ styleIdx b = 3 ∨ styleIdx b = 4 ∨ styleIdx b = 5 := by
  unfold styleIdx
  split
  · simp
  · split
    · simp
    · split <;> simp

theorem normLevel_entryGood {L : Level} (h : LvGood L) : EntryGood (normLevel L) := by
  refine ⟨normLevel_clean h.inv, ?_, ?_, fun he => by
    have hs : (normLevel L).spanStack = L.spanStack := by unfold normLevel; split <;> rfl
    rw [hs]; exact h.preEmpty (normLevel_effPre he)⟩
  · intro b hb
    have hs : (normLevel L).spanStack = L.spanStack := by unfold normLevel; split <;> rfl
    rw [hs] at hb
    obtain ⟨h1, h2, h3⟩ := h.stack b hb
    refine ⟨h1, ?_, ?_⟩
    · unfold normLevel
      rcases styleIdx_range b with hi | hi | hi | hi <;> rw [hi] at h2 h3 ⊢ <;>
        (split <;> simp_all [andNot, BlockQuote])
    · have := (normLevel_clean h.inv).2
      rw [this]; simp
  · have hs : (normLevel L).spanStack = L.spanStack := by unfold normLevel; split <;> rfl
    rw [hs]; exact h.nodup

theorem entryLv_entryGood {reset : Bool} {L : Level} (h : LvGood L) : EntryGood (entryLv reset L) := by
  unfold entryLv
  split
  · exact normLevel_entryGood (LvGood_of_fields h rfl rfl rfl)
  · exact normLevel_entryGood h

theorem EntryGood.good {L : Level} (h : EntryGood L) : LvGood L :=
  ⟨clean_inv h.clean, by
    obtain ⟨h1, _⟩ := h.clean
    simp_all [EndCons, allDir], h.stack, h.nodup, h.preEmpty⟩


/-! ### the chain of decoders -/

/-- all open spans of a chain of decoders, outermost decoder first -/
def stacks (chain : List Level) : List UInt8 := chain.flatMap (·.spanStack)

theorem stacks_cons (lv : Level) (inner : List Level) : stacks (lv :: inner) = lv.spanStack ++ stacks inner := by
  simp [stacks]

theorem stacks_map_reset (l : List Level) : stacks (l.map resetLevel) = stacks l := by
  induction l with
  | nil => rfl
  | cons a l ih => simp only [List.map_cons, stacks_cons, ih]; rfl

/-- a decoder inside a preformatted block has no inner decoder -/
def PreLast : Level → List Level → Prop
  | _, [] => True
  | lv, q :: qs => ¬EffPre lv ∧ PreLast q qs

/-- only the innermost decoder can have open spans; they are closable in the unread input;
while spans are open every decoder above has consumed its quote prefix in this line and no
decoder on the path is at a line start -/
def PathInv : Level → List Level → Bytes → Prop
  | lv, [], R => Closable lv.spanStack R ∧ (lv.spanStack ≠ [] → lv.lastNewline = false)
  | lv, q :: qs, R => lv.spanStack = [] ∧
      (stacks (q :: qs) ≠ [] → lv.quoteStarted = true ∧ lv.lastNewline = false) ∧ PathInv q qs R

theorem PathInv_closed (R : Bytes) : ∀ (lv : Level) (inner : List Level), stacks (lv :: inner) = [] →
    PathInv lv inner R := by
  intro lv inner
  induction inner generalizing lv with
  | nil =>
    intro h
    have h' : lv.spanStack = [] := by simpa [stacks] using h
    simp [PathInv, h', Closable]
  | cons q qs ih =>
    intro h
    rw [stacks_cons, List.append_eq_nil_iff] at h
    exact ⟨h.1, fun hne => absurd h.2 hne, ih q h.2⟩

theorem PathInv_stacks {lv : Level} {inner : List Level} {R : Bytes} (h : PathInv lv inner R) :
    (inner ≠ [] → lv.spanStack = []) := by
  cases inner with
  | nil => intro h'; exact absurd rfl h'
  | cons q qs => intro _; exact h.1

structure G (lv : Level) (inner : List Level) (R : Bytes) : Prop where
  good : LvGood lv ∧ ∀ q ∈ inner, LvGood q
  chain : ChainOK lv inner
  pre : PreLast lv inner
  path : PathInv lv inner R

/-- what one `scan` call at EOF on the whole unread input `R` establishes -/
structure StepOK (lv : Level) (inner : List Level) (R : Bytes) (r : Out × Level × List Level) : Prop where
  tok : ∃ a t, r.1 = .tok a t ∧ t = R.take a ∧ G r.2.1 r.2.2 (R.drop a) ∧
    (nl ∈ t → stacks (r.2.1 :: r.2.2) = [])
  lifo : stacks (r.2.1 :: r.2.2) = stacks (lv :: inner) ∨
    (∃ b, stacks (r.2.1 :: r.2.2) = b :: stacks (lv :: inner)) ∨
    (∃ b, stacks (lv :: inner) = b :: stacks (r.2.1 :: r.2.2))
  pre_span : tick ∈ stacks (lv :: inner) → ¬∃ b, stacks (r.2.1 :: r.2.2) = b :: stacks (lv :: inner)


/-! ### entry facts -/

theorem normLevel_fields (L : Level) :
    (normLevel L).spanStack = L.spanStack ∧ (normLevel L).lastNewline = false ∧
    ((normLevel L).quoteStarted = true → L.quoteStarted = true ∧ L.lastNewline = false) := by
  unfold normLevel
  by_cases h : L.lastNewline = true <;> simp [h]

theorem entryLv_stack (reset : Bool) (L : Level) : (entryLv reset L).spanStack = L.spanStack := by
  unfold entryLv
  split
  · exact (normLevel_fields _).1
  · exact (normLevel_fields _).1

theorem entryLv_lastNewline (reset : Bool) (L : Level) : (entryLv reset L).lastNewline = false :=
  (normLevel_fields _).2.1

theorem entryLv_started {reset : Bool} {L : Level} (h : (entryLv reset L).quoteStarted = true) :
    reset = false ∧ L.quoteStarted = true ∧ L.lastNewline = false := by
  unfold entryLv at h
  cases reset with
  | true =>
    have := (normLevel_fields (resetLevel L)).2.2 (by simpa using h)
    simp [resetLevel] at this
  | false =>
    have := (normLevel_fields L).2.2 (by simpa using h)
    exact ⟨rfl, this⟩

theorem entryLv_effPre {reset : Bool} {L : Level} :
    ((entryLv reset L).mask &&& BlockPre == BlockPre) = true → EffPre L := by
  intro h
  have hb := mask_pre_bit h
  unfold entryLv normLevel at hb
  unfold EffPre
  cases reset <;> by_cases hl : L.lastNewline = true <;>
    simp [hl, resetLevel, andNot, BlockQuote] at hb <;> simp [hb]

theorem entryLv_not_effPre {reset : Bool} {L : Level}
    (h : ((entryLv reset L).mask &&& BlockPre == BlockPre) = false) : ¬EffPre (entryLv reset L) := by
  intro ⟨h1, _⟩
  have : (entryLv reset L).mask &&& BlockPre = BlockPre := by
    apply BitVec.eq_of_getLsbD_eq
    intro i hi
    by_cases h0 : i = 0
    · subst h0; simp [h1, BlockPre]
    · have : (BlockPre : Style).getLsbD i = false := by
        have : BlockPre = BitVec.twoPow 32 0 := by decide
        rw [this, BitVec.getLsbD_twoPow]; simp; omega
      simp [this]
  simp [this] at h

theorem closed_of_not_started {reset : Bool} {lv : Level} {inner : List Level} {R : Bytes}
    (hp : PathInv lv inner R) (hreset : reset = true → stacks (lv :: inner) = [])
    (h : (entryLv reset lv).quoteStarted = false) : stacks inner = [] := by
  cases inner with
  | nil => rfl
  | cons q qs =>
    apply Classical.byContradiction
    intro hne
    obtain ⟨_, hq, _⟩ := hp
    have ⟨h1, h2⟩ := hq hne
    cases reset with
    | true =>
      have := hreset rfl
      rw [stacks_cons, List.append_eq_nil_iff] at this
      exact hne this.2
    | false =>
      unfold entryLv normLevel at h
      simp [h2, h1] at h

theorem closed_of_rs {reset : Bool} {lv : Level} {inner : List Level} {R : Bytes}
    (hp : PathInv lv inner R) (hreset : reset = true → stacks (lv :: inner) = [])
    (h : entryRs reset lv = true) : stacks inner = [] := by
  cases inner with
  | nil => rfl
  | cons q qs =>
    apply Classical.byContradiction
    intro hne
    obtain ⟨_, hq, _⟩ := hp
    have ⟨_, h2⟩ := hq hne
    cases reset with
    | true =>
      have := hreset rfl
      rw [stacks_cons, List.append_eq_nil_iff] at this
      exact hne this.2
    | false =>
      unfold entryRs at h
      simp [h2] at h

theorem stacks_entryInner (reset : Bool) (lv : Level) (inner : List Level) :
    stacks (entryInner reset lv inner) = stacks inner := by
  unfold entryInner
  split
  · exact stacks_map_reset inner
  · rfl

theorem LvGood_reset {q : Level} (h : LvGood q) : LvGood (resetLevel q) := LvGood_of_fields h rfl rfl rfl

theorem entryInner_good {reset : Bool} {lv : Level} {inner : List Level} (h : ∀ q ∈ inner, LvGood q) :
    ∀ q ∈ entryInner reset lv inner, LvGood q := by
  unfold entryInner
  split
  · intro q hq
    simp only [List.mem_map] at hq
    obtain ⟨q', hq', rfl⟩ := hq
    exact LvGood_reset (h q' hq')
  · exact h

theorem PreLast_map : ∀ (lv : Level) (inner : List Level), PreLast lv inner →
    PreLast (resetLevel lv) (inner.map resetLevel) := by
  intro lv inner
  induction inner generalizing lv with
  | nil => intro _; trivial
  | cons q qs ih => intro h; exact ⟨h.1, ih q h.2⟩

theorem PreLast_head {lv lv' : Level} {inner : List Level} (h : PreLast lv inner)
    (he : EffPre lv' → EffPre lv) : PreLast lv' inner := by
  cases inner with
  | nil => trivial
  | cons q qs => exact ⟨fun h' => h.1 (he h'), h.2⟩

theorem PreLast_entryInner {reset : Bool} {lv lv' : Level} {inner : List Level} (h : PreLast lv inner)
    (he : ¬EffPre lv') : PreLast lv' (entryInner reset lv inner) := by
  cases inner with
  | nil => unfold entryInner; split <;> trivial
  | cons q qs =>
    unfold entryInner
    split
    · exact ⟨he, PreLast_map q qs h.2⟩
    · exact ⟨he, h.2⟩


/-! ### the deferred `lastNewline` update -/

theorem finish_sets {x : Out × Level × List Level} (h : (finish x).2.1.lastNewline = true) :
    x.2.1.lastNewline = true ∨ ∃ a t, x.1 = .tok a t ∧ nl ∈ t := by
  unfold finish at h
  split at h
  · rename_i a t heq
    split at h
    · rename_i hl
      right
      refine ⟨a, t, heq, ?_⟩
      have : t.getLast? = some nl := by simpa using hl
      exact List.mem_of_getLast? this
    · left; exact h
  · left; exact h

theorem PathInv_top {lv lv' : Level} {inner : List Level} {R : Bytes} (h : PathInv lv inner R)
    (hs : lv'.spanStack = lv.spanStack) (hq : lv'.quoteStarted = lv.quoteStarted)
    (hl : lv'.lastNewline = true → lv.lastNewline = true ∨ stacks (lv :: inner) = []) :
    PathInv lv' inner R := by
  cases inner with
  | nil =>
    obtain ⟨h1, h2⟩ := h
    refine ⟨by rw [hs]; exact h1, fun hne => ?_⟩
    rw [hs] at hne
    cases hb : lv'.lastNewline with
    | false => rfl
    | true =>
      rcases hl hb with h' | h'
      · rw [h2 hne] at h'; cases h'
      · simp [stacks] at h'; exact absurd h' hne
  | cons q qs =>
    obtain ⟨h1, h2, h3⟩ := h
    refine ⟨by rw [hs]; exact h1, fun hne => ?_, h3⟩
    have ⟨a, b⟩ := h2 hne
    refine ⟨by rw [hq]; exact a, ?_⟩
    cases hb : lv'.lastNewline with
    | false => rfl
    | true =>
      rcases hl hb with h' | h'
      · rw [b] at h'; cases h'
      · rw [stacks_cons, List.append_eq_nil_iff] at h'; exact absurd h'.2 hne

theorem stepOK_finish {lv : Level} {inner : List Level} {R : Bytes} {x : Out × Level × List Level}
    (h : StepOK lv inner R x) : StepOK lv inner R (finish x) := by
  have hst : stacks ((finish x).2.1 :: (finish x).2.2) = stacks (x.2.1 :: x.2.2) := by
    rw [finish_inner, stacks_cons, stacks_cons]
    rcases finish_lv x with h' | h' <;> rw [h']
  obtain ⟨⟨a, t, h1, h2, hg, hnl⟩, hl, hp⟩ := h
  refine ⟨⟨a, t, by rw [finish_fst]; exact h1, h2, ?_, by rw [hst]; exact hnl⟩, by rw [hst]; exact hl,
    by rw [hst]; exact hp⟩
  have hflds : (finish x).2.1.mask = x.2.1.mask ∧ (finish x).2.1.clearMask = x.2.1.clearMask ∧
      (finish x).2.1.spanStack = x.2.1.spanStack ∧ (finish x).2.1.quoteStarted = x.2.1.quoteStarted := by
    rcases finish_lv x with h' | h' <;> rw [h'] <;> simp
  refine ⟨⟨LvGood_of_fields hg.good.1 hflds.1 hflds.2.1 hflds.2.2.1, by rw [finish_inner]; exact hg.good.2⟩, ?_, ?_, ?_⟩
  · rw [finish_inner]
    exact ChainOK_head hg.chain (by rw [hflds.2.2.2]; exact id)
  · rw [finish_inner]
    exact PreLast_head hg.pre (by unfold EffPre; rw [hflds.1, hflds.2.1]; exact id)
  · rw [finish_inner]
    apply PathInv_top hg.path hflds.2.2.1 hflds.2.2.2
    intro hb
    rcases finish_sets hb with h' | ⟨a', t', h1', hm⟩
    · left; exact h'
    · right
      rw [h1] at h1'
      simp only [Out.tok.injEq] at h1'
      rw [← h1'.2] at hm
      exact hnl hm


/-! ### one call of the span scanner / block scanner on the whole unread input -/

theorem spanEffect_effPre {L L' : Level} (h : SpanEffect L L') (he : EffPre L') : EffPre L := by
  obtain ⟨h1, h2⟩ := he
  rcases h with rfl | ⟨b, _, hb, rfl⟩ | ⟨b, hb, _, rfl⟩
  · exact ⟨h1, h2⟩
  · unfold EffPre
    rcases isDirective_cases hb with rfl | rfl | rfl | rfl <;>
      simp_all [closeSpan, bitsOf, star, under, tick, tilde,
        SpanStrong, SpanStrongEnd, SpanEmph, SpanEmphEnd, SpanStrike, SpanStrikeEnd, SpanPre, SpanPreEnd]
  · unfold EffPre
    rcases isDirective_cases hb with rfl | rfl | rfl | rfl <;>
      simp_all [openSpan, bitsOf, star, under, tick, tilde,
        SpanStrong, SpanStrongStart, SpanEmph, SpanEmphStart, SpanStrike, SpanStrikeStart, SpanPre, SpanPreStart]

theorem scanSpan_bracket {L : Level} (R : Bytes) (he : EntryGood L) (hcl : Closable L.spanStack R)
    (hnp : ¬EffPre L) :
    BracketPost L.spanStack (scanSpan L R true).2 R (scanSpan L R true).1 ∧ LvGood (scanSpan L R true).2 := by
  have hb := spanLoop_bracket R L (fun z hz => (he.stack z hz).1) he.nodup hcl R 0 [] none 0
    (by simp) rfl (by simp) (by simp) (by intro; decide) (by intro s hs; cases hs)
  refine ⟨hb, spanEffect_inv he.clean (scanSpan_effect _ _ _), ?_, ?_, hb.nodup,
    fun h => absurd (spanEffect_effPre (scanSpan_effect _ _ _) h) hnp⟩
  · exact (scanSpan_endCons R true he.clean he.stack he.nodup).1
  · exact (scanSpan_endCons R true he.clean he.stack he.nodup).2

theorem spanEffect_stack {L L' : Level} (h : SpanEffect L L') :
    L'.spanStack = L.spanStack ∨ (∃ b, L.spanStack = b :: L'.spanStack) ∨
      (∃ b, L'.spanStack = b :: L.spanStack ∧ L.mask &&& SpanPre = 0) := by
  rcases h with rfl | ⟨b, hb, _, rfl⟩ | ⟨b, _, hm, rfl⟩
  · exact Or.inl rfl
  · right; left
    refine ⟨b, ?_⟩
    cases hs : L.spanStack with
    | nil => simp [hs] at hb
    | cons t r => simp [hs] at hb; simp [closeSpan, hs, hb]
  · right; right; exact ⟨b, rfl, hm⟩

/-- the decoder after a pre block start line -/
def preStartLevel (L : Level) : Level :=
  { L with hasRun := true, mask := L.mask ||| BlockPre ||| BlockPreStart,
           clearMask := L.clearMask ||| BlockPreStart }

/-- the block-start part of `scan` on a decoder without open spans -/
theorem scanBlock_bracket {L : Level} (R : Bytes) (hne : R ≠ []) (he : EntryGood L) (hs : L.spanStack = [])
    (hnp : ¬EffPre L) :
    ∃ a t, (scanBlock L R true).1 = .tok a t ∧ t = R.take a ∧
      Closable (scanBlock L R true).2.spanStack (R.drop a) ∧
      ((scanBlock L R true).2.spanStack ≠ [] → nl ∉ t) ∧
      LvGood (scanBlock L R true).2 ∧
      ((scanBlock L R true).2.spanStack = [] ∨ ∃ b, (scanBlock L R true).2.spanStack = [b]) ∧
      (scanBlock L R true).2.lastNewline = L.lastNewline ∧
      (scanBlock L R true).2.quoteStarted = L.quoteStarted := by
  have hgood := scanBlock_good L R true (List.length_pos_iff.mpr hne)
  have heof := scanBlock_eof L R
  obtain ⟨hc1, hc2⟩ := he.clean
  simp only [allDir] at hc1
  by_cases hf : fence.isPrefixOf R = true
  · -- a fence line
    have hst : (scanBlock L R true).2 = preStartLevel L := by
      unfold scanBlock preStartLevel
      simp only [hf, if_true]
      split <;> simp
    cases ho : (scanBlock L R true).1 with
    | more => exact absurd ho heof
    | panic => rw [ho] at hgood; exact absurd hgood (by simp [Out.Good])
    | tok a t =>
      rw [ho] at hgood
      rw [hst]
      have hs' : (preStartLevel L).spanStack = [] := hs
      refine ⟨a, t, rfl, hgood.2.2, by rw [hs']; trivial, fun h => absurd hs' h, ?_, Or.inl hs', rfl, rfl⟩
      apply LvGood_of_empty _ hs'
      · simp_all [preStartLevel, BlockPre, BlockPreStart]
      · simp_all [preStartLevel, LvInv, allDir, StartCons, BlockPre, BlockPreStart]
  · have heq : scanBlock L R true = scanSpan { L with hasRun := true } R true := by
      unfold scanBlock
      simp [hf]
    rw [heq]
    have heH : EntryGood ({ L with hasRun := true } : Level) := ⟨⟨hc1, hc2⟩, he.stack, he.nodup, he.preEmpty⟩
    have ⟨hb, hg⟩ := scanSpan_bracket R heH (by show Closable L.spanStack R; rw [hs]; trivial) hnp
    obtain ⟨⟨a, t, h1, h2, h3, h4⟩, _, _⟩ := hb
    have heff := scanSpan_effect ({ L with hasRun := true } : Level) R true
    refine ⟨a, t, h1, h2, h3, fun h => h4 (Or.inr h), hg, ?_, heff.qs.2.2, heff.qs.1⟩
    rcases spanEffect_stack heff with h | ⟨b, h⟩ | ⟨b, h, _⟩
    · left; rw [h]; exact hs
    · simp [hs] at h
    · right; exact ⟨b, by rw [h]; simp [hs]⟩


/-! ### one `scan` call on the whole unread input -/

theorem stacks_single (L : Level) : stacks [L] = L.spanStack := by simp [stacks]

/-- `scanPre` on a decoder inside a preformatted block, whole unread input at EOF -/
theorem scanPre_bracket {L : Level} (R : Bytes) (hne : R ≠ []) (he : EntryGood L) (hS : L.spanStack = [])
    (hb0 : L.mask.getLsbD 0 = true) :
    ∃ a t, (scanPre { L with hasRun := true } R true).1 = .tok a t ∧ t = R.take a ∧
      LvGood (scanPre { L with hasRun := true } R true).2 ∧
      (scanPre { L with hasRun := true } R true).2.spanStack = [] ∧
      (scanPre { L with hasRun := true } R true).2.quoteStarted = L.quoteStarted := by
  obtain ⟨hc1, hc2⟩ := he.clean
  simp only [allDir] at hc1
  have hgoodp := scanPre_good { L with hasRun := true } R true (List.length_pos_iff.mpr hne)
  have heofp := scanPre_eof { L with hasRun := true } R
  have hfr := scanPre_frame { L with hasRun := true } R true
  have hstk' : (scanPre { L with hasRun := true } R true).2.spanStack = [] := by
    rcases hfr with h' | h' <;> rw [h'] <;> exact hS
  have hq' : (scanPre { L with hasRun := true } R true).2.quoteStarted = L.quoteStarted := by
    rcases hfr with h' | h' <;> rw [h']
  have hgood' : LvGood (scanPre { L with hasRun := true } R true).2 := by
    apply LvGood_of_empty _ hstk'
    · rcases hfr with h' | h' <;> rw [h'] <;> simp_all [BlockPre, BlockPreEnd]
    · rcases hfr with h' | h' <;> rw [h'] <;> simp_all [LvInv, allDir, StartCons, BlockPre, BlockPreEnd]
  cases ho : (scanPre { L with hasRun := true } R true).1 with
  | more => exact absurd ho heofp
  | panic => rw [ho] at hgoodp; exact absurd hgoodp (by simp [Out.Good])
  | tok a t =>
    rw [ho] at hgoodp
    exact ⟨a, t, rfl, hgoodp.2.2, hgood', hstk', hq'⟩

/-- the decoder after it has consumed its block quote prefix -/
def quoteLevel (L : Level) : Level :=
  { L with mask := L.mask ||| BlockQuote ||| BlockQuoteStart, clearMask := L.clearMask ||| BlockQuoteStart,
           quoteStarted := true, hasRun := true }

theorem quoteLevel_good {L : Level} (he : EntryGood L) (hS : L.spanStack = []) : LvGood (quoteLevel L) := by
  obtain ⟨hc1, hc2⟩ := he.clean
  simp only [allDir] at hc1
  have hS' : (quoteLevel L).spanStack = [] := hS
  apply LvGood_of_empty _ hS'
  · simp_all [quoteLevel, BlockQuote, BlockQuoteStart]
  · simp_all [quoteLevel, LvInv, allDir, StartCons, BlockQuote, BlockQuoteStart]

theorem quoteLevel_notEffPre {L : Level} (h : ¬EffPre L) (hc : L.clearMask = 0) : ¬EffPre (quoteLevel L) := by
  intro ⟨h1, _⟩
  apply h
  exact ⟨by simpa [quoteLevel, BlockQuote, BlockQuoteStart] using h1, by rw [hc]; simp⟩

theorem bit5_spanPre {m : Style} (h : m.getLsbD 5 = true) : m &&& SpanPre ≠ 0 := by
  have : SpanPre = BitVec.twoPow 32 5 := by decide
  rw [this]
  exact (and_twoPow_ne_zero m 5 (by omega)).mpr h

theorem G_inner {lv q : Level} {qs : List Level} {R : Bytes} (h : G lv (q :: qs) R) : G q qs R :=
  ⟨⟨h.good.2 q (by simp), fun x hx => h.good.2 x (by simp [hx])⟩, h.chain, h.pre.2, h.path.2.2⟩

theorem scanRel_bracket {R : Bytes} {reset : Bool} {lv : Level} {inner : List Level}
    {r : Out × Level × List Level} (hr : ScanRel R true reset lv inner r) (hne : R ≠ [])
    (hg : G lv inner R) (hreset : reset = true → stacks (lv :: inner) = []) : StepOK lv inner R r := by
  have hlen : 0 < R.length := List.length_pos_iff.mpr hne
  induction hr with
  | early reset lv00 inner0 h => simp at h; exact absurd h hne
  | span reset lv00 inner0 h hs =>
    apply stepOK_finish
    have hstk := entryLv_stack reset lv00
    have hS : lv00.spanStack ≠ [] := by
      intro h'; rw [← hstk] at h'; simp [h'] at hs
    have hin : inner0 = [] := by
      apply Classical.byContradiction
      intro hne'
      exact hS (PathInv_stacks hg.path hne')
    subst hin
    have hie : entryInner reset lv00 [] = [] := by unfold entryInner; split <;> rfl
    rw [hie]
    have he := entryLv_entryGood (reset := reset) hg.good.1
    have hcl : Closable (entryLv reset lv00).spanStack R := by rw [hstk]; exact hg.path.1
    have hSe : (entryLv reset lv00).spanStack ≠ [] := by rw [hstk]; exact hS
    obtain ⟨⟨⟨a, t, h1, h2, h3, h4⟩, hnd, hdir⟩, hgood⟩ :=
      scanSpan_bracket R he hcl (fun h' => hSe (he.preEmpty h'))
    have heff := scanSpan_effect (entryLv reset lv00) R true
    refine ⟨⟨a, t, h1, h2, ⟨⟨hgood, by simp⟩, ?_, trivial, ?_⟩, ?_⟩, ?_, ?_⟩
    · -- ChainOK: the decoder is not started (it has no inner decoder)
      show (scanSpan (entryLv reset lv00) R true).2.quoteStarted = false
      rw [heff.qs.1]
      have hc : lv00.quoteStarted = false := hg.chain
      cases hq : (entryLv reset lv00).quoteStarted with
      | false => rfl
      | true => have := (entryLv_started hq).2.1; rw [hc] at this; cases this
    · exact ⟨h3, fun _ => by rw [heff.qs.2.2]; exact entryLv_lastNewline _ _⟩
    · intro hm; exact absurd hm (h4 (Or.inl hSe))
    · rw [stacks_single, stacks_single, ← hstk]
      rcases spanEffect_stack heff with h' | ⟨b, h'⟩ | ⟨b, h', _⟩
      · exact Or.inl h'
      · exact Or.inr (Or.inr ⟨b, h'⟩)
      · exact Or.inr (Or.inl ⟨b, h'⟩)
    · rw [stacks_single, stacks_single, ← hstk]
      intro htick ⟨b, hb⟩
      rcases spanEffect_stack heff with h' | ⟨c, h'⟩ | ⟨c, _, hm⟩
      · rw [h'] at hb
        have := congrArg List.length hb; simp at this
      · rw [h'] at hb
        have := congrArg List.length hb; simp at this; omega
      · have := (he.stack tick htick).2.1
        have hidx : styleIdx tick = 5 := by decide
        rw [hidx] at this
        exact bit5_spanPre this hm
  | pre reset lv00 inner0 h hs hp =>
    apply stepOK_finish
    have hstk := entryLv_stack reset lv00
    have hS : lv00.spanStack = [] := by rw [← hstk]; simpa using hs
    have hin : inner0 = [] := by
      cases inner0 with
      | nil => rfl
      | cons q qs => exact absurd (entryLv_effPre hp) hg.pre.1
    subst hin
    have hie : entryInner reset lv00 [] = [] := by unfold entryInner; split <;> rfl
    rw [hie]
    have he := entryLv_entryGood (reset := reset) hg.good.1
    have hSe : (entryLv reset lv00).spanStack = [] := by rw [hstk]; exact hS
    obtain ⟨a, t, ho, ht, hgood', hstk', hq'⟩ := scanPre_bracket R hne he hSe (mask_pre_bit hp)
    have hqf : (entryLv reset lv00).quoteStarted = false := by
      have hc : lv00.quoteStarted = false := hg.chain
      cases hq : (entryLv reset lv00).quoteStarted with
      | false => rfl
      | true => have := (entryLv_started hq).2.1; rw [hc] at this; cases this
    have hst0 : stacks [(scanPre { entryLv reset lv00 with hasRun := true } R true).2] = [] := by
      rw [stacks_single]; exact hstk'
    refine ⟨⟨a, t, ho, ht, ⟨⟨hgood', by simp⟩, by show _ = false; rw [hq']; exact hqf, trivial, ?_⟩,
      fun _ => hst0⟩, ?_, ?_⟩
    · exact PathInv_closed _ _ _ hst0
    · left; rw [hst0, stacks_single, hS]
    · intro htick; rw [stacks_single, hS] at htick; simp at htick
  | needMore reset lv00 inner0 h hs hp hq => exact absurd hq (startsBlockQuote_eof _)
  | quoteStart reset lv00 inner0 l h hs hp hq hl hst =>
    apply stepOK_finish
    have hstk := entryLv_stack reset lv00
    have hS : lv00.spanStack = [] := by rw [← hstk]; simpa using hs
    have hcl := closed_of_not_started hg.path hreset hst
    have he := entryLv_entryGood (reset := reset) hg.good.1
    obtain ⟨hc1, hc2⟩ := he.clean
    simp only [allDir] at hc1
    have hSe : (entryLv reset lv00).spanStack = [] := by rw [hstk]; exact hS
    have hinner' : stacks (if (entryInner reset lv00 inner0).isEmpty = true then [({} : Level)]
        else entryInner reset lv00 inner0) = [] := by
      split
      · simp [stacks]
      · rw [stacks_entryInner]; exact hcl
    have hall : stacks (quoteLevel (entryLv reset lv00) ::
        (if (entryInner reset lv00 inner0).isEmpty = true then [({} : Level)]
          else entryInner reset lv00 inner0)) = [] := by
      rw [stacks_cons, hinner']
      show (entryLv reset lv00).spanStack ++ [] = []
      simp [hSe]
    have hbefore : stacks (lv00 :: inner0) = [] := by rw [stacks_cons, hS, hcl]; rfl
    have hnp : ¬EffPre (quoteLevel (entryLv reset lv00)) :=
      quoteLevel_notEffPre (entryLv_not_effPre hp) he.clean.2
    show StepOK lv00 inner0 R (.tok l (R.take l), quoteLevel (entryLv reset lv00),
      if (entryInner reset lv00 inner0).isEmpty = true then [({} : Level)] else entryInner reset lv00 inner0)
    refine ⟨⟨l, _, rfl, rfl, ⟨⟨quoteLevel_good he hSe, ?_⟩, ?_, ?_, PathInv_closed _ _ _ hall⟩, fun _ => hall⟩, ?_, ?_⟩
    · intro q hq'
      simp only at hq'
      split at hq'
      · simp only [List.mem_singleton] at hq'; rw [hq']; exact LvGood_init
      · exact entryInner_good hg.good.2 q hq'
    · -- ChainOK
      have := ChainOK_entryLv reset hg.chain
      simp only
      cases hi : entryInner reset lv00 inner0 with
      | nil => simp [ChainOK]
      | cons q qs => rw [hi] at this; simpa [ChainOK] using this
    · -- PreLast
      simp only
      cases hi : entryInner reset lv00 inner0 with
      | nil => simp only [List.isEmpty_nil, if_true]; exact ⟨hnp, trivial⟩
      | cons q qs =>
        simp only [List.isEmpty_cons, Bool.false_eq_true, if_false]
        rw [← hi]
        exact PreLast_entryInner hg.pre hnp
    · left; rw [hall, hbefore]
    · intro htick; rw [hbefore] at htick; simp at htick
  | nilPanic reset lv00 l h hs hp hq hst hl =>
    have := entryLv_qs hst
    have hc : lv00.quoteStarted = false := hg.chain
    rw [hc] at this; cases this
  | delegate reset lv00 q qs l r0 h hs hp hq hst hr0 ih =>
    apply stepOK_finish
    have hstk := entryLv_stack reset lv00
    have hS : lv00.spanStack = [] := by rw [← hstk]; simpa using hs
    have hrs : entryRs reset lv00 = true → stacks (q :: qs) = [] := closed_of_rs hg.path hreset
    obtain ⟨⟨a, t, h1, h2, hg', hnl⟩, hlifo, hpre⟩ := ih (G_inner hg) hrs
    have he := entryLv_entryGood (reset := reset) hg.good.1
    have hSe : (entryLv reset lv00).spanStack = [] := by rw [hstk]; exact hS
    have hsE : stacks (entryLv reset lv00 :: r0.2.1 :: r0.2.2) = stacks (r0.2.1 :: r0.2.2) := by
      rw [stacks_cons, hSe]; rfl
    have hsB : stacks (lv00 :: q :: qs) = stacks (q :: qs) := by rw [stacks_cons, hS]; rfl
    refine ⟨⟨a, t, h1, h2, ⟨⟨he.good, ?_⟩, hg'.chain, ⟨?_, hg'.pre⟩, ?_⟩, ?_⟩, ?_, ?_⟩
    · intro x hx
      simp only [List.mem_cons] at hx
      rcases hx with rfl | hx
      · exact hg'.good.1
      · exact hg'.good.2 x hx
    · exact entryLv_not_effPre hp
    · exact ⟨hSe, fun _ => ⟨hst, entryLv_lastNewline _ _⟩, hg'.path⟩
    · intro hm; rw [hsE]; exact hnl hm
    · rw [hsE, hsB]; exact hlifo
    · rw [hsE, hsB]; exact hpre
  | block reset lv00 inner0 h hs hp hq hst =>
    apply stepOK_finish
    have hstk := entryLv_stack reset lv00
    have hS : lv00.spanStack = [] := by rw [← hstk]; simpa using hs
    have hSe : (entryLv reset lv00).spanStack = [] := by rw [hstk]; exact hS
    have hcl : stacks inner0 = [] := by
      cases hq' : (entryLv reset lv00).quoteStarted with
      | false => exact closed_of_not_started hg.path hreset hq'
      | true => rw [hst hq']; rfl
    have hbefore : stacks (lv00 :: inner0) = [] := by rw [stacks_cons, hS, hcl]; rfl
    have he := entryLv_entryGood (reset := reset) hg.good.1
    obtain ⟨a, t, h1, h2, h3, h4, h5, h6, h7, h8⟩ := scanBlock_bracket R hne he hSe (entryLv_not_effPre hp)
    have hqf : (scanBlock (entryLv reset lv00) R true).2.quoteStarted = false := by
      rw [h8]
      cases hq' : (entryLv reset lv00).quoteStarted with
      | false => rfl
      | true =>
        have h1' := entryLv_qs hq'
        have h2' := hst hq'
        subst h2'
        have hc : lv00.quoteStarted = false := hg.chain
        rw [hc] at h1'; cases h1'
    refine ⟨⟨a, t, h1, h2, ⟨⟨h5, by simp⟩, hqf, trivial, ⟨h3, fun _ => ?_⟩⟩, ?_⟩, ?_, ?_⟩
    · rw [h7]; exact entryLv_lastNewline _ _
    · intro hm
      rw [stacks_single]
      apply Classical.byContradiction
      intro hne'
      exact h4 hne' hm
    · rw [hbefore, stacks_single]
      rcases h6 with h' | ⟨b, h'⟩
      · left; exact h'
      · right; left; exact ⟨b, h'⟩
    · intro htick; rw [hbefore] at htick; simp at htick

end XmppModel.Styling
