import XmppModel.Lemmas.Negotiate
/-!
The tee is transparent: a session whose `StreamConfig` carries `TeeIn`/`TeeOut` (`stepT true`)
goes through exactly the configurations of a session without, plus the extra negotiator calls
that only wrap the connection.
-/
namespace XmppModel.Negotiate

/-- `step` never enters the tee point -/
theorem step_ne_tee (C : List Feature) (O : Oracle) (c : Conf) (h : c.pc ≠ .tee) :
    (step C O c).pc ≠ .tee := by
  revert h
  step_all
  all_goals first
    | (intro h; exact h)
    | (intro _ h; cases h; done)
    | skip

theorem run_ne_tee (C : List Feature) (O : Oracle) (n : Nat) (c : Conf) (h : c.pc ≠ .tee) :
    (run C O n c).pc ≠ .tee := by
  induction n with
  | zero => exact h
  | succ n ih => rw [run_succ]; exact step_ne_tee C O _ ih

/-- after a restart `negotiateSession` is back at its loop head with nothing negotiated -/
theorem step_ret_restart (C : List Feature) (O : Oracle) (c : Conf) (m : St)
    (hpc : c.pc = .ret m true) (hc : O.cancel c.tr = false) :
    (step C O c).pc = .top ∧ (step C O c).negd = [] := by
  unfold step
  simp [hpc, hc]

/-- the state in which the tee run is "in step" with the plain run: its connection is wrapped, or
it is at the loop head with nothing negotiated (so wrapping changes nothing), or it is over -/
def TeeGood (t : TConf) : Prop :=
  t.teed = true ∨ (t.c.pc = .top ∧ t.c.negd = []) ∨ t.c.pc.final = true

theorem tee_roundtrip (c : Conf) (h1 : c.pc = .top) (h2 : c.negd = []) :
    { c.goto .tee with negd := [], pc := .top } = c := by
  cases c
  simp_all [Conf.goto]

theorem runT_succ (tee : Bool) (C : List Feature) (O : Oracle) (n : Nat) (t : TConf) :
    runT tee C O (n + 1) t = stepT tee C O (runT tee C O n t) := by
  induction n generalizing t with
  | zero => rfl
  | succ n ih => rw [runT, ih]; rfl

theorem step_top_ready (C : List Feature) (O : Oracle) (c : Conf) (h1 : c.pc = .top)
    (h2 : has c.st bReady = true) : (step C O c).pc = .done := by
  unfold step; simp [h1, h2, Conf.goto]

theorem step_of_final (C : List Feature) (O : Oracle) (c : Conf) (h : c.pc.final = true) :
    step C O c = c := by
  unfold step
  cases hp : c.pc <;> simp_all [Pc.final]

/-- a plain step of the tee run, when the negotiator does not wrap -/
theorem stepT_plain (C : List Feature) (O : Oracle) (t : TConf) (h1 : t.c.pc ≠ .tee)
    (h2 : ¬(t.c.pc = .top ∧ has t.c.st bReady = false ∧ t.teed = false)) :
    (stepT true C O t).c = step C O t.c ∧
    (stepT true C O t).teed = (match t.c.pc with
      | .ret _ true => if layerOfLast O t.c.tr then false else t.teed
      | _ => t.teed) := by
  unfold stepT
  simp only [h1, if_false]
  rw [if_neg (by intro h; exact h2 ⟨h.2.1, h.2.2.1, h.2.2.2⟩)]
  exact ⟨rfl, rfl⟩

/-- **simulation**: every configuration of the run without a tee is reached by the run with a
tee (no cancellation: a cancelled context is noticed one negotiator call earlier with a tee) -/
theorem tee_simulation (C : List Feature) (O : Oracle) (hc : ∀ tr, O.cancel tr = false)
    (c0 : Conf) (h0 : c0.pc = .top) (hn : c0.negd = []) :
    ∀ n, ∃ m, (runT true C O m ⟨c0, false⟩).c = run C O n c0 ∧ TeeGood (runT true C O m ⟨c0, false⟩) := by
  intro n
  induction n with
  | zero => exact ⟨0, rfl, Or.inr (Or.inl ⟨h0, hn⟩)⟩
  | succ n ih =>
    obtain ⟨m, hm, hg⟩ := ih
    have hne : (run C O n c0).pc ≠ .tee := run_ne_tee C O n c0 (by rw [h0]; intro h; cases h)
    generalize ht : runT true C O m ⟨c0, false⟩ = t at hm hg
    have hnt : t.c.pc ≠ .tee := by rw [hm]; exact hne
    by_cases htr : t.c.pc = .top ∧ has t.c.st bReady = false ∧ t.teed = false
    · -- the negotiator wraps the connection: two extra steps, then the plain step
      obtain ⟨hp, hr, htd⟩ := htr
      have hneg : t.c.negd = [] := by
        rcases hg with h | ⟨_, h⟩ | h
        · rw [htd] at h; cases h
        · exact h
        · rw [hp] at h; cases h
      have e1 : stepT true C O t = ⟨t.c.goto .tee, t.teed⟩ := by
        unfold stepT
        rw [if_neg hnt, if_pos ⟨rfl, hp, hr, htd⟩]
      have e2 : stepT true C O ⟨t.c.goto .tee, t.teed⟩ = ⟨t.c, true⟩ := by
        unfold stepT
        simp only [Conf.goto, if_true, hc, Bool.false_eq_true, if_false]
        have := tee_roundtrip t.c hp hneg
        simp only [Conf.goto] at this
        rw [this]
      have e3 := stepT_plain C O ⟨t.c, true⟩ hnt (by intro h; cases h.2.2)
      refine ⟨m + 3, ?_, ?_⟩
      · rw [runT_succ, runT_succ, runT_succ, ht, e1, e2, e3.1, run_succ, hm]
      · rw [runT_succ, runT_succ, runT_succ, ht, e1, e2]
        left
        rw [e3.2]
        simp only [hp]
    · -- a plain step
      have e := stepT_plain C O t hnt htr
      refine ⟨m + 1, ?_, ?_⟩
      · rw [runT_succ, ht, e.1, run_succ, hm]
      · rw [runT_succ, ht]
        unfold TeeGood
        rw [e.1, e.2]
        by_cases hfin : t.c.pc.final = true
        · right; right
          rw [step_of_final C O t.c hfin]; exact hfin
        · rcases hg with h | ⟨h1, h2⟩ | h
          · -- wrapped: stays wrapped unless a restart brought a new layer
            cases hpc : t.c.pc
            case ret m' r =>
              cases r
              · left; simp [h]
              · by_cases hl : layerOfLast O t.c.tr = true
                · right; left
                  exact step_ret_restart C O t.c m' hpc (hc _)
                · left; simp [hl, h]
            all_goals (left; simp [h])
          · -- at the loop head and the negotiator did not wrap
            cases htd : t.teed
            · -- not wrapped and not wrapping: the session is ready
              have hr : has t.c.st bReady = true := by
                cases hb : has t.c.st bReady
                · exact absurd ⟨h1, hb, htd⟩ htr
                · rfl
              right; right
              rw [step_top_ready C O t.c h1 hr]; rfl
            · left; simp [h1]
          · exact absurd h hfin

end XmppModel.Negotiate
