import XmppModel.Model.Mux
/-! Helper lemmas for C14. -/
namespace XmppModel.Mux
open XmppModel.Xml

theorem firstHit_some {has : Name → Bool} {l : List Name} {s : Name}
    (h : firstHit has l = some s) : has s = true ∧ s ∈ l := by
  induction l with
  | nil => simp [firstHit] at h
  | cons a l ih =>
    unfold firstHit at h
    by_cases ha : has a = true
    · simp [ha] at h; subst h; simp [ha]
    · simp [ha] at h
      have := ih h
      exact ⟨this.1, List.mem_cons_of_mem _ this.2⟩

theorem firstHit_none {has : Name → Bool} {l : List Name}
    (h : firstHit has l = none) : ∀ s ∈ l, has s = false := by
  induction l with
  | nil => simp
  | cons a l ih =>
    unfold firstHit at h
    by_cases ha : has a = true
    · simp [ha] at h
    · simp [ha] at h
      intro s hs
      rcases List.mem_cons.mp hs with rfl | hs
      · simpa using ha
      · exact ih h s hs

/-- everything before the hit is not registered -/
theorem firstHit_before {has : Name → Bool} {l : List Name} {s : Name}
    (h : firstHit has l = some s) :
    ∃ pre post, l = pre ++ s :: post ∧ ∀ x ∈ pre, has x = false := by
  induction l with
  | nil => simp [firstHit] at h
  | cons a l ih =>
    unfold firstHit at h
    by_cases ha : has a = true
    · simp [ha] at h; subst h
      exact ⟨[], l, rfl, by simp⟩
    · simp [ha] at h
      obtain ⟨pre, post, hl, hpre⟩ := ih h
      refine ⟨a :: pre, post, by simp [hl], ?_⟩
      intro x hx
      rcases List.mem_cons.mp hx with rfl | hx
      · simpa using ha
      · exact hpre x hx

theorem matchesName_cases {q n : Name} (h : matchesName q n = true) :
    q = n ∨ q = ⟨"", n.loc⟩ ∨ q = ⟨n.space, ""⟩ ∨ q = ⟨"", ""⟩ := by
  rcases q with ⟨qs, ql⟩
  rcases n with ⟨ns, nl⟩
  simp only [matchesName, Bool.and_eq_true, Bool.or_eq_true, beq_iff_eq] at h
  rcases h with ⟨h1 | h1, h2 | h2⟩ <;> subst h1 <;> subst h2 <;> simp

theorem matchesName_shapes (n : Name) : ∀ s ∈ shapes .iq n, matchesName s n = true := by
  intro s hs
  simp only [shapes, List.mem_cons, List.not_mem_nil, or_false] at hs
  rcases hs with rfl | rfl | rfl | rfl <;> simp [matchesName]

/-- the BR invariant: advancing never loses or reorders tokens -/
theorem BR.advance_inv (b : BR) (n : Nat) :
    (b.advance n).buf ++ (b.advance n).rest = b.buf ++ b.rest := by
  simp [BR.advance, List.append_assoc]

theorem BR.advance_len (b : BR) (n : Nat) : b.buf.length ≤ (b.advance n).buf.length := by
  simp [BR.advance]

theorem BR.advance_prefix (b : BR) (n : Nat) : b.buf <+: (b.advance n).buf := by
  simp [BR.advance]

/-- reference semantics of the per-child loop that does not thread any buffer: every invoked
handler simply reads the stanza from its first token -/
def specCalls (tbl : Table) (k : Kind) (typ : String) (stanza : List Tok) :
    List (Nat × Name) → List Nat → List Call
  | [], _ => []
  | (_, n) :: cs, cons =>
    match lookup tbl k typ n with
    | none => { pat := none, view := [] } :: specCalls tbl k typ stanza cs cons
    | some p => { pat := some p, view := stanza.take (cons.headD 0) } :: specCalls tbl k typ stanza cs cons.tail

theorem dispatchChildren_spec (tbl : Table) (k : Kind) (typ : String) (stanza : List Tok) :
    ∀ (cs : List (Nat × Name)) (cons : List Nat) (b : BR), b.buf ++ b.rest = stanza →
      (dispatchChildren tbl k typ cs cons b).1 = specCalls tbl k typ stanza cs cons ∧
      (dispatchChildren tbl k typ cs cons b).2.buf ++ (dispatchChildren tbl k typ cs cons b).2.rest = stanza := by
  intro cs
  induction cs with
  | nil => intro cons b hb; simp [dispatchChildren, specCalls, hb]
  | cons c cs ih =>
    intro cons b hb
    obtain ⟨pos, n⟩ := c
    have h1 : (b.advance (pos + 1)).buf ++ (b.advance (pos + 1)).rest = stanza := by
      rw [BR.advance_inv, hb]
    unfold dispatchChildren specCalls
    cases hl : lookup tbl k typ n with
    | none =>
      simp only []
      have := ih cons (b.advance (pos + 1)) h1
      exact ⟨by rw [this.1], this.2⟩
    | some p =>
      simp only [BR.handlerRead]
      have h2 : ((b.advance (pos + 1)).advance (cons.headD 0)).buf ++
          ((b.advance (pos + 1)).advance (cons.headD 0)).rest = stanza := by
        rw [BR.advance_inv, h1]
      have := ih cons.tail _ h2
      exact ⟨by rw [this.1, h1], this.2⟩

end XmppModel.Mux
