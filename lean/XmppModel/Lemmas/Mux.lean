import XmppModel.Model.Mux
/-! Helper lemmas for C14. -/
namespace XmppModel.Mux
open XmppModel.Xml

theorem firstHit_some {has : Name → Bool} {l : List Name} {s : Name}
    (h : firstHit has l = some s) : has s = true ∧ s ∈ l := by
  induction l with
  | nil => simp [firstHit] at h
  | cons a l ih =>
    unfold firstHit at h
    by_cases ha : has a = true
    · simp [ha] at h; subst h; simp [ha]
    · simp [ha] at h
      have := ih h
      exact ⟨this.1, List.mem_cons_of_mem _ this.2⟩

theorem firstHit_none {has : Name → Bool} {l : List Name}
    (h : firstHit has l = none) : ∀ s ∈ l, has s = false := by
  induction l with
  | nil => simp
  | cons a l ih =>
    unfold firstHit at h
    by_cases ha : has a = true
    · simp [ha] at h
    · simp [ha] at h
      intro s hs
      rcases List.mem_cons.mp hs with rfl | hs
      · simpa using ha
      · exact ih h s hs

/-- everything before the hit is not registered -/
theorem firstHit_before {has : Name → Bool} {l : List Name} {s : Name}
    (h : firstHit has l = some s) :
    ∃ pre post, l = pre ++ s :: post ∧ ∀ x ∈ pre, has x = false := by
  induction l with
  | nil => simp [firstHit] at h
  | cons a l ih =>
    unfold firstHit at h
    by_cases ha : has a = true
    · simp [ha] at h; subst h
      exact ⟨[], l, rfl, by simp⟩
    · simp [ha] at h
      obtain ⟨pre, post, hl, hpre⟩ := ih h
      refine ⟨a :: pre, post, by simp [hl], ?_⟩
      intro x hx
      rcases List.mem_cons.mp hx with rfl | hx
      · simpa using ha
      · exact hpre x hx

theorem matchesName_cases {q n : Name} (h : matchesName q n = true) :
    q = n ∨ q = ⟨"", n.loc⟩ ∨ q = ⟨n.space, ""⟩ ∨ q = ⟨"", ""⟩ := by
  rcases q with ⟨qs, ql⟩
  rcases n with ⟨ns, nl⟩
  simp only [matchesName, Bool.and_eq_true, Bool.or_eq_true, beq_iff_eq] at h
  rcases h with ⟨h1 | h1, h2 | h2⟩ <;> subst h1 <;> subst h2 <;> simp

theorem matchesName_shapes (n : Name) : ∀ s ∈ shapes .iq n, matchesName s n = true := by
  intro s hs
  simp only [shapes, List.mem_cons, List.not_mem_nil, or_false] at hs
  rcases hs with rfl | rfl | rfl | rfl <;> simp [matchesName]

/-- the BR invariant: advancing never loses or reorders tokens -/
theorem BR.advance_inv (b : BR) (n : Nat) :
    (b.advance n).buf ++ (b.advance n).rest = b.buf ++ b.rest := by
  simp [BR.advance, List.append_assoc]

theorem BR.advance_len (b : BR) (n : Nat) : b.buf.length ≤ (b.advance n).buf.length := by
  simp [BR.advance]

theorem BR.advance_prefix (b : BR) (n : Nat) : b.buf <+: (b.advance n).buf := by
  simp [BR.advance]

/-- reference semantics of the per-child loop that does not thread any buffer: every invoked
handler simply reads the stanza from its first token -/
def specCalls (tbl : Table) (k : Kind) (typ : String) (stanza : List Tok) :
    List (Nat × Name) → List Nat → List Call
  | [], _ => []
  | (_, n) :: cs, cons =>
    match lookup tbl k typ n with
    | none => { pat := none, view := [] } :: specCalls tbl k typ stanza cs cons
    | some p => { pat := some p, view := stanza.take (cons.headD 0) } :: specCalls tbl k typ stanza cs cons.tail

theorem dispatchChildren_spec (tbl : Table) (k : Kind) (typ : String) (stanza : List Tok) :
    ∀ (cs : List (Nat × Name)) (cons : List Nat) (b : BR), b.buf ++ b.rest = stanza →
      (dispatchChildren tbl k typ cs cons b).1 = specCalls tbl k typ stanza cs cons ∧
      (dispatchChildren tbl k typ cs cons b).2.buf ++ (dispatchChildren tbl k typ cs cons b).2.rest = stanza := by
  intro cs
  induction cs with
  | nil => intro cons b hb; simp [dispatchChildren, specCalls, hb]
  | cons c cs ih =>
    intro cons b hb
    obtain ⟨pos, n⟩ := c
    have h1 : (b.advance (pos + 1)).buf ++ (b.advance (pos + 1)).rest = stanza := by
      rw [BR.advance_inv, hb]
    unfold dispatchChildren specCalls
    cases hl : lookup tbl k typ n with
    | none =>
      simp only []
      have := ih cons (b.advance (pos + 1)) h1
      exact ⟨by rw [this.1], this.2⟩
    | some p =>
      simp only [BR.handlerRead]
      have h2 : ((b.advance (pos + 1)).advance (cons.headD 0)).buf ++
          ((b.advance (pos + 1)).advance (cons.headD 0)).rest = stanza := by
        rw [BR.advance_inv, h1]
      have := ih cons.tail _ h2
      exact ⟨by rw [this.1, h1], this.2⟩

/-! ### `bufReader.Token` call by call -/

/-- reading `c` times through a `bufReader` whose offset lies inside its buffer yields the next
`c` tokens of `buf ++ rest` from the offset, whichever way the underlying reader reports the end
of its input, and the buffer afterwards holds every token that was handed out -/
theorem BufR.readN_spec (f : Framing) : ∀ (c : Nat) (pre post : List Tok) (off : Nat),
    off ≤ pre.length →
    (BufR.readN f c ⟨pre, off, post⟩).1 = ((pre ++ post).drop off).take c ∧
    (BufR.readN f c ⟨pre, off, post⟩).2.buf = pre ++ post.take (off + c - pre.length) ∧
    (BufR.readN f c ⟨pre, off, post⟩).2.rest = post.drop (off + c - pre.length) := by
  intro c
  induction c with
  | zero =>
    intro pre post off h
    have : off - pre.length = 0 := by omega
    simp [BufR.readN, this]
  | succ c ih =>
    intro pre post off h
    unfold BufR.readN BufR.token
    cases hg : pre[off]? with
    | some t =>
      have hlt : off < pre.length := by
        rcases List.getElem?_eq_some_iff.mp hg with ⟨h1, _⟩; exact h1
      have hget : pre[off] = t := by
        rcases List.getElem?_eq_some_iff.mp hg with ⟨_, h2⟩; exact h2
      have hih := ih pre post (off + 1) (by omega)
      have hd : (pre ++ post).drop off = t :: (pre ++ post).drop (off + 1) := by
        have hl : off < (pre ++ post).length := by simp; omega
        rw [List.drop_eq_getElem_cons hl]
        simp [List.getElem_append_left hlt, hget]
      simp only []
      refine ⟨?_, ?_, ?_⟩
      · rw [hih.1, hd]; simp
      · rw [hih.2.1]; congr 2; omega
      · rw [hih.2.2]; congr 1; omega
    | none =>
      have hoff : off = pre.length := by
        have := List.getElem?_eq_none_iff.mp hg; omega
      subst hoff
      cases post with
      | nil => simp [srcToken]
      | cons t ts =>
        simp only [srcToken]
        cases he : (ts.isEmpty && f == Framing.eof) with
        | false =>
          have hih := ih (pre ++ [t]) ts (pre.length + 1) (by simp)
          simp only []
          refine ⟨?_, ?_, ?_⟩
          · have hdn : List.drop (pre.length + 1) pre = [] := List.drop_eq_nil_of_le (by omega)
            rw [hih.1]; simp [List.drop_append, hdn]
          · rw [hih.2.1]
            have e1 : pre.length + 1 + c - (pre ++ [t]).length = c := by simp
            have e2 : pre.length + (c + 1) - pre.length = c + 1 := by omega
            rw [e1, e2]; simp
          · rw [hih.2.2]
            have e1 : pre.length + 1 + c - (pre ++ [t]).length = c := by simp
            have e2 : pre.length + (c + 1) - pre.length = c + 1 := by omega
            rw [e1, e2]; simp
        | true =>
          have hts : ts = [] := by
            cases ts with
            | nil => rfl
            | cons a b => simp at he
          subst hts
          have e2 : pre.length + (c + 1) - pre.length = c + 1 := by omega
          simp [e2, List.drop_append]

/-- the call-by-call reader and the abstract `handlerRead` agree, for both framings -/
theorem BR.stepRead_eq (f : Framing) (b : BR) (c : Nat) : b.stepRead f c = b.handlerRead c := by
  have h := BufR.readN_spec f c b.buf b.rest 0 (Nat.zero_le _)
  simp only [BR.stepRead, BR.handlerRead, BR.advance]
  rw [Prod.mk.injEq]
  refine ⟨by simpa using h.1, ?_⟩
  have h1 := h.2.1
  have h2 := h.2.2
  simp only [Nat.zero_add] at h1 h2
  rw [h1, h2]

theorem dispatchChildrenG_eq (f : Framing) (tbl : Table) (k : Kind) (typ : String) :
    ∀ (cs : List (Nat × Name)) (cons : List Nat) (b : BR),
      dispatchChildrenG (BR.stepRead f) tbl k typ cs cons b = dispatchChildren tbl k typ cs cons b := by
  intro cs
  induction cs with
  | nil => intro cons b; simp [dispatchChildrenG, dispatchChildren]
  | cons c cs ih =>
    intro cons b
    obtain ⟨pos, n⟩ := c
    unfold dispatchChildrenG dispatchChildren
    cases hl : lookup tbl k typ n with
    | none => simp only [ih]
    | some p => simp only [ih, BR.stepRead_eq]

theorem BR.advance_all (b : BR) :
    b.advance (b.buf ++ b.rest).length = { buf := b.buf ++ b.rest, rest := [] } := by
  have : (b.buf ++ b.rest).length - b.buf.length = b.rest.length := by simp
  simp [BR.advance, this]

theorem forChildrenF_eq (f : Framing) (tbl : Table) (k : Kind) (typ : String) (stanza : List Tok)
    (cons : List Nat) : forChildrenF f tbl k typ stanza cons = forChildren tbl k typ stanza cons := by
  cases stanza with
  | nil => rfl
  | cons start body =>
    simp only [forChildrenF, forChildren, dispatchChildrenG_eq]
    have hs := dispatchChildren_spec tbl k typ (start :: body) (children (start :: body)) cons
      ⟨[start], body⟩ rfl
    generalize dispatchChildren tbl k typ (children (start :: body)) cons ⟨[start], body⟩ = res at hs
    obtain ⟨calls, b⟩ := res
    have hinv : b.buf ++ b.rest = start :: body := hs.2
    have hadv : b.advance (start :: body).length = { buf := start :: body, rest := [] } := by
      rw [← hinv]; exact BR.advance_all b
    simp only [hadv, BR.stepRead_eq, BR.handlerRead, List.append_nil]


/-! ### the header read from the start element -/

theorem foldl_hdrStep_filter (k : Kind) (attrs : List Attr) : ∀ h : Hdr,
    attrs.foldl (hdrStep k) h = (attrs.filter fun a => a.name.space == "").foldl (hdrStep k) h := by
  induction attrs with
  | nil => intro h; rfl
  | cons a as ih =>
    intro h
    by_cases hs : a.name.space = ""
    · simp [hs, ih]
    · have : hdrStep k h a = h := by simp [hdrStep, hs]
      simp [hs, this, ih]

theorem stanzaHdr_filter (k : Kind) (attrs : List Attr) :
    stanzaHdr k attrs = stanzaHdr k (attrs.filter fun a => a.name.space == "") :=
  foldl_hdrStep_filter k attrs _

theorem hdrStep_typ_other (k : Kind) (h : Hdr) (a : Attr) (ha : ownAttr a "type" = false) :
    (hdrStep k h a).typ = h.typ := by
  unfold hdrStep
  by_cases hs : a.name.space = ""
  · have hl : a.name.loc ≠ "type" := by simpa [ownAttr, hs] using ha
    simp only [hs, bne_self_eq_false, Bool.false_eq_true, if_false]
    split
    · rename_i h1; simp at h1; exact absurd h1 hl
    · split
      · rfl
      · split
        · split <;> rfl
        · split
          · split <;> rfl
          · rfl
  · simp [hs]

theorem foldl_hdrStep_typ (k : Kind) (attrs : List Attr) : ∀ h : Hdr,
    (∀ a ∈ attrs, ownAttr a "type" = false) → (attrs.foldl (hdrStep k) h).typ = h.typ := by
  induction attrs with
  | nil => intro h _; rfl
  | cons a as ih =>
    intro h hall
    simp only [List.foldl_cons]
    rw [ih _ (fun b hb => hall b (List.mem_cons_of_mem _ hb))]
    exact hdrStep_typ_other k h a (hall a (List.mem_cons_self ..))

end XmppModel.Mux
