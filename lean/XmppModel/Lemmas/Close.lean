import XmppModel.Model.Close
/-! Inductiveness of the closing invariant (C10, interleavings). -/
namespace XmppModel.Close.Lts

@[simp] theorem setPc_same (pc : Nat → Pc) (i : Nat) (v : Pc) : setPc pc i v i = v := by simp [setPc]
theorem setPc_other (pc : Nat → Pc) {i j : Nat} (v : Pc) (h : j ≠ i) : setPc pc i v j = pc j := by
  simp [setPc, h]

theorem closes_append (a b : List Ev) : closes (a ++ b) = closes a ++ closes b := by
  simp [closes]

/-- all senders test the closed bit under the lock (the code after the repair) -/
def AllCheck (kind : Nat → Kind) : Prop := ∀ i n c, kind i = .sender n c → c = true

theorem inv_init (kind : Nat → Kind) : Inv kind init where
  holder := by intro i h; simp [init, inCrit] at h
  held := by intro i h; simp [init] at h
  writing := by intro i k h; simp [init] at h
  phase := .open_ rfl rfl (by intro i; simp [init])
  closer_done := by intro i b _ h; simp [init] at h

/-- a goroutine that is not in its critical section stays out of the way of the holder -/
theorem other_pc {s : St} {i j : Nat} (v : Pc) (h : j ≠ i) : setPc s.pc i v j = s.pc j := setPc_other _ _ h

/-- the closing phase is stable under a step that touches neither `closed` nor `wire` and
neither creates nor is a `marked` goroutine -/
theorem phase_keep {s s' : St} (ph : Phase s) (hc : s'.closed = s.closed) (hw : s'.wire = s.wire)
    (hl : ∀ i, s.lock = some i → s.pc i = .marked → s'.lock = some i ∧ s'.pc i = .marked)
    (hm : ∀ i, s'.pc i = .marked → s.pc i = .marked) : Phase s' := by
  cases ph with
  | open_ c w m => exact .open_ (hc ▸ c) (hw ▸ w) (fun i h => m i (hm i h))
  | marking i c w l p =>
    obtain ⟨l', p'⟩ := hl i l p
    exact .marking i (hc ▸ c) (hw ▸ w) l' p'
  | shut pre j c w hp m => exact .shut pre j (hc ▸ c) (hw ▸ w) hp (fun i h => m i (hm i h))

theorem inv_step (kind : Nat → Kind) (hk : AllCheck kind) (s s' : St) (i : Nat)
    (inv : Inv kind s) (h : step kind s i = some s') : Inv kind s' := by
  unfold step at h
  cases hpc : s.pc i with
  | idle =>
    rw [hpc] at h; dsimp only at h
    cases hlk : s.lock with
    | some j => rw [hlk] at h; cases h
    | none =>
      rw [hlk] at h
      simp only [Option.some.injEq] at h
      subst h
      refine ⟨?_, ?_, ?_, ?_, ?_⟩
      · intro j hj; dsimp only at hj ⊢
        by_cases hji : j = i
        · subst hji; rfl
        · rw [setPc_other _ _ hji] at hj
          have := inv.holder j hj; rw [hlk] at this; cases this
      · intro j hj; dsimp only at hj ⊢
        have : j = i := (Option.some.inj hj).symm
        subst this; simp [inCrit]
      · intro j k hj; dsimp only at hj ⊢
        by_cases hji : j = i
        · subst hji; simp at hj
        · rw [setPc_other _ _ hji] at hj; exact inv.writing j k hj
      · refine phase_keep inv.phase (by rfl) (by rfl) ?_ ?_
        · intro j hl; rw [hlk] at hl; cases hl
        · intro j hj; dsimp only at hj
          by_cases hji : j = i
          · subst hji; simp at hj
          · rwa [setPc_other _ _ hji] at hj
      · intro j b hkj hj; dsimp only at hj ⊢
        by_cases hji : j = i
        · subst hji; simp at hj
        · rw [setPc_other _ _ hji] at hj; exact inv.closer_done j b hkj hj
  | locked =>
    rw [hpc] at h; dsimp only at h
    have hlock : s.lock = some i := inv.holder i (by simp [hpc, inCrit])
    -- nobody else is in a critical section
    have hout : ∀ j, j ≠ i → inCrit (s.pc j) = false := by
      intro j hji
      cases hc : inCrit (s.pc j) with
      | false => rfl
      | true =>
        have := inv.holder j hc; rw [hlock] at this
        exact absurd (Option.some.inj this).symm hji
    have hnomark : ∀ j, s.pc j ≠ .marked := by
      intro j hj
      by_cases hji : j = i
      · subst hji; rw [hpc] at hj; cases hj
      · have := hout j hji; rw [hj] at this; simp [inCrit] at this
    -- generic pieces for the three "release and finish" / "advance" shapes
    have release : ∀ (b : Bool) (hcl : s.closed = true) (hkc : kind i = .closer → b = true),
        Inv kind { s with lock := none, pc := setPc s.pc i (.done b) } := by
      intro b hcl hkc
      have hshut : ∃ pre j, s.wire = pre ++ [.close j] ∧ closes pre = [] := by
        cases inv.phase with
        | open_ c _ _ => rw [hcl] at c; cases c
        | marking j _ _ _ p => exact absurd p (hnomark j)
        | shut pre j _ w hp _ => exact ⟨pre, j, w, hp⟩
      obtain ⟨pre, jc, hw, hp⟩ := hshut
      refine ⟨?_, ?_, ?_, ?_, ?_⟩
      · intro j hj; dsimp only at hj ⊢
        by_cases hji : j = i
        · subst hji; simp [inCrit] at hj
        · rw [setPc_other _ _ hji, hout j hji] at hj; cases hj
      · intro j hj; cases hj
      · intro j k hj; dsimp only at hj ⊢
        by_cases hji : j = i
        · subst hji; simp at hj
        · rw [setPc_other _ _ hji] at hj; exact inv.writing j k hj
      · refine .shut pre jc hcl hw hp ?_
        intro j hj; dsimp only at hj
        by_cases hji : j = i
        · subst hji; simp at hj
        · rw [setPc_other _ _ hji] at hj; exact hnomark j hj
      · intro j b' _ _; exact ⟨pre, jc, hw⟩
    have mark : ∀ (hcl : s.closed = false),
        Inv kind { s with closed := true, pc := setPc s.pc i .marked } := by
      intro hcl
      have hw0 : closes s.wire = [] := by
        cases inv.phase with
        | open_ _ w _ => exact w
        | marking _ c _ _ _ => rw [hcl] at c; cases c
        | shut _ _ c _ _ _ => rw [hcl] at c; cases c
      refine ⟨?_, ?_, ?_, ?_, ?_⟩
      · intro j hj; dsimp only at hj ⊢
        by_cases hji : j = i
        · subst hji; exact hlock
        · rw [setPc_other _ _ hji, hout j hji] at hj; cases hj
      · intro j hj; dsimp only at hj ⊢
        have : j = i := by rw [hlock] at hj; exact (Option.some.inj hj).symm
        subst this; simp [inCrit]
      · intro j k hj; dsimp only at hj ⊢
        by_cases hji : j = i
        · subst hji; simp at hj
        · rw [setPc_other _ _ hji] at hj
          have := hout j hji; rw [hj] at this; simp [inCrit] at this
      · exact .marking i rfl hw0 hlock (by simp)
      · intro j b hkj hj; dsimp only at hj ⊢
        by_cases hji : j = i
        · subst hji; simp at hj
        · rw [setPc_other _ _ hji] at hj; exact inv.closer_done j b hkj hj
    cases hki : kind i with
    | closer =>
      rw [hki] at h; dsimp only at h
      by_cases hcl : s.closed = true
      · rw [if_pos hcl] at h; simp only [Option.some.injEq] at h; subst h
        exact release true hcl (fun _ => rfl)
      · rw [if_neg hcl] at h; simp only [Option.some.injEq] at h; subst h
        exact mark (by simpa using hcl)
    | errSender =>
      rw [hki] at h; dsimp only at h
      by_cases hcl : s.closed = true
      · rw [if_pos hcl] at h; simp only [Option.some.injEq] at h; subst h
        exact release false hcl (fun hc => by rw [hki] at hc; cases hc)
      · rw [if_neg hcl] at h; simp only [Option.some.injEq] at h; subst h
        exact mark (by simpa using hcl)
    | sender n c =>
      rw [hki] at h; dsimp only at h
      have hc : c = true := hk i n c hki
      subst hc
      by_cases hcl' : s.closed = true
      · have e : (true && s.closed) = true := by simp [hcl']
        rw [if_pos e] at h; simp only [Option.some.injEq] at h; subst h
        exact release false hcl' (fun hc => by rw [hki] at hc; cases hc)
      · have hcl : s.closed = false := by simpa using hcl'
        have e : ¬ ((true && s.closed) = true) := by simp [hcl]
        rw [if_neg e] at h; simp only [Option.some.injEq] at h; subst h
        refine ⟨?_, ?_, ?_, ?_, ?_⟩
        · intro j hj; dsimp only at hj ⊢
          by_cases hji : j = i
          · subst hji; exact hlock
          · rw [setPc_other _ _ hji, hout j hji] at hj; cases hj
        · intro j hj; dsimp only at hj ⊢
          have : j = i := by rw [hlock] at hj; exact (Option.some.inj hj).symm
          subst this; simp [inCrit]
        · intro j k hj; exact hcl
        · refine phase_keep inv.phase (by rfl) (by rfl) ?_ ?_
          · intro j _ hm; exact absurd hm (hnomark j)
          · intro j hj; dsimp only at hj
            by_cases hji : j = i
            · subst hji; simp at hj
            · rwa [setPc_other _ _ hji] at hj
        · intro j b hkj hj; dsimp only at hj ⊢
          by_cases hji : j = i
          · subst hji; simp at hj
          · rw [setPc_other _ _ hji] at hj; exact inv.closer_done j b hkj hj
  | wrote k =>
    rw [hpc] at h; dsimp only at h
    have hlock : s.lock = some i := inv.holder i (by simp [hpc, inCrit])
    have hcl : s.closed = false := inv.writing i k hpc
    have hout : ∀ j, j ≠ i → inCrit (s.pc j) = false := by
      intro j hji
      cases hc : inCrit (s.pc j) with
      | false => rfl
      | true =>
        have := inv.holder j hc; rw [hlock] at this
        exact absurd (Option.some.inj this).symm hji
    have hopen : closes s.wire = [] ∧ ∀ j, s.pc j ≠ .marked := by
      cases inv.phase with
      | open_ _ w m => exact ⟨w, m⟩
      | marking _ c _ _ _ => rw [hcl] at c; cases c
      | shut _ _ c _ _ _ => rw [hcl] at c; cases c
    cases hki : kind i with
    | closer => rw [hki] at h; cases h
    | errSender => rw [hki] at h; cases h
    | sender n c =>
      rw [hki] at h; dsimp only at h
      by_cases hkn : k < n
      · simp only [hkn, if_true, Option.some.injEq] at h; subst h
        refine ⟨?_, ?_, ?_, ?_, ?_⟩
        · intro j hj; dsimp only at hj ⊢
          by_cases hji : j = i
          · subst hji; exact hlock
          · rw [setPc_other _ _ hji, hout j hji] at hj; cases hj
        · intro j hj; dsimp only at hj ⊢
          have : j = i := by rw [hlock] at hj; exact (Option.some.inj hj).symm
          subst this; simp [inCrit]
        · intro j k' _; exact hcl
        · refine .open_ hcl ?_ ?_
          · dsimp only; rw [closes_append, hopen.1]; rfl
          · intro j hj; dsimp only at hj
            by_cases hji : j = i
            · subst hji; simp at hj
            · rw [setPc_other _ _ hji] at hj; exact hopen.2 j hj
        · intro j b hkj hj; dsimp only at hj ⊢
          by_cases hji : j = i
          · subst hji; simp at hj
          · rw [setPc_other _ _ hji] at hj
            obtain ⟨pre, jc, hw⟩ := inv.closer_done j b hkj hj
            have : closes s.wire ≠ [] := by rw [hw, closes_append]; simp [closes, Ev.isClose]
            exact absurd hopen.1 this
      · simp only [hkn, if_false, Option.some.injEq] at h; subst h
        refine ⟨?_, ?_, ?_, ?_, ?_⟩
        · intro j hj; dsimp only at hj ⊢
          by_cases hji : j = i
          · subst hji; simp [inCrit] at hj
          · rw [setPc_other _ _ hji, hout j hji] at hj; cases hj
        · intro j hj; cases hj
        · intro j k' hj; exact hcl
        · refine .open_ hcl hopen.1 ?_
          intro j hj; dsimp only at hj
          by_cases hji : j = i
          · subst hji; simp at hj
          · rw [setPc_other _ _ hji] at hj; exact hopen.2 j hj
        · intro j b hkj hj; dsimp only at hj ⊢
          by_cases hji : j = i
          · subst hji; rw [hki] at hkj; cases hkj
          · rw [setPc_other _ _ hji] at hj; exact inv.closer_done j b hkj hj
  | marked =>
    rw [hpc] at h; dsimp only at h
    simp only [Option.some.injEq] at h; subst h
    have hlock : s.lock = some i := inv.holder i (by simp [hpc, inCrit])
    have hout : ∀ j, j ≠ i → inCrit (s.pc j) = false := by
      intro j hji
      cases hc : inCrit (s.pc j) with
      | false => rfl
      | true =>
        have := inv.holder j hc; rw [hlock] at this
        exact absurd (Option.some.inj this).symm hji
    have hmk : s.closed = true ∧ closes s.wire = [] := by
      cases inv.phase with
      | open_ _ _ m => exact absurd hpc (m i)
      | marking _ c w _ _ => exact ⟨c, w⟩
      | shut _ _ _ _ _ m => exact absurd hpc (m i)
    refine ⟨?_, ?_, ?_, ?_, ?_⟩
    · intro j hj; dsimp only at hj ⊢
      by_cases hji : j = i
      · subst hji; simp [inCrit] at hj
      · rw [setPc_other _ _ hji, hout j hji] at hj; cases hj
    · intro j hj; cases hj
    · intro j k hj; dsimp only at hj ⊢
      by_cases hji : j = i
      · subst hji; simp at hj
      · rw [setPc_other _ _ hji] at hj
        have := hout j hji; rw [hj] at this; simp [inCrit] at this
    · refine .shut s.wire i hmk.1 rfl hmk.2 ?_
      intro j hj; dsimp only at hj
      by_cases hji : j = i
      · subst hji; simp at hj
      · rw [setPc_other _ _ hji] at hj
        have := hout j hji; rw [hj] at this; simp [inCrit] at this
    · intro j b _ _; exact ⟨s.wire, i, rfl⟩
  | done b => rw [hpc] at h; cases h

theorem inv_run (kind : Nat → Kind) (hk : AllCheck kind) (sched : List Nat) :
    ∀ s, Inv kind s → Inv kind (run kind s sched) := by
  induction sched with
  | nil => intro s h; exact h
  | cons i is ih =>
    intro s h
    simp only [run]
    cases hs : step kind s i with
    | none => exact ih s h
    | some s' => exact ih s' (inv_step kind hk s s' i h hs)

end XmppModel.Close.Lts
