import XmppModel.Lemmas.ByteDecoder
set_option linter.unusedVariables false
/-!
Re-chunking at the unit level: in clear text a negotiator call reads its input only through
`pull`, and `pull` delivers the next unit of the *unit stream* (read-ahead ++ remaining
segments) whatever the segmentation.  Two sessions that differ only in how the same unit
stream is cut (`Sync`) therefore go through `step` in lock step (`RelRes`): same writes, same
deliveries, same result — up to the point where a new layer is installed (what is in the
read-ahead *then* does depend on the cut, and is what `C02_prebuffer_dropped` is about).
-/
namespace XmppModel.StartTLS

def ustream (s : Sess) : List StartTLS.Unit := s.buf.map (·.2) ++ s.clear.flatten

structure Sync (s1 s2 : Sess) : Prop where
  state : s1.state = s2.state
  tls1 : s1.tls = false
  tls2 : s2.tls = false
  hs : s1.hs = s2.hs
  prot : s1.prot = s2.prot
  oracle : s1.oracle = s2.oracle
  negotiated : s1.negotiated = s2.negotiated
  doRestart : s1.doRestart = s2.doRestart
  first : s1.first = s2.first
  domain : s1.laddr = s2.laddr
  captured : s1.captured = s2.captured
  sni : s1.sni = s2.sni
  trace : s1.trace = s2.trace
  tags1 : ∀ x ∈ s1.buf, x.1 = true
  tags2 : ∀ x ∈ s2.buf, x.1 = true
  stream : ustream s1 = ustream s2
  features : s1.features = s2.features

def RelRes {α : Type} (r1 r2 : Res α) : Prop :=
  match r1, r2 with
  | .ok a s1, .ok b s2 => a = b ∧ Sync s1 s2
  | .stop w1 s1, .stop w2 s2 => w1 = w2 ∧ s1.trace = s2.trace
  | _, _ => False

theorem pullClear_none_iff : ∀ c : List (List StartTLS.Unit), pullClear c = none → c.flatten = [] := by
  intro c
  induction c with
  | nil => intro _; rfl
  | cons seg c ih =>
    intro h
    cases seg with
    | nil => simp only [pullClear] at h; simpa using ih h
    | cons u us => simp [pullClear] at h

theorem pullClear_some_flat : ∀ (c : List (List StartTLS.Unit)) u us rest,
    pullClear c = some (u, us, rest) → c.flatten = u :: (us ++ rest.flatten) := by
  intro c
  induction c with
  | nil => intro u us rest h; cases h
  | cons seg c ih =>
    intro u us rest h
    cases seg with
    | nil => simp only [pullClear] at h; simpa using ih u us rest h
    | cons v vs =>
      simp only [pullClear, Option.some.injEq, Prod.mk.injEq] at h
      obtain ⟨rfl, rfl, rfl⟩ := h
      simp

/-- `pull` in clear text, as a function of the unit stream -/
theorem pull_stream (s : Sess) (ht : s.tls = false) (htag : ∀ x ∈ s.buf, x.1 = true) :
    (ustream s = [] ∧ pull s = .stop (.err .read) s) ∨
    (∃ u rest b c, ustream s = u :: rest ∧
      pull s = .ok u { s with buf := b, clear := c, trace := .deliver true false :: s.trace } ∧
      b.map (·.2) ++ c.flatten = rest ∧ ∀ x ∈ b, x.1 = true) := by
  unfold pull
  cases hb : s.buf with
  | cons ou rest =>
    obtain ⟨o, u⟩ := ou
    right
    have ho : o = true := htag (o, u) (by rw [hb]; exact List.mem_cons_self)
    subst ho
    refine ⟨u, rest.map (·.2) ++ s.clear.flatten, rest, s.clear, ?_, ?_, rfl, ?_⟩
    · simp [ustream, hb]
    · simp [ht]
    · intro x hx; exact htag x (by rw [hb]; exact List.mem_cons_of_mem _ hx)
  | nil =>
    simp only [handshake_clear s ht, ht, Bool.false_eq_true, if_false]
    cases hp : pullClear s.clear with
    | none =>
      left
      exact ⟨by simp [ustream, hb, pullClear_none_iff _ hp], rfl⟩
    | some r =>
      obtain ⟨u, us, rest⟩ := r
      right
      refine ⟨u, us ++ rest.flatten, us.map (fun x => (true, x)), rest, ?_, rfl, ?_, ?_⟩
      · simp [ustream, hb, pullClear_some_flat _ _ _ _ hp]
      · simp [List.map_map, Function.comp_def]
      · intro x hx
        simp only [List.mem_map] at hx
        obtain ⟨y, _, rfl⟩ := hx
        rfl

theorem pull_sync (s1 s2 : Sess) (h : Sync s1 s2) : RelRes (pull s1) (pull s2) := by
  rcases pull_stream s1 h.tls1 h.tags1 with ⟨e1, p1⟩ | ⟨u1, r1, b1, c1, e1, p1, f1, t1⟩ <;>
  rcases pull_stream s2 h.tls2 h.tags2 with ⟨e2, p2⟩ | ⟨u2, r2, b2, c2, e2, p2, f2, t2⟩
  · rw [p1, p2]; exact ⟨rfl, h.trace⟩
  · rw [h.stream, e2] at e1; cases e1
  · rw [h.stream, e2] at e1; cases e1
  · rw [h.stream, e2] at e1
    simp only [List.cons.injEq] at e1
    obtain ⟨rfl, rfl⟩ := e1
    rw [p1, p2]
    refine ⟨rfl, ⟨h.state, h.tls1, h.tls2, h.hs, h.prot, h.oracle, h.negotiated, h.doRestart, h.first,
      h.domain, h.captured, h.sni, ?_, t1, t2, ?_, h.features⟩⟩
    · show Ev.deliver true false :: s1.trace = Ev.deliver true false :: s2.trace
      rw [h.trace]
    · show b1.map (·.2) ++ c1.flatten = b2.map (·.2) ++ c2.flatten
      rw [f1, f2]

theorem write_clear (e : Bool → Ev) (s : Sess) (ht : s.tls = false) :
    write e s = .ok () { s with trace := e false :: s.trace } := by
  unfold write
  have he : e s.tls = e false := by rw [ht]
  rw [handshake_clear s ht]
  simp only [he]

theorem write_sync (e : Bool → Ev) (s1 s2 : Sess) (h : Sync s1 s2) : RelRes (write e s1) (write e s2) := by
  rw [write_clear e s1 h.tls1, write_clear e s2 h.tls2]
  exact ⟨rfl, ⟨h.state, h.tls1, h.tls2, h.hs, h.prot, h.oracle, h.negotiated, h.doRestart, h.first,
    h.domain, h.captured, h.sni, by show e false :: s1.trace = e false :: s2.trace; rw [h.trace],
    h.tags1, h.tags2, h.stream, h.features⟩⟩

theorem expectHdr_sync : ∀ n s1 s2, Sync s1 s2 → RelRes (expectHdr n s1) (expectHdr n s2) := by
  intro n
  induction n with
  | zero => intro s1 s2 h; exact ⟨rfl, h.trace⟩
  | succ n ih =>
    intro s1 s2 h
    unfold expectHdr
    have hp := pull_sync s1 s2 h
    cases h1 : pull s1 with
    | stop w1 t1 =>
      cases h2 : pull s2 with
      | stop w2 t2 => rw [h1, h2] at hp; exact hp
      | ok u2 t2 => rw [h1, h2] at hp; exact hp.elim
    | ok u1 t1 =>
      cases h2 : pull s2 with
      | stop w2 t2 => rw [h1, h2] at hp; exact hp.elim
      | ok u2 t2 =>
        rw [h1, h2] at hp
        obtain ⟨rfl, hs⟩ := hp
        cases u1 with
        | space => exact ih t1 t2 hs
        | hdr ok => cases ok <;> first | exact ⟨rfl, hs⟩ | exact ⟨rfl, hs.trace⟩
        | hdrA f t =>
          show RelRes (acceptHdr f t t1) (acceptHdr f t t2)
          rw [acceptHdr_eq, acceptHdr_eq, hs.domain]
          split
          · exact ⟨rfl, hs⟩
          · exact ⟨rfl, hs.trace⟩
        | _ => exact ⟨rfl, hs.trace⟩

theorem chooseConfig_sync (s1 s2 : Sess) (h : Sync s1 s2) : Sync (chooseConfig s1) (chooseConfig s2) := by
  refine ⟨h.state, h.tls1, h.tls2, h.hs, h.prot, h.oracle, h.negotiated, h.doRestart, h.first, h.domain,
    ?_, ?_, h.trace, h.tags1, h.tags2, h.stream, h.features⟩
  · show (negotiateName s1.captured s1.laddr.dom).1 = (negotiateName s2.captured s2.laddr.dom).1
    rw [h.captured, h.domain]
  · show some (negotiateName s1.captured s1.laddr.dom).2 = some (negotiateName s2.captured s2.laddr.dom).2
    rw [h.captured, h.domain]

theorem negotiateOne_sync (c : Cached) (res : NegRes) (s1 s2 : Sess) (h : Sync s1 s2) :
    RelRes (negotiateOne c res s1) (negotiateOne c res s2) := by
  unfold negotiateOne
  split
  · have hc := chooseConfig_sync s1 s2 h
    rw [write_clear _ _ hc.tls1, write_clear _ _ hc.tls2]
    dsimp only
    have hw : Sync { chooseConfig s1 with trace := Ev.wStartTLS false :: (chooseConfig s1).trace }
        { chooseConfig s2 with trace := Ev.wStartTLS false :: (chooseConfig s2).trace } :=
      ⟨hc.state, hc.tls1, hc.tls2, hc.hs, hc.prot, hc.oracle, hc.negotiated, hc.doRestart, hc.first,
        hc.domain, hc.captured, hc.sni,
        by show Ev.wStartTLS false :: (chooseConfig s1).trace = Ev.wStartTLS false :: (chooseConfig s2).trace; rw [hc.trace],
        hc.tags1, hc.tags2, hc.stream, hc.features⟩
    have hp := pull_sync _ _ hw
    generalize pull { chooseConfig s1 with trace := Ev.wStartTLS false :: (chooseConfig s1).trace } = r1 at hp
    generalize pull { chooseConfig s2 with trace := Ev.wStartTLS false :: (chooseConfig s2).trace } = r2 at hp
    cases r1 with
    | stop w1 t1 =>
      cases r2 with
      | stop w2 t2 => exact hp
      | ok u2 t2 => exact hp.elim
    | ok u1 t1 =>
      cases r2 with
      | stop w2 t2 => exact hp.elim
      | ok u2 t2 =>
        obtain ⟨rfl, hs⟩ := hp
        cases u1 <;> first | exact ⟨rfl, hs⟩ | exact ⟨rfl, hs.trace⟩
  · rw [write_clear _ _ h.tls1, write_clear _ _ h.tls2]
    dsimp only
    have ht : (Ev.wOther c.id false :: s1.trace) = (Ev.wOther c.id false :: s2.trace) := by rw [h.trace]
    split
    · exact ⟨rfl, ht⟩
    · split
      · exact ⟨rfl, ht⟩
      · exact ⟨rfl, ⟨h.state, h.tls1, h.tls2, h.hs, h.prot, h.oracle, h.negotiated, h.doRestart, h.first,
          h.domain, h.captured, h.sni, ht, h.tags1, h.tags2, h.stream, h.features⟩⟩

theorem pickSet_sync (cfg : FCfg) (doTLS : Bool) (cache : List Cached) (s1 s2 : Sess) (h : Sync s1 s2) :
    pickSet cfg doTLS cache s1 = pickSet cfg doTLS cache s2 := by
  unfold pickSet candidates
  rw [h.negotiated, h.state]

theorem finishList_sync (cfg : FCfg) (skipped : List Cached) (s1 s2 : Sess) (h : Sync s1 s2) :
    RelRes (finishList cfg skipped s1) (finishList cfg skipped s2) := by
  unfold finishList
  rw [h.negotiated, h.state]
  split
  · exact ⟨rfl, h.trace⟩
  · exact ⟨rfl, h⟩

theorem select_sync (cfg : FCfg) (doTLS listReq : Bool) (cache skipped : List Cached) :
    ∀ orc s1 s2, Sync s1 s2 →
      RelRes (select cfg doTLS listReq cache skipped orc s1) (select cfg doTLS listReq cache skipped orc s2) := by
  intro orc
  induction orc with
  | nil =>
    intro s1 s2 h
    unfold select
    rw [pickSet_sync cfg doTLS cache s1 s2 h]
    split
    · exact finishList_sync cfg skipped s1 s2 h
    · exact ⟨rfl, h.trace⟩
  | cons e orc' ih =>
    intro s1 s2 h
    obtain ⟨id, res⟩ := e
    unfold select
    rw [pickSet_sync cfg doTLS cache s1 s2 h]
    generalize pickSet cfg doTLS cache s2 = al
    split
    · exact finishList_sync cfg skipped s1 s2 h
    · dsimp only
      cases hf : al.find? (fun c => c.id == id) with
      | none => exact ⟨rfl, h.trace⟩
      | some c =>
        dsimp only
        have ho : Sync { s1 with oracle := orc' } { s2 with oracle := orc' } :=
          ⟨h.state, h.tls1, h.tls2, h.hs, h.prot, rfl, h.negotiated, h.doRestart, h.first, h.domain,
            h.captured, h.sni, h.trace, h.tags1, h.tags2, h.stream, h.features⟩
        have hn := negotiateOne_sync c res _ _ ho
        generalize negotiateOne c res { s1 with oracle := orc' } = r1 at hn
        generalize negotiateOne c res { s2 with oracle := orc' } = r2 at hn
        cases r1 with
        | stop w1 t1 =>
          cases r2 with
          | stop w2 t2 => exact hn
          | ok m2 t2 => exact hn.elim
        | ok m1 t1 =>
          cases r2 with
          | stop w2 t2 => exact hn.elim
          | ok m2 t2 =>
            obtain ⟨rfl, hs⟩ := hn
            obtain ⟨mask, rw⟩ := m1
            dsimp only
            have hs' : Sync { t1 with state := t1.state ||| mask, negotiated := c.id :: t1.negotiated }
                { t2 with state := t2.state ||| mask, negotiated := c.id :: t2.negotiated } :=
              ⟨by show t1.state ||| mask = t2.state ||| mask; rw [hs.state], hs.tls1, hs.tls2, hs.hs, hs.prot,
                hs.oracle, by show c.id :: t1.negotiated = c.id :: t2.negotiated; rw [hs.negotiated],
                hs.doRestart, hs.first, hs.domain, hs.captured, hs.sni, hs.trace, hs.tags1, hs.tags2, hs.stream, hs.features⟩
            split
            · exact ⟨rfl, hs'⟩
            · exact ih _ _ hs'

theorem negotiateFeatures_sync (cfg : FCfg) (first : Bool) (s1 s2 : Sess) (h : Sync s1 s2) :
    RelRes (negotiateFeatures cfg first s1) (negotiateFeatures cfg first s2) := by
  unfold negotiateFeatures
  have hp := pull_sync s1 s2 h
  generalize pull s1 = r1 at hp
  generalize pull s2 = r2 at hp
  cases r1 with
  | stop w1 t1 =>
    cases r2 with
    | stop w2 t2 => exact hp
    | ok u2 t2 => exact hp.elim
  | ok u1 t1 =>
    cases r2 with
    | stop w2 t2 => exact hp.elim
    | ok u2 t2 =>
      obtain ⟨rfl, hs⟩ := hp
      cases u1 with
      | list items =>
        dsimp only
        rw [hs.state]
        cases hpi : parseItems cfg t2.state items false [] with
        | error e => exact ⟨rfl, hs.trace⟩
        | ok r =>
          obtain ⟨req, cache⟩ := r
          dsimp only
          split
          · exact ⟨rfl, hs⟩
          · split
            · exact ⟨rfl, hs.trace⟩
            · rw [hs.oracle]
              exact select_sync cfg _ _ _ _ _ _ _ hs
      | _ => exact ⟨rfl, hs.trace⟩

theorem peekAdv_sync (cfg : FCfg) (s1 s2 : Sess) (h : Sync s1 s2) : peekAdv cfg s1 = peekAdv cfg s2 := by
  unfold peekAdv
  have hp := pull_sync s1 s2 h
  cases h1 : pull s1 with
  | stop w1 t1 =>
    cases h2 : pull s2 with
    | stop w2 t2 => rfl
    | ok u2 t2 => rw [h1, h2] at hp; exact hp.elim
  | ok u1 t1 =>
    cases h2 : pull s2 with
    | stop w2 t2 => rw [h1, h2] at hp; exact hp.elim
    | ok u2 t2 =>
      rw [h1, h2] at hp
      obtain ⟨rfl, _⟩ := hp
      cases u1 <;> rfl

theorem addAdv_sync {α : Type} (ids : List Nat) (t : Bool) (r1 r2 : Res α) (h : RelRes r1 r2) :
    RelRes (addAdv ids t r1) (addAdv ids t r2) := by
  cases r1 with
  | stop w1 t1 =>
    cases r2 with
    | stop w2 t2 => exact h
    | ok a2 t2 => exact h.elim
  | ok a1 t1 =>
    cases r2 with
    | stop w2 t2 => exact h.elim
    | ok a2 t2 =>
      obtain ⟨rfl, hs⟩ := h
      exact ⟨rfl, ⟨hs.state, hs.tls1, hs.tls2, hs.hs, hs.prot, hs.oracle, hs.negotiated, hs.doRestart, hs.first,
        hs.domain, hs.captured, hs.sni, hs.trace, hs.tags1, hs.tags2, hs.stream,
        by show t1.features ++ _ = t2.features ++ _; rw [hs.features]⟩⟩

theorem negotiateFeaturesAdv_sync (cfg : FCfg) (first : Bool) (s1 s2 : Sess) (h : Sync s1 s2) :
    RelRes (negotiateFeaturesAdv cfg first s1) (negotiateFeaturesAdv cfg first s2) := by
  unfold negotiateFeaturesAdv
  rw [peekAdv_sync cfg s1 s2 h, h.tls1, h.tls2]
  exact addAdv_sync _ _ _ _ (negotiateFeatures_sync cfg first s1 s2 h)

/-- **One negotiator call in clear text does not depend on how the unit stream is cut.** -/
theorem step_sync (cfg : FCfg) (fuel : Nat) (s1 s2 : Sess) (h : Sync s1 s2) :
    RelRes (step cfg fuel s1) (step cfg fuel s2) := by
  unfold step
  have hr : RelRes
      (if s1.doRestart then
        match write .wHdr s1 with
        | .stop w s' => Res.stop w s'
        | .ok _ t => expectHdr fuel t
      else Res.ok () s1 : Res PUnit)
      (if s2.doRestart then
        match write .wHdr s2 with
        | .stop w s' => Res.stop w s'
        | .ok _ t => expectHdr fuel t
      else Res.ok () s2 : Res PUnit) := by
    rw [h.doRestart]
    split
    · rw [write_clear _ _ h.tls1, write_clear _ _ h.tls2]
      dsimp only
      apply expectHdr_sync
      exact ⟨h.state, h.tls1, h.tls2, h.hs, h.prot, h.oracle, h.negotiated, h.doRestart, h.first,
        h.domain, h.captured, h.sni, by show Ev.wHdr false :: s1.trace = Ev.wHdr false :: s2.trace; rw [h.trace],
        h.tags1, h.tags2, h.stream, h.features⟩
    · exact ⟨rfl, h⟩
  simp only
  generalize (if s1.doRestart then
        match write .wHdr s1 with
        | .stop w s' => Res.stop w s'
        | .ok _ t => expectHdr fuel t
      else Res.ok () s1 : Res PUnit) = r1 at hr
  generalize (if s2.doRestart then
        match write .wHdr s2 with
        | .stop w s' => Res.stop w s'
        | .ok _ t => expectHdr fuel t
      else Res.ok () s2 : Res PUnit) = r2 at hr
  cases r1 with
  | stop w1 t1 =>
    cases r2 with
    | stop w2 t2 => exact hr
    | ok a2 t2 => exact hr.elim
  | ok a1 t1 =>
    cases r2 with
    | stop w2 t2 => exact hr.elim
    | ok a2 t2 =>
      obtain ⟨_, hs⟩ := hr
      dsimp only
      rw [hs.first]
      have hf : Sync { t1 with first := false } { t2 with first := false } :=
        ⟨hs.state, hs.tls1, hs.tls2, hs.hs, hs.prot, hs.oracle, hs.negotiated, hs.doRestart, rfl, hs.domain,
          hs.captured, hs.sni, hs.trace, hs.tags1, hs.tags2, hs.stream, hs.features⟩
      have hn := negotiateFeaturesAdv_sync cfg t2.first _ _ hf
      generalize negotiateFeaturesAdv cfg t2.first { t1 with first := false } = q1 at hn
      generalize negotiateFeaturesAdv cfg t2.first { t2 with first := false } = q2 at hn
      cases q1 with
      | stop w1 v1 =>
        cases q2 with
        | stop w2 v2 => exact hn
        | ok o2 v2 => exact hn.elim
      | ok o1 v1 =>
        cases q2 with
        | stop w2 v2 => exact hn.elim
        | ok o2 v2 =>
          obtain ⟨rfl, hv⟩ := hn
          exact ⟨rfl, ⟨hv.state, hv.tls1, hv.tls2, hv.hs, hv.prot, hv.oracle, hv.negotiated, rfl, hv.first,
            hv.domain, hv.captured, hv.sni, hv.trace, hv.tags1, hv.tags2, hv.stream, hv.features⟩⟩

/-! ### from byte chunkings to unit segmentations -/

theorem tokAll_append (tk : Tokeniser) : ∀ (n : Nat) (b : Bs), b.length ≤ n → ∀ x : Bs,
    tokAll tk (b ++ x) =
      ((tokAll tk b).1 ++ (tokAll tk ((tokAll tk b).2 ++ x)).1, (tokAll tk ((tokAll tk b).2 ++ x)).2) := by
  intro n
  induction n with
  | zero =>
    intro b hb x
    have : b = [] := List.eq_nil_of_length_eq_zero (by omega)
    subst this
    have hn : tk.next [] = none := by
      cases h : tk.next [] with
      | none => rfl
      | some r => obtain ⟨u, k⟩ := r; have := tk.pos [] u k h; simp at this; omega
    simp [tokAll_none tk [] hn]
  | succ n ih =>
    intro b hb x
    cases hn : tk.next b with
    | none => simp [tokAll_none tk b hn]
    | some r =>
      obtain ⟨u, k⟩ := r
      have hpos := tk.pos b u k hn
      have hx := tk.stable b x u k hn
      rw [tokAll_some tk (b ++ x) u k hx, tokAll_some tk b u k hn]
      rw [List.drop_append_of_le_length hpos.2]
      have hl : (b.drop k).length ≤ n := by simp only [List.length_drop]; omega
      rw [ih (b.drop k) hl x]
      simp

/-- the unit stream of the segmentation induced by a chunking is the tokenisation of the byte
stream: it does not depend on the chunking -/
theorem abs_stream (tk : Tokeniser) : ∀ (cs : List Bs) (b : Bs),
    (tokAll tk b).1 ++ (absChunks tk (tokAll tk b).2 cs).flatten = (tokAll tk (b ++ cs.flatten)).1 := by
  intro cs
  induction cs with
  | nil => intro b; simp [absChunks]
  | cons c cs ih =>
    intro b
    have h1 := ih ((tokAll tk b).2 ++ c)
    have h2 := tokAll_append tk b.length b (Nat.le_refl _) (c ++ cs.flatten)
    simp only [absChunks, List.flatten_cons]
    rw [h1, h2]
    simp [List.append_assoc]

theorem tokAll_nil (tk : Tokeniser) : tokAll tk [] = ([], []) := by
  apply tokAll_none
  cases h : tk.next [] with
  | none => rfl
  | some r => obtain ⟨u, k⟩ := r; have := tk.pos [] u k h; simp at this; omega

/-- the session a run starts from when the peer's clear text arrives as the byte chunks `cs` -/
def initBytes (tk : Tokeniser) (env : Env) (st0 : Mask) (cs : List Bs) (prot : List PItem)
    (oracle : List (Nat × NegRes)) : Sess :=
  init env st0 ⟨absChunks tk [] cs, prot, oracle⟩

theorem initBytes_sync (tk : Tokeniser) (env : Env) (st0 : Mask) (cs1 cs2 : List Bs) (prot : List PItem)
    (oracle : List (Nat × NegRes)) (hk : env.conn.startsSecure = false) (h : cs1.flatten = cs2.flatten) :
    Sync (initBytes tk env st0 cs1 prot oracle) (initBytes tk env st0 cs2 prot oracle) := by
  unfold initBytes
  rw [init_clear env st0 _ hk, init_clear env st0 _ hk]
  refine ⟨rfl, rfl, rfl, rfl, rfl, rfl, rfl, rfl, rfl, rfl, rfl, rfl, rfl, ?_, ?_, ?_, rfl⟩
  · intro x hx; cases hx
  · intro x hx; cases hx
  · simp only [ustream]
    have a1 := abs_stream tk cs1 []
    have a2 := abs_stream tk cs2 []
    simp only [tokAll_nil, List.nil_append] at a1 a2
    simp only [List.map_nil, List.nil_append]
    rw [a1, a2, h]

end XmppModel.StartTLS
