import XmppModel.Lemmas.NegotiateReady
/-!
Invariants about cancellation and the (known) panic of the negotiation machine.
-/
namespace XmppModel.Negotiate

/-! ### invariant H: a cancelled context never yields success -/

structure InvH (O : Oracle) (st0 : St) (c : Conf) : Prop where
  fresh : c.first = true → c.pc = .top → c.st = st0
  checked : (c.pc = .top ∨ c.pc = .done) → c.first = false → O.cancel c.tr = false
  doneFirst : c.pc = .done → c.first = true → has st0 bReady = true

theorem invH_step (C : List Feature) (O : Oracle) (st0 : St) (c : Conf) (h : InvH O st0 c) :
    InvH O st0 (step C O c) := by
  obtain ⟨h1, h2, h3⟩ := h
  step_all
  all_goals (constructor <;> (try dsimp only))
  all_goals first
    | exact h1
    | exact h2
    | exact h3
    | (intro _ h; cases h; done)
    | (intro h; cases h; done)
    | (intro h; rcases h with h | h <;> cases h; done)
    | (simp_all; done)
    | (intro _ hf; have := h1 hf ‹c.pc = _›; simp_all; done)
    | skip

/-! ### invariant S: the peer script is only ever consumed -/

structure InvS (script : List Peer) (c : Conf) : Prop where
  sub : ∀ p ∈ c.script, p ∈ script
  crash : c.pc ≠ .crash
  /-- the tee point is only entered by `stepT` -/
  tee : c.pc ≠ .tee

theorem invS_step (C : List Feature) (O : Oracle) (script : List Peer) (c : Conf)
    (h : InvS script c) : InvS script (step C O c) := by
  obtain ⟨h1, h2, h3⟩ := h
  step_all
  all_goals (constructor <;> (try dsimp only))
  all_goals first
    | exact h1
    | exact h2
    | exact h3
    | (intro h; cases h; done)
    | (intro h; exact h2 (by simp_all))
    | (intro h; exact h3 (by simp_all))
    | (intro p hp; exact h1 p (by simp_all))
    | (intro _; exact h1 _ (by simp_all))
    | skip

/-! ### invariant U: the call only hangs while its deadline has not been moved -/

/-- `hung wr` is only entered from a blocked read / write whose deadline the context watcher has
not moved into the past: the context is not done, or the watcher does not move that deadline -/
structure InvU (O : Oracle) (c : Conf) : Prop where
  hung : ∀ wr, c.pc = .hung wr → (O.cancel c.tr && (if wr then O.dlWr else O.dlRd)) = false
  /-- a blocked control point is a read exactly for the read operations -/
  kind : ∀ op, c.pc = .blocked op → ∃ rest, c.tr = .blocked op :: rest

theorem invU_step (C : List Feature) (O : Oracle) (c : Conf) (h : InvU O c) : InvU O (step C O c) := by
  obtain ⟨h1, h2⟩ := h
  step_all
  all_goals (constructor <;> (try dsimp only))
  all_goals first
    | exact h1
    | exact h2
    | (intro _ h; cases h; done)
    | (intro _ h; cases h; exact ⟨_, rfl⟩)
    | (intro _ h; cases h; simp_all; done)
    | skip

end XmppModel.Negotiate
