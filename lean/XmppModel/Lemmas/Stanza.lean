import XmppModel.Model.Stanza
/-! Helper lemmas for the stanza / error codecs (C13). -/
namespace XmppModel.Stanza
open XmppModel.Xml

theorem depthAfter_append (a b : List Tok) :
    ∀ d, depthAfter d (a ++ b) = (depthAfter d a).bind fun d' => depthAfter d' b := by
  induction a with
  | nil => intro d; simp [depthAfter]
  | cons t ts ih =>
    intro d
    cases t with
    | start n as => simp [depthAfter, ih]
    | stop n => cases d <;> simp [depthAfter, ih]
    | chars s => simp [depthAfter, ih]
    | comment s => simp [depthAfter, ih]
    | procInst x y => simp [depthAfter, ih]
    | directive s => simp [depthAfter, ih]

theorem depthAfter_texts (ns : String) (l : List (String × String)) (d : Nat) :
    depthAfter d (l.flatMap (textElem ns)) = some d := by
  induction l with
  | nil => simp [depthAfter]
  | cons p ps ih =>
    simp only [List.flatMap_cons]
    rw [depthAfter_append]
    simp [textElem, depthAfter, ih]

/-- the child a text element decodes to -/
def textChild (ns : String) (p : String × String) : Child :=
  ⟨⟨ns, "text"⟩, if p.1 = "" then [] else [langAttr p.1], p.2⟩

theorem fold_simple (n : Name) (as : List Attr) (t : String) (out : List Child) :
    [Tok.start n as, .chars t, .stop n].foldl dstep ⟨0, none, out⟩ = ⟨0, none, out ++ [⟨n, as, t⟩]⟩ := by
  simp [dstep]

theorem fold_empty (n : Name) (as : List Attr) (out : List Child) :
    [Tok.start n as, .stop n].foldl dstep ⟨0, none, out⟩ = ⟨0, none, out ++ [⟨n, as, ""⟩]⟩ := by
  simp [dstep]

theorem fold_texts (ns : String) (l : List (String × String)) :
    ∀ out, (l.flatMap (textElem ns)).foldl dstep ⟨0, none, out⟩ = ⟨0, none, out ++ l.map (textChild ns)⟩ := by
  induction l with
  | nil => intro out; simp
  | cons p ps ih =>
    intro out
    simp only [List.flatMap_cons, List.foldl_append, List.map_cons]
    have : (textElem ns p).foldl dstep ⟨0, none, out⟩ = ⟨0, none, out ++ [textChild ns p]⟩ := by
      simp [textElem, textChild, dstep]
    rw [this, ih]
    simp

theorem langOf_textChild (ns : String) (p : String × String) : langOf (textChild ns p) = p.1 := by
  unfold langOf textChild
  by_cases h : p.1 = ""
  · simp [h, lastAttr]
  · simp [h, lastAttr, langAttr]

theorem contentOf_wrap (n : Name) (as : List Attr) (c : List Tok) (t : Tok) :
    contentOf (.start n as :: c ++ [t]) = some (as, c) := by
  simp [contentOf, List.dropLast_concat]

theorem filter_ne_text (l : List (String × String)) :
    (l.map (textChild nsErr)).filter (fun c => decide (c.name ≠ textName)) = [] := by
  induction l with
  | nil => rfl
  | cons p ps ih =>
    have h : decide ((textChild nsErr p).name ≠ textName) = false := by simp [textChild, textName]
    simp only [List.map_cons, List.filter_cons, h, Bool.false_eq_true, if_false]; exact ih

theorem filter_eq_text (l : List (String × String)) :
    (l.map (textChild nsErr)).filter (fun c => decide (c.name = textName)) = l.map (textChild nsErr) := by
  induction l with
  | nil => rfl
  | cons p ps ih =>
    have h : decide ((textChild nsErr p).name = textName) = true := by simp [textChild, textName]
    simp only [List.map_cons, List.filter_cons, h, if_true]; rw [ih]

theorem map_lang_text (ns : String) (l : List (String × String)) :
    (l.map (textChild ns)).map (fun c => (langOf c, c.text)) = l := by
  induction l with
  | nil => rfl
  | cons p ps ih =>
    simp only [List.map_cons, langOf_textChild]
    rw [ih]; simp [textChild]

end XmppModel.Stanza
