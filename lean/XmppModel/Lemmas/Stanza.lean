import XmppModel.Model.Stanza
import XmppModel.Lemmas.Encoder
/-! Helper lemmas for the stanza / error codecs (C13). -/
namespace XmppModel.Stanza
open XmppModel.Xml

theorem depthAfter_append (a b : List Tok) :
    ∀ d, depthAfter d (a ++ b) = (depthAfter d a).bind fun d' => depthAfter d' b := by
  induction a with
  | nil => intro d; simp [depthAfter]
  | cons t ts ih =>
    intro d
    cases t with
    | start n as => simp [depthAfter, ih]
    | stop n => cases d <;> simp [depthAfter, ih]
    | chars s => simp [depthAfter, ih]
    | comment s => simp [depthAfter, ih]
    | procInst x y => simp [depthAfter, ih]
    | directive s => simp [depthAfter, ih]

theorem depthAfter_texts (ns : String) (l : List (String × String)) (d : Nat) :
    depthAfter d (l.flatMap (textElem ns)) = some d := by
  induction l with
  | nil => simp [depthAfter]
  | cons p ps ih =>
    simp only [List.flatMap_cons]
    rw [depthAfter_append]
    simp [textElem, depthAfter, ih]

/-- the child a text element decodes to -/
def textChild (ns : String) (p : String × String) : Child :=
  ⟨⟨ns, "text"⟩, if p.1 = "" then [] else [langAttr p.1], p.2⟩

theorem fold_simple (n : Name) (as : List Attr) (t : String) (out : List Child) :
    [Tok.start n as, .chars t, .stop n].foldl dstep ⟨0, none, out⟩ = ⟨0, none, out ++ [⟨n, as, t⟩]⟩ := by
  simp [dstep]

theorem fold_empty (n : Name) (as : List Attr) (out : List Child) :
    [Tok.start n as, .stop n].foldl dstep ⟨0, none, out⟩ = ⟨0, none, out ++ [⟨n, as, ""⟩]⟩ := by
  simp [dstep]

theorem fold_texts (ns : String) (l : List (String × String)) :
    ∀ out, (l.flatMap (textElem ns)).foldl dstep ⟨0, none, out⟩ = ⟨0, none, out ++ l.map (textChild ns)⟩ := by
  induction l with
  | nil => intro out; simp
  | cons p ps ih =>
    intro out
    simp only [List.flatMap_cons, List.foldl_append, List.map_cons]
    have : (textElem ns p).foldl dstep ⟨0, none, out⟩ = ⟨0, none, out ++ [textChild ns p]⟩ := by
      simp [textElem, textChild, dstep]
    rw [this, ih]
    simp

theorem langOf_textChild (ns : String) (p : String × String) : langOf (textChild ns p) = p.1 := by
  unfold langOf textChild
  by_cases h : p.1 = ""
  · simp [h, lastAttr]
  · simp [h, lastAttr, langAttr]

theorem mem_insertText (p q : String × String) (l : List (String × String)) :
    q ∈ insertText p l ↔ q = p ∨ q ∈ l := by
  induction l with
  | nil => simp [insertText]
  | cons x xs ih =>
    simp only [insertText]
    split
    · simp
    · simp only [List.mem_cons, ih]
      constructor
      · rintro (h | h | h)
        · right; left; exact h
        · left; exact h
        · right; right; exact h
      · rintro (h | h | h)
        · right; left; exact h
        · left; exact h
        · right; right; exact h

/-- sorting the languages loses and invents nothing -/
theorem mem_sortTexts (q : String × String) (l : List (String × String)) : q ∈ sortTexts l ↔ q ∈ l := by
  induction l with
  | nil => simp [sortTexts]
  | cons x xs ih => simp [sortTexts, mem_insertText, ih]

theorem contentOf_wrap (n : Name) (as : List Attr) (c : List Tok) (t : Tok) :
    contentOf (.start n as :: c ++ [t]) = some (as, c) := by
  simp [contentOf, List.dropLast_concat]

theorem filter_ne_text (l : List (String × String)) :
    (l.map (textChild nsErr)).filter (fun c => decide (c.name ≠ textName)) = [] := by
  induction l with
  | nil => rfl
  | cons p ps ih =>
    have h : decide ((textChild nsErr p).name ≠ textName) = false := by simp [textChild, textName]
    simp only [List.map_cons, List.filter_cons, h, Bool.false_eq_true, if_false]; exact ih

theorem filter_eq_text (l : List (String × String)) :
    (l.map (textChild nsErr)).filter (fun c => decide (c.name = textName)) = l.map (textChild nsErr) := by
  induction l with
  | nil => rfl
  | cons p ps ih =>
    have h : decide ((textChild nsErr p).name = textName) = true := by simp [textChild, textName]
    simp only [List.map_cons, List.filter_cons, h, if_true]; rw [ih]

theorem map_lang_text (ns : String) (l : List (String × String)) :
    (l.map (textChild ns)).map (fun c => (langOf c, c.text)) = l := by
  induction l with
  | nil => rfl
  | cons p ps ih =>
    simp only [List.map_cons, langOf_textChild]
    rw [ih]; simp [textChild]

end XmppModel.Stanza

namespace XmppModel.Stanza
open XmppModel.Xml

/-! ### application payloads: a sequence of complete elements -/

/-- a payload element: name, attributes, balanced content, name of its end tag -/
structure Elem where
  name : Name
  attrs : List Attr
  body : List Tok
  stopName : Name

def Elem.toks (e : Elem) : List Tok := .start e.name e.attrs :: e.body ++ [.stop e.stopName]

def Elem.ok (e : Elem) : Prop := balanced e.body = true

/-- inside a child (depth ≥ 1) a balanced piece of content changes nothing but the child's text -/
theorem fold_body (body : List Tok) :
    ∀ (r r' : Nat) (c : Child) (out : List Child), depthAfter r body = some r' →
      ∃ t, body.foldl dstep ⟨r + 1, some c, out⟩ = ⟨r' + 1, some { c with text := t }, out⟩ := by
  induction body with
  | nil =>
    intro r r' c out h
    simp [depthAfter] at h
    exact ⟨c.text, by simp [h]⟩
  | cons t ts ih =>
    intro r r' c out h
    cases t with
    | start n as =>
      simp only [depthAfter] at h
      obtain ⟨t', ht⟩ := ih (r + 1) r' c out h
      exact ⟨t', by simp [dstep, ht]⟩
    | stop n =>
      cases r with
      | zero => simp [depthAfter] at h
      | succ k =>
        simp only [depthAfter] at h
        obtain ⟨t', ht⟩ := ih k r' c out h
        exact ⟨t', by simp [dstep, ht]⟩
    | chars s =>
      simp only [depthAfter] at h
      by_cases hr : r = 0
      · subst hr
        obtain ⟨t', ht⟩ := ih 0 r' { c with text := c.text ++ s } out h
        exact ⟨t', by simp [dstep, ht]⟩
      · obtain ⟨t', ht⟩ := ih r r' c out h
        exact ⟨t', by simp [dstep, hr, ht]⟩
    | comment s => simp only [depthAfter] at h; obtain ⟨t', ht⟩ := ih r r' c out h; exact ⟨t', by simp [dstep, ht]⟩
    | procInst a b => simp only [depthAfter] at h; obtain ⟨t', ht⟩ := ih r r' c out h; exact ⟨t', by simp [dstep, ht]⟩
    | directive s => simp only [depthAfter] at h; obtain ⟨t', ht⟩ := ih r r' c out h; exact ⟨t', by simp [dstep, ht]⟩

/-- one complete element at the top level of the content adds one child with its name and
attributes -/
theorem fold_elem (e : Elem) (he : e.ok) (out : List Child) :
    ∃ t, e.toks.foldl dstep ⟨0, none, out⟩ = ⟨0, none, out ++ [⟨e.name, e.attrs, t⟩]⟩ := by
  have hb : depthAfter 0 e.body = some 0 := by simpa [Elem.ok, balanced] using he
  obtain ⟨t, ht⟩ := fold_body e.body 0 0 ⟨e.name, e.attrs, ""⟩ out hb
  refine ⟨t, ?_⟩
  simp only [Elem.toks, List.cons_append, List.foldl_cons, List.foldl_append]
  have h0 : dstep ⟨0, none, out⟩ (.start e.name e.attrs) = ⟨0 + 1, some ⟨e.name, e.attrs, ""⟩, out⟩ := by
    simp [dstep]
  rw [h0, ht]
  simp [dstep]

theorem fold_elems (es : List Elem) (hes : ∀ e ∈ es, e.ok) :
    ∀ out, ∃ cs : List Child, cs.map (·.name) = es.map (·.name) ∧
      (es.flatMap Elem.toks).foldl dstep ⟨0, none, out⟩ = ⟨0, none, out ++ cs⟩ := by
  induction es with
  | nil => intro out; exact ⟨[], rfl, by simp⟩
  | cons e es ih =>
    intro out
    obtain ⟨t, ht⟩ := fold_elem e (hes e (by simp)) out
    obtain ⟨cs, hn, hf⟩ := ih (fun x hx => hes x (by simp [hx])) (out ++ [⟨e.name, e.attrs, t⟩])
    refine ⟨⟨e.name, e.attrs, t⟩ :: cs, by simp [hn], ?_⟩
    simp only [List.flatMap_cons, List.foldl_append, ht, hf]
    simp

theorem depthAfter_elems (es : List Elem) (hes : ∀ e ∈ es, e.ok) (d : Nat) :
    depthAfter d (es.flatMap Elem.toks) = some d := by
  induction es with
  | nil => simp [depthAfter]
  | cons e es ih =>
    have hb : depthAfter 0 e.body = some 0 := by simpa [Elem.ok, balanced] using hes e (by simp)
    have h1 : depthAfter (d + 1) e.body = some (d + 1) := by
      have := XmppModel.Encoder.depthAfter_shift e.body 0 0 (d + 1) hb
      simpa using this
    simp only [List.flatMap_cons, Elem.toks, List.cons_append, depthAfter, List.append_assoc]
    rw [depthAfter_append, h1]
    simp [depthAfter, ih (fun x hx => hes x (by simp [hx]))]

end XmppModel.Stanza

namespace XmppModel.Stanza
open XmppModel.Xml

/-! ### the trip through bytes and `UnmarshalError` (round C) -/

theorem inherit_self (s : String) : (if s = "" then "" else s) = s := by
  by_cases h : s = "" <;> simp [h]

/-- text elements carry their own namespace: printing and re-parsing leaves them as they are -/
theorem wireGo_texts (l : List (String × String)) (st : List String) (rest : List Tok) :
    wireGo st (l.flatMap (textElem nsErr) ++ rest) = l.flatMap (textElem nsErr) ++ wireGo st rest := by
  induction l with
  | nil => simp
  | cons p ps ih =>
    simp only [List.flatMap_cons, List.append_assoc]
    simp [textElem, wireGo, nsErr, topNs] at ih ⊢
    exact ih

theorem depthAfter_errContent (e : SErr) : depthAfter 0 (errContent e []) = some 0 := by
  unfold errContent
  rw [List.append_nil, depthAfter_append]
  simp [depthAfter, depthAfter_texts]

/-- the error reply after the trip: everything as before, the `<error/>` element now in the
content namespace of the stanza -/
theorem wireGo_errorReply (k : Kind) (x : Stz) (e : SErr) :
    wireGo [] (errorReply k x e) =
      wrap k (swap x "error") (.start ⟨x.name.space, "error"⟩ (errAttrs e) :: errContent e [] ++
        [.stop ⟨x.name.space, "error"⟩]) := by
  simp only [errorReply, wrap, startElement, startName, swap, errTokens, errContent, List.cons_append,
    List.append_assoc, List.append_nil, List.nil_append, List.singleton_append]
  simp only [wireGo, topNs, inherit_self, if_true]
  simp only [show (nsErr = "") = False from by simp [nsErr], if_false]
  rw [wireGo_texts]
  simp [wireGo, topNs]

/-- the names of the element do not matter to `(*stanza.Error).UnmarshalXML` -/
theorem decodeErr_names (parse : String → Option String) (n m n' m' : Name) (as : List Attr) (c : List Tok) :
    decodeErr parse (.start n as :: c ++ [.stop m]) = decodeErr parse (.start n' as :: c ++ [.stop m']) := by
  unfold decodeErr
  rw [contentOf_wrap, contentOf_wrap]

/-- the search of `UnmarshalError` stops at an error element that comes first, and hands its
content (balanced) to the decoder -/
theorem findError_first (p : Name → Bool) (n m : Name) (as : List Attr) (c rest : List Tok) (hp : p n = true)
    (hc : depthAfter 0 c = some 0) :
    findErrorP p 0 (.start n as :: c ++ .stop m :: rest) = some (n, as, c) := by
  have := Encoder.inner_balanced c (.stop m :: rest) 0 0 hc
  simp [findErrorP, hp, this, Encoder.inner]

end XmppModel.Stanza

namespace XmppModel.Stanza
open XmppModel.Xml

/-- inside a child that is being skipped, balanced content leaves the search where it was -/
theorem findErrorP_body (p : Name → Bool) (body rest : List Tok) :
    ∀ r r', depthAfter r body = some r' → findErrorP p (r + 1) (body ++ rest) = findErrorP p (r' + 1) rest := by
  induction body with
  | nil => intro r r' h; simp [depthAfter] at h; simp [h]
  | cons t ts ih =>
    intro r r' h
    cases t with
    | start n as => simp only [depthAfter] at h; simpa [findErrorP] using ih (r + 1) r' h
    | stop n =>
      cases r with
      | zero => simp [depthAfter] at h
      | succ r0 => simp only [depthAfter] at h; simpa [findErrorP] using ih r0 r' h
    | chars s => simp only [depthAfter] at h; simpa [findErrorP] using ih r r' h
    | comment s => simp only [depthAfter] at h; simpa [findErrorP] using ih r r' h
    | procInst x y => simp only [depthAfter] at h; simpa [findErrorP] using ih r r' h
    | directive s => simp only [depthAfter] at h; simpa [findErrorP] using ih r r' h

/-- a complete child element that is not accepted is skipped as a whole -/
theorem findErrorP_elems (p : Name → Bool) (es : List Elem) (hes : ∀ e ∈ es, e.ok)
    (hn : ∀ e ∈ es, p e.name = false) (rest : List Tok) :
    findErrorP p 0 (es.flatMap Elem.toks ++ rest) = findErrorP p 0 rest := by
  induction es with
  | nil => simp
  | cons e es ih =>
    have hb : depthAfter 0 e.body = some 0 := by
      have := hes e (by simp); simpa [Elem.ok, balanced] using this
    have hp := hn e (by simp)
    simp only [List.flatMap_cons, Elem.toks, List.cons_append, List.append_assoc]
    simp only [findErrorP, hp, Bool.false_eq_true, if_false]
    rw [findErrorP_body p e.body _ 0 0 hb]
    simp only [List.singleton_append, findErrorP]
    exact ih (fun x hx => hes x (by simp [hx])) (fun x hx => hn x (by simp [hx]))

end XmppModel.Stanza
