import XmppModel.Lemmas.StartTLS
set_option linter.unusedVariables false
/-!
Termination of the model: every negotiator call that does not stop consumes at least one unit
of the peer's script, so with more fuel than the script has units no run ends with `Stop.fuel`
— the loops of `negotiateSession` / `intstream.Expect` cannot spin without input.
-/
namespace XmppModel.StartTLS

def segUnits (c : List (List Unit)) : Nat := (c.map List.length).sum

/-- units the session can still read: read-ahead + clear-text script + TLS-phase script -/
def meas (s : Sess) : Nat := s.buf.length + segUnits s.clear + s.prot.length

theorem pullClear_units : ∀ c u us rest, pullClear c = some (u, us, rest) →
    segUnits c = us.length + 1 + segUnits rest := by
  intro c
  induction c with
  | nil => intro u us rest h; cases h
  | cons seg c ih =>
    intro u us rest h
    cases seg with
    | nil =>
      simp only [pullClear] at h
      have := ih u us rest h
      simp only [segUnits, List.map_cons, List.length_nil, List.sum_cons] at this ⊢
      all_goals omega
    | cons v vs =>
      simp only [pullClear, Option.some.injEq, Prod.mk.injEq] at h
      obtain ⟨rfl, rfl, rfl⟩ := h
      simp only [segUnits, List.map_cons, List.length_cons, List.sum_cons]
      all_goals omega

/-- at most `N` units left -/
def M (N : Nat) (s : Sess) : Prop := meas s ≤ N

theorem M_io (N : Nat) : ClosedIO (M N) where
  hello := fun s h => sendHello_ind (P := M N) s h (fun n => h)
  hs := fun s h => h
  fromBuf := by
    intro s o u rest h hb
    simp only [M, meas] at h ⊢
    rw [hb] at h
    simp only [List.length_cons] at h
    omega
  fromTls := by
    intro s u rest h _ _ hp
    simp only [M, meas] at h ⊢
    rw [hp] at h
    simp only [List.length_cons] at h
    omega
  fromClear := by
    intro s u us rest h _ hb hp
    simp only [M, meas] at h ⊢
    rw [hb, pullClear_units _ _ _ _ hp] at h
    simp only [List.length_nil, List.length_map] at h ⊢
    omega

theorem M_neg (N : Nat) : ClosedNeg (M N) where
  wHdr := fun s h => h
  wStartTLS := fun s h => h
  wOther := fun s id h => h
  choose := fun s h => h
  advert := fun s ids h => h
  oracle := fun s o h => h
  neg := fun s m id h => h
  first := fun s h => h
  doRestart := fun s b h => h
  restart := by
    intro s h
    simp only [M, meas, restartDec] at h ⊢
    simp only [List.length_nil]
    omega
  stateOr := fun s m h => h

theorem handshake_fields (s : Sess) (a : PUnit) (s' : Sess) (he : handshake s = .ok a s') :
    s'.tls = s.tls ∧ s'.buf = s.buf ∧ s'.clear = s.clear ∧ s'.prot = s.prot := by
  unfold handshake at he
  split at he
  · split at he
    · cases he
    · split at he
      · cases he
      · cases he
        have := sendHello_fields s
        exact ⟨this.1, this.2.1, this.2.2.1, this.2.2.2.1⟩
  · cases he; exact ⟨rfl, rfl, rfl, rfl⟩

/-- a computation that does not stop for lack of fuel -/
def NoFuel {α : Type} : Res α → Prop
  | .stop .fuel _ => False
  | _ => True

theorem NoFuel_stop {α β : Type} (w : Stop) (s : Sess) (h : NoFuel (Res.stop (α := α) w s)) :
    NoFuel (Res.stop (α := β) w s) := by
  cases w <;> first | exact h | trivial

theorem handshake_nf (s : Sess) : NoFuel (handshake s) := by
  unfold handshake
  split
  · split
    · trivial
    · split <;> trivial
  · trivial

theorem write_nf (e : Bool → Ev) (s : Sess) : NoFuel (write e s) := by
  unfold write
  have := handshake_nf s
  cases hh : handshake s with
  | stop w s' => rw [hh] at this; exact NoFuel_stop w s' this
  | ok a s' => trivial

theorem pull_nf (s : Sess) : NoFuel (pull s) := by
  unfold pull
  split
  · trivial
  · have := handshake_nf s
    cases hh : handshake s with
    | stop w s' => rw [hh] at this; exact NoFuel_stop w s' this
    | ok a s' =>
      simp only
      split
      · split
        · trivial
        · split <;> trivial
      · split <;> trivial

/-- a successful `pull` consumes a unit -/
theorem pull_dec (s : Sess) : (pull s).Both (fun _ s' => meas s' < meas s) (fun _ => True) := by
  unfold pull
  split
  · next o u rest hbuf =>
    show meas _ < meas s
    simp only [meas, hbuf, List.length_cons]
    omega
  · next hbuf =>
    cases hh : handshake s with
    | stop w s' => trivial
    | ok a s' =>
      obtain ⟨_, hb, hc, hp⟩ := handshake_fields s a s' hh
      simp only
      split
      · split
        · trivial
        · split
          · trivial
          · trivial
          · next u rest hprot =>
            show meas _ < meas s
            simp only [meas, ← hp, hprot, ← hc, ← hb, List.length_cons]
            omega
      · split
        · trivial
        · next u us rest hpc =>
          show meas _ < meas s
          rw [hbuf] at hb
          simp only [meas, hbuf, ← hp, List.length_map, List.length_nil]
          rw [← hc, pullClear_units _ _ _ _ hpc]
          omega

theorem expectHdr_nf : ∀ n s, meas s < n → NoFuel (expectHdr n s) := by
  intro n
  induction n with
  | zero => intro s h; omega
  | succ n ih =>
    intro s h
    unfold expectHdr
    have h1 := pull_nf s
    have h2 := pull_dec s
    cases hh : pull s with
    | stop w s' => rw [hh] at h1; exact NoFuel_stop w s' h1
    | ok u s' =>
      rw [hh] at h2
      have hlt : meas s' < n := by
        have : meas s' < meas s := h2
        omega
      cases u with
      | space => exact ih s' hlt
      | hdr ok => cases ok <;> trivial
      | hdrA f t =>
        show NoFuel (acceptHdr f t s')
        rcases acceptHdr_id f t s' with h | h <;> rw [h] <;> trivial
      | _ => trivial

theorem negotiateOne_nf (c : Cached) (res : NegRes) (s : Sess) : NoFuel (negotiateOne c res s) := by
  unfold negotiateOne
  split
  · have hw := write_nf .wStartTLS (chooseConfig s)
    cases hh : write .wStartTLS (chooseConfig s) with
    | stop w s' => rw [hh] at hw; exact NoFuel_stop w s' hw
    | ok a s1 =>
      dsimp only
      have hp := pull_nf s1
      cases hh2 : pull s1 with
      | stop w s' => rw [hh2] at hp; exact NoFuel_stop w s' hp
      | ok u s2 => cases u <;> trivial
  · have hw := write_nf (.wOther c.id) s
    cases hh : write (.wOther c.id) s with
    | stop w s' => rw [hh] at hw; exact NoFuel_stop w s' hw
    | ok a s1 =>
      dsimp only
      split
      · trivial
      · split <;> trivial

theorem finishList_nf (cfg : FCfg) (skipped : List Cached) (s : Sess) : NoFuel (finishList cfg skipped s) := by
  unfold finishList
  split <;> trivial

theorem select_nf (cfg : FCfg) (doTLS listReq : Bool) (cache skipped : List Cached) :
    ∀ orc s, NoFuel (select cfg doTLS listReq cache skipped orc s) := by
  intro orc
  induction orc with
  | nil =>
    intro s
    unfold select
    split
    · exact finishList_nf cfg skipped s
    · trivial
  | cons e orc' ih =>
    intro s
    obtain ⟨id, res⟩ := e
    unfold select
    generalize pickSet cfg doTLS cache s = al
    split
    · exact finishList_nf cfg skipped s
    · dsimp only
      split
      · trivial
      · next c hc =>
        have hno := negotiateOne_nf c res { s with oracle := orc' }
        cases hh : negotiateOne c res { s with oracle := orc' } with
        | stop w s' => rw [hh] at hno; exact NoFuel_stop w s' hno
        | ok mr s1 =>
          obtain ⟨mask, rw⟩ := mr
          dsimp only
          split
          · trivial
          · exact ih _

theorem negotiateFeatures_nf (cfg : FCfg) (first : Bool) (s : Sess) : NoFuel (negotiateFeatures cfg first s) := by
  unfold negotiateFeatures
  have hp := pull_nf s
  cases hh : pull s with
  | stop w s' => rw [hh] at hp; exact NoFuel_stop w s' hp
  | ok u s1 =>
    cases u <;> dsimp only <;> try trivial
    split
    · trivial
    · split
      · trivial
      · split
        · trivial
        · exact select_nf cfg _ _ _ _ _ s1

theorem select_lt (cfg : FCfg) (doTLS listReq : Bool) (cache skipped : List Cached) (orc : List (Nat × NegRes)) (s : Sess)
    (N : Nat) (h : meas s < N) :
    (select cfg doTLS listReq cache skipped orc s).Both (fun _ s' => meas s' < N) (fun _ => True) := by
  have hs := select_all (M_io (meas s)) (M_neg (meas s)) cfg doTLS listReq cache skipped orc s (Nat.le_refl _)
  cases hh : select cfg doTLS listReq cache skipped orc s with
  | stop w s' => trivial
  | ok out s' =>
    rw [hh] at hs
    have : meas s' ≤ meas s := hs
    show meas s' < N
    omega

/-- a successful `negotiateFeatures` consumed at least the features list -/
theorem negotiateFeatures_dec (cfg : FCfg) (first : Bool) (s : Sess) :
    (negotiateFeatures cfg first s).Both (fun _ s' => meas s' < meas s) (fun _ => True) := by
  unfold negotiateFeatures
  have hd := pull_dec s
  cases hh : pull s with
  | stop w s' => trivial
  | ok u s1 =>
    rw [hh] at hd
    have hlt : meas s1 < meas s := hd
    cases u <;> dsimp only <;> try trivial
    split
    · trivial
    · split
      · exact hlt
      · split
        · trivial
        · exact select_lt cfg _ _ _ _ _ s1 (meas s) hlt

theorem step_hdr_all (fuel : Nat) (s : Sess) :
    (if s.doRestart then
      match write .wHdr s with
      | .stop w s' => Res.stop w s'
      | .ok _ s1 => expectHdr fuel s1
    else Res.ok () s : Res PUnit).All (M (meas s)) := by
  split
  · have hw := write_all (M_io (meas s)) .wHdr (fun s h => h) s (Nat.le_refl _)
    cases hh : write .wHdr s with
    | stop w s' => rw [hh] at hw; exact hw
    | ok a s1 => rw [hh] at hw; exact expectHdr_all (M_io (meas s)) fuel s1 hw
  · exact Nat.le_refl _

theorem step_nf (cfg : FCfg) (fuel : Nat) (s : Sess) (h : meas s < fuel) : NoFuel (step cfg fuel s) := by
  unfold step
  have hr : NoFuel (if s.doRestart then
      match write .wHdr s with
      | .stop w s' => Res.stop w s'
      | .ok _ s1 => expectHdr fuel s1
    else Res.ok () s : Res PUnit) := by
    split
    · have hw := write_nf .wHdr s
      have hm := write_all (M_io (meas s)) .wHdr (fun s h => h) s (Nat.le_refl _)
      cases hh : write .wHdr s with
      | stop w s' => rw [hh] at hw; exact NoFuel_stop w s' hw
      | ok a s1 =>
        rw [hh] at hm
        have : meas s1 ≤ meas s := hm
        exact expectHdr_nf fuel s1 (by omega)
    · trivial
  simp only
  generalize (if s.doRestart then
      match write .wHdr s with
      | .stop w s' => Res.stop w s'
      | .ok _ s1 => expectHdr fuel s1
    else Res.ok () s : Res PUnit) = r at hr
  cases r with
  | stop w s' => exact NoFuel_stop w s' hr
  | ok a s2 =>
    dsimp only
    have hnf : NoFuel (negotiateFeaturesAdv cfg s2.first { s2 with first := false }) := by
      have h0 := negotiateFeatures_nf cfg s2.first { s2 with first := false }
      unfold negotiateFeaturesAdv
      cases hq : negotiateFeatures cfg s2.first { s2 with first := false } with
      | stop w q => rw [hq] at h0; cases w <;> first | exact h0 | trivial
      | ok o q => trivial
    cases hh : negotiateFeaturesAdv cfg s2.first { s2 with first := false } with
    | stop w s' => rw [hh] at hnf; exact NoFuel_stop w s' hnf
    | ok out s3 => trivial

theorem step_dec (cfg : FCfg) (fuel : Nat) (s : Sess) :
    (step cfg fuel s).Both (fun _ s' => meas s' < meas s) (fun _ => True) := by
  unfold step
  have hr := step_hdr_all fuel s
  simp only
  generalize (if s.doRestart then
      match write .wHdr s with
      | .stop w s' => Res.stop w s'
      | .ok _ s1 => expectHdr fuel s1
    else Res.ok () s : Res PUnit) = r at hr
  cases r with
  | stop w s' => trivial
  | ok a s2 =>
    dsimp only
    have h2 : meas s2 ≤ meas s := hr
    have hd := addAdv_both (Pok := fun (_ : FOut) s' => meas s' < meas { s2 with first := false }) (Pstop := fun _ => True)
      (peekAdv cfg { s2 with first := false }) s2.tls _ (fun a s h => h) (fun s h => h)
      (negotiateFeatures_dec cfg s2.first { s2 with first := false })
    change (negotiateFeaturesAdv cfg s2.first { s2 with first := false }).Both _ _ at hd
    cases hh : negotiateFeaturesAdv cfg s2.first { s2 with first := false } with
    | stop w s' => trivial
    | ok out s3 =>
      rw [hh] at hd
      have : meas s3 < meas { s2 with first := false } := hd
      show meas s3 < meas s
      have e : meas { s2 with first := false } = meas s2 := rfl
      omega

theorem install_meas (rw : Rw) (s : Sess) : meas (install rw s) ≤ meas s := by
  cases rw <;> simp only [install, restartDec, meas, List.length_nil] <;> omega

theorem loop_nf (cfg : Cfg) : ∀ fuel teeOn s, meas s < fuel → (loop cfg fuel teeOn s).2 ≠ .stop .fuel := by
  intro fuel
  induction fuel with
  | zero => intro teeOn s h; omega
  | succ fuel ih =>
    intro teeOn s h
    unfold loop
    split
    · intro hc; cases hc
    · simp only
      have h1 : meas (if (cfg.tee && !teeOn) = true then restartDec s else s) ≤ meas s := by
        split
        · simp only [restartDec, meas, List.length_nil]; omega
        · exact Nat.le_refl _
      have hnf := step_nf cfg.toFCfg (fuel + 1) (if (cfg.tee && !teeOn) = true then restartDec s else s) (by omega)
      have hd := step_dec cfg.toFCfg (fuel + 1) (if (cfg.tee && !teeOn) = true then restartDec s else s)
      cases hh : step cfg.toFCfg (fuel + 1) (if (cfg.tee && !teeOn) = true then restartDec s else s) with
      | stop w s2 =>
        rw [hh] at hnf
        intro hc
        simp only [Outcome.stop.injEq] at hc
        subst hc
        exact hnf
      | ok out s2 =>
        rw [hh] at hd
        have h2 : meas s2 < meas (if (cfg.tee && !teeOn) = true then restartDec s else s) := hd
        apply ih
        have h3 := install_meas out.rw s2
        show meas (install out.rw s2) < fuel
        omega

/-- units in the peer's script -/
def Input.units (i : Input) : Nat := segUnits i.clear + i.prot.length

theorem run_nf (cfg : Cfg) (env : Env) (st0 : Mask) (i : Input) (fuel : Nat) (h : i.units < fuel) :
    (run cfg env st0 i fuel).2 ≠ .stop .fuel := by
  unfold run
  split
  · intro hc; cases hc
  · apply loop_nf
    simp only [meas, init, List.length_nil, Input.units] at h ⊢
    omega

end XmppModel.StartTLS
