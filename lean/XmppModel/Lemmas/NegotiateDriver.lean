import XmppModel.Lemmas.NegotiateTerm
import XmppModel.Driver.C01
/-!
The driver's run loop (`Driver/C01.lean`) computes the model's `run`, and its fuel is enough:
the answer `fuel` is never given.
-/
namespace XmppModel.Negotiate
open XmppModel.Driver.C01

theorem runFast_eq_run (C : List Feature) (O : Oracle) (n : Nat) (c : Conf) :
    runFast C O n c = run C O n c := by
  induction n generalizing c with
  | zero => rfl
  | succ n ih =>
    unfold runFast
    split
    · rename_i h; rw [run_of_final C O _ c h]
    · rw [ih]; rfl

theorem advLen_sum (script : List Peer) : (script.map advLen).sum = scriptSize script := by
  induction script with
  | nil => rfl
  | cons p ps ih =>
    simp only [List.map_cons, List.sum_cons, scriptSize, ih, peerSize]
    cases p <;> simp [advLen, extra] <;> omega

/-- with the fuel the driver uses, the machine has reached a final control point -/
theorem driver_final (C : List Feature) (O : Oracle) (st0 : St) (script : List Peer)
    (picks : List FName) :
    (runFast C O (fuelFor C script picks) (init st0 script picks)).pc.final = true := by
  rw [runFast_eq_run]
  apply run_final
  simp [Negotiate.measure, init, pend, localRank, fuelFor, advLen_sum]

end XmppModel.Negotiate
