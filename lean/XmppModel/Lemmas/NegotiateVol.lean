import XmppModel.Lemmas.NegotiateOnce
import XmppModel.Lemmas.NegotiateAdv
/-!
Voluntary before mandatory, as a property of traces.
-/
namespace XmppModel.Negotiate

/-- (trace newest first) the cache entries recorded by the most recent features-list event
(empty after a list the receiver wrote) -/
def lastEntries : List Ev → List Entry
  | [] => []
  | .listIn _ _ _ es :: _ => es
  | .listOut _ _ _ :: _ => []
  | _ :: rest => lastEntries rest

/-- every mandatory entry the initiator negotiates from the list is taken only when no
voluntary entry of that list is still open: negotiable, eligible in the state of the call and
not yet negotiated on this stream -/
def VolOK : List Ev → Prop
  | [] => True
  | e :: rest =>
    (match e with
     | .neg _ st true false false _ =>
       ∀ e' ∈ lastEntries rest, e'.req = false → e'.f.negotiable = true → eligible st e'.f = true →
         e'.f.name.ns ∈ segNs rest
     | _ => True) ∧ VolOK rest

/-- control points of the initiator's selection loop -/
def inCloop : Pc → Bool
  | .decide | .cloop _ => true
  | _ => false

/-- control points of the receiving side -/
def srvPc : Pc → Bool
  | .listing _ | .flush | .abort | .sloop | .selected _ => true
  | _ => false

/-- control points of the initiating side of a round -/
def cliPc : Pc → Bool
  | .readList | .parsing _ | .decide | .cloop _ => true
  | _ => false

structure InvV (c : Conf) : Prop where
  ok : VolOK c.tr
  /-- the cache is what the last list event recorded -/
  cacheIs : inCloop c.pc = true → ∀ e ∈ lastEntries c.tr, e ∈ c.cache
  /-- `s.negotiated` contains nothing but what was negotiated since the last header -/
  negdSub : liveD c = true → ∀ ns ∈ c.negd, ns ∈ segNs c.tr
  /-- nothing is negotiated yet when a header exchange starts -/
  fresh : c.doRestart = true → c.pc = .top → c.negd = []
  freshH : (c.pc = .hdr1 ∨ c.pc = .hdr2) → c.negd = []
  cli : cliPc c.pc = true → c.srv = false
  srv : srvPc c.pc = true → c.srv = true

theorem allowed_mandatory' {cands : List Entry} {e : Entry} (he : e ∈ allowed cands)
    (hr : e.req = true) : ∀ e' ∈ cands, e'.req = true := by
  unfold allowed at he
  split at he
  · have := (List.mem_filter.mp he).2
    simp [hr] at this
  · rename_i hany
    intro e' he'
    cases hq : e'.req
    · exfalso; apply hany
      exact List.any_eq_true.mpr ⟨e', he', by simp [hq]⟩
    · rfl

theorem mem_candidates {c : Conf} {e : Entry} (h1 : e ∈ c.cache) (h2 : e.f.negotiable = true)
    (h3 : c.negd.contains e.f.name.ns = false) (h4 : eligible c.st e.f = true) : e ∈ candidates c := by
  unfold candidates
  exact List.mem_filter.mpr ⟨h1, by simp [h2, h4]; simpa using h3⟩

theorem invV_step (C : List Feature) (O : Oracle) (c : Conf) (h : InvV c) : InvV (step C O c) := by
  obtain ⟨h1, h2, h3, h4, h4', h5, h6⟩ := h
  step_all
  all_goals (constructor <;> (try dsimp only))
  all_goals first
    | exact h1
    | exact h2
    | exact h3
    | exact h4
    | exact h4'
    | exact h5
    | exact h6
    | exact ⟨True.intro, h1⟩
    | (intro h; cases h; done)
    | (intro _ h; cases h; done)
    | (intro h; rcases h with h | h <;> cases h; done)
    | (simp_all [inCloop, liveD, lastEntries, segNs, Ev.isHdr, VolOK, cliPc, srvPc]; done)
    | (-- a receiver-side negotiation: the clause is about the initiator
       refine ⟨?_, h1⟩
       have hs : c.srv = true := by simp_all [srvPc]
       rw [hs]
       cases ‹Entry›.req <;> exact True.intro)
    | (-- the initiator's loop
       refine ⟨?_, h1⟩
       have hs : c.srv = false := by simp_all [cliPc]
       have hm := List.mem_of_find?_eq_some ‹List.find? _ (allowed (candidates c)) = some _›
       rw [hs]
       cases hr : ‹Entry›.req
       · exact True.intro
       · intro e' he' hv hn hel
         have hc : e' ∈ c.cache := h2 (by simp_all [inCloop]) e' he'
         cases hq : c.negd.contains e'.f.name.ns
         · have := allowed_mandatory' hm hr e' (mem_candidates hc hn hq hel)
           rw [hv] at this; cases this
         · exact h3 (by simp_all [liveD]) _ (by simpa using hq))
    | skip

/-! ### a voluntary feature does not end the list -/

/-- the initiator negotiated an entry the list marked voluntary, successfully and without a
restart -/
def Ev.isVolStay : Ev → Bool
  | .neg _ _ false false false r => !r.err && !r.restart
  | _ => false

def Ev.isNeg : Ev → Bool
  | .neg _ _ _ _ _ _ => true
  | _ => false

/-- (trace newest first) the event after such a negotiation is another `Negotiate` call -/
def StayOK : List Ev → Prop
  | [] => True
  | [_] => True
  | e :: e' :: rest => (e'.isVolStay = true → e.isNeg = true) ∧ StayOK (e' :: rest)

def headStay : List Ev → Bool
  | e :: _ => e.isVolStay
  | [] => false

/-- control points from which the next event, if any, is a `Negotiate` call of the same list -/
def stayPc (c : Conf) : Bool :=
  match c.pc with
  | .cloop false => true
  | .ret m _ => has m bReady
  | .top => has c.st bReady
  | .done | .fail _ | .crash | .stuck | .hung _ | .tee => true
  | _ => false

structure InvY (c : Conf) : Prop where
  ok : StayOK c.tr
  stay : headStay c.tr = true → stayPc c = true

theorem stayOK_cons {e : Ev} {tr : List Ev} (h : StayOK tr)
    (hh : headStay tr = true → e.isNeg = true) : StayOK (e :: tr) := by
  cases tr with
  | nil => exact True.intro
  | cons e' rest => exact ⟨hh, h⟩

theorem invY_step (C : List Feature) (O : Oracle) (c : Conf) (hv : InvV c) (h : InvY c) :
    InvY (step C O c) := by
  obtain ⟨ho, hp⟩ := h
  have hsrv := hv.srv
  step_all
  all_goals (constructor <;> (try dsimp only))
  all_goals first
    | exact ho
    | exact hp
    | (intro h; have hh := hp h; unfold stayPc at hh; rw [‹c.pc = _›] at hh; cases hh; done)
    | (refine stayOK_cons ho ?_; intro h; have hh := hp h; unfold stayPc at hh; rw [‹c.pc = _›] at hh; cases hh; done)
    | (refine stayOK_cons ho ?_; intro _; rfl)
    | (intro h; have hh := hp h; simp_all [stayPc, has_or_right]; done)
    | (intro h; simp_all [headStay, Ev.isVolStay, stayPc, srvPc]; done)
    | (intro _; show has bReady bReady = true; decide)
    | (intro h; cases hreq : ‹Entry›.req <;> cases hs : c.srv <;>
         simp_all [headStay, Ev.isVolStay, stayPc, srvPc] <;> done)
    | skip

end XmppModel.Negotiate
