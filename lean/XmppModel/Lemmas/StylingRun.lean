import XmppModel.Lemmas.StylingBracket
import XmppModel.Lemmas.StylingChunk
/-! Whole-run bracket discipline of the styling decoder (C17): the per-call theorem
`scanRel_bracket` lifted to the reference run, hence (chunk independence) to every run. -/
namespace XmppModel.Styling

/-- all open spans of a decoder (with its chain of inner decoders), outermost decoder first -/
def Dec.openSpans (d : Dec) : List UInt8 := stacks (d.lv :: d.inner)

def Dec.RunInv (d : Dec) (R : Bytes) : Prop := Styling.G d.lv d.inner R

def Dec.AllGood (d : Dec) : Prop := LvGood d.lv ∧ ∀ q ∈ d.inner, LvGood q

theorem Dec.RunInv_init (doc : Bytes) : Dec.RunInv {} doc :=
  ⟨⟨LvGood_init, by simp⟩, rfl, trivial, by simp [PathInv, Closable]⟩

theorem PathInv_nil : ∀ (lv : Level) (inner : List Level), PathInv lv inner [] → stacks (lv :: inner) = [] := by
  intro lv inner
  induction inner generalizing lv with
  | nil =>
    intro h
    rw [stacks_single]
    cases hs : lv.spanStack with
    | nil => rfl
    | cons top below =>
      have := h.1
      rw [hs] at this
      exact absurd (closable_mem this) (by simp)
  | cons q qs ih =>
    intro h
    rw [stacks_cons, h.1, ih q h.2.2]; rfl

/-- what one step of a run (`d` with unread input `R` returns token `t` and becomes `d'`)
satisfies -/
structure StepP (d : Dec) (R : Bytes) (t : Bytes) (d' : Dec) : Prop where
  prefix_ : t = R.take t.length ∧ t ≠ []
  inv : d'.RunInv (R.drop t.length)
  lifo : d'.openSpans = d.openSpans ∨ (∃ b, d'.openSpans = b :: d.openSpans) ∨
    (∃ b, d.openSpans = b :: d'.openSpans)
  line : nl ∈ t → d'.openSpans = []
  pre_span : tick ∈ d.openSpans → ¬∃ b, d'.openSpans = b :: d.openSpans

/-- the steps of a run, each related to the state and unread input before it -/
def RunSteps : Dec → Bytes → List (Bytes × Dec) → Prop
  | _, _, [] => True
  | d, R, (t, d') :: rest => StepP d R t d' ∧ RunSteps d' (R.drop t.length) rest

def finalDec : Dec → List (Bytes × Dec) → Dec
  | d, [] => d
  | _, (_, d') :: rest => finalDec d' rest

theorem dec_step {d : Dec} {R : Bytes} (hne : R ≠ []) (hg : d.RunInv R) {a : Nat} {t : Bytes} {d' : Dec}
    (h : d.scan R true = (.tok a t, d')) :
    StepP d R t d' ∧ d'.RunInv (R.drop a) ∧ t.length = a := by
  have hr := scanLv_rel R true false d.lv d.inner
  have hs := scanRel_bracket hr hne hg (by intro h; cases h)
  unfold Dec.scan at h
  simp only [Prod.mk.injEq] at h
  obtain ⟨h1, h2⟩ := h
  obtain ⟨⟨a', t', e1, e2, hg', hnl⟩, hl, hp⟩ := hs
  rw [h1] at e1
  simp only [Out.tok.injEq] at e1
  obtain ⟨rfl, rfl⟩ := e1
  have hgood := scanRel_good hr hg.chain (List.length_pos_iff.mpr hne)
  rw [h1] at hgood
  obtain ⟨ha0, hal, _⟩ := hgood.1
  have hlen : t.length = a := by rw [e2]; simp; omega
  subst h2
  refine ⟨⟨⟨by rw [hlen]; exact e2, ?_⟩, by rw [hlen]; exact hg', hl, hnl, hp⟩, hg', hlen⟩
  intro hnil
  rw [hnil] at hlen
  simp at hlen; omega

theorem refRun_steps : ∀ (fuel : Nat) (d : Dec) (R : Bytes), d.RunInv R →
    RunSteps d R (refRun Dec.scan fuel d R).1 ∧
    ((refRun Dec.scan fuel d R).2 = .eof → (finalDec d (refRun Dec.scan fuel d R).1).openSpans = []) := by
  intro fuel
  induction fuel with
  | zero => intro d R _; simp [refRun, scanner, RunSteps]
  | succ fuel ih =>
    intro d R hg
    unfold refRun
    rw [scanner]
    simp only [Bool.not_true, Bool.and_false, Bool.false_eq_true, if_false]
    cases hsc : d.scan R true with
    | mk o d' =>
      cases o with
      | more =>
        simp only [readStep, if_true, RunSteps, finalDec, true_and]
        intro _
        have hR : R = [] := by
          apply Classical.byContradiction
          intro hne
          have := decScan_spec.eof_tok d R hg.chain (List.length_pos_iff.mpr hne)
          rw [hsc] at this; exact this rfl
        subst hR
        exact PathInv_nil _ _ hg.path
      | panic => simp [RunSteps]
      | tok a t =>
        simp only []
        by_cases hc : (a == 0 || decide (a > R.length)) = true
        · rw [if_pos hc]; simp [RunSteps]
        · rw [if_neg hc]
          have hne : R ≠ [] := by
            intro h; subst h
            have := (decScan_spec.nil_eof d hg.chain).1
            rw [hsc] at this; cases this
          obtain ⟨hstep, hg', hlen⟩ := dec_step hne hg hsc
          have := ih d' (R.drop a) hg'
          unfold refRun at this
          simp only [RunSteps, finalDec]
          rw [hlen]
          exact ⟨⟨hstep, this.1⟩, this.2⟩


/-- while some decoder of the chain is inside a preformatted block no span is open -/
theorem inPre_closed : ∀ (lv : Level) (inner : List Level) (R : Bytes), Styling.G lv inner R →
    (EffPre lv ∨ ∃ q ∈ inner, EffPre q) → stacks (lv :: inner) = [] := by
  intro lv inner
  induction inner generalizing lv with
  | nil =>
    intro R hg h
    rcases h with h | ⟨q, hq, _⟩
    · rw [stacks_single]; exact hg.good.1.preEmpty h
    · simp at hq
  | cons q qs ih =>
    intro R hg h
    have hnot : ¬EffPre lv := hg.pre.1
    have hin : EffPre q ∨ ∃ x ∈ qs, EffPre x := by
      rcases h with h | ⟨x, hx, he⟩
      · exact absurd h hnot
      · simp only [List.mem_cons] at hx
        rcases hx with rfl | hx
        · exact Or.inl he
        · exact Or.inr ⟨x, hx, he⟩
    rw [stacks_cons, hg.path.1, ih q R (G_inner hg) hin]; rfl

theorem RunSteps_forall {P : Dec → Prop} :
    ∀ (l : List (Bytes × Dec)) (d : Dec) (R : Bytes), RunSteps d R l →
    (∀ d R t d', StepP d R t d' → P d') → ∀ x ∈ l, P x.2 := by
  intro l
  induction l with
  | nil => intro _ _ _ _ x hx; simp at hx
  | cons y ys ih =>
    intro d R h hP x hx
    obtain ⟨t, d'⟩ := y
    simp only [List.mem_cons] at hx
    rcases hx with rfl | hx
    · exact hP d R t d' h.1
    · exact ih d' _ h.2 hP x hx

/-- span end bits come with their style bits in the combined style of a chain of decoders -/
theorem EndCons_or {a b : Style} (ha : EndCons a) (hb : EndCons b) : EndCons (a ||| b) := by
  simp only [EndCons, BitVec.getLsbD_or, Bool.or_eq_true] at *
  obtain ⟨a1, a2, a3, a4⟩ := ha
  obtain ⟨b1, b2, b3, b4⟩ := hb
  refine ⟨?_, ?_, ?_, ?_⟩ <;> (intro h; rcases h with h | h) <;> simp_all

theorem styleLv_endCons : ∀ (lv : Level) (inner : List Level), LvGood lv → (∀ q ∈ inner, LvGood q) →
    EndCons (styleLv lv inner) := by
  intro lv inner
  induction inner generalizing lv with
  | nil =>
    intro h _
    unfold styleLv
    split
    · exact h.endc
    · simp [EndCons]
  | cons q qs ih =>
    intro h hq
    unfold styleLv
    split
    · exact EndCons_or h.endc (ih q (hq q (by simp)) (fun x hx => hq x (by simp [hx])))
    · simp [EndCons]

theorem styleLv_startCons' (lv : Level) (inner : List Level) (h : LvGood lv) (hq : ∀ q ∈ inner, LvGood q) :
    StartCons (styleLv lv inner) :=
  styleLv_startCons ⟨h.inv, fun q hq' => (hq q hq').inv⟩

end XmppModel.Styling
