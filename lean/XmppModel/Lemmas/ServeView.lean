import XmppModel.Model.Serve
import XmppModel.Lemmas.Serve
/-! The view of one invocation and the resynchronisation after it (C08). -/
namespace XmppModel.Serve
open XmppModel.Xml

/-- split the remaining input at the end tag that closes the current element (`c` nested
elements are open): the tokens through that end tag, and what follows -/
def splitElem : Nat → List Tok → Option (List Tok × List Tok)
  | _, [] => none
  | c, .start n as :: ts => (splitElem (c + 1) ts).map fun p => (.start n as :: p.1, p.2)
  | 0, .stop n :: ts => some ([.stop n], ts)
  | c + 1, .stop n :: ts => (splitElem c ts).map fun p => (.stop n :: p.1, p.2)
  | c, .chars s :: ts => (splitElem c ts).map fun p => (.chars s :: p.1, p.2)
  | c, .comment s :: ts => (splitElem c ts).map fun p => (.comment s :: p.1, p.2)
  | c, .procInst a b :: ts => (splitElem c ts).map fun p => (.procInst a b :: p.1, p.2)
  | c, .directive s :: ts => (splitElem c ts).map fun p => (.directive s :: p.1, p.2)

theorem splitElem_append : ∀ (l : List Tok) (c : Nat) (r rest : List Tok),
    splitElem c l = some (r, rest) → l = r ++ rest ∧ r ≠ [] := by
  intro l
  induction l with
  | nil => intro c r rest h; simp [splitElem] at h
  | cons t ts ih =>
    intro c r rest h
    cases t with
    | start n as =>
      simp only [splitElem, Option.map_eq_some_iff] at h
      obtain ⟨⟨r', rest'⟩, h1, h2⟩ := h
      simp only [Prod.mk.injEq] at h2
      obtain ⟨rfl, rfl⟩ := h2
      have := ih _ _ _ h1
      exact ⟨by simp [this.1], by simp⟩
    | stop n =>
      cases c with
      | zero =>
        simp only [splitElem, Option.some.injEq, Prod.mk.injEq] at h
        obtain ⟨rfl, rfl⟩ := h
        exact ⟨by simp, by simp⟩
      | succ c =>
        simp only [splitElem, Option.map_eq_some_iff] at h
        obtain ⟨⟨r', rest'⟩, h1, h2⟩ := h
        simp only [Prod.mk.injEq] at h2
        obtain ⟨rfl, rfl⟩ := h2
        have := ih _ _ _ h1
        exact ⟨by simp [this.1], by simp⟩
    | chars s =>
      simp only [splitElem, Option.map_eq_some_iff] at h
      obtain ⟨⟨r', rest'⟩, h1, h2⟩ := h
      simp only [Prod.mk.injEq] at h2
      obtain ⟨rfl, rfl⟩ := h2
      have := ih _ _ _ h1
      exact ⟨by simp [this.1], by simp⟩
    | comment s =>
      simp only [splitElem, Option.map_eq_some_iff] at h
      obtain ⟨⟨r', rest'⟩, h1, h2⟩ := h
      simp only [Prod.mk.injEq] at h2
      obtain ⟨rfl, rfl⟩ := h2
      have := ih _ _ _ h1
      exact ⟨by simp [this.1], by simp⟩
    | procInst a b =>
      simp only [splitElem, Option.map_eq_some_iff] at h
      obtain ⟨⟨r', rest'⟩, h1, h2⟩ := h
      simp only [Prod.mk.injEq] at h2
      obtain ⟨rfl, rfl⟩ := h2
      have := ih _ _ _ h1
      exact ⟨by simp [this.1], by simp⟩
    | directive s =>
      simp only [splitElem, Option.map_eq_some_iff] at h
      obtain ⟨⟨r', rest'⟩, h1, h2⟩ := h
      simp only [Prod.mk.injEq] at h2
      obtain ⟨rfl, rfl⟩ := h2
      have := ih _ _ _ h1
      exact ⟨by simp [this.1], by simp⟩

/-- depth bookkeeping of `reader.Token` for an ordinary token -/
def upd (d : Nat) : Tok → Nat
  | .start .. => d + 1
  | .stop _ => d - 1
  | _ => d

theorem verdict_plain (d : Nat) (t : Tok) (rest : List Tok) (hp : plainTok t = true) (hd : 1 ≤ d) :
    verdict d t rest = (upd d t, .tok t) := by
  cases t with
  | chars s =>
    have : (d == 0) = false := by simp; omega
    simp [verdict, upd, this]
  | start n as => simp only [plainTok] at hp; simp [verdict, upd, hp]
  | stop n => simp only [plainTok] at hp; simp [verdict, upd, hp]
  | comment s => simp [plainTok] at hp
  | procInst a b => simp [plainTok] at hp
  | directive s => simp [plainTok] at hp

/-- reading state after an ordinary token `t` has been read -/
def nxt (s : RS) (t : Tok) (ts : List Tok) : RS :=
  { inp := ts, dIn := upd s.dIn t, dOut := upd s.dOut t, sticky := none }

theorem RS.next_plain (s : RS) (t : Tok) (ts : List Tok) (hs : s.sticky = none) (hi : s.inp = t :: ts)
    (hp : plainTok t = true) (h1 : 1 ≤ s.dIn) (h2 : 1 ≤ s.dOut) :
    s.next = (.tok t, nxt s t ts) := by
  unfold RS.next nxt
  simp only [hs, hi, verdict_plain s.dIn t ts hp h1, verdict_plain s.dOut t ts hp h2]

/-- in the middle of an element: `rem` (all ordinary content) is what is left of it, `rest`
what follows it; `a`, `b` are the depths of the two readers outside the element -/
structure Mid (e : ES) (rem rest : List Tok) (a b : Nat) : Prop where
  fin : e.fin = false
  st : e.rs.sticky = none
  sp : splitElem e.cnt e.rs.inp = some (rem, rest)
  pl : ∀ t ∈ rem, plainTok t = true
  di : e.rs.dIn = a + 1 + e.cnt
  dO : e.rs.dOut = b + 1 + e.cnt

/-- the element has been read through its end tag: the input stands at `rest` -/
structure Done (e : ES) (rest : List Tok) (a b : Nat) : Prop where
  fin : e.fin = true
  st : e.rs.sticky = none
  inp : e.rs.inp = rest
  di : e.rs.dIn = a
  dO : e.rs.dOut = b

def St (e : ES) (rem rest : List Tok) (a b : Nat) : Prop :=
  (rem = [] ∧ Done e rest a b) ∨ (rem ≠ [] ∧ Mid e rem rest a b)

/-- one step inside an element: the read returns the next token of the element, and the
discard loop either stops (end tag reached) or continues from the same new state -/
theorem step_mid {e : ES} {t : Tok} {rem' rest : List Tok} {a b : Nat}
    (h : Mid e (t :: rem') rest a b) :
    ∃ e', e.read = (.tok t, e') ∧
      (∀ f, discardF (f + 1) e = if e'.fin then (none, e') else discardF f e') ∧
      St e' rem' rest a b := by
  obtain ⟨hfin, hst, hsp, hpl, hdi, hdo⟩ := h
  have hpt : plainTok t = true := hpl t (by simp)
  have hpl' : ∀ x ∈ rem', plainTok x = true := fun x hx => hpl x (by simp [hx])
  cases hi : e.rs.inp with
  | nil => simp [hi, splitElem] at hsp
  | cons t0 ts =>
    rw [hi] at hsp
    have hnext := fun (hp0 : plainTok t0 = true) =>
      RS.next_plain e.rs t0 ts hst hi hp0 (by omega) (by omega)
    cases t0 with
    | start n as =>
      simp only [splitElem, Option.map_eq_some_iff] at hsp
      obtain ⟨⟨r', rest'⟩, h1, h2⟩ := hsp
      simp only [Prod.mk.injEq, List.cons.injEq] at h2
      obtain ⟨⟨rfl, rfl⟩, rfl⟩ := h2
      have hn := hnext hpt
      have hne := (splitElem_append _ _ _ _ h1).2
      refine ⟨{ rs := nxt e.rs (.start n as) ts, cnt := e.cnt + 1, fin := false }, ?_, ?_, ?_⟩
      · simp [ES.read, hfin, hn]
      · intro f; simp [discardF, hfin, hn]
      · exact Or.inr ⟨hne, ⟨rfl, rfl, h1, hpl', by simp [nxt, upd, hdi]; omega, by simp [nxt, upd, hdo]; omega⟩⟩
    | stop n =>
      cases hc : e.cnt with
      | zero =>
        rw [hc] at hsp
        simp only [splitElem, Option.some.injEq, Prod.mk.injEq, List.cons.injEq] at hsp
        obtain ⟨⟨rfl, rfl⟩, rfl⟩ := hsp
        have hn := hnext hpt
        refine ⟨{ rs := nxt e.rs (.stop n) ts, cnt := 0, fin := true }, ?_, ?_, ?_⟩
        · simp [ES.read, hfin, hn, hc]
        · intro f; simp [discardF, hfin, hn, hc]
        · exact Or.inl ⟨rfl, ⟨rfl, rfl, rfl, by simp [nxt, upd, hdi, hc], by simp [nxt, upd, hdo, hc]⟩⟩
      | succ c =>
        rw [hc] at hsp
        simp only [splitElem, Option.map_eq_some_iff] at hsp
        obtain ⟨⟨r', rest'⟩, h1, h2⟩ := hsp
        simp only [Prod.mk.injEq, List.cons.injEq] at h2
        obtain ⟨⟨rfl, rfl⟩, rfl⟩ := h2
        have hn := hnext hpt
        have hne := (splitElem_append _ _ _ _ h1).2
        refine ⟨{ rs := nxt e.rs (.stop n) ts, cnt := c, fin := false }, ?_, ?_, ?_⟩
        · simp [ES.read, hfin, hn, hc]
        · intro f; simp [discardF, hfin, hn, hc]
        · exact Or.inr ⟨hne, ⟨rfl, rfl, h1, hpl', by simp [nxt, upd, hdi, hc], by simp [nxt, upd, hdo, hc]⟩⟩
    | chars s =>
      simp only [splitElem, Option.map_eq_some_iff] at hsp
      obtain ⟨⟨r', rest'⟩, h1, h2⟩ := hsp
      simp only [Prod.mk.injEq, List.cons.injEq] at h2
      obtain ⟨⟨rfl, rfl⟩, rfl⟩ := h2
      have hn := hnext hpt
      have hne := (splitElem_append _ _ _ _ h1).2
      refine ⟨{ e with rs := nxt e.rs (.chars s) ts }, ?_, ?_, ?_⟩
      · simp [ES.read, hfin, hn]
      · intro f; simp [discardF, hfin, hn]
      · exact Or.inr ⟨hne, ⟨hfin, rfl, h1, hpl', by simp [nxt, upd, hdi], by simp [nxt, upd, hdo]⟩⟩
    | comment s =>
      simp only [splitElem, Option.map_eq_some_iff] at hsp
      obtain ⟨⟨r', rest'⟩, h1, h2⟩ := hsp
      simp only [Prod.mk.injEq, List.cons.injEq] at h2
      obtain ⟨⟨rfl, rfl⟩, rfl⟩ := h2
      simp [plainTok] at hpt
    | procInst x y =>
      simp only [splitElem, Option.map_eq_some_iff] at hsp
      obtain ⟨⟨r', rest'⟩, h1, h2⟩ := hsp
      simp only [Prod.mk.injEq, List.cons.injEq] at h2
      obtain ⟨⟨rfl, rfl⟩, rfl⟩ := h2
      simp [plainTok] at hpt
    | directive s =>
      simp only [splitElem, Option.map_eq_some_iff] at hsp
      obtain ⟨⟨r', rest'⟩, h1, h2⟩ := hsp
      simp only [Prod.mk.injEq, List.cons.injEq] at h2
      obtain ⟨⟨rfl, rfl⟩, rfl⟩ := h2
      simp [plainTok] at hpt

/-- what `k` successive reads of an element whose remaining tokens are `rem` return -/
def viewOf : List Tok → Nat → List Obs
  | _, 0 => []
  | [], k + 1 => .eof :: viewOf [] k
  | t :: ts, k + 1 => .tok t :: viewOf ts k

/-- number of `read` steps of a program -/
def nreads : List Op → Nat
  | [] => 0
  | .read :: ops => nreads ops + 1
  | .write _ :: ops => nreads ops

theorem read_st {e : ES} {rem rest : List Tok} {a b : Nat} (h : St e rem rest a b) :
    ∃ e', e.read = ((viewOf rem 1).headD .eof, e') ∧ St e' rem.tail rest a b := by
  rcases h with ⟨rfl, hd⟩ | ⟨hne, hm⟩
  · exact ⟨e, by simp [ES.read, hd.fin, viewOf], Or.inl ⟨rfl, hd⟩⟩
  · cases rem with
    | nil => exact absurd rfl hne
    | cons t rem' =>
      obtain ⟨e', h1, _, h3⟩ := step_mid hm
      exact ⟨e', by simp [viewOf, h1], h3⟩

theorem viewOf_succ (rem : List Tok) (k : Nat) :
    viewOf rem (k + 1) = (viewOf rem 1).headD .eof :: viewOf rem.tail k := by
  cases rem <;> simp [viewOf]

/-- **exact view**: whatever the program does, its reads return the element's remaining tokens
in order and then EOF, the writes go to the writer untouched, and the reading state stays
inside the element -/
theorem runOps_view (id : String) : ∀ (ops : List Op) (e : ES) (w : WS) (acc : List Obs)
    (rem rest : List Tok) (a b : Nat), St e rem rest a b →
    ∃ e', runOps id ops e w acc
        = (acc.reverse ++ viewOf rem (nreads ops), e', w.encAll id (writesOf ops)) ∧
      St e' (rem.drop (nreads ops)) rest a b := by
  intro ops
  induction ops with
  | nil => intro e w acc rem rest a b h; exact ⟨e, by simp [runOps, viewOf, nreads, writesOf, encAll_nil], by simpa [nreads] using h⟩
  | cons o ops ih =>
    intro e w acc rem rest a b h
    cases o with
    | write ts =>
      obtain ⟨e', h1, h2⟩ := ih e (w.encAll id ts) acc rem rest a b h
      exact ⟨e', by simp [runOps, h1, nreads, writesOf, encAll_append], by simpa [nreads] using h2⟩
    | read =>
      obtain ⟨e1, hr, hs⟩ := read_st h
      obtain ⟨e', h1, h2⟩ := ih e1 w ((viewOf rem 1).headD .eof :: acc) rem.tail rest a b hs
      refine ⟨e', ?_, ?_⟩
      · simp only [runOps, hr, nreads, writesOf]
        rw [h1, viewOf_succ rem (nreads ops)]
        simp
      · simpa [nreads, List.drop_succ_cons, List.tail_drop] using h2

/-- **resynchronisation**: from any point inside the element the discard loop ends at the
token after the element's end tag, with both readers back at their outside depths -/
theorem discard_st : ∀ (rem : List Tok) (e : ES) (rest : List Tok) (a b fuel : Nat),
    St e rem rest a b → rem.length + 1 ≤ fuel → ∃ e', discardF fuel e = (none, e') ∧ Done e' rest a b := by
  intro rem
  induction rem with
  | nil =>
    intro e rest a b fuel h hf
    rcases h with ⟨_, hd⟩ | ⟨hne, _⟩
    · cases fuel with
      | zero => omega
      | succ f => exact ⟨e, by simp [discardF, hd.fin], hd⟩
    · exact absurd rfl hne
  | cons t rem' ih =>
    intro e rest a b fuel h hf
    rcases h with ⟨hnil, _⟩ | ⟨_, hm⟩
    · cases hnil
    · obtain ⟨e1, _, h2, h3⟩ := step_mid hm
      cases fuel with
      | zero => omega
      | succ f =>
        rw [h2 f]
        by_cases hfin : e1.fin = true
        · rw [if_pos hfin]
          rcases h3 with ⟨_, hd⟩ | ⟨_, hm'⟩
          · exact ⟨e1, rfl, hd⟩
          · rw [hm'.fin] at hfin; cases hfin
        · rw [if_neg hfin]
          exact ih e1 rest a b f h3 (by simp at hf; omega)

theorem St.len {e : ES} {rem rest : List Tok} {a b : Nat} (h : St e rem rest a b) :
    rem.length ≤ e.rs.inp.length := by
  rcases h with ⟨rfl, _⟩ | ⟨_, hm⟩
  · simp
  · have := (splitElem_append _ _ _ _ hm.sp).1
    rw [this]; simp

/-- one whole `handleInputStream` call on a well-formed element of ordinary content -/
theorem handleInputStream_elem (cfg : Cfg) (rs : RS) (n : Name) (as : List Attr) (body rest : List Tok)
    (prog : Prog)
    (hi : rs.inp = .start n as :: (body ++ rest)) (hn : (n.space != nsStream) = true)
    (hsp : splitElem 0 (body ++ rest) = some (body, rest)) (hpl : ∀ t ∈ body, plainTok t = true)
    (hret : prog.ret = .ok) (d : List Tok)
    (hd : autoReply cfg n (blankFrom cfg n as)
      (WS.init.encAll (getId (blankFrom cfg n as)) (writesOf prog.ops)).wrote = some d) :
    handleInputStream cfg rs prog =
      .next (some { start := .start n (blankFrom cfg n as), view := viewOf body (nreads prog.ops) })
        (writesOf prog.ops ++ d) { inp := rest, dIn := rs.dIn, dOut := 0, sticky := none } := by
  have hne := (splitElem_append _ _ _ _ hsp).2
  have hnext : ({ rs with dOut := 0, sticky := none } : RS).next
      = (.tok (.start n as), { inp := body ++ rest, dIn := rs.dIn + 1, dOut := 1, sticky := none }) := by
    simp [RS.next, hi, verdict, hn]
  have hst : St { rs := { inp := body ++ rest, dIn := rs.dIn + 1, dOut := 1, sticky := none }, cnt := 0, fin := false }
      body rest rs.dIn 0 := Or.inr ⟨hne, ⟨rfl, rfl, hsp, hpl, by simp, by simp⟩⟩
  obtain ⟨e', hrun, hst'⟩ := runOps_view (getId (blankFrom cfg n as)) prog.ops _ WS.init [] body rest rs.dIn 0 hst
  have hlen := hst'.len
  obtain ⟨e'', hdis, hdone⟩ := discard_st _ e' rest rs.dIn 0 (e'.rs.inp.length + 2) hst' (by omega)
  have hrs : e''.rs = { inp := rest, dIn := rs.dIn, dOut := 0, sticky := none } := by
    obtain ⟨_, h1, h2, h3, h4⟩ := hdone
    cases hr : e''.rs
    simp_all
  unfold handleInputStream
  rw [hnext]
  simp only [handleElem, hrun, hret, hd, discard, hdis, hrs]
  simp [encAll_out, WS.init]

theorem splitElem_ext : ∀ (l : List Tok) (c : Nat) (r tl rest : List Tok),
    splitElem c l = some (r, tl) → splitElem c (l ++ rest) = some (r, tl ++ rest) := by
  intro l
  induction l with
  | nil => intro c r tl rest h; simp [splitElem] at h
  | cons t ts ih =>
    intro c r tl rest h
    cases t with
    | start n as =>
      simp only [splitElem, Option.map_eq_some_iff, List.cons_append] at h ⊢
      obtain ⟨⟨r', rest'⟩, h1, h2⟩ := h
      exact ⟨(r', rest' ++ rest), ih _ _ _ rest h1, by simp_all⟩
    | stop n =>
      cases c with
      | zero => simp_all [splitElem]
      | succ c =>
        simp only [splitElem, Option.map_eq_some_iff, List.cons_append] at h ⊢
        obtain ⟨⟨r', rest'⟩, h1, h2⟩ := h
        exact ⟨(r', rest' ++ rest), ih _ _ _ rest h1, by simp_all⟩
    | chars s =>
      simp only [splitElem, Option.map_eq_some_iff, List.cons_append] at h ⊢
      obtain ⟨⟨r', rest'⟩, h1, h2⟩ := h
      exact ⟨(r', rest' ++ rest), ih _ _ _ rest h1, by simp_all⟩
    | comment s =>
      simp only [splitElem, Option.map_eq_some_iff, List.cons_append] at h ⊢
      obtain ⟨⟨r', rest'⟩, h1, h2⟩ := h
      exact ⟨(r', rest' ++ rest), ih _ _ _ rest h1, by simp_all⟩
    | procInst a b =>
      simp only [splitElem, Option.map_eq_some_iff, List.cons_append] at h ⊢
      obtain ⟨⟨r', rest'⟩, h1, h2⟩ := h
      exact ⟨(r', rest' ++ rest), ih _ _ _ rest h1, by simp_all⟩
    | directive s =>
      simp only [splitElem, Option.map_eq_some_iff, List.cons_append] at h ⊢
      obtain ⟨⟨r', rest'⟩, h1, h2⟩ := h
      exact ⟨(r', rest' ++ rest), ih _ _ _ rest h1, by simp_all⟩

/-- one top-level element with the program its handler runs and what the session adds -/
structure Case where
  n : Name
  as : List Attr
  /-- the tokens after the start tag, through the element's own end tag -/
  body : List Tok
  prog : Prog
  added : List Tok

def Case.toks (c : Case) : List Tok := .start c.n c.as :: c.body

/-- a well-formed element of ordinary content outside the stream namespace, a handler that
returns nil, and an address that parses if a reply has to be added -/
structure Case.Ok (cfg : Cfg) (c : Case) : Prop where
  ns : (c.n.space != nsStream) = true
  wf : splitElem 0 c.body = some (c.body, [])
  pl : ∀ t ∈ c.body, plainTok t = true
  ret : c.prog.ret = .ok
  add : autoReply cfg c.n (blankFrom cfg c.n c.as)
    (WS.init.encAll (getId (blankFrom cfg c.n c.as)) (writesOf c.prog.ops)).wrote = some c.added

def Case.inv (cfg : Cfg) (c : Case) : Inv :=
  { start := .start c.n (blankFrom cfg c.n c.as), view := viewOf c.body (nreads c.prog.ops) }

def Case.written (c : Case) : List Tok := writesOf c.prog.ops ++ c.added

/-- the serve loop over a sequence of well-formed elements: one invocation per element, in
order, each with the exact view, then whatever the loop does with the rest of the input -/
theorem serveF_cases (cfg : Cfg) : ∀ (cs : List Case) (fuel a : Nat) (tail : List Tok),
    (∀ c ∈ cs, c.Ok cfg) →
    serveF cfg (fuel + cs.length) { inp := cs.flatMap Case.toks ++ tail, dIn := a, dOut := 0, sticky := none }
        (cs.map (·.prog))
      = { invs := cs.map (Case.inv cfg) ++ (serveF cfg fuel { inp := tail, dIn := a, dOut := 0, sticky := none } []).invs,
          written := cs.flatMap Case.written ++ (serveF cfg fuel { inp := tail, dIn := a, dOut := 0, sticky := none } []).written,
          result := (serveF cfg fuel { inp := tail, dIn := a, dOut := 0, sticky := none } []).result } := by
  intro cs
  induction cs with
  | nil => intro fuel a tail _; simp
  | cons c cs ih =>
    intro fuel a tail hok
    have hc := hok c (by simp)
    have hstep := handleInputStream_elem cfg
      { inp := (c :: cs).flatMap Case.toks ++ tail, dIn := a, dOut := 0, sticky := none }
      c.n c.as c.body (cs.flatMap Case.toks ++ tail) c.prog
      (by simp [Case.toks, List.append_assoc]) hc.ns
      (by simpa using splitElem_ext c.body 0 c.body [] (cs.flatMap Case.toks ++ tail) hc.wf)
      hc.pl hc.ret c.added hc.add
    have := ih fuel a tail (fun x hx => hok x (by simp [hx]))
    rw [show fuel + (c :: cs).length = (fuel + cs.length) + 1 by simp; omega]
    simp only [serveF, List.map_cons, List.headD_cons, hstep, Option.isSome_some, if_true, List.tail_cons]
    rw [this]
    simp [Case.inv, Case.written, List.append_assoc]

end XmppModel.Serve
