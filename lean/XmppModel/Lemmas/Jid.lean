import XmppModel.Model.Jid
/-! Helper lemmas for C11 (kept apart from the property statements). -/
namespace XmppModel.Jid

/-! ### hypotheses on the external normalisers -/

/-- What the theorems need from PRECIS, IDNA and `net.ParseIP`; every field is a statement
about *outputs* of those libraries and is tested by the harness on the real libraries for
every generated input. -/
structure Norm.Good (N : Norm) : Prop where
  /-- `UsernameCaseMapped` maps its own output to itself -/
  nL_idem : ∀ x y, N.nL x = some y → N.nL y = some y
  /-- … never returns the empty string -/
  nL_ne : ∀ x y, N.nL x = some y → y ≠ []
  /-- … returns valid UTF-8 -/
  nL_utf8 : ∀ x y, N.nL x = some y → validUtf8 y = true
  nR_idem : ∀ x y, N.nR x = some y → N.nR y = some y
  nR_ne : ∀ x y, N.nR x = some y → y ≠ []
  nR_utf8 : ∀ x y, N.nR x = some y → validUtf8 y = true
  /-- `ToUnicode` returns valid UTF-8 without `@` and `/` -/
  idna_utf8 : ∀ x y, N.idna x = some y → validUtf8 y = true
  idna_clean : ∀ x y, N.idna x = some y → cAt ∉ y ∧ cSlash ∉ y
  /-- an IP literal has no `@` or `/`, is not empty and fits the length limit -/
  ip_clean : ∀ d, (N.ip6 d = true ∨ N.ip4 d = true) →
    cAt ∉ d ∧ cSlash ∉ d ∧ d ≠ [] ∧ d.length ≤ maxPart

/-- What is assumed of the libraries for the *code* (round E): `Norm.Good` without the
idempotence of `UsernameCaseMapped`, which is false for golang.org/x/text (NFC composition
after the case mapping, pairs looked up with both runes truncated to 16 bits:
U+10041 U+0301 ↦ `Á` ↦ `á`).  The code tests that fixed point itself (`Norm.code`). -/
structure Norm.Lib (N : Norm) : Prop where
  nL_ne : ∀ x y, N.nL x = some y → y ≠ []
  nL_utf8 : ∀ x y, N.nL x = some y → validUtf8 y = true
  nR_idem : ∀ x y, N.nR x = some y → N.nR y = some y
  nR_ne : ∀ x y, N.nR x = some y → y ≠ []
  nR_utf8 : ∀ x y, N.nR x = some y → validUtf8 y = true
  idna_utf8 : ∀ x y, N.idna x = some y → validUtf8 y = true
  idna_clean : ∀ x y, N.idna x = some y → cAt ∉ y ∧ cSlash ∉ y
  ip_clean : ∀ d, (N.ip6 d = true ∨ N.ip4 d = true) →
    cAt ∉ d ∧ cSlash ∉ d ∧ d ≠ [] ∧ d.length ≤ maxPart

/-- what `stab f` returns is an output of `f` that `f` maps to itself -/
theorem stab_some {f : Bytes → Option Bytes} {x y : Bytes} (h : stab f x = some y) :
    f x = some y ∧ f y = some y := by
  unfold stab at h
  split at h
  · rename_i z hz
    split at h
    · rename_i hf
      simp only [Option.some.injEq] at h
      subst h
      exact ⟨hz, hf⟩
    · simp at h
  · simp at h

/-- `stab f` is idempotent whatever `f` is -/
theorem stab_idem (f : Bytes → Option Bytes) (x y : Bytes) (h : stab f x = some y) :
    stab f y = some y := by
  obtain ⟨_, hy⟩ := stab_some h
  simp [stab, hy]

/-- on a profile that is idempotent anyway the fixed-point test changes nothing -/
theorem stab_of_idem {f : Bytes → Option Bytes} (hf : ∀ x y, f x = some y → f y = some y) :
    stab f = f := by
  funext x
  unfold stab
  cases h : f x with
  | none => rfl
  | some y => simp [hf x y h]

/-- **the fixed-point test discharges the idempotence hypothesis**: with the test in the code
every hypothesis of the canonical-form theorems is one about single library outputs -/
theorem Norm.code_good {N : Norm} (g : N.Lib) : N.code.Good where
  nL_idem := fun x y h => stab_idem N.nL x y h
  nL_ne := fun x y h => g.nL_ne x y (stab_some h).1
  nL_utf8 := fun x y h => g.nL_utf8 x y (stab_some h).1
  nR_idem := g.nR_idem
  nR_ne := g.nR_ne
  nR_utf8 := g.nR_utf8
  idna_utf8 := g.idna_utf8
  idna_clean := g.idna_clean
  ip_clean := g.ip_clean

theorem Norm.Good.lib {N : Norm} (g : N.Good) : N.Lib :=
  ⟨g.nL_ne, g.nL_utf8, g.nR_idem, g.nR_ne, g.nR_utf8, g.idna_utf8, g.idna_clean, g.ip_clean⟩

theorem validUtf8_nil : validUtf8 [] = true := by
  unfold validUtf8
  rw [ByteArray.validateUTF8_eq_true_iff]
  exact ByteArray.isValidUTF8_empty

/-! ### `splitFirst` -/

theorem splitFirst_eq_none {c : UInt8} : ∀ {s : Bytes}, c ∉ s → splitFirst c s = none
  | [], _ => rfl
  | x :: xs, h => by
    have hx : x ≠ c := fun e => h (by simp [e])
    have hxs : c ∉ xs := fun e => h (by simp [e])
    simp [splitFirst, hx, splitFirst_eq_none hxs]

theorem splitFirst_append {c : UInt8} : ∀ {a : Bytes} (b : Bytes), c ∉ a →
    splitFirst c (a ++ c :: b) = some (a, b)
  | [], b, _ => by simp [splitFirst]
  | x :: xs, b, h => by
    have hx : x ≠ c := fun e => h (by simp [e])
    have hxs : c ∉ xs := fun e => h (by simp [e])
    simp [splitFirst, hx, splitFirst_append b hxs]

theorem splitFirst_some {c : UInt8} : ∀ {s a b : Bytes}, splitFirst c s = some (a, b) →
    s = a ++ c :: b ∧ c ∉ a
  | [], _, _, h => by simp [splitFirst] at h
  | x :: xs, a, b, h => by
    unfold splitFirst at h
    by_cases hx : x = c
    · simp only [hx, if_true, Option.some.injEq, Prod.mk.injEq] at h
      obtain ⟨rfl, rfl⟩ := h
      simp [hx]
    · simp only [hx, if_false] at h
      cases hr : splitFirst c xs with
      | none => rw [hr] at h; simp at h
      | some p =>
        obtain ⟨a', b'⟩ := p
        rw [hr] at h
        simp only [Option.some.injEq, Prod.mk.injEq] at h
        obtain ⟨rfl, rfl⟩ := h
        obtain ⟨e, hn⟩ := splitFirst_some hr
        refine ⟨by simp [e], ?_⟩
        intro hm
        rcases List.mem_cons.mp hm with e' | e'
        · exact hx e'.symm
        · exact hn e'

theorem splitFirst_none {c : UInt8} : ∀ {s : Bytes}, splitFirst c s = none → c ∉ s
  | [], _ => by simp
  | x :: xs, h => by
    unfold splitFirst at h
    by_cases hx : x = c
    · simp [hx] at h
    · simp only [hx, if_false] at h
      cases hr : splitFirst c xs with
      | some p => rw [hr] at h; simp at h
      | none =>
        have := splitFirst_none hr
        intro hm
        rcases List.mem_cons.mp hm with e' | e'
        · exact hx e'.symm
        · exact this e'

/-! ### the packed representation -/

theorem mk_localpart (l d r : Bytes) : (mk l d r).localpart = l := by
  simp [mk, Jid.localpart]

theorem mk_domainpart (l d r : Bytes) : (mk l d r).domainpart = d := by
  simp [mk, Jid.domainpart]

theorem mk_resourcepart (l d r : Bytes) : (mk l d r).resourcepart = r := by
  simp only [mk, Jid.resourcepart, ← List.length_append]
  exact List.drop_left

/-- every well-formed value is the packing of its three parts -/
theorem eq_mk_parts (j : Jid) (h : j.WF) : j = mk j.localpart j.domainpart j.resourcepart := by
  obtain ⟨data, ll, dl⟩ := j
  unfold Jid.WF at h
  simp only at h
  simp only [mk, Jid.localpart, Jid.domainpart, Jid.resourcepart, Jid.mk.injEq]
  refine ⟨?_, ?_, ?_⟩
  · rw [← List.drop_drop, List.append_assoc, List.take_append_drop, List.take_append_drop]
  · simp; omega
  · simp; omega

theorem mk_wf (l d r : Bytes) : (mk l d r).WF := by
  simp [mk, Jid.WF]

theorem toString_mk (l d r : Bytes) : (mk l d r).toString = assemble l d r := by
  unfold Jid.toString
  rw [mk_localpart, mk_domainpart, mk_resourcepart]
  simp only [mk, assemble, List.length_append]
  cases l with
  | nil =>
    cases r with
    | nil => simp
    | cons x xs => simp
  | cons y ys =>
    cases r with
    | nil => simp; omega
    | cons x xs => simp; omega

theorem bare_mk (l d r : Bytes) : (mk l d r).bare = mk l d [] := by
  simp only [mk, Jid.bare, ← List.length_append, List.append_nil]
  rw [List.take_left]

theorem domain_mk (l d r : Bytes) : (mk l d r).domain = mk [] d [] := by
  simp [mk, Jid.domain]

theorem mk_inj {l d r l' d' r' : Bytes} (h : mk l d r = mk l' d' r') : l = l' ∧ d = d' ∧ r = r' := by
  have h1 := congrArg Jid.localpart h
  have h2 := congrArg Jid.domainpart h
  have h3 := congrArg Jid.resourcepart h
  simp only [mk_localpart, mk_domainpart, mk_resourcepart] at h1 h2 h3
  exact ⟨h1, h2, h3⟩

theorem equal_iff (a b : Jid) : a.equal b = true ↔ a = b := by
  obtain ⟨d1, l1, m1⟩ := a
  obtain ⟨d2, l2, m2⟩ := b
  simp [Jid.equal, and_assoc]

/-! ### splitting an assembled string -/

theorem cAt_ne_cSlash : cAt ≠ cSlash := by decide

theorem split_assemble {l d r : Bytes} (hl1 : cSlash ∉ l) (hl2 : cAt ∉ l) (hd1 : cSlash ∉ d)
    (hd2 : cAt ∉ d) : split true (assemble l d r) = .ok (l, d, r) := by
  have hpre : cSlash ∉ (if l = [] then [] else l ++ [cAt]) ++ d := by
    by_cases h : l = []
    · simpa [h] using hd1
    · simp only [h, if_false, List.mem_append, List.mem_singleton, not_or]
      exact ⟨⟨hl1, fun e => cAt_ne_cSlash e.symm⟩, hd1⟩
  have hat : split.splitAt true ((if l = [] then [] else l ++ [cAt]) ++ d) r = .ok (l, d, r) := by
    unfold split.splitAt
    by_cases h : l = []
    · subst h
      simp [splitFirst_eq_none hd2]
    · simp only [h, if_false, List.append_assoc, List.singleton_append]
      rw [splitFirst_append d hl2]
      simp [h]
  unfold split assemble
  by_cases hr : r = []
  · subst hr
    simp only [if_true, List.append_nil]
    rw [splitFirst_eq_none hpre]
    exact hat
  · simp only [hr, if_false]
    rw [splitFirst_append r hpre]
    simp only [hr, and_false, if_false]
    exact hat

/-! ### inversion of the constructors -/

theorem normOpt_ok {f : Bytes → Option Bytes} {x y : Bytes} (h : normOpt f x = .ok y) :
    (x = [] ∧ y = []) ∨ (x ≠ [] ∧ f x = some y) := by
  unfold normOpt at h
  by_cases hx : x = []
  · simp only [hx, if_true, Except.ok.injEq] at h
    exact .inl ⟨hx, h.symm⟩
  · simp only [hx, if_false] at h
    cases hf : f x with
    | none => rw [hf] at h; simp at h
    | some z =>
      rw [hf] at h
      simp only [Except.ok.injEq] at h
      exact .inr ⟨hx, by rw [h]⟩

/-- what a successful `normalizeDomainpart` guarantees -/
structure DomOK (N : Norm) (d d' : Bytes) : Prop where
  utf8_in : validUtf8 d = true
  shape : ((N.ip6 d = true ∨ N.ip4 d = true) ∧ d' = d) ∨
    (N.ip6 d = false ∧ N.ip4 d = false ∧ N.idna (trimDot d) = some d' ∧
      (d' = trimDot d ∨ N.idna d' = some d') ∧ endsWithDot d' = false ∧
      1 ≤ d'.length ∧ d'.length ≤ maxPart)

theorem normDomain_ok {N : Norm} {d d' : Bytes} (h : normDomain N d = .ok d') : DomOK N d d' := by
  unfold normDomain at h
  split at h
  · simp at h
  rename_i hu
  have hu' : validUtf8 d = true := by simpa using hu
  split at h
  · rename_i h6
    simp only [Except.ok.injEq] at h
    exact ⟨hu', .inl ⟨.inl h6, h.symm⟩⟩
  rename_i h6
  split at h
  · rename_i h4
    simp only [Except.ok.injEq] at h
    exact ⟨hu', .inl ⟨.inr h4, h.symm⟩⟩
  rename_i h4
  split at h
  · simp at h
  rename_i x hi
  split at h
  · simp at h
  rename_i hfix
  split at h
  · simp at h
  rename_i hdot
  split at h
  · simp at h
  rename_i hlen
  simp only [Except.ok.injEq] at h
  subst h
  refine ⟨hu', .inr ⟨by simpa using h6, by simpa using h4, hi, ?_, by simpa using hdot, ?_, ?_⟩⟩
  · by_cases e : x = trimDot d
    · exact .inl e
    · right
      simp only [not_and, Decidable.not_not] at hfix
      exact hfix e
  · omega
  · omega

theorem trimDot_of_not_endsWithDot {d : Bytes} (h : endsWithDot d = false) : trimDot d = d := by
  unfold trimDot
  unfold endsWithDot at h
  cases hl : d.getLast? with
  | none => rfl
  | some c =>
    rw [hl] at h
    have : c ≠ cDot := by
      intro e; subst e; simp at h
    simp [this]

/-- normalising a normalised domainpart returns it unchanged -/
theorem normDomain_idem {N : Norm} (g : N.Good) {d d' : Bytes} (h : normDomain N d = .ok d') :
    normDomain N d' = .ok d' := by
  obtain ⟨hu, hs⟩ := normDomain_ok h
  rcases hs with ⟨hip, rfl⟩ | ⟨_, _, hidna, hfix, hdot, hl1, hl2⟩
  · exact h
  · have hu' : validUtf8 d' = true := g.idna_utf8 _ _ hidna
    have htrim := trimDot_of_not_endsWithDot hdot
    have hid : N.idna d' = some d' := by
      rcases hfix with e | e
      · have e2 : trimDot d = d' := e.symm
        rw [e2] at hidna
        exact hidna
      · exact e
    unfold normDomain
    rw [if_neg (by simp [hu'])]
    by_cases h6 : N.ip6 d' = true
    · rw [if_pos h6]
    rw [if_neg h6]
    by_cases h4 : N.ip4 d' = true
    · rw [if_pos h4]
    rw [if_neg h4, htrim, hid]
    simp only
    rw [if_neg (by simp), if_neg (by simp [hdot]), if_neg (by omega)]

/-- a normalised domainpart has no separator, is not empty, fits the limit and is UTF-8 -/
theorem normDomain_clean {N : Norm} (g : N.Good) {d d' : Bytes} (h : normDomain N d = .ok d') :
    cAt ∉ d' ∧ cSlash ∉ d' ∧ d' ≠ [] ∧ d'.length ≤ maxPart ∧ validUtf8 d' = true := by
  obtain ⟨hu, hs⟩ := normDomain_ok h
  rcases hs with ⟨hip, rfl⟩ | ⟨_, _, hidna, _, _, hl1, hl2⟩
  · obtain ⟨a, b, c, e⟩ := g.ip_clean _ hip
    exact ⟨a, b, c, e, hu⟩
  · obtain ⟨a, b⟩ := g.idna_clean _ _ hidna
    refine ⟨a, b, ?_, hl2, g.idna_utf8 _ _ hidna⟩
    intro e; rw [e] at hl1; simp at hl1

theorem not_mem_of_hasForbidden {l : Bytes} (h : hasForbidden l = false) {c : UInt8}
    (hc : c ∈ forbidden) : c ∉ l := by
  intro hm
  unfold hasForbidden at h
  rw [List.any_eq_false] at h
  have := h c hm
  simp [hc] at this

/-- what a successful `New` guarantees, and conversely -/
theorem new_ok_iff {N : Norm} {l d r : Bytes} {j : Jid} :
    new N l d r = .ok j ↔
      validUtf8 l = true ∧ validUtf8 r = true ∧ ∃ l' d' r',
        normDomain N d = .ok d' ∧ normOpt N.nL l = .ok l' ∧ normOpt N.nR r = .ok r' ∧
        l'.length ≤ maxPart ∧ hasForbidden l' = false ∧ r'.length ≤ maxPart ∧ j = mk l' d' r' := by
  constructor
  · intro h
    unfold new at h
    split at h
    · simp at h
    rename_i hu
    simp only [not_or, Bool.not_eq_false] at hu
    split at h
    · simp at h
    rename_i d' hd
    split at h
    · simp at h
    rename_i l' hl
    split at h
    · simp at h
    rename_i r' hr
    split at h
    · simp at h
    rename_i h1
    split at h
    · simp at h
    rename_i h2
    split at h
    · simp at h
    rename_i h3
    simp only [Except.ok.injEq] at h
    exact ⟨hu.1, hu.2, l', d', r', hd, hl, hr, by omega, by simpa using h2, by omega, h.symm⟩
  · rintro ⟨hl, hr, l', d', r', hd, hnl, hnr, h1, h2, h3, rfl⟩
    unfold new
    rw [if_neg (by simp [hl, hr]), hd]
    simp only [hnl, hnr]
    rw [if_neg (by omega), if_neg (by simp [h2]), if_neg (by omega)]

end XmppModel.Jid

namespace XmppModel.Jid

theorem normOpt_idem {f : Bytes → Option Bytes} (idem : ∀ x y, f x = some y → f y = some y)
    (ne : ∀ x y, f x = some y → y ≠ []) {x y : Bytes} (h : normOpt f x = .ok y) :
    normOpt f y = .ok y := by
  rcases normOpt_ok h with ⟨_, rfl⟩ | ⟨_, e⟩
  · simp [normOpt]
  · unfold normOpt
    rw [if_neg (ne _ _ e), idem _ _ e]

theorem normOpt_utf8 {f : Bytes → Option Bytes} (u : ∀ x y, f x = some y → validUtf8 y = true)
    {x y : Bytes} (h : normOpt f x = .ok y) : validUtf8 y = true := by
  rcases normOpt_ok h with ⟨_, rfl⟩ | ⟨_, e⟩
  · exact validUtf8_nil
  · exact u _ _ e

theorem assemble_ne_nil {l d r : Bytes} (h : d ≠ []) : assemble l d r ≠ [] := by
  unfold assemble
  intro e
  simp only [List.append_eq_nil_iff] at e
  exact h e.1.2

theorem withResource_ok_iff {N : Norm} {b : Jid} {r : Bytes} {j : Jid} :
    withResource N b r = .ok j ↔
      (r = [] ∨ validUtf8 r = true) ∧ ∃ r', normOpt N.nR r = .ok r' ∧ r'.length ≤ maxPart ∧
        j = ⟨b.data.take (b.ll + b.dl) ++ r', b.ll, b.dl⟩ := by
  constructor
  · intro h
    unfold withResource at h
    split at h
    · simp at h
    rename_i hu
    split at h
    · simp at h
    rename_i r' hr
    split at h
    · simp at h
    rename_i h1
    simp only [Except.ok.injEq] at h
    refine ⟨?_, r', hr, by omega, h.symm⟩
    by_cases e : r = []
    · exact .inl e
    · right
      simp only [not_and, Bool.not_eq_false] at hu
      exact hu e
  · rintro ⟨hu, r', hr, h1, rfl⟩
    unfold withResource
    rw [if_neg (by rcases hu with e | e <;> simp [e]), hr]
    simp only
    rw [if_neg (by omega)]

theorem withLocal_ok_iff {N : Norm} {b : Jid} {l : Bytes} {j : Jid} :
    withLocal N b l = .ok j ↔
      (l = [] ∨ validUtf8 l = true) ∧ ∃ l', normOpt N.nL l = .ok l' ∧ l'.length ≤ maxPart ∧
        hasForbidden l' = false ∧ j = ⟨l' ++ b.data.drop b.ll, l'.length, b.dl⟩ := by
  constructor
  · intro h
    unfold withLocal at h
    split at h
    · simp at h
    rename_i hu
    split at h
    · simp at h
    rename_i l' hl
    split at h
    · simp at h
    rename_i h1
    split at h
    · simp at h
    rename_i h2
    simp only [Except.ok.injEq] at h
    refine ⟨?_, l', hl, by omega, by simpa using h2, h.symm⟩
    by_cases e : l = []
    · exact .inl e
    · right
      simp only [not_and, Bool.not_eq_false] at hu
      exact hu e
  · rintro ⟨hu, l', hl, h1, h2, rfl⟩
    unfold withLocal
    rw [if_neg (by rcases hu with e | e <;> simp [e]), hl]
    simp only
    rw [if_neg (by omega), if_neg (by simp [h2])]

theorem withDomain_ok_iff {N : Norm} {b : Jid} {d : Bytes} {j : Jid} :
    withDomain N b d = .ok j ↔ ∃ d', normDomain N d = .ok d' ∧
      j = ⟨b.data.take b.ll ++ d' ++ b.data.drop (b.ll + b.dl), b.ll, d'.length⟩ := by
  unfold withDomain
  cases normDomain N d with
  | error e => simp
  | ok d' =>
    simp only [Except.ok.injEq, exists_eq_left']
    exact ⟨fun h => h.symm, fun h => h.symm⟩

end XmppModel.Jid
