import XmppModel.Model.Payloads2
import XmppModel.Lemmas.Payloads2
/-! Round trip of the MAM query (`history/query.go`): a fixed seven-field form submitted with the
query's values, read back with `Get`. -/
namespace XmppModel.Payloads
open XmppModel XmppModel.Xml XmppModel.Payload XmppModel.Form

theorem lookupVal_append (a b : Vals) (k : String) :
    lookupVal (a ++ b) k = (lookupVal a k).or (lookupVal b k) := by
  simp only [lookupVal, List.find?_append]
  cases List.find? (fun x => decide (x.1 = k)) a <;> simp

theorem lookupVal_opt (c : Prop) [Decidable c] (k' k : String) (v : Val) :
    lookupVal (if c then [] else [(k', v)]) k = if c then none else if k' = k then some v else none := by
  by_cases h : c <;> by_cases h2 : k' = k <;> simp [lookupVal, h, h2]

theorem findField_append (a b : List Field) (k : String) :
    findField (a ++ b) k = (findField a k).or (findField b k) := by
  simp only [findField, List.find?_append]

theorem findField_opt (c : Prop) [Decidable c] (f : Field) (k : String) :
    findField (if c then [] else [f]) k = if c then none else if f.var = k then some f else none := by
  by_cases h : c <;> by_cases h2 : f.var = k <;> simp [findField, h, h2]

/-- a list-multi field carries its non-empty values -/
theorem wire_listmulti (jn : JidNorm) (vs : List String) :
    wireValues jn "list-multi" vs = vs.filter (· ≠ "") := by
  unfold wireValues
  generalize false = first
  induction vs generalizing first with
  | nil => simp [wireValuesAux]
  | cons x xs ih =>
    by_cases hx : x = ""
    · simp [wireValuesAux, hx, ih first]
    · have e1 : isMulti "list-multi" = true := by decide
      have e2 : isJid "list-multi" = false := by decide
      have e3 : ("list-multi" = "boolean") = False := by decide
      simp [wireValuesAux, hx, e1, e2, e3, ih true]

theorem wire_text (jn : JidNorm) (s : String) (h : s ≠ "") : wireValues jn "text-single" [s] = [s] := by
  have e1 : isJid "text-single" = false := by decide
  have e3 : ("text-single" = "boolean") = False := by decide
  simp [wireValues, wireValuesAux, h, e1, e3]

theorem wire_jid (jn : JidNorm) (s : String) (h : s ≠ "") (hj : (jn s).isSome = true) :
    wireValues jn "jid-single" [s] = [s] := by
  have e3 : ("jid-single" = "boolean") = False := by decide
  cases hjs : jn s with
  | none => simp [hjs] at hj
  | some w => simp [wireValues, wireValuesAux, h, e3, hjs]

/-- the fields a query submits, before normalisation -/
def mamSubmitted (q : MamQuery) : List Field :=
  [⟨"hidden", "FORM_TYPE", "", "", false, [nsMam], []⟩]
  ++ (if q.withJid = "" then [] else [⟨"jid-single", "with", "", "", false, [q.withJid], []⟩])
  ++ (if q.start = "" then [] else [⟨"text-single", "start", "", "", false, [q.start], []⟩])
  ++ (if q.stop = "" then [] else [⟨"text-single", "end", "", "", false, [q.stop], []⟩])
  ++ (if q.afterId = "" then [] else [⟨"text-single", "after-id", "", "", false, [q.afterId], []⟩])
  ++ (if q.beforeId = "" then [] else [⟨"text-single", "before-id", "", "", false, [q.beforeId], []⟩])
  ++ (if q.ids.isEmpty then [] else [⟨"list-multi", "ids", "", "", false, q.ids, []⟩])

theorem optCons {α} (c : Prop) [Decidable c] (f : α) (r : List α) :
    (match (if c then none else some f) with | none => r | some b => b :: r) = (if c then [] else [f]) ++ r := by
  by_cases h : c <;> simp [h]

theorem mam_lookup (q : MamQuery) :
    lookupVal (mamVals q) "with" = (if q.withJid = "" then none else some (.jid q.withJid)) ∧
    lookupVal (mamVals q) "start" = (if q.start = "" then none else some (.str q.start)) ∧
    lookupVal (mamVals q) "end" = (if q.stop = "" then none else some (.str q.stop)) ∧
    lookupVal (mamVals q) "after-id" = (if q.afterId = "" then none else some (.str q.afterId)) ∧
    lookupVal (mamVals q) "before-id" = (if q.beforeId = "" then none else some (.str q.beforeId)) ∧
    lookupVal (mamVals q) "ids" = (if q.ids.isEmpty then none else some (.strs q.ids)) ∧
    lookupVal (mamVals q) "FORM_TYPE" = none := by
  refine ⟨?_, ?_, ?_, ?_, ?_, ?_, ?_⟩ <;>
    simp [mamVals, lookupVal_append, lookupVal_opt]

theorem mam_submitted (jn : JidNorm) (q : MamQuery) :
    mamForm.fields.filterMap (submittedField jn ⟨"", "", "submit", mamForm.fields⟩ (mamVals q)) = mamSubmitted q := by
  obtain ⟨h1, h2, h3, h4, h5, h6, h7⟩ := mam_lookup q
  simp only [mamForm, List.filterMap_cons, List.filterMap_nil, submittedField, Form.get, h1, h2, h3, h4, h5, h6, h7]
  by_cases c1 : q.withJid = "" <;> by_cases c2 : q.start = "" <;> by_cases c3 : q.stop = "" <;>
    by_cases c4 : q.afterId = "" <;> by_cases c5 : q.beforeId = "" <;> by_cases c6 : q.ids.isEmpty = true <;>
    simp [mamSubmitted, c1, c2, c3, c4, c5, c6, findField, defaultOf, valStrings, firstBool, joinLines]

/-- the form a decoder rebuilds from a query's submission -/
def mamDecoded (jn : JidNorm) (q : MamQuery) : Form :=
  ⟨"", "", "submit", (mamSubmitted q).map (canonField jn)⟩

theorem mam_get_strings (jn : JidNorm) (q : MamQuery)
    (hj : q.withJid = "" ∨ jn q.withJid = some q.withJid) :
    strOf (Form.get jn (mamDecoded jn q) [] "with") = q.withJid ∧
    strOf (Form.get jn (mamDecoded jn q) [] "start") = q.start ∧
    strOf (Form.get jn (mamDecoded jn q) [] "end") = q.stop ∧
    strOf (Form.get jn (mamDecoded jn q) [] "before-id") = q.beforeId ∧
    strOf (Form.get jn (mamDecoded jn q) [] "after-id") = q.afterId := by
  by_cases c1 : q.withJid = "" <;> by_cases c2 : q.start = "" <;> by_cases c3 : q.stop = "" <;>
    by_cases c4 : q.afterId = "" <;> by_cases c5 : q.beforeId = "" <;> by_cases c6 : q.ids.isEmpty = true <;>
    simp_all [mamDecoded, mamSubmitted, Form.get, lookupVal, findField, canonField, defaultOf, strOf, wireValues,
      wireValuesAux, isMulti, isJid, isList, boolLex]

theorem strsOf_pair (l : List String) : strsOf (some (.strs l), !l.isEmpty) = l := by
  cases l <;> simp [strsOf]

theorem strsOf_none : strsOf (none, false) = [] := rfl

theorem mam_get_ids (jn : JidNorm) (q : MamQuery) :
    strsOf (Form.get jn (mamDecoded jn q) [] "ids") = q.ids.filter (· ≠ "") := by
  have hw := wire_listmulti jn q.ids
  by_cases c1 : q.withJid = "" <;> by_cases c2 : q.start = "" <;> by_cases c3 : q.stop = "" <;>
    by_cases c4 : q.afterId = "" <;> by_cases c5 : q.beforeId = "" <;> by_cases c6 : q.ids.isEmpty = true <;>
    simp_all [mamDecoded, mamSubmitted, Form.get, lookupVal, findField, canonField, defaultOf, isList,
      strsOf_pair, strsOf_none]

theorem mam_set (q : MamQuery) :
    (!(kidsNamed "before" (mamSetKids q)).isEmpty) = q.last ∧
    lastText (kidsNamed "max" (mamSetKids q)) = q.limit ∧
    (if q.last then lastText (kidsNamed "before" (mamSetKids q)) else lastText (kidsNamed "after" (mamSetKids q))) = q.page := by
  cases hl : q.last <;> by_cases h1 : q.limit = "" <;> by_cases h2 : q.page = "" <;>
    simp [mamSetKids, hl, h1, h2, kidsNamed, leaf, lastText, Form.textOf_textKid]

theorem decMamQuery_enc (jn : JidNorm) (q : MamQuery)
    (hj : q.withJid = "" ∨ jn q.withJid = some q.withJid) :
    decMamQuery jn (encMamQuery jn q) = some (canonMam q) := by
  have hsub := decodeForm_submit jn mamForm (mamVals q)
  rw [mam_submitted] at hsub
  obtain ⟨g1, g2, g3, g4, g5⟩ := mam_get_strings jn q hj
  have g6 := mam_get_ids jn q
  obtain ⟨s1, s2, s3⟩ := mam_set q
  have hx : ∃ fa fk, (Form.submit jn mamForm (mamVals q)).1 = .elem ⟨Form.ns, "x"⟩ fa fk := ⟨_, _, rfl⟩
  obtain ⟨fa, fk, he⟩ := hx
  rw [he] at hsub
  simp only [encMamQuery, decMamQuery, if_true, he, encMamSet]
  have e1 : ("set" = "x") = False := by decide
  have e2 : ("flip-page" = "x") = False := by decide
  have e3 : ("x" = "set") = False := by decide
  have e4 : ("flip-page" = "set") = False := by decide
  have e5 : ("x" = "flip-page") = False := by decide
  have e6 : ("set" = "flip-page") = False := by decide
  have hsub' : decodeForm (Node.elem { space := "jabber:x:data", loc := "x" } fa fk) = some (mamDecoded jn q) := hsub
  have hid : attrOrEmpty [at' "queryid" q.id] "queryid" = q.id := by simp [attrOrEmpty, attrLast, at']
  have hpage : (if (!(kidsNamed "before" (mamSetKids q)).isEmpty) = true then lastText (kidsNamed "before" (mamSetKids q))
      else lastText (kidsNamed "after" (mamSetKids q))) = q.page := by
    rw [s1]; exact s3
  cases hr : q.reverse
  · simp only [Bool.false_eq_true, if_false, List.append_nil, lastKids, kidsNamed, Form.ns, nsRSM, nsMam, e1, e3, e5, e6,
      if_true, List.getLast?_singleton]
    rw [hsub']
    simp only [Option.bind_eq_bind, Option.bind_some, Option.pure_def, g1, g2, g3, g4, g5, g6, s1, s2, hpage, hid]
    cases q
    simp_all [canonMam]
  · simp only [if_true, lastKids, kidsNamed, Form.ns, nsRSM, nsMam, e1, e2, e3, e4, e5, e6, List.cons_append,
      List.nil_append, if_false, List.getLast?_singleton]
    rw [hsub']
    simp only [Option.bind_eq_bind, Option.bind_some, Option.pure_def, g1, g2, g3, g4, g5, g6, s1, s2, hpage, hid]
    cases q
    simp_all [canonMam]

end XmppModel.Payloads
