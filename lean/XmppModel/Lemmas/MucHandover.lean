import XmppModel.Model.MucHandover
/-! Lemmas about the join hand-over loop of muc's presence handler (Model/MucHandover.lean). -/
namespace XmppModel.MucHandover

theorem selectJoin_dead (n : Nat) (jc r : Req) (rest : List Req) (hs : jc.same = true)
    (hl : jc.live = false) :
    selectJoin (n + 1) (some jc) (r :: rest) = selectJoin n (some r) rest := by
  rw [selectJoin]; simp [hs, hl]

/-- The loop returns within `|later| + 2` turns: every extra turn uses up one abandoned request. -/
theorem selectJoin_returns : ∀ (later : List Req) (q : Option Req),
    ∃ r, selectJoin (later.length + 2) q later = some r
  | [], none => ⟨_, rfl⟩
  | [], some jc => by
    cases hs : jc.same <;> cases hl : jc.live <;> simp [selectJoin, hs, hl]
  | r :: rest, none => ⟨_, rfl⟩
  | r :: rest, some jc => by
    have ih := selectJoin_returns rest (some r)
    cases hs : jc.same
    · exact ⟨(.forward, some jc), by rw [List.length_cons, selectJoin]; simp [hs]⟩
    · cases hl : jc.live
      · rw [List.length_cons, selectJoin_dead _ _ _ _ hs hl]; exact ih
      · exact ⟨(.handed, none), by rw [List.length_cons, selectJoin]; simp [hs, hl]⟩

/-- A request for another occupant JID is neither completed nor lost: the presence is forwarded
    and the request is in the channel again (at the first turn, whatever else is going on). -/
theorem foreign_request_put_back (n : Nat) (jc : Req) (later : List Req) (h : jc.same = false) :
    selectJoin (n + 1) (some jc) later = some (.forward, some jc) := by
  simp [selectJoin, h]

/-- A live request for this occupant JID is completed at the first turn. -/
theorem own_request_completed (n : Nat) (jc : Req) (later : List Req) (hs : jc.same = true)
    (hl : jc.live = true) : selectJoin (n + 1) (some jc) later = some (.handed, none) := by
  simp [selectJoin, hs, hl]

/-- The variant that `continue`s behind the put-back never returns once a request for another
    occupant JID is pending, whatever the fuel. -/
theorem selectJoinSpin_hangs : ∀ (n : Nat) (jc : Req) (later : List Req), jc.same = false →
    selectJoinSpin n (some jc) later = none
  | 0, _, _, _ => rfl
  | n + 1, jc, later, h => by
    simp [selectJoinSpin, h, selectJoinSpin_hangs n jc later h]

end XmppModel.MucHandover
