import XmppModel.Model.Payloads
import XmppModel.Lemmas.Form
/-! Round trip of flat records (generic in the schema) and of the composite payloads. -/
namespace XmppModel.Payloads
open XmppModel XmppModel.Xml XmppModel.Payload

/-! ### attributes -/

def attrStep (loc : String) (acc : Option String) (a : Attr) : Option String :=
  if a.name.loc = loc then some a.value else acc

theorem attrLast_eq (as : List Attr) (loc : String) : attrLast as loc = as.foldl (attrStep loc) none := rfl

theorem foldl_attr_notin (loc : String) (l : List Attr) (acc : Option String)
    (h : ∀ a ∈ l, a.name.loc ≠ loc) : l.foldl (attrStep loc) acc = acc := by
  induction l generalizing acc with
  | nil => rfl
  | cons a as ih =>
    have ha : a.name.loc ≠ loc := h a (by simp)
    simp only [List.foldl_cons, attrStep, ha, if_false]
    exact ih acc (fun x hx => h x (by simp [hx]))

/-- the value read for `loc` when only the middle part of the attribute list mentions it -/
theorem attrLast_mid (loc : String) (pre mid post : List Attr)
    (hpre : ∀ a ∈ pre, a.name.loc ≠ loc) (hpost : ∀ a ∈ post, a.name.loc ≠ loc) :
    attrLast (pre ++ (mid ++ post)) loc = attrLast mid loc := by
  simp only [attrLast_eq, List.foldl_append]
  rw [foldl_attr_notin loc pre none hpre, foldl_attr_notin loc post _ hpost]

theorem allAttrs_locs (fs : List FS) (vs : List FV) : ∀ a ∈ allAttrs fs vs, a.name.loc ∈ attrLocs fs := by
  induction fs generalizing vs with
  | nil => intro a ha; cases vs <;> simp [allAttrs] at ha
  | cons f fs ih =>
    intro a ha
    cases vs with
    | nil => simp [allAttrs] at ha
    | cons v vs =>
      simp only [allAttrs, List.mem_append] at ha
      rcases ha with ha | ha
      · cases f with
        | attr sp loc om =>
          cases v with
          | one s =>
            simp only [encAttrs] at ha
            split at ha
            · simp at ha
            · simp only [List.mem_singleton] at ha; subst ha; simp [attrLocs]
          | many l => simp [encAttrs] at ha
        | child loc om => cases v <;> simp [encAttrs] at ha
        | kids loc => cases v <;> simp [encAttrs] at ha
        | text => cases v <;> simp [encAttrs] at ha
      · have := ih vs a ha
        cases f <;> simp [attrLocs, this]

/-! ### children -/

theorem kidsNamed_textKid (loc s : String) : kidsNamed loc (textKid s) = [] := by
  by_cases h : s = "" <;> simp [textKid, kidsNamed, h]

theorem textOf_append (a b : List Node) : textOf (a ++ b) = textOf a ++ textOf b := by
  induction a with
  | nil => simp [textOf]
  | cons k ks ih => cases k <;> simp [textOf, ih, String.append_assoc]

theorem textOf_leaves (sp loc : String) (l : List String) : textOf (l.map (leaf sp loc)) = "" := by
  induction l with
  | nil => simp [textOf]
  | cons x xs ih => simp [textOf, leaf, ih]

theorem textOf_encKids_nontext (sp : String) (f : FS) (v : FV) (h : f ≠ .text) : textOf (encKids sp f v) = "" := by
  cases f with
  | attr sp' l om => cases v <;> simp [encKids, textOf]
  | child l om =>
    cases v with
    | one s => simp only [encKids]; split <;> simp [textOf, leaf]
    | many x => simp [encKids, textOf]
  | kids l =>
    cases v with
    | one s => simp [encKids, textOf]
    | many x => simp [encKids, textOf_leaves]
  | text => exact absurd rfl h

theorem textOf_allKids_notext (sp : String) (fs : List FS) (vs : List FV) (h : textCount fs = 0) :
    textOf (allKids sp fs vs) = "" := by
  induction fs generalizing vs with
  | nil => cases vs <;> simp [allKids, textOf]
  | cons f fs ih =>
    cases vs with
    | nil => simp [allKids, textOf]
    | cons v vs =>
      simp only [allKids, textOf_append]
      cases f with
      | text => simp [textCount] at h
      | attr sp' l om => rw [textOf_encKids_nontext _ _ _ (by simp), ih vs (by simpa [textCount] using h)]; rfl
      | child l om => rw [textOf_encKids_nontext _ _ _ (by simp), ih vs (by simpa [textCount] using h)]; rfl
      | kids l => rw [textOf_encKids_nontext _ _ _ (by simp), ih vs (by simpa [textCount] using h)]; rfl

theorem kidsNamed_allKids_notin (sp loc : String) (fs : List FS) (vs : List FV) (h : loc ∉ kidLocs fs) :
    kidsNamed loc (allKids sp fs vs) = [] := by
  induction fs generalizing vs with
  | nil => cases vs <;> simp [allKids, kidsNamed]
  | cons f fs ih =>
    cases vs with
    | nil => simp [allKids, kidsNamed]
    | cons v vs =>
      simp only [allKids, Form.kidsNamed_append]
      cases f with
      | attr sp' l om =>
        have := ih vs (by simpa [kidLocs] using h)
        cases v <;> simp [encKids, kidsNamed, this]
      | child l om =>
        simp only [kidLocs, List.mem_cons, not_or] at h
        have := ih vs h.2
        cases v with
        | one s =>
          simp only [encKids]
          split <;> simp [kidsNamed, leaf, this, Ne.symm h.1]
        | many x => simp [encKids, kidsNamed, this]
      | kids l =>
        simp only [kidLocs, List.mem_cons, not_or] at h
        have := ih vs h.2
        cases v with
        | one s => simp [encKids, kidsNamed, this]
        | many x =>
          simp only [encKids, Form.kidsNamed_leaves]
          simp [Ne.symm h.1, this]
      | text =>
        have := ih vs (by simpa [kidLocs] using h)
        cases v <;> simp [encKids, kidsNamed, kidsNamed_textKid, this]

theorem kidsNamed_encKids_ne (sp loc : String) (f : FS) (v : FV) (h : ∀ l ∈ kidLocs [f], l ≠ loc) :
    kidsNamed loc (encKids sp f v) = [] := by
  cases f with
  | attr sp' l om => cases v <;> simp [encKids, kidsNamed]
  | child l om =>
    have hl : l ≠ loc := h l (by simp [kidLocs])
    cases v with
    | one s => simp only [encKids]; split <;> simp [kidsNamed, leaf, hl]
    | many x => simp [encKids, kidsNamed]
  | kids l =>
    have hl : l ≠ loc := h l (by simp [kidLocs])
    cases v with
    | one s => simp [encKids, kidsNamed]
    | many x => simp [encKids, Form.kidsNamed_leaves, hl]
  | text => cases v <;> simp [encKids, kidsNamed, kidsNamed_textKid]

/-! ### the record round trip -/

theorem decFS_head (sp : String) (f : FS) (v : FV) (fs : List FS) (vs : List FV)
    (preA : List Attr) (preK : List Node)
    (hfit : fitsFS f v = true)
    (hA : (attrLocs (f :: fs)).Nodup) (hK : (kidLocs (f :: fs)).Nodup)
    (hpA : ∀ a ∈ preA, a.name.loc ∉ attrLocs (f :: fs))
    (hpK : ∀ loc ∈ kidLocs (f :: fs), kidsNamed loc preK = [])
    (hT : textCount (f :: fs) ≤ 1) (hpT : textCount (f :: fs) ≥ 1 → textOf preK = "") :
    decFS (preA ++ (encAttrs f v ++ allAttrs fs vs)) (preK ++ (encKids sp f v ++ allKids sp fs vs)) f = v := by
  cases f with
  | attr sp' loc om =>
    cases v with
    | many l => simp [fitsFS] at hfit
    | one s =>
      simp only [attrLocs, List.nodup_cons] at hA
      simp only [decFS, attrOrEmpty]
      rw [attrLast_mid loc preA _ _
        (fun a ha => by have := hpA a ha; simp only [attrLocs, List.mem_cons, not_or] at this; exact this.1)
        (fun a ha h => hA.1 (h ▸ allAttrs_locs fs vs a ha))]
      simp only [encAttrs]
      by_cases h : (om && decide (s = "")) = true
      · simp only [h, if_true]
        simp only [Bool.and_eq_true, decide_eq_true_eq] at h
        simp [attrLast, h.2]
      · simp [h, attrLast]
  | child loc om =>
    cases v with
    | many l => simp [fitsFS] at hfit
    | one s =>
      simp only [kidLocs, List.nodup_cons] at hK
      simp only [decFS, Form.kidsNamed_append]
      rw [hpK loc (by simp [kidLocs]), kidsNamed_allKids_notin sp loc fs vs hK.1]
      simp only [encKids]
      by_cases h : (om && decide (s = "")) = true
      · simp only [h, if_true]
        simp only [Bool.and_eq_true, decide_eq_true_eq] at h
        simp [kidsNamed, lastText, h.2]
      · simp [h, kidsNamed, leaf, lastText, Form.textOf_textKid]
  | kids loc =>
    cases v with
    | one s => simp [fitsFS] at hfit
    | many l =>
      simp only [kidLocs, List.nodup_cons] at hK
      simp only [decFS, Form.kidsNamed_append]
      rw [hpK loc (by simp [kidLocs]), kidsNamed_allKids_notin sp loc fs vs hK.1]
      simp [encKids, Form.kidsNamed_leaves, Form.textOf_textKid, Function.comp_def]
  | text =>
    cases v with
    | many l => simp [fitsFS] at hfit
    | one s =>
      have h0 : textCount fs = 0 := by simp only [textCount] at hT; omega
      simp only [decFS, encKids, textOf_append, Form.textOf_textKid]
      rw [hpT (by simp [textCount]), textOf_allKids_notext sp fs vs h0]
      simp

theorem decFS_rest (sp : String) : ∀ (fs : List FS) (vs : List FV) (preA : List Attr) (preK : List Node),
    wellTyped fs vs = true → (attrLocs fs).Nodup → (kidLocs fs).Nodup →
    (∀ a ∈ preA, a.name.loc ∉ attrLocs fs) → (∀ loc ∈ kidLocs fs, kidsNamed loc preK = []) →
    textCount fs ≤ 1 → (textCount fs ≥ 1 → textOf preK = "") →
    fs.map (decFS (preA ++ allAttrs fs vs) (preK ++ allKids sp fs vs)) = vs := by
  intro fs
  induction fs with
  | nil => intro vs _ _ h; cases vs <;> simp [wellTyped] at h ⊢
  | cons f fs ih =>
    intro vs preA preK hw hA hK hpA hpK hT hpT
    cases vs with
    | nil => simp [wellTyped] at hw
    | cons v vs =>
      simp only [wellTyped, Bool.and_eq_true] at hw
      simp only [List.map_cons, allAttrs, allKids]
      rw [decFS_head sp f v fs vs preA preK hw.1 hA hK hpA hpK hT hpT]
      congr 1
      have hA' : (attrLocs fs).Nodup := by
        cases f <;> simp_all [attrLocs]
      have hK' : (kidLocs fs).Nodup := by
        cases f <;> simp_all [kidLocs]
      have := ih vs (preA ++ encAttrs f v) (preK ++ encKids sp f v) hw.2 hA' hK'
        (by
          intro a ha
          simp only [List.mem_append] at ha
          rcases ha with ha | ha
          · have := hpA a ha
            cases f <;> simp_all [attrLocs]
          · cases f with
            | attr sp' loc om =>
              cases v with
              | one s =>
                simp only [encAttrs] at ha
                split at ha
                · simp at ha
                · simp only [List.mem_singleton] at ha; subst ha
                  simp only [attrLocs, List.nodup_cons] at hA
                  exact hA.1
              | many l => simp [encAttrs] at ha
            | child loc om => cases v <;> simp [encAttrs] at ha
            | kids loc => cases v <;> simp [encAttrs] at ha
            | text => cases v <;> simp [encAttrs] at ha)
        (by
          intro loc hloc
          rw [Form.kidsNamed_append, hpK loc (by cases f <;> simp_all [kidLocs])]
          simp only [List.nil_append]
          apply kidsNamed_encKids_ne
          intro l hl h
          subst h
          cases f with
          | attr sp' l' om => simp [kidLocs] at hl
          | child l' om =>
            simp only [kidLocs, List.mem_singleton] at hl; subst hl
            simp only [kidLocs, List.nodup_cons] at hK; exact hK.1 hloc
          | kids l' =>
            simp only [kidLocs, List.mem_singleton] at hl; subst hl
            simp only [kidLocs, List.nodup_cons] at hK; exact hK.1 hloc
          | text => simp [kidLocs] at hl)
        (by cases f <;> simp only [textCount] at hT ⊢ <;> omega)
        (by
          intro hge
          have hf : f ≠ FS.text := by
            intro hf; subst hf; simp only [textCount] at hT; omega
          have hp : textOf preK = "" := hpT (by cases f <;> simp only [textCount] at hge ⊢ <;> omega)
          rw [textOf_append, hp, textOf_encKids_nontext sp f v hf]; rfl)
      simpa [List.append_assoc] using this

theorem decRec_encRec (s : Schema) (vs : List FV) (hok : s.ok = true) (hw : wellTyped s.fields vs = true) :
    decRec s (encRec s vs) = some vs := by
  simp only [Schema.ok, Bool.and_eq_true, decide_eq_true_eq] at hok
  have hA : (attrLocs s.fields).Nodup := hok.1.1
  have hK : (kidLocs s.fields).Nodup := hok.1.2
  have := decFS_rest s.root.space s.fields vs [] [] hw hA hK (by simp) (by simp [kidsNamed]) hok.2
    (by intro _; simp [textOf])
  simp only [List.nil_append] at this
  simp [decRec, encRec, this]

/-! ### composite payloads -/

theorem decRSet_encRSet (s : RSet) : decRSet (encRSet s) = some s := by
  cases s with
  | mk first index last count =>
    cases index <;> cases count <;>
      simp [encRSet, decRSet, kidsNamed, lastKid, leaf, lastText, Form.textOf_textKid, attrLast, at', nsRSM]

theorem roster_attrs (i : RosterItem) :
    let as := optAt "jid" i.jid ++ optAt "name" i.name ++ optAt "subscription" i.subscription
    attrOrEmpty as "jid" = i.jid ∧ attrOrEmpty as "name" = i.name ∧ attrOrEmpty as "subscription" = i.subscription := by
  by_cases h1 : i.jid = "" <;> by_cases h2 : i.name = "" <;> by_cases h3 : i.subscription = "" <;>
    simp [attrOrEmpty, attrLast, optAt, at', h1, h2, h3]

theorem decRosterItem_enc (i : RosterItem) :
    decRosterItem (optAt "jid" i.jid ++ optAt "name" i.name ++ optAt "subscription" i.subscription)
      (i.groups.map (leaf nsRoster "group")) = i := by
  have h := roster_attrs i
  simp only at h
  simp only [decRosterItem, h.1, h.2.1, h.2.2, Form.kidsNamed_leaves]
  cases i
  simp [Form.textOf_textKid, Function.comp_def]

theorem kidsNamed_rosterItems (l : List RosterItem) :
    kidsNamed "item" (l.map encRosterItem) =
      l.map (fun i => (optAt "jid" i.jid ++ optAt "name" i.name ++ optAt "subscription" i.subscription,
        i.groups.map (leaf nsRoster "group"))) := by
  induction l with
  | nil => simp [kidsNamed]
  | cons i is ih => simp [kidsNamed, encRosterItem, ih]

theorem decRosterQuery_enc (q : RosterQuery) : decRosterQuery (encRosterQuery q) = some q := by
  cases q with
  | mk ver items =>
    simp only [encRosterQuery, decRosterQuery, if_true, kidsNamed_rosterItems]
    have hi : ∀ x : RosterItem,
        decRosterItem (optAt "jid" x.jid ++ (optAt "name" x.name ++ optAt "subscription" x.subscription))
          (List.map (leaf nsRoster "group") x.groups) = x :=
      fun x => by simpa [List.append_assoc] using decRosterItem_enc x
    simp [attrOrEmpty, attrLast, at', hi, Function.comp_def]

theorem decIdentity_enc (i : Identity) :
    decIdentity ([at' "category" i.category] ++ optAt "name" i.name ++ [at' "type" i.typ]
      ++ (if i.lang = "" then [] else [⟨⟨nsXML, "lang"⟩, i.lang⟩])) = i := by
  cases i with
  | mk c n t l =>
    by_cases h1 : n = "" <;> by_cases h2 : l = "" <;>
      simp [decIdentity, attrOrEmpty, attrLast, optAt, at', h1, h2]

theorem kidsNamed_features (loc : String) (l : List String) :
    kidsNamed loc (l.map encFeature) =
      if "feature" = loc then l.map (fun v => ([at' "var" v], ([] : List Node))) else [] := by
  induction l with
  | nil => simp [kidsNamed]
  | cons v vs ih => by_cases h : "feature" = loc <;> simp_all [kidsNamed, encFeature]

theorem kidsNamed_identities (loc : String) (l : List Identity) :
    kidsNamed loc (l.map encIdentity) =
      if "identity" = loc then l.map (fun i => (([at' "category" i.category] ++ optAt "name" i.name ++ [at' "type" i.typ]
        ++ (if i.lang = "" then [] else [⟨⟨nsXML, "lang"⟩, i.lang⟩])), ([] : List Node))) else [] := by
  induction l with
  | nil => simp [kidsNamed]
  | cons v vs ih => by_cases h : "identity" = loc <;> simp_all [kidsNamed, encIdentity]

theorem kidsNamed_forms (jn : Form.JidNorm) (loc : String) (l : List Form.Form) (h : loc ≠ "x") :
    kidsNamed loc (l.map fun f => Form.encodeForm jn f []) = [] := by
  induction l with
  | nil => simp [kidsNamed]
  | cons v vs ih =>
    have hv : ∃ as ks, Form.encodeForm jn v [] = .elem ⟨Form.ns, "x"⟩ as ks := ⟨_, _, rfl⟩
    obtain ⟨as, ks, he⟩ := hv
    rw [List.map_cons, he]
    simp [kidsNamed, Ne.symm h, ih]

theorem decForms_append (a b : List Node) :
    decForms (a ++ b) = (decForms a).bind (fun x => (decForms b).map (fun y => x ++ y)) := by
  induction a with
  | nil => simp [decForms]
  | cons k ks ih =>
    cases k with
    | text s => simp [decForms, ih]
    | elem n as kk =>
      simp only [List.cons_append, decForms]
      split
      · cases hd : Form.decodeForm (.elem n as kk) <;> simp [ih]
        cases decForms ks <;> simp
        cases decForms b <;> simp
      · exact ih

theorem decForms_features (l : List String) : decForms (l.map encFeature) = some [] := by
  induction l with
  | nil => simp [decForms]
  | cons v vs ih => simp [decForms, encFeature, nsInfo, Form.ns, ih]

theorem decForms_identities (l : List Identity) : decForms (l.map encIdentity) = some [] := by
  induction l with
  | nil => simp [decForms]
  | cons v vs ih => simp [decForms, encIdentity, nsInfo, Form.ns, ih]

theorem decForms_forms (jn : Form.JidNorm) (l : List Form.Form) (h : ∀ f ∈ l, f.typ ≠ "submit")
    (hrt : ∀ f : Form.Form, f.typ ≠ "submit" → Form.decodeForm (Form.encodeForm jn f []) = some (Form.canonForm jn f)) :
    decForms (l.map fun f => Form.encodeForm jn f []) = some (l.map (Form.canonForm jn)) := by
  induction l with
  | nil => simp [decForms]
  | cons f fs ih =>
    have hf := hrt f (h f (by simp))
    have := ih (fun g hg => h g (by simp [hg]))
    simp only [List.map_cons]
    generalize he : Form.encodeForm jn f [] = node at hf
    cases node with
    | text s => simp [Form.encodeForm] at he
    | elem n as ks =>
      have hn : n = ⟨Form.ns, "x"⟩ := by simp [Form.encodeForm] at he; exact he.1.symm
      subst hn
      simp [decForms, hf, this]

end XmppModel.Payloads
