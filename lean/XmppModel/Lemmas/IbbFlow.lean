import XmppModel.Model.IbbFlow
/-! lemmas about `recv` used by the flow-control theorems (C15) -/
namespace XmppModel.Ibb
open XmppModel

theorem recv_nack (cd : Codec) (s : RState) (p : Packet) (h : (recv cd s p).2 ≠ .ack) : (recv cd s p).1 = s := by
  unfold recv at *
  split
  · rfl
  · split
    · rfl
    · split
      · rfl
      · split
        · rfl
        · simp_all

theorem recv_ack (cd : Codec) (s : RState) (p : Packet) (h : (recv cd s p).2 = .ack) :
    ∃ d, p.known = true ∧ s.live = true ∧ p.seq = s.seq ∧ cd.dec p.payload = some d ∧ fits s d ∧
      (recv cd s p).1 = { s with seq := (s.seq + 1) % 65536, buf := s.buf ++ d } := by
  unfold recv at h ⊢
  by_cases h1 : (!(p.known && s.live)) = true
  · rw [if_pos h1] at h; simp at h
  · rw [if_neg h1] at h ⊢
    have hkl : p.known = true ∧ s.live = true := by
      cases hk : p.known <;> cases hl : s.live <;> simp_all
    by_cases h2 : p.seq ≠ s.seq
    · rw [if_pos h2] at h; simp at h
    · rw [if_neg h2] at h ⊢
      cases hd : cd.dec p.payload with
      | none => simp [hd] at h
      | some d =>
        simp only [hd] at h ⊢
        by_cases h3 : s.maxBuf > 0 ∧ s.buf.length + d.length > s.maxBuf
        · rw [if_pos h3] at h; simp at h
        · rw [if_neg h3]
          refine ⟨d, hkl.1, hkl.2, by omega, rfl, ?_, rfl⟩
          unfold fits; omega

theorem seqsFrom_mod : ∀ (qs : List Packet) (n : Nat), seqsFrom n qs = seqsFrom (n % 65536) qs := by
  intro qs
  induction qs with
  | nil => intro n; rfl
  | cons q qs ihq =>
    intro n
    simp only [seqsFrom, Nat.mod_mod]
    rw [ihq (n + 1), ihq (n % 65536 + 1)]
    congr 2
    omega

theorem readAll_fields (s : RState) (ns : List Nat) :
    (readAll s ns).live = s.live ∧ (readAll s ns).seq = s.seq ∧ (readAll s ns).maxBuf = s.maxBuf ∧
    (readAll s ns).buf.length ≤ s.buf.length := by
  induction ns generalizing s with
  | nil => simp [readAll]
  | cons n ns ih =>
    have := ih (read s n).1
    simp only [readAll]
    refine ⟨this.1, this.2.1, this.2.2.1, ?_⟩
    have h2 := this.2.2.2
    simp only [read, List.length_drop] at h2 ⊢
    omega

end XmppModel.Ibb
