import XmppModel.Lemmas.StartTLS
set_option linter.unusedVariables false
/-!
Shape of the security-relevant part of a trace (`sig`: the writes that did not go through a
TLS layer, and the layer switch): for a compliant configuration it is a prefix of
`[header, STARTTLS request, switch]`, and a session is only returned after all three.

* secured phase: `PS L` = `PA` ∧ `sig` unchanged; no second layer switch (`*_noTLS`:
  STARTTLS is never cached, never forced and never selected once `Secure` is set);
* clear phase: `CS st0 L` = `ClearPre` ∧ `sig = L`, followed through header write, request
  write and the answer (`*_shape`).
-/
namespace XmppModel.StartTLS

def isSig : Ev → Bool
  | .wHdr false => true
  | .wStartTLS false => true
  | .wOther _ false => true
  | .switch => true
  | _ => false

/-- clear-text writes and layer switches of a trace -/
def sig (tr : List Ev) : List Ev := tr.filter isSig

theorem sig_skip (e : Ev) (tr : List Ev) (h : isSig e = false) : sig (e :: tr) = sig tr := by
  simp [sig, List.filter_cons, h]

theorem sig_keep (e : Ev) (tr : List Ev) (h : isSig e = true) : sig (e :: tr) = e :: sig tr := by
  simp [sig, List.filter_cons, h]

/-- newest first: nothing, the header, header + request, header + request + switch -/
def SigOK (tr : List Ev) : Prop :=
  sig tr = [] ∨ sig tr = [.wHdr false] ∨ sig tr = [.wStartTLS false, .wHdr false] ∨
    sig tr = [.switch, .wStartTLS false, .wHdr false]

/-! ### secured phase -/

def PS (L : List Ev) (s : Sess) : Prop := PA s ∧ sig s.trace = L

theorem PS_io (L : List Ev) : ClosedIO (PS L) where
  hello := fun s ⟨a, b⟩ => sendHello_ind (P := PS L) s ⟨a, b⟩
    (fun n => ⟨⟨a.1, a.2.1, (NCO_cons _ _).2 ⟨rfl, a.2.2⟩⟩, (sig_skip _ _ rfl).trans b⟩)
  hs := fun s ⟨a, b⟩ => ⟨PA_io.hs s a, b⟩
  fromBuf := fun s o u rest ⟨a, b⟩ hb => ⟨PA_io.fromBuf s o u rest a hb, (sig_skip _ _ rfl).trans b⟩
  fromTls := fun s u rest ⟨a, b⟩ ht hb hp => ⟨PA_io.fromTls s u rest a ht hb hp, (sig_skip _ _ rfl).trans b⟩
  fromClear := fun s u us rest ⟨a, b⟩ ht hb hp => ⟨PA_io.fromClear s u us rest a ht hb hp, (sig_skip _ _ rfl).trans b⟩

theorem PS_neg (L : List Ev) : ClosedNeg (PS L) where
  wHdr := fun s ⟨a, b⟩ => ⟨PA_neg.wHdr s a, (sig_skip _ _ (by rw [a.1]; rfl)).trans b⟩
  wStartTLS := fun s ⟨a, b⟩ => ⟨PA_neg.wStartTLS s a, (sig_skip _ _ (by rw [a.1]; rfl)).trans b⟩
  wOther := fun s id ⟨a, b⟩ => ⟨PA_neg.wOther s id a, (sig_skip _ _ (by rw [a.1]; rfl)).trans b⟩
  choose := fun s ⟨a, b⟩ => ⟨PA_neg.choose s a, b⟩
  advert := fun s ids ⟨a, b⟩ => ⟨PA_neg.advert s ids a, b⟩
  oracle := fun s o ⟨a, b⟩ => ⟨PA_neg.oracle s o a, b⟩
  neg := fun s m id ⟨a, b⟩ => ⟨PA_neg.neg s m id a, b⟩
  first := fun s ⟨a, b⟩ => ⟨PA_neg.first s a, b⟩
  doRestart := fun s x ⟨a, b⟩ => ⟨PA_neg.doRestart s x a, b⟩
  restart := fun s ⟨a, b⟩ => ⟨PA_neg.restart s a, b⟩
  stateOr := fun s m ⟨a, b⟩ => ⟨PA_neg.stateOr s m a, b⟩

/-- `Secure` is set (an invariant of every primitive: the state only grows) -/
def SecP (s : Sess) : Prop := has s.state Secure = true

theorem SecP_io : ClosedIO SecP where
  hello := fun s a => sendHello_ind (P := SecP) s a (fun n => a)
  hs := fun s a => a
  fromBuf := fun s o u rest a _ => a
  fromTls := fun s u rest a _ _ _ => a
  fromClear := fun s u us rest a _ _ _ => a

theorem startTLS_not_eligible_secured :
    ∀ st : Mask, has st Secure = true → eligible st startTLS.nec startTLS.proh = false := by decide

/-- the cache does not hold STARTTLS -/
def NoZero (cache : List Cached) : Prop := ∀ c ∈ cache, c.id ≠ 0

theorem lookup_zero (cfg : FCfg) : lookup cfg 0 = some startTLS := by
  simp [lookup, startTLS]

theorem parseItems_noZero (cfg : FCfg) (st : Mask) (hs : has st Secure = true) :
    ∀ items req cache r, NoZero cache → parseItems cfg st items req cache = .ok r → NoZero r.2 := by
  intro items
  induction items with
  | nil =>
    intro req cache r hz h
    simp only [parseItems] at h
    cases h
    exact hz
  | cons it rest ih =>
    intro req cache r hz h
    unfold parseItems at h
    cases hl : lookup cfg it.id with
    | none => rw [hl] at h; exact ih _ _ _ hz h
    | some f =>
      rw [hl] at h
      dsimp only at h
      split at h
      · cases h
      · split at h
        · next hel =>
          refine ih _ _ _ ?_ h
          intro c hc
          simp only [cacheInsert, List.mem_append, List.mem_filter, List.mem_singleton] at hc
          rcases hc with ⟨hc, _⟩ | rfl
          · exact hz c hc
          · intro hid
            simp only at hid
            rw [hid, lookup_zero] at hl
            cases hl
            rw [startTLS_not_eligible_secured st hs] at hel
            cases hel
        · exact ih _ _ _ hz h

theorem negotiateOne_rw (c : Cached) (res : NegRes) (s : Sess) (hid : c.id ≠ 0) :
    (negotiateOne c res s).Both (fun mr _ => mr.2 ≠ Rw.tls) (fun _ => True) := by
  unfold negotiateOne
  rw [if_neg (by simpa using hid)]
  cases hh : write (.wOther c.id) s with
  | stop w s' => trivial
  | ok a s1 =>
    dsimp only
    split
    · trivial
    · split
      · trivial
      · show (if res.restart = true then Rw.same else Rw.none) ≠ Rw.tls
        cases res.restart <;> simp

theorem pickSet_noZero (cfg : FCfg) (cache : List Cached) (s : Sess) (hz : NoZero cache) :
    ∀ c ∈ pickSet cfg false cache s, c.id ≠ 0 := by
  intro c hc
  simp only [pickSet, Bool.false_eq_true, if_false] at hc
  have := allowed_sub _ c hc
  unfold candidates at this
  exact hz c (List.mem_filter.1 this).1

theorem finishList_rw (cfg : FCfg) (skipped : List Cached) (s : Sess) :
    (finishList cfg skipped s).Both (fun out _ => out.rw ≠ Rw.tls) (fun _ => True) := by
  unfold finishList
  split
  · trivial
  · show Rw.none ≠ Rw.tls
    decide

theorem select_noTLS (cfg : FCfg) (listReq : Bool) (cache skipped : List Cached) (hz : NoZero cache) :
    ∀ orc s, (select cfg false listReq cache skipped orc s).Both (fun out _ => out.rw ≠ Rw.tls) (fun _ => True) := by
  intro orc
  induction orc with
  | nil =>
    intro s
    unfold select
    split
    · exact finishList_rw cfg skipped s
    · trivial
  | cons e orc' ih =>
    intro s
    obtain ⟨id, res⟩ := e
    have hps := pickSet_noZero cfg cache s hz
    unfold select
    generalize pickSet cfg false cache s = al at hps
    split
    · exact finishList_rw cfg skipped s
    · dsimp only
      cases hf : al.find? (fun c => c.id == id) with
      | none => trivial
      | some c =>
        dsimp only
        have hid := hps c (List.mem_of_find?_eq_some hf)
        have hno := negotiateOne_rw c res { s with oracle := orc' } hid
        cases hh : negotiateOne c res { s with oracle := orc' } with
        | stop w s' => trivial
        | ok mr s1 =>
          rw [hh] at hno
          obtain ⟨mask, rw⟩ := mr
          dsimp only
          split
          · exact hno
          · exact ih _

theorem negotiateFeatures_noTLS (cfg : FCfg) (first : Bool) (s : Sess) (hs : SecP s) :
    (negotiateFeatures cfg first s).Both (fun out _ => out.rw ≠ Rw.tls) (fun _ => True) := by
  unfold negotiateFeatures
  have hpl := pull_all SecP_io s hs
  cases hh : pull s with
  | stop w s' => trivial
  | ok u s1 =>
    rw [hh] at hpl
    cases u with
    | list items =>
      dsimp only
      cases hp : parseItems cfg s1.state items false [] with
      | error e => trivial
      | ok r =>
        obtain ⟨req, cache⟩ := r
        dsimp only
        have hz : NoZero cache :=
          parseItems_noZero cfg s1.state hpl items false [] (req, cache) (by intro c hc; cases hc) hp
        have hsec : has s1.state Secure = true := hpl
        simp only [hsec, Bool.not_true, Bool.and_false, Bool.not_false, Bool.true_and]
        split
        · show Rw.none ≠ Rw.tls
          decide
        · split
          · trivial
          · exact select_noTLS cfg req cache _ hz _ _
    | _ => trivial

theorem step_noTLS (cfg : FCfg) (fuel : Nat) (s : Sess) (hs : SecP s) :
    (step cfg fuel s).Both (fun out _ => out.rw ≠ Rw.tls) (fun _ => True) := by
  unfold step
  have hr : (if s.doRestart then
      match write .wHdr s with
      | .stop w s' => Res.stop w s'
      | .ok _ s1 => expectHdr fuel s1
    else Res.ok () s : Res PUnit).All SecP := by
    split
    · have hw := write_all SecP_io .wHdr (fun s a => a) s hs
      cases hh : write .wHdr s with
      | stop w s' => rw [hh] at hw; exact hw
      | ok a s1 => rw [hh] at hw; exact expectHdr_all SecP_io fuel s1 hw
    · exact hs
  simp only
  generalize (if s.doRestart then
      match write .wHdr s with
      | .stop w s' => Res.stop w s'
      | .ok _ s1 => expectHdr fuel s1
    else Res.ok () s : Res PUnit) = r at hr
  cases r with
  | stop w s' => trivial
  | ok a s2 =>
    dsimp only
    have hnf := addAdv_both (Pok := fun (out : FOut) _ => out.rw ≠ Rw.tls) (Pstop := fun _ => True)
      (peekAdv cfg { s2 with first := false }) s2.tls _ (fun a s h => h) (fun s h => h)
      (negotiateFeatures_noTLS cfg s2.first { s2 with first := false } hr)
    change (negotiateFeaturesAdv cfg s2.first { s2 with first := false }).Both _ _ at hnf
    cases hh : negotiateFeaturesAdv cfg s2.first { s2 with first := false } with
    | stop w s' => trivial
    | ok out s3 => rw [hh] at hnf; exact hnf

theorem loop_PS (cfg : Cfg) (L : List Ev) : ∀ fuel teeOn s, PS L s →
    PS L (loop cfg fuel teeOn s).1 ∧ GoodOutcome (loop cfg fuel teeOn s).2 := by
  intro fuel
  induction fuel with
  | zero => intro teeOn s hp; exact ⟨hp, trivial⟩
  | succ fuel ih =>
    intro teeOn s hp
    unfold loop
    split
    · exact ⟨hp, hp.1.2.1, hp.1.1⟩
    · simp only
      have hp1 : PS L (if (cfg.tee && !teeOn) = true then restartDec s else s) := by
        split
        · exact (PS_neg L).restart s hp
        · exact hp
      have hs := step_all (PS_io L) (PS_neg L) cfg.toFCfg (fuel + 1) _ hp1
      have hn := step_noTLS cfg.toFCfg (fuel + 1) _ hp1.1.2.1
      cases hh : step cfg.toFCfg (fuel + 1) (if (cfg.tee && !teeOn) = true then restartDec s else s) with
      | stop w s2 => rw [hh] at hs; exact ⟨hs, trivial⟩
      | ok out s2 =>
        rw [hh] at hs hn
        have hi : PS L (install out.rw s2) := by
          cases hrw : out.rw with
          | none => exact hs
          | same => exact (PS_neg L).restart s2 hs
          | tls => exact absurd hrw hn
        exact ih _ _ ((PS_neg L).stateOr _ _ hi)

/-! ### clear phase -/

def CS (st0 : Mask) (L : List Ev) (s : Sess) : Prop := ClearPre st0 s ∧ sig s.trace = L

/-- at the head of the loop in the clear phase: no list read yet, a header exchange is due -/
def CSF (st0 : Mask) (L : List Ev) (s : Sess) : Prop := CS st0 L s ∧ s.first = true ∧ s.doRestart = true

theorem CS_io (st0 : Mask) (L : List Ev) : ClosedIO (CS st0 L) where
  hello := fun s ⟨a, b⟩ => sendHello_ind (P := CS st0 L) s ⟨a, b⟩
    (fun n => ⟨ClearPre_ev st0 s _ rfl a, (sig_skip _ _ rfl).trans b⟩)
  hs := fun s ⟨a, b⟩ => ⟨(ClearPre_io st0).hs s a, b⟩
  fromBuf := fun s o u rest ⟨a, b⟩ hb => ⟨(ClearPre_io st0).fromBuf s o u rest a hb, (sig_skip _ _ rfl).trans b⟩
  fromTls := fun s u rest ⟨a, b⟩ ht hb hp => ⟨(ClearPre_io st0).fromTls s u rest a ht hb hp, (sig_skip _ _ rfl).trans b⟩
  fromClear := fun s u us rest ⟨a, b⟩ ht hb hp => ⟨(ClearPre_io st0).fromClear s u us rest a ht hb hp, (sig_skip _ _ rfl).trans b⟩

theorem CSF_io (st0 : Mask) (L : List Ev) : ClosedIO (CSF st0 L) where
  hello := fun s ⟨a, b⟩ => sendHello_ind (P := CSF st0 L) s ⟨a, b⟩
    (fun n => ⟨⟨ClearPre_ev st0 s _ rfl a.1, (sig_skip _ _ rfl).trans a.2⟩, b⟩)
  hs := fun s ⟨a, b⟩ => ⟨(CS_io st0 L).hs s a, b⟩
  fromBuf := fun s o u rest ⟨a, b⟩ hb => ⟨(CS_io st0 L).fromBuf s o u rest a hb, b⟩
  fromTls := fun s u rest ⟨a, b⟩ ht hb hp => ⟨(CS_io st0 L).fromTls s u rest a ht hb hp, b⟩
  fromClear := fun s u us rest ⟨a, b⟩ ht hb hp => ⟨(CS_io st0 L).fromClear s u us rest a ht hb hp, b⟩

/-- a write that turns `P` into `Q` -/
theorem write_both {P Q : Sess → Prop} (h : ClosedIO P) (e : Bool → Ev)
    (he : ∀ s, P s → Q { s with trace := e s.tls :: s.trace }) (s : Sess) (hp : P s) :
    (write e s).Both (fun _ s' => Q s') P := by
  unfold write
  have := handshake_all h s hp
  cases hh : handshake s with
  | stop w s' => rw [hh] at this; exact this
  | ok a s' => rw [hh] at this; exact he s' this

theorem CS_write (st0 : Mask) (L : List Ev) (e : Bool → Ev) (hk : isSig (e false) = true)
    (ho : okEv (e false) = true) (s : Sess) (hp : CS st0 L s) :
    CS st0 (e false :: L) { s with trace := e s.tls :: s.trace } := by
  obtain ⟨a, b⟩ := hp
  have ht : e s.tls = e false := by rw [a.tls]
  rw [ht]
  exact ⟨ClearPre_ev st0 s _ ho a, (sig_keep _ _ hk).trans (by rw [b])⟩

theorem negotiateOne_shape (c : Cached) (res : NegRes) (st0 : Mask) (L : List Ev) (s : Sess) (hid : c.id = 0)
    (hp : CS st0 L s) :
    (negotiateOne c res s).Both
      (fun mr s' => mr = (Secure, Rw.tls) ∧ CS st0 (.wStartTLS false :: L) s')
      (fun s' => CS st0 L s' ∨ CS st0 (.wStartTLS false :: L) s') := by
  unfold negotiateOne
  rw [if_pos (by simp [hid])]
  have hw := write_both (CS_io st0 L) .wStartTLS (fun s hp => CS_write st0 L .wStartTLS rfl rfl s hp)
    (chooseConfig s) ⟨⟨hp.1.st, hp.1.sec, hp.1.tls, hp.1.neg, hp.1.nco⟩, hp.2⟩
  cases hh : write .wStartTLS (chooseConfig s) with
  | stop w s' => rw [hh] at hw; exact Or.inl hw
  | ok a s1 =>
    rw [hh] at hw
    dsimp only
    have hpl := pull_all (CS_io st0 (.wStartTLS false :: L)) s1 hw
    cases hh2 : pull s1 with
    | stop w s' => rw [hh2] at hpl; exact Or.inr hpl
    | ok u s2 =>
      rw [hh2] at hpl
      cases u <;> first | exact ⟨rfl, hpl⟩ | exact Or.inr hpl

/-- what a stop in the clear phase leaves behind -/
def StopShape (L : List Ev) (s : Sess) : Prop :=
  NCO s.trace ∧ (sig s.trace = L ∨ sig s.trace = .wStartTLS false :: L)

theorem select_shape (cfg : FCfg) (doTLS listReq : Bool) (cache skipped : List Cached) (orc : List (Nat × NegRes))
    (st0 : Mask) (L : List Ev) (s : Sess) (hp : CS st0 L s) (hct : CacheTLS cache)
    (hne : doTLS = true ∨ cache ≠ []) :
    (select cfg doTLS listReq cache skipped orc s).Both
      (fun out s' => out.rw = .tls ∧ Sec s' ∧ NCO s'.trace ∧ sig s'.trace = .wStartTLS false :: L)
      (StopShape L) := by
  obtain ⟨hal, hids⟩ := pickSet_clear cfg doTLS cache st0 s hp.1 hct hne
  unfold select
  generalize pickSet cfg doTLS cache s = al at hal hids
  rw [if_neg (by simpa [List.isEmpty_iff] using hal)]
  cases orc with
  | nil => exact ⟨hp.1.nco, Or.inl hp.2⟩
  | cons e orc' =>
    obtain ⟨id, res⟩ := e
    dsimp only
    cases hf : al.find? (fun c => c.id == id) with
    | none => exact ⟨hp.1.nco, Or.inl hp.2⟩
    | some c =>
      dsimp only
      have hid := hids c (List.mem_of_find?_eq_some hf)
      have hno := negotiateOne_shape c res st0 L { s with oracle := orc' } hid
        ⟨⟨hp.1.st, hp.1.sec, hp.1.tls, hp.1.neg, hp.1.nco⟩, hp.2⟩
      cases hh : negotiateOne c res { s with oracle := orc' } with
      | stop w s' =>
        rw [hh] at hno
        rcases hno with h | h
        · exact ⟨h.1.nco, Or.inl h.2⟩
        · exact ⟨h.1.nco, Or.inr h.2⟩
      | ok mr s1 =>
        rw [hh] at hno
        obtain ⟨hmr, hs1⟩ := hno
        subst hmr
        dsimp only
        rw [if_pos (by simp)]
        exact ⟨rfl, has_or_self _ _, hs1.1.nco, hs1.2⟩

theorem negotiateFeatures_shape (cfg : FCfg) (st0 : Mask) (hc : Compliant cfg st0) (L : List Ev) (s : Sess)
    (hp : CS st0 L s) :
    (negotiateFeatures cfg true s).Both
      (fun out s' => out.rw = .tls ∧ Sec s' ∧ NCO s'.trace ∧ sig s'.trace = .wStartTLS false :: L)
      (StopShape L) := by
  unfold negotiateFeatures
  have hpl := pull_all (CS_io st0 L) s hp
  cases hh : pull s with
  | stop w s' => rw [hh] at hpl; exact ⟨hpl.1.nco, Or.inl hpl.2⟩
  | ok u s1 =>
    rw [hh] at hpl
    cases u with
    | list items =>
      dsimp only
      cases hpi : parseItems cfg s1.state items false [] with
      | error e => exact ⟨hpl.1.nco, Or.inl hpl.2⟩
      | ok r =>
        obtain ⟨req, cache⟩ := r
        dsimp only
        have hct : CacheTLS cache :=
          parseItems_clear cfg s1.state (hpl.1.st ▸ hc) items false [] (req, cache) (by intro c hc; cases hc) hpi
        cases hadv : cache.any (fun c => c.id == 0) with
        | true =>
          have hcne : cache ≠ [] := by intro h; rw [h] at hadv; cases hadv
          have hine : items.isEmpty = false := by
            cases items with
            | nil => rw [parseItems_nil] at hpi; cases hpi; exact absurd rfl hcne
            | cons _ _ => rfl
          have hce : cache.isEmpty = false := by
            cases cache with
            | nil => exact absurd rfl hcne
            | cons _ _ => rfl
          simp only [Bool.not_true, Bool.and_false, Bool.false_and, Bool.not_false, Bool.true_and, hine, hce,
            Bool.false_eq_true, if_false]
          exact select_shape cfg false req cache _ s1.oracle st0 L s1 hpl hct (Or.inr hcne)
        | false =>
          simp only [Bool.not_false, Bool.and_true, Bool.true_and, hpl.1.sec, Bool.not_true, Bool.false_and,
            Bool.false_eq_true, if_false]
          exact select_shape cfg true req cache _ s1.oracle st0 L s1 hpl hct (Or.inl rfl)
    | _ => exact ⟨hpl.1.nco, Or.inl hpl.2⟩

theorem step_shape (cfg : FCfg) (st0 : Mask) (hc : Compliant cfg st0) (fuel : Nat) (s : Sess)
    (hp : CSF st0 [] s) :
    (step cfg fuel s).Both
      (fun out s' => out.rw = .tls ∧ Sec s' ∧ NCO s'.trace ∧ sig s'.trace = [.wStartTLS false, .wHdr false])
      (fun s' => NCO s'.trace ∧ SigOK s'.trace) := by
  unfold step
  rw [if_pos hp.2.2]
  have hw := write_both (CSF_io st0 []) .wHdr
    (Q := CSF st0 [.wHdr false])
    (fun s hp => ⟨CS_write st0 [] .wHdr rfl rfl s hp.1, hp.2⟩) s hp
  cases hh : write .wHdr s with
  | stop w s' =>
    rw [hh] at hw
    exact ⟨hw.1.1.nco, Or.inl hw.1.2⟩
  | ok a s1 =>
    rw [hh] at hw
    dsimp only
    have he := expectHdr_all (CSF_io st0 [.wHdr false]) fuel s1 hw
    cases hh2 : expectHdr fuel s1 with
    | stop w s' =>
      rw [hh2] at he
      exact ⟨he.1.1.nco, Or.inr (Or.inl he.1.2)⟩
    | ok b s2 =>
      rw [hh2] at he
      dsimp only
      obtain ⟨hcs, hf, _⟩ := he
      rw [hf]
      have hnf := addAdv_both
        (Pok := fun (out : FOut) s' => out.rw = .tls ∧ Sec s' ∧ NCO s'.trace ∧ sig s'.trace = [.wStartTLS false, .wHdr false])
        (Pstop := StopShape [.wHdr false])
        (peekAdv cfg { s2 with first := false }) s2.tls _ (fun a s h => h) (fun s h => h)
        (negotiateFeatures_shape cfg st0 hc [.wHdr false] { s2 with first := false }
          ⟨⟨hcs.1.st, hcs.1.sec, hcs.1.tls, hcs.1.neg, hcs.1.nco⟩, hcs.2⟩)
      change (negotiateFeaturesAdv cfg true { s2 with first := false }).Both _ _ at hnf
      cases hh3 : negotiateFeaturesAdv cfg true { s2 with first := false } with
      | stop w s' =>
        rw [hh3] at hnf
        rcases hnf.2 with h | h
        · exact ⟨hnf.1, Or.inr (Or.inl h)⟩
        · exact ⟨hnf.1, Or.inr (Or.inr (Or.inl h))⟩
      | ok out s3 =>
        rw [hh3] at hnf
        exact hnf

/-- the three security-relevant events of a successful negotiation, newest first -/
def fullSig : List Ev := [.switch, .wStartTLS false, .wHdr false]

/-- outcome demanded by C02, with the exchange that must have preceded a session -/
def GoodRun (r : Sess × Outcome) : Prop :=
  SigOK r.1.trace ∧ GoodOutcome r.2 ∧ ∀ st t h, r.2 = .done st t h → sig r.1.trace = fullSig

theorem loop_shape (cfg : Cfg) (st0 : Mask) (hc : Compliant cfg.toFCfg st0) (fuel : Nat) (teeOn : Bool) (s : Sess)
    (hh : PS fullSig s ∨ (CSF st0 [] s ∧ has s.state Ready = false)) :
    GoodRun (loop cfg fuel teeOn s) := by
  rcases hh with hps | ⟨hcl, hnr⟩
  · have := loop_PS cfg fullSig fuel teeOn s hps
    exact ⟨Or.inr (Or.inr (Or.inr this.1.2)), this.2, fun _ _ _ _ => this.1.2⟩
  · cases fuel with
    | zero => exact ⟨Or.inl hcl.1.2, trivial, fun _ _ _ h => by cases h⟩
    | succ fuel =>
      unfold loop
      rw [if_neg (by simp [hnr])]
      simp only
      have hp1 : CSF st0 [] (if (cfg.tee && !teeOn) = true then restartDec s else s) := by
        split
        · exact ⟨⟨⟨hcl.1.1.st, hcl.1.1.sec, hcl.1.1.tls, rfl, hcl.1.1.nco⟩, hcl.1.2⟩, hcl.2⟩
        · exact hcl
      have hs := step_shape cfg.toFCfg st0 hc (fuel + 1) _ hp1
      cases hst : step cfg.toFCfg (fuel + 1) (if (cfg.tee && !teeOn) = true then restartDec s else s) with
      | stop w s2 =>
        rw [hst] at hs
        exact ⟨hs.2, trivial, fun _ _ _ h => by cases h⟩
      | ok out s2 =>
        rw [hst] at hs
        obtain ⟨hrw, hsec, hnco, hsig⟩ := hs
        have hps : PS fullSig { install out.rw s2 with state := (install out.rw s2).state ||| out.mask } := by
          rw [hrw]
          refine ⟨⟨rfl, has_or _ _ _ hsec, (NCO_cons _ _).2 ⟨rfl, hnco⟩⟩, ?_⟩
          show sig (Ev.switch :: s2.trace) = fullSig
          rw [sig_keep _ _ rfl, hsig]
          rfl
        have := loop_PS cfg fullSig fuel (if out.rw == .tls then false else (teeOn || cfg.tee)) _ hps
        exact ⟨Or.inr (Or.inr (Or.inr this.1.2)), this.2, fun _ _ _ _ => this.1.2⟩

theorem run_shape (cfg : Cfg) (env : Env) (st0 : Mask) (hc : Compliant cfg.toFCfg st0)
    (hs : has st0 Secure = false) (hr : has st0 Ready = false) (hk : env.conn.startsSecure = false)
    (i : Input) (fuel : Nat) :
    let tr := (run cfg env st0 i fuel).1
    (tr.filter isSig = [] ∨ tr.filter isSig = [.wHdr false] ∨ tr.filter isSig = [.wHdr false, .wStartTLS false] ∨
      tr.filter isSig = [.wHdr false, .wStartTLS false, .switch]) ∧
    (∀ st t h, (run cfg env st0 i fuel).2 = .done st t h →
      tr.filter isSig = [.wHdr false, .wStartTLS false, .switch]) := by
  unfold run
  split
  · exact ⟨Or.inl rfl, fun _ _ _ h => by cases h⟩
  · rw [init_clear env st0 i hk]
    have h := loop_shape cfg st0 hc fuel false
      { state := st0, tls := false, hs := false, buf := [], clear := i.clear, prot := i.prot,
        oracle := i.oracle, negotiated := [], doRestart := true, first := true,
        laddr := ownAddr env st0, captured := env.captured, sni := env.conn.name, features := [], trace := [] }
      (Or.inr ⟨⟨⟨⟨rfl, hs, rfl, rfl, fun e he => (by cases he)⟩, rfl⟩, rfl, rfl⟩, hr⟩)
    obtain ⟨h1, _, h3⟩ := h
    have hrev : ∀ l : List Ev, (l.reverse).filter isSig = (sig l).reverse := by
      intro l; simp [sig, List.filter_reverse]
    dsimp only
    rw [hrev]
    constructor
    · rcases h1 with h | h | h | h <;> rw [h]
      · exact Or.inl rfl
      · exact Or.inr (Or.inl rfl)
      · exact Or.inr (Or.inr (Or.inl rfl))
      · exact Or.inr (Or.inr (Or.inr rfl))
    · intro st t hk hd
      rw [h3 st t hk hd]
      rfl

/-- on a `*tls.Conn` nothing security relevant happens in clear text: no clear write, no
STARTTLS request, no second layer -/
theorem run_secure_conn (cfg : Cfg) (env : Env) (st0 : Mask) (hk : env.conn.startsSecure = true)
    (i : Input) (fuel : Nat) :
    (run cfg env st0 i fuel).1.filter isSig = [] ∧ GoodOutcome (run cfg env st0 i fuel).2 := by
  unfold run
  split
  · exact ⟨rfl, trivial⟩
  · rw [init_secure env st0 i hk]
    have h := loop_PS cfg [] fuel false
      { state := st0 ||| Secure, tls := true, hs := false, buf := [], clear := i.clear, prot := i.prot,
        oracle := i.oracle, negotiated := [], doRestart := true, first := true,
        laddr := ownAddr env st0, captured := env.captured, sni := env.conn.name, features := [], trace := [] }
      ⟨⟨rfl, has_or_self st0 Secure, fun e he => (by cases he)⟩, rfl⟩
    refine ⟨?_, h.2⟩
    have hrev : ∀ l : List Ev, (l.reverse).filter isSig = (sig l).reverse := by
      intro l; simp [sig, List.filter_reverse]
    dsimp only
    rw [hrev, h.1.2]
    rfl

end XmppModel.StartTLS
