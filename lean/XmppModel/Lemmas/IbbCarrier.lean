import XmppModel.Model.IbbCarrier
/-! helper lemmas about the children of a carrier message (C15) -/
namespace XmppModel.Ibb

theorem dataChildren_others (cs : List Nat) : dataChildren (cs.map Child.other) = [] := by
  induction cs with
  | nil => rfl
  | cons c cs ih => simpa [dataChildren] using ih

theorem dataChildren_append (xs ys : List Child) : dataChildren (xs ++ ys) = dataChildren xs ++ dataChildren ys := by
  induction xs with
  | nil => rfl
  | cons x xs ih => cases x <;> simp [dataChildren, ih]

end XmppModel.Ibb
