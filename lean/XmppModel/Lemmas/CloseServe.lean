import XmppModel.Model.CloseServe
/-! Invariant, progress and deadlock freedom of the `Serve` thread LTS (C10, round E). -/
namespace XmppModel.Close.SrvLts

theorem closeCount_append (a b : List Item) : closeCount (a ++ b) = closeCount a + closeCount b := by
  simp [closeCount, List.filter_append]

theorem inv_init : Inv init := by
  constructor <;> simp [init, holdsIn, holdsOut, closeCount]

/-- `closeSession` keeps the wire clauses and leaves the output closed -/
theorem closeSession_wire (s : St) (h4 : s.outClosed = false → closeCount s.wire = 0)
    (h5 : s.outClosed = true → ∃ pre, s.wire = pre ++ [.close] ∧ closeCount pre = 0) :
    (closeSession s).outClosed = true ∧
    (∃ pre, (closeSession s).wire = pre ++ [.close] ∧ closeCount pre = 0) ∧
    (closeSession s).spc = s.spc ∧ (closeSession s).inLock = s.inLock ∧ (closeSession s).outLock = s.outLock ∧
    (closeSession s).outPinned = s.outPinned ∧ (closeSession s).inClosed = s.inClosed ∧
    (closeSession s).pending = s.pending ∧ (closeSession s).expired = s.expired ∧
    (closeSession s).kept = s.kept := by
  unfold closeSession
  cases hc : s.outClosed with
  | true => simp [hc]; exact h5 hc
  | false => simp [hc]; exact h4 hc

theorem inv_serveStep (s s' : St) (inv : Inv s) (h : serveStep s = some s') : Inv s' := by
  obtain ⟨i1, i2, i3, i4, i5, i6, i8, i7⟩ := inv
  have cs := closeSession_wire s i4 i5
  unfold serveStep at h
  cases hs : s.spc <;> simp only [hs] at h <;> (repeat' split at h) <;> (try (cases h; done)) <;>
    (simp only [Option.some.injEq] at h; subst h; refine ⟨?_, ?_, ?_, ?_, ?_, ?_, ?_, ?_⟩) <;>
    (try (simp_all [holdsIn, holdsOut, closeCount_append, closeCount]; done))

theorem inv_step (nest : Bool) (s s' : St) (a : Act) (inv : Inv s) (h : step nest s a = some s') : Inv s' := by
  cases a with
  | serve => exact inv_serveStep s s' inv h
  | _ =>
    obtain ⟨i1, i2, i3, i4, i5, i6, i8, i7⟩ := inv
    have cs := closeSession_wire s i4 i5
    simp only [step] at h
    (repeat' split at h) <;> (try (cases h; done)) <;>
      (simp only [Option.some.injEq] at h; subst h; refine ⟨?_, ?_, ?_, ?_, ?_, ?_, ?_, ?_⟩) <;>
      (try (simp_all [holdsIn, holdsOut, closeCount_append, closeCount]; done)) <;>
      (first | exact i8 | (intro r hr; rw [cs.2.2.1] at hr; rw [cs.2.2.2.2.2.2.1]; exact i8 r hr))

theorem inv_run (nest : Bool) (acts : List Act) : ∀ s, Inv s → Inv (run nest s acts) := by
  induction acts with
  | nil => intro s h; exact h
  | cons a as ih =>
    intro s h
    simp only [run]
    cases hst : step nest s a with
    | none => exact ih s h
    | some s' => exact ih s' (inv_step nest s s' a h hst)

theorem serveStep_pinned (s s' : St) (h : serveStep s = some s') : s'.outPinned = s.outPinned := by
  unfold serveStep at h
  cases hs : s.spc <;> simp only [hs] at h <;> (repeat' split at h) <;> (try (cases h; done)) <;>
    (simp only [Option.some.injEq] at h; subst h; simp [closeSession]) <;> (split <;> rfl)

/-- one step of `Serve` towards its return: the peer's closing element is there (or `Serve` is
already shutting down) and no application goroutine holds a lock -/
theorem progress (s : St) (inv : Inv s) (hf : s.inLock ≠ .app ∧ s.outLock ≠ .app)
    (hd : s.pending = some .close ∨ inShutdown s.spc = true) (hn : s.spc ≠ .notStarted)
    (hr : ∀ r, s.spc ≠ .returned r) :
    ∃ s', serveStep s = some s' ∧ rankS s' < rankS s ∧ (s'.inLock ≠ .app ∧ s'.outLock ≠ .app) ∧
      (s'.pending = some .close ∨ inShutdown s'.spc = true) ∧ s'.spc ≠ .notStarted := by
  obtain ⟨i1, i2, i3, i4, i5, i6, i8, i7⟩ := inv
  have cs := closeSession_wire s i4 i5
  obtain ⟨hf1, hf2⟩ := hf
  unfold serveStep
  cases hin : s.inLock <;> cases hout : s.outLock <;> cases hs : s.spc <;>
    simp_all [holdsIn, holdsOut, rank, rankS, inShutdown] <;>
    (try ((repeat' split) <;> simp_all [rank, rankS, inShutdown] <;> (try omega)))

theorem inv_serveRun (n : Nat) : ∀ s, Inv s → Inv (serveRun n s) := by
  induction n with
  | zero => intro s h; exact h
  | succ n ih =>
    intro s h
    simp only [serveRun]
    cases hst : serveStep s with
    | none => exact h
    | some s' => exact ih s' (inv_serveStep s s' h hst)

theorem returns (n : Nat) : ∀ s : St, Inv s → rankS s ≤ n → (s.inLock ≠ .app ∧ s.outLock ≠ .app) →
    (s.pending = some .close ∨ inShutdown s.spc = true) → s.spc ≠ .notStarted →
    ∃ r, (serveRun n s).spc = .returned r := by
  induction n with
  | zero =>
    intro s _ hrk _ _ hn
    have hrk' : rank s.spc = 0 := by unfold rankS at hrk; omega
    cases hs : s.spc <;> simp [hs, rank] at hrk' hn
    exact ⟨_, by simp only [serveRun]; exact hs⟩
  | succ n ih =>
    intro s inv hrk hf hd hn
    by_cases hr : ∃ r, s.spc = .returned r
    · obtain ⟨r, hr⟩ := hr
      exact ⟨r, by simp [serveRun, serveStep, hr]⟩
    · have hr' : ∀ r, s.spc ≠ .returned r := fun r h => hr ⟨r, h⟩
      obtain ⟨s', hst, hlt, hf', hd', hn'⟩ := progress s inv hf hd hn hr'
      simp only [serveRun, hst]
      exact ih s' (inv_serveStep s s' inv hst) (by omega) hf' hd' hn'

theorem step_pinned (s s' : St) (a : Act) (h : step false s a = some s') (hp : s.outPinned = false) :
    s'.outPinned = false := by
  cases a with
  | serve => rw [serveStep_pinned s s' h]; exact hp
  | _ =>
    simp only [step] at h
    (repeat' split at h) <;> (try (cases h; done)) <;>
      (simp only [Option.some.injEq] at h; subst h; simp_all [closeSession]) <;> (try (split <;> simp_all))

theorem run_pinned (acts : List Act) : ∀ s : St, s.outPinned = false → (run false s acts).outPinned = false := by
  induction acts with
  | nil => intro s h; exact h
  | cons a as ih =>
    intro s h
    simp only [run]
    cases hst : step false s a with
    | none => exact ih s h
    | some s' => exact ih s' (step_pinned s s' a hst h)

/-- `Serve` is never stuck for good: whenever it cannot move it has not been started, has
returned, waits for the peer (or the deadline), or waits for a lock held by an application
goroutine that can give it back at once — after which `Serve` can move -/
theorem never_stuck (s : St) (inv : Inv s) (hp : s.outPinned = false) (hnone : serveStep s = none) :
    s.spc = .notStarted ∨ (∃ r, s.spc = .returned r) ∨
    (s.spc = .reading ∧ s.pending = none ∧ s.expired = false) ∨
    (∃ s', (step false s .appReleaseIn = some s' ∨ step false s .appReleaseOut = some s') ∧ serveStep s' ≠ none) := by
  obtain ⟨i1, i2, i3, i4, i5, i6, i8, i7⟩ := inv
  unfold serveStep at hnone
  by_cases hrd : s.spc = .reading
  · right; right; left
    simp only [hrd] at hnone
    have key : s.pending = none ∧ s.expired = false := by
      cases he : s.expired <;> cases hk : s.kept <;> cases hpd : s.pending <;> simp_all
      all_goals (try (rename_i x; cases x with
        | stanza b => cases b <;> simp_all
        | close => simp_all
        | bad => simp_all))
    exact ⟨hrd, key.1, key.2⟩
  · cases hin : s.inLock <;> cases hout : s.outLock <;> cases hs : s.spc <;>
      simp_all [holdsIn, holdsOut, step, serveStep] <;>
      (try (split at hnone <;> simp_all))

end XmppModel.Close.SrvLts
