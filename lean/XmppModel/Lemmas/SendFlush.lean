import XmppModel.Model.SendFlush
/-! Inductiveness of the "returned ⇒ on the wire" invariant (C05, round E). -/
namespace XmppModel.SendFlush

variable {α : Type}

@[simp] theorem setPc_same (pc : Nat → Pc) (i : Nat) (v : Pc) : setPc pc i v i = v := by simp [setPc]
theorem setPc_other (pc : Nat → Pc) {i j : Nat} (v : Pc) (h : j ≠ i) : setPc pc i v j = pc j := by
  simp [setPc, h]

theorem inv_init (p : Prog α) : Inv p (init α) where
  holder := by intro i k h; simp [init] at h
  pre := by intro i k h; simp [init] at h
  ret_wire := by intro r h; simp [init] at h
  ret_block := by intro r h; simp [init] at h
  ok_ret := by intro i h; simp [init] at h

/-- the old returns stay where they are when the stream only grows at its end and the wire
does not shrink -/
theorem keep_rets {p : Prog α} {s s' : St α} (inv : Inv p s) (x : List α)
    (hT : s'.total = s.total ++ x) (hw : s.wire.length ≤ s'.wire.length) :
    (∀ r ∈ s.rets, r.2 ≤ s'.wire.length) ∧
    (∀ r ∈ s.rets, ∃ pre, s'.total.take r.2 = pre ++ p.job r.1) := by
  refine ⟨fun r hr => Nat.le_trans (inv.ret_wire r hr) hw, fun r hr => ?_⟩
  obtain ⟨pre, hpre⟩ := inv.ret_block r hr
  have hle : r.2 ≤ s.total.length := by
    have := inv.ret_wire r hr
    simp only [St.total, List.length_append]; omega
  exact ⟨pre, by rw [hT, List.take_append_of_le_length hle, hpre]⟩

/-- a step of call `i` that changes only `pc i` (to something that is not `holding`), the lock
and the waiter count -/
theorem inv_quiet {p : Prog α} {s : St α} (inv : Inv p s) (i : Nat) (v : Pc) (lk : Option Nat) (w : Nat)
    (hv : ∀ k, v ≠ .holding k) (hvok : v ≠ .ok)
    (hlk : ∀ j k, j ≠ i → s.pc j = .holding k → lk = some j) :
    Inv p { s with lock := lk, pc := setPc s.pc i v, waiters := w } where
  holder := by
    intro j k hj
    dsimp only at hj ⊢
    by_cases hji : j = i
    · subst hji; simp at hj; exact absurd hj (hv k)
    · rw [setPc_other _ _ hji] at hj; exact hlk j k hji hj
  pre := by
    intro j k hj
    dsimp only at hj
    by_cases hji : j = i
    · subst hji; simp at hj; exact absurd hj (hv k)
    · rw [setPc_other _ _ hji] at hj; exact inv.pre j k hj
  ret_wire := inv.ret_wire
  ret_block := inv.ret_block
  ok_ret := by
    intro j hj
    dsimp only at hj ⊢
    by_cases hji : j = i
    · subst hji; simp at hj; exact absurd hj hvok
    · rw [setPc_other _ _ hji] at hj; exact inv.ok_ret j hj

/-- the invariant is preserved by every action when the final flush is unconditional -/
theorem inv_step (p : Prog α) (hp : p.lazy = false) (s s' : St α) (a : Act) (inv : Inv p s)
    (h : step p s a = some s') : Inv p s' := by
  cases a with
  | spill n =>
    simp only [step, Option.some.injEq] at h
    subst h
    have hT : (St.total { s with wire := s.wire ++ s.buf.take n, buf := s.buf.drop n }) = s.total ++ [] := by
      simp [St.total, List.append_assoc]
    have hk := keep_rets (s' := { s with wire := s.wire ++ s.buf.take n, buf := s.buf.drop n }) inv [] hT (by simp)
    refine ⟨inv.holder, ?_, hk.1, hk.2, inv.ok_ret⟩
    intro j k hj
    obtain ⟨pre, hpre⟩ := inv.pre j k hj
    exact ⟨pre, by rw [hT, List.append_nil, hpre]⟩
  | call i =>
    simp only [step] at h
    cases hpc : s.pc i with
    | idle =>
      rw [hpc] at h
      simp only [Option.some.injEq] at h
      subst h
      have := inv_quiet inv i .waiting s.lock (s.waiters + 1) (by intro k; simp) (by simp)
        (fun j k _ hj => inv.holder j k hj)
      exact this
    | waiting =>
      rw [hpc] at h
      cases hlk : s.lock with
      | some j => rw [hlk] at h; simp at h
      | none =>
        rw [hlk] at h
        simp only [Option.some.injEq] at h
        subst h
        refine ⟨?_, ?_, inv.ret_wire, inv.ret_block, ?_⟩
        · intro j k hj
          dsimp only at hj ⊢
          by_cases hji : j = i
          · subst hji; rfl
          · rw [setPc_other _ _ hji] at hj
            have := inv.holder j k hj
            rw [hlk] at this; cases this
        · intro j k hj
          dsimp only at hj
          by_cases hji : j = i
          · subst hji
            simp only [setPc_same, Pc.holding.injEq] at hj
            subst hj
            exact ⟨s.total, by simp [St.total]⟩
          · rw [setPc_other _ _ hji] at hj; exact inv.pre j k hj
        · intro j hj
          dsimp only at hj ⊢
          by_cases hji : j = i
          · subst hji; simp at hj
          · rw [setPc_other _ _ hji] at hj; exact inv.ok_ret j hj
    | holding k =>
      rw [hpc] at h
      dsimp only at h
      have hlock : s.lock = some i := inv.holder i k hpc
      have hothers : ∀ j k', j ≠ i → s.pc j = .holding k' → (none : Option Nat) = some j := by
        intro j k' hji hj
        have := inv.holder j k' hj
        rw [hlock] at this
        exact absurd (Option.some.inj this).symm hji
      by_cases hstop : p.stopAt i = some k
      · rw [if_pos hstop] at h
        simp only [Option.some.injEq] at h
        subst h
        have := inv_quiet inv i .err none s.waiters (by intro k; simp) (by simp) hothers
        exact this
      · rw [if_neg hstop] at h
        cases hx : (p.job i)[k]? with
        | some x =>
          rw [hx] at h
          simp only [Option.some.injEq] at h
          subst h
          have hT : (St.total { s with buf := s.buf ++ [x], pc := setPc s.pc i (.holding (k + 1)) })
              = s.total ++ [x] := by simp [St.total, List.append_assoc]
          have hk := keep_rets (s' := { s with buf := s.buf ++ [x], pc := setPc s.pc i (.holding (k + 1)) })
            inv [x] hT (Nat.le_refl _)
          refine ⟨?_, ?_, hk.1, hk.2, ?_⟩
          · intro j k' hj
            dsimp only at hj ⊢
            by_cases hji : j = i
            · subst hji; exact hlock
            · rw [setPc_other _ _ hji] at hj; exact inv.holder j k' hj
          · intro j k' hj
            dsimp only at hj
            by_cases hji : j = i
            · subst hji
              simp only [setPc_same, Pc.holding.injEq] at hj
              subst hj
              obtain ⟨pre, hpre⟩ := inv.pre j k hpc
              refine ⟨pre, ?_⟩
              rw [hT, hpre, List.take_add_one, hx]
              simp [List.append_assoc]
            · rw [setPc_other _ _ hji] at hj
              have := hothers j k' hji hj
              cases this
          · intro j hj
            dsimp only at hj ⊢
            by_cases hji : j = i
            · subst hji; simp at hj
            · rw [setPc_other _ _ hji] at hj; exact inv.ok_ret j hj
        | none =>
          rw [hx] at h
          simp only [hp, Bool.false_and, Bool.false_eq_true, if_false, Option.some.injEq] at h
          subst h
          have hlen : (p.job i).length ≤ k := by
            rcases Nat.lt_or_ge k (p.job i).length with hlt | hge
            · rw [List.getElem?_eq_getElem hlt] at hx; cases hx
            · exact hge
          have hT : (St.total { s with wire := s.wire ++ s.buf, buf := [], lock := none, pc := setPc s.pc i .ok, rets := s.rets ++ [(i, s.wire.length + s.buf.length)] })
              = s.total ++ [] := by simp [St.total]
          have hk := keep_rets (s' := { s with wire := s.wire ++ s.buf, buf := [], lock := none, pc := setPc s.pc i .ok, rets := s.rets ++ [(i, s.wire.length + s.buf.length)] })
            inv [] hT (by simp)
          refine ⟨?_, ?_, ?_, ?_, ?_⟩
          · intro j k' hj
            dsimp only at hj ⊢
            by_cases hji : j = i
            · subst hji; simp at hj
            · rw [setPc_other _ _ hji] at hj; exact hothers j k' hji hj
          · intro j k' hj
            dsimp only at hj
            by_cases hji : j = i
            · subst hji; simp at hj
            · rw [setPc_other _ _ hji] at hj
              have := hothers j k' hji hj
              cases this
          · intro r hr
            dsimp only at hr ⊢
            rcases List.mem_append.mp hr with hr | hr
            · exact hk.1 r hr
            · simp only [List.mem_singleton] at hr; subst hr; simp
          · intro r hr
            dsimp only at hr
            rcases List.mem_append.mp hr with hr | hr
            · exact hk.2 r hr
            · simp only [List.mem_singleton] at hr
              subst hr
              obtain ⟨pre, hpre⟩ := inv.pre i k hpc
              refine ⟨pre, ?_⟩
              rw [hT, List.append_nil]
              have : s.wire.length + s.buf.length = s.total.length := by simp [St.total]
              dsimp only
              rw [this, List.take_length, hpre, List.take_of_length_le hlen]
          · intro j hj
            dsimp only at hj ⊢
            by_cases hji : j = i
            · subst hji; exact ⟨_, List.mem_append_right _ (List.mem_singleton.mpr rfl)⟩
            · rw [setPc_other _ _ hji] at hj
              obtain ⟨e, he⟩ := inv.ok_ret j hj
              exact ⟨e, List.mem_append_left _ he⟩
    | ok => rw [hpc] at h; cases h
    | err => rw [hpc] at h; cases h

theorem inv_run (p : Prog α) (hp : p.lazy = false) (sched : List Act) :
    ∀ s, Inv p s → Inv p (run p s sched) := by
  induction sched with
  | nil => intro s h; exact h
  | cons a as ih =>
    intro s h
    simp only [run]
    cases hs : step p s a with
    | none => exact ih s h
    | some s' => exact ih s' (inv_step p hp s s' a h hs)

/-- what the invariant says about one successful return: its block is on the WIRE, whole and
contiguous, ending at the position the stream had reached when the call returned -/
theorem returned_on_wire {p : Prog α} {s : St α} (inv : Inv p s) (r : Nat × Nat) (hr : r ∈ s.rets) :
    ∃ pre post, s.wire = pre ++ p.job r.1 ++ post ∧ (pre ++ p.job r.1).length = r.2 := by
  obtain ⟨pre, hpre⟩ := inv.ret_block r hr
  have hle := inv.ret_wire r hr
  have h1 : s.total.take r.2 = s.wire.take r.2 := by
    simp only [St.total]; exact List.take_append_of_le_length hle
  refine ⟨pre, s.wire.drop r.2, ?_, ?_⟩
  · rw [← hpre, h1, List.take_append_drop]
  · rw [← hpre, h1, List.length_take]; omega

end XmppModel.SendFlush
