import XmppModel.Lemmas.Styling
/-! Generic facts about the `bufio.Scanner` model `scanner`, for any split function that
honours a contract (`SplitSpec`). -/
namespace XmppModel.Styling

/-- contract of a split function with state invariant `I` -/
structure SplitSpec {σ : Type} (split : Split σ) (I : σ → Prop) : Prop where
  /-- on a non-empty buffer: no panic, a token is a non-empty prefix with `advance` its length -/
  call_ok : ∀ s buf eof, I s → 0 < buf.length → (split s buf eof).1.Good buf ∧ I (split s buf eof).2
  /-- the final call with nothing buffered asks for nothing -/
  nil_eof : ∀ s, I s → (split s [] true).1 = .more ∧ I (split s [] true).2
  /-- at EOF a non-empty buffer always yields a token -/
  eof_tok : ∀ s buf, I s → 0 < buf.length → (split s buf true).1 ≠ .more

def concatToks {σ : Type} (l : List (Bytes × σ)) : Bytes := (l.map (·.1)).flatten

/-- what a finished scanner run must satisfy for the unread input `total` -/
def RunOK {σ : Type} (I : σ → Prop) (limit : Option Nat) (total : Bytes)
    (r : List (Bytes × σ) × End) : Prop :=
  (r.2 = .eof ∨ (r.2 = .tooLong ∧ limit ≠ none)) ∧
  (r.2 = .eof → concatToks r.1 = total) ∧
  (∀ x ∈ r.1, I x.2 ∧ x.1 ≠ [])

def runMeasure (buf pending : Bytes) (eof : Bool) : Nat :=
  buf.length + 2 * pending.length + (if eof then 0 else 1)

theorem measure_read (buf pending : Bytes) (k : Nat) (hk : 1 ≤ k) (e' : Bool)
    (hp : pending = [] → e' = true) :
    runMeasure (buf ++ pending.take k) (pending.drop k) e' < runMeasure buf pending false := by
  unfold runMeasure
  simp only [List.length_append, List.length_take, List.length_drop, Bool.false_eq_true, if_false]
  have h1 : (if e' = true then 0 else 1) ≤ 1 := by split <;> omega
  cases pending with
  | nil => simp [hp rfl]
  | cons p ps =>
    simp only [List.length_cons]
    rw [Nat.min_def]
    split <;> omega

theorem measure_drop (buf pending : Bytes) (eof : Bool) (adv : Nat) (h0 : 0 < adv) (h1 : adv ≤ buf.length) :
    runMeasure (buf.drop adv) pending eof < runMeasure buf pending eof := by
  unfold runMeasure
  simp only [List.length_drop]
  omega

theorem readStep_ok {σ : Type} (I : σ → Prop) (limit : Option Nat) (sizes : List Nat) (dataEOF : Bool)
    (buf pending : Bytes) (eof : Bool) (fuel : Nat)
    (cont : List Nat → Bytes → Bytes → Bool → List (Bytes × σ) × End)
    (hep : eof = true → pending = []) (hbuf : eof = true → buf = [])
    (hf : runMeasure buf pending eof < fuel + 1)
    (hc : ∀ sizes' buf' pending' eof', buf' ++ pending' = buf ++ pending → (eof' = true → pending' = []) →
      runMeasure buf' pending' eof' < fuel → RunOK I limit (buf ++ pending) (cont sizes' buf' pending' eof')) :
    RunOK I limit (buf ++ pending) (readStep limit sizes dataEOF buf pending eof (fun e => ([], e)) cont) := by
  unfold readStep
  by_cases he : eof = true
  · rw [if_pos he]
    simp [RunOK, concatToks, hep he, hbuf he]
  · rw [if_neg he]
    by_cases hl : atLimit limit buf.length = true
    · rw [if_pos hl]
      refine ⟨Or.inr ⟨rfl, ?_⟩, by simp, by simp⟩
      intro hn; subst hn; simp [atLimit] at hl
    · rw [if_neg hl]
      simp only []
      apply hc
      · simp [List.append_assoc]
      · intro h
        simp only [Bool.or_eq_true, List.isEmpty_iff, Bool.and_eq_true] at h
        rcases h with h | h
        · simp [h]
        · exact h.2
      · simp only [Bool.not_eq_true] at he
        subst he
        by_cases hp : pending = []
        · subst hp
          simp [runMeasure] at hf ⊢
          omega
        · have hk : 1 ≤ chunkSize sizes pending.length := by
            unfold chunkSize
            cases pending with
            | nil => exact absurd rfl hp
            | cons p ps => split <;> (try simp only [List.length_cons]) <;> omega
          have := measure_read buf pending _ hk
            (pending.isEmpty || (dataEOF && (pending.drop (chunkSize sizes pending.length)).isEmpty))
            (by intro h; exact absurd h hp)
          omega

theorem scanner_ok {σ : Type} (split : Split σ) (I : σ → Prop) (spec : SplitSpec split I)
    (limit : Option Nat) :
    ∀ (fuel : Nat) (sizes : List Nat) (dataEOF : Bool) (s : σ) (buf pending : Bytes) (eof : Bool),
      I s → (eof = true → pending = []) → runMeasure buf pending eof < fuel →
      RunOK I limit (buf ++ pending) (scanner split limit fuel sizes dataEOF s buf pending eof) := by
  intro fuel
  induction fuel with
  | zero => intro _ _ _ _ _ _ _ _ h; omega
  | succ fuel ih =>
    intro sizes dataEOF s buf pending eof hI hep hf
    unfold scanner
    simp only []
    split
    · -- nothing buffered and no EOF yet: read
      rename_i hb
      simp only [Bool.and_eq_true, List.isEmpty_iff, Bool.not_eq_true'] at hb
      apply readStep_ok I limit sizes dataEOF buf pending eof fuel _ hep (fun _ => hb.1) hf
      intro sizes' buf' pending' eof' hcat hep' hm
      rw [← hcat]
      exact ih sizes' dataEOF s buf' pending' eof' hI hep' hm
    · rename_i hb
      have hcall : 0 < buf.length ∨ (buf = [] ∧ eof = true) := by
        cases buf with
        | nil => right; simpa using hb
        | cons _ _ => left; simp
      split
      · -- more
        rename_i s' hsp
        have hI' : I s' := by
          rcases hcall with h | ⟨h1, h2⟩
          · have := (spec.call_ok s buf eof hI h).2; rw [hsp] at this; exact this
          · subst h1 h2; have := (spec.nil_eof s hI).2; rw [hsp] at this; exact this
        have hbuf : eof = true → buf = [] := by
          intro he
          rcases hcall with h | ⟨h1, _⟩
          · subst he
            have := spec.eof_tok s buf hI h
            rw [hsp] at this; exact absurd rfl this
          · exact h1
        apply readStep_ok I limit sizes dataEOF buf pending eof fuel _ hep hbuf hf
        intro sizes' buf' pending' eof' hcat hep' hm
        rw [← hcat]
        exact ih sizes' dataEOF s' buf' pending' eof' hI' hep' hm
      · -- panic
        rename_i s' hsp
        rcases hcall with h | ⟨h1, h2⟩
        · have := (spec.call_ok s buf eof hI h).1; rw [hsp] at this; exact absurd this (by simp [Out.Good])
        · subst h1 h2; have := (spec.nil_eof s hI).1; rw [hsp] at this; cases this
      · -- token
        rename_i adv t s' hsp
        rcases hcall with h | ⟨h1, h2⟩
        · have hg := spec.call_ok s buf eof hI h
          rw [hsp] at hg
          obtain ⟨⟨ha0, hal, ht⟩, hI'⟩ := hg
          have hnb : ¬((adv == 0 || decide (adv > buf.length)) = true) := by
            simp; omega
          rw [if_neg hnb]
          have hm : runMeasure (buf.drop adv) pending eof < fuel := by
            have := measure_drop buf pending eof adv ha0 hal
            omega
          have hr := ih sizes dataEOF s' (buf.drop adv) pending eof hI' hep hm
          obtain ⟨h1, h2, h3⟩ := hr
          refine ⟨h1, ?_, ?_⟩
          · intro he
            have := h2 he
            simp only [concatToks, List.map_cons, List.flatten_cons] at this ⊢
            rw [this, ht, ← List.append_assoc, List.take_append_drop]
          · intro x hx
            simp only [List.mem_cons] at hx
            rcases hx with rfl | hx
            · refine ⟨hI', ?_⟩
              simp only [ht]
              intro hnil
              have := congrArg List.length hnil
              rw [List.length_take, List.length_nil] at this; omega
            · exact h3 x hx
        · subst h1 h2; have := (spec.nil_eof s hI).1; rw [hsp] at this; cases this

end XmppModel.Styling

namespace XmppModel.Styling

/-- the decoder invariant that excludes nil dereferences -/
def Dec.OK (d : Dec) : Prop := ChainOK d.lv d.inner

theorem Dec.ok_init : Dec.OK {} := rfl

theorem scanLv_nil_eof (lv : Level) (inner : List Level) :
    scanLv [] true false lv inner = (.more, lv, inner) := by
  unfold scanLv; simp

theorem decScan_spec : SplitSpec Dec.scan Dec.OK where
  call_ok := fun s buf eof hI hne => scanRel_good (scanLv_rel buf eof false s.lv s.inner) hI hne
  nil_eof := fun s hI => by
    unfold Dec.scan
    rw [scanLv_nil_eof]
    exact ⟨rfl, hI⟩
  eof_tok := fun s buf _ hne => scanRel_eof (scanLv_rel buf true false s.lv s.inner) rfl hne

theorem quoteLv_isSome {lv : Level} {inner : List Level} (h : ChainOK lv inner) :
    (quoteLv lv inner).isSome = true := by
  induction inner generalizing lv with
  | nil => unfold quoteLv; simp only [ChainOK] at h; simp [h]
  | cons q qs ih =>
    unfold quoteLv
    split
    · simp only [Option.isSome_map]; exact ih h
    · rfl

theorem events_isSome (prev : Nat) (l : List (Bytes × Dec)) (h : ∀ x ∈ l, x.2.OK) :
    (events prev l).isSome = true := by
  induction l generalizing prev with
  | nil => simp [events]
  | cons x xs ih =>
    obtain ⟨t, d⟩ := x
    have hq := quoteLv_isSome (h (t, d) (by simp))
    obtain ⟨cur, hcur⟩ := Option.isSome_iff_exists.mp hq
    have htl := ih cur (fun y hy => h y (by simp [hy]))
    obtain ⟨tl, htl'⟩ := Option.isSome_iff_exists.mp htl
    simp only [events, Dec.quote, hcur, htl', Option.bind_eq_bind, Option.bind_some]
    split <;> simp

theorem events_concat (prev : Nat) (l : List (Bytes × Dec)) (evs : List Event)
    (h : events prev l = some evs) : (evs.map (·.data)).flatten = concatToks l := by
  induction l generalizing prev evs with
  | nil => simp [events] at h; subst h; rfl
  | cons x xs ih =>
    obtain ⟨t, d⟩ := x
    simp only [events, Option.bind_eq_bind] at h
    cases hq : d.quote with
    | none => simp [hq] at h
    | some cur =>
      cases htl : events cur xs with
      | none => simp [hq, htl] at h
      | some tl =>
        simp only [hq, htl, Option.bind_some] at h
        have := ih cur tl htl
        split at h <;> (simp at h; subst h; simp [concatToks] at this ⊢; exact this)

end XmppModel.Styling

namespace XmppModel.Styling
/-- every run of the scanner over a whole document is sound -/
theorem scanDoc_ok (limit : Option Nat) (sch : Schedule) (doc : Bytes) :
    RunOK Dec.OK limit doc (scanDoc limit sch doc) := by
  have := scanner_ok Dec.scan Dec.OK decScan_spec limit (fuelFor doc) sch.sizes sch.dataEOF {} [] doc false
    Dec.ok_init (by simp) (by simp [runMeasure, fuelFor])
  simpa [scanDoc] using this
end XmppModel.Styling
