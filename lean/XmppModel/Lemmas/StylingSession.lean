import XmppModel.Model.StylingSession
/-!
Lemmas about sessions of decoders (Model/StylingSession.lean): projection of an interleaved
session onto one decoder, termination and progress of `SkipSpan`/`SkipBlock`, calls after the
end of the input.
-/
namespace XmppModel.Styling

/-! ## independence -/

/-- the observations decoder `i` makes in a session -/
def obsOf (i : Nat) (l : List (Nat × Obs)) : List Obs := (l.filter (·.1 == i)).map (·.2)

/-- the operations issued on decoder `i` -/
def opsOf (i : Nat) (l : List (Nat × Op)) : List Op := (l.filter (·.1 == i)).map (·.2)

theorem runOps_project (ops : List (Nat × Op)) :
    ∀ (st : List Api) (i : Nat) (a : Api), st[i]? = some a →
      obsOf i (runOps st ops) = solo a (opsOf i ops) := by
  induction ops with
  | nil => intro st i a _; simp [runOps, obsOf, opsOf, solo]
  | cons o ops ih =>
    intro st i a h
    obtain ⟨j, op⟩ := o
    by_cases hji : j = i
    · subst hji
      have hlt : j < st.length := by
        rcases Nat.lt_or_ge j st.length with hl | hl
        · exact hl
        · rw [List.getElem?_eq_none hl] at h; cases h
      have hset : (st.set j (a.step op).2)[j]? = some (a.step op).2 := by
        rw [List.getElem?_set_self (by simpa using hlt)]
      have := ih (st.set j (a.step op).2) j (a.step op).2 hset
      simp only [runOps, h, obsOf, opsOf, List.filter_cons, beq_self_eq_true, if_true, List.map_cons, solo] at this ⊢
      rw [this]
    · have hne : (j == i) = false := by simpa using hji
      cases hj : st[j]? with
      | none =>
        have := ih st i a h
        simp only [runOps, hj, obsOf, opsOf, List.filter_cons, hne] at this ⊢
        simpa using this
      | some b =>
        have hset : (st.set j (b.step op).2)[i]? = some a := by
          rw [List.getElem?_set_ne hji]; exact h
        have := ih (st.set j (b.step op).2) i a hset
        simp only [runOps, hj, obsOf, opsOf, List.filter_cons, hne] at this ⊢
        simpa using this

/-! ## `SkipSpan` / `SkipBlock` -/

/-- with enough fuel the loop returns; it consumes a prefix of the events, at least one when
there is one; it returns false only at the end of the input, with everything consumed -/
theorem skipLoop_spec (block : Bool) : ∀ (fuel : Nat) (st : Style) (q : Nat) (rest : List Event),
    rest.length < fuel →
    ∃ r, skipLoop block fuel st q rest = some r ∧
      (∃ pre, rest = pre ++ r.rest ∧ (rest ≠ [] → pre ≠ [])) ∧
      (r.ret = false → r.hitEnd = true ∧ r.rest = []) ∧
      (r.hitEnd = true → r.ret = false) := by
  intro fuel
  induction fuel with
  | zero => intro _ _ rest h; omega
  | succ n ih =>
    intro st q rest h
    cases rest with
    | nil => exact ⟨_, rfl, ⟨[], rfl, fun h => (h rfl).elim⟩, fun _ => ⟨rfl, rfl⟩, fun _ => rfl⟩
    | cons e rest =>
      have hlen : rest.length < n := by simp at h; omega
      unfold skipLoop
      by_cases hs : skipStarts block e.style e.quote q = true
      · simp only [hs, if_true]
        obtain ⟨r1, h1, ⟨pre1, hp1, _⟩, hf1, he1⟩ := ih e.style e.quote rest hlen
        rw [h1]
        by_cases hr : r1.ret = true
        · simp only [hr, if_true]
          have hlen2 : r1.rest.length < n := by
            have : rest.length = pre1.length + r1.rest.length := by rw [hp1]; simp
            omega
          obtain ⟨r2, h2, ⟨pre2, hp2, _⟩, hf2, he2⟩ := ih r1.style r1.quote r1.rest hlen2
          refine ⟨r2, h2, ⟨e :: pre1 ++ pre2, ?_, fun _ => by simp⟩, hf2, he2⟩
          rw [hp1, hp2]; simp
        · have hr' : r1.ret = false := by simpa using hr
          simp only [hr', Bool.false_eq_true, if_false]
          exact ⟨r1, rfl, ⟨e :: pre1, by rw [hp1]; simp, fun _ => by simp⟩, hf1, he1⟩
      · simp only [hs, if_false, Bool.false_eq_true]
        by_cases hen : skipEnds block e.style (endsNL e) = true
        · simp only [hen, if_true]
          exact ⟨_, rfl, ⟨[e], by simp, fun _ => by simp⟩, fun h => by simp at h, fun h => by simp at h⟩
        · simp only [hen, if_false, Bool.false_eq_true]
          obtain ⟨r1, h1, ⟨pre1, hp1, _⟩, hf1, he1⟩ := ih e.style e.quote rest hlen
          exact ⟨r1, h1, ⟨e :: pre1, by rw [hp1]; simp, fun _ => by simp⟩, hf1, he1⟩

/-- `Api.skip` never runs out of fuel -/
theorem Api.skip_ne_fuel (a : Api) (block : Bool) : (a.skip block).1 ≠ .fuel := by
  obtain ⟨r, hr, _⟩ := skipLoop_spec block (a.rest.length + 1) a.style a.quote a.rest (Nat.lt_succ_self _)
  simp [Api.skip, hr]

/-- every operation leaves a suffix of the events to hand out -/
theorem Api.step_suffix (a : Api) (op : Op) : ∃ pre, a.rest = pre ++ (a.step op).2.rest := by
  have hskip : ∀ block, ∃ pre, a.rest = pre ++ (a.skip block).2.rest := by
    intro block
    obtain ⟨r, hr, ⟨pre, hp, _⟩, _⟩ := skipLoop_spec block (a.rest.length + 1) a.style a.quote a.rest (Nat.lt_succ_self _)
    exact ⟨pre, by simp [Api.skip, hr, ← hp]⟩
  cases op with
  | create => by_cases h : a.created <;> simp [Api.step, h] <;> exact ⟨[], rfl⟩
  | next =>
    by_cases h : a.created
    · cases hr : a.rest with
      | nil => exact ⟨[], by simp [Api.step, h, hr]⟩
      | cons e r => exact ⟨[e], by simp [Api.step, h, hr]⟩
    · exact ⟨[], by simp [Api.step, h]⟩
  | skipSpan =>
    by_cases h : a.created
    · simpa [Api.step, h] using hskip false
    · exact ⟨[], by simp [Api.step, h]⟩
  | skipBlock =>
    by_cases h : a.created
    · simpa [Api.step, h] using hskip true
    · exact ⟨[], by simp [Api.step, h]⟩

/-- once everything is handed out, every further call reports the end and changes nothing
but the `ended` flag -/
theorem Api.step_at_end (a : Api) (op : Op) (hc : a.created = true) (hop : op ≠ .create) (hr : a.rest = []) :
    (a.step op).2 = { a with ended := true } ∧
    ((a.step op).1 = .nextEnd a.fin a.style a.quote ∨
      ∃ blk, (a.step op).1 = .skip blk false (some a.fin) a.style a.quote) := by
  cases op with
  | create => exact (hop rfl).elim
  | next => simp [Api.step, hc, hr]
  | skipSpan =>
    refine ⟨?_, Or.inr ⟨false, ?_⟩⟩ <;> simp [Api.step, hc, Api.skip, hr, skipLoop]
  | skipBlock =>
    refine ⟨?_, Or.inr ⟨true, ?_⟩⟩ <;> simp [Api.step, hc, Api.skip, hr, skipLoop]

/-- reading to the end with `Next` hands out exactly the events -/
theorem solo_nexts : ∀ (evs : List Event) (a : Api), a.created = true → a.rest = evs →
    solo a (List.replicate evs.length .next) = evs.map .tok := by
  intro evs
  induction evs with
  | nil => intro a _ _; simp [solo]
  | cons e r ih =>
    intro a hc hr
    have := ih { a with rest := r, style := e.style, quote := e.quote } hc rfl
    simp only [hc] at this
    simp [List.replicate_succ, solo, Api.step, hc, hr, this]

end XmppModel.Styling
