import XmppModel.Model.MucLive
/-! Invariant of the two-call model of the hand-off slot (C18, round G). -/
namespace XmppModel.MucLive

structure LInv (s : LSt) : Prop where
  /-- a joined channel is registered under the address it holds -/
  reg : s.joined = true → s.managed s.cur = true
  /-- a call that waits for the slot and made its registration itself does not ask for the address
  the channel is joined under -/
  bf : ∀ i, (s.call i).pc = .blocked → (s.call i).fresh = true → s.joined = true → s.cur ≠ (s.call i).req
  /-- the request in the slot belongs to a call that has queued it -/
  sq : ∀ i, s.slot = some i → (s.call i).pc = .queued
  /-- calls wait only while the slot is taken -/
  nb : ∀ i, s.slot = none → (s.call i).pc ≠ .blocked

theorem linv_init (a : Nat) : LInv (init a) := by
  constructor <;> simp [init]

set_option hygiene false in
macro "fin" : tactic => `(tactic|
  (first | done | grind [refill, setCall, setM, isActive] | (simp only [refill] <;> (repeat' split) <;> grind [setCall, setM, isActive])))

set_option maxHeartbeats 1600000 in
theorem linv_step {s s' : LSt} {a : LAct} (h : LInv s) (hs : step s a = some s') : LInv s' := by
  obtain ⟨h1, h2, h3, h4⟩ := h
  have h2f := h2 false; have h2t := h2 true
  have h3f := h3 false; have h3t := h3 true
  have h4f := h4 false; have h4t := h4 true
  clear h2 h3 h4
  cases a with
  | start i x =>
    simp only [step] at hs
    split at hs <;> simp at hs; subst hs
    constructor <;> (try intro j) <;> cases i <;> (try cases j) <;> fin
  | fail i e =>
    simp only [step] at hs
    cases hsl : s.slot with
    | none =>
      simp only [hsl] at hs
      split at hs <;> simp at hs <;> subst hs <;>
        (constructor <;> (try intro j) <;> cases i <;> (try cases j) <;> fin)
    | some k =>
      cases k <;> simp only [hsl] at hs <;>
      (split at hs <;> simp at hs <;> subst hs <;>
        (constructor <;> (try intro j) <;> cases i <;> (try cases j) <;> fin))
  | avail x =>
    simp only [step] at hs
    cases hsl : s.slot with
    | none =>
      simp only [hsl] at hs
      (repeat' split at hs) <;> simp at hs <;> subst hs <;>
        (constructor <;> (try intro j) <;> (try cases j) <;> fin)
    | some k =>
      cases k <;> simp only [hsl] at hs <;>
      ((repeat' split at hs) <;> simp at hs <;> subst hs <;>
        (constructor <;> (try intro j) <;> (try cases j) <;> fin))
  | unavail x =>
    simp only [step] at hs
    simp at hs; subst hs
    constructor <;> (try intro j) <;> (try cases j) <;> fin

theorem linv_reach {a : Nat} {s : LSt} (h : Reach a s) : LInv s := by
  induction h with
  | init => exact linv_init a
  | step _ hs ih => exact linv_step ih hs

end XmppModel.MucLive
