import XmppModel.Model.JidXml
import XmppModel.Lemmas.Jid
/-! Helper lemmas for the token-level XML model of C11. -/
namespace XmppModel.Jid
open XmppModel.Xml

theorem strBytes_of_bytesStr {b : Bytes} {s : String} (h : bytesStr? b = some s) : strBytes s = b := by
  unfold bytesStr? String.fromUTF8? at h
  split at h
  · simp only [Option.some.injEq] at h
    subst h
    simp [strBytes, String.toUTF8, String.fromUTF8]
  · simp at h

theorem strBytes_empty : strBytes "" = [] := rfl

/-- the empty string cannot be parsed, given what IDNA does with it (`ToUnicode("") = ""`,
tested by the harness) -/
theorem parse_nil_fails {N : Norm} (g : N.Good) (h0 : N.idna [] = some []) :
    ∀ j, parse N [] ≠ .ok j := by
  intro j h
  have hs : split true [] = .ok ([], [], []) := by rfl
  unfold parse at h
  rw [hs] at h
  obtain ⟨_, _, l', d', r', hd, _⟩ := new_ok_iff.mp h
  obtain ⟨_, _, dne, _, _⟩ := normDomain_clean g hd
  obtain ⟨_, hsh⟩ := normDomain_ok hd
  rcases hsh with ⟨hip, rfl⟩ | ⟨_, _, hidna, _⟩
  · exact dne rfl
  · have : trimDot ([] : Bytes) = [] := rfl
    rw [this, h0] at hidna
    simp only [Option.some.injEq] at hidna
    exact dne hidna.symm

end XmppModel.Jid
