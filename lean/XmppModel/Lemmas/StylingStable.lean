import XmppModel.Lemmas.Styling
/-! Stability of the styling split function under extension of the window (C17). -/
namespace XmppModel.Styling

/-! ### runes -/

theorem table_fullRune : ∀ e ∈ spaceEncs, ∀ n, n < e.length → fullRune (e.take n) = false := by decide
theorem table_high : ∀ e ∈ spaceEncs, ∀ n, n < e.length → ∀ b ∈ e.take n, (0x80 : UInt8) ≤ b := by decide
theorem table_prefix_free : ∀ e ∈ spaceEncs, ∀ e' ∈ spaceEncs, e.isPrefixOf e' = true → e = e' := by decide
theorem table_nonempty : ∀ e ∈ spaceEncs, e ≠ [] := by decide

theorem isPrefixOf_append {e d : Bytes} (x : Bytes) (h : e.isPrefixOf d = true) :
    e.isPrefixOf (d ++ x) = true := by
  rw [List.isPrefixOf_iff_prefix] at h ⊢
  exact h.trans (List.prefix_append d x)

/-- a table entry that matches an extension but not the window itself: the window is a
proper prefix of the entry -/
theorem proper_prefix_of_ext {e d x : Bytes} (h1 : e.isPrefixOf (d ++ x) = true)
    (h2 : e.isPrefixOf d = false) : d.length < e.length ∧ d = e.take d.length := by
  rw [List.isPrefixOf_iff_prefix] at h1
  have h2' : ¬ e <+: d := by rw [← List.isPrefixOf_iff_prefix]; simp [h2]
  have hd : d <+: d ++ x := List.prefix_append d x
  rcases List.prefix_or_prefix_of_prefix h1 hd with h | h
  · exact absurd h h2'
  · have heq := List.prefix_iff_eq_take.mp h
    refine ⟨?_, heq⟩
    have hle := h.length_le
    rcases Nat.lt_or_eq_of_le hle with hlt | he
    · exact hlt
    · exfalso; apply h2'
      have : d = e := by rw [heq, he, List.take_length]
      rw [this]; exact List.prefix_refl e

theorem find_ext (d x : Bytes) {e : Bytes} :
    ∀ (L : List Bytes), (∀ a ∈ L, a ∈ spaceEncs) →
    L.find? (fun a => a.isPrefixOf d) = some e → L.find? (fun a => a.isPrefixOf (d ++ x)) = some e := by
  intro L
  induction L with
  | nil => intro _ h; simp at h
  | cons a L ih =>
    intro hL h
    rw [List.find?_cons] at h ⊢
    cases ha : a.isPrefixOf d with
    | true =>
      rw [ha] at h
      rw [isPrefixOf_append x ha]; exact h
    | false =>
      rw [ha] at h
      have he := List.find?_some h
      have hmem : e ∈ L := List.mem_of_find?_eq_some h
      cases hax : a.isPrefixOf (d ++ x) with
      | false => exact ih (fun b hb => hL b (by simp [hb])) h
      | true =>
        exfalso
        -- both `a` and `e` are prefixes of `d ++ x`, so one is a prefix of the other
        have hex := isPrefixOf_append x he
        rw [List.isPrefixOf_iff_prefix] at hax hex
        have haS := hL a (by simp)
        have heS := hL e (by simp [hmem])
        rcases List.prefix_or_prefix_of_prefix hax hex with h' | h'
        · have := table_prefix_free a haS e heS (List.isPrefixOf_iff_prefix.mpr h')
          subst this; simp [he] at ha
        · have := table_prefix_free e heS a haS (List.isPrefixOf_iff_prefix.mpr h')
          subst this; simp [he] at ha

theorem spaceLen_ext {d : Bytes} (x : Bytes) (h : spaceLen d ≠ 0) : spaceLen (d ++ x) = spaceLen d := by
  unfold spaceLen at h ⊢
  cases hf : spaceEncs.find? (fun e => e.isPrefixOf d) with
  | none => simp [hf] at h
  | some e => rw [find_ext d x spaceEncs (fun a ha => ha) hf]

theorem spaceLen_ext_zero {d : Bytes} (x : Bytes) (h : spaceLen d = 0) (hf : fullRune d = true) :
    spaceLen (d ++ x) = 0 := by
  unfold spaceLen at h ⊢
  cases hfd : spaceEncs.find? (fun e => e.isPrefixOf d) with
  | some e =>
    rw [hfd] at h
    have := table_nonempty e (List.mem_of_find?_eq_some hfd)
    simp at h; exact absurd h this
  | none =>
    cases hfx : spaceEncs.find? (fun e => e.isPrefixOf (d ++ x)) with
    | none => rfl
    | some e =>
      exfalso
      have hmem := List.mem_of_find?_eq_some hfx
      have hex := List.find?_some hfx
      have hed : e.isPrefixOf d = false := by
        have := List.find?_eq_none.mp hfd e hmem
        cases hh : e.isPrefixOf d with
        | false => rfl
        | true => exact absurd hh this
      obtain ⟨hlt, heq⟩ := proper_prefix_of_ext hex hed
      have := table_fullRune e hmem d.length hlt
      rw [← heq, hf] at this
      cases this

theorem nextSpace_ext {d : Bytes} (x : Bytes) (b : UInt8) (hb : b ∈ d) (hlow : b < 0x80) :
    nextSpace (d ++ x) = nextSpace d := by
  unfold nextSpace
  cases h : spaceEncs.any (fun e => e.isPrefixOf d) with
  | true =>
    rw [List.any_eq_true] at h ⊢
    obtain ⟨e, he, hp⟩ := h
    exact ⟨e, he, isPrefixOf_append x hp⟩
  | false =>
    rw [List.any_eq_false] at h ⊢
    intro e he hp
    have hed : e.isPrefixOf d = false := Bool.eq_false_iff.mpr (h e he)
    obtain ⟨hlt, heq⟩ := proper_prefix_of_ext hp hed
    have := table_high e he d.length hlt b (by rw [← heq]; exact hb)
    exact absurd hlow (by simpa [UInt8.not_lt] using this)

theorem fullRuneAux_ext (n : Nat) (lo hi : UInt8) {t : Bytes} (x : Bytes)
    (h : fullRuneAux n lo hi t = true) : fullRuneAux n lo hi (t ++ x) = true := by
  unfold fullRuneAux at h ⊢
  by_cases hc : t.length + 1 ≥ n
  · have : (t ++ x).length + 1 ≥ n := by simp; omega
    rw [if_pos this]
  · simp only [hc, if_false] at h
    by_cases hc' : (t ++ x).length + 1 ≥ n
    · rw [if_pos hc']
    · rw [if_neg hc']
      match t, h with
      | [], h => simp at h
      | [b1], h =>
        simp only [List.cons_append, List.nil_append]
        by_cases h1 : (!inRange lo hi b1) = true
        · rw [if_pos h1]
        · simp [h1] at h
      | b1 :: b2 :: t', h =>
        simp only [List.cons_append]
        exact h

theorem fullRune_ext {d : Bytes} (x : Bytes) (h : fullRune d = true) : fullRune (d ++ x) = true := by
  cases d with
  | nil => simp [fullRune] at h
  | cons b0 t => exact fullRuneAux_ext _ _ _ x h

/-! ### `startsBlockQuote` -/

theorem sbqLoop_ext (e : Bool) (skip l : Nat) (t : Bytes) (x : Bytes) {r : Nat}
    (h : sbqLoop false skip l t = some r) : sbqLoop e skip l (t ++ x) = some r := by
  induction t generalizing skip l with
  | nil => simp [sbqLoop] at h
  | cons b t ih =>
    cases skip with
    | succ k =>
      simp only [sbqLoop, List.cons_append] at h ⊢
      exact ih k (l + 1) h
    | zero =>
      simp only [sbqLoop, List.cons_append] at h ⊢
      by_cases hk : spaceLen (b :: t) = 0
      · simp only [hk, beq_self_eq_true, if_true, Bool.not_false, Bool.true_and] at h
        by_cases hf : fullRune (b :: t) = true
        · have h0 := spaceLen_ext_zero x hk hf
          have hf' := fullRune_ext x hf
          simp only [List.cons_append] at h0 hf'
          simp only [hf, Bool.not_true, Bool.false_eq_true, if_false] at h
          simp [h0, hf', h]
        · simp [hf] at h
      · have hk' := spaceLen_ext x hk
        simp only [List.cons_append] at hk'
        have hb : (spaceLen (b :: t) == 0) = false := by simpa using hk
        simp only [hb, Bool.false_eq_true, if_false] at h
        simp only [hk', hb, Bool.false_eq_true, if_false]
        exact ih _ _ h

theorem startsBlockQuote_ext {d : Bytes} (x : Bytes) (e : Bool) {l : Nat} (hne : d ≠ [])
    (h : startsBlockQuote d false = some l) : startsBlockQuote (d ++ x) e = some l := by
  cases d with
  | nil => exact absurd rfl hne
  | cons b t =>
    simp only [startsBlockQuote, List.cons_append] at h ⊢
    split at h
    · rename_i hb; rw [if_pos hb]; exact sbqLoop_ext e 0 1 t x h
    · rename_i hb; rw [if_neg hb]; exact h

/-! ### `scanPre` -/

theorem indexNl_append {d : Bytes} (x : Bytes) {k : Nat} (h : indexNl d = some k) :
    indexNl (d ++ x) = some k := by
  induction d generalizing k with
  | nil => simp [indexNl] at h
  | cons b t ih =>
    simp only [indexNl, List.cons_append] at h ⊢
    split
    · simp_all
    · rename_i hb
      rw [if_neg hb] at h
      cases hj : indexNl t with
      | none => simp [hj] at h
      | some j => simp [hj] at h; subst h; simp [ih hj]

theorem indexNl_fence : indexNl fence = none := by decide

theorem isPrefixOf_of_append {e d x : Bytes} (h : e.isPrefixOf (d ++ x) = true) (hl : e.length ≤ d.length) :
    e.isPrefixOf d = true := by
  rw [List.isPrefixOf_iff_prefix] at h ⊢
  exact List.prefix_of_prefix_length_le h (List.prefix_append d x) hl

theorem take_append_le {d x : Bytes} {n : Nat} (h : n ≤ d.length) : (d ++ x).take n = d.take n := by
  rw [List.take_append_of_le_length h]

theorem scanPre_tok_ext (lv : Level) {d : Bytes} (x : Bytes) (e : Bool) {a : Nat} {t : Bytes} {lv' : Level}
    (h : scanPre lv d false = (.tok a t, lv')) : scanPre lv (d ++ x) e = (.tok a t, lv') := by
  cases hnl : indexNl d with
  | none =>
    exfalso
    unfold scanPre at h
    simp only [hnl] at h
    split at h
    · cases h
    · split at h
      · rename_i h2; simp at h2
      · simp at h
  | some k =>
    have hk := indexNl_lt hnl
    have hnl' := indexNl_append x hnl
    by_cases hc : fence.isPrefixOf d = true ∧ k = 3
    · obtain ⟨hfp, rfl⟩ := hc
      have hfp' := isPrefixOf_append x hfp
      unfold scanPre at h ⊢
      simp only [hnl, hnl', hfp, hfp', fence_length] at h ⊢
      have h1 : (d.length == 3) = false := by simp; omega
      have h2 : ((d ++ x).length == 3) = false := by simp; omega
      simp only [h1, h2, Bool.and_false, Bool.false_eq_true, if_false, beq_self_eq_true, Bool.or_true,
        Bool.and_true, if_true, Bool.true_and] at h ⊢
      rw [take_append_le (by omega)]
      exact h
    · unfold scanPre at h ⊢
      simp only [hnl, hnl', fence_length] at h ⊢
      -- the first call did not take the first two branches
      split at h
      · cases h
      · rename_i hc1
        split at h
        · rename_i hc2
          exfalso; apply hc
          simp only [Bool.and_eq_true, Bool.or_eq_true, beq_iff_eq, Option.some.injEq] at hc2
          refine ⟨hc2.1, ?_⟩
          rcases hc2.2 with h' | h'
          · simp at h'
          · exact h'
        · -- the line token
          have hn1 : ¬((fence.isPrefixOf (d ++ x) && !e && (d ++ x).length == 3) = true) := by
            intro hh
            simp only [Bool.and_eq_true, beq_iff_eq] at hh
            obtain ⟨⟨hp, _⟩, hl⟩ := hh
            rw [List.isPrefixOf_iff_prefix] at hp
            have := hp.eq_of_length (by simp [hl])
            rw [← this, indexNl_fence] at hnl'
            cases hnl'
          have hn2 : ¬((fence.isPrefixOf (d ++ x) && (e && (some k : Option Nat).isNone || some k == some 3)) = true) := by
            intro hh
            simp only [Bool.and_eq_true, Bool.or_eq_true, beq_iff_eq, Option.some.injEq, Option.isNone_some,
              Bool.and_false, Bool.false_eq_true, false_or] at hh
            obtain ⟨hp, rfl⟩ := hh
            exact hc ⟨isPrefixOf_of_append hp (by simp; omega), rfl⟩
          rw [if_neg hn1, if_neg hn2]
          rw [take_append_le (by omega)]
          exact h

theorem scanPre_more (lv : Level) {d : Bytes} {e : Bool} {lv' : Level}
    (h : scanPre lv d e = (.more, lv')) : lv' = lv := by
  unfold scanPre at h
  simp only [] at h
  split at h
  · cases h; rfl
  · split at h
    · cases h
    · split at h
      · cases h
      · split at h <;> cases h; rfl
/-! ### `scanSpan` -/

/-- outcome of one iteration of the `scanSpan` loop -/
inductive StepRes
  | line | closeTok | innerTok | plainTok (s : Nat) | openTok
  | cont (sidx : Option Nat) (sdir : UInt8)

/-- one iteration of the loop as a function of the byte, the loop variables, and the two
look-ahead facts (`isSpace(nextRune)`, `data[i+1] == b`) -/
def spanStep (lv : Level) (i : Nat) (rpre : Bytes) (sidx : Option Nat) (sdir : UInt8) (b : UInt8)
    (nSpace nextIsB : Bool) : StepRes :=
  if b == nl then .line
  else if !isDirective b then .cont sidx sdir
  else
    if lv.spanStack.head? == some b then (if i == 0 then .closeTok else .innerTok)
    else if sidx.isNone && (lv.mask &&& SpanPre == 0) then
      if (i == 0 || prevSpace rpre) && !nSpace then (if nextIsB then .cont sidx sdir else .cont (some i) b)
      else .cont sidx sdir
    else if b == sdir && !prevSpace rpre &&
        (match sidx with | none => decide (i > 0) | some s => decide (i > s + 1)) then
      match sidx with
      | some (s + 1) => .plainTok s
      | _ => .openTok
    else .cont sidx sdir

def renderStep (data : Bytes) (lv : Level) (i : Nat) (b : UInt8) (k : Option Nat → UInt8 → Out × Level) :
    StepRes → Out × Level
  | .line => (.tok (i + 1) (data.take (i + 1)), lv)
  | .closeTok => (.tok 1 (data.take 1), closeSpan lv b)
  | .innerTok => (.tok i (data.take i), lv)
  | .plainTok s => (.tok (s + 1) (data.take (s + 1)), lv)
  | .openTok => (.tok 1 (data.take 1), openSpan lv b)
  | .cont s d => k s d

theorem spanLoop_cons (data : Bytes) (atEOF : Bool) (lv : Level) (i : Nat) (rpre : Bytes)
    (sidx : Option Nat) (sdir : UInt8) (b : UInt8) (rest : Bytes) :
    spanLoop data atEOF lv i rpre sidx sdir (b :: rest) =
      renderStep data lv i b (fun s d => spanLoop data atEOF lv (i + 1) (b :: rpre) s d rest)
        (spanStep lv i rpre sidx sdir b (nextSpace rest) (rest.head? == some b)) := by
  conv => lhs; unfold spanLoop
  unfold spanStep
  simp only []
  repeat' split
  all_goals (try rfl)
  all_goals (simp_all [renderStep])

theorem isDirective_cases' {b : UInt8} (h : isDirective b = true) :
    b = star ∨ b = under ∨ b = tick ∨ b = tilde := by
  simpa [isDirective, or_assoc] using h

def StepRes.isCont : StepRes → Bool
  | .cont _ _ => true
  | _ => false

/-- a returning iteration does not depend on the look-ahead -/
theorem spanStep_lookahead (lv : Level) (i : Nat) (rpre : Bytes) (sidx : Option Nat) (sdir b : UInt8)
    (n1 m1 n2 m2 : Bool) (h : (spanStep lv i rpre sidx sdir b n1 m1).isCont = false) :
    spanStep lv i rpre sidx sdir b n2 m2 = spanStep lv i rpre sidx sdir b n1 m1 := by
  unfold spanStep at h ⊢
  repeat' split
  all_goals (first | rfl | simp_all [StepRes.isCont])

/-- bytes that are neither a newline nor a styling directive -/
def Plain (r : Bytes) : Prop := ∀ b ∈ r, (b == nl) = false ∧ isDirective b = false

theorem spanLoop_plain (data : Bytes) (lv : Level) (rest : Bytes) (hp : Plain rest) :
    ∀ i rpre sidx sdir, spanLoop data false lv i rpre sidx sdir rest = (.more, lv) := by
  induction rest with
  | nil => intro i rpre sidx sdir; simp [spanLoop]
  | cons b rest ih =>
    intro i rpre sidx sdir
    have hb := hp b (by simp)
    rw [spanLoop_cons]
    have : spanStep lv i rpre sidx sdir b (nextSpace rest) (rest.head? == some b) = .cont sidx sdir := by
      unfold spanStep; simp [hb.1, hb.2]
    rw [this]
    exact ih (fun c hc => hp c (by simp [hc])) _ _ _ _

theorem not_plain_low {r : Bytes} (h : ¬Plain r) : ∃ b ∈ r, b < 0x80 := by
  unfold Plain at h
  have h' : ∃ b, b ∈ r ∧ ¬((b == nl) = false ∧ isDirective b = false) := by
    apply Classical.byContradiction
    intro hne
    apply h
    intro b hb
    apply Classical.byContradiction
    intro hc
    exact hne ⟨b, hb, hc⟩
  obtain ⟨b, hb, hn⟩ := h'
  refine ⟨b, hb, ?_⟩
  by_cases h1 : (b == nl) = true
  · have : b = nl := by simpa using h1
    subst this; decide
  · have h2 : isDirective b = true := by
      cases hd : isDirective b with
      | true => rfl
      | false => exact absurd ⟨by simpa using h1, hd⟩ hn
    rcases isDirective_cases' h2 with rfl | rfl | rfl | rfl <;> decide


theorem renderStep_ext (data x : Bytes) (lv : Level) (i : Nat) (b : UInt8)
    (k1 k2 : Option Nat → UInt8 → Out × Level) (st : StepRes) (hc : st.isCont = false)
    {a : Nat} {t : Bytes} {lv' : Level} (ha : a ≤ data.length)
    (h : renderStep data lv i b k1 st = (.tok a t, lv')) :
    renderStep (data ++ x) lv i b k2 st = (.tok a t, lv') := by
  cases st with
  | cont s d => simp [StepRes.isCont] at hc
  | line | closeTok | innerTok | plainTok _ | openTok =>
    simp only [renderStep, Prod.mk.injEq, Out.tok.injEq] at h ⊢
    obtain ⟨⟨rfl, rfl⟩, rfl⟩ := h
    exact ⟨⟨rfl, take_append_le ha⟩, rfl⟩

theorem spanLoop_tok_ext (data x : Bytes) (e : Bool) (lv : Level) (hne : 0 < data.length)
    {a : Nat} {t : Bytes} {lv' : Level} :
    ∀ (rest : Bytes) (i : Nat) (rpre : Bytes) (sidx : Option Nat) (sdir : UInt8),
      i + rest.length = data.length →
      spanLoop data false lv i rpre sidx sdir rest = (.tok a t, lv') →
      spanLoop (data ++ x) e lv i rpre sidx sdir (rest ++ x) = (.tok a t, lv') := by
  intro rest
  induction rest with
  | nil => intro i rpre sidx sdir _ h; simp [spanLoop] at h
  | cons b rest ih =>
    intro i rpre sidx sdir hlen h
    have hgood := spanLoop_good data false lv i rpre sidx sdir (b :: rest) hlen hne
    rw [h] at hgood
    have ha : a ≤ data.length := hgood.2.1
    rw [spanLoop_cons] at h
    rw [List.cons_append, spanLoop_cons]
    by_cases hp : Plain rest
    · -- nothing decisive follows in the window: the first call can only have returned at `b`
      have hk : ∀ s d, spanLoop data false lv (i + 1) (b :: rpre) s d rest = (.more, lv) :=
        fun s d => spanLoop_plain data lv rest hp _ _ _ _
      have hc : (spanStep lv i rpre sidx sdir b (nextSpace rest) (rest.head? == some b)).isCont = false := by
        cases hst : spanStep lv i rpre sidx sdir b (nextSpace rest) (rest.head? == some b) with
        | cont s d => rw [hst] at h; simp [renderStep, hk] at h
        | _ => rfl
      rw [spanStep_lookahead lv i rpre sidx sdir b _ _ (nextSpace (rest ++ x)) ((rest ++ x).head? == some b) hc]
      exact renderStep_ext data x lv i b _ _ _ hc ha h
    · obtain ⟨c, hcm, hlow⟩ := not_plain_low hp
      have h1 : nextSpace (rest ++ x) = nextSpace rest := nextSpace_ext x c hcm hlow
      have h2 : (rest ++ x).head? = rest.head? := by
        cases rest with
        | nil => simp at hcm
        | cons _ _ => rfl
      rw [h1, h2]
      cases hst : spanStep lv i rpre sidx sdir b (nextSpace rest) (rest.head? == some b) with
      | cont s d =>
        rw [hst] at h
        simp only [renderStep] at h ⊢
        exact ih (i + 1) (b :: rpre) s d (by simp at hlen ⊢; omega) h
      | line | closeTok | innerTok | plainTok _ | openTok =>
        rw [hst] at h
        exact renderStep_ext data x lv i b _ _ _ rfl ha h

theorem spanLoop_more (data : Bytes) (e : Bool) (lv : Level) {lv' : Level} :
    ∀ (rest : Bytes) (i : Nat) (rpre : Bytes) (sidx : Option Nat) (sdir : UInt8),
      spanLoop data e lv i rpre sidx sdir rest = (.more, lv') → lv' = lv := by
  intro rest
  induction rest with
  | nil =>
    intro i rpre sidx sdir h
    simp only [spanLoop] at h
    split at h <;> cases h; rfl
  | cons b rest ih =>
    intro i rpre sidx sdir h
    rw [spanLoop_cons] at h
    cases hst : spanStep lv i rpre sidx sdir b (nextSpace rest) (rest.head? == some b) with
    | cont s d => rw [hst] at h; exact ih _ _ _ _ h
    | line | closeTok | innerTok | plainTok _ | openTok => rw [hst] at h; simp [renderStep] at h

theorem scanSpan_tok_ext (lv : Level) {d : Bytes} (x : Bytes) (e : Bool) (hne : d ≠ [])
    {a : Nat} {t : Bytes} {lv' : Level} (h : scanSpan lv d false = (.tok a t, lv')) :
    scanSpan lv (d ++ x) e = (.tok a t, lv') :=
  spanLoop_tok_ext d x e lv (List.length_pos_iff.mpr hne) d 0 [] none 0 (by simp) h

theorem scanSpan_more (lv : Level) {d : Bytes} {e : Bool} {lv' : Level}
    (h : scanSpan lv d e = (.more, lv')) : lv' = lv :=
  spanLoop_more d e lv d 0 [] none 0 h

/-! ### block start -/

theorem scanSpan_ticks (lv : Level) (hs : lv.spanStack = []) (d : Bytes) (hd : d = [tick] ∨ d = [tick, tick]) :
    (scanSpan lv d false).1 = .more := by
  have hn1 : nextSpace [96] = false := by decide
  have hn0 : nextSpace [] = false := by decide
  have hp1 : prevSpace [96] = false := by decide
  have hp0 : prevSpace [] = false := by decide
  rcases hd with rfl | rfl
  · unfold scanSpan
    rw [spanLoop_cons]
    unfold spanStep
    by_cases hm : lv.mask &&& SpanPre = 0#32 <;>
      simp [hs, hn0, hp0, hm, renderStep, spanLoop, tick, nl, isDirective, star, under, tilde]
  · unfold scanSpan
    rw [spanLoop_cons]
    unfold spanStep
    by_cases hm : lv.mask &&& SpanPre = 0#32 <;>
      simp [hs, hn1, hp0, hm, renderStep, tick, nl, isDirective, star, under, tilde] <;>
      (rw [spanLoop_cons]; unfold spanStep; simp [hs, hm, hn0, hp1, renderStep, spanLoop, tick, nl, isDirective, star, under, tilde])

theorem fence_prefix_short {d x : Bytes} (hne : d ≠ []) (h1 : fence.isPrefixOf d = false)
    (h2 : fence.isPrefixOf (d ++ x) = true) : d = [tick] ∨ d = [tick, tick] := by
  match d, hne with
  | [b0], _ =>
    simp [fence, List.isPrefixOf] at h2
    left; rw [← h2.1]
  | [b0, b1], _ =>
    simp [fence, List.isPrefixOf] at h2
    right; rw [← h2.1, ← h2.2.1]
  | b0 :: b1 :: b2 :: t, _ =>
    simp [fence, List.isPrefixOf] at h1 h2
    exact absurd h2.2.2 (h1 h2.1 h2.2.1)

theorem scanBlock_tok_ext (lv : Level) (hs : lv.spanStack = []) {d : Bytes} (x : Bytes) (e : Bool)
    (hne : d ≠ []) {a : Nat} {t : Bytes} {lv' : Level}
    (h : scanBlock lv d false = (.tok a t, lv')) : scanBlock lv (d ++ x) e = (.tok a t, lv') := by
  unfold scanBlock at h ⊢
  simp only [] at h ⊢
  cases hf : fence.isPrefixOf d with
  | true =>
    rw [hf] at h
    rw [isPrefixOf_append x hf]
    simp only [if_true] at h ⊢
    cases hnl : indexNl d with
    | none => rw [hnl] at h; simp at h
    | some k =>
      have hk := indexNl_lt hnl
      rw [hnl] at h
      rw [indexNl_append x hnl]
      simp only [] at h ⊢
      rw [take_append_le (by omega)]
      exact h
  | false =>
    rw [hf] at h
    simp only [Bool.false_eq_true, if_false] at h
    cases hf' : fence.isPrefixOf (d ++ x) with
    | false =>
      simp only [Bool.false_eq_true, if_false]
      exact scanSpan_tok_ext _ x e hne h
    | true =>
      exfalso
      have := scanSpan_ticks { lv with hasRun := true } hs d (fence_prefix_short hne hf hf')
      rw [h] at this
      cases this

theorem scanBlock_more (lv : Level) {d : Bytes} {e : Bool} {lv' : Level}
    (h : scanBlock lv d e = (.more, lv')) : lv' = { lv with hasRun := true } := by
  unfold scanBlock at h
  simp only [] at h
  split at h
  · split at h
    · cases h
    · split at h <;> cases h; rfl
  · exact scanSpan_more _ h

/-! ### normal forms of the decoder state -/

theorem resetLevel_idem (q : Level) : resetLevel (resetLevel q) = resetLevel q := rfl

theorem map_reset_idem (l : List Level) : (l.map resetLevel).map resetLevel = l.map resetLevel := by
  simp [List.map_map, Function.comp_def, resetLevel]

/-- a decoder as `scan` leaves it when it asks for more data: nothing pending at entry -/
def Normal (y : Level) : Prop := y.lastNewline = false ∧ y.clearMask = 0

theorem normLevel_normal (y : Level) : Normal (normLevel y) := by
  unfold normLevel Normal
  split <;> simp_all

theorem entryLv_normal (reset : Bool) (lv : Level) : Normal (entryLv reset lv) := normLevel_normal _

theorem andNot_zero (m : Style) : andNot m 0 = m := by
  unfold andNot
  show m &&& ~~~(0#32) = m
  rw [BitVec.not_zero, BitVec.and_allOnes]

theorem normLevel_of_normal {y : Level} (h : Normal y) : normLevel y = y := by
  obtain ⟨h1, h2⟩ := h
  unfold normLevel
  simp only [h1, Bool.false_eq_true, if_false, h2, andNot_zero]
  cases y
  simp_all

theorem entryLv_of_normal {y : Level} (h : Normal y) : entryLv false y = y := by
  unfold entryLv; simp [normLevel_of_normal h]

theorem entryInner_of_normal {y : Level} (h : Normal y) (inner : List Level) :
    entryInner false y inner = inner := by
  unfold entryInner entryRs; simp [h.1]

theorem entryRs_of_normal {y : Level} (h : Normal y) : entryRs false y = false := by
  unfold entryRs; simp [h.1]


theorem entryLv_reset (q : Level) : entryLv false (resetLevel q) = entryLv true q := by
  unfold entryLv; simp

theorem entryInner_reset (q : Level) (qs : List Level) :
    entryInner false (resetLevel q) (qs.map resetLevel) = entryInner true q qs := by
  unfold entryInner entryRs
  simp only [Bool.false_or, Bool.true_or, if_true, Bool.false_eq_true, if_false]
  split
  · exact map_reset_idem qs
  · rfl

/-- a call whose chain has just been reset by the caller equals the call on the reset chain -/
theorem scanLv_reset_norm (D : Bytes) (E : Bool) (qs : List Level) (q : Level) :
    scanLv D E true q qs = scanLv D E false (resetLevel q) (qs.map resetLevel) := by
  have hr := scanLv_rel D E true q qs
  generalize hres : scanLv D E true q qs = r at hr
  symm
  apply scanRel_eq
  cases hr with
  | early _ _ _ h =>
    have := ScanRel.early (data := D) (atEOF := E) false (resetLevel q) (qs.map resetLevel) h
    simpa using this
  | span _ _ _ h hs =>
    have := ScanRel.span (data := D) (atEOF := E) false (resetLevel q) (qs.map resetLevel) h
      (by rw [entryLv_reset]; exact hs)
    rw [entryLv_reset, entryInner_reset] at this
    exact this
  | pre _ _ _ h hs hp =>
    have := ScanRel.pre (data := D) (atEOF := E) false (resetLevel q) (qs.map resetLevel) h
      (by rw [entryLv_reset]; exact hs) (by rw [entryLv_reset]; exact hp)
    rw [entryLv_reset, entryInner_reset] at this
    exact this
  | needMore _ _ _ h hs hp hq =>
    have := ScanRel.needMore (data := D) (atEOF := E) false (resetLevel q) (qs.map resetLevel) h
      (by rw [entryLv_reset]; exact hs) (by rw [entryLv_reset]; exact hp) hq
    rw [entryLv_reset, entryInner_reset] at this
    exact this
  | quoteStart _ _ _ l h hs hp hq hl hst =>
    have := ScanRel.quoteStart (data := D) (atEOF := E) false (resetLevel q) (qs.map resetLevel) l h
      (by rw [entryLv_reset]; exact hs) (by rw [entryLv_reset]; exact hp) hq hl
      (by rw [entryLv_reset]; exact hst)
    rw [entryLv_reset, entryInner_reset] at this
    exact this
  | nilPanic _ _ l h hs hp hq hst hl =>
    have := ScanRel.nilPanic (data := D) (atEOF := E) false (resetLevel q) l h
      (by rw [entryLv_reset]; exact hs) (by rw [entryLv_reset]; exact hp) hq
      (by rw [entryLv_reset]; exact hst) hl
    rw [entryLv_reset] at this
    exact this
  | delegate _ _ q2 qs2 l r0 h hs hp hq hst hr0 =>
    have hr0e : r0 = scanLv D E true q2 qs2 := by
      have := scanRel_eq hr0
      simp only [entryRs, Bool.true_or] at this
      exact this.symm
    have hnew : scanLv D E (entryRs false (resetLevel q)) (resetLevel q2) (qs2.map resetLevel) = r0 := by
      rw [hr0e, scanLv_reset_norm D E qs2 q2]
      cases hrs : entryRs false (resetLevel q) with
      | false => rfl
      | true =>
        rw [scanLv_reset_norm D E (qs2.map resetLevel) (resetLevel q2), map_reset_idem, resetLevel_idem]
    have hrel := scanLv_rel D E (entryRs false (resetLevel q)) (resetLevel q2) (qs2.map resetLevel)
    rw [hnew] at hrel
    have := ScanRel.delegate (data := D) (atEOF := E) false (resetLevel q) (resetLevel q2) (qs2.map resetLevel) l r0 h
      (by rw [entryLv_reset]; exact hs) (by rw [entryLv_reset]; exact hp) hq
      (by rw [entryLv_reset]; exact hst) hrel
    rw [entryLv_reset] at this
    simpa using this
  | block _ _ _ h hs hp hq hst =>
    have := ScanRel.block (data := D) (atEOF := E) false (resetLevel q) (qs.map resetLevel) h
      (by rw [entryLv_reset]; exact hs) (by rw [entryLv_reset]; exact hp) hq
      (by rw [entryLv_reset]; intro hh; simp [hst hh])
    rw [entryLv_reset] at this
    exact this
termination_by qs.length
decreasing_by
  all_goals simp_wf
  all_goals (subst_vars; simp)


/-- the entry steps of `scan` are idempotent: calling `scan` on the state they produce is
calling it on the original state -/
theorem scanLv_entry_norm (D : Bytes) (E reset : Bool) (lv : Level) (inner : List Level)
    (hne : ¬(E && D.isEmpty) = true) :
    scanLv D E false (entryLv reset lv) (entryInner reset lv inner) = scanLv D E reset lv inner := by
  have hN := entryLv_normal reset lv
  have e1 := entryLv_of_normal hN
  have e2 := fun l => entryInner_of_normal hN l
  have e3 := entryRs_of_normal hN
  have hr := scanLv_rel D E reset lv inner
  generalize hres : scanLv D E reset lv inner = r at hr
  apply scanRel_eq
  cases hr with
  | early _ _ _ h => exact absurd h hne
  | span _ _ _ h hs =>
    have := ScanRel.span (data := D) (atEOF := E) false (entryLv reset lv) (entryInner reset lv inner) h
      (by rw [e1]; exact hs)
    rw [e1, e2] at this
    exact this
  | pre _ _ _ h hs hp =>
    have := ScanRel.pre (data := D) (atEOF := E) false (entryLv reset lv) (entryInner reset lv inner) h
      (by rw [e1]; exact hs) (by rw [e1]; exact hp)
    rw [e1, e2] at this
    exact this
  | needMore _ _ _ h hs hp hq =>
    have := ScanRel.needMore (data := D) (atEOF := E) false (entryLv reset lv) (entryInner reset lv inner) h
      (by rw [e1]; exact hs) (by rw [e1]; exact hp) hq
    rw [e1, e2] at this
    exact this
  | quoteStart _ _ _ l h hs hp hq hl hst =>
    have := ScanRel.quoteStart (data := D) (atEOF := E) false (entryLv reset lv) (entryInner reset lv inner) l h
      (by rw [e1]; exact hs) (by rw [e1]; exact hp) hq hl (by rw [e1]; exact hst)
    rw [e1, e2] at this
    exact this
  | nilPanic _ _ l h hs hp hq hst hl =>
    have := ScanRel.nilPanic (data := D) (atEOF := E) false (entryLv reset lv) l h
      (by rw [e1]; exact hs) (by rw [e1]; exact hp) hq (by rw [e1]; exact hst) hl
    rw [e1] at this
    have hi : entryInner reset lv [] = [] := by unfold entryInner; split <;> rfl
    rw [hi]
    exact this
  | delegate _ _ q2 qs2 l r0 h hs hp hq hst hr0 =>
    have hr0e := scanRel_eq hr0
    cases hrs : entryRs reset lv with
    | false =>
      have hi : entryInner reset lv (q2 :: qs2) = q2 :: qs2 := by unfold entryInner; simp [hrs]
      rw [hi]
      rw [hrs] at hr0
      have := ScanRel.delegate (data := D) (atEOF := E) false (entryLv reset lv) q2 qs2 l r0 h
        (by rw [e1]; exact hs) (by rw [e1]; exact hp) hq (by rw [e1]; exact hst) (by rw [e3]; exact hr0)
      rw [e1] at this
      exact this
    | true =>
      have hi : entryInner reset lv (q2 :: qs2) = resetLevel q2 :: qs2.map resetLevel := by
        unfold entryInner; simp [hrs]
      rw [hi]
      rw [hrs] at hr0e
      have hrel := scanLv_rel D E false (resetLevel q2) (qs2.map resetLevel)
      rw [← scanLv_reset_norm, hr0e] at hrel
      have := ScanRel.delegate (data := D) (atEOF := E) false (entryLv reset lv) (resetLevel q2)
        (qs2.map resetLevel) l r0 h
        (by rw [e1]; exact hs) (by rw [e1]; exact hp) hq (by rw [e1]; exact hst) (by rw [e3]; exact hrel)
      rw [e1] at this
      exact this
  | block _ _ _ h hs hp hq hst =>
    have := ScanRel.block (data := D) (atEOF := E) false (entryLv reset lv) (entryInner reset lv inner) h
      (by rw [e1]; exact hs) (by rw [e1]; exact hp) hq
      (by rw [e1]; intro hh; rw [hst hh]; unfold entryInner; split <;> rfl)
    rw [e1] at this
    exact this

/-! ### `scan` -/

theorem not_early {d x : Bytes} (e : Bool) (hne : d ≠ []) : ¬(e && (d ++ x).isEmpty) = true := by
  cases d with
  | nil => exact absurd rfl hne
  | cons _ _ => simp

theorem finish_more (lv : Level) (inner : List Level) : finish (.more, lv, inner) = (.more, lv, inner) := rfl

/-- a token decided on a non-final window is the decision on every extension -/
theorem scanLv_tok_ext {d : Bytes} (x : Bytes) (e : Bool) (hne : d ≠ [])
    {reset : Bool} {lv : Level} {inner : List Level} {r : Out × Level × List Level}
    (hr : ScanRel d false reset lv inner r) {a : Nat} {t : Bytes} (ht : r.1 = .tok a t) :
    scanLv (d ++ x) e reset lv inner = r := by
  have hE := not_early (x := x) e hne
  induction hr generalizing a t with
  | early _ _ _ h => simp at h
  | span reset lv00 inner0 h hs =>
    rw [finish_fst] at ht
    have hsp : scanSpan (entryLv reset lv00) d false = (.tok a t, (scanSpan (entryLv reset lv00) d false).2) := by
      rw [← ht]
    have hx := scanSpan_tok_ext _ x e hne hsp
    have := ScanRel.span (data := d ++ x) (atEOF := e) reset lv00 inner0 hE hs
    rw [hx] at this
    rw [scanRel_eq this, ← ht]
  | pre reset lv00 inner0 h hs hp =>
    rw [finish_fst] at ht
    have hsp : scanPre { entryLv reset lv00 with hasRun := true } d false =
        (.tok a t, (scanPre { entryLv reset lv00 with hasRun := true } d false).2) := by
      rw [← ht]
    have hx := scanPre_tok_ext _ x e hsp
    have := ScanRel.pre (data := d ++ x) (atEOF := e) reset lv00 inner0 hE hs hp
    rw [hx] at this
    rw [scanRel_eq this, ← ht]
  | needMore _ _ _ h hs hp hq => cases ht
  | quoteStart reset lv00 inner0 l h hs hp hq hl hst =>
    have := ScanRel.quoteStart (data := d ++ x) (atEOF := e) reset lv00 inner0 l hE hs hp
      (startsBlockQuote_ext x e hne hq) hl hst
    rw [take_append_le (startsBlockQuote_bound hq)] at this
    exact scanRel_eq this
  | nilPanic _ _ l h hs hp hq hst hl => cases ht
  | delegate reset lv00 q qs l r0 h hs hp hq hst hr0 ih =>
    rw [finish_fst] at ht
    have hin := ih ht
    have hrel := scanLv_rel (d ++ x) e (entryRs reset lv00) q qs
    rw [hin] at hrel
    exact scanRel_eq (ScanRel.delegate (data := d ++ x) (atEOF := e) reset lv00 q qs l r0 hE hs hp
      (startsBlockQuote_ext x e hne hq) hst hrel)
  | block reset lv00 inner0 h hs hp hq hst =>
    rw [finish_fst] at ht
    have hsp : scanBlock (entryLv reset lv00) d false = (.tok a t, (scanBlock (entryLv reset lv00) d false).2) := by
      rw [← ht]
    have hx := scanBlock_tok_ext _ (by simpa using hs) x e hne hsp
    have := ScanRel.block (data := d ++ x) (atEOF := e) reset lv00 inner0 hE hs hp
      (startsBlockQuote_ext x e hne hq) hst
    rw [hx] at this
    rw [scanRel_eq this, ← ht]


theorem scanBlock_hasRun (lv : Level) (D : Bytes) (E : Bool) :
    scanBlock { lv with hasRun := true } D E = scanBlock lv D E := rfl

/-- a call that asks for more data leaves a state from which the next call (on an
extension of the window) behaves as from the original state -/
theorem scanLv_more_ext {d : Bytes} (x : Bytes) (e : Bool) (hne : d ≠ [])
    {reset : Bool} {lv : Level} {inner : List Level} {r : Out × Level × List Level}
    (hr : ScanRel d false reset lv inner r) (hm : r.1 = .more) :
    scanLv (d ++ x) e false r.2.1 r.2.2 = scanLv (d ++ x) e reset lv inner := by
  have hE := not_early (x := x) e hne
  induction hr with
  | early _ _ _ h => simp at h
  | span reset lv00 inner0 h hs =>
    rw [finish_fst] at hm
    have hm' : (scanSpan (entryLv reset lv00) d false).1 = .more := hm
    have hst : (scanSpan (entryLv reset lv00) d false).2 = entryLv reset lv00 :=
      scanSpan_more _ (by rw [← hm'])
    rw [hm', hst, finish_more]
    exact scanLv_entry_norm _ _ _ _ _ hE
  | pre reset lv00 inner0 h hs hp =>
    rw [finish_fst] at hm
    have hm' : (scanPre { entryLv reset lv00 with hasRun := true } d false).1 = .more := hm
    have hst : (scanPre { entryLv reset lv00 with hasRun := true } d false).2 =
        { entryLv reset lv00 with hasRun := true } := scanPre_more _ (by rw [← hm'])
    rw [hm', hst, finish_more]
    show scanLv (d ++ x) e false { entryLv reset lv00 with hasRun := true } (entryInner reset lv00 inner0) = _
    have hN : Normal { entryLv reset lv00 with hasRun := true } := entryLv_normal reset lv00
    have e1 := entryLv_of_normal hN
    have e2 := entryInner_of_normal hN (entryInner reset lv00 inner0)
    have h1 := ScanRel.pre (data := d ++ x) (atEOF := e) false { entryLv reset lv00 with hasRun := true }
      (entryInner reset lv00 inner0) hE (by rw [e1]; exact hs) (by rw [e1]; exact hp)
    rw [e1, e2] at h1
    have h2 := ScanRel.pre (data := d ++ x) (atEOF := e) reset lv00 inner0 hE hs hp
    rw [scanRel_eq h1, scanRel_eq h2]
  | needMore reset lv00 inner0 h hs hp hq => exact scanLv_entry_norm _ _ _ _ _ hE
  | quoteStart _ _ _ l h hs hp hq hl hst => rw [finish_fst] at hm; cases hm
  | nilPanic _ _ l h hs hp hq hst hl => cases hm
  | delegate reset lv00 q qs l r0 h hs hp hq hst hr0 ih =>
    rw [finish_fst] at hm
    have hm' : r0.1 = .more := hm
    have hin := ih hm'
    rw [hm', finish_more]
    show scanLv (d ++ x) e false (entryLv reset lv00) (r0.2.1 :: r0.2.2) = _
    have hN := entryLv_normal reset lv00
    have e1 := entryLv_of_normal hN
    have e3 := entryRs_of_normal hN
    have hq' := startsBlockQuote_ext x e hne hq
    have hrel1 := scanLv_rel (d ++ x) e false r0.2.1 r0.2.2
    have h1 := ScanRel.delegate (data := d ++ x) (atEOF := e) false (entryLv reset lv00) r0.2.1 r0.2.2 l _ hE
      (by rw [e1]; exact hs) (by rw [e1]; exact hp) hq' (by rw [e1]; exact hst) (by rw [e3]; exact hrel1)
    rw [e1] at h1
    have hrel2 := scanLv_rel (d ++ x) e (entryRs reset lv00) q qs
    have h2 := ScanRel.delegate (data := d ++ x) (atEOF := e) reset lv00 q qs l _ hE hs hp hq' hst hrel2
    rw [scanRel_eq h1, scanRel_eq h2, hin]
  | block reset lv00 inner0 h hs hp hq hst =>
    rw [finish_fst] at hm
    have hm' : (scanBlock (entryLv reset lv00) d false).1 = .more := hm
    have hsb : (scanBlock (entryLv reset lv00) d false).2 = { entryLv reset lv00 with hasRun := true } :=
      scanBlock_more _ (by rw [← hm'])
    rw [hm', hsb, finish_more]
    show scanLv (d ++ x) e false { entryLv reset lv00 with hasRun := true } [] = _
    have hN : Normal { entryLv reset lv00 with hasRun := true } := entryLv_normal reset lv00
    have e1 := entryLv_of_normal hN
    have hq' := startsBlockQuote_ext x e hne hq
    have h1 := ScanRel.block (data := d ++ x) (atEOF := e) false { entryLv reset lv00 with hasRun := true } []
      hE (by rw [e1]; exact hs) (by rw [e1]; exact hp) hq' (fun _ => rfl)
    rw [e1, scanBlock_hasRun] at h1
    have h2 := ScanRel.block (data := d ++ x) (atEOF := e) reset lv00 inner0 hE hs hp hq' hst
    rw [scanRel_eq h1, scanRel_eq h2]

end XmppModel.Styling
