import XmppModel.Lemmas.NegotiateAdv
/-!
The unconditional STARTTLS attempt: only the configured feature of the STARTTLS namespace, only
by the initiator, only right after the first features list of the session.
-/
namespace XmppModel.Negotiate

/-- number of features lists the initiator has finished reading -/
def nLists : List Ev → Nat
  | [] => 0
  | .listIn _ _ _ _ :: rest => nLists rest + 1
  | _ :: rest => nLists rest

/-- (trace newest first) every forced `Negotiate` is for a STARTTLS-namespace feature, on the
initiating side, with exactly one features list read before it -/
def ForcedOK : List Ev → Prop
  | [] => True
  | e :: rest =>
    (match e with
     | .neg f _ _ true srv _ => f.name.ns = nsTLS ∧ srv = false ∧ nLists rest = 1
     | _ => True) ∧ ForcedOK rest

/-- control points of a round before its features list has been read completely -/
def preList : Pc → Bool
  | .top | .hdr1 | .hdr2 | .feat | .listing _ | .flush | .abort | .readList | .parsing _ | .sloop
  | .selected _ | .blocked _ | .hung _ => true
  | _ => false

structure InvX (C : List Feature) (c : Conf) : Prop where
  ok : ForcedOK c.tr
  pre : c.first = true → preList c.pc = true → nLists c.tr = 0
  dec : c.first = true → c.pc = .decide → nLists c.tr = 1
  forced : c.pc = .cloop true → nLists c.tr = 1 ∧ c.srv = false
  cli : (c.pc = .readList ∨ inParsing c.pc = true ∨ c.pc = .decide) → c.srv = false

theorem tlsFeature_ns {C : List Feature} {f : Feature} (h : tlsFeature C = some f) : f.name.ns = nsTLS := by
  unfold tlsFeature at h
  have := List.find?_some h
  simpa using this

theorem invX_step (C : List Feature) (O : Oracle) (c : Conf) (h : InvX C c) : InvX C (step C O c) := by
  obtain ⟨h1, h2, h3, h4, h5⟩ := h
  step_all
  all_goals (constructor <;> (try dsimp only))
  all_goals first
    | exact h1
    | exact h2
    | exact h3
    | exact h4
    | exact h5
    | exact ⟨True.intro, h1⟩
    | (intro h; cases h; done)
    | (intro _ h; cases h; done)
    | (refine ⟨⟨tlsFeature_ns ‹tlsFeature C = some _›, ?_, ?_⟩, h1⟩ <;> simp_all <;> done)
    | (intro h; rcases h with h | h | h <;> cases h; done)
    | (intro hf _; have h2' := h2 hf; rw [‹c.pc = _›] at h2'; exact h2' rfl)
    | (simp_all [preList, nLists, inParsing, ForcedOK]; done)
    | skip

end XmppModel.Negotiate
