import XmppModel.Model.StartTLS
/-!
# C02 — what one `Negotiate` call of the STARTTLS feature can return (initiating side)

For EVERY session state (any read-ahead, script, layer, configuration) — the probe table
`negotiateProbe` checks the real function on eleven answers from the initial state; these lemmas
say what the model's function does from all states.
-/
namespace XmppModel.StartTLS

/-- `write` adds exactly one event (the write, tagged with the layer it went through) on top of
what the lazy handshake added, and changes nothing but the trace and the handshake flag -/
theorem write_ok {e : Bool → Ev} {s s' : Sess} (h : write e s = .ok () s') :
    ∃ s1, handshake s = .ok () s1 ∧ s' = { s1 with trace := e s1.tls :: s1.trace } := by
  unfold write at h
  cases hh : handshake s with
  | stop w s1 => rw [hh] at h; cases h
  | ok u s1 =>
    rw [hh] at h
    cases h
    exact ⟨s1, rfl, rfl⟩

/-- the lazy handshake does nothing on a connection without a TLS layer -/
theorem handshake_clear {s : Sess} (h : s.tls = false) : handshake s = .ok () s := by
  unfold handshake
  simp [h]

/-- **A layer only on `<proceed/>`, and then `Secure` and nothing else.**  From any session state:
if the STARTTLS `Negotiate` call returns without an error, the unit the peer answered with was
`<proceed/>`, the mask is exactly `Secure` (not `Ready`: the session is not done before the
stream has been restarted inside the layer) and the new `io.ReadWriter` is a TLS client. -/
theorem negotiateOne_starttls_ok {req : Bool} {res : NegRes} {s s' : Sess} {m : Mask} {rw : Rw}
    (h : negotiateOne ⟨0, req, startTLS⟩ res s = .ok (m, rw) s') :
    m = Secure ∧ rw = .tls ∧
    ∃ s1 s2, write .wStartTLS (chooseConfig s) = .ok () s1 ∧ pull s1 = .ok .proceed s2 ∧ s' = s2 := by
  unfold negotiateOne at h
  simp only [beq_self_eq_true, if_true] at h
  cases hw : write .wStartTLS (chooseConfig s) with
  | stop w s1 => simp only [hw] at h; cases h
  | ok u s1 =>
    simp only [hw] at h
    cases hp : pull s1 with
    | stop w s2 => simp only [hp] at h; cases h
    | ok a s2 =>
      simp only [hp] at h
      cases a <;> simp at h
      obtain ⟨⟨rfl, rfl⟩, rfl⟩ := h
      exact ⟨rfl, rfl, s1, s2, rfl, hp, rfl⟩

/-- in clear text `pull` adds one delivery to the trace, or stops leaving the trace as it was -/
theorem pull_clear_trace {s : Sess} (ht : s.tls = false) :
    match pull s with
    | .ok _ s' => ∃ o, s'.trace = .deliver o false :: s.trace
    | .stop _ s' => s'.trace = s.trace := by
  unfold pull
  rcases hb : s.buf with _ | ⟨⟨o, u⟩, rest⟩
  · simp only [handshake_clear ht, ht, Bool.false_eq_true, if_false]
    rcases hc : pullClear s.clear with _ | ⟨u, us, rest⟩
    · rfl
    · exact ⟨true, rfl⟩
  · simp only [ht]
    exact ⟨o, rfl⟩

/-- **On a clear-text stream the call writes the request and nothing else**, whatever the peer
answers and however the call ends: the trace grows by the request (written outside any layer)
followed by at most one delivery. -/
theorem negotiateOne_starttls_clear_trace {req : Bool} {res : NegRes} {s : Sess} (ht : s.tls = false) :
    match negotiateOne ⟨0, req, startTLS⟩ res s with
    | .ok _ s' | .stop _ s' =>
      s'.trace = .wStartTLS false :: s.trace ∨
      ∃ o, s'.trace = .deliver o false :: .wStartTLS false :: s.trace := by
  unfold negotiateOne
  simp only [beq_self_eq_true, if_true]
  have hc : (chooseConfig s).tls = false := ht
  have hw : write .wStartTLS (chooseConfig s) =
      .ok () { chooseConfig s with trace := .wStartTLS false :: (chooseConfig s).trace } := by
    unfold write
    rw [handshake_clear hc]
    simp [hc]
  simp only [hw]
  generalize hs1 : ({ chooseConfig s with trace := Ev.wStartTLS false :: (chooseConfig s).trace } : Sess) = s1
  have h1t : s1.tls = false := by rw [← hs1]; exact hc
  have h1tr : s1.trace = .wStartTLS false :: s.trace := by rw [← hs1]; rfl
  have hp := pull_clear_trace h1t
  cases hpl : pull s1 with
  | stop w s2 =>
    rw [hpl] at hp
    simp only at hp ⊢
    exact Or.inl (hp.trans h1tr)
  | ok u s2 =>
    rw [hpl] at hp
    simp only at hp
    obtain ⟨o, ho⟩ := hp
    rw [h1tr] at ho
    cases u <;> exact Or.inr ⟨o, ho⟩

end XmppModel.StartTLS
