import XmppModel.Model.SaslGate
import XmppModel.Lemmas.Sasl
/-! Helper lemmas for the round E parts of C03 (gates, shared component). -/
namespace XmppModel.Sasl

theorem SSess.withCur_id (s : SSess) : s.withCur (fun c => c) = s := by
  cases s <;> rfl

/-- with no written variable a quantum leaves the store alone and is the plain quantum -/
theorem stepShared_nil {σ : Type} (sh : Shared σ) (cfg : List (String × Mech)) (s : SSess) :
    stepShared sh [] cfg sh.init s = (sh.init, SSess.step cfg s) := by
  have : (s.withCur (sh.read sh.init)) = s := by
    have h : sh.read sh.init = fun c => c := funext sh.read_init
    rw [h, SSess.withCur_id]
  simp [stepShared, this]

theorem runSchedShared_nil {σ : Type} (sh : Shared σ) (cfg : List (String × Mech)) (sched : List Nat) :
    ∀ ss : List SSess, runSchedShared sh [] cfg sh.init ss sched = (sh.init, runSched cfg ss sched) := by
  induction sched with
  | nil => intro ss; rfl
  | cons i sched ih =>
    intro ss
    simp only [runSchedShared, runSched]
    cases h : ss[i]? with
    | none =>
      simp only []
      rw [ih]
      congr 2
      apply List.ext_getElem?
      intro j
      rw [List.getElem?_modify]
      by_cases hij : i = j
      · subst hij; simp [h]
      · simp [hij]
    | some s =>
      simp only [stepShared_nil]
      rw [ih]
      congr 2
      apply List.ext_getElem?
      intro j
      rw [List.getElem?_modify, List.getElem?_set]
      by_cases hij : i = j
      · subst hij
        have hlt : i < ss.length := by
          rcases Nat.lt_or_ge i ss.length with hl | hl
          · exact hl
          · rw [List.getElem?_eq_none hl] at h; cases h
        have hs : ss[i] = s := by
          have := List.getElem?_eq_getElem hlt
          rw [this] at h; exact Option.some.inj h
        simp [hlt, hs]
      · simp [hij]

end XmppModel.Sasl
