import XmppModel.Model.SaslGate
import XmppModel.Lemmas.Sasl
/-! Helper lemmas for the round E parts of C03 (gates, shared component). -/
namespace XmppModel.Sasl

theorem SSess.withCur_id (s : SSess) : s.withCur (fun c => c) = s := by
  cases s <;> rfl

/-- with no written variable a quantum leaves the store alone and is the plain quantum -/
theorem stepShared_nil {σ : Type} (sh : Shared σ) (cfg : List (String × Mech)) (s : SSess) :
    stepShared sh [] cfg sh.init s = (sh.init, SSess.step cfg s) := by
  have : (s.withCur (sh.read sh.init)) = s := by
    have h : sh.read sh.init = fun c => c := funext sh.read_init
    rw [h, SSess.withCur_id]
  simp [stepShared, this]

theorem runSchedShared_nil {σ : Type} (sh : Shared σ) (cfg : List (String × Mech)) (sched : List Nat) :
    ∀ ss : List SSess, runSchedShared sh [] cfg sh.init ss sched = (sh.init, runSched cfg ss sched) := by
  induction sched with
  | nil => intro ss; rfl
  | cons i sched ih =>
    intro ss
    simp only [runSchedShared, runSched]
    cases h : ss[i]? with
    | none =>
      simp only []
      rw [ih]
      congr 2
      apply List.ext_getElem?
      intro j
      rw [List.getElem?_modify]
      by_cases hij : i = j
      · subst hij; simp [h]
      · simp [hij]
    | some s =>
      simp only [stepShared_nil]
      rw [ih]
      congr 2
      apply List.ext_getElem?
      intro j
      rw [List.getElem?_modify, List.getElem?_set]
      by_cases hij : i = j
      · subst hij
        have hlt : i < ss.length := by
          rcases Nat.lt_or_ge i ss.length with hl | hl
          · exact hl
          · rw [List.getElem?_eq_none hl] at h; cases h
        have hs : ss[i] = s := by
          have := List.getElem?_eq_getElem hlt
          rw [this] at h; exact Option.some.inj h
        simp [hlt, hs]
      · simp [hij]

/-! ### the initiating side in small steps -/

theorem clientLoop_cons (mech : Mech) (hist : List Bytes) (ev : CEv) (rest : List CEv) :
    clientLoop mech hist (ev :: rest) =
      match cevent mech hist ev with
      | .stop r => r
      | .more h resp => (clientLoop mech h rest).after [.response resp]
      | .done h resp => (readFinal h rest).after [.response resp] := by
  cases ev with
  | challenge p =>
    simp only [clientLoop, cevent]
    cases p.decodeClient with
    | none => rfl
    | some c =>
      simp only []
      cases (mech (hist ++ [c])).kind <;> rfl
  | success p =>
    simp only [clientLoop, cevent]
    cases p.decodeClient with
    | none => rfl
    | some c =>
      simp only []
      cases (mech (hist ++ [c])).kind <;> rfl
  | failure b => rfl
  | other => rfl
  | otherNs => rfl
  | space => rfl

theorem CSess.iter_finished (cm : List (String × Mech)) (r : CRes) : ∀ k,
    CSess.iter cm k (.finished r) = .finished r := by
  intro k; induction k with
  | zero => rfl
  | succ k ih => simpa [CSess.iter, CSess.step] using ih

theorem CSess.iter_add (cm : List (String × Mech)) : ∀ (a b : Nat) (s : CSess),
    CSess.iter cm (a + b) s = CSess.iter cm b (CSess.iter cm a s) := by
  intro a; induction a with
  | zero => intro b s; simp [CSess.iter]
  | succ a ih => intro b s; rw [Nat.add_right_comm]; simp only [CSess.iter]; exact ih b _

theorem CRes.after_prefixed (r : CRes) (resp : Bytes) (name : String) (sent : List CSent) (n : Nat) :
    (r.after [.response resp]).prefixed name sent n = r.prefixed name (sent ++ [.response resp]) (n + 1) := by
  simp only [CRes.after, CRes.prefixed, List.append_assoc]
  congr 1
  omega

/-- a session in its loop, run alone for one quantum more than its script is long, has
finished with the result of the big-step loop -/
theorem CSess.iter_clientLoop (cm : List (String × Mech)) (name : String) (mech : Mech) (peer : List CEv) :
    ∀ (hist : List Bytes) (sent : List CSent) (n : Nat),
    CSess.iter cm (peer.length + 1) (.looping name mech hist peer sent n) =
      .finished ((clientLoop mech hist peer).prefixed name sent n) := by
  induction peer with
  | nil => intro hist sent n; simp [CSess.iter, CSess.step, clientLoop]
  | cons ev rest ih =>
    intro hist sent n
    have e : CSess.iter cm ((ev :: rest).length + 1) (.looping name mech hist (ev :: rest) sent n)
        = CSess.iter cm (rest.length + 1) ((CSess.looping name mech hist (ev :: rest) sent n).step cm) := rfl
    rw [e, clientLoop_cons]
    cases hev : cevent mech hist ev with
    | stop r =>
      simp only [CSess.step, hev]
      exact CSess.iter_finished cm _ _
    | more h resp =>
      simp only [CSess.step, hev]
      rw [ih h, CRes.after_prefixed]
    | done h resp =>
      simp only [CSess.step, hev]
      have : CSess.iter cm (rest.length + 1) (.closing name h rest (sent ++ [.response resp]) (n + 1))
          = CSess.iter cm rest.length (.finished ((readFinal h rest).prefixed name (sent ++ [.response resp]) (n + 1))) := by
        rfl
      rw [this, CSess.iter_finished, CRes.after_prefixed]

/-- a whole initiating session, run alone for two quanta more than its script is long, has
finished with the result of `negotiateClient` -/
theorem CSess.iter_clientNeg (cm : List (String × Mech)) (adv : List String) (peer : List CEv) :
    CSess.iter cm (peer.length + 2) (.init adv peer) = .finished (clientNeg cm adv peer) := by
  have e : CSess.iter cm (peer.length + 2) (.init adv peer)
      = CSess.iter cm (peer.length + 1) ((CSess.init adv peer).step cm) := rfl
  rw [e]
  unfold clientNeg
  simp only [CSess.step]
  cases hsel : select cm adv with
  | none => exact CSess.iter_finished cm _ _
  | some nm =>
    obtain ⟨name, mech⟩ := nm
    simp only []
    by_cases hn : name = ""
    · simp only [hn, if_true]; exact CSess.iter_finished cm _ _
    · simp only [hn, if_false]
      cases hk : (mech []).kind with
      | authnErr => exact CSess.iter_finished cm _ _
      | otherErr => exact CSess.iter_finished cm _ _
      | more =>
        simp only []
        rw [CSess.iter_clientLoop]
        simp [CRes.prefixed]
      | done =>
        simp only []
        have : CSess.iter cm (peer.length + 1) (.closing name [] peer [.auth name (mech []).resp] 0)
            = CSess.iter cm peer.length (.finished ((readFinal [] peer).prefixed name [.auth name (mech []).resp] 0)) := by
          rfl
        rw [this, CSess.iter_finished]
        simp [CRes.prefixed]

theorem stepSharedC_nil {σ : Type} (sh : SharedC σ) (cm : List (String × Mech)) (s : CSess) :
    stepSharedC sh [] cm sh.init s = (sh.init, CSess.step cm s) := by
  simp [stepSharedC, sh.read_init]

theorem runSchedSharedC_nil {σ : Type} (sh : SharedC σ) (cm : List (String × Mech)) (sched : List Nat) :
    ∀ ss : List CSess, runSchedSharedC sh [] cm sh.init ss sched = (sh.init, runSchedC cm ss sched) := by
  induction sched with
  | nil => intro ss; rfl
  | cons i sched ih =>
    intro ss
    simp only [runSchedSharedC, runSchedC]
    cases h : ss[i]? with
    | none =>
      simp only []
      rw [ih]
      congr 2
      apply List.ext_getElem?
      intro j
      rw [List.getElem?_modify]
      by_cases hij : i = j
      · subst hij; simp [h]
      · simp [hij]
    | some s =>
      simp only [stepSharedC_nil]
      rw [ih]
      congr 2
      apply List.ext_getElem?
      intro j
      rw [List.getElem?_modify, List.getElem?_set]
      by_cases hij : i = j
      · subst hij
        have hlt : i < ss.length := by
          rcases Nat.lt_or_ge i ss.length with hl | hl
          · exact hl
          · rw [List.getElem?_eq_none hl] at h; cases h
        have hs : ss[i] = s := by
          have := List.getElem?_eq_getElem hlt
          rw [this] at h; exact Option.some.inj h
        simp [hlt, hs]
      · simp [hij]

theorem runSchedC_product (cm : List (String × Mech)) (sched : List Nat) :
    ∀ (ss : List CSess) (i : Nat),
    (runSchedC cm ss sched)[i]? = ss[i]?.map (CSess.iter cm (sched.count i)) := by
  induction sched with
  | nil => intro ss i; simp [runSchedC, CSess.iter]
  | cons j sched ih =>
    intro ss i
    simp only [runSchedC]
    rw [ih, List.getElem?_modify, List.count_cons]
    by_cases hji : j = i
    · subst hji
      cases h : ss[j]? with
      | none => simp
      | some s => simp [CSess.iter]
    · have : (j == i) = false := by simpa using hji
      simp [hji, this]

end XmppModel.Sasl
