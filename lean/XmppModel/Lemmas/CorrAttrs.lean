import XmppModel.Model.CorrAttrs
namespace XmppModel.CorrAttrs

theorem scan_filter (as : List Attr) (i t : Option Nat) :
    scan as i t = scan (as.filter fun a => a.space = .none) i t := by
  induction as generalizing i t with
  | nil => rfl
  | cons a as ih =>
    by_cases h : a.space = .none
    · simp only [List.filter, h, decide_true]
      simp only [scan, h, ne_eq, not_true_eq_false, if_false]
      rw [ih]
    · simp only [List.filter, h, decide_false]
      simp only [scan, ne_eq, h, not_false_eq_true, if_true]
      exact ih _ _

theorem scan_qualified_prefix (pre rest : List Attr) (i t : Option Nat)
    (h : ∀ a ∈ pre, a.space ≠ .none) : scan (pre ++ rest) i t = scan rest i t := by
  induction pre with
  | nil => rfl
  | cons a as ih =>
    have ha : a.space ≠ .none := h a (by simp)
    simp only [List.cons_append, scan, ne_eq, ha, not_false_eq_true, if_true]
    exact ih (fun b hb => h b (by simp [hb]))

end XmppModel.CorrAttrs
