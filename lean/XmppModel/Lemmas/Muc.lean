import XmppModel.Model.Muc
/-! Invariant of the MUC bookkeeping LTS (no hypothesis on the addresses: the code refuses a
second channel for an occupant address that is in use). -/
namespace XmppModel.Muc

structure Inv (s : St) : Prop where
  /-- a channel is registered only under the address it holds or, while a join is in flight,
  the address that join asked for -/
  key : ∀ a c, s.managed a = some c → a = s.cur c ∨ (a = s.req c ∧ s.jpc c ≠ .idle)
  /-- a joined channel is registered under the address it holds -/
  reg : ∀ c, s.joined c = true → s.managed (s.cur c) = some c
  mem : ∀ c, s.joined c = s.memberX c

theorem inv_init (addr0 : Nat → Nat) : Inv (init addr0) := by
  constructor <;> simp [init]

theorem inv_step {s a s'} (h : Inv s) (hs : step s a = some s') : Inv s' := by
  obtain ⟨h1, h2, h3⟩ := h
  cases a <;> simp only [step] at hs
  case message cs => simp at hs; subst hs; exact ⟨h1, h2, h3⟩
  case unrelated => simp at hs; subst hs; exact ⟨h1, h2, h3⟩
  all_goals
    (split at hs <;> (try split at hs) <;> (try split at hs) <;> (try simp at hs) <;> (try subst hs) <;>
      (try (constructor <;> (try simp only [upd] at *) <;> grind)))

theorem inv_reach {addr0 : Nat → Nat} {s} (h : Reach addr0 s) : Inv s := by
  induction h with
  | init => exact inv_init addr0
  | step _ hs ih => exact inv_step ih hs

/-- every registration has an owner with a reason: the channel is joined under that address, or a
`Join` call of the channel that asked for it is in flight.  (A call that failed, was cancelled or gave
up before it queued its request leaves nothing behind.) -/
def Owned (s : St) : Prop :=
  ∀ a c, s.managed a = some c → (a = s.cur c ∧ s.joined c = true) ∨ (a = s.req c ∧ s.jpc c ≠ .idle)

theorem owned_init (addr0 : Nat → Nat) : Owned (init addr0) := by
  intro a c h; simp [init] at h

theorem owned_step {s a s'} (h : Owned s) (hs : step s a = some s') : Owned s' := by
  unfold Owned at *
  cases a <;> simp only [step] at hs
  case message cs => simp at hs; subst hs; exact h
  case unrelated => simp at hs; subst hs; exact h
  all_goals
    (split at hs <;> (try split at hs) <;> (try split at hs) <;> (try simp at hs) <;> (try subst hs) <;>
      (try (intro a' c' hm; have := h a' c'; (try simp only [upd] at *); grind)))

theorem owned_reach {addr0 : Nat → Nat} {s} (h : Reach addr0 s) : Owned s := by
  induction h with
  | init => exact owned_init addr0
  | step _ hs ih => exact owned_step ih hs

end XmppModel.Muc
