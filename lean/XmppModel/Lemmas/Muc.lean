import XmppModel.Model.Muc
/-! Invariant of the MUC bookkeeping LTS. -/
namespace XmppModel.Muc

structure Inv (addr : Nat → Nat) (s : St) : Prop where
  key : ∀ a c, s.managed a = some c → addr c = a
  reg : ∀ c, s.joined c = true → s.managed (addr c) = some c
  mem : ∀ c, s.joined c = s.memberX c

theorem inv_init (addr : Nat → Nat) : Inv addr init := by
  constructor <;> simp [init]

theorem inv_step {addr : Nat → Nat} (hinj : ∀ c c', addr c = addr c' → c = c') {s a s'}
    (h : Inv addr s) (hs : step addr s a = some s') : Inv addr s' := by
  obtain ⟨h1, h2, h3⟩ := h
  cases a <;> simp only [step] at hs
  case invite => simp at hs; subst hs; exact ⟨h1, h2, h3⟩
  case unrelated => simp at hs; subst hs; exact ⟨h1, h2, h3⟩
  all_goals
    (split at hs <;> (try split at hs) <;> (try simp at hs) <;> (try subst hs) <;>
      (try (constructor <;> (try simp only [upd] at *) <;> grind)))

theorem inv_reach {addr : Nat → Nat} (hinj : ∀ c c', addr c = addr c' → c = c') {s}
    (h : Reach addr s) : Inv addr s := by
  induction h with
  | init => exact inv_init addr
  | step _ hs ih => exact inv_step hinj ih hs

end XmppModel.Muc
