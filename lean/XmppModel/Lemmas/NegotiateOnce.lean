import XmppModel.Lemmas.NegotiateReady
/-!
Invariants "at most once per stream" and "only what the current list offers".
-/
namespace XmppModel.Negotiate

/-! ### invariant D: at most once per stream -/

/-- (trace newest first) namespaces negotiated successfully since the last header event -/
def segNs : List Ev → List Nat
  | [] => []
  | e :: rest =>
    if e.isHdr then [] else
    match e with
    | .neg f _ _ _ _ r => if r.err then segNs rest else f.name.ns :: segNs rest
    | _ => segNs rest

/-- every `Negotiate` call is for a namespace not yet negotiated on the current stream -/
def OnceOK : List Ev → Prop
  | [] => True
  | e :: rest =>
    (match e with
     | .neg f _ _ _ _ _ => f.name.ns ∉ segNs rest
     | _ => True) ∧ OnceOK rest

/-- control points at which `s.negotiated` describes the current stream -/
def liveD (c : Conf) : Bool :=
  match c.pc with
  | .done | .fail _ | .crash | .stuck | .hdr1 | .blocked _ | .hung _ => false
  | .top => !c.doRestart
  | _ => true

/-- control points of the first negotiator call before any feature has been negotiated -/
def preNeg : Pc → Bool
  | .top | .hdr1 | .hdr2 | .feat | .listing _ | .flush | .abort | .readList | .parsing _ | .decide
  | .cloop true => true
  | _ => false

structure InvD (c : Conf) : Prop where
  ok : OnceOK c.tr
  sync : liveD c = true → ∀ ns ∈ segNs c.tr, ns ∈ c.negd
  first : (c.first = true ∨ c.pc = .cloop true) → preNeg c.pc = true → c.negd = []

theorem cache_get_ns {c : Cache} {ns : Nat} {e : Entry} (h : c.get ns = some e) : e.f.name.ns = ns := by
  unfold Cache.get at h
  have := List.find?_some h
  simpa using this

theorem cache_get_mem {c : Cache} {ns : Nat} {e : Entry} (h : c.get ns = some e) : e ∈ c := by
  unfold Cache.get at h
  exact List.mem_of_find?_eq_some h

theorem invD_step (C : List Feature) (O : Oracle) (c : Conf) (h : InvD c) : InvD (step C O c) := by
  obtain ⟨ho, hs, hf⟩ := h
  step_all
  all_goals (constructor <;> (try dsimp only))
  all_goals first
    | exact ho
    | exact hs
    | exact hf
    | exact ⟨True.intro, ho⟩
    | (simp_all [liveD, preNeg, segNs, Ev.isHdr, IoOp.isHdr, OnceOK]; done)
    | (refine ⟨?_, ho⟩
       have hm := candidates_spec c _ (allowed_sub _ _ (List.mem_of_find?_eq_some
         ‹List.find? _ (allowed (candidates c)) = some _›))
       intro hmem
       have := hs (by simp_all [liveD]) _ hmem
       simp_all)
    | (refine ⟨?_, ho⟩
       have hk := cache_get_ns ‹c.cache.get _ = some _›
       intro hmem
       have := hs (by simp_all [liveD]) _ hmem
       simp_all)

end XmppModel.Negotiate
