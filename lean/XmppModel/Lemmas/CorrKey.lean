import XmppModel.Model.CorrKey
/-! Lemmas about `Model/CorrKey.lean`: where the result of the `getIDTyp` scan comes from, what
rewriting the selected attribute's value and dropping empty id attributes do to it. -/
namespace XmppModel.CorrKey
open XmppModel.CorrAttrs

/-- the scan's result is the accumulator it started with or an attribute at a position `≥ n` -/
theorem scanI_src : ∀ (as : List Attr) (n : Nat) (i : Option (Nat × Nat)) (t : Bool) (r : Nat × Nat),
    scanI as n i t = some r → i = some r ∨ n ≤ r.1 := by
  intro as
  induction as with
  | nil => intro n i t r h; simp [scanI] at h; exact Or.inl h
  | cons a as ih =>
    intro n i t r h
    simp only [scanI] at h
    split at h
    · have := ih _ _ _ _ h; grind
    · split at h
      · split at h
        · grind
        · have := ih _ _ _ _ h; grind
      · split at h
        · split at h
          · grind
          · have := ih _ _ _ _ h; grind
        · split at h
          · grind
          · have := ih _ _ _ _ h; grind


/-- the accumulator's value plays no part in whether the accumulator is the result -/
theorem scanI_acc : ∀ (as : List Attr) (n j v : Nat) (t : Bool) (r : Nat × Nat), j < n →
    scanI as n (some (j, v)) t = some r → r.1 = j → ∀ w, scanI as n (some (j, w)) t = some (j, w) := by
  intro as
  induction as with
  | nil => intro n j v t r hj h hr w; simp [scanI]
  | cons a as ih =>
    intro n j v t r hj h hr w
    simp only [scanI] at h ⊢
    split
    · rw [if_pos (by assumption)] at h
      exact ih _ _ _ _ _ (by omega) h hr w
    · rw [if_neg (by assumption)] at h
      split
      · rw [if_pos (by assumption)] at h
        split at h
        · grind
        · have := scanI_src _ _ _ _ _ h; grind
      · rw [if_neg (by assumption)] at h
        split
        · rw [if_pos (by assumption)] at h
          simp
        · rw [if_neg (by assumption)] at h
          simp only [Option.isSome_some, Bool.true_and] at h ⊢
          split
          · rfl
          · rw [if_neg (by assumption)] at h
            exact ih _ _ _ _ _ (by omega) h hr w

/-- rewriting the value of the attribute the scan selected: same position, the new value -/
theorem scanI_setVal : ∀ (as : List Attr) (n : Nat) (i : Option (Nat × Nat)) (t : Bool) (k v w : Nat),
    (∀ p, i = some p → p.1 < n) → scanI as n i t = some (n + k, v) →
    scanI (setVal as k w) n i t = some (n + k, w) := by
  intro as
  induction as with
  | nil =>
    intro n i t k v w hi h
    simp [scanI] at h
    have := hi _ h; simp at this; omega
  | cons a as ih =>
    intro n i t k v w hi h
    cases k with
    | zero =>
      simp only [setVal, scanI, Nat.add_zero] at h ⊢
      split at h
      · have := scanI_src _ _ _ _ _ h; grind
      · rw [if_neg (by assumption)]
        split at h
        · rw [if_pos (by assumption)]
          split at h
          · rw [if_pos (by assumption)]
          · rw [if_neg (by assumption)]
            exact scanI_acc _ _ _ _ _ _ (by omega) h rfl w
        · rw [if_neg (by assumption)]
          split at h
          · split at h
            · grind
            · have := scanI_src _ _ _ _ _ h; grind
          · split at h
            · grind
            · have := scanI_src _ _ _ _ _ h; grind
    | succ k =>
      have e : n + (k + 1) = (n + 1) + k := by omega
      simp only [setVal, scanI] at h ⊢
      rw [e] at h ⊢
      split at h
      · rw [if_pos (by assumption)]
        exact ih _ _ _ _ _ _ (by intro p hp; have := hi p hp; omega) h
      · rw [if_neg (by assumption)]
        split at h
        · rw [if_pos (by assumption)]
          split at h
          · grind
          · rw [if_neg (by assumption)]
            exact ih _ _ _ _ _ _ (by intro p hp; simp at hp; subst hp; simp) h
        · rw [if_neg (by assumption)]
          split at h
          · rw [if_pos (by assumption)]
            split at h
            · grind
            · rw [if_neg (by assumption)]
              exact ih _ _ _ _ _ _ (by intro p hp; have := hi p hp; omega) h
          · rw [if_neg (by assumption)]
            split at h
            · grind
            · rw [if_neg (by assumption)]
              exact ih _ _ _ _ _ _ (by intro p hp; have := hi p hp; omega) h


/-- the scan on values only -/
def scanV : List Attr → Option Nat → Bool → Option Nat
  | [], i, _ => i
  | a :: as, i, t =>
    if a.space ≠ .none then scanV as i t
    else if a.loc = .id then (if t then some a.val else scanV as (some a.val) t)
    else if a.loc = .type then (if i.isSome then i else scanV as i true)
    else (if i.isSome && t then i else scanV as i t)

theorem scanI_val : ∀ (as : List Attr) (n : Nat) (i : Option (Nat × Nat)) (t : Bool),
    (scanI as n i t).map (·.2) = scanV as (i.map (·.2)) t := by
  intro as
  induction as with
  | nil => intro n i t; simp [scanI, scanV]
  | cons a as ih =>
    intro n i t
    simp only [scanI, scanV]
    split
    · exact ih _ _ _
    · split
      · split
        · rfl
        · exact ih _ _ _
      · split
        · split
          · simp_all
          · rw [if_neg (by simp_all)]; exact ih _ _ _
        · split
          · rw [if_pos (by simp_all)]
          · rw [if_neg (by simp_all)]; exact ih _ _ _

/-- what the encoder keeps -/
def kept (a : Attr) : Bool := !(a.space = .none && a.loc = .id && a.val = 0)

/-- dropping the id attributes with an empty value does not change a non-empty result -/
theorem scanV_filter : ∀ (as : List Attr) (io jf : Option Nat) (t : Bool) (v : Nat),
    ((io = jf ∧ io ≠ some 0) ∨ (io = some 0 ∧ t = false)) →
    scanV as io t = some v → v ≠ 0 → scanV (as.filter kept) jf t = some v := by
  intro as
  induction as with
  | nil => intro io jf t v hr h hv; simp [scanV] at h ⊢; grind
  | cons a as ih =>
    intro io jf t v hr h hv
    by_cases hk : kept a = true
    · simp only [List.filter_cons, hk, if_true, scanV] at h ⊢
      split at h
      · rw [if_pos (by assumption)]; exact ih _ _ _ _ hr h hv
      · rw [if_neg (by assumption)]
        split at h
        · rw [if_pos (by assumption)]
          split at h
          · rw [if_pos (by assumption)]; exact h
          · rw [if_neg (by assumption)]
            refine ih _ _ _ _ (Or.inl ⟨rfl, ?_⟩) h hv
            simp [kept] at hk; grind
        · rw [if_neg (by assumption)]
          split at h
          · rw [if_pos (by assumption)]
            split at h
            · grind
            · have : jf.isSome = false := by grind
              rw [if_neg (by simp [this])]
              refine ih _ _ _ _ (Or.inl ⟨?_, ?_⟩) h hv <;> grind
          · rw [if_neg (by assumption)]
            split at h
            · grind
            · have : ¬ (jf.isSome && t) = true := by grind
              rw [if_neg this]
              exact ih _ _ _ _ hr h hv
    · have hk' : kept a = false := by simpa using hk
      simp only [List.filter_cons, hk', scanV] at h ⊢
      simp [kept] at hk'
      split at h
      · rename_i hq; exact absurd hk'.1.1 hq
      · rw [if_pos hk'.1.2] at h
        split at h
        · grind
        · exact ih _ _ _ _ (Or.inr ⟨by rw [hk'.2], by simpa using ‹¬ t = true›⟩) h hv

/-- no unqualified id attribute: the scan finds nothing -/
theorem scanV_none : ∀ (as : List Attr) (t : Bool), (∀ a ∈ as, ¬ (a.space = .none ∧ a.loc = .id)) → scanV as none t = none := by
  intro as
  induction as with
  | nil => intro t _; rfl
  | cons a as ih =>
    intro t h
    have ha := h a (by simp)
    have ht : ∀ b ∈ as, ¬ (b.space = .none ∧ b.loc = .id) := fun b hb => h b (by simp [hb])
    simp only [scanV]
    split
    · exact ih _ ht
    · rw [if_neg (by grind)]
      split
      · simp; exact ih _ ht
      · simp; exact ih _ ht

/-- once an id was seen the scan returns one -/
theorem scanI_isSome : ∀ (as : List Attr) (n : Nat) (p : Nat × Nat) (t : Bool), (scanI as n (some p) t).isSome = true := by
  intro as
  induction as with
  | nil => intro n p t; simp [scanI]
  | cons a as ih =>
    intro n p t
    simp only [scanI]
    split
    · exact ih _ _ _
    · split
      · split
        · rfl
        · exact ih _ _ _
      · split
        · simp
        · simp only [Option.isSome_some, Bool.true_and]
          split
          · rfl
          · exact ih _ _ _

/-- the scan found nothing: there is no unqualified id attribute -/
theorem scanI_none : ∀ (as : List Attr) (n : Nat) (t : Bool), scanI as n none t = none →
    ∀ a ∈ as, ¬ (a.space = .none ∧ a.loc = .id) := by
  intro as
  induction as with
  | nil => intro n t _ a ha; simp at ha
  | cons a as ih =>
    intro n t h b hb
    simp only [scanI] at h
    split at h
    · rcases List.mem_cons.mp hb with rfl | hb'
      · grind
      · exact ih _ _ h b hb'
    · split at h
      · split at h
        · simp at h
        · have := scanI_isSome as (n + 1) (n, a.val) t
          rw [h] at this; simp at this
      · simp only [Option.isSome_none, Bool.false_and] at h
        split at h
        · simp at h
          rcases List.mem_cons.mp hb with rfl | hb'
          · grind
          · exact ih _ _ h b hb'
        · simp at h
          rcases List.mem_cons.mp hb with rfl | hb'
          · grind
          · exact ih _ _ h b hb'

/-- no unqualified id in front: the appended unqualified id is the one the peer reads -/
theorem scanV_append : ∀ (as : List Attr) (t : Bool) (f : Nat), (∀ a ∈ as, ¬ (a.space = .none ∧ a.loc = .id)) →
    scanV (as ++ [⟨.none, .id, f⟩]) none t = some f := by
  intro as
  induction as with
  | nil => intro t f _; simp [scanV]
  | cons a as ih =>
    intro t f h
    have ha := h a (by simp)
    have ht : ∀ b ∈ as, ¬ (b.space = .none ∧ b.loc = .id) := fun b hb => h b (by simp [hb])
    simp only [List.cons_append, scanV]
    split
    · exact ih _ _ ht
    · rw [if_neg (by grind)]
      split
      · simp; exact ih _ _ ht
      · simp; exact ih _ _ ht


theorem encode_eq (f₂ : Nat) (L : List Attr) :
    encode f₂ L = if (L.filter kept).any (fun a => a.space = .none && a.loc = .id) then L.filter kept else L.filter kept ++ [⟨.none, .id, f₂⟩] := rfl

/-- a non-empty id the call found in its start element is what the peer reads behind the encoder -/
theorem encode_keeps (f₂ : Nat) (L : List Attr) (idx v : Nat) (h : idOf L = some (idx, v)) (hv : v ≠ 0) :
    wireId (encode f₂ L) = some v := by
  have hV : scanV L none false = some v := by
    have := scanI_val L 0 none false
    simp only [idOf] at h
    rw [h] at this; simpa using this.symm
  have hF : scanV (L.filter kept) none false = some v :=
    scanV_filter L none none false v (Or.inl ⟨rfl, by simp⟩) hV hv
  rw [encode_eq]
  split
  · simp only [wireId, idOf]; rw [scanI_val]; simpa using hF
  · rename_i hn
    have : scanV (L.filter kept) none false = none := by
      apply scanV_none
      intro a ha hl
      apply hn
      simp only [List.any_eq_true]
      exact ⟨a, ha, by simp [hl.1, hl.2]⟩
    rw [this] at hF; simp at hF

/-- the id a blocking call registers under is the id the peer reads on the wire -/
theorem wire_id_registered (f₁ f₂ : Nat) (hf : f₁ ≠ 0) (attrs : List Attr) :
    wireId (send {} f₁ f₂ attrs).2 = some (send {} f₁ f₂ attrs).1 := by
  simp only [send, prepare]
  cases h : idOf attrs with
  | none =>
    simp only []
    have hno := scanI_none attrs 0 false h
    rw [encode_eq]
    have hfil : (attrs ++ [(⟨.none, .id, f₁⟩ : Attr)]).filter kept = attrs.filter kept ++ [⟨.none, .id, f₁⟩] := by
      simp [List.filter_append, kept, hf]
    rw [hfil, if_pos (by simp)]
    simp only [wireId, idOf]; rw [scanI_val]
    simpa using scanV_append (attrs.filter kept) false f₁ (fun a ha => hno a (List.mem_filter.mp ha).1)
  | some p =>
    obtain ⟨idx, v⟩ := p
    simp only []
    by_cases hv : v = 0
    · simp only [hv, if_true]
      have h' : scanI attrs 0 none false = some (0 + idx, 0) := by simpa [idOf, hv] using h
      have := scanI_setVal attrs 0 none false idx 0 f₁ (by simp) h'
      exact encode_keeps f₂ _ idx f₁ (by simpa [idOf] using this) hf
    · simp only [hv, if_false]
      exact encode_keeps f₂ _ idx v h hv

end XmppModel.CorrKey
