import XmppModel.Lemmas.NegotiateAdv
/-!
Completeness of what the initiator keeps of a features list: every child element that names a
configured feature ends up in the cache slot of its namespace or in the skipped list.
-/
namespace XmppModel.Negotiate

/-- the configured feature `f` named by an item of `l` is accounted for: the cache slot of its
namespace is filled (by it, or by a later feature of the same namespace), or it was skipped -/
def Covered (C : List Feature) (c : Conf) (l : List AdvItem) : Prop :=
  ∀ name req f, AdvItem.feat name req ∈ l → C.find? (fun f => f.name == name) = some f →
    (∃ e ∈ c.cache, e.f.name.ns = f.name.ns) ∨ (∃ e ∈ c.skipped, e.f = f)

/-- control points at which the current list has been read completely and is still current -/
def afterParse : Pc → Bool
  | .decide | .cloop _ | .tail _ _ | .ret _ _ | .top | .done => true
  | _ => false

theorem put_slot {c : Cache} {e' : Entry} {n : Nat} (h : ∃ e ∈ c, e.f.name.ns = n) :
    ∃ e ∈ c.put e', e.f.name.ns = n := by
  obtain ⟨e, he, hn⟩ := h
  unfold Cache.put
  by_cases hq : e'.f.name.ns = n
  · exact ⟨e', List.mem_cons_self, hq⟩
  · refine ⟨e, List.mem_cons_of_mem _ (List.mem_filter.mpr ⟨he, ?_⟩), hn⟩
    simp only [bne_iff_ne, ne_eq]
    rw [hn]; exact fun h => hq h.symm

theorem covered_snoc {C : List Feature} {c c' : Conf} {pre : List AdvItem} {item : AdvItem}
    (h : Covered C c pre)
    (hslot : ∀ n, (∃ e ∈ c.cache, e.f.name.ns = n) → ∃ e ∈ c'.cache, e.f.name.ns = n)
    (hskip : ∀ e ∈ c.skipped, e ∈ c'.skipped)
    (hnew : ∀ name req f, item = .feat name req → C.find? (fun f => f.name == name) = some f →
      (∃ e ∈ c'.cache, e.f.name.ns = f.name.ns) ∨ (∃ e ∈ c'.skipped, e.f = f)) :
    Covered C c' (pre ++ [item]) := by
  intro name req f hm hf
  rcases List.mem_append.mp hm with hm | hm
  · rcases h name req f hm hf with h1 | ⟨e, he, hef⟩
    · exact Or.inl (hslot _ h1)
    · exact Or.inr ⟨e, hskip e he, hef⟩
  · simp only [List.mem_singleton] at hm
    exact hnew name req f hm.symm hf

theorem split_cons {l pre rest : List AdvItem} {x : AdvItem} (hp : l = pre ++ x :: rest) :
    l = (pre ++ [x]) ++ rest := by rw [hp]; simp

theorem covered_same {C : List Feature} {c c' : Conf} {l : List AdvItem} (h : Covered C c l)
    (hc : c'.cache = c.cache) (hs : c'.skipped = c.skipped) : Covered C c' l := by
  intro name req f hm hf
  have := h name req f hm hf
  rw [hc, hs]; exact this

/-- control points of the receiving side -/
def serverPc : Pc → Bool
  | .listing _ | .flush | .abort | .sloop | .selected _ => true
  | _ => false

structure InvK (C : List Feature) (c : Conf) : Prop where
  parsingK : ∀ items, c.pc = .parsing items → ∃ pre, c.curAdv = pre ++ items ∧ Covered C c pre
  afterK : afterParse c.pc = true → c.srv = false → Covered C c c.curAdv
  srvPc : serverPc c.pc = true → c.srv = true

theorem invK_step (C : List Feature) (O : Oracle) (c : Conf) (h : InvK C c) : InvK C (step C O c) := by
  obtain ⟨h1, h2, h3⟩ := h
  step_all
  all_goals (constructor <;> (try dsimp only))
  all_goals first
    | exact h1
    | exact h2
    | exact h3
    | (intro _ h; cases h; done)
    | (intro h; cases h; done)
    | (intro h _; cases h; done)
    | (intro _; assumption)
    | (intro _; simp_all [serverPc]; done)
    | (intro _ hs; simp_all [serverPc]; done)
    | (intro its hi; cases hi
       exact ⟨[], rfl, fun _ _ _ hm _ => by cases hm⟩)
    | (intro _ hs; refine covered_same (h2 ?_ ?_) rfl rfl <;> simp_all [afterParse] <;> done)
    | (intro _ _
       obtain ⟨pre, hp, hc⟩ := h1 _ ‹c.pc = _›
       rw [List.append_nil] at hp
       rw [hp]
       exact covered_same hc rfl rfl)
    | (intro its hi; cases hi
       obtain ⟨pre, hp, hc⟩ := h1 _ ‹c.pc = _›
       refine ⟨_, split_cons hp, ?_⟩
       refine covered_snoc hc (fun n hn => hn) (fun e he => he) ?_
       intro name req f hi hf
       cases hi
       simp_all)
    | (intro its hi; cases hi
       obtain ⟨pre, hp, hc⟩ := h1 _ ‹c.pc = _›
       refine ⟨_, split_cons hp, ?_⟩
       refine covered_snoc hc (fun n hn => put_slot hn) (fun e he => he) ?_
       intro name req f hi hf
       cases hi
       left
       refine ⟨_, List.mem_cons_self, ?_⟩
       simp_all)
    | (intro its hi; cases hi
       obtain ⟨pre, hp, hc⟩ := h1 _ ‹c.pc = _›
       refine ⟨_, split_cons hp, ?_⟩
       refine covered_snoc hc (fun n hn => hn) (fun e he => List.mem_append_left _ he) ?_
       intro name req f hi hf
       cases hi
       right
       refine ⟨_, List.mem_append_right _ List.mem_cons_self, ?_⟩
       simp_all)
    | skip

end XmppModel.Negotiate
