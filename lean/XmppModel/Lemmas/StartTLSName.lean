import XmppModel.Lemmas.StartTLS
set_option linter.unusedVariables false
/-!
The server name: every ClientHello of a session names what `negotiateName` yields for the
feature value the session started with and the session's own domain, and the feature value is
the same after the session (`SN`, carried through every function by the generic lemmas).
-/
namespace XmppModel.StartTLS

theorem negotiateName_fst (cap : Option Name) (d : Nat) : (negotiateName cap d).1 = cap := by
  cases cap <;> rfl

def SN (cap0 : Option Name) (d : Addr) (pre : Option Name) (s : Sess) : Prop :=
  s.captured = cap0 ∧ s.laddr = d ∧ (∀ n, s.sni = some n → n = (negotiateName cap0 d.dom).2 ∨ pre = some n) ∧
    ∀ n, Ev.hello n ∈ s.trace → n = (negotiateName cap0 d.dom).2 ∨ pre = some n

theorem SN_ev (cap0 : Option Name) (d : Addr) (pre : Option Name) (s : Sess) (e : Ev) (he : ∀ n, e ≠ .hello n) (h : SN cap0 d pre s) :
    SN cap0 d pre { s with trace := e :: s.trace } := by
  refine ⟨h.1, h.2.1, h.2.2.1, ?_⟩
  intro n hn
  simp only [List.mem_cons] at hn
  rcases hn with hn | hn
  · exact absurd hn.symm (he n)
  · exact h.2.2.2 n hn

theorem SN_io (cap0 : Option Name) (d : Addr) (pre : Option Name) : ClosedIO (SN cap0 d pre) where
  hello := by
    intro s h
    unfold sendHello
    split
    · next n hs =>
      refine ⟨h.1, h.2.1, h.2.2.1, ?_⟩
      intro m hm
      simp only [List.mem_cons, Ev.hello.injEq] at hm
      rcases hm with rfl | hm
      · exact h.2.2.1 m hs
      · exact h.2.2.2 m hm
    · exact h
  hs := fun s h => h
  fromBuf := fun s o u rest h _ => SN_ev cap0 d pre s _ (fun n hn => by cases hn) h
  fromTls := fun s u rest h _ _ _ => SN_ev cap0 d pre s _ (fun n hn => by cases hn) h
  fromClear := fun s u us rest h _ _ _ => SN_ev cap0 d pre s _ (fun n hn => by cases hn) h

theorem SN_neg (cap0 : Option Name) (d : Addr) (pre : Option Name) : ClosedNeg (SN cap0 d pre) where
  wHdr := fun s h => SN_ev cap0 d pre s _ (fun n hn => by cases hn) h
  wStartTLS := fun s h => SN_ev cap0 d pre s _ (fun n hn => by cases hn) h
  wOther := fun s id h => SN_ev cap0 d pre s _ (fun n hn => by cases hn) h
  advert := fun s ids h => h
  choose := by
    intro s h
    obtain ⟨hc, hd, hs, ht⟩ := h
    refine ⟨?_, hd, ?_, ht⟩
    · show (negotiateName s.captured s.laddr.dom).1 = cap0
      rw [negotiateName_fst]; exact hc
    · intro n hn
      simp only [chooseConfig, Option.some.injEq] at hn
      left
      rw [← hn, hc, hd]
  oracle := fun s o h => h
  neg := fun s m id h => h
  first := fun s h => h
  doRestart := fun s b h => h
  restart := fun s h => h
  stateOr := fun s m h => h

theorem SN_install (cap0 : Option Name) (d : Addr) (pre : Option Name) : ClosedInstall (SN cap0 d pre) where
  installTls := fun s h => SN_ev cap0 d pre (restartDec s) _ (fun n hn => by cases hn) h

theorem run_names (cfg : Cfg) (env : Env) (st0 : Mask) (i : Input) (fuel : Nat) :
    (∀ n, Ev.hello n ∈ (run cfg env st0 i fuel).1 →
      n = (negotiateName env.captured env.domain).2 ∨ env.conn.name = some n) ∧
    capturedAfter cfg env st0 i fuel = env.captured ∧
    localAfter cfg env st0 i fuel = ownAddr env st0 := by
  unfold run capturedAfter localAfter
  split
  · exact ⟨fun n hn => (by cases hn), rfl, rfl⟩
  · have h0 : SN env.captured (ownAddr env st0) env.conn.name (init env st0 i) :=
      ⟨rfl, rfl, fun n hn => Or.inr hn, fun n hn => (by cases hn)⟩
    have h := loop_all (SN_io env.captured (ownAddr env st0) env.conn.name) (SN_neg env.captured (ownAddr env st0) env.conn.name)
      (SN_install env.captured (ownAddr env st0) env.conn.name) cfg fuel false (init env st0 i) h0
    exact ⟨fun n hn => h.2.2.2 n (List.mem_reverse.1 hn), h.1, h.2.1⟩

/-! ### `Session.features` on a protected stream holds only what was advertised inside TLS -/

def FC (s : Sess) : Prop := s.tls = true → ∀ x ∈ s.features, x.2 = true

theorem FC_io : ClosedIO FC where
  hello := fun s h => sendHello_ind (P := FC) s h (fun n => h)
  hs := fun s h => h
  fromBuf := fun s o u rest h _ => h
  fromTls := fun s u rest h _ _ _ => h
  fromClear := fun s u us rest h _ _ _ => h

theorem FC_neg : ClosedNeg FC where
  wHdr := fun s h => h
  wStartTLS := fun s h => h
  wOther := fun s id h => h
  choose := fun s h => h
  advert := by
    intro s ids h ht x hx
    simp only [advert, List.mem_append, List.mem_map] at hx
    rcases hx with hx | ⟨id, _, rfl⟩
    · exact h ht x hx
    · exact ht
  oracle := fun s o h => h
  neg := fun s m id h => h
  first := fun s h => h
  doRestart := fun s b h => h
  restart := fun s h => fun _ x hx => (by cases hx)
  stateOr := fun s m h => h

theorem FC_install : ClosedInstall FC where
  installTls := fun s h => fun _ x hx => (by cases hx)

theorem run_features (cfg : Cfg) (env : Env) (st0 : Mask) (i : Input) (fuel : Nat)
    (ht : tlsAfter cfg env st0 i fuel = true) : ∀ x ∈ featuresAfter cfg env st0 i fuel, x.2 = true := by
  unfold tlsAfter at ht
  unfold featuresAfter
  split
  · intro x hx; cases hx
  · next hu =>
    rw [if_neg hu] at ht
    exact loop_all FC_io FC_neg FC_install cfg fuel false (init env st0 i)
      (fun _ x hx => (by cases hx)) ht

end XmppModel.StartTLS
