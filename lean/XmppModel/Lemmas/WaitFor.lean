import XmppModel.Model.WaitFor
/-! Lemmas about `Model/WaitFor.lean`: with disjoint lock sets Serve always reads its input to
the end; with a shared lock there is a reachable wedge. -/
namespace XmppModel.WaitFor

variable {α : Type} [DecidableEq α]

/-- invariant: the locks the running handler still has to take are not held by the waiting call -/
def todoOk (held : List α) (st : St α) : Prop :=
  ∀ ls, st.todo = some ls → ∀ x ∈ ls, held.contains x = false

theorem disjoint_iff {held acq : List α} :
    disjoint held acq = true ↔ ∀ x ∈ acq, held.contains x = false := by
  simp [disjoint, List.all_eq_true]

theorem todoOk_init (held : List α) (aw : Bool) (inbox : List Msg) :
    todoOk held ⟨aw, none, inbox⟩ := by
  intro ls h; cases h

theorem step_todoOk {held acq : List α} (hd : disjoint held acq = true) {st st' : St α}
    (h : todoOk held st) (hs : step held acq st = some st') : todoOk held st' := by
  obtain ⟨aw, todo, inbox⟩ := st
  cases todo with
  | none =>
    cases inbox with
    | nil => simp [step] at hs
    | cons m r =>
      cases m with
      | stanza =>
        simp [step] at hs; subst hs
        intro ls hls x hx
        simp at hls; subst hls
        exact (disjoint_iff.mp hd) x hx
      | reply =>
        simp [step] at hs; subst hs
        intro ls hls; cases hls
  | some ls =>
    cases ls with
    | nil =>
      simp [step] at hs; subst hs
      intro ls hls; cases hls
    | cons l ls =>
      simp only [step] at hs
      split at hs
      · cases hs
      · simp at hs; subst hs
        intro ls' hls' x hx
        simp at hls'; subst hls'
        exact h (l :: ls) rfl x (List.mem_cons_of_mem _ hx)

/-- with the invariant, the only state in which nothing moves is "Serve has read everything" -/
theorem no_wedge {held acq : List α} {st : St α} (h : todoOk held st)
    (hs : step held acq st = none) : finished st = true := by
  obtain ⟨aw, todo, inbox⟩ := st
  cases todo with
  | none =>
    cases inbox with
    | nil => rfl
    | cons m r => cases m <;> simp [step] at hs
  | some ls =>
    cases ls with
    | nil => simp [step] at hs
    | cons l ls =>
      have hl := h (l :: ls) rfl l (List.mem_cons_self ..)
      have hl' : l ∉ held := by simpa using hl
      simp [step, blocked] at hs
      exact absurd hs.2 hl'

theorem step_measure {held acq : List α} {st st' : St α} (hs : step held acq st = some st') :
    measure acq st' < measure acq st := by
  obtain ⟨aw, todo, inbox⟩ := st
  cases todo with
  | none =>
    cases inbox with
    | nil => simp [step] at hs
    | cons m r =>
      cases m with
      | stanza =>
        simp [step] at hs; subst hs
        simp only [measure, List.length_cons]
        rw [Nat.add_mul]; omega
      | reply =>
        simp [step] at hs; subst hs
        simp only [measure, List.length_cons]
        rw [Nat.add_mul]; omega
  | some ls =>
    cases ls with
    | nil =>
      simp [step] at hs; subst hs
      simp [measure]
    | cons l ls =>
      simp only [step] at hs
      split at hs
      · cases hs
      · simp at hs; subst hs
        simp [measure]

/-- Disjoint lock sets: from every state that satisfies the invariant, Serve reads the whole
input and returns to its loop head within `measure` steps. -/
theorem run_finishes {held acq : List α} (hd : disjoint held acq = true) :
    ∀ (n : Nat) (st : St α), todoOk held st → measure acq st ≤ n →
      finished (run held acq n st) = true := by
  intro n
  induction n with
  | zero =>
    intro st h hm
    obtain ⟨aw, todo, inbox⟩ := st
    cases todo with
    | none =>
      cases inbox with
      | nil => rfl
      | cons m r => simp [measure] at hm
    | some ls => simp [measure] at hm
  | succ n ih =>
    intro st h hm
    simp only [run]
    cases hs : step held acq st with
    | none => exact no_wedge h hs
    | some st' =>
      have := step_measure hs
      exact ih st' (step_todoOk hd h hs) (by omega)

/-- A shared lock: once a handler that still has to take it runs while the call waits, the
serve goroutine stops for ever inside that handler, whatever else is in the input. -/
theorem run_wedges {held acq : List α} {x : α} (hx : held.contains x = true) :
    ∀ (ls : List α) (inbox : List Msg) (n : Nat), x ∈ ls → ls.length ≤ n →
      wedged held acq (run held acq n ⟨true, some ls, inbox⟩) = true ∧
      (run held acq n ⟨true, some ls, inbox⟩).inbox = inbox := by
  intro ls
  induction ls with
  | nil => intro _ _ h; cases h
  | cons l ls ih =>
    intro inbox n hmem hn
    cases n with
    | zero => simp at hn
    | succ n =>
      by_cases hl : held.contains l = true
      · have hl' : l ∈ held := by simpa using hl
        have hs : step held acq (⟨true, some (l :: ls), inbox⟩ : St α) = none := by
          simp [step, blocked, hl']
        have hr : run held acq (n + 1) (⟨true, some (l :: ls), inbox⟩ : St α)
            = ⟨true, some (l :: ls), inbox⟩ := by simp [run, hs]
        rw [hr]
        refine ⟨?_, rfl⟩
        simp [wedged, hs, finished]
      · have hl' : l ∉ held := by simpa using hl
        have hs : step held acq (⟨true, some (l :: ls), inbox⟩ : St α) = some ⟨true, some ls, inbox⟩ := by
          simp [step, blocked, hl']
        have hne : x ≠ l := by
          intro e; subst e; exact hl hx
        have hmem' : x ∈ ls := by
          cases hmem with
          | head => exact absurd rfl hne
          | tail _ h => exact h
        have hr : run held acq (n + 1) (⟨true, some (l :: ls), inbox⟩ : St α)
            = run held acq n ⟨true, some ls, inbox⟩ := by simp [run, hs]
        rw [hr]
        exact ih inbox n hmem' (by simpa using hn)

end XmppModel.WaitFor
