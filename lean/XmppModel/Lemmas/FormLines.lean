import XmppModel.Model.FormLines
/-! Lemmas about the line-splitting loops of form/form.go (Model/FormLines.lean). -/
namespace XmppModel.FormLines

variable {α : Type} (sep : α → Bool)

theorem indexSep_lt : ∀ (s : List α) (i : Nat), indexSep sep s = some i → i < s.length
  | [], i, h => by simp [indexSep] at h
  | b :: r, i, h => by
    unfold indexSep at h
    by_cases hb : sep b = true
    · simp [hb] at h; subst h; simp
    · simp [hb] at h
      obtain ⟨j, hj, rfl⟩ := h
      have := indexSep_lt r j hj
      simp; omega

theorem segments_ne_nil : ∀ s : List α, segments sep s ≠ []
  | [] => by simp [segments]
  | b :: r => by
    unfold segments
    by_cases hb : sep b = true
    · simp [hb]
    · simp [hb]; split <;> simp

theorem segments_of_none : ∀ s : List α, indexSep sep s = none → segments sep s = [s]
  | [], _ => by simp [segments]
  | b :: r, h => by
    unfold indexSep at h
    by_cases hb : sep b = true
    · simp [hb] at h
    · simp [hb] at h
      have ih := segments_of_none r h
      unfold segments
      simp [hb, ih]

theorem segments_of_some : ∀ (s : List α) (i : Nat), indexSep sep s = some i →
    segments sep s = s.take i :: segments sep (s.drop (i + 1))
  | [], i, h => by simp [indexSep] at h
  | b :: r, i, h => by
    unfold indexSep at h
    by_cases hb : sep b = true
    · simp [hb] at h; subst h
      simp [segments, hb]
    · simp [hb] at h
      obtain ⟨j, hj, rfl⟩ := h
      have ih := segments_of_some r j hj
      rw [segments]
      simp [hb, ih]

/-- The text-multi loop returns as soon as the fuel exceeds the length of the text, with the
    pieces between separators appended. -/
theorem multiLoop_eq : ∀ (n : Nat) (s : List α) (acc : List (List α)), s.length < n →
    multiLoop sep n s acc = some (acc ++ segments sep s)
  | 0, _, _, h => by omega
  | n + 1, s, acc, h => by
    unfold multiLoop
    cases hi : indexSep sep s with
    | none => simp [segments_of_none sep s hi]
    | some i =>
      have hlt := indexSep_lt sep s i hi
      have hd : (s.drop (i + 1)).length < n := by simp; omega
      simp only
      rw [multiLoop_eq n _ _ hd, segments_of_some sep s i hi]
      simp

theorem nonEmpty_cons (x : List α) (l : List (List α)) :
    nonEmpty (x :: l) = if x.isEmpty then nonEmpty l else x :: nonEmpty l := by
  unfold nonEmpty
  cases x <;> simp [List.filter]

theorem instrLoop_eq : ∀ (n : Nat) (s : List α) (acc : List (List α)), s.length < n →
    instrLoop sep n s acc = some (acc ++ nonEmpty (segments sep s))
  | 0, _, _, h => by omega
  | n + 1, s, acc, h => by
    unfold instrLoop
    cases hi : indexSep sep s with
    | none =>
      rw [segments_of_none sep s hi]
      cases s <;> simp [nonEmpty]
    | some i =>
      have hlt := indexSep_lt sep s i hi
      have hd : (s.drop (i + 1)).length < n := by simp; omega
      simp only
      rw [instrLoop_eq n _ _ hd, segments_of_some sep s i hi, nonEmpty_cons]
      by_cases he : (List.take i s).isEmpty = true <;> simp [he]

/-- A loop that does not advance behind an empty line never returns, whatever the fuel. -/
theorem stuckLoop_stuck : ∀ (n : Nat) (s : List α) (acc : List (List α)),
    indexSep sep s = some 0 → stuckLoop sep n s acc = none
  | 0, _, _, _ => by simp [stuckLoop]
  | n + 1, s, acc, h => by
    unfold stuckLoop
    simp [h, stuckLoop_stuck n s acc h]

theorem segments_no_sep : ∀ (s : List α), ∀ l ∈ segments sep s, ∀ b ∈ l, sep b = false
  | [], l, hl, b, hb => by simp [segments] at hl; subst hl; simp at hb
  | a :: r, l, hl, b, hb => by
    have ih := segments_no_sep r
    unfold segments at hl
    by_cases ha : sep a = true
    · simp [ha] at hl
      rcases hl with rfl | hl
      · simp at hb
      · exact ih l hl b hb
    · simp [ha] at hl
      cases hs : segments sep r with
      | nil => exact absurd hs (segments_ne_nil sep r)
      | cons x xs =>
        rw [hs] at hl ih
        simp at hl
        rcases hl with rfl | hl
        · simp at hb
          rcases hb with rfl | hb
          · simpa using ha
          · exact ih x (by simp) b hb
        · exact ih l (by simp [hl]) b hb

theorem segments_length : ∀ s : List α, (segments sep s).length = (s.filter sep).length + 1
  | [] => by simp [segments]
  | a :: r => by
    have ih := segments_length r
    unfold segments
    by_cases ha : sep a = true
    · simp [ha, ih]
    · simp [ha]
      cases hs : segments sep r with
      | nil => exact absurd hs (segments_ne_nil sep r)
      | cons x xs => rw [hs] at ih; simp at ih ⊢; omega

/-- Nothing is lost: the pieces and the separators add up to the text. -/
theorem segments_total : ∀ s : List α,
    ((segments sep s).map List.length).sum + (s.filter sep).length = s.length
  | [] => by simp [segments]
  | a :: r => by
    have ih := segments_total r
    unfold segments
    by_cases ha : sep a = true
    · simp [ha]; omega
    · simp [ha]
      cases hs : segments sep r with
      | nil => exact absurd hs (segments_ne_nil sep r)
      | cons x xs => rw [hs] at ih; simp at ih ⊢; omega

end XmppModel.FormLines
