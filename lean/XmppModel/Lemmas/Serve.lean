import XmppModel.Model.Serve
/-! Helper lemmas for C07 and C08. -/
namespace XmppModel.Serve
open XmppModel.Xml

/-! ### the reply detector against the nesting structure of what was written -/

/-- the start tags at nesting level 0 of a token list read from depth `d` (the specification
of "top-level element" the detector is compared with) -/
def topStarts : Nat → List Tok → List Tok
  | _, [] => []
  | d, .start n as :: ts => (if d == 0 then [Tok.start n as] else []) ++ topStarts (d + 1) ts
  | d, .stop _ :: ts => topStarts (d - 1) ts
  | d, _ :: ts => topStarts d ts

/-- is this start tag a reply to request `id` -/
def isReplyTok (id : String) : Tok → Bool
  | .start n as => isReplyStart id n as
  | _ => false

/-- the handler's (or anybody's) replies to `id` among the top-level elements of `ts` -/
def topReplies (id : String) (ts : List Tok) : List Tok := (topStarts 0 ts).filter (isReplyTok id)

theorem encAll_nil (id : String) (w : WS) : w.encAll id [] = w := rfl

theorem encAll_cons (id : String) (w : WS) (t : Tok) (ts : List Tok) :
    w.encAll id (t :: ts) = (w.enc id t).encAll id ts := rfl

theorem encAll_append (id : String) (w : WS) (a b : List Tok) :
    w.encAll id (a ++ b) = (w.encAll id a).encAll id b := by
  simp [WS.encAll, List.foldl_append]

/-- the detector's `level`/`wroteResp` bookkeeping computes exactly "some start tag at nesting
level 0 is a reply", for every token list that never closes more than it opened -/
theorem encAll_spec (id : String) :
    ∀ (ts : List Tok) (d d' : Nat) (w : WS), w.level = (d : Int) → depthAfter d ts = some d' →
      (w.encAll id ts).wrote = (w.wrote || (topStarts d ts).any (isReplyTok id)) ∧
      (w.encAll id ts).level = (d' : Int) ∧ (w.encAll id ts).out = w.out ++ ts := by
  intro ts
  induction ts with
  | nil =>
    intro d d' w hl hd
    simp [depthAfter] at hd
    subst hd
    simp [encAll_nil, topStarts, hl]
  | cons t ts ih =>
    intro d d' w hl hd
    rw [encAll_cons]
    cases t with
    | start n as =>
      simp only [depthAfter] at hd
      have := ih (d + 1) d' (w.enc id (.start n as)) (by simp [WS.enc, hl]) hd
      obtain ⟨h1, h2, h3⟩ := this
      refine ⟨?_, h2, ?_⟩
      · rw [h1]
        simp only [WS.enc, topStarts, hl]
        by_cases hd0 : d = 0
        · subst hd0
          simp [isReplyTok, Bool.or_assoc]
        · have : ¬ ((d : Int) < 1) := by omega
          simp [hd0, this]
      · rw [h3]; simp [WS.enc]
    | stop n =>
      cases d with
      | zero => simp [depthAfter] at hd
      | succ d =>
        simp only [depthAfter] at hd
        have := ih d d' (w.enc id (.stop n)) (by simp [WS.enc, hl]) hd
        obtain ⟨h1, h2, h3⟩ := this
        refine ⟨?_, h2, ?_⟩
        · rw [h1]; simp [WS.enc, topStarts]
        · rw [h3]; simp [WS.enc]
    | chars s =>
      simp only [depthAfter] at hd
      have := ih d d' (w.enc id (.chars s)) (by simp [WS.enc, hl]) hd
      obtain ⟨h1, h2, h3⟩ := this
      exact ⟨by rw [h1]; simp [WS.enc, topStarts], h2, by rw [h3]; simp [WS.enc]⟩
    | comment s =>
      simp only [depthAfter] at hd
      have := ih d d' (w.enc id (.comment s)) (by simp [WS.enc, hl]) hd
      obtain ⟨h1, h2, h3⟩ := this
      exact ⟨by rw [h1]; simp [WS.enc, topStarts], h2, by rw [h3]; simp [WS.enc]⟩
    | procInst a b =>
      simp only [depthAfter] at hd
      have := ih d d' (w.enc id (.procInst a b)) (by simp [WS.enc, hl]) hd
      obtain ⟨h1, h2, h3⟩ := this
      exact ⟨by rw [h1]; simp [WS.enc, topStarts], h2, by rw [h3]; simp [WS.enc]⟩
    | directive s =>
      simp only [depthAfter] at hd
      have := ih d d' (w.enc id (.directive s)) (by simp [WS.enc, hl]) hd
      obtain ⟨h1, h2, h3⟩ := this
      exact ⟨by rw [h1]; simp [WS.enc, topStarts], h2, by rw [h3]; simp [WS.enc]⟩

theorem topStarts_append : ∀ (a b : List Tok) (d d' : Nat), depthAfter d a = some d' →
    topStarts d (a ++ b) = topStarts d a ++ topStarts d' b := by
  intro a
  induction a with
  | nil => intro b d d' h; simp [depthAfter] at h; subst h; simp [topStarts]
  | cons t ts ih =>
    intro b d d' h
    cases t with
    | start n as =>
      simp only [depthAfter] at h
      simp [topStarts, ih b (d + 1) d' h, List.append_assoc]
    | stop n =>
      cases d with
      | zero => simp [depthAfter] at h
      | succ d =>
        simp only [depthAfter] at h
        simp [topStarts, ih b d d' h]
    | chars s => simp only [depthAfter] at h; simp [topStarts, ih b d d' h]
    | comment s => simp only [depthAfter] at h; simp [topStarts, ih b d d' h]
    | procInst x y => simp only [depthAfter] at h; simp [topStarts, ih b d d' h]
    | directive s => simp only [depthAfter] at h; simp [topStarts, ih b d d' h]

/-- reads do not touch the writer: after any program the writer state is the one obtained by
encoding the program's writes in order -/
theorem runOps_ws (id : String) : ∀ (ops : List Op) (e : ES) (w : WS) (acc : List Obs),
    (runOps id ops e w acc).2.2 = w.encAll id (writesOf ops) := by
  intro ops
  induction ops with
  | nil => intro e w acc; simp [runOps, writesOf, encAll_nil]
  | cons o ops ih =>
    intro e w acc
    cases o with
    | read => simp [runOps, writesOf, ih]
    | write ts => simp [runOps, writesOf, ih, encAll_append]

theorem enc_out (id : String) (w : WS) (t : Tok) : (w.enc id t).out = w.out ++ [t] := by
  cases t <;> simp [WS.enc]

theorem encAll_out (id : String) : ∀ (ts : List Tok) (w : WS), (w.encAll id ts).out = w.out ++ ts := by
  intro ts
  induction ts with
  | nil => intro w; simp [encAll_nil]
  | cons t ts ih => intro w; rw [encAll_cons, ih, enc_out]; simp

theorem any_eq_not_filter_isEmpty {α} (p : α → Bool) : ∀ l : List α, l.any p = !(l.filter p).isEmpty := by
  intro l
  induction l with
  | nil => rfl
  | cons a l ih =>
    by_cases h : p a = true
    · simp [List.filter, h]
    · simp [List.filter, h, ih]

end XmppModel.Serve
