import XmppModel.Model.Serve
/-! Helper lemmas for C07 and C08. -/
namespace XmppModel.Serve
open XmppModel.Xml

/-! ### the reply detector against the nesting structure of what was written -/

/-- the start tags at nesting level 0 of a token list read from depth `d` (the specification
of "top-level element" the detector is compared with) -/
def topStarts : Nat → List Tok → List Tok
  | _, [] => []
  | d, .start n as :: ts => (if d == 0 then [Tok.start n as] else []) ++ topStarts (d + 1) ts
  | d, .stop _ :: ts => topStarts (d - 1) ts
  | d, _ :: ts => topStarts d ts

/-- is this start tag a reply to request `id` -/
def isReplyTok (id : String) : Tok → Bool
  | .start n as => isReplyStart id n as
  | _ => false

/-- the handler's (or anybody's) replies to `id` among the top-level elements of `ts` -/
def topReplies (id : String) (ts : List Tok) : List Tok := (topStarts 0 ts).filter (isReplyTok id)

theorem encAll_nil (id : String) (w : WS) : w.encAll id [] = w := rfl

theorem encAll_cons (id : String) (w : WS) (t : Tok) (ts : List Tok) :
    w.encAll id (t :: ts) = (w.enc id t).encAll id ts := rfl

theorem encAll_append (id : String) (w : WS) (a b : List Tok) :
    w.encAll id (a ++ b) = (w.encAll id a).encAll id b := by
  simp [WS.encAll, List.foldl_append]

/-- the detector's `level`/`wroteResp` bookkeeping computes exactly "some start tag at nesting
level 0 is a reply", for every token list that never closes more than it opened -/
theorem encAll_spec (id : String) :
    ∀ (ts : List Tok) (d d' : Nat) (w : WS), w.level = (d : Int) → depthAfter d ts = some d' →
      (w.encAll id ts).wrote = (w.wrote || (topStarts d ts).any (isReplyTok id)) ∧
      (w.encAll id ts).level = (d' : Int) ∧ (w.encAll id ts).out = w.out ++ ts := by
  intro ts
  induction ts with
  | nil =>
    intro d d' w hl hd
    simp [depthAfter] at hd
    subst hd
    simp [encAll_nil, topStarts, hl]
  | cons t ts ih =>
    intro d d' w hl hd
    rw [encAll_cons]
    cases t with
    | start n as =>
      simp only [depthAfter] at hd
      have := ih (d + 1) d' (w.enc id (.start n as)) (by simp [WS.enc, hl]) hd
      obtain ⟨h1, h2, h3⟩ := this
      refine ⟨?_, h2, ?_⟩
      · rw [h1]
        simp only [WS.enc, topStarts, hl]
        by_cases hd0 : d = 0
        · subst hd0
          simp [isReplyTok, Bool.or_assoc]
        · have : ¬ ((d : Int) < 1) := by omega
          simp [hd0, this]
      · rw [h3]; simp [WS.enc]
    | stop n =>
      cases d with
      | zero => simp [depthAfter] at hd
      | succ d =>
        simp only [depthAfter] at hd
        have := ih d d' (w.enc id (.stop n)) (by simp [WS.enc, hl]) hd
        obtain ⟨h1, h2, h3⟩ := this
        refine ⟨?_, h2, ?_⟩
        · rw [h1]; simp [WS.enc, topStarts]
        · rw [h3]; simp [WS.enc]
    | chars s =>
      simp only [depthAfter] at hd
      have := ih d d' (w.enc id (.chars s)) (by simp [WS.enc, hl]) hd
      obtain ⟨h1, h2, h3⟩ := this
      exact ⟨by rw [h1]; simp [WS.enc, topStarts], h2, by rw [h3]; simp [WS.enc]⟩
    | comment s =>
      simp only [depthAfter] at hd
      have := ih d d' (w.enc id (.comment s)) (by simp [WS.enc, hl]) hd
      obtain ⟨h1, h2, h3⟩ := this
      exact ⟨by rw [h1]; simp [WS.enc, topStarts], h2, by rw [h3]; simp [WS.enc]⟩
    | procInst a b =>
      simp only [depthAfter] at hd
      have := ih d d' (w.enc id (.procInst a b)) (by simp [WS.enc, hl]) hd
      obtain ⟨h1, h2, h3⟩ := this
      exact ⟨by rw [h1]; simp [WS.enc, topStarts], h2, by rw [h3]; simp [WS.enc]⟩
    | directive s =>
      simp only [depthAfter] at hd
      have := ih d d' (w.enc id (.directive s)) (by simp [WS.enc, hl]) hd
      obtain ⟨h1, h2, h3⟩ := this
      exact ⟨by rw [h1]; simp [WS.enc, topStarts], h2, by rw [h3]; simp [WS.enc]⟩

theorem topStarts_append : ∀ (a b : List Tok) (d d' : Nat), depthAfter d a = some d' →
    topStarts d (a ++ b) = topStarts d a ++ topStarts d' b := by
  intro a
  induction a with
  | nil => intro b d d' h; simp [depthAfter] at h; subst h; simp [topStarts]
  | cons t ts ih =>
    intro b d d' h
    cases t with
    | start n as =>
      simp only [depthAfter] at h
      simp [topStarts, ih b (d + 1) d' h, List.append_assoc]
    | stop n =>
      cases d with
      | zero => simp [depthAfter] at h
      | succ d =>
        simp only [depthAfter] at h
        simp [topStarts, ih b d d' h]
    | chars s => simp only [depthAfter] at h; simp [topStarts, ih b d d' h]
    | comment s => simp only [depthAfter] at h; simp [topStarts, ih b d d' h]
    | procInst x y => simp only [depthAfter] at h; simp [topStarts, ih b d d' h]
    | directive s => simp only [depthAfter] at h; simp [topStarts, ih b d d' h]

/-- reads do not touch the writer: after any program the writer state is the one obtained by
encoding the program's writes in order -/
theorem runOps_ws (id : String) : ∀ (ops : List Op) (e : ES) (w : WS) (acc : List Obs),
    (runOps id ops e w acc).2.2 = w.encAll id (writesOf ops) := by
  intro ops
  induction ops with
  | nil => intro e w acc; simp [runOps, writesOf, encAll_nil]
  | cons o ops ih =>
    intro e w acc
    cases o with
    | read => simp [runOps, writesOf, ih]
    | write ts => simp [runOps, writesOf, ih, encAll_append]

theorem enc_out (id : String) (w : WS) (t : Tok) : (w.enc id t).out = w.out ++ [t] := by
  cases t <;> simp [WS.enc]

theorem encAll_out (id : String) : ∀ (ts : List Tok) (w : WS), (w.encAll id ts).out = w.out ++ ts := by
  intro ts
  induction ts with
  | nil => intro w; simp [encAll_nil]
  | cons t ts ih => intro w; rw [encAll_cons, ih, enc_out]; simp

theorem any_eq_not_filter_isEmpty {α} (p : α → Bool) : ∀ l : List α, l.any p = !(l.filter p).isEmpty := by
  intro l
  induction l with
  | nil => rfl
  | cons a l ih =>
    by_cases h : p a = true
    · simp [List.filter, h]
    · simp [List.filter, h, ih]

/-! ### what can reach a handler (C08) -/

/-- ordinary content: text, and start / end tags outside the stream namespace -/
def plainTok : Tok → Bool
  | .chars _ => true
  | .start n _ => n.space != nsStream
  | .stop n => n.space != nsStream
  | _ => false

theorem verdict_tok {d d' : Nat} {t t' : Tok} {rest : List Tok}
    (h : verdict d t rest = (d', .tok t')) : t' = t ∧ plainTok t = true := by
  cases t with
  | chars s =>
    simp only [verdict, Prod.mk.injEq] at h
    obtain ⟨_, h⟩ := h
    split at h
    · cases h
    · injection h with h; exact ⟨h.symm, rfl⟩
  | start n as =>
    simp only [verdict, Prod.mk.injEq] at h
    obtain ⟨_, h⟩ := h
    by_cases hn : (n.space != nsStream) = true
    · rw [if_pos hn] at h; injection h with h; exact ⟨h.symm, by simpa [plainTok] using hn⟩
    · rw [if_neg hn] at h
      repeat' split at h
      all_goals cases h
  | stop n =>
    simp only [verdict, Prod.mk.injEq] at h
    obtain ⟨_, h⟩ := h
    by_cases hn : (n.space != nsStream) = true
    · rw [if_pos hn] at h; injection h with h; exact ⟨h.symm, by simpa [plainTok] using hn⟩
    · rw [if_neg hn] at h
      split at h <;> cases h
  | comment s => simp [verdict] at h
  | procInst a b => simp [verdict] at h
  | directive s => simp [verdict] at h

theorem RS.next_tok {s s' : RS} {t : Tok} (h : s.next = (.tok t, s')) : plainTok t = true := by
  unfold RS.next at h
  cases hs : s.sticky with
  | some f => cases f <;> simp [hs, Fail.rd] at h
  | none =>
    simp only [hs] at h
    cases hi : s.inp with
    | nil => simp [hi] at h
    | cons a rest =>
      simp only [hi] at h
      generalize hv : verdict s.dIn a rest = v at h
      obtain ⟨dIn', r1⟩ := v
      cases r1 with
      | tok t1 =>
        simp only at h
        generalize hv2 : verdict s.dOut t1 rest = v2 at h
        obtain ⟨dOut', r2⟩ := v2
        cases r2 with
        | tok t2 =>
          simp only [Prod.mk.injEq] at h
          have h1 := verdict_tok hv
          have h2 := verdict_tok hv2
          have : t = t2 := by injection h.1 with h'; exact h'.symm
          rw [this, h2.1, h1.1]; exact h1.2
        | err e => simp at h
        | eof => simp at h
      | err e => simp at h
      | eof => simp at h

theorem ES.read_tok {e e' : ES} {t : Tok} (h : e.read = (.tok t, e')) : plainTok t = true := by
  unfold ES.read at h
  by_cases hf : e.fin = true
  · simp [hf] at h
  · simp only [hf] at h
    generalize hn : e.rs.next = r at h
    obtain ⟨rd, rs'⟩ := r
    cases rd with
    | tok t1 =>
      have hp := RS.next_tok hn
      cases t1 with
      | start n as => simp at h; rw [← h.1]; exact hp
      | stop n =>
        simp only at h
        by_cases hc : e.cnt = 0
        · simp [hc] at h; rw [← h.1]; exact hp
        · simp [hc] at h; rw [← h.1]; exact hp
      | chars s => simp at h; rw [← h.1]; exact hp
      | comment s => simp [plainTok] at hp
      | procInst a b => simp [plainTok] at hp
      | directive s => simp [plainTok] at hp
    | err x => simp at h
    | eof => simp at h

/-- every token among a list of observations is ordinary content -/
def ObsClean (l : List Obs) : Prop := ∀ t, Obs.tok t ∈ l → plainTok t = true

theorem runOps_clean (id : String) : ∀ (ops : List Op) (e : ES) (w : WS) (acc : List Obs),
    ObsClean acc → ObsClean (runOps id ops e w acc).1 := by
  intro ops
  induction ops with
  | nil => intro e w acc h t ht; simp [runOps] at ht; exact h t ht
  | cons o ops ih =>
    intro e w acc h
    cases o with
    | write ts => simp only [runOps]; exact ih e _ acc h
    | read =>
      simp only [runOps]
      generalize hr : e.read = r
      obtain ⟨o, e'⟩ := r
      apply ih
      intro t ht
      rcases List.mem_cons.mp ht with ht | ht
      · have ho : o = Obs.tok t := by simpa using ht.symm
        subst ho
        exact ES.read_tok hr
      · exact h t ht

/-- an invocation is clean when its start tag is outside the stream namespace and every token
it could read is ordinary content -/
def InvClean (i : Inv) : Prop :=
  (∃ n as, i.start = .start n as ∧ plainTok (.start n as) = true) ∧ ObsClean i.view

def Step.inv : Step → Option Inv
  | .next i _ _ => i
  | .stop i _ _ => i

theorem handleElem_clean (cfg : Cfg) (n : Name) (as : List Attr) (rs1 : RS) (prog : Prog)
    (hn : plainTok (.start n as) = true) :
    ∀ i, (handleElem cfg n as rs1 prog).inv = some i → InvClean i := by
  intro i hi
  have hv := runOps_clean (getId (blankFrom cfg n as)) prog.ops { rs := rs1, cnt := 0, fin := false } WS.init []
    (by intro t ht; simp at ht)
  have key : i = Inv.mk (Tok.start n (blankFrom cfg n as))
      (runOps (getId (blankFrom cfg n as)) prog.ops { rs := rs1, cnt := 0, fin := false } WS.init []).1 := by
    unfold handleElem at hi
    simp only at hi
    cases hret : prog.ret <;> simp only [hret] at hi
    · repeat' split at hi
      all_goals (simp [Step.inv] at hi; exact hi.symm)
    · simp [Step.inv] at hi; exact hi.symm
    · simp [Step.inv] at hi; exact hi.symm
    · split at hi <;> (simp [Step.inv] at hi; exact hi.symm)
    all_goals (simp [Step.inv] at hi; exact hi.symm)
  subst key
  exact ⟨⟨n, _, rfl, by simpa [plainTok] using hn⟩, hv⟩

theorem handleInputStream_clean (cfg : Cfg) (rs : RS) (prog : Prog) :
    ∀ i, (handleInputStream cfg rs prog).inv = some i → InvClean i := by
  intro i hi
  unfold handleInputStream at hi
  generalize hn : ({ rs with dOut := 0, sticky := none } : RS).next = r at hi
  obtain ⟨rd, rs1⟩ := r
  cases rd with
  | eof => simp [Step.inv] at hi
  | err e => simp [Step.inv] at hi
  | tok t =>
    have hp := RS.next_tok hn
    cases t with
    | start n as => exact handleElem_clean cfg n as rs1 prog hp i hi
    | chars s => simp [Step.inv] at hi
    | stop n => simp [Step.inv] at hi
    | comment s => simp [Step.inv] at hi
    | procInst a b => simp [Step.inv] at hi
    | directive s => simp [Step.inv] at hi

theorem serveF_clean (cfg : Cfg) : ∀ (fuel : Nat) (rs : RS) (progs : List Prog),
    ∀ i ∈ (serveF cfg fuel rs progs).invs, InvClean i := by
  intro fuel
  induction fuel with
  | zero => intro rs progs i hi; simp [serveF] at hi
  | succ f ih =>
    intro rs progs i hi
    unfold serveF at hi
    have hc := handleInputStream_clean cfg rs (progs.headD Prog.nop)
    generalize hs : handleInputStream cfg rs (progs.headD Prog.nop) = st at hi hc
    cases st with
    | stop inv w res =>
      simp only at hi
      cases inv with
      | none => simp at hi
      | some j =>
        have : i = j := by simpa using hi
        rw [this]; exact hc j rfl
    | next inv w rs' =>
      simp only [List.mem_append] at hi
      rcases hi with hi | hi
      · cases inv with
        | none => simp at hi
        | some j =>
          have : i = j := by simpa using hi
          rw [this]; exact hc j rfl
      · exact ih _ _ i hi

/-- whatever the handler does and returns, `handleElem` never ends the session cleanly -/
theorem handleElem_never_clean (cfg : Cfg) (n : Name) (as : List Attr) (rs1 : RS) (prog : Prog)
    (inv : Option Inv) (w : List Tok) : handleElem cfg n as rs1 prog ≠ .stop inv w .clean := by
  unfold handleElem
  simp only
  cases hr : prog.ret <;> simp only [hr] <;> (repeat' split) <;> simp

theorem dropWritten_clean {x : Step} {inv : Option Inv} {w : List Tok}
    (h : x.dropWritten = .stop inv w .clean) : ∃ w', x = .stop inv w' .clean := by
  cases x with
  | next i w' rs => simp [Step.dropWritten] at h
  | stop i w' r => simp [Step.dropWritten] at h; exact ⟨w', by simp [h.1, h.2.2]⟩

end XmppModel.Serve
