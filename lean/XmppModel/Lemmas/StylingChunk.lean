import XmppModel.Lemmas.StylingScanner
import XmppModel.Lemmas.StylingStable
/-! Chunk independence of the scanner model for any *stable* split function. -/
namespace XmppModel.Styling

/-- A split function is stable when a decision taken on a non-final window is the decision
on every extension of that window, and asking for more data leaves the state such that the
next call (on an extension) behaves as if the first call had not happened. -/
structure Stable {σ : Type} (split : Split σ) (I : σ → Prop) : Prop where
  tok_ext : ∀ s d x e a t s', I s → d ≠ [] → split s d false = (.tok a t, s') →
    split s (d ++ x) e = (.tok a t, s')
  more_ext : ∀ s d x e s', I s → d ≠ [] → split s d false = (.more, s') →
    split s' (d ++ x) e = split s (d ++ x) e

/-- the reference run: the whole input is buffered and EOF is known -/
def refRun {σ : Type} (split : Split σ) (fuel : Nat) (s : σ) (d : Bytes) : List (Bytes × σ) × End :=
  scanner split none fuel [] true s d [] true

theorem refRun_congr {σ : Type} (split : Split σ) (fuel : Nat) (s s' : σ) (d : Bytes)
    (h : split s' d true = split s d true) : refRun split fuel s' d = refRun split fuel s d := by
  cases fuel with
  | zero => rfl
  | succ k =>
    unfold refRun scanner
    simp only [Bool.not_true, Bool.and_false, Bool.false_eq_true, if_false]
    rw [h]

theorem scanner_chunk_indep {σ : Type} (split : Split σ) (I : σ → Prop) (spec : SplitSpec split I)
    (st : Stable split I) :
    ∀ (fuel : Nat) (sizes : List Nat) (dataEOF : Bool) (s : σ) (buf pending : Bytes) (eof : Bool),
      I s → (eof = true → pending = []) → runMeasure buf pending eof < fuel →
      ∀ fuel', (buf ++ pending).length < fuel' →
      scanner split none fuel sizes dataEOF s buf pending eof = refRun split fuel' s (buf ++ pending) := by
  intro fuel
  induction fuel with
  | zero => intro _ _ _ _ _ _ _ _ h; omega
  | succ fuel ih =>
    intro sizes dataEOF s buf pending eof hI hep hf fuel' hf'
    by_cases hb : (buf.isEmpty && !eof) = true
    · -- nothing buffered, EOF not yet seen: read
      simp only [Bool.and_eq_true, List.isEmpty_iff, Bool.not_eq_true'] at hb
      obtain ⟨hb1, hb2⟩ := hb
      subst hb1 hb2
      unfold scanner
      simp only [List.isEmpty_nil, Bool.not_false, Bool.and_self, if_true, readStep, Bool.false_eq_true,
        if_false, atLimit, List.nil_append]
      have hm : runMeasure (pending.take (chunkSize sizes pending.length))
          (pending.drop (chunkSize sizes pending.length))
          (pending.isEmpty || (dataEOF && (pending.drop (chunkSize sizes pending.length)).isEmpty)) < fuel := by
        by_cases hp : pending = []
        · subst hp; simp [runMeasure] at hf ⊢; omega
        · have hk : 1 ≤ chunkSize sizes pending.length := by
            unfold chunkSize
            cases pending with
            | nil => exact absurd rfl hp
            | cons p ps => split <;> (try simp only [List.length_cons]) <;> omega
          have := measure_read [] pending _ hk
            (pending.isEmpty || (dataEOF && (pending.drop (chunkSize sizes pending.length)).isEmpty))
            (by intro h; exact absurd h hp)
          simp only [List.nil_append] at this
          omega
      have := ih sizes.tail dataEOF s _ _ _ hI (by
        intro h
        simp only [Bool.or_eq_true, List.isEmpty_iff, Bool.and_eq_true] at h
        rcases h with h | h
        · simp [h]
        · exact h.2) hm fuel' (by simpa using hf')
      simpa using this
    · obtain ⟨k, rfl⟩ : ∃ k, fuel' = k + 1 := ⟨fuel' - 1, by omega⟩
      cases eof with
      | true =>
        -- everything is buffered already: both runs make the same call
        have hp := hep rfl
        subst hp
        simp only [List.append_nil] at hf' ⊢
        unfold refRun
        rw [scanner, scanner]
        simp only [Bool.not_true, Bool.and_false, Bool.false_eq_true, if_false]
        cases hsp : split s buf true with
        | mk o s' =>
          cases o with
          | more => simp [readStep]
          | panic => rfl
          | tok a t =>
            simp only []
            by_cases hc : (a == 0 || decide (a > buf.length)) = true
            · rw [if_pos hc, if_pos hc]
            · rw [if_neg hc, if_neg hc]
              simp only [Bool.or_eq_true, beq_iff_eq, decide_eq_true_eq, not_or] at hc
              have hne : 0 < buf.length := by omega
              have hI' : I s' := by have := (spec.call_ok s buf true hI hne).2; rw [hsp] at this; exact this
              have := ih sizes dataEOF s' (buf.drop a) [] true hI' (by simp)
                (by simp [runMeasure] at hf ⊢; omega) k (by simp; omega)
              simp only [List.append_nil] at this
              rw [this]; rfl
      | false =>
        have hne : buf ≠ [] := by
          intro h; apply hb; simp [h]
        have hlen : 0 < buf.length := List.length_pos_iff.mpr hne
        rw [scanner]
        simp only [hb, Bool.false_eq_true, if_false]
        cases hsp : split s buf false with
        | mk o s' =>
          have hg := spec.call_ok s buf false hI hlen
          rw [hsp] at hg
          obtain ⟨hg, hI'⟩ := hg
          cases o with
          | panic => exact absurd hg (by simp [Out.Good])
          | tok a t =>
            obtain ⟨ha0, hal, ht⟩ := hg
            have hext := st.tok_ext s buf pending true a t s' hI hne hsp
            unfold refRun
            rw [scanner]
            simp only [Bool.not_true, Bool.and_false, Bool.false_eq_true, if_false, hext]
            have hc1 : ¬((a == 0 || decide (a > buf.length)) = true) := by simp; omega
            have hc2 : ¬((a == 0 || decide (a > (buf ++ pending).length)) = true) := by simp; omega
            rw [if_neg hc1, if_neg hc2]
            have := ih sizes dataEOF s' (buf.drop a) pending false hI' hep
              (by have := measure_drop buf pending false a ha0 hal; omega) k
              (by simp at hf' ⊢; omega)
            rw [this, refRun, List.drop_append_of_le_length hal]
          | more =>
            simp only [readStep, Bool.false_eq_true, if_false, atLimit]
            have hm : runMeasure (buf ++ pending.take (chunkSize sizes pending.length))
                (pending.drop (chunkSize sizes pending.length))
                (pending.isEmpty || (dataEOF && (pending.drop (chunkSize sizes pending.length)).isEmpty)) < fuel := by
              by_cases hp : pending = []
              · subst hp; simp [runMeasure] at hf ⊢; omega
              · have hk : 1 ≤ chunkSize sizes pending.length := by
                  unfold chunkSize
                  cases pending with
                  | nil => exact absurd rfl hp
                  | cons p ps => split <;> (try simp only [List.length_cons]) <;> omega
                have := measure_read buf pending _ hk
                  (pending.isEmpty || (dataEOF && (pending.drop (chunkSize sizes pending.length)).isEmpty))
                  (by intro h; exact absurd h hp)
                omega
            have := ih sizes.tail dataEOF s' _ _ _ hI' (by
              intro h
              simp only [Bool.or_eq_true, List.isEmpty_iff, Bool.and_eq_true] at h
              rcases h with h | h
              · simp [h]
              · exact h.2) hm (k + 1) (by simpa using hf')
            rw [this, List.append_assoc, List.take_append_drop]
            exact refRun_congr split (k + 1) s s' (buf ++ pending)
              (st.more_ext s buf pending true s' hI hne hsp)

/-- the styling split function is stable -/
theorem decScan_stable : Stable Dec.scan Dec.OK where
  tok_ext := by
    intro s d x e a t s' _ hne h
    have hr := scanLv_rel d false false s.lv s.inner
    unfold Dec.scan at h ⊢
    simp only [Prod.mk.injEq] at h
    obtain ⟨h1, h2⟩ := h
    have := scanLv_tok_ext x e hne hr h1
    simp only [this, h1, h2]
  more_ext := by
    intro s d x e s' _ hne h
    have hr := scanLv_rel d false false s.lv s.inner
    unfold Dec.scan at h ⊢
    simp only [Prod.mk.injEq] at h
    obtain ⟨h1, h2⟩ := h
    have := scanLv_more_ext x e hne hr h1
    subst h2
    simp only [this]

/-- every schedule gives the reference run of the styling decoder -/
theorem scanDoc_eq_ref (sch : Schedule) (doc : Bytes) :
    scanDoc none sch doc = refRun Dec.scan (fuelFor doc) {} doc := by
  have := scanner_chunk_indep Dec.scan Dec.OK decScan_spec decScan_stable (fuelFor doc) sch.sizes sch.dataEOF
    {} [] doc false Dec.ok_init (by simp) (by simp [runMeasure, fuelFor]) (fuelFor doc) (by simp [fuelFor]; omega)
  simpa [scanDoc] using this

end XmppModel.Styling
