import XmppModel.Model.SendGuard
/-! Inductiveness of the guard-under-lock invariant (C05, round C). -/
namespace XmppModel.SendGuard

variable {α : Type}

@[simp] theorem setPc_same (pc : Nat → Pc) (i : Nat) (v : Pc) : setPc pc i v i = v := by simp [setPc]
theorem setPc_other (pc : Nat → Pc) {i j : Nat} (v : Pc) (h : j ≠ i) : setPc pc i v j = pc j := by
  simp [setPc, h]

theorem inv_init (p : Prog α) : Inv p (init α) where
  holder := by intro i k h; simp [init] at h
  fresh := by intro i _; rfl
  nested := rfl
  pos := by intro i k h; simp [init] at h
  no_checked := by intro i h; simp [init] at h
  why_inside := by intro h; simp [init] at h
  why_refused := by intro i h; simp [init] at h

/-- a failed call other than the one that moves is still failed -/
theorem failed_kept (s : St α) (i : Nat) (v : Pc) (hi : s.pc i ≠ .failed) :
    (∃ j, s.pc j = .failed) → ∃ j, setPc s.pc i v j = .failed := by
  rintro ⟨j, hj⟩
  have hji : j ≠ i := by intro h; subst h; exact hi hj
  exact ⟨j, by rw [setPc_other _ _ hji]; exact hj⟩

theorem holder_unique (p : Prog α) (s : St α) (inv : Inv p s) {i j k : Nat} (hl : s.lock = some i)
    (hj : s.pc j = .holding k) : j = i := by
  have := inv.holder j k hj
  rw [hl] at this
  injection this with h
  exact h.symm

/-- the invariant is preserved by every step of every call, provided every call asks under
the lock -/
theorem inv_step (p : Prog α) (he : ∀ i, p.early i = false) (s s' : St α) (i : Nat)
    (inv : Inv p s) (h : step p s i = some s') : Inv p s' := by
  unfold step at h
  cases hpc : s.pc i with
  | idle =>
    rw [hpc] at h
    dsimp only at h
    rw [if_neg (by simp [he i])] at h
    have hnf : s.pc i ≠ .failed := by rw [hpc]; intro h; cases h
    cases hlk : s.lock with
    | some j => rw [hlk] at h; simp at h
    | none =>
      rw [hlk] at h
      dsimp only at h
      by_cases hin : s.inside = true
      · rw [if_pos hin] at h
        simp only [Option.some.injEq] at h
        subst h
        have hfailed : ∃ j, s.pc j = .failed := by
          rcases inv.why_inside hin with ⟨j, k, hj, _⟩ | hf
          · rw [hlk] at hj; cases hj
          · exact hf
        refine ⟨?_, ?_, inv.nested, ?_, ?_, ?_, ?_⟩
        · intro j k hj
          dsimp only at hj ⊢
          by_cases hji : j = i
          · subst hji; rw [setPc_same] at hj; cases hj
          · rw [setPc_other _ _ hji] at hj
            have hh := inv.holder j k hj
            rw [hlk] at hh; exact hh
        · intro j hj
          dsimp only at hj ⊢
          by_cases hji : j = i
          · subst hji; rw [setPc_same] at hj; cases hj
          · rw [setPc_other _ _ hji] at hj; exact inv.fresh j hj
        · intro j k hj
          dsimp only at hj ⊢
          by_cases hji : j = i
          · subst hji; rw [setPc_same] at hj; cases hj
          · rw [setPc_other _ _ hji] at hj; exact inv.pos j k hj
        · intro j hj
          dsimp only at hj
          by_cases hji : j = i
          · subst hji; rw [setPc_same] at hj; cases hj
          · rw [setPc_other _ _ hji] at hj; exact inv.no_checked j hj
        · intro _
          exact Or.inr (failed_kept s i _ hnf hfailed)
        · intro j _
          exact failed_kept s i _ hnf hfailed
      · rw [if_neg hin] at h
        simp only [Option.some.injEq] at h
        subst h
        have hin : s.inside = false := by simpa using hin
        refine ⟨?_, ?_, inv.nested, ?_, ?_, ?_, ?_⟩
        · intro j k hj
          dsimp only at hj ⊢
          by_cases hji : j = i
          · subst hji; rfl
          · rw [setPc_other _ _ hji] at hj
            have := inv.holder j k hj
            rw [hlk] at this; cases this
        · intro j _
          exact hin
        · intro j k hj
          dsimp only at hj ⊢
          by_cases hji : j = i
          · subst hji; rw [setPc_same] at hj; cases hj
          · rw [setPc_other _ _ hji] at hj; exact inv.pos j k hj
        · intro j hj
          dsimp only at hj
          by_cases hji : j = i
          · subst hji; rw [setPc_same] at hj; cases hj
          · rw [setPc_other _ _ hji] at hj; exact inv.no_checked j hj
        · intro hi
          dsimp only at hi
          rw [hin] at hi; cases hi
        · intro j hj
          dsimp only at hj ⊢
          by_cases hji : j = i
          · subst hji; rw [setPc_same] at hj; cases hj
          · rw [setPc_other _ _ hji] at hj
            exact failed_kept s i _ hnf (inv.why_refused j hj)
  | checked => exact absurd hpc (inv.no_checked i)
  | holding k =>
    rw [hpc] at h
    simp only [Option.some.injEq] at h
    have hlock : s.lock = some i := inv.holder i k hpc
    have hnf : s.pc i ≠ .failed := by rw [hpc]; intro h; cases h
    have others : ∀ j k', j ≠ i → s.pc j ≠ .holding k' := by
      intro j k' hji hj; exact hji (holder_unique p s inv hlock hj)
    unfold holdStep at h
    by_cases hfa : p.failAt i = some k
    · simp only [hfa, if_true] at h
      subst h
      refine ⟨?_, ?_, inv.nested, ?_, ?_, ?_, ?_⟩
      · intro j k' hj
        dsimp only at hj ⊢
        by_cases hji : j = i
        · subst hji; rw [setPc_same] at hj; cases hj
        · rw [setPc_other _ _ hji] at hj; exact absurd hj (others j k' hji)
      · intro j hj
        dsimp only at hj ⊢
        by_cases hji : j = i
        · subst hji; rw [setPc_same] at hj; cases hj
        · rw [setPc_other _ _ hji] at hj; exact absurd hj (others j 0 hji)
      · intro j k' hj
        dsimp only at hj ⊢
        by_cases hji : j = i
        · subst hji; rw [setPc_same] at hj; cases hj
        · rw [setPc_other _ _ hji] at hj; exact absurd hj (others j _ hji)
      · intro j hj
        dsimp only at hj
        by_cases hji : j = i
        · subst hji; rw [setPc_same] at hj; cases hj
        · rw [setPc_other _ _ hji] at hj; exact inv.no_checked j hj
      · intro _; exact Or.inr ⟨i, by simp⟩
      · intro j _; exact ⟨i, by simp⟩
    · simp only [hfa, if_false] at h
      cases hx : (p.job i)[k]? with
      | some x =>
        rw [hx] at h
        dsimp only at h
        subst h
        have hnest : ¬ (k = 0 ∧ s.inside = true) := by
          rintro ⟨hk, hi⟩
          subst hk
          rw [inv.fresh i hpc] at hi; cases hi
        refine ⟨?_, ?_, ?_, ?_, ?_, ?_, ?_⟩
        · intro j k' hj
          dsimp only at hj ⊢
          by_cases hji : j = i
          · subst hji; exact hlock
          · rw [setPc_other _ _ hji] at hj; exact absurd hj (others j k' hji)
        · intro j hj
          dsimp only at hj ⊢
          by_cases hji : j = i
          · subst hji; rw [setPc_same] at hj; cases hj
          · rw [setPc_other _ _ hji] at hj; exact absurd hj (others j 0 hji)
        · dsimp only
          rw [if_neg hnest]; exact inv.nested
        · intro j k' hj
          dsimp only at hj ⊢
          by_cases hji : j = i
          · subst hji
            rw [setPc_same] at hj
            injection hj with hk
            have : k = k' := by omega
            subst this; rfl
          · rw [setPc_other _ _ hji] at hj; exact absurd hj (others j _ hji)
        · intro j hj
          dsimp only at hj
          by_cases hji : j = i
          · subst hji; rw [setPc_same] at hj; cases hj
          · rw [setPc_other _ _ hji] at hj; exact inv.no_checked j hj
        · intro _
          exact Or.inl ⟨i, k, hlock, by simp⟩
        · intro j hj
          dsimp only at hj ⊢
          by_cases hji : j = i
          · subst hji; rw [setPc_same] at hj; cases hj
          · rw [setPc_other _ _ hji] at hj
            exact failed_kept s i _ hnf (inv.why_refused j hj)
      | none =>
        rw [hx] at h
        dsimp only at h
        subst h
        have hlen : (p.job i).length ≤ k := by
          simpa using hx
        refine ⟨?_, ?_, inv.nested, ?_, ?_, ?_, ?_⟩
        · intro j k' hj
          dsimp only at hj ⊢
          by_cases hji : j = i
          · subst hji; rw [setPc_same] at hj; cases hj
          · rw [setPc_other _ _ hji] at hj; exact absurd hj (others j k' hji)
        · intro j hj
          dsimp only at hj ⊢
          by_cases hji : j = i
          · subst hji; rw [setPc_same] at hj; cases hj
          · rw [setPc_other _ _ hji] at hj; exact absurd hj (others j 0 hji)
        · intro j k' hj
          dsimp only at hj ⊢
          by_cases hji : j = i
          · subst hji; rw [setPc_same] at hj; cases hj
          · rw [setPc_other _ _ hji] at hj; exact absurd hj (others j _ hji)
        · intro j hj
          dsimp only at hj
          by_cases hji : j = i
          · subst hji; rw [setPc_same] at hj; cases hj
          · rw [setPc_other _ _ hji] at hj; exact inv.no_checked j hj
        · intro hi
          dsimp only at hi ⊢
          rcases inv.why_inside hi with ⟨j, k', hj, hk⟩ | hf
          · exfalso
            rw [hlock] at hj
            injection hj with hj
            subst hj
            rw [hpc] at hk
            injection hk with hk
            subst hk
            have := inv.pos i k' hpc
            rw [hi] at this
            have : k' + 1 < (p.job i).length := by simpa using this.symm
            omega
          · exact Or.inr (failed_kept s i _ hnf hf)
        · intro j hj
          dsimp only at hj ⊢
          by_cases hji : j = i
          · subst hji; rw [setPc_same] at hj; cases hj
          · rw [setPc_other _ _ hji] at hj
            exact failed_kept s i _ hnf (inv.why_refused j hj)
  | done => rw [hpc] at h; simp at h
  | refused => rw [hpc] at h; simp at h
  | failed => rw [hpc] at h; simp at h

/-- lifted to every schedule -/
theorem inv_run (p : Prog α) (he : ∀ i, p.early i = false) (sched : List Nat) (s : St α)
    (inv : Inv p s) : Inv p (run p s sched) := by
  induction sched generalizing s with
  | nil => exact inv
  | cons i is ih =>
    unfold run
    cases h : step p s i with
    | none => exact ih s inv
    | some s' => exact ih s' (inv_step p he s s' i inv h)

/-- once a call has stopped inside its element (nobody holds the lock, the encoder is inside an
element) no step of any call writes anything or completes -/
theorem dead_run (p : Prog α) (he : ∀ i, p.early i = false) (sched : List Nat) (s : St α)
    (inv : Inv p s) (hl : s.lock = none) (hi : s.inside = true) :
    (run p s sched).wire = s.wire ∧ (run p s sched).finished = s.finished := by
  induction sched generalizing s with
  | nil => exact ⟨rfl, rfl⟩
  | cons i is ih =>
    unfold run
    cases h : step p s i with
    | none => exact ih s inv hl hi
    | some s' =>
      have inv' := inv_step p he s s' i inv h
      have hs : s'.wire = s.wire ∧ s'.finished = s.finished ∧ s'.lock = none ∧ s'.inside = true := by
        unfold step at h
        cases hpc : s.pc i with
        | idle =>
          rw [hpc] at h
          dsimp only at h
          rw [if_neg (by simp [he i]), hl] at h
          dsimp only at h
          rw [if_pos hi] at h
          simp only [Option.some.injEq] at h
          subst h
          exact ⟨rfl, rfl, rfl, hi⟩
        | checked => exact absurd hpc (inv.no_checked i)
        | holding k => have := inv.holder i k hpc; rw [hl] at this; cases this
        | done => rw [hpc] at h; simp at h
        | refused => rw [hpc] at h; simp at h
        | failed => rw [hpc] at h; simp at h
      obtain ⟨hw, hf, hl', hi'⟩ := hs
      have := ih s' inv' hl' hi'
      exact ⟨this.1.trans hw, this.2.trans hf⟩

end XmppModel.SendGuard
