import XmppModel.Model.Caps
/-! Helper lemmas for C20: the orders used by `AppendHash` are total preorders, antisymmetric
on their keys; sorting is determined by the multiset when keys are pairwise distinct. -/
namespace XmppModel.Caps

theorem u8_tri (a b : UInt8) : a < b ∨ a = b ∨ b < a := by
  rcases Nat.lt_trichotomy a.toNat b.toNat with h | h | h
  · exact .inl (UInt8.lt_iff_toNat_lt.mpr h)
  · exact .inr (.inl (UInt8.toNat_inj.mp h))
  · exact .inr (.inr (UInt8.lt_iff_toNat_lt.mpr h))

theorem u8_lt_irrefl (a : UInt8) : ¬ a < a := by
  intro h; have := UInt8.lt_iff_toNat_lt.mp h; omega

theorem u8_lt_asymm {a b : UInt8} (h : a < b) : ¬ b < a := by
  intro h'
  have := UInt8.lt_iff_toNat_lt.mp h; have := UInt8.lt_iff_toNat_lt.mp h'; omega

theorem u8_lt_trans {a b c : UInt8} (h : a < b) (h' : b < c) : a < c := by
  have := UInt8.lt_iff_toNat_lt.mp h; have := UInt8.lt_iff_toNat_lt.mp h'
  exact UInt8.lt_iff_toNat_lt.mpr (by omega)

theorem lexLe_cons (a b : UInt8) (as bs : Bytes) :
    lexLe (a :: as) (b :: bs) = true ↔ a < b ∨ (a = b ∧ lexLe as bs = true) := by
  simp [lexLe]

theorem lexLe_refl : ∀ a : Bytes, lexLe a a = true
  | [] => rfl
  | a :: as => by rw [lexLe_cons]; exact .inr ⟨rfl, lexLe_refl as⟩

theorem lexLe_total : ∀ a b : Bytes, (lexLe a b || lexLe b a) = true
  | [], _ => by simp [lexLe]
  | _ :: _, [] => by simp [lexLe]
  | a :: as, b :: bs => by
    rw [Bool.or_eq_true, lexLe_cons, lexLe_cons]
    rcases u8_tri a b with h | h | h
    · exact .inl (.inl h)
    · subst h
      have := lexLe_total as bs
      rw [Bool.or_eq_true] at this
      rcases this with t | t
      · exact .inl (.inr ⟨rfl, t⟩)
      · exact .inr (.inr ⟨rfl, t⟩)
    · exact .inr (.inl h)

theorem lexLe_trans : ∀ a b c : Bytes, lexLe a b = true → lexLe b c = true → lexLe a c = true
  | [], _, _, _, _ => by simp [lexLe]
  | _ :: _, [], _, h, _ => by simp [lexLe] at h
  | _ :: _, _ :: _, [], _, h => by simp [lexLe] at h
  | a :: as, b :: bs, c :: cs, h1, h2 => by
    rw [lexLe_cons] at h1 h2 ⊢
    rcases h1 with h1 | ⟨rfl, h1⟩
    · rcases h2 with h2 | ⟨rfl, _⟩
      · exact .inl (u8_lt_trans h1 h2)
      · exact .inl h1
    · rcases h2 with h2 | ⟨rfl, h2⟩
      · exact .inl h2
      · exact .inr ⟨rfl, lexLe_trans as bs cs h1 h2⟩

theorem lexLe_antisymm : ∀ a b : Bytes, lexLe a b = true → lexLe b a = true → a = b
  | [], [], _, _ => rfl
  | [], _ :: _, _, h => by simp [lexLe] at h
  | _ :: _, [], h, _ => by simp [lexLe] at h
  | a :: as, b :: bs, h1, h2 => by
    rw [lexLe_cons] at h1 h2
    rcases h1 with h1 | ⟨rfl, h1⟩
    · rcases h2 with h2 | ⟨rfl, _⟩
      · exact absurd h2 (u8_lt_asymm h1)
      · exact absurd h1 (u8_lt_irrefl _)
    · rcases h2 with h2 | ⟨_, h2⟩
      · exact absurd h2 (u8_lt_irrefl _)
      · rw [lexLe_antisymm as bs h1 h2]

/-! ### the key cascade -/

theorem keysLe_cons (a b : Bytes) (as bs : List Bytes) :
    keysLe (a :: as) (b :: bs) = true ↔
      (a ≠ b ∧ lexLe a b = true) ∨ (a = b ∧ keysLe as bs = true) := by
  by_cases h : a = b <;> simp [keysLe, h]

theorem keysLe_total : ∀ a b : List Bytes, (keysLe a b || keysLe b a) = true
  | [], _ => by simp [keysLe]
  | _ :: _, [] => by simp [keysLe]
  | a :: as, b :: bs => by
    rw [Bool.or_eq_true, keysLe_cons, keysLe_cons]
    by_cases h : a = b
    · subst h
      have := keysLe_total as bs
      rw [Bool.or_eq_true] at this
      rcases this with t | t
      · exact .inl (.inr ⟨rfl, t⟩)
      · exact .inr (.inr ⟨rfl, t⟩)
    · have := lexLe_total a b
      rw [Bool.or_eq_true] at this
      rcases this with t | t
      · exact .inl (.inl ⟨h, t⟩)
      · exact .inr (.inl ⟨fun e => h e.symm, t⟩)

theorem keysLe_trans : ∀ a b c : List Bytes,
    keysLe a b = true → keysLe b c = true → keysLe a c = true
  | [], _, _, _, _ => by simp [keysLe]
  | _ :: _, [], _, h, _ => by simp [keysLe] at h
  | _ :: _, _ :: _, [], _, h => by simp [keysLe] at h
  | a :: as, b :: bs, c :: cs, h1, h2 => by
    rw [keysLe_cons] at h1 h2 ⊢
    rcases h1 with ⟨n1, h1⟩ | ⟨rfl, h1⟩
    · rcases h2 with ⟨n2, h2⟩ | ⟨rfl, _⟩
      · refine .inl ⟨?_, lexLe_trans a b c h1 h2⟩
        intro e; subst e
        exact n1 (lexLe_antisymm _ _ h1 h2)
      · exact .inl ⟨n1, h1⟩
    · rcases h2 with ⟨n2, h2⟩ | ⟨rfl, h2⟩
      · exact .inl ⟨n2, h2⟩
      · exact .inr ⟨rfl, keysLe_trans as bs cs h1 h2⟩

theorem keysLe_antisymm : ∀ a b : List Bytes, a.length = b.length →
    keysLe a b = true → keysLe b a = true → a = b
  | [], [], _, _, _ => rfl
  | [], _ :: _, h, _, _ => by simp at h
  | _ :: _, [], h, _, _ => by simp at h
  | a :: as, b :: bs, hl, h1, h2 => by
    rw [keysLe_cons] at h1 h2
    rcases h1 with ⟨n1, h1⟩ | ⟨rfl, h1⟩
    · rcases h2 with ⟨_, h2⟩ | ⟨e, _⟩
      · exact absurd (lexLe_antisymm _ _ h1 h2) n1
      · exact absurd e.symm n1
    · rcases h2 with ⟨n2, _⟩ | ⟨_, h2⟩
      · exact absurd rfl n2
      · rw [keysLe_antisymm as bs (by simpa using hl) h1 h2]

/-! ### sorting is determined by the multiset -/

/-- Two lists with the same elements, sorted by a total preorder that is antisymmetric on
those elements, are sorted to the same list. -/
theorem mergeSort_eq_of_perm {α} {le : α → α → Bool}
    (trans : ∀ a b c, le a b = true → le b c = true → le a c = true)
    (total : ∀ a b, (le a b || le b a) = true)
    {l₁ l₂ : List α} (h : l₁.Perm l₂)
    (anti : ∀ a b, a ∈ l₁ → b ∈ l₁ → le a b = true → le b a = true → a = b) :
    l₁.mergeSort le = l₂.mergeSort le := by
  apply List.Perm.eq_of_pairwise (le := fun a b => le a b = true)
  · intro a b ha hb
    rw [List.mem_mergeSort] at ha hb
    exact anti a b ha (h.symm.subset hb)
  · exact List.pairwise_mergeSort trans total l₁
  · exact List.pairwise_mergeSort trans total l₂
  · exact (List.mergeSort_perm l₁ le).trans (h.trans (List.mergeSort_perm l₂ le).symm)

/-- any sorted permutation is the one `mergeSort` computes -/
theorem sorted_perm_unique {α} {le : α → α → Bool}
    (trans : ∀ a b c, le a b = true → le b c = true → le a c = true)
    (total : ∀ a b, (le a b || le b a) = true)
    {l s : List α} (hp : s.Perm l) (hs : s.Pairwise (fun a b => le a b = true))
    (anti : ∀ a b, a ∈ l → b ∈ l → le a b = true → le b a = true → a = b) :
    s = l.mergeSort le := by
  apply List.Perm.eq_of_pairwise (le := fun a b => le a b = true)
  · intro a b ha hb
    rw [List.mem_mergeSort] at hb
    exact anti a b (hp.subset ha) hb
  · exact hs
  · exact List.pairwise_mergeSort trans total l
  · exact hp.trans (List.mergeSort_perm l le).symm

theorem sortStrings_perm {l₁ l₂ : List Bytes} (h : l₁.Perm l₂) :
    sortStrings l₁ = sortStrings l₂ :=
  mergeSort_eq_of_perm lexLe_trans lexLe_total h (fun a b _ _ => lexLe_antisymm a b)

end XmppModel.Caps

namespace XmppModel.Caps

/-- in a list whose elements have pairwise distinct keys, the key determines the element -/
theorem pairwise_ne_inj {α κ} {k : α → κ} {l : List α}
    (h : l.Pairwise (fun a b => k a ≠ k b)) {a b : α} (ha : a ∈ l) (hb : b ∈ l)
    (e : k a = k b) : a = b := by
  induction l with
  | nil => simp at ha
  | cons x l ih =>
    rw [List.pairwise_cons] at h
    rw [List.mem_cons] at ha hb
    rcases ha with rfl | ha <;> rcases hb with rfl | hb
    · rfl
    · exact absurd e (h.1 b hb)
    · exact absurd e.symm (h.1 a ha)
    · exact ih h.2 ha hb

theorem forall₂_map_eq {α β γ} {E : α → β → Prop} {f : α → γ} {g : β → γ} {l : List α}
    {l' : List β} (h : All₂ E l l') (he : ∀ a ∈ l, ∀ b, E a b → f a = g b) :
    l.map f = l'.map g := by
  induction h with
  | nil => rfl
  | cons hab _ ih =>
    simp only [List.map_cons]
    rw [he _ (by simp) _ hab, ih (fun a ha b => he a (by simp [ha]) b)]

theorem forall₂_filter {α β} {E : α → β → Prop} {p : α → Bool} {q : β → Bool} {l : List α}
    {l' : List β} (h : All₂ E l l') (he : ∀ a b, E a b → p a = q b) :
    All₂ E (l.filter p) (l'.filter q) := by
  induction h with
  | nil => exact .nil
  | @cons a b _ _ hab _ ih =>
    simp only [List.filter_cons, he a b hab]
    cases q b
    · exact ih
    · exact .cons hab ih

/-- `find?` of related lists with agreeing predicates finds related elements -/
theorem forall₂_find? {α β} {E : α → β → Prop} {p : α → Bool} {q : β → Bool} {l : List α}
    {l' : List β} (h : All₂ E l l') (he : ∀ a b, E a b → p a = q b) :
    (l.find? p = none ∧ l'.find? q = none) ∨
    ∃ a b, l.find? p = some a ∧ l'.find? q = some b ∧ E a b := by
  induction h with
  | nil => exact .inl ⟨rfl, rfl⟩
  | @cons a b _ _ hab _ ih =>
    simp only [List.find?_cons, he a b hab]
    cases q b
    · exact ih
    · exact .inr ⟨a, b, rfl, rfl, hab⟩

/-- `find?` by key does not depend on the order when keys are pairwise distinct -/
theorem find?_perm {α κ} [BEq κ] [LawfulBEq κ] {k : α → κ} {l₁ l₂ : List α} (hp : l₁.Perm l₂)
    (hd : l₁.Pairwise (fun a b => k a ≠ k b)) (x : κ) :
    l₁.find? (fun a => k a == x) = l₂.find? (fun a => k a == x) := by
  cases h1 : l₁.find? (fun a => k a == x) with
  | none =>
    rw [List.find?_eq_none] at h1
    symm; rw [List.find?_eq_none]
    intro a ha; exact h1 a (hp.symm.subset ha)
  | some a =>
    have ha := List.mem_of_find?_eq_some h1
    have hka : k a = x := by simpa using List.find?_some h1
    cases h2 : l₂.find? (fun a => k a == x) with
    | none =>
      rw [List.find?_eq_none] at h2
      exact absurd (by simpa using hka) (h2 a (hp.subset ha))
    | some b =>
      have hb := List.mem_of_find?_eq_some h2
      have hkb : k b = x := by simpa using List.find?_some h2
      rw [pairwise_ne_inj hd ha (hp.symm.subset hb) (hka.trans hkb.symm)]

/-- Sorting by a key and rendering depends only on the multiset of normal forms `nf`, when the
order is antisymmetric on the normal forms present. -/
theorem sort_render_congr {α β} {le : α → α → Bool} {leβ : β → β → Bool} {nf : α → β}
    {render : α → Bytes} {r : β → Bytes}
    (hle : ∀ a b, le a b = leβ (nf a) (nf b)) (hr : ∀ a, render a = r (nf a))
    (trans : ∀ a b c, leβ a b = true → leβ b c = true → leβ a c = true)
    (total : ∀ a b, (leβ a b || leβ b a) = true)
    {l₁ l₂ : List α} (hp : (l₁.map nf).Perm (l₂.map nf))
    (anti : ∀ a b, a ∈ l₁.map nf → b ∈ l₁.map nf → leβ a b = true → leβ b a = true → a = b) :
    (l₁.mergeSort le).flatMap render = (l₂.mergeSort le).flatMap render := by
  have hr' : render = fun a => r (nf a) := funext hr
  subst hr'
  have key : ∀ l : List α, (l.mergeSort le).flatMap (fun a => r (nf a)) =
      ((l.map nf).mergeSort leβ).flatMap r := by
    intro l
    rw [← List.map_mergeSort (r := le) (s := leβ) (f := nf) (fun a _ b _ => hle a b),
      List.flatMap_map]
  rw [key, key, mergeSort_eq_of_perm trans total hp anti]

end XmppModel.Caps

namespace XmppModel.Caps

theorem renderField_congr {f g : Field} (h : FieldEqv f g) : renderField f = renderField g := by
  unfold renderField
  rw [h.1, sortStrings_perm h.2]

theorem formType_congr {F G : Form} (h : FormEqv F G) (wf : F.WF) : F.formType = G.formType := by
  obtain ⟨l, hp, hr⟩ := h
  unfold Form.formType
  rw [find?_perm (k := Field.var) hp wf.1 formTypeVar]
  rcases forall₂_find? (p := fun fd => fd.var == formTypeVar) (q := fun fd => fd.var == formTypeVar)
      hr (fun a b e => by simp [e.1]) with ⟨h1, h2⟩ | ⟨a, b, h1, h2, e⟩
  · rw [h1, h2]
  · rw [h1, h2]
    have ha : a ∈ F.fields := hp.symm.subset (List.mem_of_find?_eq_some h1)
    have hv : a.var = formTypeVar := by simpa using List.find?_some h1
    have hlen := wf.2 a ha hv
    have hperm := e.2
    have hvals : a.values = b.values := by
      match hva : a.values with
      | [] => rw [hva] at hperm; simpa using hperm
      | [x] => rw [hva] at hperm; simpa using hperm
      | _ :: _ :: _ => rw [hva] at hlen; simp at hlen
    simp only [hvals]

theorem fieldLe_total (a b : Field) : (fieldLe a b || fieldLe b a) = true := lexLe_total _ _
theorem fieldLe_trans (a b c : Field) : fieldLe a b = true → fieldLe b c = true → fieldLe a c = true :=
  lexLe_trans _ _ _
theorem formLe_total (a b : Form) : (formLe a b || formLe b a) = true := lexLe_total _ _
theorem formLe_trans (a b c : Form) : formLe a b = true → formLe b c = true → formLe a c = true :=
  lexLe_trans _ _ _
theorem idLe_total (a b : Identity) : (idLe a b || idLe b a) = true := keysLe_total _ _
theorem idLe_trans (a b c : Identity) : idLe a b = true → idLe b c = true → idLe a c = true :=
  keysLe_trans _ _ _
theorem idLe_antisymm (a b : Identity) (h1 : idLe a b = true) (h2 : idLe b a = true) :
    idKey a = idKey b := keysLe_antisymm _ _ (by simp [idKey]) h1 h2

/-- order on (key, rendering) pairs: by key only -/
def pairLe (p q : Bytes × Bytes) : Bool := lexLe p.1 q.1

theorem dataFields_render_congr {F G : Form} (h : FormEqv F G) (wf : F.WF) :
    (F.dataFields.mergeSort fieldLe).flatMap renderField =
    (G.dataFields.mergeSort fieldLe).flatMap renderField := by
  obtain ⟨l, hp, hr⟩ := h
  let nf : Field → Bytes × Bytes := fun fd => (fd.var, renderField fd)
  have hmap : (F.dataFields.map nf).Perm (G.dataFields.map nf) := by
    have h1 : (F.dataFields.map nf).Perm ((l.filter (fun fd => fd.var != formTypeVar)).map nf) :=
      (hp.filter _).map nf
    have h2 : (l.filter (fun fd => fd.var != formTypeVar)).map nf = G.dataFields.map nf :=
      forall₂_map_eq (forall₂_filter hr (fun a b e => by simp [e.1]))
        (fun a _ b e => by simp only [nf]; rw [e.1, renderField_congr e])
    exact h2 ▸ h1
  refine sort_render_congr (leβ := pairLe) (nf := nf) (r := Prod.snd) (fun _ _ => rfl) (fun _ => rfl)
    (fun a b c => lexLe_trans _ _ _) (fun a b => lexLe_total _ _) hmap ?_
  intro p q hp' hq' h1 h2
  rw [List.mem_map] at hp' hq'
  obtain ⟨a, ha, rfl⟩ := hp'
  obtain ⟨b, hb, rfl⟩ := hq'
  have hv : a.var = b.var := lexLe_antisymm _ _ h1 h2
  have ha' : a ∈ F.fields := (List.mem_filter.mp ha).1
  have hb' : b ∈ F.fields := (List.mem_filter.mp hb).1
  rw [pairwise_ne_inj wf.1 ha' hb' hv]

theorem renderForm_congr {F G : Form} (h : FormEqv F G) (wf : F.WF) :
    renderForm F = renderForm G := by
  unfold renderForm
  rw [formType_congr h wf, dataFields_render_congr h wf]

theorem forms_render_congr {fs gs : List Form} (h : ∃ l, fs.Perm l ∧ All₂ FormEqv l gs)
    (hd : fs.Pairwise (fun a b => a.formType ≠ b.formType)) (wf : ∀ F ∈ fs, F.WF) :
    (fs.mergeSort formLe).flatMap renderForm = (gs.mergeSort formLe).flatMap renderForm := by
  obtain ⟨l, hp, hr⟩ := h
  let nf : Form → Bytes × Bytes := fun F => (F.formType, renderForm F)
  have hmap : (fs.map nf).Perm (gs.map nf) := by
    have h2 : l.map nf = gs.map nf :=
      forall₂_map_eq hr (fun a ha b e => by
        have wa := wf a (hp.symm.subset ha)
        simp only [nf]; rw [formType_congr e wa, renderForm_congr e wa])
    exact h2 ▸ hp.map nf
  refine sort_render_congr (leβ := pairLe) (nf := nf) (r := Prod.snd) (fun _ _ => rfl) (fun _ => rfl)
    (fun a b c => lexLe_trans _ _ _) (fun a b => lexLe_total _ _) hmap ?_
  intro p q hp' hq' h1 h2
  rw [List.mem_map] at hp' hq'
  obtain ⟨a, ha, rfl⟩ := hp'
  obtain ⟨b, hb, rfl⟩ := hq'
  have hv : a.formType = b.formType := lexLe_antisymm _ _ h1 h2
  rw [pairwise_ne_inj hd ha hb hv]

end XmppModel.Caps

namespace XmppModel.Caps

theorem all₂_eq_map {α β} {R : α → β → Prop} {f : α → β} {l : List α} {rs : List β}
    (h : All₂ R l rs) (hf : ∀ a ∈ l, ∀ b, R a b → b = f a) : rs = l.map f := by
  induction h with
  | nil => rfl
  | cons hab _ ih =>
    simp only [List.map_cons]
    rw [hf _ (by simp) _ hab, ih (fun a ha b => hf a (by simp [ha]) b)]

/-- §5.1 determines the rendering of a field -/
theorem fieldSpec_unique {fd : Field} {r : Bytes} (h : FieldSpec fd r) : r = renderField fd := by
  obtain ⟨vals, hs, rfl⟩ := h
  rw [sorted_perm_unique lexLe_trans lexLe_total hs.1 hs.2 (fun a b _ _ => lexLe_antisymm a b)]
  rfl

/-- … and of a form whose fields have pairwise distinct `var`s -/
theorem formSpec_unique {F : Form} {r : Bytes} (wf : F.WF) (h : FormSpec F r) :
    r = renderForm F := by
  obtain ⟨fields, rs, hs, hrs, rfl⟩ := h
  have hd : F.dataFields.Pairwise (fun a b => a.var ≠ b.var) := wf.1.filter _
  have hf : fields = F.dataFields.mergeSort fieldLe :=
    sorted_perm_unique fieldLe_trans fieldLe_total hs.1 hs.2
      (fun a b ha hb h1 h2 => pairwise_ne_inj hd ha hb (lexLe_antisymm _ _ h1 h2))
  subst hf
  rw [all₂_eq_map hrs (fun a _ b hb => fieldSpec_unique hb)]
  simp [renderForm, List.flatMap_def]

/-- a stable sort of two elements -/
theorem mergeSort_pair {α} (le : α → α → Bool) (a b : α) :
    [a, b].mergeSort le = if le a b then [a, b] else [b, a] := by
  simp [List.mergeSort, List.MergeSort.Internal.splitInTwo, List.merge]

/-! ## Round D: rendering a sorted list is a rearrangement of rendering the given list; lengths -/

theorem flatMap_sort_perm {α} (le : α → α → Bool) (f : α → Bytes) (l : List α) :
    ((l.mergeSort le).flatMap f).Perm (l.flatMap f) :=
  (List.mergeSort_perm l le).flatMap_right f

theorem renderField_perm (f : Field) : (renderField f).Perm (renderFieldGiven f) := by
  unfold renderField renderFieldGiven sortStrings
  exact List.Perm.append_left _ (flatMap_sort_perm _ _ _)

theorem flatMap_perm_congr {α} {f g : α → Bytes} (l : List α) (h : ∀ a, (f a).Perm (g a)) :
    (l.flatMap f).Perm (l.flatMap g) := by
  induction l with
  | nil => simp
  | cons a l ih => simpa [List.flatMap_cons] using List.Perm.append (h a) ih

theorem renderForm_perm (F : Form) : (renderForm F).Perm (renderFormGiven F) := by
  unfold renderForm renderFormGiven
  exact List.Perm.append_left _
    ((flatMap_sort_perm _ _ _).trans (flatMap_perm_congr _ renderField_perm))

theorem length_flatMap_eq {α} (f : α → Bytes) (g : α → Nat) (l : List α)
    (h : ∀ a, (f a).length = g a) : (l.flatMap f).length = (l.map g).sum := by
  induction l with
  | nil => simp
  | cons a l ih => simp [List.flatMap_cons, h, ih]

theorem renderFieldGiven_length (f : Field) : (renderFieldGiven f).length = f.size := by
  unfold renderFieldGiven Field.size
  rw [List.length_append, List.length_append, length_flatMap_eq renderFeat strSize]
  · simp [lt]
  · intro a; simp [renderFeat, strSize, lt]

theorem renderFormGiven_length (F : Form) : (renderFormGiven F).length = F.size := by
  unfold renderFormGiven Form.size
  rw [List.length_append, List.length_append, length_flatMap_eq _ _ _ renderFieldGiven_length]
  simp [lt]


end XmppModel.Caps
