import XmppModel.Model.Negotiate
/-!
Helper lemmas for the negotiation machine (`Model/Negotiate.lean`): bit-mask facts, the
shape of the helper steps, reachability and the invariants the property theorems of C01 and
C04 are read off from.
-/
namespace XmppModel.Negotiate

/-! ### bit masks -/

theorem sub_iff (a b : St) : sub a b ↔ ∀ i, a.getLsbD i = true → b.getLsbD i = true := by
  unfold sub
  constructor
  · intro h i hi
    have := congrArg (fun x => x.getLsbD i) h
    simp at this
    exact this hi
  · intro h
    apply BitVec.eq_of_getLsbD_eq
    intro i _
    simp
    exact h i

theorem sub_refl (a : St) : sub a a := by rw [sub_iff]; intro i h; exact h
theorem sub_or_left (a m : St) : sub a (a ||| m) := by rw [sub_iff]; intro i h; simp [h]
theorem sub_or_right (a m : St) : sub m (a ||| m) := by rw [sub_iff]; intro i h; simp [h]
theorem sub_trans {a b c : St} (h1 : sub a b) (h2 : sub b c) : sub a c := by
  rw [sub_iff] at *; intro i h; exact h2 i (h1 i h)

theorem has_iff (st b : St) : has st b = true ↔ sub b st := by
  unfold has sub
  rw [BitVec.and_comm]
  simp

/-- `Ready` is a single bit: it is in a union only if it is in one of the parts -/
theorem has_ready_or (a m : St) (h : has (a ||| m) bReady = true) :
    has a bReady = true ∨ has m bReady = true := by
  rw [has_iff, sub_iff] at h
  have h2 := h 2 (by decide)
  simp at h2
  rcases h2 with h2 | h2
  · left; rw [has_iff, sub_iff]; intro i hi
    have : i = 2 := by
      by_cases h : i = 2
      · exact h
      · exfalso
        have : bReady.getLsbD i = false := by
          unfold bReady
          match i with
          | 0 | 1 | 3 | 4 | 5 | 6 | 7 => decide
          | 2 => exact absurd rfl h
          | n + 8 => simp [BitVec.getLsbD_of_ge]
        simp [this] at hi
    subst this; exact h2
  · right; rw [has_iff, sub_iff]; intro i hi
    have : i = 2 := by
      by_cases h : i = 2
      · exact h
      · exfalso
        have : bReady.getLsbD i = false := by
          unfold bReady
          match i with
          | 0 | 1 | 3 | 4 | 5 | 6 | 7 => decide
          | 2 => exact absurd rfl h
          | n + 8 => simp [BitVec.getLsbD_of_ge]
        simp [this] at hi
    subst this; exact h2

theorem has_mono {a : St} (m b : St) (h : has a b = true) : has (a ||| m) b = true := by
  rw [has_iff] at *; exact sub_trans h (sub_or_left a m)

theorem has_or_right (a : St) {m b : St} (h : has m b = true) : has (a ||| m) b = true := by
  rw [has_iff] at *; exact sub_trans h (sub_or_right a m)

/-! ### running -/

theorem run_succ (C : List Feature) (O : Oracle) (n : Nat) (c : Conf) :
    run C O (n + 1) c = step C O (run C O n c) := by
  induction n generalizing c with
  | zero => rfl
  | succ n ih => rw [run, ih]; rfl

/-- configurations reachable from the initial one -/
def Reach (C : List Feature) (O : Oracle) (st0 : St) (script : List Peer) (picks : List FName)
    (c : Conf) : Prop := ∃ n, c = run C O n (init st0 script picks)

theorem reach_ind {C : List Feature} {O : Oracle} {st0 : St} {script : List Peer}
    {picks : List FName} (P : Conf → Prop) (h0 : P (init st0 script picks))
    (hs : ∀ c, Reach C O st0 script picks c → P c → P (step C O c)) :
    ∀ c, Reach C O st0 script picks c → P c := by
  intro c ⟨n, hn⟩
  subst hn
  induction n with
  | zero => exact h0
  | succ n ih => rw [run_succ]; exact hs _ ⟨n, rfl⟩ ih

theorem reach_step {C : List Feature} {O : Oracle} {st0 : St} {script : List Peer}
    {picks : List FName} {c : Conf} (h : Reach C O st0 script picks c) :
    Reach C O st0 script picks (step C O c) := by
  obtain ⟨n, hn⟩ := h
  exact ⟨n + 1, by rw [run_succ, hn]⟩

/-! ### shape of the helper steps -/

@[simp] theorem log_tr (c : Conf) (e : Ev) : (c.log e).tr = e :: c.tr := rfl
@[simp] theorem log_st (c : Conf) (e : Ev) : (c.log e).st = c.st := rfl
@[simp] theorem log_pc (c : Conf) (e : Ev) : (c.log e).pc = c.pc := rfl
@[simp] theorem goto_tr (c : Conf) (p : Pc) : (c.goto p).tr = c.tr := rfl
@[simp] theorem goto_st (c : Conf) (p : Pc) : (c.goto p).st = c.st := rfl
@[simp] theorem goto_pc (c : Conf) (p : Pc) : (c.goto p).pc = p := rfl
@[simp] theorem goto_negd (c : Conf) (p : Pc) : (c.goto p).negd = c.negd := rfl
@[simp] theorem log_negd (c : Conf) (e : Ev) : (c.log e).negd = c.negd := rfl
@[simp] theorem goto_cache (c : Conf) (p : Pc) : (c.goto p).cache = c.cache := rfl
@[simp] theorem log_cache (c : Conf) (e : Ev) : (c.log e).cache = c.cache := rfl

theorem negotiate_st (O : Oracle) (c : Conf) (e : Entry) (forced : Bool) (loop : Pc) :
    (negotiate O c e forced loop).st = c.st ∨
    (negotiate O c e forced loop).st = c.st ||| (O.neg c.tr.length e.f c.st).mask := by
  unfold negotiate
  simp only
  split
  · left; rfl
  · right; split <;> rfl

theorem negotiate_tr (O : Oracle) (c : Conf) (e : Entry) (forced : Bool) (loop : Pc) :
    (negotiate O c e forced loop).tr =
      .neg e.f c.st e.req forced c.srv (O.neg c.tr.length e.f c.st) :: c.tr := by
  unfold negotiate
  simp only
  split
  · rfl
  · split <;> rfl

/-! ### the state only grows -/

theorem writeHdr_st (O : Oracle) (c : Conf) (p : Pc) : (writeHdr O c p).st = c.st := by
  unfold writeHdr Conf.block; (repeat' split) <;> rfl

theorem readHdr_st (O : Oracle) (c : Conf) (p : Pc) : (readHdr O c p).st = c.st := by
  unfold readHdr Conf.block; (repeat' split) <;> rfl

theorem unblock_st (O : Oracle) (c : Conf) (wr : Bool) (ev : Ev) : (unblock O c wr ev).st = c.st := by
  unfold unblock; (repeat' split) <;> rfl

/-- case analysis of one step: the control point, then every branch -/
macro "step_cases" : tactic =>
  `(tactic| (unfold step; split <;> (try dsimp only) <;> (repeat' split) <;> (try dsimp only)))

theorem negotiate_pc (O : Oracle) (c : Conf) (e : Entry) (forced : Bool) (loop : Pc) :
    (negotiate O c e forced loop).pc =
      if (O.neg c.tr.length e.f c.st).err then .fail .cb
      else if (O.neg c.tr.length e.f c.st).restart || e.req then
        .tail (O.neg c.tr.length e.f c.st).mask (O.neg c.tr.length e.f c.st).restart
      else loop := by
  unfold negotiate; dsimp only; split <;> (try split) <;> rfl

theorem negotiate_st_eq (O : Oracle) (c : Conf) (e : Entry) (forced : Bool) (loop : Pc) :
    (negotiate O c e forced loop).st =
      if (O.neg c.tr.length e.f c.st).err then c.st
      else c.st ||| (O.neg c.tr.length e.f c.st).mask := by
  unfold negotiate; dsimp only; split <;> (try split) <;> rfl

theorem negotiate_negd (O : Oracle) (c : Conf) (e : Entry) (forced : Bool) (loop : Pc) :
    (negotiate O c e forced loop).negd =
      if (O.neg c.tr.length e.f c.st).err then c.negd else e.f.name.ns :: c.negd := by
  unfold negotiate; dsimp only; split <;> (try split) <;> rfl

@[simp] theorem negotiate_cache (O : Oracle) (c : Conf) (e : Entry) (forced : Bool) (loop : Pc) :
    (negotiate O c e forced loop).cache = c.cache := by
  unfold negotiate; dsimp only; split <;> (try split) <;> rfl

@[simp] theorem negotiate_lreq (O : Oracle) (c : Conf) (e : Entry) (forced : Bool) (loop : Pc) :
    (negotiate O c e forced loop).lreq = c.lreq := by
  unfold negotiate; dsimp only; split <;> (try split) <;> rfl

@[simp] theorem negotiate_doRestart (O : Oracle) (c : Conf) (e : Entry) (forced : Bool) (loop : Pc) :
    (negotiate O c e forced loop).doRestart = c.doRestart := by
  unfold negotiate; dsimp only; split <;> (try split) <;> rfl

@[simp] theorem negotiate_io (O : Oracle) (c : Conf) (e : Entry) (forced : Bool) (loop : Pc) :
    (negotiate O c e forced loop).io = c.io := by
  unfold negotiate; dsimp only; split <;> (try split) <;> rfl

theorem negotiate_mono (O : Oracle) (c : Conf) (e : Entry) (forced : Bool) (loop : Pc) :
    sub c.st (negotiate O c e forced loop).st := by
  rw [negotiate_st_eq]; split
  · exact sub_refl _
  · exact sub_or_left _ _

/-- the session state only ever grows -/
theorem step_mono (C : List Feature) (O : Oracle) (c : Conf) : sub c.st (step C O c).st := by
  step_cases
  all_goals first
    | exact sub_refl _
    | (simp only [writeHdr_st, readHdr_st, unblock_st, Conf.block]; exact sub_refl _)
    | exact sub_or_left _ _
    | (rw [negotiate_st_eq]; (try dsimp only); split <;> first | exact sub_refl _ | exact sub_or_left _ _)

theorem allowed_sub (cands : List Entry) : ∀ e ∈ allowed cands, e ∈ cands := by
  intro e he
  unfold allowed at he
  split at he
  · exact (List.mem_filter.mp he).1
  · exact he

theorem candidates_spec (c : Conf) (e : Entry) (h : e ∈ candidates c) :
    e ∈ c.cache ∧ e.f.negotiable = true ∧ c.negd.contains e.f.name.ns = false ∧
      eligible c.st e.f = true := by
  unfold candidates at h
  have := List.mem_filter.mp h
  simp only [Bool.and_eq_true, Bool.not_eq_eq_eq_not] at this
  obtain ⟨h1, ⟨h2, h3⟩, h4⟩ := this
  exact ⟨h1, h2, by simpa using h3, h4⟩

/-! ### invariant A: prerequisites and negotiability of every negotiated feature -/

def NegGood : Ev → Prop
  | .neg f st _ _ _ _ => eligible st f = true ∧ f.negotiable = true
  | _ => True

structure InvA (C : List Feature) (c : Conf) : Prop where
  forced : c.pc = .cloop true → ∀ f, tlsFeature C = some f → eligible c.st f = true ∧ f.negotiable = true
  good : ∀ e ∈ c.tr, NegGood e

/-- complete case analysis of one step: control point, helper steps unfolded, every branch;
the resulting configuration is a structure literal in every goal -/
macro "step_all" : tactic =>
  `(tactic| (unfold step; split <;>
      (try simp only [writeHdr, readHdr, negotiate, Conf.log, Conf.goto, Conf.block, unblock]) <;>
      (repeat' split) <;> (try dsimp only)))

theorem invA_step (C : List Feature) (O : Oracle) (c : Conf) (h : InvA C c) : InvA C (step C O c) := by
  obtain ⟨hf, hg⟩ := h
  step_all
  all_goals (constructor <;> (try dsimp only))
  all_goals first
    | exact hg
    | exact hf
    | (intro h; cases h; done)
    | (intro e he; simp only [List.mem_cons] at he; rcases he with rfl | he
       · first
         | exact True.intro
         | (have hm := candidates_spec c _ (allowed_sub _ _ (List.mem_of_find?_eq_some
              ‹List.find? _ (allowed (candidates c)) = some _›))
            exact ⟨hm.2.2.2, hm.2.1⟩)
         | (simp only [NegGood]; simp_all)
       · exact hg e he)
    | (intro _ f hf'; simp_all)

/-! ### invariant B: a failed step stops the machine (C04) -/

/-- the step behind the event failed: a read or write error, end of input, a callback
error -/
def Ev.faulty : Ev → Bool
  | .hdrOut ok => !ok
  | .rd _ r => r != .got
  | .listCall _ _ r => r.err
  | .listOut _ _ ok => !ok
  | .parse _ _ _ err => err
  | .neg _ _ _ _ _ r => r.err
  | _ => false

def Clean (tr : List Ev) : Prop := ∀ e ∈ tr, e.faulty = false

/-- a trace in which at most the last step failed; the only event after a failed step is the
deferred flush of an unfinished features list -/
def FaultShape (tr : List Ev) : Prop :=
  Clean tr ∨ (∃ e rest, tr = e :: rest ∧ e.faulty = true ∧ Clean rest) ∨
    (∃ b e rest, tr = .listAbort b :: e :: rest ∧ e.faulty = true ∧ Clean rest)

def Pc.stopping : Pc → Bool
  | .fail _ | .abort => true
  | _ => false

structure InvB (c : Conf) : Prop where
  live : c.pc.stopping = false → Clean c.tr
  abort : c.pc = .abort → ∃ e rest, c.tr = e :: rest ∧ e.faulty = true ∧ Clean rest
  shape : FaultShape c.tr

theorem clean_cons {e : Ev} {tr : List Ev} (he : e.faulty = false) (h : Clean tr) : Clean (e :: tr) := by
  intro x hx
  simp only [List.mem_cons] at hx
  rcases hx with rfl | hx
  · exact he
  · exact h x hx

theorem invB_step (C : List Feature) (O : Oracle) (c : Conf) (h : InvB c) : InvB (step C O c) := by
  obtain ⟨hl, ha, hs⟩ := h
  step_all
  all_goals (constructor <;> (try dsimp only))
  all_goals first
    | exact hs
    | exact ha
    | exact hl
    | (intro h; cases h; done)
    | (intro h; simp [Pc.stopping] at h; done)
    | (intro _; refine hl ?_; simp_all [Pc.stopping]; done)
    | (intro _; refine clean_cons ?_ (hl ?_) <;> simp_all [Ev.faulty, Pc.stopping] <;> done)
    | (left; refine clean_cons ?_ (hl ?_) <;> simp_all [Ev.faulty, Pc.stopping] <;> done)
    | (right; left; refine ⟨_, _, rfl, ?_, hl ?_⟩ <;> simp_all [Ev.faulty, Pc.stopping] <;> done)
    | (intro _; refine ⟨_, _, rfl, ?_, hl ?_⟩ <;> simp_all [Ev.faulty, Pc.stopping] <;> done)
    | (right; right; obtain ⟨e, rest, h1, h2, h3⟩ := ha ‹_›; exact ⟨_, e, rest, by rw [h1], h2, h3⟩)
    | skip

end XmppModel.Negotiate
