import XmppModel.Model.Correlate
/-!
Invariants of the correlated-wait LTS (`Model/Correlate.lean`), proved inductive action by
action and lifted to every reachable state.
-/
namespace XmppModel.Correlate

/-- table entries point to a requester with that id which has called -/
def InvA (cfg : Cfg) (s : St) : Prop :=
  ∀ x j, s.table x = some j → cfg.ids j = x ∧ s.rpc j ≠ .fresh

def matchesAt (cfg : Cfg) (s : St) (i k : Nat) : Prop :=
  k < s.hist.length ∧ ∀ st, s.hist[k]? = some st → matchesReq cfg i st

structure InvB (cfg : Cfg) (s : St) : Prop where
  offer : ∀ j k, s.spc = .offering j k →
    k + 1 = s.hist.length ∧ matchesAt cfg s j k ∧ s.rpc j ≠ .fresh
      ∧ k ∉ s.hlog ∧ k ∉ s.dropped ∧ ∀ i, (s.rpc i).held ≠ some k
  waitHold : ∀ j k, s.spc = .waitClose j k → (s.rpc j).heldOpen = some k
  holdWait : ∀ i k, (s.rpc i).heldOpen = some k → s.spc = .waitClose i k
  holdMatch : ∀ i k, (s.rpc i).held = some k → matchesAt cfg s i k ∧ k ∉ s.hlog ∧ k ∉ s.dropped
  hlogOld : ∀ k ∈ s.hlog, k < s.hist.length
  dropOld : ∀ k ∈ s.dropped, k < s.hist.length
  uniq : ∀ i i' k, (s.rpc i).held = some k → (s.rpc i').held = some k → i = i'

theorem lookup_some {cfg : Cfg} {s : St} {st : Stanza} {j : Nat} (h : lookup cfg s st = some j) :
    st.resp = true ∧ s.table st.id = some j ∧ cfg.kinds j = st.kind ∧ nsMatch (cfg.spaces j) st.ns = true := by
  unfold lookup at h
  split at h
  · split at h
    · split at h <;> simp_all
    · simp at h
  · simp at h

attribute [local grind] RPc.held RPc.heldOpen


set_option hygiene false in
macro "inv_case" : tactic => `(tactic|
  (split at hs <;> (try split at hs) <;> (try split at hs) <;> (try simp at hs) <;> (try subst hs) <;>
    (try (constructor <;> simp only [matchesAt, matchesReq, upd] at * <;> grind))))

theorem invB_call {cfg s s'} {i : Nat} (h : InvB cfg s) (hs : step cfg s (.call i) = some s') : InvB cfg s' := by
  obtain ⟨h1, h2, h3, h4, h5, h6, h7⟩ := h
  simp only [step] at hs
  inv_case

theorem invB_sendOk {cfg s s'} {i : Nat} (h : InvB cfg s) (hs : step cfg s (.sendOk i) = some s') : InvB cfg s' := by
  obtain ⟨h1, h2, h3, h4, h5, h6, h7⟩ := h
  simp only [step] at hs
  inv_case

theorem invB_sendFail {cfg s s'} {i : Nat} (h : InvB cfg s) (hs : step cfg s (.sendFail i) = some s') : InvB cfg s' := by
  obtain ⟨h1, h2, h3, h4, h5, h6, h7⟩ := h
  simp only [step] at hs
  inv_case

theorem invB_cancel {cfg s s'} {i : Nat} (h : InvB cfg s) (hs : step cfg s (.cancel i) = some s') : InvB cfg s' := by
  obtain ⟨h1, h2, h3, h4, h5, h6, h7⟩ := h
  simp only [step] at hs
  simp at hs; subst hs
  constructor <;> simp only [matchesAt, matchesReq, upd] at * <;> grind

theorem invB_recv {cfg s s'} {i : Nat} (h : InvB cfg s) (hs : step cfg s (.recv i) = some s') : InvB cfg s' := by
  obtain ⟨h1, h2, h3, h4, h5, h6, h7⟩ := h
  simp only [step] at hs
  inv_case

theorem invB_timeout {cfg s s'} {i : Nat} (h : InvB cfg s) (hs : step cfg s (.timeout i) = some s') : InvB cfg s' := by
  obtain ⟨h1, h2, h3, h4, h5, h6, h7⟩ := h
  simp only [step] at hs
  inv_case

theorem invB_dereg {cfg s s'} {i : Nat} (h : InvB cfg s) (hs : step cfg s (.dereg i) = some s') : InvB cfg s' := by
  obtain ⟨h1, h2, h3, h4, h5, h6, h7⟩ := h
  simp only [step] at hs
  split at hs
  · rename_i o ho
    simp at hs; subst hs
    cases o <;> (constructor <;> simp only [matchesAt, matchesReq, upd] at * <;> grind)
  · simp at hs

theorem invB_close {cfg s s'} {i : Nat} (h : InvB cfg s) (hs : step cfg s (.close i) = some s') : InvB cfg s' := by
  obtain ⟨h1, h2, h3, h4, h5, h6, h7⟩ := h
  simp only [step] at hs
  inv_case

theorem invB_abandon {cfg s s'} (h : InvB cfg s) (hs : step cfg s .abandon = some s') : InvB cfg s' := by
  obtain ⟨h1, h2, h3, h4, h5, h6, h7⟩ := h
  simp only [step] at hs
  inv_case

theorem invB_read {cfg s s'} {st : Stanza} (hA : InvA cfg s) (h : InvB cfg s) (hs : step cfg s (.read st) = some s') : InvB cfg s' := by
  obtain ⟨h1, h2, h3, h4, h5, h6, h7⟩ := h
  simp only [step] at hs
  split at hs
  · split at hs
    · rename_i j hl
      have := lookup_some hl
      simp at hs; subst hs
      constructor <;> simp only [matchesAt, matchesReq] at * <;> grind [InvA]
    · split at hs <;>
        (simp at hs; subst hs
         constructor <;> simp only [matchesAt, matchesReq] at * <;> grind)
  · simp at hs

theorem invB_readErr {cfg s s'} {i : Nat} (h : InvB cfg s) (hs : step cfg s (.readErr i) = some s') : InvB cfg s' := by
  obtain ⟨h1, h2, h3, h4, h5, h6, h7⟩ := h
  simp only [step] at hs
  split at hs <;> (try split at hs) <;> (try split at hs) <;> (try simp at hs) <;> (try subst hs) <;>
    (try (constructor <;> simp only [matchesAt, matchesReq, upd] at * <;> grind))

theorem invB_closeOut {cfg s s'} (h : InvB cfg s) (hs : step cfg s .closeOut = some s') : InvB cfg s' := by
  obtain ⟨h1, h2, h3, h4, h5, h6, h7⟩ := h
  simp only [step] at hs
  simp at hs; subst hs
  exact ⟨h1, h2, h3, h4, h5, h6, h7⟩

theorem invA_step {cfg s a s'} (h : InvA cfg s) (hs : step cfg s a = some s') : InvA cfg s' := by
  intro x j hx
  cases a <;> simp only [step] at hs <;> (try split at hs) <;> (try split at hs) <;> (try split at hs) <;>
    (try simp at hs) <;> (try subst hs) <;> (try simp only [upd] at hx ⊢) <;> grind [InvA]

theorem invB_step {cfg s a s'} (hA : InvA cfg s) (h : InvB cfg s) (hs : step cfg s a = some s') : InvB cfg s' := by
  cases a with
  | call i => exact invB_call h hs
  | sendOk i => exact invB_sendOk h hs
  | sendFail i => exact invB_sendFail h hs
  | cancel i => exact invB_cancel h hs
  | recv i => exact invB_recv h hs
  | timeout i => exact invB_timeout h hs
  | dereg i => exact invB_dereg h hs
  | close i => exact invB_close h hs
  | read st => exact invB_read hA h hs
  | abandon => exact invB_abandon h hs
  | closeOut => exact invB_closeOut h hs
  | readErr i => exact invB_readErr h hs

theorem invA_init (cfg : Cfg) : InvA cfg init := by
  intro x j h; simp [init] at h

theorem invB_init (cfg : Cfg) : InvB cfg init := by
  constructor <;> simp [init, RPc.held, RPc.heldOpen]

theorem inv_reach {cfg s} (h : Reach cfg s) : InvA cfg s ∧ InvB cfg s := by
  induction h with
  | init => exact ⟨invA_init cfg, invB_init cfg⟩
  | step _ hs ih => exact ⟨invA_step ih.1 hs, invB_step ih.1 ih.2 hs⟩

/-- a run from a reachable state ends in a reachable state -/
theorem reach_run {cfg s} (h : Reach cfg s) : ∀ {as s'}, run cfg s as = some s' → Reach cfg s' := by
  intro as
  induction as generalizing s with
  | nil => intro s' hr; simp [run] at hr; subst hr; exact h
  | cons a as ih =>
    intro s' hr
    simp only [run] at hr
    split at hr
    · rename_i s1 hs1
      exact ih (Reach.step h hs1) hr
    · simp at hr

/-! ### receipts -/
namespace Receipts

structure InvR (ids : Nat → Nat) (s : RSt) : Prop where
  table : ∀ x j, s.table x = some j →
    ids j = x ∧ (s.wpc j = .sending ∨ s.wpc j = .waiting) ∧ s.buf j = 0 ∧ s.hpc ≠ some j
  hpc : ∀ j, s.hpc = some j → s.buf j = 0
  fresh : ∀ j, s.wpc j = .fresh → s.buf j = 0 ∧ s.hpc ≠ some j
  noOverflow : s.overflow = false

theorem invR_init (ids : Nat → Nat) : InvR ids rinit := by
  constructor <;> simp [rinit]

theorem invR_step {ids s a s'} (h : InvR ids s) (hs : rstep ids s a = some s') : InvR ids s' := by
  obtain ⟨h1, h2, h3, h4⟩ := h
  cases a <;> simp only [rstep] at hs
  case cancel i =>
    simp at hs; subst hs
    constructor <;> simp only [upd] at * <;> grind
  all_goals
    (split at hs <;> (try split at hs) <;> (try simp at hs) <;> (try subst hs) <;>
      (try (constructor <;> simp only [upd] at * <;> grind)))

theorem invR_reach {ids s} (h : RReach ids s) : InvR ids s := by
  induction h with
  | init => exact invR_init ids
  | step _ hs ih => exact invR_step ih hs

end Receipts

end XmppModel.Correlate
